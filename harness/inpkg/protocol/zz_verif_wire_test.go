//go:build verif

package protocol

// In-package verification driver for property C14 (wire codecs), injected with `go test -overlay`.
//
// It only EXECUTES the real codecs and RECORDS what they did (ndjson, one event per line); every
// judgement is made by TLC against spec/Wire.tla and spec/RespParser.tla (spec/mon/MonWire.tla).
//
//   scenario kinds (VERIF_IN, one JSON object per line)          recorded event(s) (VERIF_OUT)
//   enc     type + field values  -> real Encode, then Decode     {k:enc, t, v, b, d}
//   dec     type + 64 bytes      -> real Decode, then Encode     {k:dec, t, b, d, b2}
//   vframe  value frame parts    -> NewLockCommandDataFromBytes  {k:vframe, ..., fr, d}
//   items   array / kv payload   -> SetArray / SetKV + accessors {k:items, ..., fr, d}
//   parse   a text stream        -> BuildRequest/BuildResponse,  {k:build,...} then one {k:obs,...}
//           + how to split it       TextParser fed chunk by chunk  per DISTINCT (prefix length, observation)
//   norm    a key / id string    -> ConvertString2LockKey, ...   {k:norm, s, md5, key, id}
//   render  a lock result        -> WriteTextLock...Result       {k:render, r, out}
//
// Numbers are base-256 numerals (most significant byte first) so that 64-bit counters survive JSON
// and TLC's 32-bit integers; byte strings are JSON arrays of integers.

import (
	"bufio"
	"encoding/json"
	"fmt"
	"os"
	"sort"
	"testing"
)

type vwVals map[string][]int

type vwScenario struct {
	K        string          `json:"k"`
	Id       int             `json:"id"`
	T        string          `json:"t"`
	V        vwVals          `json:"v"`
	B        []int           `json:"b"`
	Stage    int             `json:"stage"`
	Ctype    int             `json:"ctype"`
	Flag     int             `json:"flag"`
	HasProps bool            `json:"hasprops"`
	Props    []vwProp        `json:"props"`
	Data     []int           `json:"data"`
	Via      string          `json:"via"`
	Kind     string          `json:"kind"`
	Items    [][]int         `json:"items"`
	Mode     string          `json:"mode"`
	Stream   []vwStreamItem  `json:"stream"`
	Split    string          `json:"split"`
	Cuts     [][]int         `json:"cuts"`
	NRand    int             `json:"nrand"`
	Seed     int64           `json:"seed"`
	MaxCuts  int             `json:"maxcuts"`
	RbufSize int             `json:"rbuf"`
	S        []int           `json:"s"`
	Md5      []int           `json:"md5"`
	R        vwVals          `json:"r"`
	Md5s     [][]int         `json:"md5s"`
	Name     string          `json:"name"`
	Extra    json.RawMessage `json:"extra"`
}

type vwProp struct {
	Code  int   `json:"code"`
	Value []int `json:"value"`
}

// one element of a text stream: a request (args), a response (ok,msg,results) or raw bytes
type vwStreamItem struct {
	Kind string  `json:"kind"` // req | status | error | results | raw
	Args [][]int `json:"args"`
	Msg  []int   `json:"msg"`
	Raw  []int   `json:"raw"`
}

func vwInts(b []byte) []int {
	r := make([]int, len(b))
	for i, x := range b {
		r[i] = int(x)
	}
	return r
}

func vwBytes(a []int) []byte {
	r := make([]byte, len(a))
	for i, x := range a {
		r[i] = byte(x)
	}
	return r
}

func vwNum(v uint64, w int) []int {
	r := make([]int, w)
	for i := 0; i < w; i++ {
		r[w-1-i] = int(byte(v >> (8 * uint(i))))
	}
	return r
}

func vwVal(a []int) uint64 {
	var v uint64
	for _, x := range a {
		v = v<<8 | uint64(byte(x))
	}
	return v
}

func vwArr16(a []int) [16]byte {
	var r [16]byte
	for i := 0; i < 16 && i < len(a); i++ {
		r[i] = byte(a[i])
	}
	return r
}

type vwCodec interface {
	Encode(buf []byte) error
	Decode(buf []byte) error
}

func vwHdr(v vwVals) Command {
	return Command{Magic: uint8(vwVal(v["Magic"])), Version: uint8(vwVal(v["Version"])), CommandType: uint8(vwVal(v["CommandType"])), RequestId: vwArr16(v["RequestId"])}
}

func vwRHdr(v vwVals) ResultCommand {
	return ResultCommand{Magic: uint8(vwVal(v["Magic"])), Version: uint8(vwVal(v["Version"])), CommandType: uint8(vwVal(v["CommandType"])), RequestId: vwArr16(v["RequestId"]), Result: uint8(vwVal(v["Result"]))}
}

// vwBuild makes the real command object of layout t from field values (nil v: the zero object).
func vwBuild(t string, v vwVals) vwCodec {
	if v == nil {
		v = vwVals{}
	}
	switch t {
	case "command":
		c := vwHdr(v)
		return &c
	case "init":
		return &InitCommand{Command: vwHdr(v), ClientId: vwArr16(v["ClientId"])}
	case "lock":
		return &LockCommand{Command: vwHdr(v), Flag: uint8(vwVal(v["Flag"])), DbId: uint8(vwVal(v["DbId"])), LockId: vwArr16(v["LockId"]), LockKey: vwArr16(v["LockKey"]),
			TimeoutFlag: uint16(vwVal(v["TimeoutFlag"])), Timeout: uint16(vwVal(v["Timeout"])), ExpriedFlag: uint16(vwVal(v["ExpriedFlag"])), Expried: uint16(vwVal(v["Expried"])),
			Count: uint16(vwVal(v["Count"])), Rcount: uint8(vwVal(v["Rcount"]))}
	case "state":
		return &StateCommand{Command: vwHdr(v), Flag: uint8(vwVal(v["Flag"])), DbId: uint8(vwVal(v["DbId"]))}
	case "admin":
		return &AdminCommand{Command: vwHdr(v), AdminType: uint8(vwVal(v["AdminType"]))}
	case "ping":
		return &PingCommand{Command: vwHdr(v)}
	case "quit":
		return &QuitCommand{Command: vwHdr(v)}
	case "call":
		return &CallCommand{Command: vwHdr(v), Flag: uint8(vwVal(v["Flag"])), Encoding: uint8(vwVal(v["Encoding"])), Charset: uint8(vwVal(v["Charset"])),
			ContentLen: uint32(vwVal(v["ContentLen"])), MethodName: string(vwBytes(v["MethodName"]))}
	case "leader":
		return &LeaderCommand{Command: vwHdr(v), Flag: uint8(vwVal(v["Flag"]))}
	case "subscribe":
		return &SubscribeCommand{Command: vwHdr(v), Flag: uint8(vwVal(v["Flag"])), ClientId: uint32(vwVal(v["ClientId"])), SubscribeId: uint32(vwVal(v["SubscribeId"])),
			SubscribeType: uint8(vwVal(v["SubscribeType"])), LockKeyMask: vwArr16(v["LockKeyMask"]), Expried: uint32(vwVal(v["Expried"])), MaxSize: uint32(vwVal(v["MaxSize"]))}
	case "r_command":
		c := vwRHdr(v)
		return &c
	case "r_init":
		return &InitResultCommand{ResultCommand: vwRHdr(v), InitType: uint8(vwVal(v["InitType"]))}
	case "r_lock":
		return &LockResultCommand{ResultCommand: vwRHdr(v), Flag: uint8(vwVal(v["Flag"])), DbId: uint8(vwVal(v["DbId"])), LockId: vwArr16(v["LockId"]), LockKey: vwArr16(v["LockKey"]),
			Lcount: uint16(vwVal(v["Lcount"])), Count: uint16(vwVal(v["Count"])), Lrcount: uint8(vwVal(v["Lrcount"])), Rcount: uint8(vwVal(v["Rcount"]))}
	case "r_state":
		return &StateResultCommand{ResultCommand: vwRHdr(v), Flag: uint8(vwVal(v["Flag"])), DbState: uint8(vwVal(v["DbState"])), DbId: uint8(vwVal(v["DbId"])),
			State: LockDBState{LockCount: vwVal(v["LockCount"]), UnLockCount: vwVal(v["UnLockCount"]), LockedCount: uint32(vwVal(v["LockedCount"])), WaitCount: uint32(vwVal(v["WaitCount"])),
				TimeoutedCount: uint32(vwVal(v["TimeoutedCount"])), ExpriedCount: uint32(vwVal(v["ExpriedCount"])), UnlockErrorCount: uint32(vwVal(v["UnlockErrorCount"])), KeyCount: uint32(vwVal(v["KeyCount"]))}}
	case "r_admin":
		return &AdminResultCommand{ResultCommand: vwRHdr(v)}
	case "r_ping":
		return &PingResultCommand{ResultCommand: vwRHdr(v)}
	case "r_quit":
		return &QuitResultCommand{ResultCommand: vwRHdr(v)}
	case "r_call":
		return &CallResultCommand{ResultCommand: vwRHdr(v), Flag: uint8(vwVal(v["Flag"])), Encoding: uint8(vwVal(v["Encoding"])), Charset: uint8(vwVal(v["Charset"])),
			ContentLen: uint32(vwVal(v["ContentLen"])), ErrType: string(vwBytes(v["ErrType"]))}
	case "r_leader":
		return &LeaderResultCommand{ResultCommand: vwRHdr(v), HostLen: uint8(vwVal(v["HostLen"])), Host: string(vwBytes(v["Host"]))}
	case "r_subscribe":
		return &SubscribeResultCommand{ResultCommand: vwRHdr(v), Flag: uint8(vwVal(v["Flag"])), ClientId: uint32(vwVal(v["ClientId"])), SubscribeId: uint32(vwVal(v["SubscribeId"]))}
	}
	panic("vwBuild: unknown layout " + t)
}

func vwHdrVals(c *Command, v vwVals) {
	v["Magic"], v["Version"], v["CommandType"], v["RequestId"] = vwNum(uint64(c.Magic), 1), vwNum(uint64(c.Version), 1), vwNum(uint64(c.CommandType), 1), vwInts(c.RequestId[:])
}

func vwRHdrVals(c *ResultCommand, v vwVals) {
	v["Magic"], v["Version"], v["CommandType"], v["RequestId"] = vwNum(uint64(c.Magic), 1), vwNum(uint64(c.Version), 1), vwNum(uint64(c.CommandType), 1), vwInts(c.RequestId[:])
	v["Result"] = vwNum(uint64(c.Result), 1)
}

// vwExtract reads the field values out of a real command object.
func vwExtract(t string, x vwCodec) vwVals {
	v := vwVals{}
	switch c := x.(type) {
	case *Command:
		vwHdrVals(c, v)
	case *InitCommand:
		vwHdrVals(&c.Command, v)
		v["ClientId"] = vwInts(c.ClientId[:])
	case *LockCommand:
		vwHdrVals(&c.Command, v)
		v["Flag"], v["DbId"], v["LockId"], v["LockKey"] = vwNum(uint64(c.Flag), 1), vwNum(uint64(c.DbId), 1), vwInts(c.LockId[:]), vwInts(c.LockKey[:])
		v["Timeout"], v["TimeoutFlag"], v["Expried"], v["ExpriedFlag"] = vwNum(uint64(c.Timeout), 2), vwNum(uint64(c.TimeoutFlag), 2), vwNum(uint64(c.Expried), 2), vwNum(uint64(c.ExpriedFlag), 2)
		v["Count"], v["Rcount"] = vwNum(uint64(c.Count), 2), vwNum(uint64(c.Rcount), 1)
	case *StateCommand:
		vwHdrVals(&c.Command, v)
		v["Flag"], v["DbId"] = vwNum(uint64(c.Flag), 1), vwNum(uint64(c.DbId), 1)
	case *AdminCommand:
		vwHdrVals(&c.Command, v)
		v["AdminType"] = vwNum(uint64(c.AdminType), 1)
	case *PingCommand:
		vwHdrVals(&c.Command, v)
	case *QuitCommand:
		vwHdrVals(&c.Command, v)
	case *CallCommand:
		vwHdrVals(&c.Command, v)
		v["Flag"], v["Encoding"], v["Charset"], v["ContentLen"] = vwNum(uint64(c.Flag), 1), vwNum(uint64(c.Encoding), 1), vwNum(uint64(c.Charset), 1), vwNum(uint64(c.ContentLen), 4)
		v["MethodName"] = vwInts([]byte(c.MethodName))
	case *LeaderCommand:
		vwHdrVals(&c.Command, v)
		v["Flag"] = vwNum(uint64(c.Flag), 1)
	case *SubscribeCommand:
		vwHdrVals(&c.Command, v)
		v["Flag"], v["ClientId"], v["SubscribeId"], v["SubscribeType"] = vwNum(uint64(c.Flag), 1), vwNum(uint64(c.ClientId), 4), vwNum(uint64(c.SubscribeId), 4), vwNum(uint64(c.SubscribeType), 1)
		v["LockKeyMask"], v["Expried"], v["MaxSize"] = vwInts(c.LockKeyMask[:]), vwNum(uint64(c.Expried), 4), vwNum(uint64(c.MaxSize), 4)
	case *ResultCommand:
		vwRHdrVals(c, v)
	case *InitResultCommand:
		vwRHdrVals(&c.ResultCommand, v)
		v["InitType"] = vwNum(uint64(c.InitType), 1)
	case *LockResultCommand:
		vwRHdrVals(&c.ResultCommand, v)
		v["Flag"], v["DbId"], v["LockId"], v["LockKey"] = vwNum(uint64(c.Flag), 1), vwNum(uint64(c.DbId), 1), vwInts(c.LockId[:]), vwInts(c.LockKey[:])
		v["Lcount"], v["Count"], v["Lrcount"], v["Rcount"] = vwNum(uint64(c.Lcount), 2), vwNum(uint64(c.Count), 2), vwNum(uint64(c.Lrcount), 1), vwNum(uint64(c.Rcount), 1)
	case *StateResultCommand:
		vwRHdrVals(&c.ResultCommand, v)
		v["Flag"], v["DbState"], v["DbId"] = vwNum(uint64(c.Flag), 1), vwNum(uint64(c.DbState), 1), vwNum(uint64(c.DbId), 1)
		v["LockCount"], v["UnLockCount"] = vwNum(c.State.LockCount, 8), vwNum(c.State.UnLockCount, 8)
		v["LockedCount"], v["WaitCount"], v["TimeoutedCount"] = vwNum(uint64(c.State.LockedCount), 4), vwNum(uint64(c.State.WaitCount), 4), vwNum(uint64(c.State.TimeoutedCount), 4)
		v["ExpriedCount"], v["UnlockErrorCount"], v["KeyCount"] = vwNum(uint64(c.State.ExpriedCount), 4), vwNum(uint64(c.State.UnlockErrorCount), 4), vwNum(uint64(c.State.KeyCount), 4)
	case *AdminResultCommand:
		vwRHdrVals(&c.ResultCommand, v)
	case *PingResultCommand:
		vwRHdrVals(&c.ResultCommand, v)
	case *QuitResultCommand:
		vwRHdrVals(&c.ResultCommand, v)
	case *CallResultCommand:
		vwRHdrVals(&c.ResultCommand, v)
		v["Flag"], v["Encoding"], v["Charset"], v["ContentLen"] = vwNum(uint64(c.Flag), 1), vwNum(uint64(c.Encoding), 1), vwNum(uint64(c.Charset), 1), vwNum(uint64(c.ContentLen), 4)
		v["ErrType"] = vwInts([]byte(c.ErrType))
	case *LeaderResultCommand:
		vwRHdrVals(&c.ResultCommand, v)
		v["HostLen"], v["Host"] = vwNum(uint64(c.HostLen), 1), vwInts([]byte(c.Host))
	case *SubscribeResultCommand:
		vwRHdrVals(&c.ResultCommand, v)
		v["Flag"], v["ClientId"], v["SubscribeId"] = vwNum(uint64(c.Flag), 1), vwNum(uint64(c.ClientId), 4), vwNum(uint64(c.SubscribeId), 4)
	default:
		panic("vwExtract: unknown object for " + t)
	}
	return v
}

func vwSafe(f func()) (msg string) {
	defer func() {
		if r := recover(); r != nil {
			msg = fmt.Sprintf("%v", r)
		}
	}()
	f()
	return ""
}

// ---------------------------------------------------------------- binary frames

func vwRunEnc(sc *vwScenario, emit func(map[string]interface{})) {
	ev := map[string]interface{}{"k": "enc", "id": sc.Id, "t": sc.T, "v": sc.V, "b": []int{}, "d": vwVals{}, "err": "", "panic": ""}
	buf := make([]byte, 64)
	for i := range buf {
		buf[i] = 0xEE // stale bytes a correct Encode must overwrite (the write buffer is reused by the server)
	}
	ev["panic"] = vwSafe(func() {
		obj := vwBuild(sc.T, sc.V)
		if err := obj.Encode(buf); err != nil {
			ev["err"] = err.Error()
			return
		}
		ev["b"] = vwInts(buf)
		back := vwBuild(sc.T, nil)
		if err := back.Decode(buf); err != nil {
			ev["err"] = "decode: " + err.Error()
			return
		}
		ev["d"] = vwExtract(sc.T, back)
	})
	emit(ev)
}

func vwRunDec(sc *vwScenario, emit func(map[string]interface{})) {
	ev := map[string]interface{}{"k": "dec", "id": sc.Id, "t": sc.T, "b": sc.B, "d": vwVals{}, "b2": []int{}, "err": "", "panic": ""}
	in := make([]byte, 64) // exactly 64 bytes, capacity 64 (what Stream.ReadBytesSize hands to Decode may be longer; 64 is the frame)
	copy(in, vwBytes(sc.B))
	ev["panic"] = vwSafe(func() {
		obj := vwBuild(sc.T, nil)
		if err := obj.Decode(in); err != nil {
			ev["err"] = err.Error()
			return
		}
		ev["d"] = vwExtract(sc.T, obj)
		out := make([]byte, 64)
		for i := range out {
			out[i] = 0xEE
		}
		if err := obj.Encode(out); err != nil {
			ev["err"] = "encode: " + err.Error()
			return
		}
		ev["b2"] = vwInts(out)
	})
	emit(ev)
}

// ---------------------------------------------------------------- value frames

func vwPropsOut(ps []*LockCommandDataProperty) []map[string]interface{} {
	r := []map[string]interface{}{}
	for _, p := range ps {
		r = append(r, map[string]interface{}{"code": int(p.Code), "value": vwInts(p.Value)})
	}
	return r
}

func vwRunVFrame(sc *vwScenario, emit func(map[string]interface{})) {
	ev := map[string]interface{}{"k": "vframe", "id": sc.Id, "stage": sc.Stage, "ctype": sc.Ctype, "flag": sc.Flag, "hasprops": sc.HasProps,
		"props": sc.Props, "data": sc.Data, "via": sc.Via, "fr": []int{}, "d": map[string]interface{}{}, "panic": ""}
	if sc.Props == nil {
		ev["props"] = []vwProp{}
	}
	if sc.Data == nil {
		ev["data"] = []int{}
	}
	ev["panic"] = vwSafe(func() {
		var props []*LockCommandDataProperty
		if sc.HasProps {
			props = []*LockCommandDataProperty{}
			for _, p := range sc.Props {
				if len(p.Value) == 0 {
					props = append(props, NewLockCommandDataProperty(uint8(p.Code), nil))
				} else {
					props = append(props, NewLockCommandDataProperty(uint8(p.Code), vwBytes(p.Value)))
				}
			}
		}
		var lcd *LockCommandData
		if sc.Via == "string" {
			lcd = NewLockCommandDataFromString(string(vwBytes(sc.Data)), uint8(sc.Stage), uint8(sc.Ctype), uint8(sc.Flag), props)
		} else {
			lcd = NewLockCommandDataFromBytes(vwBytes(sc.Data), uint8(sc.Stage), uint8(sc.Ctype), uint8(sc.Flag), props)
		}
		ev["fr"] = vwInts(lcd.Data)
		// read it back the way a receiver does: from the origin bytes
		rd := NewLockResultCommandDataFromOriginBytes(lcd.Data)
		cd := NewLockCommandDataFromOriginBytes(lcd.Data)
		ev["d"] = map[string]interface{}{
			"stage": int(rd.CommandStage), "ctype": int(rd.CommandType), "flag": int(rd.DataFlag),
			"props": vwPropsOut(rd.GetDataProperties()), "data": vwInts(rd.GetBytesValue()),
			"cstage": int(cd.CommandStage), "cctype": int(cd.CommandType), "cflag": int(cd.DataFlag), "cdata": vwInts(cd.GetBytesValue()),
		}
	})
	emit(ev)
}

func vwRunItems(sc *vwScenario, emit func(map[string]interface{})) {
	ev := map[string]interface{}{"k": "items", "id": sc.Id, "kind": sc.Kind, "items": sc.Items, "fr": []int{}, "d": [][]int{}, "panic": ""}
	ev["panic"] = vwSafe(func() {
		if sc.Kind == "array" {
			vals := [][]byte{}
			for _, it := range sc.Items {
				vals = append(vals, vwBytes(it))
			}
			lcd := NewLockCommandDataSetArray(vals)
			ev["fr"] = vwInts(lcd.Data)
			rd := NewLockResultCommandDataFromOriginBytes(lcd.Data)
			out := [][]int{}
			for _, v := range rd.GetArrayValue() {
				out = append(out, vwInts(v))
			}
			ev["d"] = out
		} else {
			m := map[string][]byte{}
			for i := 0; i+1 < len(sc.Items); i += 2 {
				m[string(vwBytes(sc.Items[i]))] = vwBytes(sc.Items[i+1])
			}
			lcd := NewLockCommandDataSetKV(m)
			ev["fr"] = vwInts(lcd.Data)
			rd := NewLockResultCommandDataFromOriginBytes(lcd.Data)
			kv := rd.GetKVValue()
			keys := []string{}
			for k := range kv {
				keys = append(keys, k)
			}
			sort.Strings(keys)
			out := [][]int{}
			for _, k := range keys {
				out = append(out, vwInts([]byte(k)), vwInts(kv[k]))
			}
			ev["d"] = out
		}
	})
	emit(ev)
}

// ---------------------------------------------------------------- text parser

type vwObs struct {
	Stage int          `json:"stage"`
	Done  []vwDoneItem `json:"done"`
	Err   bool         `json:"err"`
	Raw   vwRaw        `json:"raw"`
}

type vwDoneItem struct {
	Type int     `json:"type"`
	Args [][]int `json:"args"`
}

// raw parser fields, for the refinement comparison with the implementation-shaped spec
type vwRaw struct {
	Args      [][]int `json:"args"`
	CargIndex int     `json:"cargIndex"`
	CargLen   int     `json:"cargLen"`
	ArgsCount int     `json:"argsCount"`
	ArgsType  int     `json:"argsType"`
}

func vwArgsOut(a []string) [][]int {
	r := [][]int{}
	for _, s := range a {
		r = append(r, vwInts([]byte(s)))
	}
	return r
}

type vwFeeder struct {
	p    *TextParser
	mode string
	done []vwDoneItem
	err  bool
	dead string
}

var vwRbufPool []byte
var vwWbufPool = make([]byte, 1024)

func vwNewFeeder(mode string, rbuf int) *vwFeeder {
	if rbuf <= 0 {
		rbuf = 1024
	}
	if len(vwRbufPool) < rbuf {
		vwRbufPool = make([]byte, rbuf)
	}
	return &vwFeeder{p: NewTextParser(vwRbufPool[:rbuf], vwWbufPool), mode: mode, done: []vwDoneItem{}}
}

// feed hands one chunk to the parser exactly like TextServerProtocol.Process / TextClientProtocol.Read:
// read into rbuf, BufferUpdate(n), then parse until the buffer is at its end, taking the argument
// list and calling Reset whenever IsParseFinish.
func (f *vwFeeder) feed(chunk []byte) {
	if f.err || f.dead != "" || len(chunk) == 0 {
		return
	}
	rbuf := f.p.GetReadBuf()
	for len(chunk) > 0 {
		n := copy(rbuf, chunk) // a read never returns more than the read buffer holds
		chunk = chunk[n:]
		f.p.BufferUpdate(n)
		for {
			var err error
			msg := vwSafe(func() {
				if f.mode == "req" {
					err = f.p.ParseRequest()
				} else {
					err = f.p.ParseResponse()
				}
			})
			if msg != "" {
				f.dead = msg
				f.err = true
				return
			}
			if err != nil {
				f.err = true
				return
			}
			if f.p.IsParseFinish() {
				f.done = append(f.done, vwDoneItem{Type: f.p.GetArgsType(), Args: vwArgsOut(f.p.GetArgs())})
				f.p.Reset()
			}
			if f.p.IsBufferEnd() {
				break
			}
		}
	}
}

func (f *vwFeeder) obs() vwObs {
	d := make([]vwDoneItem, len(f.done))
	copy(d, f.done)
	return vwObs{Stage: f.p.stage, Done: d, Err: f.err,
		Raw: vwRaw{Args: vwArgsOut(f.p.args), CargIndex: f.p.cargIndex, CargLen: f.p.cargLen, ArgsCount: f.p.argsCount, ArgsType: f.p.argsType}}
}

type vwSeen struct {
	at    int
	obs   vwObs
	cuts  []int
	count int
}

func vwStreamBytes(sc *vwScenario) ([]byte, []map[string]interface{}) {
	p := NewTextParser(make([]byte, 64), make([]byte, 64))
	all := []byte{}
	parts := []map[string]interface{}{}
	for _, it := range sc.Stream {
		var b []byte
		args := []string{}
		for _, a := range it.Args {
			args = append(args, string(vwBytes(a)))
		}
		switch it.Kind {
		case "req":
			b = p.BuildRequest(args)
		case "status":
			b = p.BuildResponse(true, string(vwBytes(it.Msg)), nil)
		case "error":
			b = p.BuildResponse(false, string(vwBytes(it.Msg)), nil)
		case "results":
			b = p.BuildResponse(true, "", args)
		case "raw":
			b = vwBytes(it.Raw)
		}
		msg := it.Msg
		if msg == nil {
			msg = []int{}
		}
		a2 := it.Args
		if a2 == nil {
			a2 = [][]int{}
		}
		parts = append(parts, map[string]interface{}{"kind": it.Kind, "args": a2, "msg": msg, "bytes": vwInts(b)})
		all = append(all, b...)
	}
	return all, parts
}

func vwRunParse(sc *vwScenario, emit func(map[string]interface{})) {
	stream, parts := vwStreamBytes(sc)
	n := len(stream)
	emit(map[string]interface{}{"k": "build", "id": sc.Id, "mode": sc.Mode, "parts": parts, "bytes": vwInts(stream), "name": sc.Name})
	seen := map[string]*vwSeen{}
	order := []string{}
	nsplits := 0
	keybuf := make([]byte, 0, 4096)
	putInt := func(v int) {
		keybuf = append(keybuf, byte(v), byte(v>>8), byte(v>>16), byte(v>>24))
	}
	// record one observation (state of feeder f after `at` bytes); observations are keyed by a cheap byte string and
	// only materialised (copied, later marshalled) when they are new
	record := func(at int, f *vwFeeder, cuts []int) {
		keybuf = keybuf[:0]
		putInt(at)
		putInt(f.p.stage)
		if f.err {
			keybuf = append(keybuf, 1)
		} else {
			keybuf = append(keybuf, 0)
		}
		putInt(len(f.done))
		for _, d := range f.done {
			putInt(d.Type)
			putInt(len(d.Args))
			for _, a := range d.Args {
				putInt(len(a))
				for _, x := range a {
					keybuf = append(keybuf, byte(x))
				}
			}
		}
		if n <= 300 {
			putInt(f.p.cargIndex)
			putInt(f.p.cargLen)
			putInt(f.p.argsCount)
			putInt(f.p.argsType)
			putInt(len(f.p.args))
			for _, a := range f.p.args {
				putInt(len(a))
				keybuf = append(keybuf, a...)
			}
		}
		s := seen[string(keybuf)]
		if s == nil {
			o := f.obs()
			if n > 300 { // the raw parser fields are only compared (refinement) on short streams
				o.Raw = vwRaw{Args: [][]int{}}
			}
			c := make([]int, len(cuts))
			copy(c, cuts)
			key := string(keybuf)
			seen[key] = &vwSeen{at: at, obs: o, cuts: c, count: 1}
			order = append(order, key)
			return
		}
		s.count++
		if len(cuts) < len(s.cuts) {
			s.cuts = append(s.cuts[:0], cuts...)
		}
	}
	rbufSize := sc.RbufSize
	if rbufSize <= 0 {
		rbufSize = 1024
	}
	// run one split: cuts = strictly increasing interior cut positions; the last chunk ends at n.
	// A read never returns more than the read buffer holds, so longer chunks are cut at that size.
	run := func(cuts []int) {
		nsplits++
		f := vwNewFeeder(sc.Mode, rbufSize)
		from := 0
		ends := []int{}
		for _, e := range append(append([]int{}, cuts...), n) {
			for e-from > rbufSize {
				from += rbufSize
				ends = append(ends, from)
			}
			ends = append(ends, e)
			from = e
		}
		from = 0
		for i, e := range ends {
			f.feed(stream[from:e])
			from = e
			record(e, f, ends[:i+1])
		}
	}
	switch sc.Split {
	case "all":
		if n-1 > 24 {
			panic("split=all on a stream longer than 25 bytes")
		}
		for mask := 0; mask < 1<<uint(n-1); mask++ {
			cuts := []int{}
			for i := 0; i < n-1; i++ {
				if mask&(1<<uint(i)) != 0 {
					cuts = append(cuts, i+1)
				}
			}
			run(cuts)
		}
	case "upto":
		// every set of at most MaxCuts interior cut positions
		var rec func(start int, cuts []int)
		rec = func(start int, cuts []int) {
			run(cuts)
			if len(cuts) == sc.MaxCuts {
				return
			}
			for c := start; c < n; c++ {
				rec(c+1, append(cuts, c))
			}
		}
		rec(1, []int{})
	case "rand":
		rng := uint64(sc.Seed)*6364136223846793005 + 1442695040888963407
		next := func(m int) int {
			rng = rng*6364136223846793005 + 1442695040888963407
			return int((rng >> 33) % uint64(m))
		}
		run([]int{})
		for i := 0; i < sc.NRand; i++ {
			k := 1 + next(6)
			set := map[int]bool{}
			for j := 0; j < k && n > 1; j++ {
				// cluster the cuts near structure: around a random anchor
				anchor := 1 + next(n-1)
				c := anchor + next(5) - 2
				if c >= 1 && c < n {
					set[c] = true
				}
			}
			cuts := []int{}
			for c := range set {
				cuts = append(cuts, c)
			}
			sort.Ints(cuts)
			run(cuts)
		}
	default: // explicit
		for _, c := range sc.Cuts {
			run(c)
		}
	}
	keys := append([]string{}, order...)
	sort.SliceStable(keys, func(i, j int) bool { return seen[keys[i]].at < seen[keys[j]].at })
	for _, k := range keys {
		s := seen[k]
		emit(map[string]interface{}{"k": "obs", "id": sc.Id, "mode": sc.Mode, "at": s.at, "obs": s.obs, "cuts": s.cuts, "n": s.count, "len": n})
	}
	emit(map[string]interface{}{"k": "endparse", "id": sc.Id, "splits": nsplits, "distinct": len(keys), "len": n})
}

// ---------------------------------------------------------------- key normalisation, result rendering

func vwRunNorm(sc *vwScenario, emit func(map[string]interface{})) {
	ev := map[string]interface{}{"k": "norm", "id": sc.Id, "s": sc.S, "md5": sc.Md5, "key": []int{}, "lid": []int{}, "panic": ""}
	if sc.S == nil {
		ev["s"] = []int{}
	}
	ev["panic"] = vwSafe(func() {
		s := string(vwBytes(sc.S))
		key := ConvertString2LockKey(s)
		var lid [16]byte
		for i := range lid {
			lid[i] = 0xEE
		}
		NewTextCommandConverter().ConvertArgId2LockId(s, &lid)
		ev["key"], ev["lid"] = vwInts(key[:]), vwInts(lid[:])
	})
	emit(ev)
}

type vwTextProto struct {
	parser *TextParser
}

func (p *vwTextProto) GetDBId() uint8      { return 0 }
func (p *vwTextProto) GetLockId() [16]byte { return [16]byte{} }
func (p *vwTextProto) GetTimeout() uint16  { return 15 }
func (p *vwTextProto) GetLockCommand() *LockCommand {
	return &LockCommand{Command: Command{Magic: MAGIC, Version: VERSION}}
}
func (p *vwTextProto) FreeLockCommand(lockCommand *LockCommand) error { return nil }
func (p *vwTextProto) GetParser() *TextParser                         { return p.parser }

func vwRunRender(sc *vwScenario, emit func(map[string]interface{})) {
	ev := map[string]interface{}{"k": "render", "id": sc.Id, "r": sc.R, "out": []int{}, "err": "", "panic": ""}
	ev["panic"] = vwSafe(func() {
		res := vwBuild("r_lock", sc.R).(*LockResultCommand)
		tp := &vwTextProto{parser: NewTextParser(make([]byte, 1024), make([]byte, 1024))}
		st := NewMemBytesArrayStream()
		if err := NewTextCommandConverter().WriteTextLockAndUnLockCommandResult(tp, st, res); err != nil {
			ev["err"] = err.Error()
			return
		}
		out := []byte{}
		for _, d := range st.datas {
			out = append(out, d...)
		}
		ev["out"] = vwInts(out)
	})
	emit(ev)
}

// ---------------------------------------------------------------- text LOCK/UNLOCK -> binary command

func vwRunText(sc *vwScenario, emit func(map[string]interface{})) {
	args := []string{}
	for _, a := range sc.Items {
		args = append(args, string(vwBytes(a)))
	}
	ev := map[string]interface{}{"k": "text", "id": sc.Id, "args": sc.Items, "md5s": sc.Md5s, "cmd": vwVals{}, "haslid": false, "err": "", "panic": ""}
	ev["panic"] = vwSafe(func() {
		tp := &vwTextProto{parser: NewTextParser(make([]byte, 1024), make([]byte, 1024))}
		cmd, _, err := NewTextCommandConverter().ConvertTextLockAndUnLockCommand(tp, args)
		if err != nil {
			ev["err"] = err.Error()
			return
		}
		ev["cmd"] = vwExtract("lock", cmd)
		ev["lid_is_rid"] = cmd.LockId == cmd.RequestId
	})
	emit(ev)
}

// ---------------------------------------------------------------- driver

func TestVerifWire(t *testing.T) {
	in, out := os.Getenv("VERIF_IN"), os.Getenv("VERIF_OUT")
	if in == "" || out == "" {
		t.Skip("VERIF_IN / VERIF_OUT not set")
	}
	fin, err := os.Open(in)
	if err != nil {
		t.Fatal(err)
	}
	defer fin.Close()
	fout, err := os.Create(out)
	if err != nil {
		t.Fatal(err)
	}
	w := bufio.NewWriterSize(fout, 1<<20)
	nev := 0
	emit := func(ev map[string]interface{}) {
		b, err := json.Marshal(ev)
		if err != nil {
			t.Fatal(err)
		}
		w.Write(b)
		w.WriteByte('\n')
		nev++
	}
	rd := bufio.NewReaderSize(fin, 1<<20)
	dec := json.NewDecoder(rd)
	for dec.More() {
		var sc vwScenario
		if err := dec.Decode(&sc); err != nil {
			t.Fatal(err)
		}
		switch sc.K {
		case "enc":
			vwRunEnc(&sc, emit)
		case "dec":
			vwRunDec(&sc, emit)
		case "vframe":
			vwRunVFrame(&sc, emit)
		case "items":
			vwRunItems(&sc, emit)
		case "parse":
			vwRunParse(&sc, emit)
		case "norm":
			vwRunNorm(&sc, emit)
		case "render":
			vwRunRender(&sc, emit)
		case "text":
			vwRunText(&sc, emit)
		default:
			t.Fatalf("unknown scenario kind %q", sc.K)
		}
	}
	w.Flush()
	fout.Close()
	fmt.Printf("verif-wire events=%d\n", nev)
}

//go:build verif

package client

// C19 driver (engine P-lite): the packaged client primitives against a REAL slock server process over
// TCP (the server is started by checks/primfam.py; this file is injected into /repo/client with
// `go test -overlay`, nothing is written to /repo).
//
// Two modes per scenario (one ndjson scenario per line of $VERIF_IN, one recorded history per scenario
// in $VERIF_OUT):
//
//   free : G goroutines on C client connections use ONE primitive kind on ONE shared key with seeded
//          random hold / think times (free-running schedule).  Every goroutine logs
//              acq_ret   AFTER its acquire call returned successfully
//              rel_call  BEFORE it calls release
//          stamped by ONE shared atomic counter: between those two stamps the hold is DEFINITELY
//          outstanding, so the TLA+ monitor (spec/mon/MonPrim.tla) may judge the set of definite holders
//          against the textbook admission rule without any false alarm from event ordering.
//   seq  : a TLC-generated behaviour of spec/PrimEnc.tla is replayed call by call; after every call the
//          driver waits for quiescence (every pending acquire has either returned or is counted in the
//          server's own WaitCount of a private DB), so the holder set is exact and the monitor can also
//          judge the permissive halves of the statement (readers share, the holder re-enters, hand-over
//          goes to the highest waiting priority).
//
// Nothing here decides a verdict: the driver only records; TLC validates the history.

import (
	"bufio"
	"encoding/binary"
	"encoding/json"
	"fmt"
	"io"
	"math/rand"
	"net"
	"os"
	"sort"
	"sync"
	"sync/atomic"
	"testing"
	"time"

	"github.com/snower/slock/protocol"
)

type vpStep struct {
	Op   string `json:"op"` // acq | rel | set | clear | wait
	P    int    `json:"p"`
	Role string `json:"role"`
	Prio int    `json:"prio"`
	Ms   int    `json:"ms"` // wait: millisecond timeout (0 = the scenario's long timeout); sleep: duration
}

type vpScenario struct {
	Name    string   `json:"name"`
	Mode    string   `json:"mode"`
	Kind    string   `json:"kind"`
	N       int      `json:"n"`
	G       int      `json:"G"`
	C       int      `json:"C"`
	Iters   int      `json:"iters"`
	HoldUs  int      `json:"hold_us"`
	ThinkUs int      `json:"think_us"`
	Depth   int      `json:"depth"`
	Seed    int64    `json:"seed"`
	Host    string   `json:"host"`
	Port    int      `json:"port"`
	Db      int      `json:"db"`
	Key     int64    `json:"key"`
	ToS     int      `json:"to_s"`
	ExS     int      `json:"ex_s"`
	Cuts    int      `json:"cuts"`
	Via     string   `json:"via"`
	Dbs     []int    `json:"dbs"`
	MaxS    int      `json:"max_s"`       // free mode: goroutines start no new iteration after this many seconds
	Short   bool     `json:"short_waits"` // Event: a third of the Wait calls use a 1..20 ms timeout
	Steps   []vpStep `json:"steps"`
}

type vpSess struct {
	start time.Time
	void  bool
}

type vpEvent struct {
	S     int64
	E     string
	G     int
	Role  string
	Prio  int
	Res   int
	Ok    bool
	Depth int
	Prios []int
	sess  *vpSess
	void  bool
}

type vpHist struct {
	sc       *vpScenario
	stamp    int64
	mu       sync.Mutex
	recs     []*vpRec
	unclean  int32 // an acquire failed / an outcome was uncertain: wait-list observations and the final probe are not judged
	durMs    int64
	deadline time.Time
	diverged string // seq mode: the real system left the behaviour the model predicted (replay stopped there)
}

type vpRec struct {
	h   *vpHist
	g   int
	evs []*vpEvent
}

func (h *vpHist) rec(g int) *vpRec {
	r := &vpRec{h: h, g: g}
	h.mu.Lock()
	h.recs = append(h.recs, r)
	h.mu.Unlock()
	return r
}

// add stamps the event NOW (one shared atomic counter per history)
func (r *vpRec) add(e string) *vpEvent {
	ev := &vpEvent{E: e, G: r.g, Ok: true, Prios: []int{}}
	ev.S = atomic.AddInt64(&r.h.stamp, 1)
	r.evs = append(r.evs, ev)
	return ev
}

func vpKey(k int64) [16]byte {
	var b [16]byte
	binary.LittleEndian.PutUint64(b[0:8], uint64(k))
	b[15] = 0xC9
	return b
}

// classify a primitive call result: ok / definite refusal by the server (result code) / uncertain (transport)
func vpClass(err error) (ok bool, definite bool, res int) {
	if err == nil {
		return true, true, 0
	}
	if err == WaitTimeout {
		return false, true, protocol.RESULT_TIMEOUT
	}
	if le, is := err.(*LockError); is {
		if le.Result != 0x80 {
			return false, true, int(le.Result)
		}
	}
	return false, false, 0x80
}

// ---------------------------------------------------------------- TCP proxy (for connection cuts)

type vpProxy struct {
	ln    net.Listener
	up    string
	mu    sync.Mutex
	conns []net.Conn
	done  bool
}

func vpNewProxy(up string) (*vpProxy, error) {
	ln, err := net.Listen("tcp", "127.0.0.1:0")
	if err != nil {
		return nil, err
	}
	p := &vpProxy{ln: ln, up: up}
	go func() {
		for {
			c, err := ln.Accept()
			if err != nil {
				return
			}
			u, err := net.Dial("tcp", up)
			if err != nil {
				c.Close()
				continue
			}
			p.mu.Lock()
			p.conns = append(p.conns, c, u)
			p.mu.Unlock()
			go func() { io.Copy(u, c); u.Close(); c.Close() }()
			go func() { io.Copy(c, u); u.Close(); c.Close() }()
		}
	}()
	return p, nil
}

func (p *vpProxy) port() int { return p.ln.Addr().(*net.TCPAddr).Port }

func (p *vpProxy) cut() {
	p.mu.Lock()
	cs := p.conns
	p.conns = nil
	p.mu.Unlock()
	for _, c := range cs {
		c.Close()
	}
}

func (p *vpProxy) close() {
	p.ln.Close()
	p.cut()
}

// ---------------------------------------------------------------- one primitive instance per goroutine

type vpPrim struct {
	sc   *vpScenario
	db   *Database
	key  [16]byte
	to   uint32
	ex   uint32
	prio int
	lk   *Lock
	rl   *RLock
	sem  *Semaphore
	fl   *MaxConcurrentFlow
	rw   *RWLock
	pl   *PriorityLock
}

func vpNewPrim(sc *vpScenario, db *Database, prio int) *vpPrim {
	p := &vpPrim{sc: sc, db: db, key: vpKey(sc.Key), to: uint32(sc.ToS), ex: uint32(sc.ExS), prio: prio}
	p.fresh()
	return p
}

func (p *vpPrim) fresh() {
	switch p.sc.Kind {
	case "lock":
		p.lk = p.db.Lock(p.key, p.to, p.ex)
	case "rlock":
		p.rl = p.db.RLock(p.key, p.to, p.ex)
	case "sem":
		p.sem = p.db.Semaphore(p.key, p.to, p.ex, uint16(p.sc.N))
	case "flow":
		p.fl = p.db.MaxConcurrentFlow(p.key, uint16(p.sc.N), p.to, p.ex)
	case "rw":
		p.rw = p.db.RWLock(p.key, p.to, p.ex)
	case "prio":
		p.pl = p.db.PriorityLock(p.key, uint8(p.prio), p.to, p.ex)
	}
}

func (p *vpPrim) acquire(role string) error {
	var err error
	switch p.sc.Kind {
	case "lock":
		_, err = p.lk.Lock()
	case "rlock":
		_, err = p.rl.Lock()
	case "sem":
		_, err = p.sem.Acquire()
	case "flow":
		_, err = p.fl.Acquire()
	case "rw":
		if role == "w" {
			_, err = p.rw.Lock()
		} else {
			_, err = p.rw.RLock()
		}
	case "prio":
		_, err = p.pl.Lock()
	}
	return err
}

func (p *vpPrim) release(role string) error {
	var err error
	switch p.sc.Kind {
	case "lock":
		_, err = p.lk.Unlock()
	case "rlock":
		_, err = p.rl.Unlock()
	case "sem":
		_, err = p.sem.Release()
	case "flow":
		_, err = p.fl.Release()
	case "rw":
		if role == "w" {
			_, err = p.rw.Unlock()
		} else {
			_, err = p.rw.RUnlock()
		}
	case "prio":
		_, err = p.pl.Unlock()
	}
	return err
}

// owned returns the Lock object whose LockId this instance owns (nil for anonymous holds)
func (p *vpPrim) owned(role string) *Lock {
	switch p.sc.Kind {
	case "lock":
		return p.lk
	case "rlock":
		return p.rl.lock
	case "flow":
		return p.fl.flowLock
	case "rw":
		if role == "w" {
			return p.rw.wlock
		}
	case "prio":
		return p.pl.lock
	}
	return nil
}

// cleanup after an uncertain outcome: cancel a possibly queued request and release a possibly granted hold
// of the OWNED LockId (harmless when nothing is there), then continue with a fresh object.  Anonymous holds
// (semaphore, RWLock readers) are left to expire: releasing "the oldest hold" could take somebody else's.
func (p *vpPrim) cleanup(role string) {
	l := p.owned(role)
	if l != nil {
		for i := 0; i < 40; i++ {
			_, err := l.CancelWait()
			_, definite, _ := vpClass(err)
			if definite {
				break
			}
			time.Sleep(250 * time.Millisecond)
		}
		for i := 0; i < 300; i++ {
			_, err := l.Unlock()
			ok, definite, _ := vpClass(err)
			if definite && !ok {
				break
			}
			if !definite {
				time.Sleep(250 * time.Millisecond)
			}
		}
	}
	p.fresh()
}

// ---------------------------------------------------------------- free-running mode

func vpSleepUs(rng *rand.Rand, maxUs int) {
	if maxUs <= 0 {
		return
	}
	switch rng.Intn(4) {
	case 0:
		return // no pause at all: back-to-back calls
	case 1:
		time.Sleep(time.Duration(rng.Intn(maxUs/8+1)) * time.Microsecond)
	default:
		time.Sleep(time.Duration(rng.Intn(maxUs+1)) * time.Microsecond)
	}
}

func vpOpenClients(sc *vpScenario, port int) ([]*Client, error) {
	cs := make([]*Client, 0, sc.C)
	for i := 0; i < sc.C; i++ {
		c := NewClient(sc.Host, uint(port))
		var err error
		for try := 0; try < 20; try++ {
			err = c.Open()
			if err == nil {
				break
			}
			time.Sleep(100 * time.Millisecond)
		}
		if err != nil {
			for _, o := range cs {
				o.Close()
			}
			return nil, err
		}
		cs = append(cs, c)
	}
	return cs, nil
}

func vpLockWorker(h *vpHist, g int, db *Database, rng *rand.Rand) {
	sc := h.sc
	rec := h.rec(g)
	prim := vpNewPrim(sc, db, g+1)
	half := time.Duration(sc.ExS) * time.Second / 2
	for it := 0; it < sc.Iters && time.Now().Before(h.deadline); it++ {
		vpSleepUs(rng, sc.ThinkUs)
		role := "x"
		if sc.Kind == "rw" {
			role = "r"
			if rng.Intn(10) < 3 {
				role = "w"
			}
		}
		d := 1
		if sc.Kind == "rlock" && sc.Depth > 1 {
			d = 1 + rng.Intn(sc.Depth)
		}
		sess := &vpSess{start: time.Now()}
		got, uncertain := 0, false
		for j := 0; j < d; j++ {
			err := prim.acquire(role)
			ok, definite, res := vpClass(err)
			if ok {
				e := rec.add("acq_ret")
				e.Role, e.Prio, e.sess = role, prim.prio, sess
				got++
				if j < d-1 {
					vpSleepUs(rng, sc.HoldUs/4)
				}
			} else if definite {
				e := rec.add("acq_fail")
				e.Role, e.Prio, e.Res, e.Ok, e.Depth, e.sess = role, prim.prio, res, false, got, sess
				atomic.StoreInt32(&h.unclean, 1)
				break
			} else {
				e := rec.add("acq_err")
				e.Role, e.Ok, e.sess = role, false, sess
				atomic.StoreInt32(&h.unclean, 1)
				uncertain = true
				break
			}
		}
		if uncertain {
			rec.add("abandon")
			prim.cleanup(role)
			time.Sleep(200 * time.Millisecond)
			continue
		}
		if got == 0 {
			continue
		}
		if sc.Kind == "prio" {
			vpObserve(h, rec, db, prim, rng)
		}
		vpSleepUs(rng, sc.HoldUs)
		for j := 0; j < got; j++ {
			if time.Since(sess.start) > half {
				sess.void = true // the hold may have expired on the server: this session is not judged
			}
			e := rec.add("rel_call")
			e.Role, e.sess = role, sess
			err := prim.release(role)
			ok, definite, res := vpClass(err)
			if ok {
				e2 := rec.add("rel_ret")
				e2.Role, e2.sess = role, sess
			} else if definite {
				e2 := rec.add("rel_ret")
				e2.Role, e2.Res, e2.Ok, e2.sess = role, res, false, sess
				atomic.StoreInt32(&h.unclean, 1)
			} else {
				atomic.StoreInt32(&h.unclean, 1)
				rec.add("abandon")
				prim.cleanup(role)
				break
			}
			if j < got-1 {
				vpSleepUs(rng, sc.HoldUs/4)
			}
		}
	}
}

// the holder of a PriorityLock asks the server for the wait list of the key (LIST_WAIT) while it
// definitely holds; every request listed is queued now and stays queued until the holder releases
func vpObserve(h *vpHist, rec *vpRec, db *Database, prim *vpPrim, rng *rand.Rand) {
	want := 2 + rng.Intn(3)
	if want > h.sc.G-1 {
		want = h.sc.G - 1
	}
	var prios []int
	good := false
	for try := 0; try < 12; try++ {
		resp, err := db.ListLockWaits(prim.key, 5)
		if err == nil {
			prios = prios[:0]
			for _, w := range resp.Locks {
				if w.Command != nil && w.Command.TimeoutFlag&uint32(protocol.TIMEOUT_FLAG_RCOUNT_IS_PRIORITY) != 0 {
					prios = append(prios, int(w.Command.Rcount))
				}
			}
			good = true
			if len(prios) >= want {
				break
			}
		}
		time.Sleep(time.Duration(100+rng.Intn(400)) * time.Microsecond)
	}
	if good {
		e := rec.add("obs")
		e.Prios = append([]int{}, prios...)
	}
}

func vpEventWorker(h *vpHist, g int, db *Database, rng *rand.Rand, controllers int) {
	sc := h.sc
	rec := h.rec(g)
	ev := db.Event(vpKey(sc.Key), uint32(sc.ToS), uint32(sc.ExS), sc.Kind == "event_set")
	half := time.Duration(sc.ExS) * time.Second / 2
	if g < controllers {
		for it := 0; it < sc.Iters && time.Now().Before(h.deadline); it++ {
			vpSleepUs(rng, sc.ThinkUs)
			if sc.Kind == "event_clear" && it == 0 {
				// a default-clear event starts clear: let the waiters meet that state first, then Set
				vpSleepUs(rng, sc.HoldUs)
				rec.add("set_call")
				_, err := ev.Set()
				ok, _, res := vpClass(err)
				e := rec.add("set_ret")
				e.Ok, e.Res = ok, res
				vpSleepUs(rng, sc.HoldUs)
			}
			sess := &vpSess{start: time.Now()}
			e := rec.add("clear_call")
			e.sess = sess
			_, err := ev.Clear()
			ok, definite, res := vpClass(err)
			e = rec.add("clear_ret")
			e.Ok, e.Res, e.sess = ok, res, sess
			if !definite {
				atomic.StoreInt32(&h.unclean, 1)
			}
			vpSleepUs(rng, sc.HoldUs)
			if time.Since(sess.start) > half {
				sess.void = true
			}
			rec.add("set_call")
			_, err = ev.Set()
			ok, _, res = vpClass(err)
			e = rec.add("set_ret")
			e.Ok, e.Res = ok, res
		}
		return
	}
	for it := 0; it < sc.Iters && time.Now().Before(h.deadline); it++ {
		vpSleepUs(rng, sc.ThinkUs)
		var to uint32
		ms := 0
		if sc.Short && rng.Intn(3) == 0 {
			ms = 1 + rng.Intn(20)
			to = uint32(ms) | uint32(protocol.TIMEOUT_FLAG_MILLISECOND_TIME)<<16
		} else {
			to = uint32(sc.ToS)
		}
		rec.add("wait_call").Prio = ms // prio field of a wait_call = its millisecond timeout (0: long)
		_, err := ev.Wait(to)
		ok, definite, res := vpClass(err)
		e := rec.add("wait_ret")
		e.Ok, e.Res = ok, res
		if !definite {
			time.Sleep(200 * time.Millisecond)
		}
	}
}

func vpRunFree(sc *vpScenario) (*vpHist, error) {
	h := &vpHist{sc: sc}
	if sc.MaxS <= 0 {
		sc.MaxS = 60
	}
	h.deadline = time.Now().Add(time.Duration(sc.MaxS) * time.Second)
	port := sc.Port
	var px *vpProxy
	if sc.Cuts > 0 {
		var err error
		px, err = vpNewProxy(fmt.Sprintf("%s:%d", sc.Host, sc.Port))
		if err != nil {
			return nil, err
		}
		defer px.close()
		port = px.port()
	}
	clients, err := vpOpenClients(sc, port)
	if err != nil {
		return nil, fmt.Errorf("open: %v", err)
	}
	defer func() {
		for _, c := range clients {
			c.Close()
		}
	}()
	var wg sync.WaitGroup
	start := make(chan struct{})
	controllers := 1
	if sc.G >= 12 {
		controllers = 2
	}
	for g := 0; g < sc.G; g++ {
		wg.Add(1)
		go func(g int) {
			defer wg.Done()
			rng := rand.New(rand.NewSource(sc.Seed*1000003 + int64(g)*7919 + 17))
			db := clients[g%len(clients)].SelectDB(uint8(sc.Db))
			<-start
			if sc.Kind == "event_set" || sc.Kind == "event_clear" {
				vpEventWorker(h, g, db, rng, controllers)
			} else {
				vpLockWorker(h, g, db, rng)
			}
		}(g)
	}
	stopCut := make(chan struct{})
	if px != nil {
		go func() {
			rng := rand.New(rand.NewSource(sc.Seed + 99))
			for i := 0; i < sc.Cuts; i++ {
				select {
				case <-stopCut:
					return
				case <-time.After(time.Duration(40+rng.Intn(300)) * time.Millisecond):
				}
				atomic.StoreInt32(&h.unclean, 1)
				px.cut()
				select {
				case <-stopCut:
					return
				case <-time.After(4 * time.Second):
				}
			}
		}()
	}
	close(start)
	done := make(chan struct{})
	go func() { wg.Wait(); close(done) }()
	select {
	case <-done:
	case <-time.After(240 * time.Second):
		close(stopCut)
		return nil, fmt.Errorf("scenario %s did not finish within 240 s", sc.Name)
	}
	close(stopCut)
	// final probe: every release was acknowledged, so the key must be free again ("as many unlocks as locks")
	if sc.Kind != "event_set" && sc.Kind != "event_clear" {
		rec := h.rec(sc.G)
		db := clients[0].SelectDB(uint8(sc.Db))
		pl := db.Lock(vpKey(sc.Key), 0, 1)
		_, err := pl.Lock()
		ok, definite, res := vpClass(err)
		if definite {
			e := rec.add("probe")
			e.Ok, e.Res = ok, res
			if ok {
				pl.Unlock()
			}
		}
	}
	return h, nil
}

// ---------------------------------------------------------------- sequential replay of TLC behaviours

type vpSeqProc struct {
	prim    *vpPrim
	ev      *Event
	rec     *vpRec
	pending int32 // acquire / wait call in flight (not returned)
	done    chan vpSeqRet
	role    string
	depth   int // acquisitions that returned success and were not released yet
}

type vpSeqRet struct {
	ok       bool
	definite bool
	res      int
}

func vpWaitCount(db *Database) (int, bool) {
	st := db.State()
	if st == nil {
		return 0, false
	}
	return int(st.State.WaitCount), true
}

// quiescent: every call in flight is accounted for by the server's wait counter of this private DB, AND every
// connection of the replay has answered a STATE request issued after that was seen.  (The server answers an unlock
// BEFORE it runs the wake pass, and the wake pass gives up the key's mutex between two grants: the counter alone can
// match while a wake pass is still under way - seen on a heavily loaded machine as readers "still queued" next to a
// reader that the same pass had just admitted.  A connection is served by one goroutine, so the answer to a later
// request means the handler of the earlier one, wake pass included, has finished.)
func vpQuiesce(h *vpHist, ctl *Database, procs []*vpSeqProc, rec *vpRec, conns []*Database) bool {
	deadline := time.Now().Add(30 * time.Second)
	for time.Now().Before(deadline) {
		// first collect everything that has returned
		progressed := true
		for progressed {
			progressed = false
			for i, p := range procs {
				if atomic.LoadInt32(&p.pending) == 1 {
					select {
					case r := <-p.done:
						atomic.StoreInt32(&p.pending, 0)
						vpSeqLogRet(h, i, p, r)
						progressed = true
					default:
					}
				}
			}
		}
		inflight := 0
		for _, p := range procs {
			if atomic.LoadInt32(&p.pending) == 1 {
				inflight++
			}
		}
		wc, ok := vpWaitCount(ctl)
		if ok && wc == inflight {
			// re-check that nothing returned meanwhile (a grant in flight is not counted as waiting any more)
			barrier := true
			for _, c := range conns {
				if c.State() == nil {
					barrier = false
				}
			}
			if !barrier {
				continue
			}
			time.Sleep(300 * time.Microsecond)
			again := false
			for _, p := range procs {
				if atomic.LoadInt32(&p.pending) == 1 && len(p.done) > 0 {
					again = true
				}
			}
			wc2, ok2 := vpWaitCount(ctl)
			if !again && ok2 && wc2 == inflight {
				e := rec.add("quiet")
				for i, p := range procs {
					if atomic.LoadInt32(&p.pending) == 1 {
						e.Prios = append(e.Prios, i)
					}
				}
				return true
			}
			continue
		}
		time.Sleep(200 * time.Microsecond)
	}
	return false
}

func vpSeqLogRet(h *vpHist, i int, p *vpSeqProc, r vpSeqRet) {
	kind := h.sc.Kind
	if kind == "event_set" || kind == "event_clear" {
		e := p.rec.add("wait_ret")
		e.Ok, e.Res = r.ok, r.res
		return
	}
	if r.ok {
		e := p.rec.add("acq_ret")
		e.Role, e.Prio = p.role, p.prim.prio
		p.depth++
	} else {
		e := p.rec.add("acq_fail")
		e.Role, e.Prio, e.Res, e.Ok = p.role, p.prim.prio, r.res, false
		if !r.definite {
			e.E = "acq_err"
		}
	}
}

var vpDbPool chan int
var vpDbPoolOnce sync.Once

func vpRunSeq(sc *vpScenario) (*vpHist, error) {
	h := &vpHist{sc: sc}
	// a private DB per running replay: the server's WaitCount of that DB counts exactly this replay's queued calls
	vpDbPoolOnce.Do(func() {
		vpDbPool = make(chan int, len(sc.Dbs)+1)
		for _, d := range sc.Dbs {
			vpDbPool <- d
		}
	})
	if len(sc.Dbs) > 0 {
		d := <-vpDbPool
		sc.Db = d
		defer func() { vpDbPool <- d }()
	}
	clients, err := vpOpenClients(sc, sc.Port)
	if err != nil {
		return nil, fmt.Errorf("open: %v", err)
	}
	defer func() {
		for _, c := range clients {
			c.Close()
		}
	}()
	ctlClient := NewClient(sc.Host, uint(sc.Port))
	if err := ctlClient.Open(); err != nil {
		return nil, fmt.Errorf("open ctl: %v", err)
	}
	defer ctlClient.Close()
	ctl := ctlClient.SelectDB(uint8(sc.Db))
	conns := make([]*Database, 0, len(clients))
	for _, c := range clients {
		conns = append(conns, c.SelectDB(uint8(sc.Db)))
	}
	isEvent := sc.Kind == "event_set" || sc.Kind == "event_clear"
	procs := make([]*vpSeqProc, sc.G)
	for i := range procs {
		db := clients[i%len(clients)].SelectDB(uint8(sc.Db))
		p := &vpSeqProc{rec: h.rec(i), done: make(chan vpSeqRet, 1)}
		if isEvent {
			p.ev = db.Event(vpKey(sc.Key), uint32(sc.ToS), uint32(sc.ExS), sc.Kind == "event_set")
		} else {
			p.prim = vpNewPrim(sc, db, 0)
		}
		procs[i] = p
	}
	qrec := h.rec(sc.G)
replay:
	for si, st := range sc.Steps {
		var p *vpSeqProc
		if st.P >= 0 && st.P < len(procs) {
			p = procs[st.P]
		}
		if st.P < 0 || st.P >= len(procs) {
			return nil, fmt.Errorf("%s: step %d names process %d", sc.Name, si, st.P)
		}
		if st.Op != "sleep" && atomic.LoadInt32(&p.pending) == 1 {
			// the behaviour expects this process's previous call to have returned: the grant may still be on its way
			// (the server sends the releaser's reply BEFORE it runs the wake pass) - pacing only, no verdict
			select {
			case r := <-p.done:
				atomic.StoreInt32(&p.pending, 0)
				vpSeqLogRet(h, st.P, p, r)
			case <-time.After(3 * time.Second):
			}
		}
		if (st.Op == "rel" || st.Op == "set" || st.Op == "clear") && atomic.LoadInt32(&p.pending) == 1 {
			h.diverged = fmt.Sprintf("step %d: %s for process %d whose previous call is still blocked", si, st.Op, st.P)
			break replay
		}
		switch st.Op {
		case "acq":
			if atomic.LoadInt32(&p.pending) == 1 {
				h.diverged = fmt.Sprintf("step %d: acquire for process %d whose previous call is still blocked", si, st.P)
				break replay
			}
			p.role = st.Role
			if sc.Kind == "prio" {
				p.prim.prio = st.Prio
				p.prim.pl.priority = uint8(st.Prio)
			}
			e := p.rec.add("acq_call")
			e.Role, e.Prio = st.Role, st.Prio
			atomic.StoreInt32(&p.pending, 1)
			go func(p *vpSeqProc, role string) {
				err := p.prim.acquire(role)
				ok, definite, res := vpClass(err)
				p.done <- vpSeqRet{ok, definite, res}
			}(p, st.Role)
		case "wait":
			if atomic.LoadInt32(&p.pending) == 1 {
				h.diverged = fmt.Sprintf("step %d: wait for process %d whose previous call is still blocked", si, st.P)
				break replay
			}
			p.rec.add("wait_call").Prio = st.Ms
			atomic.StoreInt32(&p.pending, 1)
			to := uint32(sc.ToS)
			if st.Ms > 0 {
				to = uint32(st.Ms) | uint32(protocol.TIMEOUT_FLAG_MILLISECOND_TIME)<<16
			}
			go func(p *vpSeqProc, to uint32) {
				_, err := p.ev.Wait(to)
				ok, definite, res := vpClass(err)
				p.done <- vpSeqRet{ok, definite, res}
			}(p, to)
		case "sleep":
			time.Sleep(time.Duration(st.Ms) * time.Millisecond)
		case "rel":
			e := p.rec.add("rel_call")
			e.Role = st.Role
			err := p.prim.release(st.Role)
			ok, _, res := vpClass(err)
			e = p.rec.add("rel_ret")
			e.Role, e.Ok, e.Res = st.Role, ok, res
			if ok && p.depth > 0 {
				p.depth--
			}
		case "set", "clear":
			p.rec.add(st.Op + "_call")
			var err error
			if st.Op == "set" {
				_, err = p.ev.Set()
			} else {
				_, err = p.ev.Clear()
			}
			ok, _, res := vpClass(err)
			e := p.rec.add(st.Op + "_ret")
			e.Ok, e.Res = ok, res
		default:
			return nil, fmt.Errorf("unknown step %q", st.Op)
		}
		if !vpQuiesce(h, ctl, procs, qrec, conns) {
			// overloaded machine (or a reply that never arrives): stop this replay here, the recorded prefix is still judged
			h.diverged = fmt.Sprintf("step %d: no quiescence within 30 s after %+v", si, st)
			break replay
		}
	}
	// drain: set the event / release every hold and cancel every queued request, so that nothing of this replay stays
	// queued in the private DB (its WaitCount must be zero for the next replay).  The calls are logged like all others.
	if isEvent {
		qrec.add("set_call")
		_, err := procs[0].ev.Set()
		ok, _, res := vpClass(err)
		e := qrec.add("set_ret")
		e.Ok, e.Res = ok, res
	}
	for round := 0; round < 1500; round++ {
		busy := false
		for i, p := range procs {
			if atomic.LoadInt32(&p.pending) == 1 {
				select {
				case r := <-p.done:
					atomic.StoreInt32(&p.pending, 0)
					vpSeqLogRet(h, i, p, r)
				default:
				}
			}
		}
		for _, p := range procs {
			if atomic.LoadInt32(&p.pending) == 1 {
				// a queued request is served when the holders release (never cancelled here: a cancel that races
				// with the grant would release a hold the caller is about to be told it owns)
				busy = true
				continue
			}
			if !isEvent && p.depth > 0 {
				busy = true
				e := p.rec.add("rel_call")
				e.Role = p.role
				err := p.prim.release(p.role)
				ok, _, res := vpClass(err)
				e = p.rec.add("rel_ret")
				e.Role, e.Ok, e.Res = p.role, ok, res
				p.depth--
			}
		}
		if !busy {
			break
		}
		time.Sleep(2 * time.Millisecond)
	}
	return h, nil
}

// ready: wait until the node behind the port serves lock requests (a follower needs its leader link first)
func vpRunReady(sc *vpScenario) (*vpHist, error) {
	h := &vpHist{sc: sc}
	deadline := time.Now().Add(40 * time.Second)
	var last error
	for time.Now().Before(deadline) {
		c := NewClient(sc.Host, uint(sc.Port))
		if err := c.Open(); err != nil {
			last = err
			time.Sleep(100 * time.Millisecond)
			continue
		}
		l := c.SelectDB(uint8(sc.Db)).Lock(vpKey(sc.Key), 0, 5)
		_, err := l.Lock()
		if err == nil {
			_, err = l.Unlock()
		}
		c.Close()
		if err == nil {
			return h, nil
		}
		last = err
		time.Sleep(100 * time.Millisecond)
	}
	return nil, fmt.Errorf("node at port %d not ready: %v", sc.Port, last)
}

// ---------------------------------------------------------------- output

func vpWrite(w *bufio.Writer, idx int, h *vpHist, sc *vpScenario, errText string) {
	put := func(m map[string]interface{}) {
		b, err := json.Marshal(m)
		if err != nil {
			panic(err)
		}
		w.Write(b)
		w.WriteByte('\n')
	}
	put(map[string]interface{}{"e": "begin", "idx": idx, "name": sc.Name, "kind": sc.Kind, "n": sc.N, "G": sc.G, "C": sc.C,
		"mode": sc.Mode, "via": sc.Via, "cuts": sc.Cuts, "depth": sc.Depth})
	nev := 0
	if h != nil {
		var all []*vpEvent
		for _, r := range h.recs {
			all = append(all, r.evs...)
		}
		sort.Slice(all, func(i, j int) bool { return all[i].S < all[j].S })
		unclean := atomic.LoadInt32(&h.unclean) == 1
		for _, e := range all {
			void := e.sess != nil && e.sess.void
			if (e.E == "obs" || e.E == "probe") && unclean {
				void = true
			}
			put(map[string]interface{}{"e": e.E, "s": e.S, "g": e.G, "role": e.Role, "prio": e.Prio, "res": e.Res, "ok": e.Ok,
				"depth": e.Depth, "prios": e.Prios, "void": void})
			nev++
		}
	}
	div, dur := "", int64(0)
	if h != nil {
		div, dur = h.diverged, h.durMs
	}
	put(map[string]interface{}{"e": "end", "idx": idx, "complete": errText == "", "err": errText, "events": nev, "diverged": div, "dur_ms": dur})
}

func TestVerifPrim(t *testing.T) {
	in, out := os.Getenv("VERIF_IN"), os.Getenv("VERIF_OUT")
	if in == "" || out == "" {
		t.Skip("VERIF_IN / VERIF_OUT not set")
	}
	fin, err := os.Open(in)
	if err != nil {
		t.Fatal(err)
	}
	defer fin.Close()
	var scs []*vpScenario
	rd := bufio.NewReaderSize(fin, 1<<20)
	dec := json.NewDecoder(rd)
	for {
		sc := &vpScenario{}
		if err := dec.Decode(sc); err != nil {
			if err == io.EOF {
				break
			}
			t.Fatal(err)
		}
		if sc.Host == "" {
			sc.Host = "127.0.0.1"
		}
		if sc.C < 1 {
			sc.C = 1
		}
		scs = append(scs, sc)
	}
	type result struct {
		h   *vpHist
		err error
	}
	res := make([]result, len(scs))
	par := 4
	if v := os.Getenv("VERIF_PRIM_PAR"); v != "" {
		fmt.Sscanf(v, "%d", &par)
	}
	sem := make(chan struct{}, par)
	var wg sync.WaitGroup
	for i, sc := range scs {
		wg.Add(1)
		sem <- struct{}{}
		go func(i int, sc *vpScenario) {
			defer wg.Done()
			defer func() { <-sem }()
			var h *vpHist
			var err error
			t0 := time.Now()
			dbg := os.Getenv("VERIF_PRIM_DEBUG") != ""
			if dbg {
				fmt.Fprintf(os.Stderr, "start %s\n", sc.Name)
			}
			defer func() {
				if res[i].h != nil {
					res[i].h.durMs = time.Since(t0).Milliseconds()
				}
				if dbg {
					fmt.Fprintf(os.Stderr, "done  %s %d ms err=%v\n", sc.Name, time.Since(t0).Milliseconds(), res[i].err)
				}
			}()
			if sc.Mode == "seq" {
				h, err = vpRunSeq(sc)
			} else if sc.Mode == "ready" {
				h, err = vpRunReady(sc)
			} else {
				h, err = vpRunFree(sc)
			}
			res[i] = result{h, err}
		}(i, sc)
	}
	wg.Wait()
	fo, err := os.Create(out)
	if err != nil {
		t.Fatal(err)
	}
	w := bufio.NewWriterSize(fo, 1<<20)
	bad := 0
	for i, sc := range scs {
		txt := ""
		if res[i].err != nil {
			txt = res[i].err.Error()
			bad++
			t.Logf("scenario %s: %v", sc.Name, res[i].err)
		}
		vpWrite(w, i+1, res[i].h, sc, txt)
	}
	w.Flush()
	fo.Close()
	if bad > 0 {
		t.Fatalf("%d scenario(s) could not be run", bad)
	}
}

//go:build verif

package server

// Engine P, in-package half (C09): observation of node data directories taken from a process cluster
// (leader + followers behind the fault proxy).  For every directory listed in a scenario this driver
//   (1) dumps the record sequence of every AOF file with the server's own file reader (AofFile.ReadLock /
//       ReadLockData, nothing skipped), and
//   (2) recovers the directory with the server's own start-up path (NewSLock + initLeader on the copy)
//       and takes the canonical snapshot (the projection shared with the lock-engine checks).
// Nothing is judged here: the events go to $VERIF_OUT and are validated by the TLA+ trace spec MonRepl.

import (
	"crypto/sha1"
	"encoding/hex"
	"encoding/json"
	"fmt"
	"os"
	"path/filepath"
	"sort"
	"strconv"
	"strings"
	"sync/atomic"
	"testing"
	"time"
)

type vReplNode struct {
	Name string `json:"name"`
	Dir  string `json:"dir"`
}

type vReplScenario struct {
	Name  string      `json:"name"`
	Nodes []vReplNode `json:"nodes"`
}

// vReplNorm: record bytes with the length prefix and the REWRITED flag bit neutralised (the bytes that
// legitimately differ between the wire copy, the leader's file and a follower's file).
func vReplNorm(buf []byte) []byte {
	b := make([]byte, 64)
	copy(b, buf[:64])
	b[0], b[1] = 0, 0
	b[55] &= 0xFE
	return b
}

func vReplHash(buf []byte, data []byte) int64 {
	h := sha1.New()
	h.Write(vReplNorm(buf))
	if len(data) > 0 {
		h.Write(data)
	}
	s := hex.EncodeToString(h.Sum(nil))[:7]
	v, _ := strconv.ParseInt(s, 16, 64)
	return v
}

func vReplAofFiles(dir string) []string {
	ents, err := os.ReadDir(dir)
	if err != nil {
		return nil
	}
	type ent struct {
		name string
		idx  uint64
	}
	var apps []ent
	rewrite := ""
	for _, e := range ents {
		n := e.Name()
		if n == "rewrite.aof" {
			rewrite = n
		} else if strings.HasPrefix(n, "append.aof.") && !strings.HasSuffix(n, ".dat") {
			if v, perr := strconv.ParseUint(n[11:], 10, 64); perr == nil {
				apps = append(apps, ent{n, v})
			}
		}
	}
	sort.Slice(apps, func(i, j int) bool { return apps[i].idx < apps[j].idx })
	out := []string{}
	if rewrite != "" {
		out = append(out, rewrite)
	}
	for _, a := range apps {
		out = append(out, a.name)
	}
	return out
}

// vReplDumpFiles emits one "F" event per record found in the directory, in file order.
func vReplDumpFiles(tr *vTrace, sc string, node vReplNode, aof *Aof) int {
	n := 0
	for _, fn := range vReplAofFiles(node.Dir) {
		af := NewAofFile(aof, filepath.Join(node.Dir, fn), os.O_RDONLY, 4096)
		if err := af.Open(); err != nil {
			tr.Emit(map[string]interface{}{"e": "ferr", "sc": sc, "node": node.Name, "file": fn, "err": err.Error()})
			continue
		}
		lock := NewAofLock()
		pos := 0
		for {
			if err := af.ReadLock(lock); err != nil {
				break
			}
			if err := lock.Decode(); err != nil {
				break
			}
			var data []byte
			if lock.AofFlag&AOF_FLAG_CONTAINS_DATA != 0 {
				if err := af.ReadLockData(lock); err != nil {
					// keep listing the records: the sequence of ids is what the trace spec judges first
					tr.Emit(map[string]interface{}{"e": "ferr", "sc": sc, "node": node.Name, "file": fn, "err": "value frame missing: " + err.Error(), "pos": pos})
					data = []byte("<missing value frame>")
				} else {
					data = lock.data
				}
			}
			tr.Emit(map[string]interface{}{"e": "F", "node": node.Name, "file": fn, "pos": pos, "idx": int64(lock.AofIndex), "off": int64(lock.AofOffset),
				"h": vReplHash(lock.buf, data), "hr": vReplHash(lock.buf, nil), "ct": int(lock.CommandType), "rw": int(lock.AofFlag & AOF_FLAG_REWRITED)})
			pos++
			n++
		}
		_ = af.Close()
	}
	return n
}

func vReplCopyDir(src string) string {
	dst, err := os.MkdirTemp(filepath.Dir(src), "rec_")
	if err != nil {
		panic(err)
	}
	ents, _ := os.ReadDir(src)
	for _, e := range ents {
		if e.IsDir() {
			continue
		}
		b, rerr := os.ReadFile(filepath.Join(src, e.Name()))
		if rerr != nil {
			panic(rerr)
		}
		if werr := os.WriteFile(filepath.Join(dst, e.Name()), b, 0644); werr != nil {
			panic(werr)
		}
	}
	return dst
}

// vReplWaitLoaded waits until every shard's AOF channel has applied what the start-up load queued.
// (Aof.WaitFlushAofChannel, which LoadAndInit relies on, can return while a channel that was just signalled has
// not started yet - its records are then applied a little later; the snapshot must not be taken before.)
func vReplWaitLoaded(w *vWorld) bool {
	aof := w.slock.aof
	stable := 0
	for i := 0; i < 6000; i++ {
		pending := 0
		aof.glock.Lock()
		channels := aof.channels
		aof.glock.Unlock()
		for _, ch := range channels {
			ch.queueGlock.Lock()
			pending += ch.queueCount
			if !ch.queuePulled {
				pending++
			}
			ch.queueGlock.Unlock()
		}
		if pending == 0 && atomic.LoadUint32(&aof.channelActiveCount) == 0 {
			stable++
			if stable >= 3 {
				return true
			}
		} else {
			stable = 0
		}
		time.Sleep(5 * time.Millisecond)
	}
	return false
}

func TestVerifRepl(t *testing.T) {
	in, out := vEnvInOut(t)
	if in == "" {
		return
	}
	tr := vOpenTrace(out)
	defer tr.Close()
	vReadJSONLines(in, func(line []byte) {
		var sc vReplScenario
		vMustUnmarshal(line, &sc)
		tr.Emit(map[string]interface{}{"e": "begin", "name": sc.Name})
		for _, node := range sc.Nodes {
			// recovery runs on a private copy: the server's start-up compacts (rewrites) the directory
			cp := vReplCopyDir(node.Dir)
			func() {
				defer func() {
					if r := recover(); r != nil {
						tr.Emit(map[string]interface{}{"e": "recover-panic", "node": node.Name, "err": fmt.Sprint(r)})
					}
				}()
				w := vNewWorld(t, vWorldCfg{DataDir: cp, FastKeys: 4096}, tr, 0)
				nrec := vReplDumpFiles(tr, sc.Name, node, w.slock.aof)
				loaded := vReplWaitLoaded(w)
				snap := w.Snapshot()
				snap["loaded"] = loaded
				snap["e"] = "rsnap"
				snap["node"] = node.Name
				snap["nrec"] = nrec
				b, _ := json.Marshal(snap)
				var m map[string]interface{}
				_ = json.Unmarshal(b, &m)
				tr.Emit(m)
				w.Close(true)
			}()
		}
		tr.Emit(map[string]interface{}{"e": "end", "name": sc.Name})
	})
}

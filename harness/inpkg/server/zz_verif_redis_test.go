//go:build verif

package server

// Engine W (in-process) driver for the second part of C15: the Redis-style text commands.
//
// Reads scenarios {name, cmds: [[arg0, arg1, ...], ...]} (ndjson) from $VERIF_IN.  Every command is
// executed by the REAL TextServerProtocol handler (FindHandler -> commandHandlerKeyWriteValueCommand /
// commandHandlerKeyReadValueCommand -> TextCommandConverter -> LockDB.Lock/UnLock -> reply writer) on a
// connection whose other end (net.Pipe) is read by the driver; the reply bytes are parsed as one RESP
// value and written to $VERIF_OUT, one event per command.  The pseudo command ["TICK", n] advances
// the virtual clock.  A command that waits (SETNX on a busy key waits the connection timeout) is
// released by advancing the virtual clock until its reply arrives.  A panic of the real code inside a
// handler is caught and recorded; the connection object is then replaced.
// The RESP framing/parsing of requests is C14's subject and is not exercised here.

import (
	"bufio"
	"bytes"
	"encoding/json"
	"fmt"
	"net"
	"os"
	"runtime/debug"
	"strconv"
	"strings"
	"sync"
	"testing"
	"time"

	"github.com/snower/slock/protocol"
)

type vRedisCmd struct {
	Args []string `json:"args"` // what is sent
	C    string   `json:"c"`    // the command in the vocabulary of spec/RedisCmds.tla
	K    string   `json:"k"`    // model key
	V    []int    `json:"v"`    // value argument as bytes
	D    int      `json:"d"`    // numeric argument
	MaxT int      `json:"maxticks"` // clock seconds a waiting command may take before it is called hung (default 40)
}

type vRedisScenario struct {
	Name    string      `json:"name"`
	Timeout int         `json:"timeout"` // -1: keep the connection default (15 s); else TIMEOUT SET n first
	Cmds    []vRedisCmd `json:"cmds"`
}

type vRedisConn struct {
	p    *TextServerProtocol
	cli  net.Conn
	srv  net.Conn
	mu   sync.Mutex
	buf  []byte
	done chan struct{}
}

func vNewRedisConn(w *vWorld) *vRedisConn {
	srv, cli := net.Pipe()
	c := &vRedisConn{cli: cli, srv: srv, done: make(chan struct{})}
	stream := NewStream(srv)
	c.p = NewTextServerProtocol(w.slock, stream)
	go func() {
		tmp := make([]byte, 65536)
		for {
			n, err := cli.Read(tmp)
			if n > 0 {
				c.mu.Lock()
				c.buf = append(c.buf, tmp[:n]...)
				c.mu.Unlock()
			}
			if err != nil {
				close(c.done)
				return
			}
		}
	}()
	return c
}

func (c *vRedisConn) close() {
	c.srv.Close()
	c.cli.Close()
	<-c.done
}

// parseResp parses ONE complete RESP value from b; ok=false when incomplete.
func vParseResp(b []byte) (map[string]interface{}, int, bool) {
	i := bytes.Index(b, []byte("\r\n"))
	if i < 0 {
		return nil, 0, false
	}
	line := string(b[1:i])
	switch b[0] {
	case '+':
		return map[string]interface{}{"t": "status", "s": line, "n": 0}, i + 2, true
	case '-':
		return map[string]interface{}{"t": "err", "s": line, "n": 0}, i + 2, true
	case ':':
		n, err := strconv.ParseInt(line, 10, 64)
		if err != nil {
			return map[string]interface{}{"t": "bad", "s": line, "n": 0}, i + 2, true
		}
		// TLC integers are 32 bit: larger numbers are passed as text
		if n > 1000000000 || n < -1000000000 {
			return map[string]interface{}{"t": "bigint", "s": line, "n": 0}, i + 2, true
		}
		return map[string]interface{}{"t": "int", "s": line, "n": n}, i + 2, true
	case '$':
		n, err := strconv.Atoi(line)
		if err != nil {
			return map[string]interface{}{"t": "bad", "s": line, "n": 0}, i + 2, true
		}
		if n < 0 {
			return map[string]interface{}{"t": "nil", "s": "", "n": 0}, i + 2, true
		}
		if len(b) < i+2+n+2 {
			return nil, 0, false
		}
		return map[string]interface{}{"t": "bulk", "s": string(b[i+2 : i+2+n]), "n": 0, "sb": vBytesToInts(b[i+2 : i+2+n])}, i + 2 + n + 2, true
	}
	return map[string]interface{}{"t": "bad", "s": string(b), "n": 0}, len(b), true
}

func (c *vRedisConn) take() (map[string]interface{}, bool) {
	c.mu.Lock()
	defer c.mu.Unlock()
	if len(c.buf) == 0 {
		return nil, false
	}
	r, n, ok := vParseResp(c.buf)
	if !ok {
		return nil, false
	}
	r["extra"] = len(c.buf) - n // bytes behind the first value (must be 0: one reply per command)
	r["raw"] = string(c.buf)
	if _, ok := r["sb"]; !ok {
		r["sb"] = []int{}
	}
	c.buf = nil
	return r, true
}

func vNoReply() map[string]interface{} {
	return map[string]interface{}{"t": "none", "s": "", "n": 0, "extra": 0, "raw": "", "sb": []int{}}
}

// tickPanic = true: the panic happened in a timer sweep (shard mutex left locked: the world is unusable)
func vRunRedisCmd(w *vWorld, c *vRedisConn, args []string) (reply map[string]interface{}, ticks int, panicked string, hung bool, tickPanic bool) {
	reply, ticks, panicked, hung, tickPanic, _ = vRunRedisCmdX(w, c, args, 40, "")
	return
}

// vRedisKey is the LockKey the text converter derives from a key argument.
func vRedisKey(key string) [16]byte {
	var k [16]byte
	protocol.NewTextCommandConverter().ConvertArgId2LockId(key, &k)
	return k
}

// vTermMs: a (value, flag) pair of a lock command in milliseconds; -1 = unlimited
func vTermMs(v uint16, flag uint16, unlimited bool) int64 {
	if unlimited {
		return -1
	}
	if flag&0x0400 != 0 { // *_FLAG_MILLISECOND_TIME
		return int64(v)
	}
	if flag&0x0040 != 0 { // *_FLAG_MINUTE_TIME
		return int64(v) * 60000
	}
	return int64(v) * 1000
}

// vRedisTtlPeek is the projection of a key's time-to-live: the deadline of the hold that carries the value,
// relative to the virtual clock, and the term of the command that last set it (in-package read).
func vRedisTtlPeek(w *vWorld, key string) map[string]interface{} {
	res := map[string]interface{}{"held": false, "unlimited": false, "left_ms": 0, "term_ms": 0, "ef": 0, "ex": 0}
	db := w.slock.dbs[0]
	if db == nil {
		return res
	}
	cmd := &protocol.LockCommand{}
	cmd.LockKey = vRedisKey(key)
	m := db.GetLockManager(cmd)
	if m == nil || m.refCount == 0xffffffff || m.currentLock == nil || m.locked == 0 {
		return res
	}
	l := m.currentLock
	res["held"] = true
	unl := l.expriedTime == 0x7fffffffffffffff
	res["unlimited"] = unl
	if !unl {
		res["left_ms"] = (l.expriedTime - w.now) * 1000
	}
	if l.command != nil {
		res["ef"] = int(l.command.ExpriedFlag)
		res["ex"] = int(l.command.Expried)
		res["term_ms"] = vTermMs(l.command.Expried, l.command.ExpriedFlag, l.command.ExpriedFlag&protocol.EXPRIED_FLAG_UNLIMITED_EXPRIED_TIME != 0)
	}
	return res
}

// vRedisWaitPeek: the wait term (ms) of the newest queued request on the key, -2 when nobody is queued.
func vRedisWaitPeek(w *vWorld, key string) int64 {
	db := w.slock.dbs[0]
	if db == nil {
		return -2
	}
	cmd := &protocol.LockCommand{}
	cmd.LockKey = vRedisKey(key)
	m := db.GetLockManager(cmd)
	if m == nil || m.refCount == 0xffffffff || m.waitLocks == nil {
		return -2
	}
	term := int64(-2)
	for _, node := range m.waitLocks.IterNodes() {
		for _, l := range node {
			if l != nil && !l.timeouted && l.ackCount == 0xff && l.command != nil {
				term = vTermMs(l.command.Timeout, l.command.TimeoutFlag, false)
			}
		}
	}
	return term
}

func vRunRedisCmdX(w *vWorld, c *vRedisConn, args []string, maxTicks int, peekKey string) (reply map[string]interface{}, ticks int, panicked string, hung bool, tickPanic bool, waitTerm int64) {
	waitTerm = -2
	fin := make(chan string, 1)
	go func() {
		defer func() {
			if x := recover(); x != nil {
				st := string(debug.Stack())
				keep := []string{}
				for _, ln := range strings.Split(st, "\n") {
					if (strings.Contains(ln, "/server/") || strings.Contains(ln, "/protocol/")) && !strings.Contains(ln, "zz_verif") {
						keep = append(keep, strings.TrimSpace(ln))
					}
				}
				if len(keep) > 3 {
					keep = keep[:3]
				}
				fin <- fmt.Sprintf("%v", x) + " @ " + strings.Join(keep, " | ")
			}
		}()
		h, err := c.p.FindHandler(strings.ToUpper(args[0]))
		if err != nil {
			// what the server does with a command it has no handler for (server/protocol.go RunCommand)
			_ = c.p.commandHandlerUnknownCommand(c.p, args)
			fin <- ""
			return
		}
		_ = h(c.p, args)
		fin <- ""
	}()
	wait := 25 * time.Millisecond
	for {
		select {
		case p := <-fin:
			if p != "" {
				return vNoReply(), ticks, p, false, false, waitTerm
			}
			// the reply was written before the handler returned; the reader goroutine may lag a moment
			for k := 0; k < 20000; k++ {
				if r, ok := c.take(); ok {
					return r, ticks, "", false, false, waitTerm
				}
				time.Sleep(100 * time.Microsecond)
			}
			return vNoReply(), ticks, "", false, false, waitTerm
		case <-time.After(wait):
			wait = 3 * time.Millisecond
			// waiting for a timer of the lock engine: advance the virtual clock
			if ticks == 0 && peekKey != "" {
				// the command is waiting: read the term of its queued request before the clock moves
				_ = vCaught(func() { waitTerm = vRedisWaitPeek(w, peekKey) })
			}
			if ticks >= maxTicks {
				// every timer of the engine is long past: give a slow machine real time before calling it hung
				select {
				case p := <-fin:
					if p != "" {
						return vNoReply(), ticks, p, false, false, waitTerm
					}
					for k := 0; k < 20000; k++ {
						if r, ok := c.take(); ok {
							return r, ticks, "", false, false, waitTerm
						}
						time.Sleep(100 * time.Microsecond)
					}
					return vNoReply(), ticks, "", false, false, waitTerm
				case <-time.After(10 * time.Second):
					return vNoReply(), ticks, "", true, false, waitTerm
				}
			}
			if p := vCaught(func() { w.Tick("te") }); p != "" {
				return vNoReply(), ticks, p, true, true, waitTerm
			}
			ticks++
		}
	}
}

func vReadRedisScenarios(path string) []vRedisScenario {
	f, err := os.Open(path)
	if err != nil {
		panic(err)
	}
	defer f.Close()
	var out []vRedisScenario
	sc := bufio.NewScanner(f)
	sc.Buffer(make([]byte, 1<<20), 1<<28)
	for sc.Scan() {
		if len(sc.Bytes()) == 0 {
			continue
		}
		var s vRedisScenario
		if err := json.Unmarshal(sc.Bytes(), &s); err != nil {
			panic(err)
		}
		out = append(out, s)
	}
	return out
}

func TestVerifRedis(t *testing.T) {
	in, out := os.Getenv("VERIF_IN"), os.Getenv("VERIF_OUT")
	if in == "" || out == "" {
		t.Skip("VERIF_IN / VERIF_OUT not set")
	}
	scs := vReadRedisScenarios(in)
	tr := vOpenTrace(out)
	defer tr.Close()
	w := vNewWorld(t, vWorldCfg{}, tr, 1000)
	vQuietWorld(w)
	w.db(0) // create db 0 on the virtual clock before the text handlers would create it on the wall clock
	c := vNewRedisConn(w)
	curTimeout := -1
	worlds := []string{}
	for i := range scs {
		sc := &scs[i]
		tr.Emit(map[string]interface{}{"e": "begin", "name": sc.Name, "idx": i})
		if sc.Timeout != curTimeout {
			// the connection-level wait time (text command TIMEOUT SET n); a fresh connection has 15 s
			if sc.Timeout < 0 {
				c.close()
				c = vNewRedisConn(w)
			} else {
				_, _, p, hung, _ := vRunRedisCmd(w, c, []string{"TIMEOUT", "SET", strconv.Itoa(sc.Timeout)})
				if p != "" || hung {
					panic("TIMEOUT SET failed: " + p)
				}
			}
			curTimeout = sc.Timeout
		}
		aborted := false
		for j := range sc.Cmds {
			cm := &sc.Cmds[j]
			v := cm.V
			if v == nil {
				v = []int{}
			}
			ev := map[string]interface{}{"e": "rcmd", "name": sc.Name, "i": j, "c": cm.C, "k": cm.K, "v": v, "d": cm.D, "args": cm.Args,
				"ticks": 0, "panic": "", "hung": false, "reply": vNoReply(), "wait_term_ms": -2,
				"ttl": map[string]interface{}{"held": false, "unlimited": false, "left_ms": 0, "term_ms": 0, "ef": 0, "ex": 0}}
			if cm.C == "TICK" {
				p := vCaught(func() {
					for k := 0; k < cm.D; k++ {
						w.Tick("te")
					}
				})
				ev["ticks"] = cm.D
				ev["panic"] = p
				tr.Emit(ev)
				if p != "" {
					worlds = append(worlds, w.dir)
					w = vNewWorld(t, vWorldCfg{}, tr, 1000)
					vQuietWorld(w)
					w.db(0)
					c = vNewRedisConn(w)
					curTimeout = -1
					aborted = true
					break
				}
				continue
			}
			args := make([]string, len(cm.Args))
			copy(args, cm.Args)
			for ai, a := range args {
				// "@s+n" / "@ms+n": an absolute wall-clock time n seconds / milliseconds from now (EXPIREAT / PEXPIREAT
				// are converted against time.Now() by the server)
				if strings.HasPrefix(a, "@s+") {
					n, _ := strconv.ParseInt(a[3:], 10, 64)
					for time.Now().Nanosecond() > 700000000 { // stay clear of the second boundary
						time.Sleep(20 * time.Millisecond)
					}
					args[ai] = strconv.FormatInt(time.Now().Unix()+n, 10)
				} else if strings.HasPrefix(a, "@ms+") {
					n, _ := strconv.ParseInt(a[4:], 10, 64)
					args[ai] = strconv.FormatInt(time.Now().UnixMilli()+n, 10)
				}
			}
			maxT := cm.MaxT
			if maxT <= 0 {
				maxT = 40
			}
			peekKey := ""
			if len(cm.Args) > 1 {
				peekKey = cm.Args[1]
			}
			reply, ticks, p, hung, tickPanic, waitTerm := vRunRedisCmdX(w, c, args, maxT, peekKey)
			ev["reply"], ev["ticks"], ev["panic"], ev["hung"] = reply, ticks, p, hung
			ev["wait_term_ms"] = waitTerm
			if p == "" && !hung && peekKey != "" {
				_ = vCaught(func() { ev["ttl"] = vRedisTtlPeek(w, peekKey) })
			}
			tr.Emit(ev)
			if tickPanic {
				worlds = append(worlds, w.dir)
				w = vNewWorld(t, vWorldCfg{}, tr, 1000)
				vQuietWorld(w)
				w.db(0)
				c = vNewRedisConn(w)
				curTimeout = -1
				aborted = true
				break
			}
			if p != "" || hung {
				// replace the connection object (its reply bookkeeping is undefined after a panic; after a hang a
				// handler goroutine still waits inside the old object, which is left alone)
				if !hung {
					c.close()
				}
				c = vNewRedisConn(w)
				curTimeout = -1
				aborted = true
				break
			}
		}
		tr.Emit(map[string]interface{}{"e": "end", "name": sc.Name, "idx": i, "aborted": aborted})
	}
	c.close()
	if !vCloseWorld(w) {
		worlds = append(worlds, w.dir)
	}
	for _, d := range worlds {
		os.RemoveAll(d)
	}
}

//go:build verif

package server

// Engine S driver for C15 (key values behave as an atomic register).
//
// Reads scenarios (ndjson, one per line) from $VERIF_IN, replays each one on the real LockDB
// through Lock/UnLock (one goroutine, virtual clock) and writes ONE event per step to $VERIF_OUT:
// the request with its value-operation frame (bytes as ints), the value stored on the key before
// and after the step (in-package peek at LockManager.currentData, the projection), every reply
// delivered during the step in delivery order with its data frame, and - while the key is held -
// the answer of an external `show` query.  The TLA+ trace spec spec/mon/MonValue.tla folds the
// sequential interpreter of spec/ValueReg.tla over these events.
//
// A panic of the real code inside a request is caught, recorded in the step event and the world
// is abandoned (its shard mutex is left locked by the panicking call).

import (
	"encoding/hex"
	"fmt"
	"os"
	"runtime"
	"runtime/debug"
	"strings"
	"testing"
	"time"

	"github.com/snower/slock/protocol"
)

type vValScenario struct {
	Name  string `json:"name"`
	Fresh bool   `json:"fresh"` // run in a world of its own
	Steps []vReq `json:"steps"`
}

func vBytesToInts(b []byte) []int {
	out := make([]int, len(b))
	for i, x := range b {
		out[i] = int(x)
	}
	return out
}

func vHexToInts(h string) []int {
	if h == "" {
		return []int{}
	}
	b, err := hex.DecodeString(h)
	if err != nil {
		panic(err)
	}
	return vBytesToInts(b)
}

// vValPeek is the projection of one key: what the register holds according to the real structures.
func (w *vWorld) vValPeek(r *vReq) map[string]interface{} {
	res := map[string]interface{}{"mgr": false, "locked": 0, "waited": false, "val": []int{}, "unset": false, "nwait": 0}
	db := w.slock.dbs[uint8(r.Db)]
	if db == nil {
		return res
	}
	cmd := &protocol.LockCommand{}
	cmd.LockKey = vKey(r.Key)
	m := db.GetLockManager(cmd)
	if m == nil || m.refCount == 0xffffffff {
		return res
	}
	res["mgr"] = true
	res["locked"] = int(m.locked)
	res["waited"] = m.waited
	if m.currentData != nil {
		d := m.currentData.GetData()
		if d != nil {
			// copy: the real code aliases request buffers
			c := make([]byte, len(d))
			copy(c, d)
			res["val"] = vBytesToInts(c)
		} else {
			res["unset"] = true
		}
	}
	n := 0
	if m.waitLocks != nil {
		for _, node := range m.waitLocks.IterNodes() {
			for _, l := range node {
				if l != nil && !l.timeouted && l.ackCount == 0xff && l.command != nil {
					n++
				}
			}
		}
	}
	res["nwait"] = n
	return res
}

type vValRun struct {
	w       *vWorld
	replies []map[string]interface{}
	nextId  int64
}

func (vr *vValRun) gate(w *vWorld, ev map[string]interface{}) {
	r := map[string]interface{}{"rid": ev["rid"], "res": ev["res"], "lc": ev["lc"], "lrc": ev["lrc"], "lid": ev["lid"],
		"ct": ev["ct"], "val": vHexToInts(ev["data"].(string)), "own": ev["cur"] == ev["rid"]}
	vr.replies = append(vr.replies, r)
}

// vQuietWorld stops the wall-clock background loop of the transparency manager (server/transparency.go
// Run: a 120 s timer that is of no use to a sequential in-package world).  A driver process that lived
// longer than 120 s died in that loop (nil *SLock in CheckArbiterWaiter) during a thorough-tier run; worlds
// that are abandoned after a caught panic are never closed, so the loop is ended at creation.
func vQuietWorld(w *vWorld) {
	tm := w.slock.replicationManager.transparencyManager
	if tm == nil {
		return
	}
	_ = tm.Close()
	for i := 0; i < 20000; i++ {
		select {
		case <-tm.closedWaiter:
			return
		default:
			tm.Wakeup() // Run may not have installed its wake-up channel yet
			time.Sleep(100 * time.Microsecond)
		}
	}
}

func vNewValRun(t *testing.T, tr *vTrace) *vValRun {
	vr := &vValRun{nextId: 1}
	vr.w = vNewWorld(t, vWorldCfg{}, tr, 1000)
	vQuietWorld(vr.w)
	vr.w.gate = vr.gate
	return vr
}

// vCaught runs a piece of the real code on a goroutine of its own; a panic is returned as text (with the
// frames of the real code), a call that does not return within vHangLimit as "HANG ..." (the goroutine is
// left behind; the caller abandons the world).
const vHangLimit = 40 * time.Second

func vCaught(f func()) string {
	done := make(chan string, 1)
	go func() {
		defer func() {
			if x := recover(); x != nil {
				st := string(debug.Stack())
				keep := []string{}
				for _, ln := range strings.Split(st, "\n") {
					if (strings.Contains(ln, "/server/lock.go") || strings.Contains(ln, "/server/db.go") || strings.Contains(ln, "/protocol/")) && !strings.Contains(ln, "zz_verif") {
						keep = append(keep, strings.TrimSpace(ln))
					}
				}
				if len(keep) > 4 {
					keep = keep[:4]
				}
				done <- fmt.Sprintf("%v", x) + " @ " + strings.Join(keep, " | ")
				return
			}
			done <- ""
		}()
		f()
	}()
	select {
	case p := <-done:
		return p
	case <-time.After(vHangLimit):
		buf := make([]byte, 1<<20)
		n := runtime.Stack(buf, true)
		keep := []string{}
		for _, ln := range strings.Split(string(buf[:n]), "\n") {
			if (strings.Contains(ln, "/server/lock.go") || strings.Contains(ln, "/server/db.go")) && !strings.Contains(ln, "zz_verif") {
				keep = append(keep, strings.TrimSpace(ln))
			}
		}
		if len(keep) > 8 {
			keep = keep[:8]
		}
		return "HANG no return within 40 s @ " + strings.Join(keep, " | ")
	}
}

// vCloseWorld closes a world with a deadline (the shutdown paths of the server wait on channels of its
// background goroutines); false = abandoned.
func vCloseWorld(w *vWorld) bool {
	done := make(chan struct{})
	go func() {
		defer func() { _ = recover(); close(done) }()
		w.Close(true)
	}()
	select {
	case <-done:
		return true
	case <-time.After(20 * time.Second):
		return false
	}
}

// issueCaught runs one request; a panic of the real code is returned as text.
func (vr *vValRun) issueCaught(id int64, r *vReq) string {
	return vCaught(func() {
		vr.w.curReq = id
		vr.w.Issue(id, r)
		vr.w.curReq = -1
	})
}

func (vr *vValRun) runScenario(sc *vValScenario, idx int, tr *vTrace) (poisoned bool) {
	w := vr.w
	tr.Emit(map[string]interface{}{"e": "begin", "name": sc.Name, "idx": idx})
	for i := range sc.Steps {
		r := &sc.Steps[i]
		ev := map[string]interface{}{"e": "vstep", "name": sc.Name, "i": i, "op": vHexToInts(r.Data), "lid": r.Lid, "key": r.Key,
			"flag": r.Flag, "tf": r.TFlag, "ef": r.EFlag, "to": r.Timeout, "ex": r.Expried, "cnt": r.Count, "rc": r.Rcount,
			"rid": 0, "panic": "", "hang": false, "n": 0}
		ev["pre"] = w.vValPeek(r)
		vr.replies = []map[string]interface{}{}
		panicked := ""
		switch r.Op {
		case "lock", "unlock":
			id := vr.nextId
			vr.nextId++
			ev["rid"] = id
			if r.Op == "lock" {
				ev["kind"] = "L"
			} else {
				ev["kind"] = "U"
			}
			panicked = vr.issueCaught(id, r)
		case "tick":
			ev["kind"] = "T"
			n := r.N
			if n <= 0 {
				n = 1
			}
			ev["n"] = n
			panicked = vCaught(func() {
				for j := 0; j < n; j++ {
					w.Tick("te")
				}
			})
		case "sleep":
			// wall-clock pause (driver self-test only: background goroutines of the server run on the wall clock)
			ev["kind"] = "T"
			time.Sleep(time.Duration(r.N) * time.Second)
		default:
			panic("unknown op " + r.Op)
		}
		if panicked != "" {
			// the panicking call left its shard mutex locked: record and abandon the world
			w.curReq = -1
			ev["panic"] = panicked
			ev["hang"] = strings.HasPrefix(panicked, "HANG")
			ev["replies"] = vr.replies
			ev["post"] = map[string]interface{}{"mgr": false, "locked": 0, "waited": false, "val": []int{}, "unset": false, "nwait": 0}
			ev["probe"] = map[string]interface{}{"done": false, "res": 0, "val": []int{}}
			tr.Emit(ev)
			tr.Emit(map[string]interface{}{"e": "end", "name": sc.Name, "idx": idx, "aborted": true})
			return true
		}
		ev["replies"] = vr.replies
		post := w.vValPeek(r)
		ev["post"] = post
		// external view: a `show` query (lock flag 0x01, no data) while the key is held is a pure read
		probe := map[string]interface{}{"done": false, "res": 0, "val": []int{}}
		if post["locked"].(int) > 0 {
			vr.replies = []map[string]interface{}{}
			q := &vReq{Op: "lock", Conn: 98, Db: r.Db, Key: r.Key, Lid: 999999, Flag: 1}
			id := vr.nextId
			vr.nextId++
			p := vr.issueCaught(id, q)
			if p == "" && len(vr.replies) == 1 {
				probe["done"] = true
				probe["res"] = vr.replies[0]["res"]
				probe["val"] = vr.replies[0]["val"]
			}
			vr.replies = nil
		}
		ev["probe"] = probe
		tr.Emit(ev)
	}
	tr.Emit(map[string]interface{}{"e": "end", "name": sc.Name, "idx": idx, "aborted": false})
	return false
}

func vReadValScenarios(path string) []vValScenario {
	base := vReadScenarios(path) // same ndjson shape (name, steps); extra fields are ignored there
	out := make([]vValScenario, len(base))
	for i, b := range base {
		out[i] = vValScenario{Name: b.Name, Steps: b.Steps, Fresh: b.Mode == "fresh"}
	}
	return out
}

func TestVerifValue(t *testing.T) {
	in, out := os.Getenv("VERIF_IN"), os.Getenv("VERIF_OUT")
	if in == "" || out == "" {
		t.Skip("VERIF_IN / VERIF_OUT not set")
	}
	scs := vReadValScenarios(in)
	tr := vOpenTrace(out)
	defer tr.Close()
	var shared *vValRun
	dirs := []string{}
	for i := range scs {
		sc := &scs[i]
		var vr *vValRun
		if sc.Fresh {
			vr = vNewValRun(t, tr)
		} else {
			if shared == nil {
				shared = vNewValRun(t, tr)
			}
			vr = shared
		}
		poisoned := vr.runScenario(sc, i, tr)
		if poisoned {
			// the panicking call left its shard mutex locked: abandon this world without closing it
			dirs = append(dirs, vr.w.dir)
			if vr == shared {
				shared = nil
			}
		} else if sc.Fresh {
			if !vCloseWorld(vr.w) {
				dirs = append(dirs, vr.w.dir)
			}
		}
	}
	if shared != nil {
		if !vCloseWorld(shared.w) {
			dirs = append(dirs, shared.w.dir)
		}
	}
	for _, d := range dirs {
		os.RemoveAll(d)
	}
}

//go:build verif

package server

// Engine "X" (growth check `bin/extra lockext`): the sequential step interpreter on the virtual clock for the request
// flags that RE-ISSUE commands or report success without a hold (unlock-to-wait, reverse-key on timeout / expiry,
// less-lock-version, keepalive).  What differs from engine S:
//   * keys and LockIds use all sixteen bytes (a reversed key has its value in the upper half; the LockId "version" is
//     the lower half, a tag in byte 8 tells LockIds of one version apart), so the driver has its own codecs, its own
//     connection type (vxConn: reply callback + a Stream whose `closed` the keepalive test looks at) and snapshot;
//   * the executor (LockDBExecutor: two runner goroutines per shard) is REAL.  Mode "seq": the runners are parked at the
//     yield point `lock.mgr.got` (after the key manager lookup, before the shard mutex) and the driver releases exactly
//     one of them per `exec` step - the order of the critical sections is the order of the script and of the recorded
//     events.  Mode "free": nothing is parked, the runners run while the driver's sweep goes on; the driver only waits
//     for the executors to come to rest after every step (the monitor then judges only what does not depend on the
//     order of events);
//   * a client request is sent only when no executor task is pending: a pending task raises the low-priority mark of its
//     shard mutex, LowPriorityLock (every client request) waits for it - the real server serialises them the same way.

import (
	"encoding/binary"
	"fmt"
	"os"
	"runtime"
	"sort"
	"strings"
	"sync"
	"sync/atomic"
	"testing"
	"time"

	"github.com/snower/slock/protocol"
)

// ---------------------------------------------------------------- codecs

// key k in 1..899: bytes 0-1 = k (little endian), byte i (2..15) = 0xA0+i - every byte position carries its own value, so a
// reversal that misplaces any byte is seen; -k: the byte-reversed key of k; 900..999: a palindromic key (its own reverse:
// bytes 0-7 as above, mirrored into 8-15)
func vxKey(k int64) [16]byte {
	var b [16]byte
	a := k
	if a < 0 {
		a = -a
	}
	b[0], b[1] = byte(a), byte(a>>8)
	for i := 2; i < 16; i++ {
		b[i] = byte(0xA0 + i)
	}
	if a >= 900 {
		for i := 0; i < 8; i++ {
			b[15-i] = b[i]
		}
		return b
	}
	if k < 0 {
		var r [16]byte
		for i := 0; i < 16; i++ {
			r[15-i] = b[i]
		}
		return r
	}
	return b
}

func vxKeyInt(b [16]byte) int64 {
	fwd := func(x [16]byte) int64 {
		for i := 2; i < 16; i++ {
			if x[i] != byte(0xA0+i) {
				return 0
			}
		}
		k := int64(x[0]) | int64(x[1])<<8
		if k < 1 || k >= 900 {
			return 0
		}
		return k
	}
	if k := fwd(b); k != 0 {
		return k
	}
	var r [16]byte
	for i := 0; i < 16; i++ {
		r[15-i] = b[i]
	}
	if k := fwd(r); k != 0 {
		return -k
	}
	if r == b {
		ok := true
		for i := 2; i < 8; i++ {
			if b[i] != byte(0xA0+i) {
				ok = false
			}
		}
		k := int64(b[0]) | int64(b[1])<<8
		if ok && k >= 900 && k < 1000 {
			return k
		}
	}
	return -999999
}

// LockId l: version = l % 1000, tag = l / 1000.  The version is the lower eight bytes (little endian) of the LockId: they hold
// vxVerBase + version, so every one of the eight bytes takes part in a comparison; byte 8 = tag (tells LockIds of one version
// apart), bytes 9-15 a fixed pattern
const vxVerBase = uint64(0x1112131415160000)

func vxLid(l int64) [16]byte {
	var b [16]byte
	binary.LittleEndian.PutUint64(b[0:8], vxVerBase+uint64(l%1000))
	b[8] = byte(l / 1000)
	for i := 9; i < 16; i++ {
		b[i] = byte(0xB0 + i)
	}
	return b
}

func vxLidInt(b [16]byte) int64 {
	for i := 9; i < 16; i++ {
		if b[i] != byte(0xB0+i) {
			return -999999
		}
	}
	v := binary.LittleEndian.Uint64(b[0:8]) - vxVerBase
	if v >= 1000 {
		return -999998
	}
	return int64(v) + 1000*int64(b[8])
}

// ---------------------------------------------------------------- connection

type vxConn struct {
	*DefaultServerProtocol
	x      *vxWorld
	id     int
	proxy  *ProxyServerProtocol
	stream *Stream
	poolMu sync.Mutex
	pool   []*protocol.LockCommand
}

func (c *vxConn) GetProxy() *ProxyServerProtocol { return c.proxy }
func (c *vxConn) GetStream() *Stream             { return c.stream }

func (c *vxConn) ProcessLockResultCommand(command *protocol.LockCommand, result uint8, lcount uint16, lrcount uint8, data []byte) error {
	return c.ProcessLockResultCommandLocked(command, result, lcount, lrcount, data)
}

func (c *vxConn) ProcessLockResultCommandLocked(command *protocol.LockCommand, result uint8, lcount uint16, lrcount uint8, data []byte) error {
	x := c.x
	x.mu.Lock()
	x.seq++
	x.stamp[command] = x.seq // the push of a re-issued command follows its reply on the same goroutine: reply order = push order
	x.mu.Unlock()
	x.w.tr.Emit(map[string]interface{}{
		"e": "reply", "conn": c.id, "rid": vReqIdInt(command.RequestId), "res": int(result),
		"lc": int(lcount), "lrc": int(lrcount), "lid": vxLidInt(command.LockId), "key": vxKeyInt(command.LockKey),
		"db": int(command.DbId), "ct": int(command.CommandType), "t": x.w.now,
		"cnt": int(command.Count), "rc": int(command.Rcount), "ex": int(command.Expried), "to": int(command.Timeout),
		"tf": int(command.TimeoutFlag), "ef": int(command.ExpriedFlag), "drv": vGoroutineID() == x.gid,
	})
	return nil
}

func (c *vxConn) GetLockCommand() *protocol.LockCommand { return c.GetLockCommandLocked() }
func (c *vxConn) GetLockCommandLocked() *protocol.LockCommand {
	c.poolMu.Lock()
	defer c.poolMu.Unlock()
	if n := len(c.pool); n > 0 {
		cmd := c.pool[n-1]
		c.pool = c.pool[:n-1]
		return cmd
	}
	return &protocol.LockCommand{Command: protocol.Command{Magic: protocol.MAGIC, Version: protocol.VERSION}}
}
func (c *vxConn) FreeLockCommand(command *protocol.LockCommand) error { return c.FreeLockCommandLocked(command) }
func (c *vxConn) FreeLockCommandLocked(command *protocol.LockCommand) error {
	if command == nil {
		return nil
	}
	c.poolMu.Lock()
	if len(c.pool) < 64 {
		c.pool = append(c.pool, command)
	}
	c.poolMu.Unlock()
	return nil
}

// ---------------------------------------------------------------- world

type vxParked struct {
	cmd     *protocol.LockCommand
	shard   uint16
	db      uint8
	release chan struct{}
}

type vxWorld struct {
	w      *vWorld
	gid    uint64
	free   bool
	conns  map[int]*vxConn
	mu     sync.Mutex
	seq    int64
	stamp  map[*protocol.LockCommand]int64
	parked []*vxParked
	nexec  int64
}

func (x *vxWorld) conn(id int) *vxConn {
	c := x.conns[id]
	if c == nil {
		c = &vxConn{DefaultServerProtocol: NewDefaultServerProtocolNoGlobal(x.w.slock), x: x, id: id}
		c.proxy = &ProxyServerProtocol{[16]byte{}, c}
		c.stream = &Stream{closed: false, closedWaiter: make(chan struct{})}
		x.conns[id] = c
	}
	return c
}

// the yield point: every goroutine but the driver is an executor runner about to run a re-issued command
func (x *vxWorld) hook(name string, a interface{}, b interface{}) {
	if name != "lock.mgr.got" && name != "unlock.mgr.got" {
		return
	}
	if x.free || vGoroutineID() == x.gid {
		return
	}
	m, _ := a.(*LockManager)
	cmd, _ := b.(*protocol.LockCommand)
	if m == nil || cmd == nil {
		return
	}
	p := &vxParked{cmd: cmd, shard: m.glockIndex, db: m.dbId, release: make(chan struct{})}
	x.mu.Lock()
	x.parked = append(x.parked, p)
	x.mu.Unlock()
	<-p.release
}

func (x *vxWorld) parkedOn(db uint8, shard uint16) int {
	n := 0
	for _, p := range x.parked {
		if p.db == db && p.shard == shard {
			n++
		}
	}
	return n
}

// settle waits until every runner of every executor is blocked: waiting for work or parked at the yield point.
func (x *vxWorld) settle() {
	deadline := time.Now().Add(20 * time.Second)
	for {
		ok := true
		for _, db := range x.w.slock.dbs {
			if db == nil {
				continue
			}
			for i, ex := range db.executors {
				if ex == nil {
					continue
				}
				ex.queueLock.Lock()
				x.mu.Lock()
				np := x.parkedOn(db.dbId, uint16(i))
				x.mu.Unlock()
				if ex.runningCount != 2 || ex.queueWaited+np != 2 || (ex.queueWaited > 0 && ex.queueTail != nil) {
					ok = false
				}
				ex.queueLock.Unlock()
			}
		}
		if ok {
			return
		}
		if time.Now().After(deadline) {
			panic("vx: executors did not come to rest within 20 s")
		}
		runtime.Gosched()
		time.Sleep(20 * time.Microsecond)
	}
}

type vxTask struct {
	cmd    *protocol.LockCommand
	stamp  int64
	parked *vxParked
}

// pending executor tasks (parked at the yield point or still queued), oldest push first
func (x *vxWorld) pending() []vxTask {
	var ts []vxTask
	x.mu.Lock()
	for _, p := range x.parked {
		ts = append(ts, vxTask{cmd: p.cmd, stamp: x.stamp[p.cmd], parked: p})
	}
	x.mu.Unlock()
	for _, db := range x.w.slock.dbs {
		if db == nil {
			continue
		}
		for _, ex := range db.executors {
			if ex == nil {
				continue
			}
			ex.queueLock.Lock()
			for t := ex.queueTail; t != nil; t = t.next {
				x.mu.Lock()
				ts = append(ts, vxTask{cmd: t.command, stamp: x.stamp[t.command]})
				x.mu.Unlock()
			}
			ex.queueLock.Unlock()
		}
	}
	sort.SliceStable(ts, func(i, j int) bool { return ts[i].stamp < ts[j].stamp })
	return ts
}

func (x *vxWorld) emitXq() {
	ts := x.pending()
	l := make([]map[string]interface{}, 0, len(ts))
	for _, t := range ts {
		l = append(l, map[string]interface{}{"rid": vReqIdInt(t.cmd.RequestId), "key": vxKeyInt(t.cmd.LockKey), "parked": t.parked != nil,
			"ct": int(t.cmd.CommandType)})
	}
	x.w.tr.Emit(map[string]interface{}{"e": "xq", "tasks": l, "t": x.w.now, "executed": x.executed()})
}

func (x *vxWorld) executed() int64 {
	n := int64(0)
	for _, db := range x.w.slock.dbs {
		if db == nil {
			continue
		}
		for _, ex := range db.executors {
			if ex != nil {
				ex.queueLock.Lock()
				n += int64(ex.executeCount)
				ex.queueLock.Unlock()
			}
		}
	}
	return n
}

// exec releases the idx-th oldest parked task and waits until the executors are at rest again.
func (x *vxWorld) exec(idx int) bool {
	ts := x.pending()
	var pk []vxTask
	for _, t := range ts {
		if t.parked != nil {
			pk = append(pk, t)
		}
	}
	if len(pk) == 0 {
		return false
	}
	if idx >= len(pk) {
		idx = len(pk) - 1
	}
	t := pk[idx]
	x.w.tr.Emit(map[string]interface{}{"e": "exec", "rid": vReqIdInt(t.cmd.RequestId), "key": vxKeyInt(t.cmd.LockKey), "idx": idx, "t": x.w.now,
		"lid": vxLidInt(t.cmd.LockId), "tf": int(t.cmd.TimeoutFlag), "ef": int(t.cmd.ExpriedFlag), "to": int(t.cmd.Timeout), "ex": int(t.cmd.Expried),
		"cnt": int(t.cmd.Count), "rc": int(t.cmd.Rcount), "flag": int(t.cmd.Flag)})
	rid := vReqIdInt(t.cmd.RequestId)
	x.mu.Lock()
	for i, p := range x.parked {
		if p == t.parked {
			x.parked = append(x.parked[:i], x.parked[i+1:]...)
			break
		}
	}
	x.mu.Unlock()
	atomic.AddInt64(&x.nexec, 1)
	close(t.parked.release)
	x.settle()
	x.w.tr.Emit(map[string]interface{}{"e": "xret", "rid": rid, "t": x.w.now})
	return true
}

func (x *vxWorld) execAll() {
	for x.exec(0) {
	}
}

func (x *vxWorld) buildCommand(id int64, r *vReq) *protocol.LockCommand {
	cmd := x.conn(r.Conn).GetLockCommandLocked()
	*cmd = protocol.LockCommand{Command: protocol.Command{Magic: protocol.MAGIC, Version: protocol.VERSION}}
	if r.Op == "lock" {
		cmd.CommandType = protocol.COMMAND_LOCK
	} else {
		cmd.CommandType = protocol.COMMAND_UNLOCK
	}
	cmd.RequestId = vReqId(id)
	cmd.Flag = uint8(r.Flag)
	cmd.DbId = uint8(r.Db)
	cmd.LockId = vxLid(r.Lid)
	cmd.LockKey = vxKey(r.Key)
	cmd.TimeoutFlag = uint16(r.TFlag)
	cmd.Timeout = uint16(r.Timeout)
	cmd.ExpriedFlag = uint16(r.EFlag)
	cmd.Expried = uint16(r.Expried)
	cmd.Count = uint16(r.Count)
	cmd.Rcount = uint8(r.Rcount)
	return cmd
}

func (x *vxWorld) issue(nextId *int64, r *vReq, drain bool) {
	w := x.w
	if !x.free {
		x.execAll() // a client request waits for the pending executor tasks of its shard (LowPriorityLock)
	}
	if r.Op == "lock" && r.NoDupWait && x.hasLiveIssue(r) {
		// two live queued requests of one LockId on one key are finding A12 (C02), not this check's subject
		w.tr.Emit(map[string]interface{}{"e": "skip", "why": "lid already queued on key", "t": w.now})
		return
	}
	id := *nextId
	*nextId++
	ev := w.reqEvent(id, r)
	if drain {
		ev["drain"] = true
	}
	w.tr.Emit(ev)
	cmd := x.buildCommand(id, r)
	db := w.db(uint8(r.Db))
	if cmd.CommandType == protocol.COMMAND_LOCK {
		_ = db.Lock(x.conn(r.Conn), cmd, 0)
	} else {
		_ = db.UnLock(x.conn(r.Conn), cmd, 0)
	}
	w.tr.Emit(map[string]interface{}{"e": "ret", "id": id, "t": w.now})
}

func (x *vxWorld) hasLiveIssue(r *vReq) bool {
	key, lid := vxKey(r.Key), vxLid(r.Lid)
	for _, t := range x.pending() {
		if t.cmd.LockKey == key && t.cmd.LockId == lid {
			return true
		}
	}
	db := x.w.slock.dbs[uint8(r.Db)]
	if db == nil {
		return false
	}
	m := db.GetLockManager(&protocol.LockCommand{LockKey: key})
	if m == nil || m.waitLocks == nil {
		return false
	}
	for _, node := range m.waitLocks.IterNodes() {
		for _, l := range node {
			if l != nil && !l.timeouted && l.ackCount == 0xff && l.command != nil && l.command.LockId == lid {
				return true
			}
		}
	}
	return false
}

// ---------------------------------------------------------------- snapshot

func vxHolderOf(l *Lock) map[string]interface{} {
	return map[string]interface{}{"lid": vxLidInt(l.command.LockId), "depth": int(l.locked), "cnt": int(l.command.Count), "rc": int(l.command.Rcount),
		"exp": l.expriedTime, "rid": vReqIdInt(l.command.RequestId), "tf": int(l.command.TimeoutFlag), "ef": int(l.command.ExpriedFlag),
		"ex": int(l.command.Expried), "to": int(l.command.Timeout), "ack": int(l.ackCount)}
}

func (x *vxWorld) snapshot(final bool) map[string]interface{} {
	w := x.w
	type ks struct {
		key int64
		m   map[string]interface{}
	}
	var keys []ks
	st := map[string]interface{}{}
	nlive, tw, ew := 0, 0, 0
	xrun, xqueued := 0, 0
	for _, db := range w.slock.dbs {
		if db == nil {
			continue
		}
		seen := map[*LockManager]bool{}
		add := func(m *LockManager) {
			if m == nil || seen[m] || m.refCount == 0xffffffff {
				return
			}
			seen[m] = true
			nlive++
			hs := []map[string]interface{}{}
			ws := []map[string]interface{}{}
			if m.currentLock != nil && m.currentLock.locked > 0 {
				hs = append(hs, vxHolderOf(m.currentLock))
			}
			if m.locks != nil {
				for _, node := range m.locks.IterNodes() {
					for _, l := range node {
						if l != nil && l.locked > 0 && l.command != nil {
							hs = append(hs, vxHolderOf(l))
						}
					}
				}
			}
			if m.waitLocks != nil {
				for _, node := range m.waitLocks.IterNodes() {
					for _, l := range node {
						if l == nil || l.timeouted || l.ackCount != 0xff || l.command == nil {
							continue
						}
						ws = append(ws, map[string]interface{}{"lid": vxLidInt(l.command.LockId), "cnt": int(l.command.Count), "rc": int(l.command.Rcount),
							"tf": int(l.command.TimeoutFlag), "ef": int(l.command.ExpriedFlag), "to": int(l.command.Timeout), "ex": int(l.command.Expried),
							"rid": vReqIdInt(l.command.RequestId), "tot": l.timeoutTime})
					}
				}
			}
			k := vxKeyInt(m.lockKey)
			keys = append(keys, ks{k, map[string]interface{}{"db": int(db.dbId), "key": k, "locked": int(m.locked), "waited": m.waited, "ref": int64(m.refCount),
				"holders": hs, "waiters": ws}})
		}
		for i := range db.fastLocks {
			add(db.fastLocks[i].manager)
		}
		db.mGlock.RLock()
		for _, m := range db.locks {
			add(m)
		}
		db.mGlock.RUnlock()
		s := db.GetState()
		st[fmt.Sprintf("%d", db.dbId)] = map[string]interface{}{"locked": int64(s.LockedCount), "wait": int64(s.WaitCount), "keys": int64(s.KeyCount),
			"lock": int64(s.LockCount), "unlock": int64(s.UnLockCount), "timeouted": int64(s.TimeoutedCount), "expried": int64(s.ExpriedCount)}
		t1, e1 := vWheelCensus(db)
		tw += t1
		ew += e1
		for _, ex := range db.executors {
			if ex != nil {
				ex.queueLock.Lock()
				xqueued += ex.queueCount
				xrun += ex.runningCount - ex.queueWaited
				ex.queueLock.Unlock()
			}
		}
	}
	sort.Slice(keys, func(i, j int) bool { return keys[i].key < keys[j].key })
	kl := make([]map[string]interface{}, 0, len(keys))
	for _, k := range keys {
		kl = append(kl, k.m)
	}
	return map[string]interface{}{"e": "snap", "t": w.now, "keys": kl, "st": st, "nkeys": nlive, "tw": tw, "ew": ew,
		"xqueued": xqueued, "xbusy": xrun, "final": final}
}

// ---------------------------------------------------------------- steps

func (x *vxWorld) tick(n int, order string) {
	w := x.w
	if order == "" {
		order = "te"
	}
	for i := 0; i < n; i++ {
		w.Tick(order)
		x.settle()
		if x.free {
			x.emitXq() // the re-issues of this second have run: the ones without an answer are queued from now on
		}
		w.tr.Emit(map[string]interface{}{"e": "tock", "t": w.now})
	}
}

func (x *vxWorld) step(nextId *int64, r *vReq) {
	w := x.w
	switch r.Op {
	case "lock", "unlock":
		x.issue(nextId, r, false)
	case "tick":
		n := r.N
		if n <= 0 {
			n = 1
		}
		x.tick(n, r.Order)
	case "exec":
		x.exec(r.N)
	case "close":
		c := x.conn(r.Conn)
		c.stream.closed = true // what Stream.Close() sets; the keepalive test of doTimeOut / doExpried reads it
		w.tr.Emit(map[string]interface{}{"e": "close", "conn": r.Conn, "t": w.now})
	case "status":
		if !x.free {
			x.execAll()
		}
		w.slock.updateState(uint8(r.Status))
		w.tr.Emit(map[string]interface{}{"e": "status", "status": r.Status, "t": w.now})
	case "drain":
		// every connection goes away (keepalive timers stop re-arming), every timer fires, every re-issue runs, then the
		// remaining holds are released by LockId
		for id, c := range x.conns {
			if !c.stream.closed {
				c.stream.closed = true
				w.tr.Emit(map[string]interface{}{"e": "close", "conn": id, "t": w.now})
			}
		}
		for i := 0; i < r.N; i++ {
			x.tick(1, "te")
			if !x.free {
				x.execAll()
			}
			x.emitXq()
		}
		for round := 0; round < 40; round++ {
			snap := x.snapshot(false)
			any := false
			for _, k := range snap["keys"].([]map[string]interface{}) {
				for _, h := range k["holders"].([]map[string]interface{}) {
					any = true
					u := &vReq{Op: "unlock", Conn: 99, Db: k["db"].(int), Key: k["key"].(int64), Lid: h["lid"].(int64), Rcount: 0}
					x.issue(nextId, u, true)
					x.settle()
				}
			}
			if !any {
				break
			}
		}
		for i := 0; i < 18; i++ {
			x.tick(1, "te")
			if !x.free {
				x.execAll()
			}
		}
		x.emitXq()
		w.tr.Emit(x.snapshot(true))
		return
	default:
		panic("vx: unknown op " + r.Op)
	}
	x.settle()
	x.emitXq()
	w.tr.Emit(x.snapshot(false))
}

func (x *vxWorld) safeStep(nextId *int64, r *vReq) {
	if x.w.dead {
		return
	}
	defer func() {
		if e := recover(); e != nil {
			x.w.dead = true
			buf := make([]byte, 1<<16)
			n := runtime.Stack(buf, false)
			x.w.tr.Emit(map[string]interface{}{"e": "panic", "msg": fmt.Sprint(e), "site": vxPanicSite(string(buf[:n])), "op": r.Op, "t": x.w.now})
		}
	}()
	x.step(nextId, r)
}

// first frame of slock's own code (not this harness, not the runtime) on the panicking stack
func vxPanicSite(stack string) string {
	for _, ln := range strings.Split(stack, "\n") {
		if strings.HasPrefix(ln, "github.com/snower/slock/") && !strings.Contains(ln, "vxWorld") && !strings.Contains(ln, "vxConn") && !strings.Contains(ln, "TestVerif") {
			if i := strings.LastIndex(ln, "("); i > 0 {
				ln = ln[:i]
			}
			return strings.TrimPrefix(ln, "github.com/snower/slock/")
		}
	}
	return "unknown"
}

func TestVerifLockExt(t *testing.T) {
	in, out := os.Getenv("VERIF_IN"), os.Getenv("VERIF_OUT")
	if in == "" || out == "" {
		t.Skip("VERIF_IN / VERIF_OUT not set")
	}
	scs := vReadScenarios(in)
	tr := vOpenTrace(out)
	defer tr.Close()
	for i, sc := range scs {
		mode := sc.Mode
		if mode == "" {
			mode = "seq"
		}
		tr.Emit(map[string]interface{}{"e": "begin", "name": sc.Name, "idx": i, "t": int64(1000), "mode": mode})
		w := vNewWorld(t, sc.Cfg, tr, 1000)
		x := &vxWorld{w: w, gid: vGoroutineID(), free: mode == "free", conns: map[int]*vxConn{}, stamp: map[*protocol.LockCommand]int64{}}
		VerifPointFunc = x.hook
		nextId := int64(1)
		for j := range sc.Steps {
			x.safeStep(&nextId, &sc.Steps[j])
		}
		tr.Emit(map[string]interface{}{"e": "end", "name": sc.Name, "idx": i, "t": w.now, "complete": sc.Complete && !w.dead})
		// release whatever is still parked (a history that ended early) before the world goes away
		x.free = true
		x.mu.Lock()
		for _, p := range x.parked {
			close(p.release)
		}
		x.parked = nil
		x.mu.Unlock()
		if !w.dead {
			x.settle()
			w.Close(true)
		}
		VerifPointFunc = nil
	}
}

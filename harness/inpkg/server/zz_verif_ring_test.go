//go:build verif

package server

// Engine Q-ring (data-structure part of property C09): operation programs on the REAL replication ring buffer
// (server/replication.go ReplicationBufferQueue).
//
// Reads programs (ndjson, one per line) from $VERIF_IN, runs each on a fresh NewReplicationBufferQueue(nil, buf, max)
// and writes the observed trace (ndjson) to $VERIF_OUT.  After EVERY operation the driver records the operation, its
// result (the record handed out by Pop / Head / Search, EOF, the error text), what SendProcess would have sent for the
// cursor in that step, and a projection of the real struct (live chain walking nextItem from tailItem, free list walking
// nextItem from freeTailItem, usedBufferSize, bufferSize, seq, pollCount, every cursor).  Every pointer walk is bounded
// and stops on a revisited slot (reported as -1 at the end of the walk).  The trace is validated by TLC against the
// trace specification spec/mon/MonReplRing.tla (reference: spec/ReplRing.tla Judge / StructCode); the driver judges
// nothing.
//
// program: {"name":..,"buf":128,"max":512,"nc":2,"ops":[["push",0,200],["head",1,0],["search",1,3],["addpoll",1,0],
//           ["pop",1,0],["send",1,0],["rmpoll",1,0]], "src":..}
// operations  (cursor numbers are 1..nc; they follow production's usage of a cursor: ReplicationServer.handleInitSync
// positions it, ReplicationManager.addServerChannel registers it, SendProcess sends and pops, removeServerChannel
// unregisters it; an operation that production cannot issue in the cursor's phase is recorded as "skip")
//   push 0 dl      Push(buf, data): record number seq (0,1,2..), id seq+1 written into buf[3:19] (+ buf[60:64]), data of
//                  dl bytes (nil when dl = 0) filled with the id
//   head c 0       handleInitSync without a position: Head(cursor); on EOF cursor.currentItem = nil,
//                  cursor.seq = queue.seq - 1
//   search c s     handleInitSync with the position "record s" (s = -1: the id current before anything was logged):
//                  Search(id, cursor); on an error: refused ("nf") unless the id is the newest record's id
//                  (manager.currentAofId), then currentItem = nil, seq = queue.seq - 1, writed = true ("catchup")
//   addpoll c 0    AddPoll(cursor)
//   pop c 0        one iteration of SendProcess: if !writed { deliver cursor.buf/data; writed = true;
//                  currentItem.pollIndex++ }; Pop(cursor)
//   send c 0       only the first half of that iteration
//   rmpoll c 0     RemovePoll(cursor); the cursor object is dropped (the next connection has a new one)

import (
	"bufio"
	"encoding/binary"
	"encoding/json"
	"fmt"
	"io"
	"os"
	"sync"
	"sync/atomic"
	"testing"
	"time"
)

type vRingProgram struct {
	Name string          `json:"name"`
	Buf  uint64          `json:"buf"`
	Max  uint64          `json:"max"`
	Nc   int             `json:"nc"`
	Ops  [][]interface{} `json:"ops"`
	Src  string          `json:"src"`
}

const vRingOpDeadline = 8 * time.Second
const vRingClampV = int64(2000000000)

var vRingTag = [8]byte{'R', 'I', 'N', 'G', 'v', 'r', 'f', 1}

func vRingClamp(v int64) int64 {
	if v > vRingClampV {
		return vRingClampV
	}
	if v < -vRingClampV {
		return -vRingClampV
	}
	return v
}

func vRingU32(v uint32) int64 {
	if v == 0xffffffff {
		return -1
	}
	return vRingClamp(int64(v))
}

func vRingAofId(id int64) [16]byte {
	var b [16]byte
	binary.LittleEndian.PutUint64(b[0:8], uint64(id))
	copy(b[8:16], vRingTag[:])
	return b
}

// id carried by 16 bytes: 0 for all-zero bytes (a slot that was never written), -1 for anything the driver did not write
func vRingIdOf(b []byte) int64 {
	zero := true
	for _, x := range b[:16] {
		if x != 0 {
			zero = false
		}
	}
	if zero {
		return 0
	}
	for i := 0; i < 8; i++ {
		if b[8+i] != vRingTag[i] {
			return -1
		}
	}
	return vRingClamp(int64(binary.LittleEndian.Uint64(b[0:8])))
}

func vRingRecord(id int64, dl int) ([]byte, []byte) {
	buf := make([]byte, 64)
	buf[0], buf[1], buf[2] = 0x3e, 0, 7
	a := vRingAofId(id)
	copy(buf[3:19], a[:])
	for i := 19; i < 60; i++ {
		buf[i] = byte(id)
	}
	binary.LittleEndian.PutUint32(buf[60:64], uint32(id))
	if dl == 0 {
		return buf, nil
	}
	data := make([]byte, dl)
	for i := range data {
		data[i] = byte(id)
	}
	if dl >= 4 {
		binary.LittleEndian.PutUint32(data[0:4], uint32(id))
	}
	return buf, data
}

type vRingWorld struct {
	q     *ReplicationBufferQueue
	cur   []*ReplicationBufferQueueCursor
	ph    []string // new | pos | reg | dead
	ids   map[*ReplicationBufferQueueItem]int
	npush int
	last  int64 // id of the newest record (manager.currentAofId), 0 before anything was logged
	cov   map[string]int
}

func (w *vRingWorld) slotId(p *ReplicationBufferQueueItem) int {
	if p == nil {
		return 0
	}
	if v, ok := w.ids[p]; ok {
		return v
	}
	w.ids[p] = len(w.ids) + 1
	return len(w.ids)
}

func (w *vRingWorld) bound() int {
	return len(w.ids) + w.npush + int(w.q.maxBufferSize/64) + int(w.q.bufferSize/64) + 16
}

// walk nextItem from p; ok = the walk ended on nil within the bound without meeting a slot twice
func (w *vRingWorld) walk(p *ReplicationBufferQueueItem) (items []*ReplicationBufferQueueItem, ok bool) {
	seen := map[*ReplicationBufferQueueItem]bool{}
	bound := w.bound()
	for p != nil {
		if seen[p] || len(items) >= bound {
			return items, false
		}
		seen[p] = true
		items = append(items, p)
		p = p.nextItem
	}
	return items, true
}

func vRingCursorRec(c *ReplicationBufferQueueCursor) map[string]interface{} {
	r := map[string]interface{}{"seq": vRingClamp(int64(c.seq)), "id": vRingIdOf(c.currentAofId[:]), "bid": int64(-1), "b2": int64(-1), "dl": len(c.data), "d0": int64(0)}
	if len(c.buf) == 64 {
		r["bid"] = vRingIdOf(c.buf[3:19])
		r["b2"] = int64(binary.LittleEndian.Uint32(c.buf[60:64]))
	}
	if len(c.data) >= 4 {
		r["d0"] = int64(binary.LittleEndian.Uint32(c.data[0:4]))
	}
	return r
}

func (w *vRingWorld) proj() map[string]interface{} {
	q := w.q
	fr, fok := w.walk(q.freeTailItem)
	lv, lok := w.walk(q.tailItem)
	free, fpc := make([]int, 0, len(fr)+1), make([]int64, 0, len(fr)+1)
	for _, p := range fr {
		free = append(free, w.slotId(p))
		fpc = append(fpc, vRingU32(p.pollCount))
	}
	live, lseq, ldl := make([]int, 0, len(lv)+1), make([]int64, 0, len(lv)+1), make([]int, 0, len(lv)+1)
	lpc, lpi := make([]int64, 0, len(lv)+1), make([]int64, 0, len(lv)+1)
	for _, p := range lv {
		live = append(live, w.slotId(p))
		lseq = append(lseq, vRingClamp(int64(p.seq)))
		ldl = append(ldl, len(p.data))
		lpc = append(lpc, vRingU32(p.pollCount))
		lpi = append(lpi, vRingU32(p.pollIndex))
	}
	lhead := (len(lv) == 0 && q.headItem == nil) || (len(lv) > 0 && lv[len(lv)-1] == q.headItem)
	fhead := (len(fr) == 0 && q.freeHeadItem == nil) || (len(fr) > 0 && fr[len(fr)-1] == q.freeHeadItem)
	if !lok {
		live, lseq, ldl, lpc, lpi = append(live, -1), append(lseq, 0), append(ldl, 0), append(lpc, -1), append(lpi, 0)
	}
	if !fok {
		free, fpc = append(free, -1), append(fpc, -1)
	}
	curs := make([]map[string]interface{}, 0, len(w.cur))
	reg := make([]int, 0, len(w.cur))
	for i, c := range w.cur {
		k := map[string]interface{}{"seq": vRingClamp(int64(c.seq)), "slot": w.slotId(c.currentItem), "w": c.writed, "sseq": int64(0), "spc": int64(0), "ph": w.ph[i]}
		if c.currentItem != nil {
			k["sseq"] = vRingClamp(int64(c.currentItem.seq))
			k["spc"] = vRingU32(c.currentItem.pollCount)
		}
		curs = append(curs, k)
		if w.ph[i] == "reg" || w.ph[i] == "dead" {
			reg = append(reg, i+1)
		}
	}
	return map[string]interface{}{"live": live, "lseq": lseq, "ldl": ldl, "lpc": lpc, "lpi": lpi, "free": free, "fpc": fpc,
		"lhead": lhead, "fhead": fhead, "used": vRingClamp(int64(q.usedBufferSize)), "bsize": vRingClamp(int64(q.bufferSize)),
		"seq": vRingClamp(int64(q.seq)), "qpc": vRingU32(q.pollCount), "nslots": len(w.ids), "cur": curs, "reg": reg}
}

func vRingErr(err error) string {
	if err == nil {
		return "ok"
	}
	if err == io.EOF {
		return "eof"
	}
	if err.Error() == "out of buf" {
		return "oob"
	}
	return "err:" + err.Error()
}

// the first half of a SendProcess iteration
func (w *vRingWorld) send(c *ReplicationBufferQueueCursor) map[string]interface{} {
	if c.writed {
		return nil
	}
	d := vRingCursorRec(c)
	c.writed = true
	atomic.AddUint32(&c.currentItem.pollIndex, 1)
	return d
}

func vRingInt(v interface{}) int {
	f, _ := v.(float64)
	return int(f)
}

// do runs one operation; ev gets res / rec / dlv; returns false when the operation is not one production could issue now
func (w *vRingWorld) do(op string, ci int, arg int, ev map[string]interface{}) bool {
	q := w.q
	if op == "push" {
		id := int64(q.seq) + 1
		buf, data := vRingRecord(id, arg)
		free0, _ := w.walk(q.freeTailItem)
		bs0 := q.bufferSize
		ev["res"] = vRingErr(q.Push(buf, data))
		w.npush++
		w.last = id
		// implementation-level coverage facts (evidence only)
		free1, _ := w.walk(q.freeTailItem)
		if q.bufferSize != bs0 {
			w.cov["grow"]++
			if q.bufferSize >= q.maxBufferSize {
				w.cov["grown_to_max"] = 1
			}
		} else if len(free1) > len(free0) {
			w.cov["release_loop_body"]++
			if len(free0) == 0 {
				w.cov["free_list_refilled"]++
			}
		}
		if len(free0) > 0 && len(free1) == 0 {
			w.cov["free_list_exhausted"]++
		}
		return true
	}
	if ci < 1 || ci > len(w.cur) {
		return false
	}
	c, ph := w.cur[ci-1], w.ph[ci-1]
	switch op {
	case "head":
		if ph != "new" {
			return false
		}
		err := q.Head(c)
		ev["res"] = vRingErr(err)
		if err == io.EOF {
			c.currentItem = nil
			c.seq = q.seq - 1
		} else if err == nil {
			ev["rec"] = vRingCursorRec(c)
		}
		w.ph[ci-1] = "pos"
	case "search":
		if ph != "new" {
			return false
		}
		id := int64(arg) + 1
		if lv, ok := w.walk(q.tailItem); !ok {
			_ = lv
			ev["res"] = "hang"
			ev["why"] = "Search walks nextItem from tailItem until nil; that chain does not end"
			return true
		}
		err := q.Search(vRingAofId(id), c)
		if err == nil {
			ev["res"] = "ok"
			ev["rec"] = vRingCursorRec(c)
			w.ph[ci-1] = "pos"
		} else if id == w.last {
			c.currentAofId = vRingAofId(id)
			c.currentItem = nil
			c.seq = q.seq - 1
			c.writed = true
			ev["res"] = "catchup"
			ev["err"] = vRingErr(err)
			w.ph[ci-1] = "pos"
		} else {
			ev["res"] = "nf"
			ev["err"] = vRingErr(err)
		}
	case "addpoll", "rmpoll":
		if (op == "addpoll" && ph != "pos") || (op == "rmpoll" && ph != "reg" && ph != "dead") {
			return false
		}
		if _, ok := w.walk(c.currentItem); !ok {
			ev["res"] = "hang"
			ev["why"] = "the walk over nextItem from cursor.currentItem does not end"
			return true
		}
		if op == "addpoll" {
			if c.currentItem != nil && c.currentItem.pollCount == 0xffffffff {
				w.cov["addpoll_on_recycled_slot"]++
			}
			q.AddPoll(c)
			w.ph[ci-1] = "reg"
		} else {
			q.RemovePoll(c)
			w.cur[ci-1] = NewReplicationBufferQueueCursor(make([]byte, 64))
			w.ph[ci-1] = "new"
		}
		ev["res"] = "ok"
	case "send":
		if ph != "reg" || c.writed {
			return false
		}
		ev["dlv"] = w.send(c)
		ev["res"] = "ok"
	case "pop":
		if ph != "reg" {
			return false
		}
		if d := w.send(c); d != nil {
			ev["dlv"] = d
		}
		err := q.Pop(c)
		ev["res"] = vRingErr(err)
		if err == nil {
			ev["rec"] = vRingCursorRec(c)
		} else if err != io.EOF {
			w.ph[ci-1] = "dead"
		}
	default:
		return false
	}
	return true
}

// ---------------------------------------------------------------- watchdog (an operation of the real code that does not return)

type vRingWatch struct {
	mu      sync.Mutex
	tr      *vTrace
	inOp    bool
	started time.Time
	cur     map[string]interface{}
	name    string
	idx     int
	progIdx int
}

var vRingW = &vRingWatch{}

func (w *vRingWatch) loop() {
	for {
		time.Sleep(50 * time.Millisecond)
		w.mu.Lock()
		late := w.inOp && time.Since(w.started) > vRingOpDeadline
		if late {
			ev := map[string]interface{}{}
			for k, v := range w.cur {
				ev[k] = v
			}
			ev["res"], ev["why"] = "hang", fmt.Sprintf("operation did not return within %v", vRingOpDeadline)
			w.tr.Emit(ev)
			w.tr.Emit(map[string]interface{}{"e": "end", "idx": w.idx, "name": w.name, "cov": map[string]int{}})
			w.tr.Emit(map[string]interface{}{"done": w.progIdx, "name": w.name})
			w.tr.Close()
			fmt.Println("PASS (aborted by the verif watchdog: an operation of the ring did not return)")
			os.Exit(0)
		}
		w.mu.Unlock()
	}
}

func vRingRunProgram(tr *vTrace, pg *vRingProgram, idx int) {
	w := &vRingWorld{q: NewReplicationBufferQueue(nil, pg.Buf, pg.Max), ids: map[*ReplicationBufferQueueItem]int{}, cov: map[string]int{}}
	for i := 0; i < pg.Nc; i++ {
		w.cur = append(w.cur, NewReplicationBufferQueueCursor(make([]byte, 64)))
		w.ph = append(w.ph, "new")
	}
	tr.Emit(map[string]interface{}{"e": "begin", "idx": idx, "name": pg.Name, "buf": pg.Buf, "max": pg.Max, "nc": pg.Nc, "st": w.proj()})
	stop := false
	for i, o := range pg.Ops {
		if stop {
			break
		}
		op, _ := o[0].(string)
		ci, arg := vRingInt(o[1]), vRingInt(o[2])
		ev := map[string]interface{}{"e": "op", "i": i + 1, "op": op, "c": ci, "a": arg}
		vRingW.mu.Lock()
		vRingW.inOp, vRingW.started, vRingW.cur = true, time.Now(), ev
		vRingW.mu.Unlock()
		ran := false
		func() {
			defer func() {
				if r := recover(); r != nil {
					vRingW.mu.Lock()
					vRingW.inOp = false
					vRingW.mu.Unlock()
					tr.Emit(map[string]interface{}{"e": "panic", "i": i + 1, "op": op, "c": ci, "a": arg, "msg": fmt.Sprint(r)})
					stop = true
					ran = false
				}
			}()
			ran = w.do(op, ci, arg, ev)
		}()
		vRingW.mu.Lock()
		vRingW.inOp = false
		vRingW.mu.Unlock()
		if stop {
			break
		}
		if !ran {
			tr.Emit(map[string]interface{}{"e": "skip", "i": i + 1, "op": op, "c": ci, "a": arg})
			continue
		}
		if ev["res"] == "hang" {
			tr.Emit(ev)
			break
		}
		ev["st"] = w.proj()
		tr.Emit(ev)
	}
	if w.q.bufferSize >= w.q.maxBufferSize && w.q.bufferSize > pg.Buf {
		w.cov["grown_to_max"] = 1
	}
	w.cov["slots"] = len(w.ids)
	tr.Emit(map[string]interface{}{"e": "end", "idx": idx, "name": pg.Name, "cov": w.cov})
}

func TestVerifRing(t *testing.T) {
	in, out := os.Getenv("VERIF_IN"), os.Getenv("VERIF_OUT")
	if in == "" || out == "" {
		t.Skip("VERIF_IN / VERIF_OUT not set")
	}
	f, err := os.Open(in)
	if err != nil {
		panic(err)
	}
	defer f.Close()
	tr := vOpenTrace(out)
	defer tr.Close()
	vRingW.tr = tr
	go vRingW.loop()
	sc := bufio.NewScanner(f)
	sc.Buffer(make([]byte, 1<<20), 1<<28)
	idx := -1
	for sc.Scan() {
		line := sc.Bytes()
		if len(line) == 0 {
			continue
		}
		idx++
		pg := vRingProgram{}
		if err := json.Unmarshal(line, &pg); err != nil {
			panic(err)
		}
		vRingW.mu.Lock()
		vRingW.name, vRingW.idx, vRingW.progIdx = pg.Name, idx, idx
		vRingW.mu.Unlock()
		vRingRunProgram(tr, &pg, idx)
	}
}

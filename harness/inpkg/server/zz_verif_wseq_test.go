//go:build verif

package server

// Engine W part of property C14: SEQUENCES of requests on one connection (spec/WireSeq.tla).
//
// One scenario = one sequence of letters of the WireSeq alphabet, concretised by checks/wire_seq.py.  It is replayed in
// lockstep on
//   - ONE real TextServerProtocol.Process() loop over a net.Pipe (its recycled result object, its LockCommand stack),
//   - ONE real BinaryServerProtocol.Process() loop over a net.Pipe (hand-inlined decoder into recycled LockCommands,
//     hand-inlined encoder into the connection's one reply buffer),
//   - the twin path: the same frame through protocol.LockCommand.Decode and a harness connection with FRESH objects.
// The three run on three databases (main and alt each), same keys.  After every step the reply bytes of both
// connections, the twin's answer, the command object the engine received and the snapshots of the key in the three
// databases (holders, waiters, value) are recorded.  A serving loop that ends (panic, error) is recorded with the step.
//
// Nothing is judged here: spec/mon/MonWire.tla (StepSeq) does that.

import (
	"encoding/json"
	"fmt"
	"net"
	"os"
	"testing"
	"time"

	"github.com/snower/slock/protocol"
)

type vwqStep struct {
	L     map[string]interface{} `json:"l"`    // the letter (op, key, lid, dop, db)
	Pred  map[string]interface{} `json:"pred"` // the shape the model predicts
	Args  [][]int                `json:"args"` // text form (nil: the letter has none)
	Md5s  [][]int                `json:"md5s"`
	TCuts []int                  `json:"tcuts"`
	B     []int                  `json:"b"`    // binary form (nil: text only, a read in between)
	Data  []int                  `json:"data"` // value frame following it
	BCuts []int                  `json:"bcuts"`
	TDb   int                    `json:"tdb"` // database of the text connection for this step
	BDb   int                    `json:"bdb"` // database byte of the frame on the binary connection
	WDb   int                    `json:"wdb"` // database of the twin (-1: the request names no usable database)
	Kb    []int                  `json:"kb"`  // text-only step: the normalised key (to read the key's value in the binary connection's database)
}

type vwqScenario struct {
	K       string    `json:"k"`
	Id      int       `json:"id"`
	Name    string    `json:"name"`
	Src     string    `json:"src"`
	Text    bool      `json:"text"`    // replay on a text connection too
	Barrier string    `json:"barrier"` // "nextbyte" (default) | "roundtrip": how the driver orders itself behind the serving loops
	Dbs     []int     `json:"dbs"`     // databases to create before the first step (so that "unknown database" is never an accident)
	Steps   []vwqStep `json:"steps"`
}

const vwqQuiet = 8 * time.Second // nothing more arrives although the reply announced more
const vwqLong = 90 * time.Second // nothing arrives at all (loaded machine)

// reads one complete RESP value; stops when the serving loop ended or the line went quiet.
// returns (bytes, loop result or "", quiet)
func vwqReadResp(c net.Conn, done chan error, doneMsg *string) ([]byte, bool) {
	buf := []byte{}
	tmp := make([]byte, 8192)
	start, last := time.Now(), time.Now()
	for {
		if n, ok := vwsRespComplete(buf, 0); ok {
			return buf[:n], false
		}
		if *doneMsg != "" {
			// the loop is gone: whatever it wrote before is in the pipe already (net.Pipe writes are synchronous)
			_ = c.SetReadDeadline(time.Now().Add(50 * time.Millisecond))
			n, _ := c.Read(tmp)
			if n > 0 {
				buf = append(buf, tmp[:n]...)
				continue
			}
			return buf, false
		}
		select {
		case err := <-done:
			if err != nil {
				*doneMsg = err.Error()
			} else {
				*doneMsg = "serving loop returned"
			}
			done <- err
			continue
		default:
		}
		if (len(buf) > 0 && time.Since(last) > vwqQuiet) || time.Since(start) > vwqLong {
			return buf, true
		}
		_ = c.SetReadDeadline(time.Now().Add(100 * time.Millisecond))
		n, err := c.Read(tmp)
		if n > 0 {
			buf = append(buf, tmp[:n]...)
			last = time.Now()
		}
		if err != nil {
			if ne, ok := err.(net.Error); ok && ne.Timeout() {
				continue
			}
			*doneMsg = "read: " + err.Error()
		}
	}
}

// reads exactly n bytes with the same stopping rules; partial reports how many arrived
func vwqReadN(c net.Conn, n int, done chan error, doneMsg *string, patient bool) ([]byte, bool) {
	buf := make([]byte, 0, n)
	tmp := make([]byte, n)
	start, last := time.Now(), time.Now()
	for len(buf) < n {
		if *doneMsg != "" {
			_ = c.SetReadDeadline(time.Now().Add(50 * time.Millisecond))
			k, _ := c.Read(tmp[:n-len(buf)])
			if k > 0 {
				buf = append(buf, tmp[:k]...)
				continue
			}
			return buf, false
		}
		select {
		case err := <-done:
			if err != nil {
				*doneMsg = err.Error()
			} else {
				*doneMsg = "serving loop returned"
			}
			done <- err
			continue
		default:
		}
		limit := vwqLong
		if !patient {
			limit = vwqQuiet
		}
		if (len(buf) > 0 && time.Since(last) > vwqQuiet) || time.Since(start) > limit {
			return buf, true
		}
		_ = c.SetReadDeadline(time.Now().Add(100 * time.Millisecond))
		k, err := c.Read(tmp[:n-len(buf)])
		if k > 0 {
			buf = append(buf, tmp[:k]...)
			last = time.Now()
		}
		if err != nil {
			if ne, ok := err.(net.Error); ok && ne.Timeout() {
				continue
			}
			*doneMsg = "read: " + err.Error()
		}
	}
	return buf, false
}

func vwqKeySnap(db *LockDB, key [16]byte) map[string]interface{} {
	s := vwsKeySnap(db, key)
	val := []int{}
	hasval := false
	if db != nil {
		if m := db.GetLockManager(&protocol.LockCommand{LockKey: key}); m != nil && m.lockKey == key {
			if d := m.GetLockData(); d != nil {
				hasval = true
				val = vwsInts(d)
			}
		}
	}
	s["hasval"], s["val"] = hasval, val
	return s
}

// writes b (cut at the recorded positions) except its first `*sent` bytes, which went out earlier as a barrier
func vwqWriteMsg(c net.Conn, b []byte, cuts []int, sent *int) error {
	k := *sent
	*sent = 0
	adj := []int{}
	for _, x := range cuts {
		if x > k {
			adj = append(adj, x-k)
		}
	}
	return vwsWriteCut(c, b[k:], adj)
}

// Barrier without a command in between: the first byte of the NEXT message.  A net.Pipe write returns when the peer has
// read the bytes, and the serving loop reads only between two commands: when the write returns, everything the loop
// does for the previous command is done, and the loop is parked in a read with an incomplete message.
// (A round trip - PING, SELECT - would do too, but its reply goes through the connection's reply buffer.)
func vwqBarrierByte(c net.Conn, b byte, done chan error, doneMsg *string, sent *int) error {
	_ = c.SetWriteDeadline(time.Now().Add(20 * time.Second))
	_, err := c.Write([]byte{b})
	if err == nil {
		*sent = 1
		return nil
	}
	select {
	case derr := <-done:
		if derr != nil {
			*doneMsg = derr.Error()
		} else {
			*doneMsg = "serving loop returned"
		}
		done <- derr
		return nil
	default:
	}
	return fmt.Errorf("barrier write: %v", err)
}

func vwqRun(w *vWorld, sc *vwqScenario, emit func(map[string]interface{})) {
	var tp *vwsTextPeer
	if sc.Text {
		tp = vwsNewTextPeer(w)
		defer tp.close()
	}
	bp := vwsNewBinPeer(w)
	defer bp.close()
	for _, d := range sc.Dbs {
		w.db(uint8(d))
	}
	tdone, bdone := "", ""
	tsent, bsent := 0, 0
	tcur := 0 // database the text connection has selected
	sel := func(db int) error {
		if err := vwqWriteMsg(tp.c, vwsBuildReq([][]int{vwsInts([]byte("SELECT")), vwsInts([]byte(fmt.Sprintf("%d", db)))}), nil, &tsent); err != nil {
			return err
		}
		rb, quiet := vwqReadResp(tp.c, tp.done, &tdone)
		if tdone != "" {
			return nil
		}
		if quiet || string(rb) != "+OK\r\n" {
			return fmt.Errorf("SELECT %d answered %q", db, string(rb))
		}
		tcur = db
		return nil
	}
	for si := range sc.Steps {
		st := &sc.Steps[si]
		hastext := sc.Text && st.Args != nil
		hasbin := st.B != nil
		nextText, nextBin := false, false
		for j := si + 1; j < len(sc.Steps); j++ {
			nextText = nextText || (sc.Text && sc.Steps[j].Args != nil)
			nextBin = nextBin || sc.Steps[j].B != nil
		}
		ev := map[string]interface{}{"k": "seq", "id": sc.Id, "step": si, "n": len(sc.Steps), "src": sc.Src, "l": st.L, "pred": st.Pred, "barrier": sc.Barrier,
			"hastext": hastext, "hasbin": hasbin, "args": [][]int{}, "md5s": [][]int{}, "tcuts": []int{}, "bin": []int{}, "data": []int{}, "bcuts": []int{},
			"trb": []int{}, "tdone": "", "tquiet": false, "brb": []int{}, "brdata": []int{}, "bdone": "", "bquiet": false,
			"bval": []int{}, "cmd": vwsVals{}, "tpre": vwsVals{}, "tcmd": vwsVals{}, "ref": map[string]interface{}{}, "refnone": true,
			"tsnap": map[string]interface{}{}, "bsnap": map[string]interface{}{}, "wsnap": map[string]interface{}{}, "snaps": false,
			"err": "", "panic": ""}
		if st.Args != nil {
			ev["args"], ev["md5s"] = st.Args, st.Md5s
		}
		if st.TCuts != nil {
			ev["tcuts"] = st.TCuts
		}
		if st.BCuts != nil {
			ev["bcuts"] = st.BCuts
		}
		if st.Data != nil {
			ev["data"] = st.Data
		}
		var frame []byte
		var key [16]byte
		if hasbin {
			frame = vwsBytes(st.B)
			frame[20] = byte(st.BDb)
			ev["bin"] = vwsInts(frame)
			copy(key[:], frame[37:53])
		}
		if !hasbin && len(st.Kb) == 16 && st.BDb != 0xff {
			// a read in between: the value the key has right now (same in the three databases: lockstep)
			var kb [16]byte
			copy(kb[:], vwsBytes(st.Kb))
			if sn := vwqKeySnap(w.slock.dbs[st.BDb], kb); sn["hasval"].(bool) {
				ev["bval"] = sn["val"]
			}
		}
		stop := false
		msg, err := vwsSafe(func() error {
			// ---- the text connection: request, reply
			if hastext {
				if tcur != st.TDb {
					if err := sel(st.TDb); err != nil {
						return err
					}
				}
				if tdone == "" {
					if err := vwqWriteMsg(tp.c, vwsBuildReq(st.Args), st.TCuts, &tsent); err != nil {
						return fmt.Errorf("writing the text request: %v", err)
					}
					trb, quiet := vwqReadResp(tp.c, tp.done, &tdone)
					ev["trb"], ev["tquiet"] = vwsInts(trb), quiet
					if quiet {
						stop = true
					}
				}
			}
			// ---- the binary connection: request, reply
			rbOK := false
			if hasbin {
				wire := append(append([]byte{}, frame...), vwsBytes(st.Data)...)
				if err := vwqWriteMsg(bp.c, wire, st.BCuts, &bsent); err != nil {
					return fmt.Errorf("writing the binary request: %v", err)
				}
				rb, quiet := vwqReadN(bp.c, 64, bp.done, &bdone, true)
				ev["brb"] = vwsInts(rb)
				if len(rb) == 64 && !quiet && rb[20]&protocol.LOCK_FLAG_CONTAINS_DATA != 0 {
					lb, q2 := vwqReadN(bp.c, 4, bp.done, &bdone, false)
					quiet = q2
					if len(lb) == 4 && !q2 {
						n := int(lb[0]) | int(lb[1])<<8 | int(lb[2])<<16 | int(lb[3])<<24
						if n < 0 || n > 1<<20 {
							return fmt.Errorf("reply value frame length %d", n)
						}
						body, q3 := vwqReadN(bp.c, n, bp.done, &bdone, false)
						quiet = q3
						ev["brdata"] = vwsInts(append(lb, body...))
					} else {
						ev["brdata"] = vwsInts(lb)
					}
				}
				ev["bquiet"] = quiet
				rbOK = bdone == "" && !quiet && len(rb) == 64
				if !rbOK {
					stop = true
				}
			}
			// ---- barriers: both loops have finished the command (and are seen if they died right after the reply)
			if hastext && tdone == "" && !stop {
				if sc.Barrier == "roundtrip" || !nextText {
					if err := sel(tcur); err != nil {
						return err
					}
				} else if err := vwqBarrierByte(tp.c, '*', tp.done, &tdone, &tsent); err != nil {
					return err
				}
			}
			if hasbin && rbOK {
				if sc.Barrier == "roundtrip" || !nextBin {
					if err := bp.sync(); err != nil {
						bdone = "sync: " + err.Error()
					}
				} else if err := vwqBarrierByte(bp.c, protocol.MAGIC, bp.done, &bdone, &bsent); err != nil {
					return err
				}
			}
			if tdone != "" {
				ev["tdone"] = tdone
				stop = true
			}
			if bdone != "" {
				ev["bdone"] = bdone
				stop = true
			}
			if hasbin && rbOK && bdone == "" {
				var rid [16]byte
				copy(rid[:], frame[3:19])
				bp.sp.glock.Lock()
				free, nfree := bp.sp.freeCommands, bp.sp.freeCommandIndex
				bp.sp.glock.Unlock()
				var pipeDb *LockDB
				if st.BDb != 0xff {
					pipeDb = w.slock.dbs[st.BDb]
				}
				if c := vwsFindCommand(pipeDb, free, nfree, rid); c != nil {
					ev["cmd"] = vwsCmdVals(c)
				}
				// ---- the twin: fresh objects, the protocol package's decoder
				if st.WDb >= 0 {
					pre, post, ref, err := vwsTwin(w, frame, vwsBytes(st.Data), uint8(st.WDb))
					if err != nil {
						return fmt.Errorf("twin: %v", err)
					}
					ev["tpre"], ev["tcmd"], ev["ref"], ev["refnone"] = pre, post, ref, false
				} else {
					cmd := &protocol.LockCommand{}
					if err := cmd.Decode(frame); err != nil {
						return err
					}
					ev["tpre"] = vwsCmdVals(cmd)
				}
			}
			if stop {
				return nil
			}
			// ---- effects
			if hasbin && st.WDb >= 0 {
				ev["snaps"] = true
				ev["bsnap"] = vwqKeySnap(w.slock.dbs[st.BDb], key)
				ev["wsnap"] = vwqKeySnap(w.slock.dbs[st.WDb], key)
				if hastext {
					ev["tsnap"] = vwqKeySnap(w.slock.dbs[st.TDb], key)
				}
			}
			return nil
		})
		ev["panic"] = msg
		if err != nil {
			ev["err"] = err.Error()
		}
		emit(ev)
		if msg != "" || err != nil || stop {
			return
		}
	}
}

func TestVerifWireSeq(t *testing.T) {
	in, out := os.Getenv("VERIF_IN"), os.Getenv("VERIF_OUT")
	if in == "" || out == "" {
		t.Skip("VERIF_IN / VERIF_OUT not set")
	}
	scs := []vwqScenario{}
	{
		f, err := os.Open(in)
		if err != nil {
			t.Fatal(err)
		}
		dec := json.NewDecoder(f)
		for dec.More() {
			var sc vwqScenario
			if err := dec.Decode(&sc); err != nil {
				t.Fatal(err)
			}
			scs = append(scs, sc)
		}
		f.Close()
	}
	tr := vOpenTrace(out)
	defer tr.Close()
	w := vNewWorld(t, vWorldCfg{}, tr, 1000)
	defer w.Close(true)
	for i := range scs {
		vwqRun(w, &scs[i], tr.Emit)
	}
}

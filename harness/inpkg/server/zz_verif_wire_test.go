//go:build verif

package server

// Engine W part of property C14: the server's own copies of the wire codecs.
//
//   srvbin   LOCK / UNLOCK frames (and value frames) are written, cut at the recorded positions, into a
//            net.Pipe served by a real BinaryServerProtocol.Process() loop on a real leader SLock.  The
//            hand-inlined decoder's result is read back in-package (the LockCommand object the engine
//            received, found by its RequestId), the hand-inlined encoder's result is the reply read from
//            the pipe.  The same frame is also decoded by protocol.LockCommand.Decode and issued through a
//            harness connection on a twin database; what the engine answered there is the reference for the
//            result fields.
//   srvtext  a text LOCK / UNLOCK is written, cut at the recorded positions, into a pipe served by a real
//            TextServerProtocol.Process() loop (database 0); the equivalent binary frame goes through a
//            BinaryServerProtocol (twin database).  Both replies and both key snapshots are recorded.
//
// Nothing is judged here: spec/mon/MonWire.tla does that (StepSrvBin, StepSrvText).

import (
	"encoding/json"
	"fmt"
	"io"
	"net"
	"os"
	"strconv"
	"testing"
	"time"

	"github.com/snower/slock/protocol"
)

type vwsVals map[string][]int

type vwsStep struct {
	B    []int   `json:"b"`    // 64-byte frame (srvbin) / binary twin (srvtext)
	Data []int   `json:"data"` // value frame following it
	Cuts []int   `json:"cuts"` // interior cut positions of what is written to the pipe
	Args [][]int `json:"args"` // text arguments (srvtext)
	Md5s [][]int `json:"md5s"`
	// the generator expects that parser finding A9 may leave this request unanswered: do not wait long
	MayHang bool `json:"mayhang"`
}

type vwsScenario struct {
	K     string    `json:"k"`
	Id    int       `json:"id"`
	Db    int       `json:"db"`
	Steps []vwsStep `json:"steps"`
}

func vwsInts(b []byte) []int {
	r := make([]int, len(b))
	for i, x := range b {
		r[i] = int(x)
	}
	return r
}

func vwsBytes(a []int) []byte {
	r := make([]byte, len(a))
	for i, x := range a {
		r[i] = byte(x)
	}
	return r
}

func vwsNum(v uint64, w int) []int {
	r := make([]int, w)
	for i := 0; i < w; i++ {
		r[w-1-i] = int(byte(v >> (8 * uint(i))))
	}
	return r
}

func vwsCmdVals(c *protocol.LockCommand) vwsVals {
	return vwsVals{
		"Magic": vwsNum(uint64(c.Magic), 1), "Version": vwsNum(uint64(c.Version), 1), "CommandType": vwsNum(uint64(c.CommandType), 1),
		"RequestId": vwsInts(c.RequestId[:]), "Flag": vwsNum(uint64(c.Flag), 1), "DbId": vwsNum(uint64(c.DbId), 1),
		"LockId": vwsInts(c.LockId[:]), "LockKey": vwsInts(c.LockKey[:]),
		"Timeout": vwsNum(uint64(c.Timeout), 2), "TimeoutFlag": vwsNum(uint64(c.TimeoutFlag), 2),
		"Expried": vwsNum(uint64(c.Expried), 2), "ExpriedFlag": vwsNum(uint64(c.ExpriedFlag), 2),
		"Count": vwsNum(uint64(c.Count), 2), "Rcount": vwsNum(uint64(c.Rcount), 1),
	}
}

// every LockCommand object reachable from the engine's key managers of one database
func vwsEngineCommands(db *LockDB, visit func(l *Lock)) {
	seen := map[*LockManager]bool{}
	add := func(m *LockManager) {
		if m == nil || seen[m] || m.refCount == 0xffffffff {
			return
		}
		seen[m] = true
		if m.currentLock != nil {
			visit(m.currentLock)
		}
		if m.locks != nil {
			for _, node := range m.locks.IterNodes() {
				for _, l := range node {
					if l != nil {
						visit(l)
					}
				}
			}
		}
		if m.waitLocks != nil {
			for _, node := range m.waitLocks.IterNodes() {
				for _, l := range node {
					if l != nil {
						visit(l)
					}
				}
			}
		}
	}
	for i := range db.fastLocks {
		add(db.fastLocks[i].manager)
	}
	db.mGlock.RLock()
	for _, m := range db.locks {
		add(m)
	}
	db.mGlock.RUnlock()
}

func vwsFindCommand(db *LockDB, free []*protocol.LockCommand, nfree int, rid [16]byte) *protocol.LockCommand {
	var found *protocol.LockCommand
	if db != nil {
		vwsEngineCommands(db, func(l *Lock) {
			if found == nil && l.command != nil && l.command.RequestId == rid {
				found = l.command
			}
		})
	}
	if found != nil {
		return found
	}
	for i := nfree - 1; i >= 0; i-- {
		if free[i] != nil && free[i].RequestId == rid {
			return free[i]
		}
	}
	return nil
}

// snapshot of one key, addressed by its 16 bytes, as far as a client-visible effect goes
func vwsKeySnap(db *LockDB, key [16]byte) map[string]interface{} {
	holders := []vwsVals{}
	waiters := []vwsVals{}
	locked := 0
	if db != nil {
		seen := map[*LockManager]bool{}
		add := func(m *LockManager) {
			if m == nil || seen[m] || m.refCount == 0xffffffff || m.lockKey != key {
				return
			}
			seen[m] = true
			locked = int(m.locked)
			pick := func(l *Lock, isWaiter bool) {
				if l == nil || l.command == nil {
					return
				}
				v := vwsCmdVals(l.command)
				delete(v, "RequestId")
				delete(v, "DbId")
				v["depth"] = []int{int(l.locked)}
				if isWaiter {
					if !l.timeouted {
						waiters = append(waiters, v)
					}
				} else if l.locked > 0 {
					holders = append(holders, v)
				}
			}
			pick(m.currentLock, false)
			if m.locks != nil {
				for _, node := range m.locks.IterNodes() {
					for _, l := range node {
						if l != m.currentLock {
							pick(l, false)
						}
					}
				}
			}
			if m.waitLocks != nil {
				for _, node := range m.waitLocks.IterNodes() {
					for _, l := range node {
						pick(l, true)
					}
				}
			}
		}
		for i := range db.fastLocks {
			add(db.fastLocks[i].manager)
		}
		db.mGlock.RLock()
		for _, m := range db.locks {
			add(m)
		}
		db.mGlock.RUnlock()
	}
	return map[string]interface{}{"locked": locked, "holders": holders, "waiters": waiters}
}

// ---------------------------------------------------------------- pipes

type vwsBinPeer struct {
	c    net.Conn
	sp   *BinaryServerProtocol
	done chan error
}

func vwsNewBinPeer(w *vWorld) *vwsBinPeer {
	cli, srv := net.Pipe()
	stream := NewStream(srv)
	sp := NewBinaryServerProtocol(w.slock, stream)
	p := &vwsBinPeer{c: cli, sp: sp, done: make(chan error, 1)}
	go func() {
		defer func() {
			if r := recover(); r != nil {
				p.done <- fmt.Errorf("panic: %v", r)
			}
		}()
		p.done <- sp.Process()
	}()
	return p
}

func (p *vwsBinPeer) close() {
	_ = p.c.Close()
	select {
	case <-p.done:
	case <-time.After(2 * time.Second):
	}
	_ = p.sp.Close()
}

func vwsWriteCut(c net.Conn, b []byte, cuts []int) error {
	from := 0
	_ = c.SetWriteDeadline(time.Now().Add(60 * time.Second))
	for _, e := range append(append([]int{}, cuts...), len(b)) {
		if e <= from || e > len(b) {
			continue
		}
		if _, err := c.Write(b[from:e]); err != nil {
			return err
		}
		from = e
	}
	return nil
}

func vwsReadFull(c net.Conn, n int) ([]byte, error) {
	buf := make([]byte, n)
	_ = c.SetReadDeadline(time.Now().Add(60 * time.Second))
	_, err := io.ReadFull(c, buf)
	return buf, err
}

// one reply frame (+ value frame when its FLAG says so)
func vwsReadReply(c net.Conn) ([]byte, []byte, error) {
	rb, err := vwsReadFull(c, 64)
	if err != nil {
		return nil, nil, err
	}
	if rb[2] != protocol.COMMAND_LOCK && rb[2] != protocol.COMMAND_UNLOCK {
		return rb, nil, nil
	}
	if rb[20]&protocol.LOCK_FLAG_CONTAINS_DATA == 0 {
		return rb, []byte{}, nil
	}
	lb, err := vwsReadFull(c, 4)
	if err != nil {
		return rb, nil, err
	}
	n := int(lb[0]) | int(lb[1])<<8 | int(lb[2])<<16 | int(lb[3])<<24
	if n < 0 || n > 1<<20 {
		return rb, nil, fmt.Errorf("reply value frame length %d", n)
	}
	body, err := vwsReadFull(c, n)
	if err != nil {
		return rb, nil, err
	}
	return rb, append(lb, body...), nil
}

// ping round trip: when it returns, the Process loop has finished everything before it
func (p *vwsBinPeer) sync() error {
	ping := protocol.NewPingCommand()
	buf := make([]byte, 64)
	_ = ping.Encode(buf)
	if err := vwsWriteCut(p.c, buf, nil); err != nil {
		return err
	}
	rb, err := vwsReadFull(p.c, 64)
	if err != nil {
		return err
	}
	if rb[2] != protocol.COMMAND_PING {
		return fmt.Errorf("expected ping reply, got command type %d", rb[2])
	}
	return nil
}

func vwsSafe(f func() error) (msg string, err error) {
	defer func() {
		if r := recover(); r != nil {
			msg = fmt.Sprintf("%v", r)
		}
	}()
	err = f()
	return "", err
}

// harness connection of the twin path: keeps everything the engine hands to the reply callback
type vwsConn struct {
	*DefaultServerProtocol
	proxy *ProxyServerProtocol
	got   map[string]interface{}
}

func vwsNewConn(w *vWorld) *vwsConn {
	c := &vwsConn{DefaultServerProtocol: NewDefaultServerProtocolNoGlobal(w.slock)}
	c.proxy = &ProxyServerProtocol{[16]byte{}, c}
	return c
}

func (c *vwsConn) GetProxy() *ProxyServerProtocol { return c.proxy }

func (c *vwsConn) ProcessLockResultCommand(command *protocol.LockCommand, result uint8, lcount uint16, lrcount uint8, data []byte) error {
	if c.got == nil {
		d := []int{}
		if data != nil {
			d = vwsInts(data)
		}
		c.got = map[string]interface{}{"rcmd": vwsCmdVals(command), "result": int(result), "lcount": int(lcount), "lrcount": int(lrcount),
			"hasdata": data != nil, "data": d}
	}
	return nil
}

func (c *vwsConn) ProcessLockResultCommandLocked(command *protocol.LockCommand, result uint8, lcount uint16, lrcount uint8, data []byte) error {
	return c.ProcessLockResultCommand(command, result, lcount, lrcount, data)
}

func (c *vwsConn) GetLockCommand() *protocol.LockCommand { return c.GetLockCommandLocked() }
func (c *vwsConn) GetLockCommandLocked() *protocol.LockCommand {
	return &protocol.LockCommand{Command: protocol.Command{Magic: protocol.MAGIC, Version: protocol.VERSION}}
}
func (c *vwsConn) FreeLockCommand(command *protocol.LockCommand) error       { return nil }
func (c *vwsConn) FreeLockCommandLocked(command *protocol.LockCommand) error { return nil }

// the same request through protocol.LockCommand.Decode and a harness connection on database db.
// Returns the decoded fields before the engine saw the command, the fields of the same object after the
// engine is done with it (the engine rewrites a command when it reports another lock's data), and the reply.
func vwsTwin(w *vWorld, frame []byte, data []byte, db uint8) (vwsVals, vwsVals, map[string]interface{}, error) {
	cmd := &protocol.LockCommand{}
	if err := cmd.Decode(frame); err != nil {
		return nil, nil, nil, err
	}
	pre := vwsCmdVals(cmd)
	cmd.DbId = db
	if cmd.Flag&protocol.LOCK_FLAG_CONTAINS_DATA != 0 {
		cmd.Data = protocol.NewLockCommandDataFromOriginBytes(append([]byte{}, data...))
	}
	c := vwsNewConn(w)
	d := w.db(db)
	if cmd.CommandType == protocol.COMMAND_LOCK {
		_ = d.Lock(c, cmd, 0)
	} else {
		_ = d.UnLock(c, cmd, 0)
	}
	if c.got == nil {
		return pre, nil, nil, fmt.Errorf("the twin request got no immediate reply")
	}
	return pre, vwsCmdVals(cmd), c.got, nil
}

func vwsRunBin(w *vWorld, sc *vwsScenario, emit func(map[string]interface{})) {
	peer := vwsNewBinPeer(w)
	defer peer.close()
	dbPipe, dbTwin := uint8(sc.Db), uint8(sc.Db+1)
	w.db(dbPipe)
	w.db(dbTwin)
	for si, st := range sc.Steps {
		ev := map[string]interface{}{"k": "srvbin", "id": sc.Id, "step": si, "b": st.B, "data": st.Data, "cuts": st.Cuts,
			"cmd": vwsVals{}, "tpre": vwsVals{}, "tcmd": vwsVals{}, "rb": []int{}, "rdata": []int{}, "ref": map[string]interface{}{}, "err": "", "panic": ""}
		if st.Data == nil {
			ev["data"] = []int{}
		}
		frame := vwsBytes(st.B)
		frame[20] = dbPipe
		ev["b"] = vwsInts(frame)
		wire := append(append([]byte{}, frame...), vwsBytes(st.Data)...)
		msg, err := vwsSafe(func() error {
			if err := vwsWriteCut(peer.c, wire, st.Cuts); err != nil {
				return err
			}
			rb, rdata, err := vwsReadReply(peer.c)
			if err != nil {
				return fmt.Errorf("reading the reply: %v", err)
			}
			ev["rb"], ev["rdata"] = vwsInts(rb), vwsInts(rdata)
			if err := peer.sync(); err != nil {
				return fmt.Errorf("sync: %v", err)
			}
			var rid [16]byte
			copy(rid[:], frame[3:19])
			peer.sp.glock.Lock()
			free, nfree := peer.sp.freeCommands, peer.sp.freeCommandIndex
			peer.sp.glock.Unlock()
			if c := vwsFindCommand(w.slock.dbs[dbPipe], free, nfree, rid); c != nil {
				ev["cmd"] = vwsCmdVals(c)
			}
			pre, post, ref, err := vwsTwin(w, frame, vwsBytes(st.Data), dbTwin)
			if err != nil {
				return fmt.Errorf("twin: %v", err)
			}
			ev["tpre"], ev["tcmd"], ev["ref"] = pre, post, ref
			return nil
		})
		ev["panic"] = msg
		if err != nil {
			ev["err"] = err.Error()
		}
		emit(ev)
		if msg != "" || err != nil {
			return
		}
	}
}

// ---------------------------------------------------------------- text

type vwsTextPeer struct {
	c    net.Conn
	sp   *TextServerProtocol
	done chan error
}

func vwsNewTextPeer(w *vWorld) *vwsTextPeer {
	cli, srv := net.Pipe()
	stream := NewStream(srv)
	sp := NewTextServerProtocol(w.slock, stream)
	p := &vwsTextPeer{c: cli, sp: sp, done: make(chan error, 1)}
	go func() {
		defer func() {
			if r := recover(); r != nil {
				p.done <- fmt.Errorf("panic: %v", r)
			}
		}()
		p.done <- sp.Process()
	}()
	return p
}

func (p *vwsTextPeer) close() {
	_ = p.c.Close()
	select {
	case <-p.done:
	case <-time.After(2 * time.Second):
	}
	_ = p.sp.Close()
}

func vwsRespLine(b []byte, p int) (string, int, bool) {
	for i := p; i+1 < len(b); i++ {
		if b[i] == '\r' && b[i+1] == '\n' {
			return string(b[p:i]), i + 2, true
		}
	}
	return "", p, false
}

// length of the first complete RESP value in b (simple strings, errors, integers, bulk strings, flat arrays)
func vwsRespComplete(b []byte, p int) (int, bool) {
	if p >= len(b) {
		return 0, false
	}
	switch b[p] {
	case '+', '-', ':':
		_, n, ok := vwsRespLine(b, p+1)
		return n, ok
	case '$':
		s, n, ok := vwsRespLine(b, p+1)
		if !ok {
			return 0, false
		}
		l, err := strconv.Atoi(s)
		if err != nil || l < 0 {
			return n, true
		}
		if n+l+2 > len(b) {
			return 0, false
		}
		return n + l + 2, true
	case '*':
		s, n, ok := vwsRespLine(b, p+1)
		if !ok {
			return 0, false
		}
		cnt, err := strconv.Atoi(s)
		if err != nil {
			return n, true
		}
		for i := 0; i < cnt; i++ {
			n2, ok := vwsRespComplete(b, n)
			if !ok {
				return 0, false
			}
			n = n2
		}
		return n, true
	}
	return p + 1, true
}

func vwsReadResp(c net.Conn, wait time.Duration) ([]byte, error) {
	buf := []byte{}
	tmp := make([]byte, 4096)
	deadline := time.Now().Add(wait)
	for {
		if n, ok := vwsRespComplete(buf, 0); ok {
			// the lock result may be followed by a DATA pair written separately: a *14 header announces it,
			// vwsRespComplete already waited for all 14 elements
			return buf[:n], nil
		}
		_ = c.SetReadDeadline(deadline)
		n, err := c.Read(tmp)
		if n > 0 {
			buf = append(buf, tmp[:n]...)
		}
		if err != nil {
			return buf, err
		}
	}
}

func vwsBuildReq(args [][]int) []byte {
	out := []byte(fmt.Sprintf("*%d\r\n", len(args)))
	for _, a := range args {
		out = append(out, []byte(fmt.Sprintf("$%d\r\n", len(a)))...)
		out = append(out, vwsBytes(a)...)
		out = append(out, '\r', '\n')
	}
	return out
}

func vwsRunText(w *vWorld, sc *vwsScenario, emit func(map[string]interface{})) {
	tp := vwsNewTextPeer(w)
	defer tp.close()
	bp := vwsNewBinPeer(w)
	defer bp.close()
	w.db(0)
	w.db(1)
	for si, st := range sc.Steps {
		ev := map[string]interface{}{"k": "srvtext", "id": sc.Id, "step": si, "args": st.Args, "md5s": st.Md5s, "cuts": st.Cuts, "bin": st.B,
			"trb": []int{}, "brb": []int{}, "tsnap": map[string]interface{}{}, "bsnap": map[string]interface{}{}, "err": "", "panic": ""}
		frame := vwsBytes(st.B)
		frame[20] = 1
		ev["bin"] = vwsInts(frame)
		var key [16]byte
		copy(key[:], frame[37:53])
		msg, err := vwsSafe(func() error {
			if err := vwsWriteCut(tp.c, vwsBuildReq(st.Args), st.Cuts); err != nil {
				return err
			}
			// a request whose chunking triggers parser finding A9 may never be answered: do not wait long for those;
			// everything else gets a generous deadline so that a loaded machine is not mistaken for a hanging server
			wait := 60 * time.Second
			if st.MayHang {
				wait = 3 * time.Second
			}
			trb, err := vwsReadResp(tp.c, wait)
			ev["trb"] = vwsInts(trb)
			if err != nil {
				return fmt.Errorf("reading the text reply: %v", err)
			}
			if err := vwsWriteCut(bp.c, frame, nil); err != nil {
				return err
			}
			brb, _, err := vwsReadReply(bp.c)
			if err != nil {
				return fmt.Errorf("reading the binary reply: %v", err)
			}
			ev["brb"] = vwsInts(brb)
			if err := bp.sync(); err != nil {
				return err
			}
			// the text handler replies from inside the handler; a SELECT round trip orders us after it
			if err := vwsWriteCut(tp.c, []byte("*2\r\n$6\r\nSELECT\r\n$1\r\n0\r\n"), nil); err != nil {
				return err
			}
			if _, err := vwsReadResp(tp.c, 60*time.Second); err != nil {
				return err
			}
			ev["tsnap"] = vwsKeySnap(w.slock.dbs[0], key)
			ev["bsnap"] = vwsKeySnap(w.slock.dbs[1], key)
			return nil
		})
		ev["panic"] = msg
		if err != nil {
			ev["err"] = err.Error()
		}
		emit(ev)
		if msg != "" || err != nil {
			return
		}
	}
}

// ---------------------------------------------------------------- driver

func TestVerifWireSrv(t *testing.T) {
	in, out := os.Getenv("VERIF_IN"), os.Getenv("VERIF_OUT")
	if in == "" || out == "" {
		t.Skip("VERIF_IN / VERIF_OUT not set")
	}
	scs := []vwsScenario{}
	{
		f, err := os.Open(in)
		if err != nil {
			t.Fatal(err)
		}
		dec := json.NewDecoder(f)
		for dec.More() {
			var sc vwsScenario
			if err := dec.Decode(&sc); err != nil {
				t.Fatal(err)
			}
			scs = append(scs, sc)
		}
		f.Close()
	}
	tr := vOpenTrace(out)
	defer tr.Close()
	w := vNewWorld(t, vWorldCfg{}, tr, 1000)
	defer w.Close(true)
	for i := range scs {
		sc := &scs[i]
		switch sc.K {
		case "srvbin":
			vwsRunBin(w, sc, tr.Emit)
		case "srvtext":
			vwsRunText(w, sc, tr.Emit)
		default:
			t.Fatalf("unknown scenario kind %q", sc.K)
		}
	}
}

//go:build verif

package server

// Engine "Mb": in-process membership bench (growth check `bin/extra member`, spec/Membership.tla).
//
// N real ArbiterManager objects (each with its own SLock, its own scratch meta.pb) live in one test
// process.  Every member host is a REAL loopback listener owned by the driver, so the whole client side
// is the unchanged code: ArbiterMember.Open / Run, ArbiterClient.Open -> net.DialTimeout -> handleInit
// (REPL_CONNECT, incl. the ERR_NOT_MEMBER reaction), ArbiterClient.Run (reader, clientOnline /
// clientOffline -> memberStatusUpdated), ArbiterClient.Request.  The driver is the server side of every
// connection: it reads the request frames, and DELIVERS a frame by calling the real handler of the
// target manager (ArbiterManager.GetCallMethods()[name]) on a goroutine of its own - as the real server
// has one goroutine per connection - with a real BinaryServerProtocol / Stream bound to that connection,
// and writes the handler's CallResultCommand back through BinaryServerProtocol.Write.  A message is LOST
// the only way TCP can lose it: the connection is closed (the real offline event follows).
//
// Scheduling: REPL_ANNOUNCEMENT frames, link cuts / re-admissions, the admin commands (through the real
// Admin.commandHandleReplsetCommand on a text connection), status polls, crash (+ restart = fresh SLock,
// fresh manager, real ArbiterManager.Load() + Start() on what the real ArbiterStore.Save left) are steps
// of the schedule (TLC behaviour of MembershipSim, directed history, or the seeded adaptive scheduler).
// Everything else (REPL_CONNECT of an admitted link, REPL_STATUS, and the election frames REPL_VOTE /
// PROPOSAL / COMMIT of the real StartVote loops) is delivered by the driver's pump in order of arrival:
// the election itself is property C12's subject (spec Election), here it runs unmodified and its outcome
// (voteSucced: roles, version, announcement) is what the membership model sees.
//
// A step is finished only at quiescence (goroutine census: every goroutine of package server is parked
// at a known wait point, the requests parked in ArbiterClient.Request / handleInit are exactly the frames
// the driver holds, the readers parked in ArbiterClient.Run are exactly the live links).  After every
// step an in-package snapshot of every node (member list, version, vertime, roles, statuses, pending
// commit, slock state, replication leader address, decoded meta.pb) is recorded.  The trace is judged by
// spec/mon/MonMembership.tla.
//
// One shared data dir holds the (empty) append files of all nodes (the package has ONE global Config);
// meta.pb is per node (ArbiterStore.filename is set directly, as engine E does).

import (
	"bytes"
	"encoding/json"
	"fmt"
	"io"
	"math/rand"
	"net"
	"os"
	"path/filepath"
	"runtime"
	"sort"
	"strings"
	"sync"
	"testing"
	"time"

	logging "github.com/hhkbp2/go-logging"
	"github.com/snower/slock/protocol"
	"github.com/snower/slock/protocol/protobuf"
	"google.golang.org/protobuf/proto"
)

// ---------------------------------------------------------------- scenario format

type vmbStep struct {
	Op string `json:"op"` // cmd ann brk up vote poll crash restart heal
	N  int    `json:"n,omitempty"`
	I  int    `json:"i,omitempty"`
	J  int    `json:"j,omitempty"`
	K  string `json:"k,omitempty"` // cmd kind: config add remove set quit
	X  int    `json:"x,omitempty"`
	W  int    `json:"w,omitempty"`
	A  int    `json:"a,omitempty"`
}

type vmbRand struct {
	Seed     int64   `json:"seed"`
	MaxSteps int     `json:"maxsteps"`
	Cmds     int     `json:"cmds"`
	Flaps    int     `json:"flaps"`
	Crashes  int     `json:"crashes"`
	PBreak   float64 `json:"pbreak"`
	PHold    float64 `json:"phold"`
}

type vmbScenario struct {
	Name  string    `json:"name"`
	N     int       `json:"n"`
	Steps []vmbStep `json:"steps"`
	Rand  *vmbRand  `json:"rand,omitempty"`
	Heal  int       `json:"heal"` // rounds of the final heal (0 = none)
}

// ---------------------------------------------------------------- bench objects

type vmbFrame struct {
	cmd  *protocol.CallCommand
	kind string // connect ann status elect other
	seq  int
}

type vmbLink struct {
	id          int
	from, to    int
	gen         int // incarnation of the target node at accept time
	conn        net.Conn
	stream      *Stream
	sp          *BinaryServerProtocol
	pending     *vmbFrame
	inHandler   *vmbFrame
	established bool
	closed      bool
	closeOnce   sync.Once
}

type vmbCapConn struct {
	mu  sync.Mutex
	buf bytes.Buffer
}

func (c *vmbCapConn) Read(b []byte) (int, error) { select {} }
func (c *vmbCapConn) Write(b []byte) (int, error) {
	c.mu.Lock()
	c.buf.Write(b)
	c.mu.Unlock()
	return len(b), nil
}
func (c *vmbCapConn) Close() error                       { return nil }
func (c *vmbCapConn) LocalAddr() net.Addr                { return &net.TCPAddr{} }
func (c *vmbCapConn) RemoteAddr() net.Addr               { return &net.TCPAddr{} }
func (c *vmbCapConn) SetDeadline(t time.Time) error      { return nil }
func (c *vmbCapConn) SetReadDeadline(t time.Time) error  { return nil }
func (c *vmbCapConn) SetWriteDeadline(t time.Time) error { return nil }
func (c *vmbCapConn) take() string {
	c.mu.Lock()
	s := c.buf.String()
	c.buf.Reset()
	c.mu.Unlock()
	return s
}

type vmbCmd struct {
	step vmbStep
	done bool
	rsp  string
}

type vmbNode struct {
	idx    int
	host   string
	dir    string
	ln     net.Listener
	alive  bool
	gen    int
	slock  *SLock
	mgr    *ArbiterManager
	cap    *vmbCapConn
	text   *TextServerProtocol
	cmd    *vmbCmd
	zombie []*ArbiterManager
	hung   bool
}

type vmbBench struct {
	mu      sync.Mutex
	tr      *vTrace
	sc      *vmbScenario
	n       int
	nodes   []*vmbNode // 1..n
	allow   [][]bool
	links   []*vmbLink
	foreign []net.Conn
	dir     string
	seq     int
	t0      int64
	closing bool
	stats   map[string]int
	stuck   int // requests of the real code parked for ever on a dead link (recorded as `stuck` events)
}

func (b *vmbBench) hostIdx(h string) int {
	if h == "" {
		return 0
	}
	for i := 1; i <= b.n; i++ {
		if b.nodes[i].host == h {
			return i
		}
	}
	return -1
}

func vmbReadFrame(conn net.Conn) (*protocol.CallCommand, error) {
	hdr := make([]byte, 64)
	if _, err := io.ReadFull(conn, hdr); err != nil {
		return nil, err
	}
	if hdr[0] != protocol.MAGIC || hdr[2] != protocol.COMMAND_CALL {
		return nil, fmt.Errorf("not a call frame (type %d)", hdr[2])
	}
	cmd := &protocol.CallCommand{}
	_ = cmd.Decode(hdr)
	if cmd.ContentLen > 0 {
		cmd.Data = make([]byte, cmd.ContentLen)
		if _, err := io.ReadFull(conn, cmd.Data); err != nil {
			return nil, err
		}
	}
	return cmd, nil
}

func vmbKind(method string) string {
	switch method {
	case "REPL_CONNECT":
		return "connect"
	case "REPL_ANNOUNCEMENT":
		return "ann"
	case "REPL_STATUS":
		return "status"
	case "REPL_VOTE", "REPL_PROPOSAL", "REPL_COMMIT":
		return "elect"
	}
	return "other"
}

func (b *vmbBench) acceptLoop(nd *vmbNode) {
	for {
		conn, err := nd.ln.Accept()
		if err != nil {
			return
		}
		go b.serve(nd, conn)
	}
}

// serve is the harness side of one accepted connection: it only reads frames and registers them.
func (b *vmbBench) serve(nd *vmbNode, conn net.Conn) {
	cmd, err := vmbReadFrame(conn)
	if err != nil || cmd.MethodName != "REPL_CONNECT" {
		// a replication / transparency client of a follower: held open, never answered
		b.mu.Lock()
		dead := b.closing || !nd.alive
		if !dead {
			b.foreign = append(b.foreign, conn)
		}
		b.mu.Unlock()
		if dead || err != nil {
			_ = conn.Close()
			return
		}
		_, _ = io.Copy(io.Discard, conn)
		_ = conn.Close()
		return
	}
	rq := protobuf.ArbiterConnectRequest{}
	_ = proto.Unmarshal(cmd.Data, &rq)
	b.mu.Lock()
	from := b.hostIdx(rq.FromHost)
	if b.closing || !nd.alive || from < 1 || !b.allow[from][nd.idx] {
		b.mu.Unlock()
		_ = conn.Close()
		return
	}
	b.seq++
	l := &vmbLink{id: len(b.links), from: from, to: nd.idx, gen: nd.gen, conn: conn}
	l.pending = &vmbFrame{cmd: cmd, kind: "connect", seq: b.seq}
	b.links = append(b.links, l)
	b.mu.Unlock()
	for {
		cmd, err = vmbReadFrame(conn)
		if err != nil {
			b.linkClosed(l)
			return
		}
		b.mu.Lock()
		b.seq++
		if l.pending != nil {
			b.mu.Unlock()
			panic("engine Mb: second request on a link before the first was taken")
		}
		l.pending = &vmbFrame{cmd: cmd, kind: vmbKind(cmd.MethodName), seq: b.seq}
		b.mu.Unlock()
	}
}

// linkClosed: what Server.handle does when the connection ends (protocol closed, closedWaiter closed).
func (b *vmbBench) linkClosed(l *vmbLink) {
	l.closeOnce.Do(func() {
		b.mu.Lock()
		l.closed = true
		l.pending = nil
		sp, st := l.sp, l.stream
		b.mu.Unlock()
		_ = l.conn.Close()
		if sp != nil {
			_ = sp.Close()
		}
		if st != nil {
			st.closed = true
			close(st.closedWaiter)
		}
	})
}

func (b *vmbBench) cut(l *vmbLink) {
	_ = l.conn.Close() // the reader goroutine notices and runs linkClosed
	b.mu.Lock()
	l.closed = true
	l.pending = nil
	b.mu.Unlock()
}

func vmbNewSLock(dir string) *SLock {
	sc := vNewConfig(vWorldCfg{DataDir: dir})
	sc.AofRingBufferSize = 64
	sc.AofRingBufferMaxSize = 64
	sc.DBConcurrent = 1
	l := logging.GetLogger("vmember")
	_ = l.SetLevel(logging.LevelCritical) // the arbiter code logs every refused request at ERROR level
	return NewSLock(sc, l)
}

func (b *vmbBench) boot(nd *vmbNode) {
	nd.slock = vmbNewSLock(b.dir)
	nd.slock.updateState(STATE_CONFIG)
	mgr := NewArbiterManager(nd.slock, "vmb")
	mgr.store.filename = filepath.Join(nd.dir, "meta.pb")
	nd.slock.arbiterManager = mgr
	nd.mgr = mgr
	nd.cap = &vmbCapConn{}
	nd.text = NewTextServerProtocol(nd.slock, NewStream(nd.cap))
	nd.alive = true
	nd.hung = false
	nd.gen++
}

func vmbNewBench(sc *vmbScenario, tr *vTrace) *vmbBench {
	dir, err := os.MkdirTemp("", "vmember")
	if err != nil {
		panic(err)
	}
	n := sc.N
	b := &vmbBench{tr: tr, sc: sc, n: n, nodes: make([]*vmbNode, n+1), dir: dir, stats: map[string]int{}}
	b.allow = make([][]bool, n+1)
	for i := 0; i <= n; i++ {
		b.allow[i] = make([]bool, n+1)
		for j := range b.allow[i] {
			b.allow[i][j] = true
		}
	}
	for i := 1; i <= n; i++ {
		ln, err := net.Listen("tcp", "127.0.0.1:0")
		if err != nil {
			panic(err)
		}
		nd := &vmbNode{idx: i, host: ln.Addr().String(), dir: filepath.Join(dir, fmt.Sprintf("m%d", i)), ln: ln}
		if err := os.MkdirAll(nd.dir, 0755); err != nil {
			panic(err)
		}
		b.nodes[i] = nd
	}
	for i := 1; i <= n; i++ {
		b.boot(b.nodes[i])
		go b.acceptLoop(b.nodes[i])
	}
	b.t0 = time.Now().UnixNano() / 1e6
	return b
}

// kill: the node's process is gone (only at quiescence: never inside a Save).
func (b *vmbBench) kill(nd *vmbNode) {
	b.mu.Lock()
	nd.alive = false
	var mine []*vmbLink
	for _, l := range b.links {
		if !l.closed && (l.from == nd.idx || l.to == nd.idx) {
			mine = append(mine, l)
		}
	}
	b.mu.Unlock()
	mgr := nd.mgr
	mgr.stoped = true
	v := mgr.voter
	if b.voterLock(nd) {
		v.closed = true
		if v.wakeupSignal != nil {
			close(v.wakeupSignal)
			v.wakeupSignal = nil
		}
		v.glock.Unlock()
	} else {
		v.closed = true
	}
	for _, m := range mgr.members {
		m.glock.Lock()
		m.closed = true
		m.glock.Unlock()
		if c := m.client; c != nil {
			c.closed = true
			if p := c.protocol; p != nil {
				_ = p.Close()
			}
			_ = c.WakeupRetryConnect()
		}
		m.Wakeup()
	}
	for _, l := range mine {
		b.cut(l)
	}
	if cc := nd.slock.replicationManager.clientChannel; cc != nil {
		go func() { _ = cc.Close() }()
	}
	nd.zombie = append(nd.zombie, mgr)
}

func (b *vmbBench) Close() {
	b.mu.Lock()
	b.closing = true
	b.mu.Unlock()
	for i := 1; i <= b.n; i++ {
		nd := b.nodes[i]
		if nd.alive {
			b.kill(nd)
		}
		_ = nd.ln.Close()
	}
	b.mu.Lock()
	for _, c := range b.foreign {
		_ = c.Close()
	}
	for _, l := range b.links {
		_ = l.conn.Close()
	}
	b.mu.Unlock()
	// let the zombies drain (bounded)
	for k := 0; k < 200; k++ {
		if c := vmbCensus(); c.server == 0 {
			break
		}
		time.Sleep(time.Millisecond)
	}
	os.RemoveAll(b.dir)
}

// ---------------------------------------------------------------- quiescence

type vmbCens struct {
	busy   int // goroutines of package server that are running / runnable / sleeping / dialling
	req    int // parked in ArbiterClient.Request waiting for the reply
	init   int // parked in ArbiterClient.handleInit waiting for the REPL_CONNECT reply
	run    int // parked in ArbiterClient.Run reading the connection
	server int // goroutines with a frame of the real arbiter code
	openlock int // parked at the client mutex in ArbiterClient.Open
	why    string
}

var vmbStackBuf = make([]byte, 4<<20)

func vmbCensus() vmbCens {
	var c vmbCens
	n := runtime.Stack(vmbStackBuf, true)
	gs := strings.Split(string(vmbStackBuf[:n]), "\n\n")
	for gi, g := range gs {
		if gi == 0 {
			continue // the caller
		}
		if !strings.Contains(g, "slock/server.") {
			continue
		}
		nl := strings.IndexByte(g, '\n')
		if nl < 0 {
			continue
		}
		hd := g[:nl]
		real := strings.Contains(g, "server.(*Arbiter") || strings.Contains(g, "server.(*Replication") || strings.Contains(g, "server.(*SLock)") || strings.Contains(g, "server.(*Admin)")
		if real {
			c.server++
		}
		if strings.Contains(hd, "[running") || strings.Contains(hd, "[runnable") || strings.Contains(hd, "[sleep") || strings.Contains(hd, "[syscall") {
			c.busy++
			c.why = hd
			continue
		}
		if strings.Contains(g, "net.DialTimeout") || strings.Contains(g, "DialContext") {
			c.busy++
			c.why = "dial"
			continue
		}
		switch {
		case strings.Contains(g, "(*ArbiterClient).Open(") && strings.Contains(hd, "[sync.Mutex.Lock") && !strings.Contains(g, "handleInit"):
			c.openlock++
		case strings.Contains(g, "(*ArbiterClient).handleInit("):
			c.init++
		case strings.Contains(g, "(*ArbiterClient).Request(") && strings.Contains(hd, "[chan receive"):
			c.req++
		case strings.Contains(g, "(*ArbiterClient).Run(") && strings.Contains(hd, "[IO wait"):
			c.run++
		}
	}
	return c
}

func (b *vmbBench) book() (req, init, run int) {
	b.mu.Lock()
	for _, l := range b.links {
		if l.closed {
			continue
		}
		for _, f := range []*vmbFrame{l.pending, l.inHandler} {
			if f == nil {
				continue
			}
			if f.kind == "connect" {
				init++
			} else {
				req++
			}
		}
		if l.established {
			run++
		}
	}
	b.mu.Unlock()
	return
}

func (b *vmbBench) settle() {
	deadline := time.Now().Add(30 * time.Second)
	ok := 0
	var c vmbCens
	var rq, in, rn int
	var odd time.Time
	for {
		c = vmbCensus()
		rq, in, rn = b.book()
		rq += b.stuck
		if c.busy == 0 && c.req > rq && c.init == in && c.run == rn && c.openlock > 0 {
			// more requests parked than frames held, and a reader parked at the client mutex in Open: if that stays so
			// for three seconds nobody is going to wake them (the driver is the only mover)
			if odd.IsZero() {
				odd = time.Now()
			} else if time.Since(odd) > 3*time.Second {
				b.stuck += c.req - rq
				b.stats["stuck"]++
				b.tr.Emit(map[string]interface{}{"e": "stuck", "requests": c.req - rq, "func": "server.(*ArbiterClient).Request", "at": "arbiter.go:392",
					"what": "a request written to a connection whose reader has already given up waits for ever holding the client mutex; ArbiterClient.Run cannot reopen the link"})
				b.flush()
				continue
			}
		} else {
			odd = time.Time{}
		}
		if c.busy == 0 && c.req == rq && c.init == in && c.run == rn {
			ok++
			if ok >= 2 {
				return
			}
			time.Sleep(60 * time.Microsecond)
			continue
		}
		ok = 0
		time.Sleep(40 * time.Microsecond)
		if time.Now().After(deadline) {
			n := runtime.Stack(vmbStackBuf, true)
			panic(fmt.Sprintf("engine Mb: no quiescence: census %+v book req=%d init=%d run=%d\n%s", c, rq, in, rn, vmbStackBuf[:n]))
		}
	}
}

// ---------------------------------------------------------------- delivery

func (b *vmbBench) deliver(l *vmbLink) string {
	b.mu.Lock()
	f := l.pending
	if f == nil || l.closed {
		b.mu.Unlock()
		return ""
	}
	dst := b.nodes[l.to]
	if !dst.alive || dst.gen != l.gen {
		b.mu.Unlock()
		b.cut(l)
		return "dead"
	}
	l.pending = nil
	l.inHandler = f
	if l.sp == nil {
		l.stream = NewStream(l.conn)
		l.sp = NewBinaryServerProtocol(dst.slock, l.stream)
	}
	sp := l.sp
	b.mu.Unlock()
	h := dst.mgr.GetCallMethods()[f.cmd.MethodName]
	done := make(chan string, 1)
	go func() {
		et := "nohandler"
		if h != nil {
			res, err := h(sp, f.cmd)
			if err != nil {
				et = "error:" + err.Error()
			} else if res == nil {
				et = "noreply"
			} else {
				et = res.ErrType
				_ = sp.Write(res)
			}
		}
		b.mu.Lock()
		l.inHandler = nil
		if f.kind == "connect" && et == "" && !l.closed {
			l.established = true
		}
		b.mu.Unlock()
		if h == nil {
			b.cut(l)
		}
		done <- et
	}()
	b.settle()
	select {
	case et := <-done:
		return et
	default:
		return "blocked"
	}
}

// pump delivers everything that is not a schedule decision, oldest first.
func (b *vmbBench) pump() {
	for k := 0; k < 100000; k++ {
		b.settle()
		b.mu.Lock()
		var best *vmbLink
		for _, l := range b.links {
			if l.closed || l.pending == nil || l.pending.kind == "ann" {
				continue
			}
			if best == nil || l.pending.seq < best.pending.seq {
				best = l
			}
		}
		b.mu.Unlock()
		if best == nil {
			return
		}
		kind := best.pending.kind
		b.stats["auto_"+kind]++
		b.deliver(best)
	}
	panic("engine Mb: pump does not end")
}

func (b *vmbBench) annLink(i, j int) *vmbLink {
	b.mu.Lock()
	defer b.mu.Unlock()
	for _, l := range b.links {
		if !l.closed && l.from == i && l.to == j && l.pending != nil && l.pending.kind == "ann" {
			return l
		}
	}
	return nil
}

func (b *vmbBench) liveLink(i, j int) *vmbLink {
	b.mu.Lock()
	defer b.mu.Unlock()
	for _, l := range b.links {
		if !l.closed && l.from == i && l.to == j {
			return l
		}
	}
	return nil
}

func (b *vmbBench) pendingAnn() [][2]int {
	b.mu.Lock()
	defer b.mu.Unlock()
	out := [][2]int{}
	for _, l := range b.links {
		if !l.closed && l.pending != nil && l.pending.kind == "ann" {
			out = append(out, [2]int{l.from, l.to})
		}
	}
	sort.Slice(out, func(a, c int) bool { return out[a][0] < out[c][0] || (out[a][0] == out[c][0] && out[a][1] < out[c][1]) })
	return out
}

func (b *vmbBench) wakeConnect(i, j int) {
	nd := b.nodes[i]
	if !nd.alive {
		return
	}
	for _, m := range nd.mgr.members {
		if m.host == b.nodes[j].host && m.client != nil {
			_ = m.client.WakeupRetryConnect()
		}
	}
}

// voterLock takes the node's ArbiterVoter.glock; a mutex that stays locked while every goroutine of the process is parked
// (the driver only calls this at quiescence) is never going to be released: the node is recorded as hung.
func (b *vmbBench) voterLock(nd *vmbNode) bool {
	if nd.hung {
		return false
	}
	v := nd.mgr.voter
	for k := 0; k < 400; k++ {
		if v.glock.TryLock() {
			return true
		}
		time.Sleep(time.Millisecond)
	}
	nd.hung = true
	at, fn := "", ""
	n := runtime.Stack(vmbStackBuf, true)
	for _, g := range strings.Split(string(vmbStackBuf[:n]), "\n\n") {
		if !strings.Contains(g, "panic(") || !strings.Contains(g, "slock/server.(*Arbiter") {
			continue
		}
		lines := strings.Split(g, "\n")
		for i := 0; i+2 < len(lines); i++ {
			if strings.HasPrefix(lines[i], "runtime.sigpanic") || strings.HasPrefix(lines[i], "runtime.gopanic") || strings.HasPrefix(lines[i], "panic(") {
				for j := i + 1; j+1 < len(lines); j++ {
					if strings.HasPrefix(lines[j], "github.com/snower/slock/server.") && !strings.Contains(lines[j], "vmb") {
						fn = strings.TrimPrefix(strings.Split(lines[j], "(0x")[0], "github.com/snower/slock/")
						f := strings.Fields(strings.TrimSpace(lines[j+1]))
						if len(f) > 0 {
							parts := strings.Split(f[0], "/")
							at = parts[len(parts)-1]
						}
						break
					}
				}
			}
		}
	}
	b.stats["hung"]++
	b.tr.Emit(map[string]interface{}{"e": "hung", "n": nd.idx, "lock": "ArbiterVoter.glock", "func": fn, "at": at})
	b.flush()
	return false
}

func (b *vmbBench) wakeVotes() {
	for i := 1; i <= b.n; i++ {
		nd := b.nodes[i]
		if nd.alive && b.voterLock(nd) {
			nd.mgr.voter.glock.Unlock()
			_ = nd.mgr.voter.WakeupRetryVote()
		}
	}
}

// ---------------------------------------------------------------- observation

func (b *vmbBench) annInfo(l *vmbLink) map[string]interface{} {
	rq := protobuf.ArbiterAnnouncementRequest{}
	if l.pending == nil || proto.Unmarshal(l.pending.cmd.Data, &rq) != nil || rq.Replset == nil {
		return nil
	}
	mem := [][]int{}
	for _, m := range rq.Replset.Members {
		mem = append(mem, []int{b.hostIdx(m.Host), int(m.Weight), int(m.Arbiter), int(m.Role)})
	}
	return map[string]interface{}{"ver": int(rq.Replset.Version), "vt": b.vt(rq.Replset.Vertime), "cid": int(rq.Replset.CommitId), "own": b.hostIdx(rq.Replset.Owner), "mem": mem}
}

func (b *vmbBench) vt(v uint64) int {
	if v == 0 {
		return 0
	}
	d := int64(v) - b.t0 + 1
	if d < 1 {
		d = 1
	}
	return int(d)
}

func (b *vmbBench) disk(nd *vmbNode) interface{} {
	data, err := os.ReadFile(filepath.Join(nd.dir, "meta.pb"))
	if err != nil {
		return map[string]interface{}{"has": false}
	}
	data, err = nd.mgr.store.readHeader(data)
	if err != nil {
		return map[string]interface{}{"has": true, "bad": true}
	}
	rs := protobuf.ReplSet{}
	if err = proto.Unmarshal(data, &rs); err != nil {
		return map[string]interface{}{"has": true, "bad": true}
	}
	mem := [][]int{}
	for _, m := range rs.Members {
		mem = append(mem, []int{b.hostIdx(m.Host), int(m.Weight), int(m.Arbiter), int(m.Role)})
	}
	return map[string]interface{}{"has": true, "bad": false, "ver": int(rs.Version), "vt": b.vt(rs.Vertime), "cid": int(rs.CommitId), "own": b.hostIdx(rs.Owner), "mem": mem}
}

func (b *vmbBench) snapNode(nd *vmbNode) map[string]interface{} {
	s := map[string]interface{}{"up": nd.alive}
	if !nd.alive {
		s["disk"] = b.disk(nd)
		return s
	}
	mgr := nd.mgr
	locked := false
	for k := 0; k < 300 && !locked; k++ {
		if locked = mgr.glock.TryLock(); !locked {
			time.Sleep(time.Millisecond)
		}
	}
	mem := [][]int{}
	for _, m := range mgr.members {
		mem = append(mem, []int{b.hostIdx(m.host), int(m.weight), int(m.arbiter), int(m.role), int(m.status)})
	}
	own, ldr := 0, 0
	if mgr.ownMember != nil {
		own = b.hostIdx(mgr.ownMember.host)
	}
	if mgr.leaderMember != nil {
		ldr = b.hostIdx(mgr.leaderMember.host)
	}
	s["cfg"] = mgr.ownMember != nil && len(mgr.members) > 0
	s["ver"], s["vt"], s["own"], s["ldr"], s["mem"] = int(mgr.version), b.vt(mgr.vertime), own, ldr, mem
	v := mgr.voter
	if b.voterLock(nd) {
		s["ph"], s["cid"], s["pid"], s["voting"] = b.hostIdx(v.proposalHost), int(v.commitId), int(v.proposalId), v.voting
		v.glock.Unlock()
	} else {
		s["ph"], s["cid"], s["pid"], s["voting"] = 0, 0, 0, false
	}
	s["hung"] = nd.hung
	s["abst"] = mgr.ownMember != nil && mgr.ownMember.abstianed
	if locked {
		mgr.glock.Unlock()
	}
	s["glocked"] = !locked
	s["st"] = int(nd.slock.state)
	s["rl"] = b.hostIdx(nd.slock.replicationManager.leaderAddress)
	s["disk"] = b.disk(nd)
	return s
}

func (b *vmbBench) emit(ev map[string]interface{}) {
	nodes := make([]interface{}, 0, b.n)
	for i := 1; i <= b.n; i++ {
		nodes = append(nodes, b.snapNode(b.nodes[i]))
	}
	ev["nodes"] = nodes
	ev["pend"] = b.pendingAnn()
	// finished admin commands
	res := []interface{}{}
	for i := 1; i <= b.n; i++ {
		nd := b.nodes[i]
		if nd.cmd != nil && nd.cmd.done {
			c := nd.cmd
			nd.cmd = nil
			res = append(res, map[string]interface{}{"n": i, "k": c.step.K, "x": c.step.X, "w": c.step.W, "a": c.step.A, "ok": strings.HasPrefix(c.rsp, "+"), "rsp": strings.TrimSpace(c.rsp)})
		}
	}
	ev["res"] = res
	b.tr.Emit(ev)
	b.flush()
}

// flush: a panic of the code under test on one of its own goroutines kills the process; the check then
// still sees every finished step of the history in flight.
func (b *vmbBench) flush() {
	b.tr.mu.Lock()
	b.tr.w.Flush()
	b.tr.mu.Unlock()
}

// ---------------------------------------------------------------- steps

func vmbTickMs() {
	t := time.Now().UnixNano() / 1e6
	for time.Now().UnixNano()/1e6 == t {
		time.Sleep(50 * time.Microsecond)
	}
}

func (b *vmbBench) enabled(st *vmbStep) (bool, string) {
	in := func(k int) bool { return k >= 1 && k <= b.n }
	switch st.Op {
	case "cmd":
		if !in(st.N) || !b.nodes[st.N].alive {
			return false, "node down"
		}
		if b.nodes[st.N].cmd != nil {
			return false, "command in progress"
		}
		if st.K != "quit" && !in(st.X) {
			return false, "no such host"
		}
		return true, ""
	case "ann":
		if !in(st.I) || !in(st.J) || b.annLink(st.I, st.J) == nil {
			return false, "no pending announcement"
		}
		return true, ""
	case "brk":
		if !in(st.I) || !in(st.J) || st.I == st.J {
			return false, "no such link"
		}
		return true, ""
	case "up":
		if !in(st.I) || !in(st.J) || st.I == st.J {
			return false, "no such link"
		}
		return true, ""
	case "poll":
		if !in(st.I) || !in(st.J) || st.I == st.J || !b.nodes[st.I].alive || b.liveLink(st.I, st.J) == nil {
			return false, "no live link"
		}
		return true, ""
	case "vote", "heal":
		return true, ""
	case "crash":
		if !in(st.N) || !b.nodes[st.N].alive || b.nodes[st.N].cmd != nil {
			return false, "not crashable"
		}
		return true, ""
	case "restart":
		if !in(st.N) || b.nodes[st.N].alive {
			return false, "not down"
		}
		return true, ""
	}
	return false, "unknown op"
}

func (b *vmbBench) runCmd(st *vmbStep) {
	nd := b.nodes[st.N]
	args := []string{"REPLSET"}
	h := ""
	if st.X >= 1 && st.X <= b.n {
		h = b.nodes[st.X].host
	}
	switch st.K {
	case "config":
		args = append(args, "CONFIG", h, "WEIGHT", fmt.Sprint(st.W), "ARBITER", fmt.Sprint(st.A))
	case "add":
		args = append(args, "ADD", h, "WEIGHT", fmt.Sprint(st.W), "ARBITER", fmt.Sprint(st.A))
	case "set":
		args = append(args, "SET", h, "WEIGHT", fmt.Sprint(st.W), "ARBITER", fmt.Sprint(st.A))
	case "remove":
		args = append(args, "REMOVE", h)
	case "quit":
		args = append(args, "QUIT-LEADER")
	}
	c := &vmbCmd{step: *st}
	nd.cmd = c
	nd.cap.take()
	vmbTickMs()
	go func(nd *vmbNode, c *vmbCmd) {
		_ = nd.slock.admin.commandHandleReplsetCommand(nd.text, args)
		b.mu.Lock()
		c.rsp = nd.cap.take()
		c.done = true
		b.mu.Unlock()
	}(nd, c)
}

func (b *vmbBench) step(st *vmbStep) {
	ev := map[string]interface{}{"e": "step", "op": st.Op, "n": st.N, "i": st.I, "j": st.J, "k": st.K, "x": st.X, "w": st.W, "a": st.A}
	if ok, why := b.enabled(st); !ok {
		b.tr.Emit(map[string]interface{}{"e": "diverge", "op": st.Op, "n": st.N, "i": st.I, "j": st.J, "k": st.K, "why": why})
		return
	}
	b.stats["op_"+st.Op]++
	switch st.Op {
	case "cmd":
		b.runCmd(st)
		b.pump()
	case "ann":
		l := b.annLink(st.I, st.J)
		if mi := b.annInfo(l); mi != nil {
			ev["msg"] = mi
		}
		// the receiver's view just before the handler runs
		ev["pre"] = b.snapNode(b.nodes[st.J])
		ev["result"] = b.deliver(l)
		b.pump()
	case "brk":
		b.mu.Lock()
		b.allow[st.I][st.J] = false
		var ls []*vmbLink
		for _, l := range b.links {
			if !l.closed && l.from == st.I && l.to == st.J {
				ls = append(ls, l)
			}
		}
		b.mu.Unlock()
		for _, l := range ls {
			b.cut(l)
		}
		ev["cut"] = len(ls)
		b.pump()
	case "up":
		b.mu.Lock()
		b.allow[st.I][st.J] = true
		b.mu.Unlock()
		b.wakeConnect(st.I, st.J)
		b.pump()
	case "poll":
		nd := b.nodes[st.I]
		for _, m := range nd.mgr.members {
			if m.host == b.nodes[st.J].host && m.client != nil {
				go func(m *ArbiterMember) { _ = m.UpdateStatus() }(m)
			}
		}
		b.pump()
	case "vote":
		b.wakeVotes()
		b.pump()
	case "crash":
		b.kill(b.nodes[st.N])
		b.pump()
	case "restart":
		nd := b.nodes[st.N]
		b.boot(nd)
		ev["loaderr"] = ""
		if err := nd.mgr.Load(); err != nil {
			ev["loaderr"] = err.Error()
		}
		ev["loaded"] = b.snapNode(nd)
		go func(m *ArbiterManager) { _ = m.Start() }(nd.mgr)
		b.pump()
	case "heal":
		b.heal(ev)
	}
	b.emit(ev)
}

// heal: every link admitted, every announcement delivered, every retry timer fired, for up to `rounds`
// rounds or until two consecutive rounds change nothing and somebody leads.
func (b *vmbBench) heal(ev map[string]interface{}) {
	rounds := b.sc.Heal
	if rounds <= 0 {
		rounds = 30
	}
	b.mu.Lock()
	for i := 1; i <= b.n; i++ {
		for j := 1; j <= b.n; j++ {
			b.allow[i][j] = true
		}
	}
	b.mu.Unlock()
	calm, last, used := 0, "", 0
	for r := 0; r < rounds && calm < 2; r++ {
		used++
		for i := 1; i <= b.n; i++ {
			for j := 1; j <= b.n; j++ {
				if i != j {
					b.wakeConnect(i, j)
				}
			}
		}
		b.pump()
		for k := 0; k < 200; k++ {
			p := b.pendingAnn()
			if len(p) == 0 {
				break
			}
			b.stats["heal_ann"]++
			b.deliver(b.annLink(p[0][0], p[0][1]))
			b.pump()
		}
		// the 2-second status poll of every member link (ArbiterMember.Run -> UpdateStatus)
		for i := 1; i <= b.n; i++ {
			nd := b.nodes[i]
			if !nd.alive {
				continue
			}
			for _, m := range nd.mgr.members {
				if !m.isSelf && m.client != nil && m.status == ARBITER_MEMBER_STATUS_ONLINE && b.liveLink(i, b.hostIdx(m.host)) != nil {
					b.stats["heal_poll"]++
					go func(m *ArbiterMember) { _ = m.UpdateStatus() }(m)
					b.pump()
				}
			}
		}
		b.wakeVotes()
		b.pump()
		// fingerprint
		fp, leaders, voting := "", 0, false
		for i := 1; i <= b.n; i++ {
			s := b.snapNode(b.nodes[i])
			js, _ := json.Marshal(s)
			fp += string(js)
			if s["up"] == true && s["cfg"] == true {
				if s["own"] == s["ldr"] && s["st"] == int(STATE_LEADER) {
					leaders++
				}
				if s["voting"] == true {
					voting = true
				}
			}
		}
		if fp == last && len(b.pendingAnn()) == 0 && (leaders > 0 || !voting) {
			calm++
		} else {
			calm = 0
		}
		last = fp
		if calm < 2 && r > 3 {
			// real timers of the code (connect retry of a freshly opened member, status poll) get a chance
			time.Sleep(2 * time.Millisecond)
		}
	}
	ev["rounds"] = used
	ev["calm"] = calm >= 2
}

// ---------------------------------------------------------------- adaptive random scheduler

func (b *vmbBench) runRandom(r *vmbRand) {
	rng := rand.New(rand.NewSource(r.Seed))
	cmds, flaps, crashes := r.Cmds, r.Flaps, r.Crashes
	configured := false
	for k := 0; k < r.MaxSteps; k++ {
		var choices []vmbStep
		pend := b.pendingAnn()
		for _, p := range pend {
			if rng.Float64() < r.PBreak && flaps > 0 {
				choices = append(choices, vmbStep{Op: "brk", I: p[0], J: p[1]})
			} else if rng.Float64() >= r.PHold {
				choices = append(choices, vmbStep{Op: "ann", I: p[0], J: p[1]})
			}
		}
		if cmds > 0 {
			n := 1 + rng.Intn(b.n)
			if !configured {
				choices = append(choices, vmbStep{Op: "cmd", N: n, K: "config", X: n, W: 1, A: 0})
			} else if b.nodes[n].alive && b.nodes[n].cmd == nil {
				x := 1 + rng.Intn(b.n)
				w, a := rng.Intn(3), 0
				if rng.Intn(5) == 0 {
					a = 1
				}
				kinds := []string{"add", "add", "add", "set", "remove", "quit"}
				choices = append(choices, vmbStep{Op: "cmd", N: n, K: kinds[rng.Intn(len(kinds))], X: x, W: w, A: a})
			}
		}
		if flaps > 0 {
			i, j := 1+rng.Intn(b.n), 1+rng.Intn(b.n)
			if i != j {
				if b.allow[i][j] {
					choices = append(choices, vmbStep{Op: "brk", I: i, J: j})
				} else {
					choices = append(choices, vmbStep{Op: "up", I: i, J: j})
				}
			}
		}
		if crashes > 0 && configured {
			n := 1 + rng.Intn(b.n)
			if b.nodes[n].alive {
				choices = append(choices, vmbStep{Op: "crash", N: n})
			} else {
				choices = append(choices, vmbStep{Op: "restart", N: n})
			}
		}
		choices = append(choices, vmbStep{Op: "vote"})
		if i, j := 1+rng.Intn(b.n), 1+rng.Intn(b.n); i != j && b.nodes[i].alive && b.liveLink(i, j) != nil && rng.Intn(3) == 0 {
			choices = append(choices, vmbStep{Op: "poll", I: i, J: j})
		}
		st := choices[rng.Intn(len(choices))]
		if ok, _ := b.enabled(&st); !ok {
			continue
		}
		switch st.Op {
		case "cmd":
			cmds--
			if st.K == "config" {
				configured = true
			}
		case "brk", "up":
			flaps--
		case "crash":
			crashes--
		}
		b.step(&st)
	}
	// dead nodes come back and cut links are re-admitted before the heal
	for n := 1; n <= b.n; n++ {
		if !b.nodes[n].alive {
			b.step(&vmbStep{Op: "restart", N: n})
		}
	}
}

func TestVerifMember(t *testing.T) {
	in, out := os.Getenv("VERIF_IN"), os.Getenv("VERIF_OUT")
	if in == "" || out == "" {
		t.Skip("VERIF_IN / VERIF_OUT not set")
	}
	var scs []vmbScenario
	vReadJSONLines(in, func(line []byte) {
		var s vmbScenario
		vMustUnmarshal(line, &s)
		scs = append(scs, s)
	})
	tr := vOpenTrace(out)
	defer tr.Close()
	for i := range scs {
		sc := &scs[i]
		b := vmbNewBench(sc, tr)
		b.emit(map[string]interface{}{"e": "begin", "name": sc.Name, "idx": i, "n": b.n})
		for j := range sc.Steps {
			b.step(&sc.Steps[j])
		}
		if sc.Rand != nil {
			b.runRandom(sc.Rand)
		}
		if sc.Heal > 0 {
			b.step(&vmbStep{Op: "heal"})
		}
		b.tr.Emit(map[string]interface{}{"e": "end", "name": sc.Name, "idx": i, "stats": b.stats})
		b.Close()
	}
}

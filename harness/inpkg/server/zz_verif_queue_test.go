//go:build verif

package server

// Engine Q (property C20): operation programs on the REAL internal queues.
//
// Reads programs (ndjson, one per line) from $VERIF_IN, runs each on every implementation named in
// it and writes the observed trace (ndjson) to $VERIF_OUT.  After EVERY operation the driver
// records the operation's return value and the read-only observations Len / Head / Tail /
// MaxPriority / full iteration order (IterNodes + IterNodeQueues, exactly as admin.go, protocol.go
// and the millisecond sweepers walk the queues).  The trace is validated by TLC against the TLA+
// reference spec/mon/MonQueue.tla (Deque / stable priority queue); the driver itself judges nothing.
//
// Runs of one program on several implementations / constructor parameters whose recorded
// observation sequences are byte-identical are written once, with all their labels in "impls".
//
// program: {"name":..,"kind":"node|longwait|holder|wait|ring|pring","runs":[{"impl":..,"p":[..]},..],
//           "ops":[["push",x,pr],["pop",0,0],..],"every":k,"st":bool}
// kinds and their operations
//   node     LockQueue / LockCommandQueue / LockManagerQueue (p = baseNodeSize,nodeSize,queueSize):
//            push pushleft pop popright reset rellac resize restruct free shrink remove(x)
//   longwait LongWaitLockQueue (impl LongWaitT / LongWaitE select the two copy-pasted restructuring
//            functions of db.go): push pop remove(x) restruct lwfree
//   holder   LockManagerLockQueue: push pop kill(x) getlock(x) resize reset
//   wait     LockManagerWaitQueue (p = 0|1 priority): push(x,pr) pop kill(x) repush reset
//   ring     LockManagerRingQueue (p = size): push pop
//   pring    LockManagerPriorityRingQueue (p = size): push(x,pr) pop

import (
	"bufio"
	"encoding/json"
	"fmt"
	"os"
	"runtime"
	"strings"
	"sync"
	"testing"
	"time"

	"github.com/snower/slock/protocol"
)

type vqRun struct {
	Impl string  `json:"impl"`
	P    []int32 `json:"p"`
}

type vqProgram struct {
	Name  string          `json:"name"`
	Kind  string          `json:"kind"`
	Runs  []vqRun         `json:"runs"`
	Ops   [][]interface{} `json:"ops"`
	Every int             `json:"every"`
	St    bool            `json:"st"`
}

type vqObs struct {
	Len, Head, Tail, Mp int
	Iter                []int
}

// vqQueue is what the interpreter needs from a queue under test.
type vqQueue interface {
	Do(op string, x int, pr int) (ret int, skipped bool)
	Obs(full bool) vqObs
	St() []int32
	Cov(c map[string]int) // implementation-level coverage facts (max-merged), reported in the evidence only
}

func vqMax(c map[string]int, k string, v int) {
	if v > c[k] {
		c[k] = v
	}
}

// ---------------------------------------------------------------- node queues (three copy-pasted types)

type vqNodeAPI[T any] interface {
	Push(*T) error
	PushLeft(*T) error
	Pop() *T
	PopRight() *T
	Head() *T
	Tail() *T
	Len() int32
	IterNodes() [][]*T
	IterNodeQueues(int32) []*T
	Reset() error
	Rellac() error
	Resize() error
	Restructuring() error
	Shrink(int32) int32
	freeQueue()
}

type vqNode[T any] struct {
	q     vqNodeAPI[T]
	elems map[int]*T
	ids   map[*T]int
	st    func() []int32
}

func (a *vqNode[T]) id(p *T) int {
	if p == nil {
		return 0
	}
	if v, ok := a.ids[p]; ok {
		return v
	}
	return -999 // a pointer the driver never pushed
}

func (a *vqNode[T]) Do(op string, x int, pr int) (int, bool) {
	switch op {
	case "push":
		e := new(T)
		a.elems[x], a.ids[e] = e, x
		if err := a.q.Push(e); err != nil {
			return -1, false
		}
		return 0, false
	case "pushleft":
		e := new(T)
		a.elems[x], a.ids[e] = e, x
		if err := a.q.PushLeft(e); err != nil {
			return -1, false
		}
		return 0, false
	case "pop":
		return a.id(a.q.Pop()), false
	case "popright":
		return a.id(a.q.PopRight()), false
	case "reset":
		_ = a.q.Reset()
	case "rellac":
		_ = a.q.Rellac()
	case "resize":
		_ = a.q.Resize()
	case "restruct":
		_ = a.q.Restructuring()
	case "free":
		a.q.freeQueue()
	case "shrink":
		a.q.Shrink(int32(pr))
	case "remove":
		// in-place removal through the iteration slices (what checkMillisecondTimeOut does: nodeQueues[j] = nil)
		e := a.elems[x]
		if e == nil {
			return 0, true
		}
		for i := range a.q.IterNodes() {
			nq := a.q.IterNodeQueues(int32(i))
			for j := range nq {
				if nq[j] == e {
					nq[j] = nil
					return 0, false
				}
			}
		}
		return 0, true
	default:
		panic("vq: unknown node op " + op)
	}
	return 0, false
}

func (a *vqNode[T]) Obs(full bool) vqObs {
	o := vqObs{Len: int(a.q.Len()), Head: a.id(a.q.Head()), Tail: a.id(a.q.Tail())}
	if full {
		o.Iter = []int{}
		for i := range a.q.IterNodes() {
			for _, e := range a.q.IterNodeQueues(int32(i)) {
				o.Iter = append(o.Iter, a.id(e))
			}
		}
	}
	return o
}

func (a *vqNode[T]) St() []int32 { return a.st() }

func (a *vqNode[T]) Cov(c map[string]int) {
	st := a.st()
	vqMax(c, "nodes_spanned", int(st[3]-st[1])+1)
	vqMax(c, "tail_node", int(st[3]))
	vqMax(c, "head_node", int(st[1]))
	vqMax(c, "maxlen", int(a.q.Len()))
}

func vqStFields(base, hn, hi, tn, ti, ni, ns, qs, sh, rt int32, sizes []int32) []int32 {
	out := []int32{base, hn, hi, tn, ti, ni, ns, qs, sh, rt}
	return append(out, sizes...)
}

func vqNewNode(impl string, p []int32) vqQueue {
	switch impl {
	case "LockQueue":
		q := NewLockQueue(p[0], p[1], p[2])
		return &vqNode[Lock]{q: q, elems: map[int]*Lock{}, ids: map[*Lock]int{}, st: func() []int32 {
			return vqStFields(q.baseNodeSize, q.headNodeIndex, q.headQueueIndex, q.tailNodeIndex, q.tailQueueIndex, q.nodeIndex, q.nodeSize, q.queueSize, q.shrinkNodeSize, q.rellacTailNodeIndex, q.nodeQueueSizes)
		}}
	case "LockCommandQueue":
		q := NewLockCommandQueue(p[0], p[1], p[2])
		return &vqNode[protocol.LockCommand]{q: q, elems: map[int]*protocol.LockCommand{}, ids: map[*protocol.LockCommand]int{}, st: func() []int32 {
			return vqStFields(q.baseNodeSize, q.headNodeIndex, q.headQueueIndex, q.tailNodeIndex, q.tailQueueIndex, q.nodeIndex, q.nodeSize, q.queueSize, q.shrinkNodeSize, q.rellacTailNodeIndex, q.nodeQueueSizes)
		}}
	case "LockManagerQueue":
		q := NewLockManagerQueue(p[0], p[1], p[2])
		return &vqNode[LockManager]{q: q, elems: map[int]*LockManager{}, ids: map[*LockManager]int{}, st: func() []int32 {
			return vqStFields(q.baseNodeSize, q.headNodeIndex, q.headQueueIndex, q.tailNodeIndex, q.tailQueueIndex, q.nodeIndex, q.nodeSize, q.queueSize, q.shrinkNodeSize, q.rellacTailNodeIndex, q.nodeQueueSizes)
		}}
	}
	panic("vq: unknown node impl " + impl)
}

// ---------------------------------------------------------------- lock-valued queues: shared element table

type vqLocks struct {
	elems map[int]*Lock
	ids   map[*Lock]int
	mgr   *LockManager
}

func vqNewLocks() *vqLocks {
	return &vqLocks{elems: map[int]*Lock{}, ids: map[*Lock]int{}, mgr: &LockManager{freeLocks: NewLockQueue(2, 16, 64)}}
}

func vqLockId(x int) [16]byte {
	var b [16]byte
	b[0], b[1], b[2], b[15] = byte(x), byte(x>>8), byte(x>>16), 0x51
	return b
}

func (t *vqLocks) mk(x int, pr int) *Lock {
	cmd := &protocol.LockCommand{}
	cmd.LockId = vqLockId(x)
	if pr > 0 {
		cmd.TimeoutFlag = protocol.TIMEOUT_FLAG_RCOUNT_IS_PRIORITY
		cmd.Rcount = uint8(pr)
	}
	l := &Lock{manager: t.mgr, command: cmd, refCount: 100, locked: 1, ackCount: 0xff}
	t.elems[x], t.ids[l] = l, x
	return l
}

func (t *vqLocks) id(l *Lock) int {
	if l == nil {
		return 0
	}
	if v, ok := t.ids[l]; ok {
		return v
	}
	return -999
}

func (t *vqLocks) flat(nodes [][]*Lock) []int {
	out := []int{}
	for _, n := range nodes {
		for _, l := range n {
			out = append(out, t.id(l))
		}
	}
	return out
}

// ---------------------------------------------------------------- LongWaitLockQueue

type vqLong struct {
	*vqLocks
	q    *LongWaitLockQueue
	db   *LockDB
	expr bool
}

const vqLongTime = int64(77)

func vqNewLong(impl string, p []int32) vqQueue {
	a := &vqLong{vqLocks: vqNewLocks(), expr: impl == "LongWaitE"}
	a.q = NewLongWaitLockQueue(p[0], p[1], p[2], 0, vqLongTime)
	a.db = &LockDB{currentTime: 100}
	a.db.longTimeoutLocks = []map[int64]*LongWaitLockQueue{{}}
	a.db.longExpriedLocks = []map[int64]*LongWaitLockQueue{{}}
	a.db.freeLongWaitQueues = []*LongWaitLockFreeQueue{{make([]*LongWaitLockQueue, 4), -1, 3}}
	a.register()
	return a
}

func (a *vqLong) register() {
	if a.expr {
		a.db.longExpriedLocks[0][vqLongTime] = a.q
	} else {
		a.db.longTimeoutLocks[0][vqLongTime] = a.q
	}
}

// reuse: a queue that the code under test put on the free list is taken back the way AddTimeOut does
func (a *vqLong) reuse() {
	fq := a.db.freeLongWaitQueues[0]
	if fq.freeIndex >= 0 {
		a.q = fq.GetLongWaitLockQueue(0, vqLongTime)
		a.register()
	}
}

func (a *vqLong) Do(op string, x int, pr int) (int, bool) {
	switch op {
	case "push":
		if err := a.q.Push(a.mk(x, 0)); err != nil {
			return -1, false
		}
		return 0, false
	case "pop":
		return a.id(a.q.Pop()), false
	case "remove":
		l := a.elems[x]
		if l == nil || l.longWaitIndex == 0 { // production guard: `if lock.longWaitIndex > 0 { RemoveLong..() }`
			return 0, true
		}
		a.q.Remove(l)
	case "restruct":
		if a.expr {
			a.db.restructuringLongExpriedQueue(a.q)
		} else {
			a.db.restructuringLongTimeOutQueue(a.q)
		}
		a.reuse()
	case "lwfree":
		a.db.freeLongWaitQueues[0].FreeLongWaitLockQueue(a.q, a.db.currentTime)
		a.reuse()
	default:
		panic("vq: unknown longwait op " + op)
	}
	return 0, false
}

func (a *vqLong) Obs(full bool) vqObs {
	o := vqObs{Len: int(a.q.Len()), Head: a.id(a.q.locks.Head()), Tail: a.id(a.q.locks.Tail())}
	if full {
		o.Iter = []int{}
		for i := range a.q.locks.IterNodes() {
			for _, e := range a.q.locks.IterNodeQueues(int32(i)) {
				o.Iter = append(o.Iter, a.id(e))
			}
		}
	}
	return o
}

func (a *vqLong) Cov(c map[string]int) {
	q := &a.q.locks
	vqMax(c, "nodes_spanned", int(q.tailNodeIndex-q.headNodeIndex)+1)
	vqMax(c, "tail_node", int(q.tailNodeIndex))
	vqMax(c, "maxlen", int(q.Len()))
}

func (a *vqLong) St() []int32 {
	q := &a.q.locks
	return vqStFields(q.baseNodeSize, q.headNodeIndex, q.headQueueIndex, q.tailNodeIndex, q.tailQueueIndex, q.nodeIndex, q.nodeSize, q.queueSize, q.shrinkNodeSize, q.rellacTailNodeIndex, q.nodeQueueSizes)
}

// ---------------------------------------------------------------- LockManagerLockQueue (per-key holder queue)

type vqHolder struct {
	*vqLocks
	q *LockManagerLockQueue
}

func (a *vqHolder) Do(op string, x int, pr int) (int, bool) {
	switch op {
	case "push":
		a.q.Push(a.mk(x, 0))
	case "pop":
		l := a.q.Pop()
		if l != nil && l.locked > 0 && l.command != nil {
			a.q.RemoveLock(l.command) // LockManager.RemoveLock: the popped live lock becomes currentLock
		}
		return a.id(l), false
	case "kill":
		// in-place removal of a queued holder, as LockManager.RemoveLock does for a non-current lock
		l := a.elems[x]
		if l == nil || l.locked == 0 {
			return 0, true
		}
		l.locked = 0
		a.q.RemoveLock(l.command)
	case "getlock":
		return a.id(a.q.GetLock(&protocol.LockCommand{Command: protocol.Command{}, LockId: vqLockId(x)})), false
	case "resize":
		a.q.Resize()
	case "reset":
		a.q.Reset()
	default:
		panic("vq: unknown holder op " + op)
	}
	return 0, false
}

func (a *vqHolder) Obs(full bool) vqObs {
	o := vqObs{Len: a.q.Len(), Head: a.id(a.q.Head())}
	// The fast slice may purge flagged locks on Push, so it is always recorded in full; once the scale
	// queue exists nothing is purged any more and long programs may record the iteration every k-th step.
	if !full && a.q.scaleQueue != nil {
		return o
	}
	o.Iter = []int{}
	for i := range a.q.IterNodes() {
		for _, e := range a.q.IterNodeQueues(int32(i)) {
			o.Iter = append(o.Iter, a.id(e))
		}
	}
	return o
}

func (a *vqHolder) St() []int32 { return nil }

func (a *vqHolder) Cov(c map[string]int) {
	vqMax(c, "maxlen", a.q.Len())
	vqMax(c, "fast_cap", cap(a.q.fastQueue))
	if a.q.scaleQueue != nil {
		vqMax(c, "scale_queue", 1)
		vqMax(c, "scale_head_node", int(a.q.scaleQueue.headNodeIndex))
		if a.q.fastQueue != nil && a.q.fastIndex < len(a.q.fastQueue) {
			vqMax(c, "fast_and_scale", 1)
		}
	}
}

// ---------------------------------------------------------------- LockManagerWaitQueue / ring / priority ring

type vqWait struct {
	*vqLocks
	q *LockManagerWaitQueue
}

func (a *vqWait) Do(op string, x int, pr int) (int, bool) {
	switch op {
	case "push":
		a.q.Push(a.mk(x, pr))
	case "pop":
		return a.id(a.q.Pop()), false
	case "kill":
		l := a.elems[x]
		if l == nil || l.timeouted {
			return 0, true
		}
		l.timeouted = true // LockDB.RemoveTimeOut
	case "repush":
		a.q.RePushPriorityRingQueue()
	case "reset":
		a.q.Reset()
	default:
		panic("vq: unknown wait op " + op)
	}
	return 0, false
}

func (a *vqWait) Obs(full bool) vqObs {
	return vqObs{Len: a.q.Len(), Head: a.id(a.q.Head()), Mp: int(a.q.MaxPriority()), Iter: a.flat(a.q.IterNodes())}
}

func (a *vqWait) St() []int32 { return nil }

func (a *vqWait) Cov(c map[string]int) {
	vqMax(c, "maxlen", a.q.Len())
	vqMax(c, "fast_cap", cap(a.q.fastQueue))
	if a.q.ringQueue != nil {
		if _, ok := a.q.ringQueue.(*LockManagerPriorityRingQueue); ok {
			vqMax(c, "priority_ring", 1)
			vqMax(c, "priority_levels", len(a.q.ringQueue.(*LockManagerPriorityRingQueue).priorityNodes))
		} else {
			vqMax(c, "fifo_ring", 1)
		}
	}
}

type vqRing struct {
	*vqLocks
	q ILockManagerRingQueue
}

func (a *vqRing) Do(op string, x int, pr int) (int, bool) {
	switch op {
	case "push":
		a.q.Push(a.mk(x, pr))
	case "pop":
		return a.id(a.q.Pop()), false
	default:
		panic("vq: unknown ring op " + op)
	}
	return 0, false
}

func (a *vqRing) Obs(full bool) vqObs {
	return vqObs{Len: a.q.Len(), Head: a.id(a.q.Head()), Mp: int(a.q.MaxPriority()), Iter: a.flat(a.q.IterNodes())}
}

func (a *vqRing) St() []int32 { return nil }

func (a *vqRing) Cov(c map[string]int) {
	vqMax(c, "maxlen", a.q.Len())
	if r, ok := a.q.(*LockManagerRingQueue); ok {
		vqMax(c, "ring_index", r.index)
		vqMax(c, "ring_cap", cap(r.queue))
	} else if r, ok := a.q.(*LockManagerPriorityRingQueue); ok {
		vqMax(c, "priority_levels", len(r.priorityNodes))
	}
}

// ---------------------------------------------------------------- interpreter

func vqNew(kind string, r vqRun) vqQueue {
	switch kind {
	case "node":
		return vqNewNode(r.Impl, r.P)
	case "longwait":
		return vqNewLong(r.Impl, r.P)
	case "holder":
		return &vqHolder{vqNewLocks(), NewLockManagerLockQueue()}
	case "wait":
		return &vqWait{vqNewLocks(), NewLockManagerWaitQueue(r.P[0] != 0)}
	case "ring":
		return &vqRing{vqNewLocks(), NewLockManagerRingQueue(int(r.P[0]))}
	case "pring":
		return &vqRing{vqNewLocks(), NewLockManagerPriorityRingQueue(int(r.P[0]))}
	}
	panic("vq: unknown kind " + kind)
}

func vqPrioMode(kind string, r vqRun) bool {
	return kind == "pring" || (kind == "wait" && len(r.P) > 0 && r.P[0] != 0)
}

func vqInt(v interface{}) int {
	switch n := v.(type) {
	case float64:
		return int(n)
	case int:
		return n
	}
	return 0
}

// ---------------------------------------------------------------- watchdog
//
// A queue operation of the real code that does not return (or allocates without bound) cannot be
// interrupted from inside the process.  The watchdog notices it (one operation running longer than
// vqOpDeadline, or the heap above vqHeapLimit), writes what was recorded so far plus a "panic" event with
// pk = "runaway" for that operation, an "abort" event telling the check which programs of this input
// file were not run, and ends the process.  The check re-runs the remaining programs.

const vqIterCap = 100000
const vqOpDeadline = 90 * time.Second
const vqHeapLimit = uint64(3) << 30

type vqWatch struct {
	mu      sync.Mutex
	tr      *vTrace
	prog    *vqProgram
	progIdx int // index of the program in the input file
	histIdx int
	run     vqRun
	events  []string // events of the current run recorded so far
	cur     map[string]interface{}
	started time.Time
	inOp    bool
}

var vqW = &vqWatch{}

func (w *vqWatch) loop() {
	var ms runtime.MemStats
	n := 0
	for {
		time.Sleep(25 * time.Millisecond)
		n++
		w.mu.Lock()
		late := w.inOp && time.Since(w.started) > vqOpDeadline
		w.mu.Unlock()
		over := false
		if n%2 == 0 {
			runtime.ReadMemStats(&ms)
			over = ms.HeapAlloc > vqHeapLimit
		}
		if late || over {
			w.fire(late)
		}
	}
}

func (w *vqWatch) fire(late bool) {
	w.mu.Lock()
	if !w.inOp || w.prog == nil {
		w.mu.Unlock()
		return
	}
	why := fmt.Sprintf("operation did not return: heap above %d GiB", vqHeapLimit>>30)
	if late {
		why = fmt.Sprintf("operation did not return within %v", vqOpDeadline)
	}
	tr := w.tr
	tr.Emit(map[string]interface{}{"e": "begin", "idx": w.histIdx, "name": w.prog.Name, "kind": w.prog.Kind,
		"impls": []string{fmt.Sprintf("%s%v", w.run.Impl, w.run.P)}, "prio": vqPrioMode(w.prog.Kind, w.run), "nruns": 1, "p": w.run.P})
	tr.mu.Lock()
	for _, e := range w.events {
		tr.w.WriteString(e)
		tr.w.WriteByte('\n')
		tr.n++
	}
	tr.mu.Unlock()
	ev := map[string]interface{}{}
	for k, v := range w.cur {
		ev[k] = v
	}
	ev["e"], ev["msg"], ev["pk"] = "panic", why, "runaway"
	tr.Emit(ev)
	tr.Emit(map[string]interface{}{"e": "end", "idx": w.histIdx, "name": w.prog.Name, "cov": map[string]int{}})
	tr.Emit(map[string]interface{}{"e": "abort", "done": w.progIdx, "name": w.prog.Name})
	tr.Close()
	fmt.Println("PASS (aborted by the verif watchdog: " + why + ")")
	os.Exit(0)
}

// vqRunOne returns the recorded op events (already serialised) of one run.
func vqRunOne(pg *vqProgram, r vqRun, cov map[string]int) []string {
	var out []string
	q := vqNew(pg.Kind, r)
	vqW.mu.Lock()
	vqW.run, vqW.events = r, nil
	vqW.mu.Unlock()
	every := pg.Every
	if every <= 0 {
		every = 1
	}
	for i, o := range pg.Ops {
		op := o[0].(string)
		x, pr := 0, 0
		if len(o) > 1 {
			x = vqInt(o[1])
		}
		if len(o) > 2 {
			pr = vqInt(o[2])
		}
		full := every == 1 || i%every == every-1 || i == len(pg.Ops)-1 || pg.Kind == "wait"
		ev := map[string]interface{}{"e": "op", "i": i + 1, "op": op, "x": x, "pr": pr}
		dead := false
		vqW.mu.Lock()
		vqW.cur, vqW.started, vqW.inOp = map[string]interface{}{"e": "op", "i": i + 1, "op": op, "x": x, "pr": pr}, time.Now(), true
		vqW.mu.Unlock()
		func() {
			defer func() {
				if rec := recover(); rec != nil {
					msg := fmt.Sprint(rec)
					if len(msg) > 120 {
						msg = msg[:120]
					}
					ev["e"] = "panic"
					ev["msg"] = msg
					switch {
					case strings.Contains(msg, "index out of range"):
						ev["pk"] = "index-out-of-range"
					case strings.Contains(msg, "slice bounds out of range"):
						ev["pk"] = "slice-bounds-out-of-range"
					case strings.Contains(msg, "nil pointer"):
						ev["pk"] = "nil-dereference"
					default:
						ev["pk"] = "other"
					}
					dead = true
				}
			}()
			ret, skipped := q.Do(op, x, pr)
			if skipped {
				ev["e"] = "skip"
				return
			}
			ob := q.Obs(full)
			q.Cov(cov)
			ev["ret"], ev["len"], ev["head"], ev["tail"], ev["mp"] = ret, ob.Len, ob.Head, ob.Tail, ob.Mp
			if ob.Iter != nil {
				if len(ob.Iter) > vqIterCap { // only a broken queue iterates that many slots; keep the trace readable
					ob.Iter = ob.Iter[:vqIterCap]
				}
				ev["iter"] = ob.Iter
			}
			if st := q.St(); st != nil {
				if pg.St {
					ev["st"] = st
				}
				// LockQueue keeps nodes 0..nodeIndex allocated; record when the real struct breaks that
				// (nodeIndex out of range, pointing at a freed node, or a freed node below it)
				ni, sizes := int(st[5]), st[10:]
				bad := ni < 0 || ni >= len(sizes)
				for k := 0; !bad && k <= ni; k++ {
					bad = sizes[k] == 0
				}
				if bad {
					ev["nbad"] = 1
					for k := ni + 1; k >= 0 && k < len(sizes); k++ {
						if sizes[k] != 0 { // an allocated node above nodeIndex
							ev["nspare"] = 1
							break
						}
					}
				}
			}
		}()
		vqW.mu.Lock()
		vqW.inOp = false
		b, err := json.Marshal(ev)
		if err != nil {
			panic(err)
		}
		out = append(out, string(b))
		vqW.events = out
		vqW.mu.Unlock()
		if dead {
			break // the object is in an unknown state after a panic
		}
	}
	return out
}

func TestVerifQ(t *testing.T) {
	in, out := os.Getenv("VERIF_IN"), os.Getenv("VERIF_OUT")
	if in == "" || out == "" {
		t.Skip("VERIF_IN / VERIF_OUT not set")
	}
	f, err := os.Open(in)
	if err != nil {
		panic(err)
	}
	defer f.Close()
	tr := vOpenTrace(out)
	defer tr.Close()
	sc := bufio.NewScanner(f)
	sc.Buffer(make([]byte, 1<<20), 1<<28)
	idx := 0
	progIdx := -1
	vqW.tr = tr
	go vqW.loop()
	for sc.Scan() {
		line := sc.Bytes()
		if len(line) == 0 {
			continue
		}
		progIdx++
		pg := vqProgram{}
		if err := json.Unmarshal(line, &pg); err != nil {
			panic(err)
		}
		vqW.mu.Lock()
		vqW.prog, vqW.progIdx, vqW.histIdx = &pg, progIdx, idx
		vqW.mu.Unlock()
		// run on every implementation, group byte-identical recordings
		var order []string
		groups := map[string][]vqRun{}
		events := map[string][]string{}
		cov := map[string]int{}
		for _, r := range pg.Runs {
			evs := vqRunOne(&pg, r, cov)
			key := fmt.Sprintf("%v|", vqPrioMode(pg.Kind, r)) + strings.Join(evs, "\n")
			if pg.St {
				key = fmt.Sprintf("%v|", r.P) + key // struct snapshots are compared with the model per parameter set
			}
			if _, ok := groups[key]; !ok {
				order = append(order, key)
				events[key] = evs
			}
			groups[key] = append(groups[key], r)
		}
		for _, key := range order {
			rs := groups[key]
			labels := make([]string, 0, len(rs))
			for _, r := range rs {
				labels = append(labels, fmt.Sprintf("%s%v", r.Impl, r.P))
			}
			tr.Emit(map[string]interface{}{"e": "begin", "idx": idx, "name": pg.Name, "kind": pg.Kind, "impls": labels,
				"prio": vqPrioMode(pg.Kind, rs[0]), "nruns": len(rs), "p": rs[0].P})
			tr.mu.Lock()
			for _, e := range events[key] {
				tr.w.WriteString(e)
				tr.w.WriteByte('\n')
				tr.n++
			}
			tr.mu.Unlock()
			tr.Emit(map[string]interface{}{"e": "end", "idx": idx, "name": pg.Name, "cov": cov})
			idx++
		}
	}
}

//go:build verif

package server

// Engine E: in-process election bench (property C12).
//
// N real ArbiterManager / ArbiterVoter objects live in one test process.  The candidate side is
// the real code (ArbiterVoter.DoVote / DoProposal / DoCommit -> ArbiterMember.DoVote/DoProposal/
// DoCommit -> ArbiterClient.Request); every outgoing request is written by the real client
// protocol into a harness net.Conn which captures the frame instead of sending it.  The driver
// then decides, step by step, to DELIVER the request (the real commandHandle{Vote,Proposal,Commit}
// Command of the target manager is called with the decoded frame and the BinaryServerProtocol that
// identifies the sender's connection), to DELIVER the reply (the CallResultCommand the handler
// returned is pushed into the client's rchannel, where the real Request is waiting) or to LOSE
// either of them (nil is pushed into rchannel: exactly what ArbiterClient.Run does on a read error,
// but without the offline event - the property's quantifier excludes offline events).
// A RESTART replaces the member's manager by a fresh one that runs the real ArbiterManager.Load()
// on the member's meta.pb (whatever the real ArbiterStore.Save wrote there).
//
// A step is finished only when the process is quiescent: every request of the running phases is
// captured and the number of goroutines equals the number the driver's bookkeeping predicts
// (phase goroutine + one blocked Request per unresolved slot).  The trace therefore is a total
// order of atomic steps, the same steps the TLA+ spec Election has as actions.
//
// Scenarios come from $VERIF_IN (ndjson): either explicit step lists (TLC behaviours, directed
// histories) or a seeded adaptive random scheduler (wide ranges: 3..5 members, 2..3 candidates,
// real 64-bit log positions).  The observed trace goes to $VERIF_OUT and is judged by the TLA+
// monitor spec/mon/MonElection.tla.

import (
	"bufio"
	"encoding/json"
	"fmt"
	"math/rand"
	"net"
	"os"
	"path/filepath"
	"runtime"
	"strings"
	"sync"
	"testing"
	"time"

	logging "github.com/hhkbp2/go-logging"
	"github.com/snower/slock/client"
	"github.com/snower/slock/protocol"
	"github.com/snower/slock/protocol/protobuf"
	"google.golang.org/protobuf/proto"
)

// ---------------------------------------------------------------- scenario format

type vEAofJ struct {
	Idx uint32 `json:"idx"`
	Off uint32 `json:"off"`
	Ct  uint64 `json:"ct"`
}

func (a vEAofJ) bytes() [16]byte {
	l := &AofLock{AofIndex: a.Idx, AofOffset: a.Off, CommandTime: a.Ct}
	return l.GetAofId()
}

type vEMemberCfg struct {
	W   uint32 `json:"w"`
	Arb uint32 `json:"arb"`
	Aof vEAofJ `json:"aof"`
	C0  uint64 `json:"c0"`
}

type vEStep struct {
	Op  string                 `json:"op"`
	C   int                    `json:"c"`
	M   int                    `json:"m"`
	Exp map[string]interface{} `json:"exp,omitempty"`
}

type vERand struct {
	Seed        int64   `json:"seed"`
	MaxSteps    int     `json:"maxsteps"`
	PLose       float64 `json:"plose"`
	PRestart    float64 `json:"prestart"`
	MaxRestarts int     `json:"maxrestarts"`
	// PHide > 0: the messages between a candidate and a data-bearing member whose log is newer than the
	// candidate's own position are lost with this probability in the VOTE round and never in the PROPOSAL
	// round (the fresher member is not seen in the vote round but answers the proposal); PLose elsewhere
	PHide float64 `json:"phide,omitempty"`
}

type vEScenario struct {
	Name    string        `json:"name"`
	Members []vEMemberCfg `json:"members"`
	Cands   []int         `json:"cands"`
	Rounds  int           `json:"rounds"`
	Steps   []vEStep      `json:"steps"`
	Rand    *vERand       `json:"rand,omitempty"`
	// Epilogue: after the scripted steps every candidacy that the REAL code left half-way (a phase succeeded
	// and the script never started the next one - the code went on where the script's author, the model,
	// had stopped) is run to its end with every message delivered, so that the monitor sees its outcome.
	Epilogue bool `json:"epilogue,omitempty"`
}

// ---------------------------------------------------------------- bench objects

type vELink struct {
	from, to int
	mu       sync.Mutex
	buf      []byte
	req      *protocol.CallCommand
	rsp      *protocol.CallResultCommand
	client   *ArbiterClient
}

// vEConn is the net.Conn the real client protocol writes into.
type vEConn struct{ link *vELink }

func (c *vEConn) Read(b []byte) (int, error) { select {} }
func (c *vEConn) Write(b []byte) (int, error) {
	l := c.link
	l.mu.Lock()
	l.buf = append(l.buf, b...)
	if len(l.buf) >= 64 {
		cmd := &protocol.CallCommand{}
		_ = cmd.Decode(l.buf[:64])
		if len(l.buf) >= 64+int(cmd.ContentLen) {
			cmd.Data = append([]byte{}, l.buf[64:64+int(cmd.ContentLen)]...)
			l.buf = l.buf[64+int(cmd.ContentLen):]
			if l.req != nil {
				panic("engine E: second request on a link before the first was resolved")
			}
			l.req = cmd
		}
	}
	l.mu.Unlock()
	return len(b), nil
}
func (c *vEConn) Close() error                       { return nil }
func (c *vEConn) LocalAddr() net.Addr                { return &net.TCPAddr{} }
func (c *vEConn) RemoteAddr() net.Addr               { return &net.TCPAddr{} }
func (c *vEConn) SetDeadline(t time.Time) error      { return nil }
func (c *vEConn) SetReadDeadline(t time.Time) error  { return nil }
func (c *vEConn) SetWriteDeadline(t time.Time) error { return nil }

type vENode struct {
	idx      int
	host     string
	dir      string
	slock    *SLock
	mgr      *ArbiterManager
	aof      [16]byte
	in       map[int]*BinaryServerProtocol
	out      map[int]*vELink
	restarts int
}

type vECand struct {
	idx     int
	phase   string // idle vote voted prop proped commit won saved failed
	round   int
	running bool
	done    chan error
	slots   map[int]string // "req" "rsp" "done"
}

type vEBench struct {
	tr    *vTrace
	sc    *vEScenario
	n     int
	nodes []*vENode // 1..n
	cands map[int]*vECand
	base  int
	dir   string
	nrst  int
}

var vESlocks []*SLock

func vEHost(i int) string { return fmt.Sprintf("127.0.0.1:570%d", i) }

func vEHostIdx(h string) int {
	if h == "" {
		return 0
	}
	var i int
	if _, err := fmt.Sscanf(h, "127.0.0.1:570%d", &i); err != nil {
		return -1
	}
	return i
}

func vELimbs64(v uint64) []int {
	return []int{int(v >> 48 & 0xffff), int(v >> 32 & 0xffff), int(v >> 16 & 0xffff), int(v & 0xffff)}
}

// vEAofEv renders a 16-byte AofId as 16-bit limbs (TLC integers are 32 bit): file index, offset
// within the file, command time.
func vEAofEv(b [16]byte) map[string]interface{} {
	l := &AofLock{}
	l.SetAofId(b)
	return map[string]interface{}{
		"ih": int(l.AofIndex >> 16), "il": int(l.AofIndex & 0xffff),
		"oh": int(l.AofOffset >> 16), "ol": int(l.AofOffset & 0xffff),
		"c": vELimbs64(l.CommandTime),
	}
}

func (b *vEBench) wire(nd *vENode) {
	// what member.Open()/Run() + an accepted REPL_CONNECT from every peer establish: everybody online,
	// one client link to and one server connection from every other member
	nd.in = map[int]*BinaryServerProtocol{}
	nd.out = map[int]*vELink{}
	for _, m := range nd.mgr.members {
		j := vEHostIdx(m.host)
		m.status = ARBITER_MEMBER_STATUS_ONLINE
		if m.isSelf {
			continue
		}
		link := &vELink{from: nd.idx, to: j}
		stream := client.NewStream(&vEConn{link})
		cl := NewArbiterClient(m)
		cl.stream = stream
		cl.protocol = client.NewBinaryClientProtocol(stream)
		link.client = cl
		m.client = cl
		nd.out[j] = link
		sp := &BinaryServerProtocol{}
		m.server = &ArbiterServer{member: m, protocol: sp, closedWaiter: make(chan struct{})}
		nd.in[j] = sp
	}
}

func (b *vEBench) load(nd *vENode) {
	mgr := NewArbiterManager(nd.slock, "bench")
	mgr.store.filename = filepath.Join(nd.dir, "meta.pb")
	Config.DataDir = nd.dir
	if err := mgr.Load(); err != nil {
		panic(fmt.Sprintf("engine E: ArbiterManager.Load: %v", err))
	}
	// the log position is the bench's free parameter (Load derived one from the empty data dir)
	nd.slock.replicationManager.currentAofId = nd.aof
	nd.mgr = mgr
	b.wire(nd)
}

func vENewBench(sc *vEScenario, tr *vTrace) *vEBench {
	n := len(sc.Members)
	dir, err := os.MkdirTemp("", "velect")
	if err != nil {
		panic(err)
	}
	b := &vEBench{tr: tr, sc: sc, n: n, nodes: make([]*vENode, n+1), cands: map[int]*vECand{}, dir: dir}
	for len(vESlocks) < n+1 {
		sc := vNewConfig(vWorldCfg{DataDir: dir})
		sc.AofRingBufferSize = 64
		sc.AofRingBufferMaxSize = 64
		var logger = vELogger(sc)
		vESlocks = append(vESlocks, NewSLock(sc, logger))
	}
	for i := 1; i <= n; i++ {
		mc := sc.Members[i-1]
		nd := &vENode{idx: i, host: vEHost(i), dir: filepath.Join(dir, fmt.Sprintf("m%d", i)), slock: vESlocks[i]}
		if err := os.MkdirAll(nd.dir, 0755); err != nil {
			panic(err)
		}
		nd.aof = mc.Aof.bytes()
		// write the member's meta.pb with the real store: membership + committed number
		seed := NewArbiterManager(nd.slock, "bench")
		seed.store.filename = filepath.Join(nd.dir, "meta.pb")
		seed.gid = "benchgid"
		for j := 1; j <= n; j++ {
			m := NewArbiterMember(seed, vEHost(j), sc.Members[j-1].W, sc.Members[j-1].Arb)
			if j == i {
				m.isSelf = true
				seed.ownMember = m
			}
			seed.members = append(seed.members, m)
		}
		seed.voter.commitId = mc.C0
		if err := seed.store.Save(seed); err != nil {
			panic(err)
		}
		b.nodes[i] = nd
		b.load(nd)
	}
	for _, c := range sc.Cands {
		b.cands[c] = &vECand{idx: c, phase: "idle", slots: map[int]string{}}
	}
	runtime.Gosched()
	b.base = runtime.NumGoroutine()
	return b
}

// vELogger: a logger of its own that drops everything below CRITICAL (the election code logs every
// refused request at ERROR level).
func vELogger(sc *ServerConfig) logging.Logger {
	l := logging.GetLogger("velect")
	_ = l.SetLevel(logging.LevelCritical)
	return l
}

func (b *vEBench) Close() {
	os.RemoveAll(b.dir)
}

// ---------------------------------------------------------------- observation

func (b *vEBench) acc() [][]interface{} {
	out := make([][]interface{}, 0, b.n)
	for i := 1; i <= b.n; i++ {
		v := b.nodes[i].mgr.voter
		v.glock.Lock()
		out = append(out, []interface{}{v.proposalId, v.commitId, vEHostIdx(v.proposalHost)})
		v.glock.Unlock()
	}
	return out
}

func (b *vEBench) saved(nd *vENode) int64 {
	data, err := os.ReadFile(filepath.Join(nd.dir, "meta.pb"))
	if err != nil {
		return -1
	}
	data, err = nd.mgr.store.readHeader(data)
	if err != nil {
		return -1
	}
	rs := protobuf.ReplSet{}
	if err = proto.Unmarshal(data, &rs); err != nil {
		return -1
	}
	return int64(rs.CommitId)
}

func (b *vEBench) emit(ev map[string]interface{}) {
	ev["acc"] = b.acc()
	b.tr.Emit(ev)
}

func (b *vEBench) diverge(st *vEStep, why string) {
	b.tr.Emit(map[string]interface{}{"e": "diverge", "op": st.Op, "c": st.C, "m": st.M, "why": why})
}

// census parses a dump of all goroutines: how many phase goroutines are parked at the end of
// ArbiterVoter.DoRequests (all member requests spawned, waiting for them) and how many member
// goroutines spawned by DoRequests are still alive.
var vEStackBuf = make([]byte, 1<<18)

func vECensus() (parked int, memberGs int) {
	buf := vEStackBuf
	n := runtime.Stack(buf, true)
	for _, g := range strings.Split(string(buf[:n]), "\n\n") {
		if strings.Contains(g, "created by github.com/snower/slock/server.(*ArbiterVoter).DoRequests") {
			memberGs++
			continue
		}
		if strings.Contains(g, "(*ArbiterVoter).DoRequests(") {
			if nl := strings.IndexByte(g, '\n'); nl > 0 && strings.Contains(g[:nl], "[chan receive") {
				parked++
			}
		}
	}
	return
}

// settle waits until the process is quiescent according to the driver's bookkeeping: every running
// phase has spawned all its member requests and is parked waiting for them, the only member
// goroutines left are the ones blocked in ArbiterClient.Request on an unresolved slot, and each of
// those has written its request frame.  (A goroutine count alone is not enough: it passes through
// the expected value while the candidate's own member request has not even been spawned.)
func (b *vEBench) settle() {
	deadline := time.Now().Add(20 * time.Second)
	spins := 0
	for {
		phases, open := 0, 0
		captured := true
		for _, c := range b.cands {
			if !c.running {
				continue
			}
			k := 0
			for m, s := range c.slots {
				if s == "req" || s == "rsp" {
					k++
					l := b.nodes[c.idx].out[m]
					l.mu.Lock()
					if l.req == nil {
						captured = false
					}
					l.mu.Unlock()
				}
			}
			if k > 0 {
				phases++
				open += k
			}
		}
		if captured && runtime.NumGoroutine() == b.base+phases+open {
			if p, g := vECensus(); p == phases && g == open {
				return
			}
		}
		spins++
		if spins < 200 {
			runtime.Gosched()
		} else {
			time.Sleep(20 * time.Microsecond)
		}
		if time.Now().After(deadline) {
			buf := make([]byte, 1<<16)
			k := runtime.Stack(buf, true)
			panic(fmt.Sprintf("engine E: no quiescence (goroutines %d, want %d, captured %v)\n%s", runtime.NumGoroutine(), b.base+phases+open, captured, buf[:k]))
		}
	}
}

func (c *vECand) open() int {
	k := 0
	for _, s := range c.slots {
		if s != "done" {
			k++
		}
	}
	return k
}

// guard is the loop head of ArbiterVoter.StartVote (the driver calls the three phases itself).
func (b *vEBench) guard(nd *vENode) bool {
	mgr := nd.mgr
	if mgr.leaderMember != nil && mgr.leaderMember.status == ARBITER_MEMBER_STATUS_ONLINE {
		return false
	}
	online := 0
	for _, m := range mgr.members {
		if m.status == ARBITER_MEMBER_STATUS_ONLINE {
			if m.host == mgr.voter.proposalHost && mgr.ownMember.host != mgr.voter.proposalHost {
				return false
			}
			online++
		}
	}
	return online >= len(mgr.members)/2+1
}

// ---------------------------------------------------------------- steps

func (b *vEBench) enabled(st *vEStep) (bool, string) {
	switch st.Op {
	case "vote", "prop", "commit", "save":
		c := b.cands[st.C]
		if c == nil {
			return false, "not a candidate"
		}
		if c.running {
			return false, "phase running"
		}
		switch st.Op {
		case "vote":
			if !(c.phase == "idle" || c.phase == "failed") || c.round >= b.rounds() {
				return false, "vote not startable in phase " + c.phase
			}
			if !b.guard(b.nodes[st.C]) {
				return false, "blocked by the StartVote loop guard"
			}
		case "prop":
			if c.phase != "voted" {
				return false, "phase " + c.phase
			}
		case "commit":
			if c.phase != "proped" {
				return false, "phase " + c.phase
			}
		case "save":
			if c.phase != "won" {
				return false, "phase " + c.phase
			}
		}
		return true, ""
	case "dreq", "lreq", "drsp", "lrsp":
		c := b.cands[st.C]
		if c == nil || !c.running {
			return false, "no running phase"
		}
		want := "req"
		if st.Op == "drsp" || st.Op == "lrsp" {
			want = "rsp"
		}
		if c.slots[st.M] != want {
			return false, "slot is " + c.slots[st.M]
		}
		return true, ""
	case "restart":
		if st.M < 1 || st.M > b.n {
			return false, "no such member"
		}
		if c := b.cands[st.M]; c != nil && c.running {
			return false, "candidate in a phase"
		}
		return true, ""
	}
	return false, "unknown op"
}

func (b *vEBench) rounds() int {
	if b.sc.Rounds <= 0 {
		return 1
	}
	return b.sc.Rounds
}

func (b *vEBench) step(st *vEStep) {
	if ok, why := b.enabled(st); !ok {
		b.diverge(st, why)
		return
	}
	switch st.Op {
	case "vote", "prop", "commit":
		b.startPhase(st)
	case "dreq":
		b.deliverReq(st)
	case "drsp", "lreq", "lrsp":
		b.resolve(st)
	case "save":
		nd := b.nodes[st.C]
		_ = nd.mgr.store.Save(nd.mgr)
		b.cands[st.C].phase = "saved"
		ev := map[string]interface{}{"e": "save", "m": st.C, "saved": b.saved(nd)}
		if st.Exp != nil {
			ev["exp"] = st.Exp
		}
		b.emit(ev)
	case "restart":
		nd := b.nodes[st.M]
		b.load(nd)
		nd.restarts++
		b.nrst++
		if c := b.cands[st.M]; c != nil {
			c.phase = "idle"
		}
		ev := map[string]interface{}{"e": "restart", "m": st.M, "saved": b.saved(nd)}
		if st.Exp != nil {
			ev["exp"] = st.Exp
		}
		b.emit(ev)
	}
}

func (b *vEBench) startPhase(st *vEStep) {
	c := b.cands[st.C]
	nd := b.nodes[st.C]
	v := nd.mgr.voter
	pre := b.acc()[st.C-1]
	c.slots = map[int]string{}
	for j := 1; j <= b.n; j++ {
		if j != st.C {
			c.slots[j] = "req"
			l := nd.out[j]
			l.mu.Lock()
			l.req, l.rsp = nil, nil
			l.mu.Unlock()
		}
	}
	c.running = true
	c.done = make(chan error, 1)
	c.phase = st.Op
	if st.Op == "vote" {
		c.round++
	}
	var f func() error
	switch st.Op {
	case "vote":
		f = v.DoVote
	case "prop":
		f = v.DoProposal
	case "commit":
		f = v.DoCommit
	}
	go func(done chan error) { done <- f() }(c.done)
	b.settle()
	post := b.acc()[st.C-1]
	ev := map[string]interface{}{"e": "start", "c": st.C, "phase": st.Op, "round": c.round}
	switch st.Op {
	case "vote":
		own := nd.mgr.ownMember
		aof := own.aofId
		if own.arbiter == 0 {
			aof = nd.slock.replicationManager.GetCurrentAofID()
		}
		ev["selfok"] = !own.abstianed
		ev["rsp"] = map[string]interface{}{"host": st.C, "w": own.weight, "arb": own.arbiter, "aof": vEAofEv(aof), "role": own.role}
	case "prop":
		ev["pid"] = v.proposalIndex
		ev["host"] = vEHostIdx(v.voteHost)
		ev["aof"] = vEAofEv(v.voteAofId)
		ev["selfok"] = post[0].(uint64) == v.proposalIndex && pre[0].(uint64) != v.proposalIndex
		if nd.mgr.ownMember.arbiter == 0 {
			ev["own"] = vEAofEv(nd.slock.replicationManager.GetCurrentAofID())
		}
	case "commit":
		ev["pid"] = v.proposalIndex
		ev["host"] = vEHostIdx(v.voteHost)
		ev["selfok"] = post[1].(uint64) == v.proposalIndex && pre[1].(uint64) != v.proposalIndex
	}
	if st.Exp != nil {
		ev["exp"] = st.Exp
	}
	b.emit(ev)
}

func (b *vEBench) deliverReq(st *vEStep) {
	c := b.cands[st.C]
	src, dst := b.nodes[st.C], b.nodes[st.M]
	l := src.out[st.M]
	l.mu.Lock()
	cmd := l.req
	l.mu.Unlock()
	ev := map[string]interface{}{"e": "dreq", "c": st.C, "m": st.M, "phase": c.phase, "round": c.round}
	if dst.mgr.ownMember.arbiter == 0 {
		ev["own"] = vEAofEv(dst.slock.replicationManager.GetCurrentAofID())
	}
	var res *protocol.CallResultCommand
	var err error
	switch cmd.MethodName {
	case "REPL_VOTE":
		res, err = dst.mgr.commandHandleVoteCommand(dst.in[st.C], cmd)
		if err == nil && res.ErrType == "" {
			r := protobuf.ArbiterVoteResponse{}
			if proto.Unmarshal(res.Data, &r) == nil {
				ev["rsp"] = map[string]interface{}{"host": vEHostIdx(r.Host), "w": r.Weight, "arb": r.Arbiter,
					"aof": vEAofEv(dst.mgr.DecodeAofId(r.AofId)), "role": r.Role}
			}
		}
	case "REPL_PROPOSAL":
		rq := protobuf.ArbiterProposalRequest{}
		_ = proto.Unmarshal(cmd.Data, &rq)
		ev["req"] = map[string]interface{}{"pid": rq.ProposalId, "host": vEHostIdx(rq.Host), "aof": vEAofEv(dst.mgr.DecodeAofId(rq.AofId))}
		res, err = dst.mgr.commandHandleProposalCommand(dst.in[st.C], cmd)
		if err == nil && res.Data != nil {
			r := protobuf.ArbiterProposalResponse{}
			if proto.Unmarshal(res.Data, &r) == nil {
				ev["rpid"] = r.ProposalId
			}
		}
	case "REPL_COMMIT":
		rq := protobuf.ArbiterCommitRequest{}
		_ = proto.Unmarshal(cmd.Data, &rq)
		ev["req"] = map[string]interface{}{"pid": rq.ProposalId, "host": vEHostIdx(rq.Host), "aof": vEAofEv(dst.mgr.DecodeAofId(rq.AofId))}
		res, err = dst.mgr.commandHandleCommitCommand(dst.in[st.C], cmd)
	default:
		panic("engine E: unexpected method " + cmd.MethodName)
	}
	if err != nil {
		panic(fmt.Sprintf("engine E: handler error %v", err))
	}
	ev["res"] = res.ErrType
	ev["code"] = int(res.Result)
	l.mu.Lock()
	l.rsp = res
	l.mu.Unlock()
	c.slots[st.M] = "rsp"
	if st.Exp != nil {
		ev["exp"] = st.Exp
	}
	b.emit(ev)
}

// resolve finishes one slot of the candidate: the reply is delivered, or the request / the reply is lost.
func (b *vEBench) resolve(st *vEStep) {
	c := b.cands[st.C]
	nd := b.nodes[st.C]
	l := nd.out[st.M]
	ph := c.phase
	if st.Op == "drsp" {
		l.client.rchannel <- l.rsp
	} else {
		l.client.rchannel <- nil
	}
	c.slots[st.M] = "done"
	var perr error
	ended := false
	if c.open() == 0 {
		select {
		case perr = <-c.done:
		case <-time.After(10 * time.Second):
			panic("engine E: phase did not return after its last slot was resolved")
		}
		c.running = false
		ended = true
	}
	b.settle()
	l.mu.Lock()
	l.req, l.rsp = nil, nil
	l.mu.Unlock()
	ev := map[string]interface{}{"c": st.C, "m": st.M, "phase": ph, "round": c.round, "ended": ""}
	if ended && perr == nil {
		ev["ended"] = "ok"
	} else if ended {
		ev["ended"] = "fail"
	}
	switch st.Op {
	case "drsp":
		ev["e"] = "drsp"
	case "lreq":
		ev["e"], ev["what"] = "lose", "req"
	case "lrsp":
		ev["e"], ev["what"] = "lose", "rsp"
	}
	if st.Exp != nil {
		ev["exp"] = st.Exp
	}
	b.emit(ev)
	if ended {
		v := nd.mgr.voter
		pe := map[string]interface{}{"e": "pend", "c": st.C, "phase": ph, "round": c.round, "ok": perr == nil, "pid": v.proposalIndex,
			"host": vEHostIdx(v.voteHost), "aof": vEAofEv(v.voteAofId)}
		if perr != nil {
			pe["err"] = perr.Error()
			c.phase = "failed"
		} else {
			pe["err"] = ""
			c.phase = map[string]string{"vote": "voted", "prop": "proped", "commit": "won"}[ph]
		}
		b.emit(pe)
	}
}

// ---------------------------------------------------------------- adaptive random scheduler

func (b *vEBench) runRandom(r *vERand) {
	rng := rand.New(rand.NewSource(r.Seed))
	max := r.MaxSteps
	if max <= 0 {
		max = 400
	}
	for k := 0; k < max; k++ {
		var starts, msgs, rst []vEStep
		for ci := 1; ci <= b.n; ci++ {
			c := b.cands[ci]
			if c == nil {
				continue
			}
			if c.running {
				for m := 1; m <= b.n; m++ {
					switch c.slots[m] {
					case "req":
						msgs = append(msgs, vEStep{Op: "dreq", C: ci, M: m})
					case "rsp":
						msgs = append(msgs, vEStep{Op: "drsp", C: ci, M: m})
					}
				}
				continue
			}
			for _, op := range []string{"vote", "prop", "commit", "save"} {
				st := vEStep{Op: op, C: ci}
				if ok, _ := b.enabled(&st); ok {
					starts = append(starts, st)
				}
			}
		}
		if b.nrst < r.MaxRestarts {
			for m := 1; m <= b.n; m++ {
				st := vEStep{Op: "restart", M: m}
				if ok, _ := b.enabled(&st); ok {
					rst = append(rst, st)
				}
			}
		}
		if len(starts) == 0 && len(msgs) == 0 {
			return
		}
		var st vEStep
		x := rng.Float64()
		switch {
		case len(rst) > 0 && x < r.PRestart:
			st = rst[rng.Intn(len(rst))]
		case len(starts) > 0 && (len(msgs) == 0 || rng.Intn(len(starts)+len(msgs)) < len(starts)):
			st = starts[rng.Intn(len(starts))]
		default:
			st = msgs[rng.Intn(len(msgs))]
			p := r.PLose
			if r.PHide > 0 && b.fresher(st.C, st.M) {
				switch b.cands[st.C].phase {
				case "vote":
					p = r.PHide
				case "prop":
					p = 0
				}
			}
			if rng.Float64() < p {
				st.Op = "l" + st.Op[1:]
			}
		}
		b.step(&st)
	}
}

// fresher: member m is data-bearing and its log is newer than candidate c's own log (an arbiter candidate
// has none: then newer than the log of some other data-bearing member).  Scheduling bias of the random
// scheduler only; nothing is judged with it.
func (b *vEBench) fresher(c int, m int) bool {
	if b.sc.Members[m-1].Arb != 0 || c == m {
		return false
	}
	mgr := b.nodes[c].mgr
	if b.sc.Members[c-1].Arb == 0 {
		return mgr.CompareAofId(b.nodes[m].aof, b.nodes[c].aof) > 0
	}
	for x := 1; x <= b.n; x++ {
		if x != m && b.sc.Members[x-1].Arb == 0 && mgr.CompareAofId(b.nodes[m].aof, b.nodes[x].aof) > 0 {
			return true
		}
	}
	return false
}

// finish resolves every outstanding slot (lost) so that no goroutine of this scenario survives.
func (b *vEBench) finish() {
	for ci := 1; ci <= b.n; ci++ {
		c := b.cands[ci]
		if c == nil || !c.running {
			continue
		}
		for m := 1; m <= b.n; m++ {
			switch c.slots[m] {
			case "req":
				b.step(&vEStep{Op: "lreq", C: ci, M: m})
			case "rsp":
				b.step(&vEStep{Op: "lrsp", C: ci, M: m})
			}
		}
	}
}

// epilogue: see vEScenario.Epilogue.  Deterministic: candidates in index order, members in index order,
// everything delivered.
func (b *vEBench) epilogue() {
	marked := false
	for ci := 1; ci <= b.n; ci++ {
		c := b.cands[ci]
		if c == nil {
			continue
		}
		for k := 0; k < 3 && !c.running; k++ {
			next := map[string]string{"voted": "prop", "proped": "commit", "won": "save"}[c.phase]
			if next == "" {
				break
			}
			st := vEStep{Op: next, C: ci}
			if ok, _ := b.enabled(&st); !ok {
				break
			}
			if !marked {
				b.tr.Emit(map[string]interface{}{"e": "epilogue", "c": ci, "phase": c.phase})
				marked = true
			}
			b.step(&st)
			if next == "save" {
				break
			}
			for m := 1; m <= b.n; m++ {
				if c.running && c.slots[m] == "req" {
					b.step(&vEStep{Op: "dreq", C: ci, M: m})
					b.step(&vEStep{Op: "drsp", C: ci, M: m})
				}
			}
		}
	}
}

func vEReadScenarios(path string) []vEScenario {
	f, err := os.Open(path)
	if err != nil {
		panic(err)
	}
	defer f.Close()
	var out []vEScenario
	sc := bufio.NewScanner(f)
	sc.Buffer(make([]byte, 1<<20), 1<<28)
	for sc.Scan() {
		line := sc.Bytes()
		if len(line) == 0 {
			continue
		}
		var s vEScenario
		if err := json.Unmarshal(line, &s); err != nil {
			panic(err)
		}
		out = append(out, s)
	}
	return out
}

func TestVerifE(t *testing.T) {
	in, out := os.Getenv("VERIF_IN"), os.Getenv("VERIF_OUT")
	if in == "" || out == "" {
		t.Skip("VERIF_IN / VERIF_OUT not set")
	}
	scs := vEReadScenarios(in)
	tr := vOpenTrace(out)
	defer tr.Close()
	for i := range scs {
		sc := &scs[i]
		b := vENewBench(sc, tr)
		members := make([]map[string]interface{}, 0, b.n)
		for j := 1; j <= b.n; j++ {
			mc := sc.Members[j-1]
			members = append(members, map[string]interface{}{"w": mc.W, "arb": mc.Arb, "aof": vEAofEv(b.nodes[j].aof), "c0": mc.C0})
		}
		b.emit(map[string]interface{}{"e": "begin", "name": sc.Name, "idx": i, "n": b.n, "members": members, "cands": sc.Cands})
		for j := range sc.Steps {
			b.step(&sc.Steps[j])
		}
		if sc.Rand != nil {
			b.runRandom(sc.Rand)
		}
		b.finish()
		if sc.Epilogue {
			b.epilogue()
			b.finish()
		}
		b.emit(map[string]interface{}{"e": "end", "name": sc.Name, "idx": i})
		b.Close()
	}
}

//go:build verif

package server

// Engine F, burst step: several requests run while the records of the earlier ones are still QUEUED in the
// AofChannel - handed to the log by reference (AofChannel.Push stores LockManager.AofLockData(), i.e. the live
// value slice of the key) and not yet copied into the value-file buffer by the channel goroutine.
//
// The schedule: every channel goroutine of the instance is parked (queue empty, queuePulled = true).  The driver
// clears queuePulled under queueGlock: the first Push of the burst then behaves exactly as if it had already put
// the wake-up token into queueWaiter and the goroutine had not been scheduled yet - later pushes only enqueue.
// After the last request the driver sends the token itself; the goroutines drain the queues in FIFO order.
// This is the interleaving "the log writer lags behind a pipelining client" with no code of /repo changed and no
// new hook: the gate is the channel's own wake-up protocol.
//
// Recorded for the monitor (spec/mon/MonAof.tla, StepBStep / StepBDisk):
//   bstep  one per request: the value-operation frame, the key's stored value before / after (bytes), the replies
//          delivered during the request, and every record the request pushed (fields + a COPY of the frame it
//          referenced at hand-over time)
//   bdisk  after the drain: the records the burst appended to each log file (the driver's own 64-byte decoder) and
//          the raw bytes the burst appended to each value file

import (
	"encoding/hex"
	"os"
	"path/filepath"
	"time"

	"github.com/snower/slock/protocol"
)

func vfInts(b []byte) []int {
	out := make([]int, len(b))
	for i, x := range b {
		out[i] = int(x)
	}
	return out
}

type vfKeyVal struct {
	Val    []int  `json:"val"` // stored value frame (GetData form: nil for none / unset)
	Hex    string `json:"hex"`
	Locked int    `json:"locked"`
	Waited bool   `json:"waited"`
}

func vfKeyValOf(w *vWorld, dbId int, key int64) vfKeyVal {
	kv := vfKeyVal{Val: []int{}}
	db := w.slock.dbs[uint8(dbId)]
	if db == nil {
		return kv
	}
	cmd := &protocol.LockCommand{}
	cmd.LockKey = vKey(key)
	m := db.GetLockManager(cmd)
	if m == nil || m.lockKey != cmd.LockKey {
		return kv
	}
	kv.Locked = int(m.locked)
	kv.Waited = m.waited
	if m.currentData != nil && m.currentData.GetData() != nil {
		b := append([]byte{}, m.currentData.GetData()...)
		kv.Val = vfInts(b)
		kv.Hex = hex.EncodeToString(b)
	}
	return kv
}

type vfPushed struct {
	Ty   int    `json:"ty"`
	Db   int    `json:"db"`
	Key  int64  `json:"key"`
	Lid  int64  `json:"lid"`
	Af   int    `json:"af"`
	Fl   int    `json:"fl"`
	Has  bool   `json:"has"`  // the record references a value frame
	Data []int  `json:"data"` // copy of the referenced frame at hand-over time
	Ch   int    `json:"ch"`   // ordinal of the channel (records of one channel are written in FIFO order)
	ref  []byte // the referenced slice itself
}

// vfQueueEntries: the AofLocks queued in a channel, oldest first (call with queueGlock held).
func vfQueueEntries(ch *AofChannel) []*AofLock {
	out := []*AofLock{}
	for q := ch.queueHead; q != nil; q = q.next {
		for i := q.rindex; i < q.windex; i++ {
			if q.buffer[i] != nil {
				out = append(out, q.buffer[i])
			}
		}
		if q == ch.queueTail {
			break
		}
	}
	return out
}

type vfLogPos struct {
	nrec  int64
	dsize int64
}

func vfLogPositions(dir string) map[string]vfLogPos {
	out := map[string]vfLogPos{}
	for _, n := range vfListFiles(dir) {
		if vfAppendIndex(n) < 0 && n != "rewrite.aof" {
			continue
		}
		sz := vfFileSize(filepath.Join(dir, n))
		nrec := int64(0)
		if sz >= 12 {
			nrec = (sz - 12) / 64
		}
		ds := vfFileSize(filepath.Join(dir, n+".dat"))
		if ds < 0 {
			ds = 0
		}
		out[n] = vfLogPos{nrec: nrec, dsize: ds}
	}
	return out
}

func (d *vfDriver) stepBurst(st *vfStep) {
	w := d.w
	aof := w.slock.aof
	d.quiesce(w)
	d.flushCompactions()
	// databases of the burst exist before the gate is closed (a database created later starts un-gated goroutines)
	for i := range st.Reqs {
		w.db(uint8(st.Reqs[i].Db))
	}
	d.quiesce(w)
	pre := vfLogPositions(w.dir)
	rwPre := vfFileSize(filepath.Join(w.dir, "rewrite.aof"))
	// close the gate: every channel goroutine parked on an empty queue, wake-up token withheld
	aof.glock.Lock()
	chans := append([]*AofChannel{}, aof.channels...)
	aof.glock.Unlock()
	deadline := time.Now().Add(10 * time.Second)
	for _, ch := range chans {
		for {
			ch.queueGlock.Lock()
			if ch.queuePulled && ch.queueCount == 0 {
				ch.queuePulled = false
				ch.queueGlock.Unlock()
				break
			}
			ch.queueGlock.Unlock()
			if time.Now().After(deadline) {
				panic("vf burst: a channel goroutine did not park")
			}
			time.Sleep(50 * time.Microsecond)
		}
	}
	seen := make([]int, len(chans))
	all := []*vfPushed{}
	d.tr.Emit(map[string]interface{}{"e": "bbegin", "rt": w.now - d.base, "n": len(st.Reqs), "channels": len(chans)})
	for i := range st.Reqs {
		rq := st.Reqs[i]
		if rq.Op != "lock" && rq.Op != "unlock" {
			continue
		}
		if w.dead {
			break
		}
		before := vfKeyValOf(w, rq.Db, rq.Key)
		replies := []map[string]interface{}{}
		w.gate = func(w2 *vWorld, ev map[string]interface{}) {
			replies = append(replies, map[string]interface{}{"rid": ev["rid"], "res": ev["res"], "lc": ev["lc"], "lrc": ev["lrc"],
				"db": ev["db"], "key": ev["key"], "lid": ev["lid"], "ct": ev["ct"]})
			w2.tr.Emit(ev)
		}
		rid := d.nextId
		d.runBasic(w, &rq)
		w.gate = nil
		issued := d.nextId != rid
		after := vfKeyValOf(w, rq.Db, rq.Key)
		pushed := []*vfPushed{}
		for ci, ch := range chans {
			ch.queueGlock.Lock()
			ents := vfQueueEntries(ch)
			ch.queueGlock.Unlock()
			for _, al := range ents[seen[ci]:] {
				p := &vfPushed{Ty: int(al.CommandType), Db: int(al.DbId), Key: vfClamp(vKeyInt(al.LockKey)), Lid: vfClamp(vKeyInt(al.LockId)),
					Af: int(al.AofFlag), Fl: int(al.Flag), Has: al.AofFlag&AOF_FLAG_CONTAINS_DATA != 0, Data: []int{}, Ch: ci}
				if p.Has {
					p.ref = al.data
					p.Data = vfInts(al.data)
				}
				pushed = append(pushed, p)
				all = append(all, p)
			}
			seen[ci] = len(ents)
		}
		op := []int{}
		if rq.Data != "" {
			b, _ := hex.DecodeString(rq.Data)
			op = vfInts(b)
		}
		cmd := "L"
		if rq.Op == "unlock" {
			cmd = "U"
		}
		flag := rq.Flag
		if rq.Data != "" {
			flag |= protocol.LOCK_FLAG_CONTAINS_DATA
		}
		d.tr.Emit(map[string]interface{}{"e": "bstep", "i": i, "issued": issued, "rid": rid, "cmd": cmd, "db": rq.Db, "key": rq.Key, "lid": rq.Lid,
			"flag": flag, "ex": rq.Expried, "op": op, "pre": before, "post": after, "replies": replies, "pushed": pushed})
		d.emitLive(w, "live")
	}
	// what the queued records reference NOW (classification detail: a frame that changed between hand-over and write)
	changed := 0
	for _, p := range all {
		if p.Has && hex.EncodeToString(p.ref) != hex.EncodeToString(vfBytes(p.Data)) {
			changed++
		}
	}
	// open the gate
	order := make([]int, len(chans))
	for i := range order {
		order[i] = i
		if st.Rel == "rev" {
			order[i] = len(chans) - 1 - i
		}
	}
	for _, ci := range order {
		ch := chans[ci]
		ch.queueGlock.Lock()
		if ch.queueCount > 0 {
			ch.queueWaiter <- struct{}{}
		} else {
			ch.queuePulled = true
		}
		ch.queueGlock.Unlock()
		if st.Rel == "rev" || st.Rel == "seq" {
			// one channel at a time: the file order of the records follows the release order
			vfDrainChannel(ch)
		}
	}
	d.quiesce(w)
	d.flushCompactions()
	// the records and the value bytes the burst appended
	post := vfLogPositions(w.dir)
	lost := vfFileSize(filepath.Join(w.dir, "rewrite.aof")) != rwPre
	for n := range pre {
		if _, ok := post[n]; !ok {
			lost = true
		}
	}
	files := []map[string]interface{}{}
	if !lost {
		for _, f := range vfDecodeDir(w.dir, d.base) {
			if vfAppendIndex(f.Name) < 0 {
				continue
			}
			p0 := pre[f.Name] // zero value for a file created during the burst
			if int64(len(f.Recs)) <= p0.nrec {
				continue
			}
			recs := []map[string]interface{}{}
			for i := p0.nrec; i < int64(len(f.Recs)); i++ {
				r := f.Recs[i]
				recs = append(recs, map[string]interface{}{"n": i + 1, "ty": r.Ty, "db": r.Db, "key": r.Key, "lid": r.Lid, "af": r.Af, "fl": r.Fl,
					"has": r.Af&0x2000 != 0})
			}
			dbytes := []byte{}
			if b, err := os.ReadFile(filepath.Join(w.dir, f.Name+".dat")); err == nil && int64(len(b)) >= p0.dsize {
				dbytes = b[p0.dsize:]
			}
			files = append(files, map[string]interface{}{"name": f.Name, "first": p0.nrec + 1, "dpre": p0.dsize, "recs": recs, "dbytes": vfInts(dbytes)})
		}
	}
	d.tr.Emit(map[string]interface{}{"e": "bdisk", "lost": lost, "files": files, "npushed": len(all), "refs_changed_before_write": changed})
	d.emitLive(w, "live")
}

func vfBytes(a []int) []byte {
	out := make([]byte, len(a))
	for i, x := range a {
		out[i] = byte(x)
	}
	return out
}

// vfDrainChannel waits until one channel's queue is empty and its goroutine is parked again.
func vfDrainChannel(ch *AofChannel) {
	for i := 0; i < 400000; i++ {
		ch.queueGlock.Lock()
		idle := ch.queueCount == 0 && ch.queuePulled
		ch.queueGlock.Unlock()
		if idle {
			return
		}
		time.Sleep(25 * time.Microsecond)
	}
}

//go:build verif

package server

// Engine W (C18): the REAL connection handling (Server.handle, checkProtocol, Binary/TextServerProtocol,
// ProxyServerProtocol, the clients table) driven over net.Pipe connections, combined with the virtual
// clock of the common harness (hook H1) so that timeouts / expiries / grants happen exactly where the
// scenario puts them relative to a disconnect.  One scenario = one fresh leader SLock + Server.
//
// The driver is sequential: after every step it waits until the server side is quiescent
//   - binary connections: a PING frame is sent behind every request; its PONG proves that the handler
//     goroutine has processed everything before it,
//   - text connections: the reply of the command, or (for a LOCK that queued) the waiter showing up in
//     the lock table,
//   - every byte the server wrote on any pipe has been parsed and recorded (byte counters),
// and only then records the next event.  Will executions inside Close() can be parked at the H3 hook
// (verifPoint "lock.mgr.got"/"unlock.mgr.got", outside every mutex) so that other steps (reconnect,
// requests of other clients) interleave with a disconnect in progress.
//
// Everything observed goes to $VERIF_OUT as ndjson and is judged by the TLA+ monitor spec/mon/MonSession.tla.

import (
	"bytes"
	"encoding/hex"
	"fmt"
	"io"
	"net"
	"os"
	"regexp"
	"runtime"
	"runtime/debug"
	"sort"
	"strconv"
	"strings"
	"sync"
	"sync/atomic"
	"testing"
	"time"

	"github.com/snower/slock/protocol"
)

type vwStep struct {
	Op    string `json:"op"`
	C     int    `json:"c"`
	Kind  string `json:"kind"`
	Cid   int    `json:"cid"`
	Key   int64  `json:"key"`
	Lid   int64  `json:"lid"`
	To    int    `json:"to"`
	Ex    int    `json:"ex"`
	Cnt   int    `json:"cnt"`
	Rc    int    `json:"rc"`
	Will  bool   `json:"will"`
	How   string `json:"how"`
	Gate  bool   `json:"gate"`
	Batch bool   `json:"batch"`
	N     int    `json:"n"`
	Tag   string `json:"tag"`
	Db    int    `json:"db"`   // DbId of the request (0 default; a never-created db or 0xff make a will end in UNKNOWN_DB)
	Data  string `json:"data"` // value payload (SET <string>) carried by the request, "" = none
	Group []vwStep `json:"group"` // op "par": requests of DIFFERENT connections written at the same moment, one goroutine each
	Stall int      `json:"stall"` // op "par": the client of connection C reads slowly (ms before each further frame) meanwhile
}

type vwScenario struct {
	Name     string   `json:"name"`
	Steps    []vwStep `json:"steps"`
	Complete bool     `json:"complete"`
	CidPos   *int     `json:"cidpos"` // byte position in which the client ids of this history differ (default: rotates with the history index)
}

type vwWill struct {
	id  int64
	ct  uint8
	key [16]byte
	lid [16]byte
}

// a gate is keyed by the RequestId of the will frame (unique per request, kept when the server rewrites the
// command type): only the execution of exactly that will can park at it
type vwGateKey struct {
	rid [16]byte
}

type vwGate struct {
	c  int
	id int64
}

// server side of the pipe: counts the bytes the server managed to write
type vwSrvConn struct {
	net.Conn
	wrote *int64
}

func (s *vwSrvConn) Write(b []byte) (int, error) {
	n, err := s.Conn.Write(b)
	if n > 0 {
		atomic.AddInt64(s.wrote, int64(n))
	}
	return n, err
}

type vwConn struct {
	id        int
	kind      string
	cid       int
	cli       net.Conn
	stream    *Stream
	proto     ServerProtocol
	wrote     int64 // bytes written by the server (atomic)
	seen      int64 // bytes parsed by the reader (atomic)
	replies   int64 // complete text replies parsed (atomic)
	sent      int64 // text commands sent
	pong      chan int64
	initres   chan [2]int
	readerEnd chan struct{}
	cliClosed bool
	closing   bool // close initiated
	closed    bool // handler finished (closedWaiter)
	hungRep   bool
	db        int // database selected on a text connection
	answered  bool
	wills     []vwWill
	parked    chan int64
	gated     bool
	stallMs   int64 // slow reader (atomic): pause before each read
}

type vwRun struct {
	w      *vWorld
	srv    *Server
	tr     *vTrace
	conns  map[int]*vwConn
	order  []int
	nextId int64
	pingId int64
	gmu    sync.Mutex
	gates  map[vwGateKey]*vwGate
	// watchdog: the runner goroutine stamps every (sub-)step that waits for the code under test
	since  int64        // unix nanos of the last stamp (atomic)
	stage  atomic.Value // string: what is being waited for
	stepI  int32        // index of the scenario step (atomic)
	stepC  int32        // connection of the step (atomic)
	dead   int32        // set by the watchdog: the world is abandoned, nothing it still says is recorded (atomic)
}

func (r *vwRun) mark(what string) {
	r.stage.Store(what)
	atomic.StoreInt64(&r.since, time.Now().UnixNano())
}

func (r *vwRun) emit(ev map[string]interface{}) {
	if atomic.LoadInt32(&r.dead) != 0 {
		return
	}
	r.tr.Emit(ev)
	r.tr.mu.Lock()
	r.tr.w.Flush()
	r.tr.mu.Unlock()
}

// Announced client ids of one history are equal in fifteen bytes and differ in ONE byte position, which rotates
// with the history index: an identity that the server shortens, masks or mis-copies in any single position makes two
// of these clients one (ids that differ in every byte, or only in the low bytes, would hide that).
var vwCidPos int

var vwCidBase = [16]byte{0x51, 0x62, 0x73, 0x84, 0x95, 0xa6, 0xb7, 0xc8, 0xd9, 0xea, 0xfb, 0x1c, 0x2d, 0x3e, 0x4f, 0x60}

func vwCid(n int) [16]byte {
	if n <= 0 {
		return [16]byte{}
	}
	b := vwCidBase
	b[vwCidPos] ^= byte(n)
	b[(vwCidPos+1)%16] ^= byte(n >> 8)
	return b
}

func vwCidInt(b [16]byte) int {
	if b == ([16]byte{}) {
		return 0
	}
	p, q := vwCidPos, (vwCidPos+1)%16
	n := int(b[p]^vwCidBase[p]) | int(b[q]^vwCidBase[q])<<8
	if n <= 0 || vwCid(n) != b {
		return -2
	}
	return n
}

// ---------------------------------------------------------------- readers (client side of the pipes)

func (r *vwRun) readBinary(c *vwConn) {
	defer close(c.readerEnd)
	buf := make([]byte, 64)
	for {
		if d := atomic.LoadInt64(&c.stallMs); d > 0 {
			time.Sleep(time.Duration(d) * time.Millisecond)
		}
		if _, err := io.ReadFull(c.cli, buf); err != nil {
			if !c.cliClosed {
				r.emit(map[string]interface{}{"e": "weof", "c": c.id, "t": r.w.now})
			}
			return
		}
		ct := buf[2]
		var rid16 [16]byte
		copy(rid16[:], buf[3:19])
		switch ct {
		case protocol.COMMAND_LOCK, protocol.COMMAND_UNLOCK:
			res := protocol.LockResultCommand{}
			_ = res.Decode(buf)
			extra := 0
			if res.Flag&protocol.LOCK_FLAG_CONTAINS_DATA != 0 {
				lb := make([]byte, 4)
				if _, err := io.ReadFull(c.cli, lb); err != nil {
					return
				}
				n := int(lb[0]) | int(lb[1])<<8 | int(lb[2])<<16 | int(lb[3])<<24
				db := make([]byte, n)
				if _, err := io.ReadFull(c.cli, db); err != nil {
					return
				}
				extra = 4 + n
			}
			r.emit(map[string]interface{}{"e": "wframe", "c": c.id, "kind": "bin", "rid": vReqIdInt(res.RequestId), "ct": int(ct), "res": int(res.Result),
				"key": vKeyInt(res.LockKey), "lid": vKeyInt(res.LockId), "lc": int(res.Lcount), "lrc": int(res.Lrcount), "t": r.w.now})
			atomic.AddInt64(&c.seen, int64(64+extra))
		case protocol.COMMAND_PING:
			atomic.AddInt64(&c.seen, 64)
			c.pong <- vReqIdInt(rid16)
		case protocol.COMMAND_INIT:
			atomic.AddInt64(&c.seen, 64)
			select {
			case c.initres <- [2]int{int(buf[19]), int(buf[20])}:
			default:
				// unsolicited INIT result (state push): recorded, nobody waits for it
				r.emit(map[string]interface{}{"e": "wother", "c": c.id, "ct": int(ct), "res": int(buf[19]), "t": r.w.now})
			}
		default:
			r.emit(map[string]interface{}{"e": "wother", "c": c.id, "ct": int(ct), "res": int(buf[19]), "t": r.w.now})
			atomic.AddInt64(&c.seen, 64)
		}
	}
}

// minimal RESP reader for the replies of the text protocol
func (r *vwRun) readText(c *vwConn) {
	defer close(c.readerEnd)
	acc := []byte{}
	chunk := make([]byte, 4096)
	for {
		n, err := c.cli.Read(chunk)
		if n > 0 {
			acc = append(acc, chunk[:n]...)
			for {
				used, val := vwParseResp(acc)
				if used == 0 {
					break
				}
				acc = acc[used:]
				ev := map[string]interface{}{"e": "wtext", "c": c.id, "kind": "text", "seq": atomic.LoadInt64(&c.replies) + 1, "t": r.w.now}
				switch v := val.(type) {
				case string:
					ev["shape"] = "line"
					ev["msg"] = v
					ev["res"] = -1
					ev["lid"] = int64(-1)
				case []string:
					ev["shape"] = "arr"
					ev["msg"] = ""
					ev["res"] = -1
					ev["lid"] = int64(-1)
					if len(v) >= 4 && v[2] == "LOCK_ID" {
						if x, e := strconv.Atoi(v[0]); e == nil {
							ev["res"] = x
						}
						if b, e := hex.DecodeString(v[3]); e == nil && len(b) == 16 {
							var a [16]byte
							copy(a[:], b)
							ev["lid"] = vKeyInt(a)
						}
					}
				}
				r.emit(ev)
				atomic.AddInt64(&c.seen, int64(used))
				atomic.AddInt64(&c.replies, 1)
			}
		}
		if err != nil {
			if !c.cliClosed {
				r.emit(map[string]interface{}{"e": "weof", "c": c.id, "t": r.w.now})
			}
			return
		}
	}
}

// returns (bytes consumed, value) for one complete RESP value at the start of b; (0, nil) if incomplete
func vwParseResp(b []byte) (int, interface{}) {
	if len(b) == 0 {
		return 0, nil
	}
	eol := bytes.Index(b, []byte("\r\n"))
	if eol < 0 {
		return 0, nil
	}
	switch b[0] {
	case '+', '-', ':':
		return eol + 2, string(b[:eol])
	case '$':
		n, err := strconv.Atoi(string(b[1:eol]))
		if err != nil || n < 0 {
			return eol + 2, string(b[:eol])
		}
		if len(b) < eol+2+n+2 {
			return 0, nil
		}
		return eol + 2 + n + 2, string(b[eol+2 : eol+2+n])
	case '*':
		cnt, err := strconv.Atoi(string(b[1:eol]))
		if err != nil || cnt < 0 {
			return eol + 2, string(b[:eol])
		}
		pos := eol + 2
		items := []string{}
		for i := 0; i < cnt; i++ {
			used, v := vwParseResp(b[pos:])
			if used == 0 {
				return 0, nil
			}
			pos += used
			switch x := v.(type) {
			case string:
				items = append(items, x)
			default:
				items = append(items, "?")
			}
		}
		return pos, items
	}
	return eol + 2, string(b[:eol])
}

// ---------------------------------------------------------------- quiescence

// settle waits until every byte written by the server on a pipe whose client side is still reading has
// been parsed and recorded.
func (r *vwRun) settle() {
	deadline := time.Now().Add(600 * time.Second) // the watchdog fires long before
	for {
		ok := true
		for _, id := range r.order {
			c := r.conns[id]
			select {
			case <-c.readerEnd:
				continue
			default:
			}
			if atomic.LoadInt64(&c.seen) != atomic.LoadInt64(&c.wrote) {
				ok = false
			}
			// a text handler that was blocked in a queued LOCK and has been handed the result (lockRequestId is
			// cleared when the result is produced) is about to write the reply on its own goroutine: wait for it
			if tp, isText := c.proto.(*TextServerProtocol); isText && !c.cliClosed && !c.stream.closed &&
				atomic.LoadInt64(&c.replies) < c.sent && tp.lockRequestId == [16]byte{} {
				ok = false
			}
		}
		if ok {
			return
		}
		if time.Now().After(deadline) {
			panic("vw: pipes did not settle")
		}
		time.Sleep(200 * time.Microsecond)
	}
}

func (r *vwRun) lockAll() func() {
	dbs := []*LockDB{}
	for _, db := range r.w.slock.dbs {
		if db != nil {
			dbs = append(dbs, db)
		}
	}
	for _, db := range dbs {
		for i := uint16(0); i < db.managerMaxGlocks; i++ {
			db.managerGlocks[i].Lock()
		}
	}
	return func() {
		for _, db := range dbs {
			for i := uint16(0); i < db.managerMaxGlocks; i++ {
				db.managerGlocks[i].Unlock()
			}
		}
	}
}

func (r *vwRun) connOfProto(sp ServerProtocol) int {
	for _, id := range r.order {
		c := r.conns[id]
		if c.proto != nil && c.proto == sp {
			return c.id
		}
	}
	return -1
}

func (r *vwRun) snapshot(final bool) map[string]interface{} {
	r.settle()
	unlock := r.lockAll()
	ev := r.w.Snapshot()
	unlock()
	s := r.w.slock
	cl := []map[string]interface{}{}
	s.clientsGlock.Lock()
	for id, sp := range s.clients {
		cl = append(cl, map[string]interface{}{"cid": vwCidInt(id), "c": r.connOfProto(sp)})
	}
	s.clientsGlock.Unlock()
	se := []int{}
	s.protocolSessionsGlock.Lock()
	for _, sess := range s.protocolSessions {
		se = append(se, r.connOfProto(sess.serverProtocol))
	}
	s.protocolSessionsGlock.Unlock()
	st := []int{}
	for _, stream := range r.srv.GetStreams() {
		found := -1
		for _, id := range r.order {
			if r.conns[id].stream == stream {
				found = id
			}
		}
		st = append(st, found)
	}
	dup, pooled := r.cmdCensus()
	ev["dupcmd"] = dup
	ev["pooled"] = pooled
	ev["clients"] = cl
	ev["sessions"] = se
	ev["streams"] = st
	ev["final"] = final
	return ev
}

// cmdCensus: LockCommand objects are recycled through per-connection free stacks and a global pool.  Every live
// Lock record (holder with depth > 0, waiter that has not timed out) must own its command object alone, and no
// such object may sit in a free pool.  Returns (objects referenced by more than one live record, objects of
// live records found in a pool).  Callers are quiescent.
func (r *vwRun) cmdCensus() (int, int) {
	unlock := r.lockAll()
	live := map[*protocol.LockCommand]int{}
	for _, db := range r.w.slock.dbs {
		if db == nil {
			continue
		}
		seen := map[*LockManager]bool{}
		add := func(m *LockManager) {
			if m == nil || seen[m] || m.refCount == 0xffffffff {
				return
			}
			seen[m] = true
			if m.currentLock != nil && m.currentLock.locked > 0 && m.currentLock.command != nil {
				live[m.currentLock.command]++
			}
			if m.locks != nil {
				for _, node := range m.locks.IterNodes() {
					for _, l := range node {
						if l != nil && l.locked > 0 && l.command != nil {
							live[l.command]++
						}
					}
				}
			}
			if m.waitLocks != nil {
				for _, node := range m.waitLocks.IterNodes() {
					for _, l := range node {
						if l != nil && !l.timeouted && l.ackCount == 0xff && l.command != nil {
							live[l.command]++
						}
					}
				}
			}
		}
		for i := range db.fastLocks {
			add(db.fastLocks[i].manager)
		}
		db.mGlock.RLock()
		for _, m := range db.locks {
			add(m)
		}
		db.mGlock.RUnlock()
	}
	unlock()
	dup := 0
	for _, n := range live {
		if n > 1 {
			dup++
		}
	}
	pooled := 0
	inPool := func(q *LockCommandQueue) {
		if q == nil {
			return
		}
		for i := range q.IterNodes() {
			for _, c := range q.IterNodeQueues(int32(i)) {
				if c != nil && live[c] > 0 {
					pooled++
				}
			}
		}
	}
	s := r.w.slock
	s.freeLockCommandLock.Lock()
	inPool(s.freeLockCommandQueue)
	s.freeLockCommandLock.Unlock()
	for _, id := range r.order {
		c := r.conns[id]
		if c.closed {
			continue
		}
		switch p := c.proto.(type) {
		case *BinaryServerProtocol:
			for _, x := range p.freeCommands[:p.freeCommandIndex] {
				if x != nil && live[x] > 0 {
					pooled++
				}
			}
			inPool(p.lockedFreeCommands)
		case *TextServerProtocol:
			for _, x := range p.freeCommands[:p.freeCommandIndex] {
				if x != nil && live[x] > 0 {
					pooled++
				}
			}
			inPool(p.lockedFreeCommands)
		}
	}
	return dup, pooled
}

func (r *vwRun) hasWaiter(key, lid int64) bool {
	unlock := r.lockAll()
	defer unlock()
	db := r.w.slock.dbs[0]
	if db == nil {
		return false
	}
	cmd := &protocol.LockCommand{}
	cmd.LockKey = vKey(key)
	m := db.GetLockManager(cmd)
	if m == nil || m.waitLocks == nil {
		return false
	}
	l16 := vKey(lid)
	for _, node := range m.waitLocks.IterNodes() {
		for _, l := range node {
			if l != nil && !l.timeouted && l.command != nil && l.command.LockId == l16 {
				return true
			}
		}
	}
	return false
}

// ---------------------------------------------------------------- connections

func (r *vwRun) connect(id int, kind string) *vwConn {
	cli, sc := net.Pipe()
	c := &vwConn{id: id, kind: kind, cid: -1, cli: cli, pong: make(chan int64, 16), initres: make(chan [2]int, 1),
		readerEnd: make(chan struct{}), parked: make(chan int64, 64)}
	st := NewStream(&vwSrvConn{Conn: sc, wrote: &c.wrote})
	c.stream = st
	_ = r.srv.addStream(st)
	r.conns[id] = c
	r.order = append(r.order, id)
	go r.srv.handle(st)
	if kind == "bin" {
		go r.readBinary(c)
	} else {
		go r.readText(c)
	}
	r.emit(map[string]interface{}{"e": "wconn", "c": id, "kind": kind, "t": r.w.now})
	if kind == "bin" {
		r.ping(c) // the first 64 bytes decide the protocol: a complete PING frame in one write
	}
	return c
}

func (r *vwRun) write(c *vwConn, b []byte) bool {
	if c.cliClosed {
		return false
	}
	_ = c.cli.SetWriteDeadline(time.Now().Add(30 * time.Second))
	_, err := c.cli.Write(b)
	return err == nil
}

func (r *vwRun) pingFrame() ([]byte, int64) {
	r.pingId++
	id := 1000000000 + r.pingId
	p := &protocol.PingCommand{Command: protocol.Command{Magic: protocol.MAGIC, Version: protocol.VERSION, CommandType: protocol.COMMAND_PING, RequestId: vReqId(id)}}
	b := make([]byte, 64)
	_ = p.Encode(b)
	return b, id
}

func (r *vwRun) awaitPong(c *vwConn, id int64) {
	r.mark(fmt.Sprintf("binary connection %d does not answer (PONG behind the last command never arrived)", c.id))
	for {
		select {
		case got := <-c.pong:
			if got == id {
				if c.proto == nil {
					c.proto = c.stream.protocol
				}
				return
			}
		case <-c.readerEnd:
			return
		case <-time.After(600 * time.Second): // the watchdog fires long before
			panic(fmt.Sprintf("vw: no PONG on connection %d", c.id))
		}
	}
}

func (r *vwRun) ping(c *vwConn) {
	b, id := r.pingFrame()
	if r.write(c, b) {
		r.awaitPong(c, id)
	}
	r.settle()
}

func vwLockFrame(ct uint8, id int64, s *vwStep) []byte {
	cmd := &protocol.LockCommand{Command: protocol.Command{Magic: protocol.MAGIC, Version: protocol.VERSION, CommandType: ct, RequestId: vReqId(id)}}
	cmd.LockKey = vKey(s.Key)
	cmd.LockId = vKey(s.Lid)
	cmd.Timeout = uint16(s.To)
	cmd.Expried = uint16(s.Ex)
	cmd.Count = uint16(s.Cnt)
	cmd.Rcount = uint8(s.Rc)
	cmd.DbId = uint8(s.Db)
	if s.Data != "" {
		cmd.Flag |= protocol.LOCK_FLAG_CONTAINS_DATA
	}
	b := make([]byte, 64)
	_ = cmd.Encode(b)
	if s.Data != "" {
		b = append(b, protocol.NewLockCommandDataSetString(s.Data).Data...) // 4-byte length + frame, follows the command
	}
	return b
}

func vwTextCommand(s *vwStep) []byte {
	name := "LOCK"
	if s.Op == "unlock" {
		name = "UNLOCK"
	}
	k, l := vKey(s.Key), vKey(s.Lid)
	args := []string{name, hex.EncodeToString(k[:]), "LOCK_ID", hex.EncodeToString(l[:]),
		"TIMEOUT", strconv.Itoa(s.To), "EXPRIED", strconv.Itoa(s.Ex)}
	cnt, rc := s.Cnt, s.Rc
	if cnt > 0 {
		cnt++
	}
	if rc > 0 {
		rc++
	}
	args = append(args, "COUNT", strconv.Itoa(cnt), "RCOUNT", strconv.Itoa(rc))
	if s.Will {
		args = append(args, "WILL", "1")
	}
	if s.Data != "" {
		args = append(args, "SET", s.Data)
	}
	return vwResp(args)
}

func vwResp(args []string) []byte {
	var b bytes.Buffer
	fmt.Fprintf(&b, "*%d\r\n", len(args))
	for _, a := range args {
		fmt.Fprintf(&b, "$%d\r\n%s\r\n", len(a), a)
	}
	return b.Bytes()
}

func (r *vwRun) request(s *vwStep) {
	c := r.conns[s.C]
	if c == nil || c.closing || c.cliClosed {
		r.emit(map[string]interface{}{"e": "wskip", "why": "connection not open", "c": s.C, "t": r.w.now})
		return
	}
	if c.kind == "text" && atomic.LoadInt64(&c.replies) < c.sent {
		r.emit(map[string]interface{}{"e": "wskip", "why": "text connection is waiting for a reply", "c": s.C, "t": r.w.now})
		return
	}
	// text: the DbId of a text request is the connection's selected database
	if c.kind == "text" && s.Db != c.db {
		b0 := atomic.LoadInt64(&c.replies)
		r.emit(map[string]interface{}{"e": "wsel", "c": c.id, "db": s.Db, "t": r.w.now})
		if !r.write(c, vwResp([]string{"SELECT", strconv.Itoa(s.Db)})) {
			return
		}
		c.sent++
		c.db = s.Db
		for dl := time.Now().Add(60 * time.Second); atomic.LoadInt64(&c.replies) <= b0 && time.Now().Before(dl); {
			select {
			case <-c.readerEnd:
				dl = time.Now()
			default:
			}
			time.Sleep(200 * time.Microsecond)
		}
	}
	r.mark(fmt.Sprintf("reply to %s of connection %d never arrived", strings.ToUpper(s.Op), c.id))
	r.nextId++
	id := r.nextId
	cmd := "L"
	ct := uint8(protocol.COMMAND_LOCK)
	if s.Op == "unlock" {
		cmd = "U"
		ct = protocol.COMMAND_UNLOCK
	}
	r.emit(map[string]interface{}{"e": "wreq", "id": id, "c": c.id, "kind": c.kind, "cmd": cmd, "will": s.Will, "key": s.Key, "lid": s.Lid,
		"to": s.To, "ex": s.Ex, "cnt": s.Cnt, "rc": s.Rc, "db": s.Db, "data": s.Data != "", "t": r.w.now})
	if s.Will {
		c.wills = append(c.wills, vwWill{id: id, ct: ct, key: vKey(s.Key), lid: vKey(s.Lid)})
	}
	if c.kind == "bin" {
		wct := ct
		if s.Will {
			wct = ct + 7
		}
		fr := vwLockFrame(wct, id, s)
		pb, pid := r.pingFrame()
		ok := false
		if s.Batch {
			ok = r.write(c, append(fr, pb...))
		} else {
			ok = r.write(c, fr) && r.write(c, pb)
		}
		if ok {
			r.awaitPong(c, pid)
			if s.Batch {
				// replies of a batch are buffered and flushed after the batch; the PONG is written directly and
				// can overtake them: a second, separate PING is answered only after the flush
				r.ping(c)
			}
		}
		r.settle()
		return
	}
	// text
	before := atomic.LoadInt64(&c.replies)
	if !r.write(c, vwTextCommand(s)) {
		return
	}
	c.sent++
	deadline := time.Now().Add(600 * time.Second) // the watchdog fires long before
	for {
		if atomic.LoadInt64(&c.replies) > before {
			break
		}
		if cmd == "L" && !s.Will && r.hasWaiter(s.Key, s.Lid) {
			r.emit(map[string]interface{}{"e": "wqueued", "id": id, "c": c.id, "t": r.w.now})
			break
		}
		select {
		case <-c.readerEnd:
			deadline = time.Now()
		default:
		}
		if time.Now().After(deadline) {
			break
		}
		time.Sleep(300 * time.Microsecond)
	}
	if c.proto == nil {
		c.proto = c.stream.protocol
	}
	r.settle()
}

func (r *vwRun) doInit(s *vwStep) {
	c := r.conns[s.C]
	if c == nil || c.closing || c.cliClosed || c.kind != "bin" {
		r.emit(map[string]interface{}{"e": "wskip", "why": "init needs an open binary connection", "c": s.C, "t": r.w.now})
		return
	}
	ic := &protocol.InitCommand{Command: protocol.Command{Magic: protocol.MAGIC, Version: protocol.VERSION, CommandType: protocol.COMMAND_INIT, RequestId: vReqId(2000000000 + int64(s.C))},
		ClientId: vwCid(s.Cid)}
	b := make([]byte, 64)
	_ = ic.Encode(b)
	if !r.write(c, b) {
		return
	}
	select {
	case res := <-c.initres:
		c.cid = s.Cid
		r.emit(map[string]interface{}{"e": "winit", "c": c.id, "cid": s.Cid, "res": res[0], "itype": res[1], "t": r.w.now})
	case <-c.readerEnd:
	case <-time.After(600 * time.Second):
		panic("vw: no INIT result")
	}
	r.ping(c)
}

// ---------------------------------------------------------------- disconnects
// (the gate hook itself is installed per scenario in TestVerifW)

// gates of wills that never reached the hook (e.g. an UNLOCK of a key without state returns before it) must
// not outlive the disconnect: a later ordinary request with the same (type, key, LockId) would park forever
func (r *vwRun) dropGates(c int) {
	r.gmu.Lock()
	for k, g := range r.gates {
		if g.c == c {
			delete(r.gates, k)
		}
	}
	r.gmu.Unlock()
}

func (r *vwRun) textBusy(c *vwConn) bool {
	return c.kind == "text" && atomic.LoadInt64(&c.replies) < c.sent
}

// waitClosedOrParked: after a close was initiated (or a parked will was released) wait until the
// handler finished or the next gated will parked.
var vwHung int32 // disconnects that did not finish in this process: after a few, stop waiting that long

func vwLimit(limit time.Duration) time.Duration {
	if atomic.LoadInt32(&vwHung) >= 3 {
		return 3 * time.Second
	}
	return limit
}

func (r *vwRun) waitClosedOrParked(c *vwConn, limit time.Duration) {
	limit = vwLimit(limit)
	r.mark(fmt.Sprintf("Close() of connection %d did not return", c.id))
	select {
	case <-c.stream.closedWaiter:
		r.dropGates(c.id)
		if !c.closed {
			c.closed = true
			r.settle()
			r.emit(map[string]interface{}{"e": "wclosed", "c": c.id, "t": r.w.now})
		}
	case id := <-c.parked:
		r.settle()
		c.parked <- id // keep it for resume
		r.emit(map[string]interface{}{"e": "wpark", "c": c.id, "id": id, "t": r.w.now})
	case <-time.After(limit):
		if !c.hungRep {
			c.hungRep = true
			atomic.AddInt32(&vwHung, 1)
			r.settle()
			r.emit(map[string]interface{}{"e": "wclosehung", "c": c.id, "t": r.w.now})
		}
	}
}

func (r *vwRun) doClose(s *vwStep) {
	c := r.conns[s.C]
	if c == nil || c.closing {
		r.emit(map[string]interface{}{"e": "wskip", "why": "not open", "c": s.C, "t": r.w.now})
		return
	}
	how := s.How
	if how == "" {
		how = "client"
	}
	// the state right before the disconnect (baseline of the will-effect clauses)
	r.emit(r.snapshot(false))
	busy := r.textBusy(c)
	if busy && how == "error" {
		how = "client" // the handler is not reading: a malformed frame could not even be delivered
	}
	if s.Gate && len(c.wills) > 0 && c.kind == "bin" {
		c.gated = true
		r.gmu.Lock()
		for _, wl := range c.wills {
			r.gates[vwGateKey{rid: vReqId(wl.id)}] = &vwGate{c: c.id, id: wl.id}
		}
		r.gmu.Unlock()
	}
	r.emit(map[string]interface{}{"e": "wclose", "c": c.id, "how": how, "busy": busy, "gate": c.gated, "t": r.w.now})
	c.closing = true
	switch how {
	case "client":
		c.cliClosed = true
		_ = c.cli.Close()
	case "server":
		_ = c.stream.Close()
	case "error":
		if c.kind == "bin" {
			bad := make([]byte, 64)
			bad[0], bad[1], bad[2] = 0x00, 0x01, 0xEE
			r.write(c, bad)
		} else {
			r.write(c, []byte("PROTOCOL-ERROR\r\n"))
		}
	}
	if busy {
		return // the handler goroutine is blocked in the pending request; the close is noticed when that ends
	}
	r.waitClosedOrParked(c, 45*time.Second)
	if how != "client" {
		select {
		case <-c.readerEnd:
		case <-time.After(5 * time.Second):
		}
	}
}

func (r *vwRun) doResume(s *vwStep) {
	c := r.conns[s.C]
	if c == nil || !c.closing || c.closed {
		r.emit(map[string]interface{}{"e": "wskip", "why": "nothing to resume", "c": s.C, "t": r.w.now})
		return
	}
	select {
	case id := <-c.parked:
		if s.N > 0 {
			// the scenario names the will it wants to let run (ordinal among the connection's wills); a will that
			// never reaches the hook (UNLOCK of a key without state) has run already: leave the next one parked
			ord := 0
			for i, wl := range c.wills {
				if wl.id == id {
					ord = i + 1
				}
			}
			if ord > s.N {
				c.parked <- id
				r.emit(map[string]interface{}{"e": "wskip", "why": "that will has run already", "c": s.C, "t": r.w.now})
				return
			}
		}
		r.emit(map[string]interface{}{"e": "wresume", "c": c.id, "id": id, "t": r.w.now})
		r.releaseGate(id)
		r.waitClosedOrParked(c, 45*time.Second)
	default:
		r.emit(map[string]interface{}{"e": "wskip", "why": "no will parked", "c": s.C, "t": r.w.now})
	}
}

var vwReleases sync.Map // gate id -> chan

func (r *vwRun) releaseGate(id int64) {
	if ch, ok := vwReleases.Load(id); ok {
		close(ch.(chan struct{}))
		vwReleases.Delete(id)
	}
}

// poll: closes that could not complete when they were initiated (text handler blocked in a request).
// block=false never waits, except once per connection right after the blocking request was answered.
func (r *vwRun) pollCloses(block bool) {
	for _, id := range r.order {
		c := r.conns[id]
		if !c.closing || c.closed {
			continue
		}
		if len(c.parked) > 0 {
			continue // parked at a gate by design
		}
		limit := time.Duration(0)
		if block {
			r.mark(fmt.Sprintf("Close() of connection %d did not return", c.id))
			limit = vwLimit(45 * time.Second)
		} else if tp, ok := c.proto.(*TextServerProtocol); ok && !c.answered && tp.lockRequestId == [16]byte{} {
			c.answered = true
			limit = 20 * time.Second
		}
		done := false
		if limit == 0 {
			select {
			case <-c.stream.closedWaiter:
				done = true
			default:
			}
		} else {
			select {
			case <-c.stream.closedWaiter:
				done = true
			case <-time.After(limit):
			}
		}
		if done {
			c.closed = true
			r.dropGates(c.id)
			r.settle()
			r.emit(map[string]interface{}{"e": "wclosed", "c": c.id, "t": r.w.now})
		} else if block && !c.hungRep {
			c.hungRep = true
			atomic.AddInt32(&vwHung, 1)
			r.emit(map[string]interface{}{"e": "wclosehung", "c": c.id, "t": r.w.now})
		}
	}
}

func (r *vwRun) tick(n int) {
	for i := 0; i < n; i++ {
		r.mark("clock tick: a timeout / expiry sweep did not return")
		r.settle()
		r.w.Tick("te")
		r.settle()
		r.pollCloses(false)
	}
	r.emit(map[string]interface{}{"e": "wtick", "n": n, "t": r.w.now})
}

func (r *vwRun) closeAll() {
	// release every parked will, then close what is still open (client side), wait for every handler
	for _, id := range r.order {
		c := r.conns[id]
		if c.closing && !c.closed {
			r.dropGates(c.id)
			for len(c.parked) > 0 {
				gid := <-c.parked
				r.emit(map[string]interface{}{"e": "wresume", "c": c.id, "id": gid, "t": r.w.now})
				r.releaseGate(gid)
				r.waitClosedOrParked(c, 45*time.Second)
			}
		}
	}
	r.emit(map[string]interface{}{"e": "wcloseall", "t": r.w.now})
	for _, id := range r.order {
		c := r.conns[id]
		if !c.closing {
			st := vwStep{Op: "close", C: id, How: "client"}
			r.doClose(&st)
		}
	}
}

func (r *vwRun) drain(n int) {
	r.tick(n)
	r.pollCloses(true)
	r.emit(r.snapshot(false))
	r.emit(map[string]interface{}{"e": "wdrain", "t": r.w.now})
	did := int64(900000000)
	for round := 0; round < 40; round++ {
		unlock := r.lockAll()
		snap := r.w.Snapshot()
		unlock()
		keys := snap["keys"].([]vKeySnap)
		any := false
		for _, k := range keys {
			for _, h := range k.Holders {
				any = true
				u := &vReq{Op: "unlock", Conn: 99, Db: k.Db, Key: k.Key, Lid: h.Lid, Rcount: 0}
				did++
				r.mark("drain: unlock of a remaining hold did not return")
				r.w.curReq = did
				r.w.Issue(did, u)
				r.w.curReq = -1
			}
		}
		if !any {
			break
		}
	}
	r.tick(18)
	r.emit(r.snapshot(true))
}

// Several binary connections write one request each at the same moment (one goroutine per connection), while the client
// of connection s.C reads slowly: the replies these requests cause for s.C (grants of its queued requests) are produced by
// DIFFERENT goroutines that meet at s.C's write path while one of them is inside a slow write.
func (r *vwRun) parallel(s *vwStep) {
	target := r.conns[s.C]
	type job struct {
		c   *vwConn
		buf []byte
		pid int64
	}
	jobs := []job{}
	used := map[int]bool{}
	for i := range s.Group {
		g := &s.Group[i]
		c := r.conns[g.C]
		if c == nil || c.closing || c.cliClosed || c.kind != "bin" || used[g.C] || g.C == s.C {
			r.emit(map[string]interface{}{"e": "wskip", "why": "par: connection not usable", "c": g.C, "t": r.w.now})
			continue
		}
		used[g.C] = true
		r.nextId++
		id := r.nextId
		cmd, ct := "L", uint8(protocol.COMMAND_LOCK)
		if g.Op == "unlock" {
			cmd, ct = "U", protocol.COMMAND_UNLOCK
		}
		r.emit(map[string]interface{}{"e": "wreq", "id": id, "c": c.id, "kind": c.kind, "cmd": cmd, "will": false, "key": g.Key, "lid": g.Lid,
			"to": g.To, "ex": g.Ex, "cnt": g.Cnt, "rc": g.Rc, "db": g.Db, "data": false, "t": r.w.now})
		pb, pid := r.pingFrame()
		jobs = append(jobs, job{c, append(vwLockFrame(ct, id, g), pb...), pid})
	}
	if target != nil && s.Stall > 0 {
		atomic.StoreInt64(&target.stallMs, int64(s.Stall))
	}
	r.mark("a request of a parallel step was never answered")
	var wg sync.WaitGroup
	start := make(chan struct{})
	oks := make([]bool, len(jobs))
	for i := range jobs {
		wg.Add(1)
		go func(i int) {
			defer wg.Done()
			<-start
			oks[i] = r.write(jobs[i].c, jobs[i].buf)
		}(i)
	}
	close(start)
	wg.Wait()
	for i := range jobs {
		if oks[i] {
			r.awaitPong(jobs[i].c, jobs[i].pid)
		}
	}
	if target != nil {
		atomic.StoreInt64(&target.stallMs, 0)
		if !target.closing && !target.cliClosed && target.kind == "bin" {
			r.ping(target)
		}
	}
	r.settle()
}

// the private command stack / locked free queue of every open connection (read while the connections are idle); `n` of the
// step is the index the CmdPool model predicts for connection `c` (scaled), compared outside - never a verdict
func (r *vwRun) poolEvent(s *vwStep) {
	r.settle()
	idx := map[string]int{}
	lk := map[string]int{}
	for _, id := range r.order {
		c := r.conns[id]
		if c == nil || c.closing || c.cliClosed || c.proto == nil {
			continue
		}
		switch sp := c.proto.(type) {
		case *BinaryServerProtocol:
			sp.glock.Lock()
			idx[strconv.Itoa(id)], lk[strconv.Itoa(id)] = sp.freeCommandIndex, int(sp.lockedFreeCommands.Len())
			sp.glock.Unlock()
		case *TextServerProtocol:
			sp.glock.Lock()
			idx[strconv.Itoa(id)], lk[strconv.Itoa(id)] = sp.freeCommandIndex, int(sp.lockedFreeCommands.Len())
			sp.glock.Unlock()
		}
	}
	r.emit(map[string]interface{}{"e": "wpool", "c": s.C, "want": s.N, "priv": idx, "locked": lk, "t": r.w.now})
}

// ---------------------------------------------------------------- the interpreter

func (r *vwRun) run(sc *vwScenario) {
	for i := range sc.Steps {
		s := &sc.Steps[i]
		atomic.StoreInt32(&r.stepI, int32(i))
		atomic.StoreInt32(&r.stepC, int32(s.C))
		r.mark("step " + s.Op + " did not finish")
		switch s.Op {
		case "conn":
			r.connect(s.C, s.Kind)
		case "init":
			r.doInit(s)
		case "lock", "unlock":
			r.request(s)
		case "close":
			r.doClose(s)
		case "resume":
			r.doResume(s)
		case "waitclosed":
			if c := r.conns[s.C]; c != nil && c.closing && !c.closed && len(c.parked) == 0 && !r.textBusy(c) {
				r.waitClosedOrParked(c, 45*time.Second)
			}
		case "tick":
			n := s.N
			if n <= 0 {
				n = 1
			}
			r.tick(n)
		case "snap":
			ev := r.snapshot(false)
			if s.Tag != "" {
				ev["tag"] = s.Tag
			}
			r.emit(ev)
		case "settle":
			r.tick(s.N)
			r.emit(r.snapshot(false))
		case "par":
			r.parallel(s)
		case "pool":
			r.poolEvent(s)
		case "closeall":
			r.closeAll()
		case "drain":
			r.drain(s.N)
		default:
			panic("vw: unknown op " + s.Op)
		}
		r.pollCloses(false)
	}
}

func TestVerifW(t *testing.T) {
	in, out := vEnvInOut(t)
	if in == "" {
		return
	}
	debug.SetMaxStack(64 << 20) // a reply-routing recursion must die quickly, not after growing a 1 GB stack
	var scs []vwScenario
	vReadJSONLines(in, func(line []byte) {
		var s vwScenario
		vMustUnmarshal(line, &s)
		scs = append(scs, s)
	})
	tr := vOpenTrace(out)
	defer tr.Close()
	base := 0
	if v := os.Getenv("VERIF_IDX0"); v != "" {
		base, _ = strconv.Atoi(v)
	}
	limit := 20 * time.Second
	if v := os.Getenv("VERIF_STEP_DEADLINE"); v != "" {
		if n, err := strconv.Atoi(v); err == nil && n > 0 {
			limit = time.Duration(n) * time.Second
		}
	}
	for i, sc := range scs {
		sc := sc
		r := &vwRun{tr: tr, conns: map[int]*vwConn{}, gates: map[vwGateKey]*vwGate{}}
		vwCidPos = (base + i) % 16
		if sc.CidPos != nil {
			vwCidPos = ((*sc.CidPos % 16) + 16) % 16
		}
		r.mark("building the server")
		done := make(chan struct{})
		// the history runs on its own goroutine: every wait for the code under test (a reply, a PONG, Close(), a
		// sweep) is watched from here; a step normally takes microseconds
		go func() {
			defer close(done)
			w := vNewWorld(t, vWorldCfg{}, tr, 1000)
			w.db(0)
			r.w, r.srv = w, NewServer(w.slock)
			vwInstallHook(r)
			r.emit(map[string]interface{}{"e": "begin", "name": sc.Name, "idx": base + i, "t": int64(1000)})
			r.run(&sc)
			r.mark("tearing the server down")
			r.emit(map[string]interface{}{"e": "end", "name": sc.Name, "idx": base + i, "t": w.now, "complete": sc.Complete})
			VerifPointFunc = nil
			w.Close(true)
		}()
		hung := false
		for !hung {
			select {
			case <-done:
			case <-time.After(100 * time.Millisecond):
				if time.Since(time.Unix(0, atomic.LoadInt64(&r.since))) > limit {
					hung = true
				}
				continue
			}
			break
		}
		if hung {
			what, _ := r.stage.Load().(string)
			frame, state, blocked := vwBlockedFrames()
			atomic.StoreInt32(&r.dead, 1)
			ev := map[string]interface{}{"e": "hang", "step": int(atomic.LoadInt32(&r.stepI)), "conn": int(atomic.LoadInt32(&r.stepC)),
				"what": what, "kind": map[bool]string{true: "close", false: "reply"}[strings.HasPrefix(what, "Close()")], "frame": frame, "state": state, "blocked": blocked, "deadline_s": int(limit / time.Second), "t": int64(0)}
			tr.Emit(ev)
			tr.Emit(map[string]interface{}{"e": "end", "name": sc.Name, "idx": base + i, "t": int64(0), "complete": false, "hung": true})
			tr.mu.Lock()
			tr.w.Flush()
			tr.mu.Unlock()
			VerifPointFunc = nil
			// the world is abandoned (its goroutines leak); the rest of the shard is run by a fresh process
			fmt.Printf("VW-HANG-STOP %d %s\n", base+i, sc.Name)
			return
		}
	}
}

func vwInstallHook(r *vwRun) {
	VerifPointFunc = func(name string, a interface{}, b interface{}) {
		if name != "lock.mgr.got" && name != "unlock.mgr.got" {
			return
		}
		cmd, ok := b.(*protocol.LockCommand)
		if !ok || cmd == nil {
			return
		}
		k := vwGateKey{rid: cmd.RequestId}
		r.gmu.Lock()
		g := r.gates[k]
		if g != nil {
			delete(r.gates, k)
		}
		r.gmu.Unlock()
		if g == nil {
			return
		}
		ch := make(chan struct{})
		vwReleases.Store(g.id, ch)
		r.conns[g.c].parked <- g.id
		<-ch
	}
}

// vwBlockedFrames: goroutine dump reduced to the goroutines that are blocked inside github.com/snower/slock code
// (idle readers and the background loops of the server are left out).  Returns the first blocked non-harness frame
// (the driver's own goroutine first: sweeps and drains run on it), its wait state, and up to six "state @ frame" lines.
func vwBlockedFrames() (string, string, []string) {
	buf := make([]byte, 16<<20)
	buf = buf[:runtime.Stack(buf, true)]
	harness := regexp.MustCompile(`^(\(\*v[wWCT]|vw|v[A-Z]|TestVerif)`)
	idle := []string{"net.(*pipe).read", "AofChannel).Run", "TransparencyManager).Run", "handleFreeCollect", "checkProtocolFreeCommandQueue",
		"SubscribeManager)", "ReplicationManager)", "ArbiterManager)", "runtime.Stack"}
	type blk struct {
		state, frame string
		driver       bool
	}
	var found []blk
	for _, g := range strings.Split(string(buf), "\n\n") {
		lines := strings.Split(g, "\n")
		if len(lines) < 2 || !strings.HasPrefix(lines[0], "goroutine ") {
			continue
		}
		skip := false
		for _, k := range idle {
			if strings.Contains(g, k) {
				skip = true
			}
		}
		if skip {
			continue
		}
		state := ""
		if a, b := strings.Index(lines[0], "["), strings.Index(lines[0], "]"); a >= 0 && b > a {
			state = strings.Split(lines[0][a+1:b], ",")[0]
		}
		frame := ""
		for _, l := range lines[1:] {
			const pfx = "github.com/snower/slock/server."
			if !strings.HasPrefix(l, pfx) {
				continue
			}
			fn := l[len(pfx):]
			if k := strings.LastIndex(fn, "("); k > 0 {
				fn = fn[:k]
			}
			if harness.MatchString(fn) {
				continue
			}
			frame = fn
			break
		}
		if frame == "" {
			continue
		}
		found = append(found, blk{state, frame, strings.Contains(g, "(*vwRun).run")})
	}
	sort.SliceStable(found, func(i, j int) bool { return found[i].driver && !found[j].driver })
	out := []string{}
	for i, b := range found {
		if i < 6 {
			out = append(out, b.state+" @ "+b.frame)
		}
	}
	if len(found) == 0 {
		return "none", "none", out
	}
	return found[0].frame, found[0].state, out
}

//go:build verif

package server

// Engine C: gated concurrent replay.  A "par" step of a scenario runs several client requests
// and (optionally) the sweepers of one clock tick as separate goroutines ("actors").  Every
// actor parks at gates - the harness reply callback (which the code calls right after
// releasing the shard mutex) and the verifPoint hooks H2..H5 - and a single scheduler resumes
// exactly one actor at a time following the schedule of the scenario (a list of integers, each
// picks among the currently runnable actors; when the list is exhausted the lowest actor runs
// to completion).  Because one actor runs at a time and no gate lies inside a shard-mutex
// section, the order of emitted events is the order of the critical sections.

import (
	"fmt"
	"github.com/snower/slock/protocol"
	"runtime"
	"sync"
	"testing"
	"time"
)

type vActor struct {
	id     int
	resume chan struct{}
	state  int // 0 new, 1 running, 2 parked, 3 done
	where  string
	body   func()
	reqId  int64 // request this actor issues (0 = none: sweeper, role change)
}

type vSched struct {
	w       *vWorld
	signal  chan *vActor
	mu      sync.Mutex
	byGid   map[uint64]*vActor
	running map[*vActor]bool
}

func vGoroutineID() uint64 {
	var buf [64]byte
	n := runtime.Stack(buf[:], false)
	// "goroutine 123 [running]:..."
	var id uint64
	for _, c := range buf[10:n] {
		if c < '0' || c > '9' {
			break
		}
		id = id*10 + uint64(c-'0')
	}
	return id
}

// gate parks the calling actor; goroutines that are not actors (AOF channel, executors) pass through.
func (s *vSched) gate(where string) {
	s.mu.Lock()
	a := s.byGid[vGoroutineID()]
	s.mu.Unlock()
	if a == nil {
		return
	}
	a.where = where
	s.signal <- a
	<-a.resume
	// the request goes on from its entry yield point (before it takes the shard mutex): whatever role the node
	// has from here on is the role its whole critical section sees (role changes hold every shard mutex)
	if a.reqId != 0 && (where == "lock.mgr.got" || where == "unlock.mgr.got") {
		s.w.tr.Emit(map[string]interface{}{"e": "pass", "id": a.reqId, "at": where})
	}
}

// release lets actor a run until it parks at its next gate or finishes.  If it does neither within 1.5 s it is
// blocked on something only another actor can undo (it spins on the fast-slot lock or waits for a mutex): it is
// left running and the caller goes on scheduling; its signal is consumed whenever it arrives.
func (s *vSched) release(a *vActor) string {
	if a == nil || a.state == 3 || a.state == 1 {
		return ""
	}
	if s.running == nil {
		s.running = map[*vActor]bool{}
	}
	if a.state == 0 {
		a.state = 1
		s.running[a] = true
		go func(a *vActor) {
			s.mu.Lock()
			s.byGid[vGoroutineID()] = a
			s.mu.Unlock()
			a.body()
			a.where = "<end>"
			s.signal <- a
		}(a)
	} else {
		a.state = 1
		s.running[a] = true
		a.resume <- struct{}{}
	}
	timeout := time.After(1500 * time.Millisecond)
	for s.running[a] {
		select {
		case x := <-s.signal:
			s.settle(x)
		case <-timeout:
			return s.drain()
		}
	}
	return s.drain()
}

func (s *vSched) settle(x *vActor) {
	delete(s.running, x)
	if x.where == "<end>" {
		x.state = 3
	} else {
		x.state = 2
	}
}

// drain gives actors that were unblocked by the last step a moment to reach their gate
func (s *vSched) drain() string {
	for len(s.running) > 0 {
		select {
		case x := <-s.signal:
			s.settle(x)
		case <-time.After(3 * time.Millisecond):
			return ""
		}
	}
	return ""
}

// waitAll waits until every running actor has parked or finished (used when nothing else is runnable)
func (s *vSched) waitAll() string {
	for len(s.running) > 0 {
		select {
		case x := <-s.signal:
			s.settle(x)
		case <-time.After(20 * time.Second):
			for a := range s.running {
				return fmt.Sprintf("actor %d did not reach a gate or finish within 20s (last gate %q)", a.id, a.where)
			}
		}
	}
	return ""
}

// runPar executes the actors under the schedule; returns an error string on a stuck run.
func (s *vSched) runPar(actors []*vActor, sched []int) string {
	i := 0
	for {
		var ready []*vActor
		for _, a := range actors {
			if a.state == 0 || a.state == 2 {
				ready = append(ready, a)
			}
		}
		if len(ready) == 0 {
			if len(s.running) == 0 {
				return ""
			}
			if e := s.waitAll(); e != "" {
				return e
			}
			continue
		}
		pick := ready[0]
		if i < len(sched) {
			k := sched[i]
			if k < 0 {
				k = -k
			}
			pick = ready[k%len(ready)]
			i++
		}
		s.release(pick)
	}
}

type vParStep struct {
	Ops   []vReq `json:"ops"`
	Sched []int  `json:"sched"`
}

func (w *vWorld) runParStep(nextId *int64, ops []vReq, sched []int, extraGates []string, hold ...int) {
	extra := map[string]bool{}
	for _, g := range extraGates {
		extra[g] = true
	}
	s := &vSched{w: w, signal: make(chan *vActor), byGid: map[uint64]*vActor{}}
	var actors []*vActor
	w.tr.Emit(map[string]interface{}{"e": "par", "n": len(ops), "t": w.now})
	ticked := false
	for _, r := range ops {
		if r.Op == "tick" && !ticked {
			ticked = true
			w.now++
			for _, db := range w.slock.dbs {
				if db != nil {
					db.currentTime = w.now
				}
			}
		}
	}
	for idx := range ops {
		r := &ops[idx]
		switch r.Op {
		case "lock", "unlock":
			if r.Op == "lock" && r.NoDupWait && w.hasLiveWaiter(r) {
				continue
			}
			id := *nextId
			*nextId++
			w.tr.Emit(w.reqEvent(id, r))
			rr := r
			a := &vActor{id: len(actors), resume: make(chan struct{}), reqId: id}
			a.body = func() {
				w.Issue(id, rr)
				w.tr.Emit(map[string]interface{}{"e": "ret", "id": id, "t": w.sec(), "ms": w.ms()})
			}
			actors = append(actors, a)
		case "status":
			// role change of the node racing the requests of this phase (SLock.updateState: every shard mutex held)
			st := r.Status
			a := &vActor{id: len(actors), resume: make(chan struct{})}
			a.body = func() { w.setStatus(st) }
			actors = append(actors, a)
		case "tick":
			// two sweeper actors, as checkTimeOut / checkExpried run concurrently in the server
			at := &vActor{id: len(actors), resume: make(chan struct{})}
			at.body = func() {
				for _, db := range w.slock.dbs {
					if db == nil {
						continue
					}
					q := w.sweepQueues(db)
					ct := db.checkTimeoutTime
					db.checkTimeoutTime = w.now + 1
					for ; ct <= w.now; ct++ {
						for i := uint16(0); i < db.managerMaxGlocks; i++ {
							db.checkTimeTimeOut(ct, w.now, i, q.to[i])
						}
					}
				}
			}
			actors = append(actors, at)
			ae := &vActor{id: len(actors), resume: make(chan struct{})}
			ae.body = func() {
				for _, db := range w.slock.dbs {
					if db == nil {
						continue
					}
					q := w.sweepQueues(db)
					ce := db.checkExpriedTime
					db.checkExpriedTime = w.now + 1
					for ; ce <= w.now; ce++ {
						for i := uint16(0); i < db.managerMaxGlocks; i++ {
							db.checkTimeExpried(ce, w.now, i, q.ex[i])
						}
					}
				}
			}
			actors = append(actors, ae)
		}
	}
	w.gate = func(w *vWorld, ev map[string]interface{}) {
		w.tr.Emit(ev)
		s.gate("reply")
	}
	VerifPointFunc = func(name string, a interface{}, b interface{}) {
		// only the lock-engine yield points are gates of this engine; the AOF hooks fire on background goroutines
		switch name {
		case "lock.mgr.got", "unlock.mgr.got", "mgr.published", "sweep.timeout.collected", "sweep.expried.collected", "wake.enter", "wake.iter":
			s.gate(name)
		default:
			if extra[name] {
				s.gate(name)
			}
		}
	}
	errs := ""
	if len(hold) > 0 {
		// "hold" actors (indices into ops that became request actors, in order) run to their FIRST yield point and
		// stay parked there while everybody else runs to completion; then they go on.  This is how a request is kept
		// between its key-manager lookup and the shard mutex while timers fire and other requests come and go.
		held := map[*vActor]bool{}
		for _, h := range hold {
			if h >= 0 && h < len(actors) {
				held[actors[h]] = true
				s.release(actors[h])
			}
		}
		var rest []*vActor
		for _, a := range actors {
			if !held[a] {
				rest = append(rest, a)
			}
		}
		errs = s.runPar(rest, sched)
		if errs == "" {
			errs = s.runPar(actors, nil)
		}
	} else {
		errs = s.runPar(actors, sched)
	}
	VerifPointFunc = nil
	w.gate = nil
	if errs != "" {
		w.tr.Emit(map[string]interface{}{"e": "stuck", "why": errs, "t": w.now})
		panic("engine C stuck: " + errs)
	}
	if ticked {
		w.tr.Emit(map[string]interface{}{"e": "tock", "t": w.now})
	}
	w.tr.Emit(map[string]interface{}{"e": "parend", "t": w.now})
}

// runFreeStep issues the requests of a phase from really concurrent goroutines (no gates, one start barrier): the only
// engine step in which code OUTSIDE the gated yield points (database creation, connection set-up) races.  Replies are
// recorded in the order the callbacks run, so the phases use requests whose verdict does not depend on that order
// (no-wait locks of distinct LockIds).
func (w *vWorld) runFreeStep(nextId *int64, ops []vReq) {
	w.tr.Emit(map[string]interface{}{"e": "par", "n": len(ops), "t": w.now, "free": true})
	type job struct {
		id  int64
		r   *vReq
		c   *vConn
		cmd *protocol.LockCommand
	}
	var jobs []job
	for idx := range ops {
		r := &ops[idx]
		if r.Op != "lock" && r.Op != "unlock" {
			continue
		}
		id := *nextId
		*nextId++
		w.tr.Emit(w.reqEvent(id, r))
		jobs = append(jobs, job{id, r, w.conn(r.Conn), w.buildCommand(id, r)})
	}
	start := make(chan struct{})
	var wg sync.WaitGroup
	for _, j := range jobs {
		wg.Add(1)
		go func(j job) {
			defer wg.Done()
			<-start
			// what the protocol front ends do: look the database up, create it when it is not there
			db := w.slock.dbs[uint8(j.r.Db)]
			if db == nil {
				db = w.slock.GetOrNewDB(uint8(j.r.Db))
			}
			if !w.cfg.RealClock && db.currentTime != w.now {
				// a database born in this phase starts on the virtual clock (every racer writes the same values)
				db.currentTime = w.now
				db.checkTimeoutTime = w.now + 1
				db.checkExpriedTime = w.now + 1
			}
			if j.cmd.CommandType == protocol.COMMAND_LOCK {
				_ = db.Lock(j.c, j.cmd, 0)
			} else {
				_ = db.UnLock(j.c, j.cmd, 0)
			}
			w.tr.Emit(map[string]interface{}{"e": "ret", "id": j.id, "t": w.sec(), "ms": w.ms()})
		}(j)
	}
	close(start)
	wg.Wait()
	w.tr.Emit(map[string]interface{}{"e": "parend", "t": w.now})
}

type vScenarioC struct {
	Name     string    `json:"name"`
	Cfg      vWorldCfg `json:"cfg"`
	Steps    []vStepC  `json:"steps"`
	Complete bool      `json:"complete"`
}

type vStepC struct {
	vReq
	Ops    []vReq          `json:"ops"`
	Sched  []int           `json:"sched"`
	Actors map[string]vReq `json:"actors"`
	Script []string        `json:"script"`
	Gates  []string        `json:"gates"`
	Free   bool            `json:"free"`
	Hold   []int           `json:"hold"`
}

// runScript executes a TLC-generated schedule of LockEngineFine: every script element names the actor whose
// next critical section runs ("c<i>" client, "T"/"E" sweepers, "clock" = advance the clock and start the
// sweepers of that second).  One element releases the actor until its next section-boundary gate (reply,
// sweep.*.collected, wake.iter) or its end; an element naming a finished or unknown actor is skipped, and what is
// left at the end runs to completion - the monitors judge whatever happened.
func (w *vWorld) runScript(nextId *int64, actorsReq map[string]vReq, script []string) {
	s := &vSched{w: w, signal: make(chan *vActor), byGid: map[uint64]*vActor{}}
	named := map[string]*vActor{}
	var all []*vActor
	w.tr.Emit(map[string]interface{}{"e": "par", "n": len(actorsReq), "t": w.now, "script": len(script)})
	w.gate = func(w *vWorld, ev map[string]interface{}) {
		w.tr.Emit(ev)
		s.gate("reply")
	}
	VerifPointFunc = func(name string, a interface{}, b interface{}) {
		switch name {
		case "sweep.timeout.collected", "sweep.expried.collected", "wake.iter":
			s.gate(name)
		}
	}
	stuck := ""
	release := func(a *vActor) {
		if stuck == "" {
			s.release(a)
		}
	}
	finish := func(a *vActor) {
		for a != nil && a.state != 3 && stuck == "" {
			if a.state == 1 {
				stuck = s.waitAll()
				continue
			}
			s.release(a)
		}
	}
	ticked := false
	for _, el := range script {
		switch el {
		case "clock":
			finish(named["T"])
			finish(named["E"])
			ticked = true
			w.now++
			for _, db := range w.slock.dbs {
				if db != nil {
					db.currentTime = w.now
				}
			}
			at := &vActor{id: len(all), resume: make(chan struct{})}
			at.body = func() {
				for _, db := range w.slock.dbs {
					if db == nil {
						continue
					}
					q := w.sweepQueues(db)
					ct := db.checkTimeoutTime
					db.checkTimeoutTime = w.now + 1
					for ; ct <= w.now; ct++ {
						for i := uint16(0); i < db.managerMaxGlocks; i++ {
							db.checkTimeTimeOut(ct, w.now, i, q.to[i])
						}
					}
				}
			}
			ae := &vActor{id: len(all) + 1, resume: make(chan struct{})}
			ae.body = func() {
				for _, db := range w.slock.dbs {
					if db == nil {
						continue
					}
					q := w.sweepQueues(db)
					ce := db.checkExpriedTime
					db.checkExpriedTime = w.now + 1
					for ; ce <= w.now; ce++ {
						for i := uint16(0); i < db.managerMaxGlocks; i++ {
							db.checkTimeExpried(ce, w.now, i, q.ex[i])
						}
					}
				}
			}
			named["T"], named["E"] = at, ae
			all = append(all, at, ae)
		default:
			a := named[el]
			if a == nil {
				r, ok := actorsReq[el]
				if !ok {
					continue
				}
				if r.Op == "lock" && r.NoDupWait && w.hasLiveWaiter(&r) {
					continue
				}
				id := *nextId
				*nextId++
				rr := r
				w.tr.Emit(w.reqEvent(id, &rr))
				a = &vActor{id: len(all), resume: make(chan struct{})}
				a.body = func() {
					w.Issue(id, &rr)
					w.tr.Emit(map[string]interface{}{"e": "ret", "id": id, "t": w.sec(), "ms": w.ms()})
				}
				named[el] = a
				all = append(all, a)
			}
			release(a)
		}
	}
	for _, a := range all {
		finish(a)
	}
	VerifPointFunc = nil
	w.gate = nil
	if stuck != "" {
		w.tr.Emit(map[string]interface{}{"e": "stuck", "why": stuck, "t": w.now})
		panic("engine C stuck: " + stuck)
	}
	if ticked {
		w.tr.Emit(map[string]interface{}{"e": "tock", "t": w.now})
	}
	w.tr.Emit(map[string]interface{}{"e": "parend", "t": w.now})
}

func TestVerifC(t *testing.T) {
	in, out := vEnvInOut(t)
	if in == "" {
		return
	}
	var scs []vScenarioC
	vReadJSONLines(in, func(line []byte) {
		var s vScenarioC
		vMustUnmarshal(line, &s)
		scs = append(scs, s)
	})
	tr := vOpenTrace(out)
	defer tr.Close()
	for i, sc := range scs {
		tr.Emit(map[string]interface{}{"e": "begin", "name": sc.Name, "idx": i, "t": int64(1000), "mode": "conc"})
		w := vNewWorld(t, sc.Cfg, tr, 1000)
		nextId := int64(1)
		for j := range sc.Steps {
			st := &sc.Steps[j]
			if st.Op == "par" {
				if st.Free {
					w.runFreeStep(&nextId, st.Ops)
				} else {
					w.runParStep(&nextId, st.Ops, st.Sched, st.Gates, st.Hold...)
				}
				w.tr.Emit(w.Snapshot())
			} else if st.Op == "fine" {
				w.runScript(&nextId, st.Actors, st.Script)
				w.tr.Emit(w.Snapshot())
			} else {
				w.runSeqStep(&nextId, &st.vReq, true)
			}
		}
		tr.Emit(map[string]interface{}{"e": "end", "name": sc.Name, "idx": i, "t": w.now, "complete": sc.Complete})
		w.Close(true)
	}
}

//go:build verif

package server

// Engine S: sequential scenario interpreter with a virtual clock.  Reads scenarios (ndjson, one
// scenario per line) from $VERIF_IN, replays each into a fresh leader SLock and writes the
// observed trace (ndjson) to $VERIF_OUT.  The trace is validated by TLC against the TLA+ monitors.

import (
	"bufio"
	"encoding/json"
	"fmt"
	"os"
	"runtime"
	"strings"
	"testing"
	"time"

	"github.com/snower/slock/protocol"
)

type vScenario struct {
	Name     string    `json:"name"`
	Cfg      vWorldCfg `json:"cfg"`
	Steps    []vReq    `json:"steps"`
	Snap     int       `json:"snap"` // 0: snapshot after every step, 1: only at drain/end
	Complete bool      `json:"complete"`
	Mode     string    `json:"mode"`
}

func vReadScenarios(path string) []vScenario {
	f, err := os.Open(path)
	if err != nil {
		panic(err)
	}
	defer f.Close()
	var out []vScenario
	sc := bufio.NewScanner(f)
	sc.Buffer(make([]byte, 1<<20), 1<<28)
	for sc.Scan() {
		line := sc.Bytes()
		if len(line) == 0 {
			continue
		}
		var s vScenario
		if err := json.Unmarshal(line, &s); err != nil {
			panic(err)
		}
		out = append(out, s)
	}
	return out
}

// runSeqStep executes one driver step.  A panic of the real code is recorded as an event (the history ends there:
// the shard mutex may still be held) - a crash on well-formed requests is a violation of C13.
// setStatus changes the role of the whole node the way SLock.updateState does (every db gets the new status under
// all of its shard mutexes), without the quit-leader flush waits.  The event is emitted while the mutexes of the
// last db are still held: every critical section that starts after the event sees the new role.
func (w *vWorld) setStatus(status int) {
	w.slock.glock.Lock()
	w.slock.state = uint8(status)
	emitted := false
	for _, db := range w.slock.dbs {
		if db != nil {
			for i := uint16(0); i < db.managerMaxGlocks; i++ {
				db.managerGlocks[i].LowPriorityLock()
			}
			db.status = uint8(status)
		}
	}
	w.tr.Emit(map[string]interface{}{"e": "status", "status": status, "t": w.sec()})
	emitted = true
	for _, db := range w.slock.dbs {
		if db != nil {
			for i := uint16(0); i < db.managerMaxGlocks; i++ {
				db.managerGlocks[i].LowPriorityUnlock()
			}
		}
	}
	_ = emitted
	w.slock.glock.Unlock()
}

func (w *vWorld) runSeqStep(nextId *int64, r *vReq, snapEvery bool) {
	if w.dead {
		return
	}
	defer func() {
		if x := recover(); x != nil {
			w.dead = true
			buf := make([]byte, 1<<16)
			n := runtime.Stack(buf, false)
			w.tr.Emit(map[string]interface{}{"e": "panic", "msg": fmt.Sprint(x), "site": vPanicSite(string(buf[:n])), "op": r.Op, "t": w.now})
		}
	}()
	w.runSeqStep1(nextId, r, snapEvery)
}

// first frame of slock's own code (not the harness, not the runtime) on the panicking stack
func vPanicSite(stack string) string {
	for _, ln := range strings.Split(stack, "\n") {
		if strings.HasPrefix(ln, "github.com/snower/slock/") && !strings.Contains(ln, ".v") && !strings.Contains(ln, "vWorld") && !strings.Contains(ln, "TestVerif") {
			if i := strings.LastIndex(ln, "("); i > 0 {
				ln = ln[:i]
			}
			return strings.TrimPrefix(ln, "github.com/snower/slock/")
		}
	}
	return "unknown"
}

func (w *vWorld) runSeqStep1(nextId *int64, r *vReq, snapEvery bool) {
	switch r.Op {
	case "lock", "unlock":
		if r.Op == "lock" && r.NoDupWait && w.hasLiveWaiter(r) {
			w.tr.Emit(map[string]interface{}{"e": "skip", "why": "lid already queued on key", "t": w.now})
			return
		}
		id := *nextId
		*nextId++
		w.tr.Emit(w.reqEvent(id, r))
		w.curReq = id
		w.Issue(id, r)
		w.curReq = -1
		w.tr.Emit(map[string]interface{}{"e": "ret", "id": id, "t": w.sec(), "ms": w.ms()})
	case "sleep":
		// real-time engine only: let the wall clock (and the server's own sweepers) run
		time.Sleep(time.Duration(r.N) * time.Millisecond)
		w.tr.Emit(map[string]interface{}{"e": "slept", "n": r.N, "t": w.sec(), "ms": w.ms()})
	case "tick":
		n := r.N
		if n <= 0 {
			n = 1
		}
		order := r.Order
		if order == "" {
			order = "te"
		}
		for i := 0; i < n; i++ {
			w.Tick(order)
			w.tr.Emit(map[string]interface{}{"e": "tock", "t": w.now})
		}
	case "snap":
		// a harness-declared quiescent point inside a history that otherwise snapshots only at its end (big populations):
		// the sequential engine has finished the previous call including its wake pass
		w.tr.Emit(w.Snapshot())
		return
	case "status":
		// role change of the whole node (C10): every db gets the new status under its shard mutexes,
		// exactly like SLock.updateState but without the quit-leader flush waits.
		// the node's own role change (SLock.updateState, including its quit-leader flush waits)
		w.slock.updateState(uint8(r.Status))
		w.tr.Emit(map[string]interface{}{"e": "status", "status": r.Status, "t": w.sec()})
	case "drain":
		// let every timer fire, then release every remaining hold by its LockId (Rcount=0 removes all depth)
		for i := 0; i < r.N; i++ {
			w.Tick("te")
			w.tr.Emit(map[string]interface{}{"e": "tock", "t": w.now})
		}
		w.tr.Emit(w.Snapshot())
		for round := 0; round < 40; round++ {
			snap := w.Snapshot()
			keys := snap["keys"].([]vKeySnap)
			any := false
			for _, k := range keys {
				for _, h := range k.Holders {
					any = true
					u := &vReq{Op: "unlock", Conn: 99, Db: k.Db, Key: k.Key, Lid: h.Lid, Rcount: 0}
					id := *nextId
					*nextId++
					ev := w.reqEvent(id, u)
					ev["drain"] = true
					w.tr.Emit(ev)
					w.curReq = id
					w.Issue(id, u)
					w.curReq = -1
					w.tr.Emit(map[string]interface{}{"e": "ret", "id": id, "t": w.sec(), "ms": w.ms()})
				}
			}
			if !any {
				break
			}
		}
		// tombstoned wheel entries keep their records alive until the sweeper pops them (<= 9 s ahead)
		for i := 0; i < 18; i++ {
			w.Tick("te")
			w.tr.Emit(map[string]interface{}{"e": "tock", "t": w.now})
		}
		ev := w.Snapshot()
		ev["final"] = true
		w.tr.Emit(ev)
		return
	default:
		panic("unknown op " + r.Op)
	}
	if snapEvery {
		w.tr.Emit(w.Snapshot())
	}
}

func (w *vWorld) hasLiveWaiter(r *vReq) bool {
	db := w.slock.dbs[uint8(r.Db)]
	if db == nil {
		return false
	}
	cmd := &protocol.LockCommand{}
	cmd.LockKey = vKey(r.Key)
	m := db.GetLockManager(cmd)
	if m == nil || m.waitLocks == nil {
		return false
	}
	lid := vKey(r.Lid)
	for _, node := range m.waitLocks.IterNodes() {
		for _, l := range node {
			if l != nil && !l.timeouted && l.ackCount == 0xff && l.command != nil && l.command.LockId == lid {
				return true
			}
		}
	}
	return false
}

func TestVerifS(t *testing.T) {
	in, out := os.Getenv("VERIF_IN"), os.Getenv("VERIF_OUT")
	if in == "" || out == "" {
		t.Skip("VERIF_IN / VERIF_OUT not set")
	}
	_ = protocol.MAGIC
	scs := vReadScenarios(in)
	tr := vOpenTrace(out)
	defer tr.Close()
	for i, sc := range scs {
		mode := sc.Mode
		if mode == "" {
			mode = "seq"
		}
		tr.Emit(map[string]interface{}{"e": "begin", "name": sc.Name, "idx": i, "t": int64(1000), "mode": mode})
		w := vNewWorld(t, sc.Cfg, tr, 1000)
		nextId := int64(1)
		for j := range sc.Steps {
			w.runSeqStep(&nextId, &sc.Steps[j], sc.Snap == 0)
		}
		tr.Emit(map[string]interface{}{"e": "end", "name": sc.Name, "idx": i, "t": w.now, "complete": sc.Complete && !w.dead})
		if !w.dead {
			w.Close(true)
		}
	}
}

// Engine RT: the same step interpreter on the REAL clock with the server's own sweeper goroutines
// (hook H1 off).  Used for millisecond timers, which the code drives with time.Now() and sleeps.
func TestVerifRT(t *testing.T) {
	in, out := vEnvInOut(t)
	if in == "" {
		return
	}
	scs := vReadScenarios(in)
	tr := vOpenTrace(out)
	defer tr.Close()
	for i, sc := range scs {
		sc.Cfg.RealClock = true
		w := vNewWorld(t, sc.Cfg, tr, 0)
		tr.Emit(map[string]interface{}{"e": "begin", "name": sc.Name, "idx": i, "t": w.sec(), "mode": "rt"})
		nextId := int64(1)
		for j := range sc.Steps {
			w.runSeqStep(&nextId, &sc.Steps[j], sc.Snap == 0)
		}
		ev := w.Snapshot()
		ev["final"] = false
		tr.Emit(ev)
		tr.Emit(map[string]interface{}{"e": "end", "name": sc.Name, "idx": i, "t": w.sec(), "ms": w.ms(), "complete": sc.Complete})
		w.Close(true)
	}
}

//go:build verif

package server

// Engine W (wire) for property C13 "no client byte stream can crash the server".
//
// Reads deliveries (ndjson, one per line) from $VERIF_IN.  A delivery is the byte-level
// concretisation of one behaviour of spec/ProtoSession.tla: a sequence of steps, each step a byte
// string with the cut points that say how it is split into writes (net.Pipe is synchronous and
// unbuffered, so one write = at most one read of the server).  Every delivery is fed to the REAL
// connection code: Server.handle (protocol sniffing, BinaryServerProtocol / TextServerProtocol,
// the lock engine, admin commands) on a real leader SLock with the wall-clock sweepers running.
//
// Observed per delivery and written as ONE ndjson line to $VERIF_OUT (validated by
// spec/mon/MonProto.tla):  response class of every step, whether the connection goroutine
// panicked (recovered at the very top of the goroutine, outside Server.handle - the real server
// has nothing there, so such a panic terminates the process), whether a long-lived second
// connection and a fresh third connection are still served.  $VERIF_OUT.journal gets an
// unbuffered "B <name>" line before a delivery starts, so that a death of the whole process
// (panic in another goroutine, fatal error) is attributed to the delivery in flight.
//
// VERIF_PROTO_NORECOVER=1 removes the recover: used to confirm that the process really dies.

import (
	"bufio"
	"bytes"
	"encoding/hex"
	"encoding/json"
	"fmt"
	"net"
	"os"
	"regexp"
	"runtime"
	"runtime/debug"
	"strconv"
	"strings"
	"sync"
	"testing"
	"time"

	"github.com/hhkbp2/go-logging"
)

// vPAux: bytes another client sends on a connection of its own while the delivery runs (environment classes of
// the spec: a follower that never acknowledges, a lock that waits for its acknowledgement)
type vPAux struct {
	Hex  string `json:"hex"`
	Wait int    `json:"wait"`
}

type vPStep struct {
	Aux   []vPAux `json:"aux"`
	Cls   string  `json:"cls"`  // class id (spec alphabet), echoed into the trace
	Hex   string  `json:"hex"`  // bytes to send
	FillN int     `json:"fn"`   // followed by fn filler bytes ...
	FillB int     `json:"fb"`   // ... of this value
	Hex2  string  `json:"hex2"` // ... and these trailing bytes
	Cuts  []int   `json:"cuts"` // write boundaries (offsets into the whole byte string)
	Sent  string  `json:"sent"` // sentinel to append: "bin" | "text" | "none"
	Wait  int     `json:"wait"` // ms to wait for the sentinel (default 400)
	Mode  string  `json:"mode"` // how to read the reply: "bin" | "text"
	// output-path deliveries (spec/OutBuf.tla, spec/mon/MonOutBuf.tla): "bin" | "text" = parse everything the server
	// sends during the step into reply frames and record the sizes of the reads (net.Pipe: one read = one conn.Write
	// of the server); Ob (what the generator expects of the step) is echoed into the trace
	Rec string          `json:"rec"`
	Ob  json.RawMessage `json:"ob"`
}

type vPDelivery struct {
	Name  string          `json:"name"`
	Steps []vPStep        `json:"steps"`
	Hold  int             `json:"hold"` // ms to keep the connection open after the last step (timers)
	Path  json.RawMessage `json:"path"` // the class records of the behaviour (spec/ProtoClasses.tla), echoed into the trace
}

type vPObs struct {
	R       string `json:"r"`   // "ok" | "err" | "none"
	Res     int    `json:"res"` // binary result code of the first reply frame, -1 if n/a
	Closed  bool   `json:"closed"`
	Blocked bool   `json:"blocked"`
	N       int    `json:"n"` // bytes received during the step
	// only for steps with Rec set
	Chunks []int      `json:"chunks,omitempty"` // sizes of the client's reads = of the server's writes
	Frames []vPFrameO `json:"frames,omitempty"` // the replies, parsed
	Junk   *int       `json:"junk,omitempty"`   // offset at which the reply stream stopped being parseable (-1: clean)
}

// vPFrameO: one reply as the client read it back
type vPFrameO struct {
	Rid string `json:"rid"` // binary: request id (hex)   text: ""
	T   int    `json:"t"`   // binary: command type       text: first byte of the reply
	Res int    `json:"res"` // binary: result code        text: -1
	D   int    `json:"d"`   // binary: length of the data frame incl. its 4-byte length (0: none)   text: bulk length / element count, -1 if n/a
	N   int    `json:"n"`   // total bytes of the reply
	Sum string `json:"sum"` // FNV-1a of the data frame (binary) / of the whole reply (text), hex
}

func vPFnv(b []byte) string {
	h := uint32(2166136261)
	for _, c := range b {
		h ^= uint32(c)
		h *= 16777619
	}
	return fmt.Sprintf("%08x", h)
}

// vPParseBin: the binary reply stream is self-delimiting: 64-byte header, and when flag bit 0x20 of a LOCK / UNLOCK
// result (or the content length of a CALL result) says so a trailing frame
func vPParseBin(out []byte) ([]vPFrameO, int) {
	frames := []vPFrameO{}
	o := 0
	for o < len(out) {
		if len(out)-o < 64 || out[o] != 0x56 || out[o+1] != 0x01 {
			return frames, o
		}
		h := out[o : o+64]
		f := vPFrameO{Rid: hex.EncodeToString(h[3:19]), T: int(h[2]), Res: int(h[19]), N: 64, Sum: ""}
		end := o + 64
		if (h[2] == 1 || h[2] == 2) && h[20]&0x20 != 0 {
			if len(out)-end < 4 {
				return frames, o
			}
			n := int(uint32(out[end]) | uint32(out[end+1])<<8 | uint32(out[end+2])<<16 | uint32(out[end+3])<<24)
			if n < 0 || len(out)-end-4 < n {
				return frames, o
			}
			f.D = n + 4
			f.Sum = vPFnv(out[end : end+4+n])
			end += 4 + n
		}
		f.N = end - o
		frames = append(frames, f)
		o = end
	}
	return frames, -1
}

// vPRespEnd: end offset of the RESP reply that starts at o, -1 if malformed / incomplete; second value: bulk length / element count
func vPRespEnd(out []byte, o int, depth int) (int, int) {
	if o >= len(out) || depth > 4 {
		return -1, -1
	}
	nl := bytes.Index(out[o:], []byte("\r\n"))
	if nl < 0 {
		return -1, -1
	}
	line := string(out[o+1 : o+nl])
	after := o + nl + 2
	switch out[o] {
	case '+', '-', ':':
		return after, -1
	case '$':
		n, err := strconv.Atoi(line)
		if err != nil {
			return -1, -1
		}
		if n < 0 {
			return after, n
		}
		if len(out)-after < n+2 || out[after+n] != '\r' || out[after+n+1] != '\n' {
			return -1, -1
		}
		return after + n + 2, n
	case '*':
		n, err := strconv.Atoi(line)
		if err != nil {
			return -1, -1
		}
		p := after
		for i := 0; i < n; i++ {
			e, _ := vPRespEnd(out, p, depth+1)
			if e < 0 {
				return -1, -1
			}
			p = e
		}
		return p, n
	}
	return -1, -1
}

func vPParseText(out []byte) ([]vPFrameO, int) {
	frames := []vPFrameO{}
	o := 0
	for o < len(out) {
		e, n := vPRespEnd(out, o, 0)
		if e < 0 {
			return frames, o
		}
		frames = append(frames, vPFrameO{T: int(out[o]), Res: -1, D: n, N: e - o, Sum: vPFnv(out[o:e])})
		o = e
	}
	return frames, -1
}

type vPWorld struct {
	slock            *SLock
	srv              *Server
	dir              string
	probe            net.Conn
	probeS           *Stream
	nonce            uint64
	probeNote        string // detail of the last failed probe
	probeUnsolicited int    // unsolicited notices skipped by the probe connection
}

// budget of one probe: generous, the machine may be heavily loaded and a false "not served" is not acceptable
const vPProbeBudget = 15 * time.Second

var vPLogOnce sync.Once
var vPLog logging.Logger

func vPNewWorld() *vPWorld {
	VerifManualClock = false
	dir, err := os.MkdirTemp("", "vpslock")
	if err != nil {
		panic(err)
	}
	sc := vNewConfig(vWorldCfg{DataDir: dir, FastKeys: 256, Concurrent: 2})
	sc.SubscribeEnabled = true
	sc.AofRingBufferSize = 256 * 1024 // abandoned worlds stay in memory until the child exits: keep them small
	sc.AofQueueSize = 4096
	// InitLogger adds a console handler to the process-wide logger on every call: call it once
	vPLogOnce.Do(func() { vPLog, _ = InitLogger(&ServerConfig{LogLevel: "ERROR", Log: "-"}) })
	slock := NewSLock(sc, vPLog)
	srv := NewServer(slock)
	if l, lerr := net.Listen("tcp", "127.0.0.1:0"); lerr == nil {
		srv.server = l // never accepted from; only there so that an admin SHUTDOWN finds a listener to close
	}
	if err := slock.Init(srv); err != nil {
		panic(fmt.Sprintf("slock.Init: %v", err))
	}
	w := &vPWorld{slock: slock, srv: srv, dir: dir}
	w.openProbe()
	return w
}

func (w *vPWorld) serve(conn net.Conn, onPanic func(v interface{}, stack []byte), done chan struct{}) *Stream {
	stream := NewStream(conn)
	_ = w.srv.addStream(stream)
	go func() {
		defer close(done)
		if onPanic != nil {
			defer func() {
				if v := recover(); v != nil {
					onPanic(v, debug.Stack())
				}
			}()
		}
		w.srv.handle(stream) // exactly what Server.Serve starts per accepted connection
	}()
	return stream
}

func (w *vPWorld) openProbe() {
	c, s := net.Pipe()
	w.probe = c
	w.probeS = w.serve(s, nil, make(chan struct{}))
	init := vPFrame(0, w.nextNonce(), nil)
	copy(init[19:35], []byte("vprobe-client-id"))
	_ = c.SetDeadline(time.Now().Add(4 * vPProbeBudget)) // a fresh idle server: only a stalled machine makes this slow
	if _, err := c.Write(init); err != nil {
		panic("probe init write: " + err.Error())
	}
	buf := make([]byte, 64)
	if _, err := readFull(c, buf); err != nil {
		panic("probe init read: " + err.Error())
	}
}

func readFull(c net.Conn, buf []byte) (int, error) {
	n := 0
	for n < len(buf) {
		k, err := c.Read(buf[n:])
		n += k
		if err != nil {
			return n, err
		}
	}
	return n, nil
}

func (w *vPWorld) nextNonce() [16]byte {
	w.nonce++
	var b [16]byte
	copy(b[:], []byte(fmt.Sprintf("vs%014d", w.nonce)))
	return b
}

// vPFrame builds a 64-byte binary request frame: magic, version, type, request id, then `rest` from offset 19.
func vPFrame(ctype byte, reqId [16]byte, rest []byte) []byte {
	b := make([]byte, 64)
	b[0], b[1], b[2] = 0x56, 0x01, ctype
	copy(b[3:19], reqId[:])
	copy(b[19:], rest)
	return b
}

// probeOld: the long-lived binary connection must still get PING, LOCK and UNLOCK answered.
func (w *vPWorld) probeOld() string {
	c := w.probe
	key := w.nextNonce()
	rest := make([]byte, 45)
	rest[1] = 0x7e            // db 126 (the generated classes use other dbs unless they draw it at random)
	copy(rest[2:18], key[:])  // lock id
	copy(rest[18:34], key[:]) // lock key
	rest[34], rest[38] = 0, 5 // timeout 0 s, expried 5 s
	ping := vPFrame(5, w.nextNonce(), nil)
	lock := vPFrame(1, w.nextNonce(), rest)
	unlock := vPFrame(2, w.nextNonce(), rest)
	frames := [][]byte{ping, lock, unlock}
	// ... and a fresh key of the dbs the generated classes work in (0, 1, 3): a delivery that leaves a whole db stuck
	// (every later request on it unanswered) has taken the service away from every other client of that db
	for _, db := range []byte{0, 1, 3} {
		k2 := w.nextNonce()
		r2 := make([]byte, 45)
		r2[1] = db
		copy(r2[2:18], k2[:])
		copy(r2[18:34], k2[:])
		r2[34], r2[38] = 0, 5
		frames = append(frames, vPFrame(1, w.nextNonce(), r2), vPFrame(2, w.nextNonce(), r2))
	}
	_ = c.SetDeadline(time.Now().Add(vPProbeBudget))
	for pi, fr := range frames {
		if _, err := c.Write(fr); err != nil {
			return "write-failed"
		}
		buf := make([]byte, 64)
		for skipped := 0; ; skipped++ {
			if _, err := readFull(c, buf); err != nil {
				if strings.Contains(err.Error(), "timeout") {
					return "noreply"
				}
				return "closed"
			}
			// an unsolicited EXPRIED / TIMEOUT notice about one of the probe's own earlier locks is not the answer
			// awaited: skipped (whether such a notice is right is a question of the lock properties, not of C13)
			if skipped < 8 && buf[0] == 0x56 && (buf[2] == 1 || buf[2] == 2) && (buf[19] == 8 || buf[19] == 9) && buf[20]&0x20 == 0 && !bytes.Equal(buf[3:19], fr[3:19]) {
				w.probeUnsolicited++
				continue
			}
			break
		}
		if buf[0] != 0x56 || buf[2] != fr[2] || !bytes.Equal(buf[3:19], fr[3:19]) {
			w.probeNote = fmt.Sprintf("request %d of the probe (type %d, db %d): got %x", pi, fr[2], fr[20], buf[:40])
			return "garbled"
		}
		if buf[19] != 0 {
			w.probeNote = fmt.Sprintf("request %d of the probe (type %d, db %d): result %d", pi, fr[2], fr[20], buf[19])
			return "refused" + strconv.Itoa(int(buf[19]))
		}
	}
	return "ok"
}

// probeNew: fresh connections must be accepted and served: a text one (PING; FLUSHDB of a db that does not
// exist, which takes and releases the instance-wide mutex) and a binary one (INIT, which takes the client table mutex)
func (w *vPWorld) probeNew() string {
	c, s := net.Pipe()
	w.serve(s, nil, make(chan struct{}))
	defer c.Close()
	_ = c.SetDeadline(time.Now().Add(vPProbeBudget))
	// any reply line is fine for FLUSHDB (the db may exist: a delivery may have drawn its number at random)
	for _, rq := range [][2]string{{"*1\r\n$4\r\nPING\r\n", "+PONG\r\n"}, {"*2\r\n$7\r\nFLUSHDB\r\n$3\r\n250\r\n", ""}} {
		if _, err := c.Write([]byte(rq[0])); err != nil {
			return "write-failed"
		}
		line := make([]byte, 0, 32)
		one := make([]byte, 1)
		for len(line) == 0 || line[len(line)-1] != '\n' {
			if _, err := c.Read(one); err != nil {
				if strings.Contains(err.Error(), "timeout") {
					return "noreply"
				}
				return "closed"
			}
			line = append(line, one[0])
			if len(line) > 256 {
				return "garbled"
			}
		}
		if (rq[1] != "" && string(line) != rq[1]) || (line[0] != '+' && line[0] != '-') {
			return "garbled"
		}
	}
	c2, s2 := net.Pipe()
	w.serve(s2, nil, make(chan struct{}))
	defer c2.Close()
	_ = c2.SetDeadline(time.Now().Add(vPProbeBudget))
	init := vPFrame(0, w.nextNonce(), nil)
	nn := w.nextNonce()
	copy(init[19:35], nn[:])
	if _, err := c2.Write(init); err != nil {
		return "write-failed"
	}
	buf := make([]byte, 64)
	if _, err := readFull(c2, buf); err != nil {
		if strings.Contains(err.Error(), "timeout") {
			return "noreply"
		}
		return "closed"
	}
	if buf[0] != 0x56 || buf[2] != 0 || buf[19] != 0 {
		return "garbled"
	}
	return "ok"
}

// discard: a world whose connection goroutine panicked may hold mutexes for ever; it is abandoned, not shut down
// (shutting it down would run slock's own close paths concurrently with whatever is still wedged in it, and a
// failure there would be the harness's doing, not the client's).  Its scratch directory lives under $TMPDIR,
// which the check removes after the child has exited.
func (w *vPWorld) discard() {
	if w.probe != nil {
		_ = w.probe.Close()
	}
}

// ---------------------------------------------------------------- client side of one delivery

type vPClient struct {
	c     net.Conn
	mu    sync.Mutex
	out   []byte
	chunk []int // sizes of the reads that make up out
	eof   bool
	sig   chan struct{}
	rdone chan struct{}
}

func vPNewClient(c net.Conn) *vPClient {
	cl := &vPClient{c: c, sig: make(chan struct{}, 1), rdone: make(chan struct{})}
	go func() {
		defer close(cl.rdone)
		buf := make([]byte, 1<<17) // larger than any single write of the server in the generated deliveries
		for {
			n, err := c.Read(buf)
			cl.mu.Lock()
			if n > 0 && len(cl.out) < 1<<22 {
				cl.out = append(cl.out, buf[:n]...)
				cl.chunk = append(cl.chunk, n)
			}
			if err != nil {
				cl.eof = true
			}
			cl.mu.Unlock()
			select {
			case cl.sig <- struct{}{}:
			default:
			}
			if err != nil {
				return
			}
		}
	}()
	return cl
}

// wait until pred(out, eof) or the deadline or a panic of the server goroutine.
func (cl *vPClient) wait(pred func(out []byte, eof bool) bool, d time.Duration, panicked chan struct{}) bool {
	timer := time.NewTimer(d)
	defer timer.Stop()
	for {
		cl.mu.Lock()
		ok := pred(cl.out, cl.eof)
		cl.mu.Unlock()
		if ok {
			return true
		}
		select {
		case <-cl.sig:
		case <-panicked:
			return false
		case <-timer.C:
			return false
		}
	}
}

func (cl *vPClient) take() ([]byte, bool) {
	o, e, _ := cl.takeChunks()
	return o, e
}

func (cl *vPClient) takeChunks() ([]byte, bool, []int) {
	cl.mu.Lock()
	o, e, ch := cl.out, cl.eof, cl.chunk
	cl.out, cl.chunk = nil, nil
	cl.mu.Unlock()
	return o, e, ch
}

func vPClassify(out []byte, mode string) (string, int) {
	if len(out) == 0 {
		return "none", -1
	}
	if mode == "bin" {
		if len(out) >= 20 && out[0] == 0x56 {
			if out[19] == 0 {
				return "ok", 0
			}
			return "err", int(out[19])
		}
		if out[0] == '-' {
			return "err", -1 // a binary stream that was sniffed as text is answered in text
		}
		return "ok", -1
	}
	switch out[0] {
	case '-':
		return "err", -1
	case 0x56:
		if len(out) >= 20 {
			if out[19] == 0 {
				return "ok", 0
			}
			return "err", int(out[19])
		}
	}
	return "ok", -1
}

var vPSiteRe = regexp.MustCompile(`(?m)^(github\.com/snower/slock/[^\s(]+(?:\([^)]*\))?[^\s(]*)\(.*\n\t(\S+):\d+`)

// vPSite: first frame of the panic stack that is slock's own code (not the harness, not the runtime).
func vPSite(stack string) string {
	for _, m := range vPSiteRe.FindAllStringSubmatch(stack, -1) {
		if strings.Contains(m[2], "zz_verif_") {
			continue
		}
		return strings.TrimPrefix(m[1], "github.com/snower/slock/")
	}
	return "unknown"
}

var vPNumRe = regexp.MustCompile(`\d+`)

func vPKind(msg string) string {
	switch {
	case strings.Contains(msg, "index out of range"):
		return "index out of range"
	case strings.Contains(msg, "slice bounds out of range"):
		return "slice bounds out of range"
	case strings.Contains(msg, "nil pointer dereference"):
		return "nil pointer dereference"
	case strings.Contains(msg, "makeslice"):
		return "makeslice: len out of range"
	}
	return vPNumRe.ReplaceAllString(msg, "N")
}

type vPResult struct {
	name    string
	idx     int
	pmu     sync.Mutex
	late    bool // the trace line of the delivery was already written when the panic arrived
	obs     []vPObs
	panicV  string
	stack   string
	probe   string
	probe2  string
	hclosed bool   // the server-side goroutine of the delivery finished
	stacks  string // all goroutines, taken when a probe was not answered
}

func (w *vPWorld) runDelivery(d *vPDelivery, noRecover bool) *vPResult {
	res := &vPResult{name: d.Name}
	pmu := &res.pmu
	c, s := net.Pipe()
	panicked := make(chan struct{})
	done := make(chan struct{})
	var onPanic func(v interface{}, stack []byte)
	if !noRecover {
		onPanic = func(v interface{}, stack []byte) {
			pmu.Lock()
			first := res.panicV == ""
			if first {
				res.panicV = fmt.Sprint(v)
				res.stack = string(stack)
			}
			pmu.Unlock()
			if first {
				close(panicked)
			}
		}
	}
	w.serve(s, onPanic, done)
	cl := vPNewClient(c)
	stop := false
	var auxConns []net.Conn
	defer func() {
		for _, ac := range auxConns {
			_ = ac.Close()
		}
	}()
	for i := range d.Steps {
		st := &d.Steps[i]
		ob := vPObs{R: "none", Res: -1}
		if stop {
			ob.Blocked = true
			res.obs = append(res.obs, ob)
			continue
		}
		if len(st.Aux) > 0 {
			// environment step: other clients act on connections of their own; nothing is sent on the connection under test
			for _, ax := range st.Aux {
				ac, as := net.Pipe()
				auxConns = append(auxConns, ac)
				w.serve(as, onPanic, make(chan struct{}))
				go func(ac net.Conn) { // drain whatever the server sends
					buf := make([]byte, 1<<16)
					for {
						if _, err := ac.Read(buf); err != nil {
							return
						}
					}
				}(ac)
				ab, herr := hex.DecodeString(ax.Hex)
				if herr != nil {
					panic("bad aux hex in delivery " + d.Name)
				}
				_ = ac.SetWriteDeadline(time.Now().Add(time.Second))
				_, _ = ac.Write(ab)
				select {
				case <-panicked:
				case <-time.After(time.Duration(ax.Wait) * time.Millisecond):
				}
			}
			res.obs = append(res.obs, ob)
			continue
		}
		data, err := hex.DecodeString(st.Hex)
		if err != nil {
			panic("bad hex in delivery " + d.Name)
		}
		if st.FillN > 0 {
			data = append(data, bytes.Repeat([]byte{byte(st.FillB)}, st.FillN)...)
		}
		if st.Hex2 != "" {
			d2, err2 := hex.DecodeString(st.Hex2)
			if err2 != nil {
				panic("bad hex2 in delivery " + d.Name)
			}
			data = append(data, d2...)
		}
		wait := time.Duration(st.Wait) * time.Millisecond
		if st.Wait <= 0 {
			wait = 400 * time.Millisecond
		}
		// the writes
		prev := 0
		cuts := append(append([]int{}, st.Cuts...), len(data))
		wfail := false
		for _, cut := range cuts {
			if cut <= prev || cut > len(data) {
				continue
			}
			_ = c.SetWriteDeadline(time.Now().Add(wait + 200*time.Millisecond))
			if _, werr := c.Write(data[prev:cut]); werr != nil {
				wfail = true
				break
			}
			prev = cut
		}
		var token []byte
		if !wfail && st.Sent != "none" && st.Sent != "" {
			nonce := w.nextNonce()
			var sbytes []byte
			if st.Sent == "bin" {
				sbytes = vPFrame(5, nonce, nil)
				token = append([]byte{0x56, 0x01, 0x05}, nonce[:]...)
			} else {
				sbytes = []byte(fmt.Sprintf("*2\r\n$4\r\nPING\r\n$16\r\n%s\r\n", string(nonce[:])))
				token = []byte(fmt.Sprintf("$16\r\n%s\r\n", string(nonce[:])))
			}
			_ = c.SetWriteDeadline(time.Now().Add(wait))
			if _, werr := c.Write(sbytes); werr != nil {
				wfail = true
			}
		}
		if token != nil && !wfail {
			got := cl.wait(func(out []byte, eof bool) bool { return eof || bytes.Contains(out, token) }, wait, panicked)
			_ = got
		} else {
			// nothing to wait for explicitly: give the server a moment to react (reply, close)
			cl.wait(func(out []byte, eof bool) bool { return eof }, wait/4, panicked)
		}
		out, eof, chunks := cl.takeChunks()
		seen := token != nil && bytes.Contains(out, token)
		if seen {
			out = out[:bytes.Index(out, token)]
		}
		if st.Rec != "" {
			// the reads that lie before the sentinel's reply
			ob.Chunks = []int{}
			tot := 0
			for _, n := range chunks {
				if tot+n > len(out) {
					if tot < len(out) {
						ob.Chunks = append(ob.Chunks, len(out)-tot)
					}
					break
				}
				ob.Chunks = append(ob.Chunks, n)
				tot += n
			}
			junk := -1
			if st.Rec == "bin" {
				ob.Frames, junk = vPParseBin(out)
			} else {
				ob.Frames, junk = vPParseText(out)
			}
			ob.Junk = &junk
		}
		ob.N = len(out)
		ob.R, ob.Res = vPClassify(out, st.Mode)
		ob.Closed = eof
		ob.Blocked = !eof && (wfail || (token != nil && !seen))
		select {
		case <-panicked:
			stop = true
			ob.Blocked = false
		default:
		}
		res.obs = append(res.obs, ob)
		if eof || wfail {
			stop = true
		}
	}
	if d.Hold > 0 {
		cl.wait(func(out []byte, eof bool) bool { return eof }, time.Duration(d.Hold)*time.Millisecond, panicked)
	}
	_ = c.Close()
	// the close path runs wills and frees commands: give it a moment, it is part of the delivery
	closeWait := 150 * time.Millisecond
	if d.Hold < 0 {
		closeWait = 1500 * time.Millisecond // wills registered: they run on the close path
	}
	select {
	case <-done:
		res.hclosed = true
	case <-time.After(closeWait):
	}
	pmu.Lock()
	pv := res.panicV
	pmu.Unlock()
	if pv == "" {
		res.probe = w.probeOld()
		res.probe2 = w.probeNew()
		if res.probe == "noreply" || res.probe2 == "noreply" {
			// a wedged server stays wedged: ask once more before saying so
			if res.probe2 == "noreply" {
				res.probe2 = w.probeNew()
			}
		}
		if res.probe != "ok" || res.probe2 != "ok" {
			buf := make([]byte, 1<<20)
			buf = buf[:runtime.Stack(buf, true)]
			if len(buf) > 200000 {
				buf = buf[:200000]
			}
			res.stacks = string(buf)
		}
	} else {
		res.probe, res.probe2 = "skipped", "skipped"
	}
	return res
}

func TestVerifProto(t *testing.T) {
	in, outp := os.Getenv("VERIF_IN"), os.Getenv("VERIF_OUT")
	if in == "" || outp == "" {
		t.Skip("VERIF_IN / VERIF_OUT not set")
	}
	noRecover := os.Getenv("VERIF_PROTO_NORECOVER") == "1"
	linger, _ := strconv.Atoi(os.Getenv("VERIF_PROTO_LINGER_MS"))
	skip, _ := strconv.Atoi(os.Getenv("VERIF_PROTO_SKIP")) // number of leading deliveries already done by a previous child
	f, err := os.Open(in)
	if err != nil {
		t.Fatal(err)
	}
	defer f.Close()
	flags := os.O_CREATE | os.O_WRONLY | os.O_APPEND
	trace, err := os.OpenFile(outp, flags, 0644)
	if err != nil {
		t.Fatal(err)
	}
	defer trace.Close()
	journal, err := os.OpenFile(outp+".journal", flags, 0644)
	if err != nil {
		t.Fatal(err)
	}
	defer journal.Close()

	// an unbounded recursion would otherwise take seconds to hit the default 1 GB limit and kill the process while
	// later deliveries are in flight; with a 48 MB limit it dies within the delivery that caused it
	debug.SetMaxStack(48 << 20)
	w := vPNewWorld()
	var pending []*vPResult // deliveries whose server goroutine had not finished when their line was written
	flushLate := func() {
		keep := pending[:0]
		for _, r := range pending {
			r.pmu.Lock()
			pv, stack := r.panicV, r.stack
			r.pmu.Unlock()
			if pv != "" {
				ev := map[string]interface{}{"e": "late", "idx": r.idx, "name": r.name, "panic": true, "kind": vPKind(pv), "site": vPSite(stack), "msg": pv}
				b, _ := json.Marshal(ev)
				_, _ = trace.Write(append(b, '\n'))
			} else {
				keep = append(keep, r)
			}
		}
		pending = keep
		if len(pending) > 64 {
			pending = pending[len(pending)-64:]
		}
	}
	sc := bufio.NewScanner(f)
	sc.Buffer(make([]byte, 1<<20), 1<<28)
	idx := 0
	npanics := 0
	early := false
	for sc.Scan() {
		line := sc.Bytes()
		if len(line) == 0 {
			continue
		}
		idx++
		if idx <= skip {
			continue
		}
		var d vPDelivery
		if err := json.Unmarshal(line, &d); err != nil {
			t.Fatalf("bad delivery line %d: %v", idx, err)
		}
		_, _ = journal.WriteString("B " + strconv.Itoa(idx) + " " + d.Name + "\n")
		t0 := time.Now()
		var ms0, ms1 runtime.MemStats
		runtime.ReadMemStats(&ms0)
		r := w.runDelivery(&d, noRecover)
		ms := time.Since(t0).Milliseconds()
		runtime.ReadMemStats(&ms1)
		r.idx = idx
		r.pmu.Lock()
		r.late = true
		pv0, stack0 := r.panicV, r.stack
		r.pmu.Unlock()
		cls := make([]string, len(d.Steps))
		for i := range d.Steps {
			cls[i] = d.Steps[i].Cls
		}
		ev := map[string]interface{}{"e": "d", "idx": idx, "name": d.Name, "cls": cls, "obs": r.obs, "panic": pv0 != "",
			"kind": "", "site": "", "msg": "", "probe": r.probe, "probe2": r.probe2, "done": true, "hclosed": r.hclosed, "path": d.Path}
		ev["ms"] = ms
		if mb := (ms1.TotalAlloc - ms0.TotalAlloc) >> 20; mb >= 256 {
			// bytes the process allocated while the delivery ran (the delivery's own bytes are at most a few MiB)
			ev["alloc_mb"] = mb
			// the children run under an address-space limit: give a block of that size back at once, or the next
			// small allocation of an innocent delivery may be the one that does not fit
			debug.FreeOSMemory()
		}
		if w.probeUnsolicited > 0 {
			ev["probe_unsolicited"] = w.probeUnsolicited
			w.probeUnsolicited = 0
		}
		if r.stacks != "" {
			ev["stacks"] = r.stacks
			ev["probe_note"] = w.probeNote
		}
		for i := range d.Steps {
			if len(d.Steps[i].Ob) > 0 {
				obs := make([]json.RawMessage, len(d.Steps))
				for j := range d.Steps {
					obs[j] = d.Steps[j].Ob
					if len(obs[j]) == 0 {
						obs[j] = json.RawMessage(`{"fam":"none"}`)
					}
				}
				ev["ob"] = obs
				break
			}
		}
		if pv0 != "" {
			ev["kind"], ev["site"], ev["msg"] = vPKind(pv0), vPSite(stack0), pv0
		} else if !r.hclosed {
			pending = append(pending, r)
		}
		b, _ := json.Marshal(ev)
		_, _ = trace.Write(append(b, '\n'))
		_, _ = journal.WriteString("E " + strconv.Itoa(idx) + "\n")
		flushLate()
		if pv0 != "" || r.probe != "ok" || r.probe2 != "ok" {
			// the world may be wedged (mutex held by the dead goroutine): continue on a fresh one
			npanics++
			w.discard()
			if npanics >= 30 {
				// abandoned worlds pile up (memory, goroutines): let the check start a fresh child for the rest
				early = true
				break
			}
			w = vPNewWorld()
		}
	}
	if early {
		time.Sleep(300 * time.Millisecond)
		flushLate()
		_, _ = journal.WriteString("R\n")
		return
	}
	if linger > 0 {
		// timers armed by the deliveries (expiry / timeout stage commands) fire in sweeper goroutines
		time.Sleep(time.Duration(linger) * time.Millisecond)
		_, _ = journal.WriteString("L\n")
	}
	flushLate()
	w.discard()
}

//go:build verif

package server

// Engine A (C11): leader-local replay of ack-required locks.
//
// A real leader SLock (vNewWorld: real LockDB, real AofChannel goroutines, real Aof on a scratch
// directory, real ReplicationManager / ReplicationAckDB) is driven step by step by a scenario
// that is a behaviour of spec/AckQuorum.tla (or a seeded / directed history in the same step
// format).  The two sides of the handshake that normally need other processes are played by
// the driver through the SAME entry points the real peers use:
//
//   - follower k acknowledges record R with result x  ->  Aof.loadLockAck(LockResultCommand)
//     (exactly what ReplicationServer.RecvProcess calls after decoding the 64-byte ack frame),
//     handled by the shard's AofChannel goroutine -> ReplicationAckDB.ProcessLeaderAcked;
//   - the leader's own buffer flush                   ->  Aof.aofGlock + AofFile.Flush()
//     (what Aof.waitLockAofChannel does when the last busy channel goes idle) -> Aof.lockAcked ->
//     AofChannel.AofAcked -> ReplicationAckDB.ProcessLeaderAofed.  The spontaneous idle flush is
//     held back for the whole history by keeping Aof.channelActiveCount one above zero, i.e. the
//     state "some other shard's channel is still busy";  a failing write is produced by closing
//     the append file's descriptor first;
//   - follower links are *ReplicationServer entries in ReplicationManager.serverChannels (added
//     with addServerChannel, removed with removeServerChannel = what commandHandleSyncCommand does
//     when RecvProcess returns), so ReplicationManager.UpdateDBAckCount computes the quorum itself;
//   - demotion is the real ReplicationManager.SwitchToFollower("").
//
// Observations written to the ndjson trace: every request / reply / return (as engine S), the
// driver's ack-side events, for every reply of an ack-required lock whether its record is in the
// leader's append file ON DISK at the moment of the reply (file re-read inside the reply
// callback), and a canonical snapshot at every quiescent point.  The trace is validated by TLC
// against spec/mon/MonAck.tla.

import (
	"encoding/hex"
	"fmt"
	"os"
	"path/filepath"
	"sort"
	"strings"
	"sync"
	"sync/atomic"
	"testing"
	"time"

	"github.com/snower/slock/protocol"
)

type vAckStep struct {
	vReq
	Id  int64 `json:"id"`  // explicit request id (0: next free)
	F   int   `json:"f"`   // follower index 1..n (fack, cut)
	Res int   `json:"res"` // result code carried by a follower ack (0 = positive)
	// Park: the channel goroutine that handles this fack / flush is held at the entry of LockDB.DoAckLock
	// (hook "ack.enter", before the shard mutex is taken) until a later "resume" step: ack-vs-timeout and
	// ack-vs-request races
	Park bool `json:"park"`
}

type vAckScenario struct {
	Name      string     `json:"name"`
	Cfg       vWorldCfg  `json:"cfg"`
	Followers int        `json:"followers"`
	Mode      int        `json:"mode"` // Config.AofAckMode: 0/2 all, 1 majority
	Steps     []vAckStep `json:"steps"`
	Complete  bool       `json:"complete"`
}

type vAckWorld struct {
	*vWorld
	mu       sync.Mutex
	aofIds   map[int64][16]byte // request id -> aof id of its pushed record
	ackReq   map[int64]bool     // request ids of lock requests carrying the require-ack flag
	known    map[int64]bool     // pend event already emitted
	links    map[int]*ReplicationServer
	held     bool // channelActiveCount is held one above zero
	broken   bool // the append file descriptor was closed (write failure injected)
	demoted  bool
	nextId   int64
	parkArm  int32         // 1: the next DoAckLock entered by a channel goroutine parks
	parked   int32         // 1: a goroutine is parked at ack.enter
	parkCh   chan struct{} // closed / signalled by "resume"
	inDemote int32
	acked    map[[2]int64]bool // (follower, request): a follower sends exactly one ack frame per record
}

func (a *vAckWorld) hook(name string, x interface{}, y interface{}) {
	if name == "aof.flush.enter" {
		// every record in the write buffer is registered by now: learn the aof ids of the pending requests before
		// the flush can complete any of them (the channel goroutine may have been parked while they were pushed)
		a.learnPending()
		return
	}
	if name != "ack.enter" || atomic.LoadInt32(&a.inDemote) != 0 {
		return
	}
	if atomic.CompareAndSwapInt32(&a.parkArm, 1, 0) {
		lk, _ := x.(*Lock)
		rid := int64(-1)
		if lk != nil && lk.command != nil {
			rid = vReqIdInt(lk.command.RequestId)
		}
		ok, _ := y.(bool)
		a.tr.Emit(map[string]interface{}{"e": "parked", "rid": rid, "succed": ok, "t": a.now})
		atomic.StoreInt32(&a.parked, 1)
		<-a.parkCh
		atomic.StoreInt32(&a.parked, 0)
	}
}

func (a *vAckWorld) resume() {
	if atomic.LoadInt32(&a.parked) == 1 {
		a.parkCh <- struct{}{}
		for atomic.LoadInt32(&a.parked) == 1 {
			time.Sleep(50 * time.Microsecond)
		}
	}
	atomic.StoreInt32(&a.parkArm, 0)
}

func vAckNewFollower(m *ReplicationManager) *ReplicationServer {
	waofLock := NewAofLock()
	return &ReplicationServer{manager: m, glock: &sync.Mutex{}, aof: m.slock.GetAof(), raofLock: NewAofLock(), waofLock: waofLock,
		bufferCursor: NewReplicationBufferQueueCursor(waofLock.buf), state: &ReplicationServerState{}, pulledState: 2,
		pulledWaiter: make(chan struct{}, 1), closedWaiter: make(chan struct{})}
}

// quiescent: every AofChannel of every db has an empty queue and is parked.  Scenarios use one
// shard per db (DBConcurrent = 1) and one db, so a single channel decides; two consecutive idle
// passes are required anyway.
func (a *vAckWorld) channelsIdle() bool {
	if atomic.LoadInt32(&a.parked) == 1 {
		return true // the channel goroutine stands at the gate in front of DoAckLock, outside every mutex
	}
	aof := a.slock.aof
	aof.glock.Lock()
	chans := append([]*AofChannel{}, aof.channels...)
	aof.glock.Unlock()
	for _, c := range chans {
		c.queueGlock.Lock()
		idle := c.queueCount == 0 && (c.queuePulled || c.closed)
		c.queueGlock.Unlock()
		if !idle {
			return false
		}
	}
	return true
}

func (a *vAckWorld) waitQuiescent() {
	deadline := time.Now().Add(60 * time.Second)
	okPasses := 0
	for okPasses < 3 {
		if a.channelsIdle() {
			okPasses++
		} else {
			okPasses = 0
		}
		if okPasses < 3 {
			time.Sleep(200 * time.Microsecond)
		}
		if time.Now().After(deadline) {
			panic("verif: aof channels did not become idle within 60s")
		}
	}
}

// learn the aof ids of newly registered ack requests from the leader's ack table
func (a *vAckWorld) learnPending() {
	for dbId, adb := range a.slock.replicationManager.ackDbs {
		if adb == nil {
			continue
		}
		for i := uint16(0); i < adb.ackMaxGlocks; i++ {
			adb.ackGlocks[i].Lock()
			type ent struct {
				rid   int64
				aofId [16]byte
				need  int
			}
			var ents []ent
			for reqId, aofId := range adb.commandAofs[i] {
				rid := vReqIdInt(reqId)
				need := -1
				if l, ok := adb.aofLocks[i][aofId]; ok {
					need = int(l.ackCount)
				}
				ents = append(ents, ent{rid, aofId, need})
			}
			adb.ackGlocks[i].Unlock()
			sort.Slice(ents, func(x, y int) bool { return ents[x].rid < ents[y].rid })
			for _, e := range ents {
				a.mu.Lock()
				a.aofIds[e.rid] = e.aofId
				seen := a.known[e.rid]
				a.known[e.rid] = true
				a.mu.Unlock()
				if !seen {
					a.tr.Emit(map[string]interface{}{"e": "pend", "rid": e.rid, "db": dbId, "aofid": hex.EncodeToString(e.aofId[:]),
						"need": e.need, "t": a.now})
				}
			}
		}
	}
}

// is the LOCK record with this aof id in an append file on disk right now?
func (a *vAckWorld) onDisk(aofId [16]byte) bool {
	files, _ := filepath.Glob(filepath.Join(a.dir, "append.aof.*"))
	for _, f := range files {
		if strings.HasSuffix(f, ".dat") {
			continue
		}
		b, err := os.ReadFile(f)
		if err != nil || len(b) < 12 {
			continue
		}
		hl := int(b[10]) | int(b[11])<<8
		for off := 12 + hl; off+64 <= len(b); off += 64 {
			rec := b[off : off+64]
			if rec[2] != protocol.COMMAND_LOCK {
				continue
			}
			same := true
			for j := 0; j < 16; j++ {
				if rec[3+j] != aofId[j] {
					same = false
					break
				}
			}
			if same {
				return true
			}
		}
	}
	return false
}

func (a *vAckWorld) replyGate(w *vWorld, ev map[string]interface{}) {
	rid, _ := ev["rid"].(int64)
	if ct, _ := ev["ct"].(int); ct == int(protocol.COMMAND_LOCK) {
		a.mu.Lock()
		isAck := a.ackReq[rid]
		aofId, have := a.aofIds[rid]
		a.mu.Unlock()
		if isAck {
			ev["ackreq"] = true
			ev["pushed"] = have
			if have {
				ev["ondisk"] = a.onDisk(aofId)
			} else {
				ev["ondisk"] = false
			}
		}
	}
	if d, _ := ev["data"].(string); vEmptyFrame(d) {
		ev["data_empty"] = true
	}
	w.tr.Emit(ev)
}

// a value frame (hex, 4-byte length + type + flag + payload) whose payload is empty, or the number 0
func vEmptyFrame(h string) bool {
	if len(h) == 12 && h[:8] == "02000000" {
		return true
	}
	return len(h) == 28 && h[:10] == "0a00000000" && h[12:] == "0000000000000000"
}

func (a *vAckWorld) snap(final bool) {
	a.waitQuiescent()
	a.learnPending()
	ev := a.Snapshot()
	empty := [][]int64{}
	for _, k := range ev["keys"].([]vKeySnap) {
		if vEmptyFrame(k.Data) {
			empty = append(empty, []int64{int64(k.Db), k.Key})
		}
	}
	ev["empty"] = empty
	if final {
		ev["final"] = true
	}
	// followers / mode as configured right now (what UpdateDBAckCount sees)
	m := a.slock.replicationManager
	m.glock.Lock()
	ev["nf"] = len(m.serverChannels)
	m.glock.Unlock()
	ev["mode"] = int(Config.AofAckMode)
	ev["leader"] = a.slock.state == STATE_LEADER
	a.tr.Emit(ev)
}

func (a *vAckWorld) hold() {
	if !a.held {
		atomic.AddUint32(&a.slock.aof.channelActiveCount, 1)
		a.held = true
	}
}

// the "other busy channel" finishes: exactly Aof.waitLockAofChannel (decrement, flush when zero)
func (a *vAckWorld) release() {
	if a.held {
		a.held = false
		a.slock.aof.waitLockAofChannel(nil)
	}
}

func (a *vAckWorld) flush(ok bool) {
	aof := a.slock.aof
	aof.aofGlock.Lock()
	if aof.aofFile != nil {
		if !ok && !a.broken && aof.aofFile.file != nil {
			_ = aof.aofFile.file.Close() // every later write fails
			a.broken = true
		}
		_ = aof.aofFile.Flush()
	}
	aof.aofGlock.Unlock()
}

func (a *vAckWorld) issue(s *vAckStep) {
	id := s.Id
	if id == 0 {
		id = a.nextId
	}
	if id >= a.nextId {
		a.nextId = id + 1
	}
	r := &s.vReq
	if r.Op == "lock" && r.TFlag&int(protocol.TIMEOUT_FLAG_REQUIRE_ACKED) != 0 {
		a.mu.Lock()
		a.ackReq[id] = true
		a.mu.Unlock()
	}
	a.tr.Emit(a.reqEvent(id, r))
	a.curReq = id
	a.Issue(id, r)
	a.curReq = -1
	a.tr.Emit(map[string]interface{}{"e": "ret", "id": id, "t": a.sec(), "ms": a.ms()})
}

func (a *vAckWorld) tick(n int, snapEach bool) {
	for i := 0; i < n; i++ {
		a.waitQuiescent()
		a.Tick("te")
		a.waitQuiescent()
		a.tr.Emit(map[string]interface{}{"e": "tock", "t": a.now})
		if snapEach && i+1 < n {
			a.snap(false)
		}
	}
}

func (a *vAckWorld) runStep(s *vAckStep) {
	atomic.StoreInt32(&a.parkArm, 0)
	switch s.Op {
	case "lock", "unlock":
		a.issue(s)
	case "tick":
		n := s.N
		if n <= 0 {
			n = 1
		}
		a.tick(n, true)
	case "resume":
		a.tr.Emit(map[string]interface{}{"e": "resume", "t": a.now, "was_parked": atomic.LoadInt32(&a.parked) == 1})
		a.resume()
	case "flush":
		if s.Park && atomic.LoadInt32(&a.parked) == 0 {
			atomic.StoreInt32(&a.parkArm, 1)
		}
		a.tr.Emit(map[string]interface{}{"e": "flush", "ok": s.Ok, "t": a.now})
		a.flush(s.Ok)
	case "fack":
		a.mu.Lock()
		aofId, have := a.aofIds[s.Target]
		a.mu.Unlock()
		_, up := a.links[s.F]
		dup := a.acked[[2]int64{int64(s.F), s.Target}]
		if !have || !up || dup {
			a.tr.Emit(map[string]interface{}{"e": "fack", "f": s.F, "rid": s.Target, "res": s.Res, "skipped": true, "t": a.now})
			return
		}
		a.acked[[2]int64{int64(s.F), s.Target}] = true
		if s.Park && atomic.LoadInt32(&a.parked) == 0 {
			atomic.StoreInt32(&a.parkArm, 1)
		}
		a.tr.Emit(map[string]interface{}{"e": "fack", "f": s.F, "rid": s.Target, "res": s.Res, "skipped": false, "t": a.now,
			"aofid": hex.EncodeToString(aofId[:])})
		lr := &protocol.LockResultCommand{}
		lr.Magic, lr.Version, lr.CommandType = protocol.MAGIC, protocol.VERSION, protocol.COMMAND_LOCK
		lr.RequestId = aofId
		lr.Result = uint8(s.Res)
		lr.DbId = uint8(s.Db)
		lr.LockKey = vKey(s.Key)
		lr.LockId = vKey(s.Lid)
		// the frame travels through the codec like on the wire
		buf := make([]byte, 64)
		if err := lr.Encode(buf); err != nil {
			panic(err)
		}
		lr2 := &protocol.LockResultCommand{}
		if err := lr2.Decode(buf); err != nil {
			panic(err)
		}
		if err := a.slock.aof.loadLockAck(lr2); err != nil {
			panic(err)
		}
	case "cut":
		ch, up := a.links[s.F]
		a.tr.Emit(map[string]interface{}{"e": "cut", "f": s.F, "skipped": !up, "t": a.now})
		if up {
			m := a.slock.replicationManager
			ch.closed = true
			_ = m.removeServerChannel(ch)
			m.serverCount = 0
			delete(a.links, s.F)
		}
	case "demote":
		if a.demoted {
			a.tr.Emit(map[string]interface{}{"e": "demote", "skipped": true, "t": a.now})
			return
		}
		a.resume()
		a.tr.Emit(map[string]interface{}{"e": "demote", "skipped": false, "t": a.now})
		a.demoted = true
		atomic.StoreInt32(&a.inDemote, 1)
		defer atomic.StoreInt32(&a.inDemote, 0)
		done := make(chan error, 1)
		// the order of ArbiterManager.QuitLeader: SLock.updateState first (it switches the role under the shard
		// mutexes and then waits for the aof channels to flush - the busy "other channel" finishes now), then
		// ReplicationManager.SwitchToFollower("").  (Calling SwitchToFollower on a LEADER directly, as the admin
		// "slaveof" command and ArbiterManager's election-lost path do, self-deadlocks on ReplicationManager.glock:
		// updateState -> WaitServerSynced locks the mutex SwitchToFollower already holds.)
		go func() {
			a.slock.updateState(STATE_FOLLOWER)
			done <- a.slock.replicationManager.SwitchToFollower("")
		}()
		deadline := time.Now().Add(30 * time.Second)
		for a.slock.state == STATE_LEADER {
			if time.Now().After(deadline) {
				panic("verif: SwitchToFollower did not change the state")
			}
			time.Sleep(100 * time.Microsecond)
		}
		time.Sleep(2 * time.Millisecond)
		a.release()
		select {
		case <-done:
		case <-time.After(60 * time.Second):
			panic("verif: SwitchToFollower did not return within 60s")
		}
		a.tr.Emit(map[string]interface{}{"e": "status", "status": int(a.slock.state), "t": a.now})
	case "drain":
		// the busy channel finishes (last flush), every ack wait times out, every hold is released
		a.resume()
		a.tr.Emit(map[string]interface{}{"e": "drainbegin", "t": a.now})
		if !a.demoted {
			a.tr.Emit(map[string]interface{}{"e": "flush", "ok": !a.broken, "t": a.now, "drain": true})
			a.release()
			a.waitQuiescent()
			a.hold()
		}
		n := s.N
		if n <= 0 {
			n = 12
		}
		a.tick(n, true)
		a.snap(false)
		for round := 0; round < 8; round++ {
			a.waitQuiescent()
			snap := a.Snapshot()
			keys := snap["keys"].([]vKeySnap)
			any := false
			for _, k := range keys {
				for _, h := range k.Holders {
					any = true
					u := &vAckStep{vReq: vReq{Op: "unlock", Conn: 99, Db: k.Db, Key: k.Key, Lid: h.Lid, Rcount: 0}}
					id := a.nextId
					a.nextId++
					ev := a.reqEvent(id, &u.vReq)
					ev["drain"] = true
					a.tr.Emit(ev)
					a.curReq = id
					a.Issue(id, &u.vReq)
					a.curReq = -1
					a.tr.Emit(map[string]interface{}{"e": "ret", "id": id, "t": a.sec(), "ms": a.ms()})
					a.waitQuiescent()
				}
			}
			if !any || a.demoted {
				break
			}
		}
		if !a.demoted {
			a.release()
			a.waitQuiescent()
			a.hold()
		}
		a.tick(18, false)
		a.snap(true)
		return
	default:
		panic("unknown op " + s.Op)
	}
	a.snap(false)
}

func TestVerifAck(t *testing.T) {
	in, out := vEnvInOut(t)
	if in == "" {
		return
	}
	var scs []vAckScenario
	vReadJSONLines(in, func(line []byte) {
		var s vAckScenario
		vMustUnmarshal(line, &s)
		scs = append(scs, s)
	})
	tr := vOpenTrace(out)
	defer tr.Close()
	for i, sc := range scs {
		cfg := sc.Cfg
		cfg.Concurrent = 1
		w := vNewWorld(t, cfg, tr, 1000)
		a := &vAckWorld{vWorld: w, aofIds: map[int64][16]byte{}, ackReq: map[int64]bool{}, known: map[int64]bool{},
			links: map[int]*ReplicationServer{}, nextId: 1, parkCh: make(chan struct{}), acked: map[[2]int64]bool{}}
		w.gate = a.replyGate
		VerifPointFunc = a.hook
		Config.AofAckMode = uint(sc.Mode)
		m := w.slock.replicationManager
		for k := 1; k <= sc.Followers; k++ {
			ch := vAckNewFollower(m)
			_ = m.addServerChannel(ch)
			m.serverCount = 0 // no sender goroutines exist: WakeupServerChannel must not signal them
			a.links[k] = ch
		}
		_ = w.db(0)
		_ = m.GetOrNewAckDB(0)
		a.hold()
		tr.Emit(map[string]interface{}{"e": "begin", "name": sc.Name, "idx": i, "t": int64(1000), "mode": "ack",
			"followers": sc.Followers, "ackmode": sc.Mode})
		a.snap(false)
		for j := range sc.Steps {
			a.runStep(&sc.Steps[j])
		}
		tr.Emit(map[string]interface{}{"e": "end", "name": sc.Name, "idx": i, "t": w.now, "complete": sc.Complete})
		// tear down: no fake link may reach ReplicationManager.Close (it would dereference a nil protocol)
		a.waitQuiescent()
		if a.held {
			a.held = false
			atomic.AddUint32(&w.slock.aof.channelActiveCount, 0xffffffff)
		}
		m.glock.Lock()
		m.serverChannels = m.serverChannels[:0]
		m.serverCount = 0
		m.glock.Unlock()
		Config.AofAckMode = 0
		VerifPointFunc = nil
		w.Close(true)
	}
	_ = fmt.Sprintf
}

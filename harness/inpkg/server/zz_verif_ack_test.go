//go:build verif

package server

// Engine A (C11): leader-local replay of ack-required locks.
//
// A real leader SLock (vNewWorld: real LockDB, real AofChannel goroutines, real Aof on a scratch
// directory, real ReplicationManager / ReplicationAckDB) is driven step by step by a scenario
// that is a behaviour of spec/AckQuorum.tla (or a seeded / directed history in the same step
// format).  The two sides of the handshake that normally need other processes are played by
// the driver through the SAME entry points the real peers use:
//
//   - follower k acknowledges record R with result x  ->  Aof.loadLockAck(LockResultCommand)
//     (exactly what ReplicationServer.RecvProcess calls after decoding the 64-byte ack frame),
//     handled by the shard's AofChannel goroutine -> ReplicationAckDB.ProcessLeaderAcked;
//   - the leader's own buffer flush                   ->  Aof.aofGlock + AofFile.Flush()
//     (what Aof.waitLockAofChannel does when the last busy channel goes idle) -> Aof.lockAcked ->
//     AofChannel.AofAcked -> ReplicationAckDB.ProcessLeaderAofed.  The spontaneous idle flush is
//     held back for the whole history by keeping Aof.channelActiveCount one above zero, i.e. the
//     state "some other shard's channel is still busy".  The flush is TWO writes (64-byte entries to
//     append.aof.N, value frames to append.aof.N.dat): a failing write of either file alone is produced
//     inside hook "aof.flush.enter" by swapping that file's handle for /dev/full (ENOSPC on every
//     write) and swapping it back when the step says the file works again; hook "aof.flush.mid"
//     (between the two writes) can hold the flush until the channel goroutine has handled whatever
//     the first half already sent it;
//   - follower links are *ReplicationServer entries in ReplicationManager.serverChannels (added
//     with addServerChannel, removed with removeServerChannel = what commandHandleSyncCommand does
//     when RecvProcess returns), so ReplicationManager.UpdateDBAckCount computes the quorum itself;
//   - demotion is the real ReplicationManager.SwitchToFollower("").
//
// Observations written to the ndjson trace: every request / reply / return (as engine S), the
// driver's ack-side events, for every reply of an ack-required lock whether its record is in the
// leader's append file ON DISK at the moment of the reply (file re-read inside the reply
// callback), and a canonical snapshot at every quiescent point.  The trace is validated by TLC
// against spec/mon/MonAck.tla.

import (
	"encoding/hex"
	"fmt"
	"net"
	"os"
	"path/filepath"
	"sort"
	"strings"
	"sync"
	"sync/atomic"
	"testing"
	"time"

	"github.com/snower/slock/client"
	"github.com/snower/slock/protocol"
)

type vAckStep struct {
	vReq
	Id  int64 `json:"id"`  // explicit request id (0: next free)
	F   int   `json:"f"`   // follower index 1..n (fack, cut)
	Res int   `json:"res"` // result code carried by a follower ack (0 = positive)
	// Park: the channel goroutine that handles this fack / flush is held at the entry of LockDB.DoAckLock
	// (hook "ack.enter", before the shard mutex is taken) until a later "resume" step: ack-vs-timeout and
	// ack-vs-request races
	Park bool `json:"park"`
	// flush: outcome of the two writes, "" (legacy: Ok=false breaks the record file for good), "ok" (the file works
	// (again)), "fail" (every write to it fails from now on); Mid: the flush waits between its two writes until the
	// shard's channel goroutine is idle
	Rec string `json:"rec"`
	Val string `json:"val"`
	Mid bool   `json:"mid"`
}

// where the value frame of a LOCK record was to be written by the flush that carried it
type vAckValExp struct {
	has   bool // the record has AOF_FLAG_CONTAINS_DATA
	known bool // the value buffer of that flush could be attributed frame by frame
	path  string
	off   int64
	data  []byte
}

type vAckScenario struct {
	Name      string     `json:"name"`
	Cfg       vWorldCfg  `json:"cfg"`
	Followers int        `json:"followers"`
	Mode      int        `json:"mode"` // Config.AofAckMode: 0/2 all, 1 majority
	Steps     []vAckStep `json:"steps"`
	Complete  bool       `json:"complete"`
}

type vAckWorld struct {
	*vWorld
	mu       sync.Mutex
	aofIds   map[int64][16]byte // request id -> aof id of its pushed record
	ackReq   map[int64]bool     // request ids of lock requests carrying the require-ack flag
	known    map[int64]bool     // pend event already emitted
	links    map[int]*ReplicationServer
	held     bool // channelActiveCount is held one above zero
	recBroken bool // writes to the record file fail (its handle is swapped for /dev/full)
	valBroken bool // writes to the value file fail
	origRec  map[*AofFile]*os.File
	origVal  map[*AofFile]*os.File
	fullRec  map[*AofFile]*os.File
	fullVal  map[*AofFile]*os.File
	toClose  []*os.File
	midWait  bool   // the flush in progress waits at "aof.flush.mid" for the channel goroutine
	flushCtx string // who asked for the flush that is running (step / drain / demote / auto)
	valExp   map[[16]byte]*vAckValExp
	demoted  bool
	nextId   int64
	parkArm  int32         // 1: the next DoAckLock entered by a channel goroutine parks
	parked   int32         // 1: a goroutine is parked at ack.enter
	parkCh   chan struct{} // closed / signalled by "resume"
	inDemote int32
	acked    map[[2]int64]bool // (follower, request): a follower sends exactly one ack frame per record
}

func vAckFullHandle() *os.File {
	f, err := os.OpenFile("/dev/full", os.O_WRONLY, 0)
	if err == nil {
		return f
	}
	// no /dev/full: a closed descriptor fails every write as well
	t, terr := os.CreateTemp("", "vackclosed")
	if terr != nil {
		panic(terr)
	}
	_ = os.Remove(t.Name())
	_ = t.Close()
	return t
}

// called at the first line of AofFile.Flush (under Aof.aofGlock): make the two files fail / work as the history says
func (a *vAckWorld) applyFaults(af *AofFile) {
	if a.recBroken {
		if af.file != nil && a.fullRec[af] != af.file {
			a.origRec[af] = af.file
			a.fullRec[af] = vAckFullHandle()
			a.toClose = append(a.toClose, af.file)
			af.file = a.fullRec[af]
		}
	} else if o, ok := a.origRec[af]; ok {
		if af.file == a.fullRec[af] {
			_ = af.file.Close()
			af.file = o
		}
		delete(a.origRec, af)
		delete(a.fullRec, af)
	}
	if a.valBroken {
		if af.dataFile != nil && a.fullVal[af] != af.dataFile {
			a.origVal[af] = af.dataFile
			a.fullVal[af] = vAckFullHandle()
			a.toClose = append(a.toClose, af.dataFile)
			af.dataFile = a.fullVal[af]
		}
	} else if o, ok := a.origVal[af]; ok {
		if af.dataFile == a.fullVal[af] {
			_ = af.dataFile.Close()
			af.dataFile = o
		}
		delete(a.origVal, af)
		delete(a.fullVal, af)
	}
}

// the flush that starts now: which ack records are in the entry buffer, which of them carry a value frame and where in
// the value file that frame is to land; what the two writes will do.  Emits the "flush" event.
func (a *vAckWorld) observeFlush(af *AofFile) {
	nrec := af.windex / 64
	recFail := a.recBroken && af.file != nil && af.windex > 0
	valFail := !recFail && a.valBroken && af.dataFile != nil && af.dwindex > 0
	datPath := af.filename + ".dat"
	base := int64(0)
	if fi, err := os.Stat(datPath); err == nil {
		base = fi.Size()
	}
	type rec struct {
		aofId [16]byte
		has   bool
		ack   bool
		off   int64
		data  []byte
	}
	var rs []rec
	dpos, matched := 0, true
	for i := 0; i < nrec; i++ {
		b := af.wbuf[i*64 : (i+1)*64]
		var id [16]byte
		copy(id[:], b[3:19])
		aofFlag := uint16(b[55]) | uint16(b[56])<<8
		r := rec{aofId: id, has: aofFlag&AOF_FLAG_CONTAINS_DATA != 0, ack: aofFlag&AOF_FLAG_REQUIRE_ACKED != 0 && b[2] == protocol.COMMAND_LOCK}
		if r.has && matched {
			if dpos+4 > af.dwindex {
				matched = false
			} else {
				l := int(uint32(af.dwbuf[dpos]) | uint32(af.dwbuf[dpos+1])<<8 | uint32(af.dwbuf[dpos+2])<<16 | uint32(af.dwbuf[dpos+3])<<24)
				if dpos+4+l > af.dwindex {
					matched = false
				} else {
					r.off = base + int64(dpos)
					r.data = append([]byte{}, af.dwbuf[dpos:dpos+4+l]...)
					dpos += 4 + l
				}
			}
		}
		rs = append(rs, r)
	}
	if dpos != af.dwindex {
		matched = false
	}
	recs := []map[string]interface{}{}
	a.mu.Lock()
	byAof := map[[16]byte]int64{}
	for rid, id := range a.aofIds {
		byAof[id] = rid
	}
	for _, r := range rs {
		a.valExp[r.aofId] = &vAckValExp{has: r.has, known: matched, path: datPath, off: r.off, data: r.data}
		if rid, ok := byAof[r.aofId]; ok && r.ack {
			recs = append(recs, map[string]interface{}{"rid": rid, "hv": r.has})
		}
	}
	a.mu.Unlock()
	a.tr.Emit(map[string]interface{}{"e": "flush", "ok": !(recFail || valFail), "rec": !recFail, "val": !valFail, "nrec": nrec, "ndat": af.dwindex,
		"recs": recs, "ctx": a.flushCtx, "mid": a.midWait, "t": a.now})
}

func (a *vAckWorld) hook(name string, x interface{}, y interface{}) {
	if name == "aof.flush.enter" {
		// every record in the write buffer is registered by now: learn the aof ids of the pending requests before
		// the flush can complete any of them (the channel goroutine may have been parked while they were pushed)
		a.learnPending()
		if af, _ := x.(*AofFile); af != nil && af.mode == os.O_WRONLY && af.wbuf != nil {
			a.applyFaults(af)
			a.observeFlush(af)
		}
		return
	}
	if name == "aof.flush.mid" {
		if a.midWait {
			idle := a.waitIdleBounded(400 * time.Millisecond)
			a.tr.Emit(map[string]interface{}{"e": "flushmid", "idle": idle, "t": a.now})
		}
		return
	}
	if name != "ack.enter" || atomic.LoadInt32(&a.inDemote) != 0 {
		return
	}
	if atomic.CompareAndSwapInt32(&a.parkArm, 1, 0) {
		lk, _ := x.(*Lock)
		rid := int64(-1)
		if lk != nil && lk.command != nil {
			rid = vReqIdInt(lk.command.RequestId)
		}
		ok, _ := y.(bool)
		a.tr.Emit(map[string]interface{}{"e": "parked", "rid": rid, "succed": ok, "t": a.now})
		atomic.StoreInt32(&a.parked, 1)
		<-a.parkCh
		atomic.StoreInt32(&a.parked, 0)
	}
}

// between the two writes of a flush: let the shard's channel goroutine handle what it has been sent so far (nothing, in
// the code as it is); bounded, because an item that needs Aof.aofGlock would wait for this very flush
func (a *vAckWorld) waitIdleBounded(d time.Duration) bool {
	deadline := time.Now().Add(d)
	okPasses := 0
	for okPasses < 3 {
		if a.channelsIdle() {
			okPasses++
		} else {
			okPasses = 0
		}
		if okPasses < 3 {
			if time.Now().After(deadline) {
				return false
			}
			time.Sleep(200 * time.Microsecond)
		}
	}
	return true
}

func (a *vAckWorld) resume() {
	if atomic.LoadInt32(&a.parked) == 1 {
		a.parkCh <- struct{}{}
		for atomic.LoadInt32(&a.parked) == 1 {
			time.Sleep(50 * time.Microsecond)
		}
	}
	atomic.StoreInt32(&a.parkArm, 0)
}

func vAckNewFollower(m *ReplicationManager) *ReplicationServer {
	waofLock := NewAofLock()
	return &ReplicationServer{manager: m, glock: &sync.Mutex{}, aof: m.slock.GetAof(), raofLock: NewAofLock(), waofLock: waofLock,
		bufferCursor: NewReplicationBufferQueueCursor(waofLock.buf), state: &ReplicationServerState{}, pulledState: 2,
		pulledWaiter: make(chan struct{}, 1), closedWaiter: make(chan struct{})}
}

// quiescent: every AofChannel of every db has an empty queue and is parked.  Scenarios use one
// shard per db (DBConcurrent = 1) and one db, so a single channel decides; two consecutive idle
// passes are required anyway.
func (a *vAckWorld) channelsIdle() bool {
	if atomic.LoadInt32(&a.parked) == 1 {
		return true // the channel goroutine stands at the gate in front of DoAckLock, outside every mutex
	}
	aof := a.slock.aof
	aof.glock.Lock()
	chans := append([]*AofChannel{}, aof.channels...)
	aof.glock.Unlock()
	for _, c := range chans {
		c.queueGlock.Lock()
		idle := c.queueCount == 0 && (c.queuePulled || c.closed)
		c.queueGlock.Unlock()
		if !idle {
			return false
		}
	}
	return true
}

func (a *vAckWorld) waitQuiescent() {
	deadline := time.Now().Add(60 * time.Second)
	okPasses := 0
	for okPasses < 3 {
		if a.channelsIdle() {
			okPasses++
		} else {
			okPasses = 0
		}
		if okPasses < 3 {
			time.Sleep(200 * time.Microsecond)
		}
		if time.Now().After(deadline) {
			panic("verif: aof channels did not become idle within 60s")
		}
	}
}

// learn the aof ids of newly registered ack requests from the leader's ack table
func (a *vAckWorld) learnPending() {
	for dbId, adb := range a.slock.replicationManager.ackDbs {
		if adb == nil {
			continue
		}
		for i := uint16(0); i < adb.ackMaxGlocks; i++ {
			adb.ackGlocks[i].Lock()
			type ent struct {
				rid   int64
				aofId [16]byte
				need  int
			}
			var ents []ent
			for reqId, aofId := range adb.commandAofs[i] {
				rid := vReqIdInt(reqId)
				need := -1
				if l, ok := adb.aofLocks[i][aofId]; ok {
					need = int(l.ackCount)
				}
				ents = append(ents, ent{rid, aofId, need})
			}
			adb.ackGlocks[i].Unlock()
			sort.Slice(ents, func(x, y int) bool { return ents[x].rid < ents[y].rid })
			for _, e := range ents {
				a.mu.Lock()
				a.aofIds[e.rid] = e.aofId
				seen := a.known[e.rid]
				a.known[e.rid] = true
				a.mu.Unlock()
				if !seen {
					a.tr.Emit(map[string]interface{}{"e": "pend", "rid": e.rid, "db": dbId, "aofid": hex.EncodeToString(e.aofId[:]),
						"need": e.need, "t": a.now})
				}
			}
		}
	}
}

// is the LOCK record with this aof id in an append file on disk right now?
func (a *vAckWorld) onDisk(aofId [16]byte) bool {
	files, _ := filepath.Glob(filepath.Join(a.dir, "append.aof.*"))
	for _, f := range files {
		if strings.HasSuffix(f, ".dat") {
			continue
		}
		b, err := os.ReadFile(f)
		if err != nil || len(b) < 12 {
			continue
		}
		hl := int(b[10]) | int(b[11])<<8
		for off := 12 + hl; off+64 <= len(b); off += 64 {
			rec := b[off : off+64]
			if rec[2] != protocol.COMMAND_LOCK {
				continue
			}
			same := true
			for j := 0; j < 16; j++ {
				if rec[3+j] != aofId[j] {
					same = false
					break
				}
			}
			if same {
				return true
			}
		}
	}
	return false
}

func vAckValOnDisk(exp *vAckValExp) bool {
	f, err := os.Open(exp.path)
	if err != nil {
		return false
	}
	defer f.Close()
	b := make([]byte, len(exp.data))
	n, _ := f.ReadAt(b, exp.off)
	if n != len(b) {
		return false
	}
	for i := range b {
		if b[i] != exp.data[i] {
			return false
		}
	}
	return true
}

func (a *vAckWorld) replyGate(w *vWorld, ev map[string]interface{}) {
	rid, _ := ev["rid"].(int64)
	if ct, _ := ev["ct"].(int); ct == int(protocol.COMMAND_LOCK) {
		a.mu.Lock()
		isAck := a.ackReq[rid]
		aofId, have := a.aofIds[rid]
		a.mu.Unlock()
		if isAck {
			ev["ackreq"] = true
			ev["pushed"] = have
			if have {
				ev["ondisk"] = a.onDisk(aofId)
				// the value frame of the record, when it carries one: in the value file where its flush put it?
				a.mu.Lock()
				exp := a.valExp[aofId]
				a.mu.Unlock()
				if exp != nil {
					ev["hasval"] = exp.has
					if exp.has {
						ev["valknown"] = exp.known
						ev["valondisk"] = exp.known && vAckValOnDisk(exp)
					}
				}
			} else {
				ev["ondisk"] = false
			}
		}
	}
	if d, _ := ev["data"].(string); vEmptyFrame(d) {
		ev["data_empty"] = true
	}
	w.tr.Emit(ev)
}

// a value frame (hex, 4-byte length + type + flag + payload) whose payload is empty, or the number 0
func vEmptyFrame(h string) bool {
	if len(h) == 12 && h[:8] == "02000000" {
		return true
	}
	return len(h) == 28 && h[:10] == "0a00000000" && h[12:] == "0000000000000000"
}

func (a *vAckWorld) snap(final bool) {
	a.waitQuiescent()
	a.learnPending()
	ev := a.Snapshot()
	empty := [][]int64{}
	for _, k := range ev["keys"].([]vKeySnap) {
		if vEmptyFrame(k.Data) {
			empty = append(empty, []int64{int64(k.Db), k.Key})
		}
	}
	ev["empty"] = empty
	// state class of every key's value: none (no value object) / unset (object present, marked unset) / value / props (value
	// with a property header)
	vcls := [][]interface{}{}
	for _, k := range ev["keys"].([]vKeySnap) {
		c := "none"
		if k.HasData {
			c = "unset"
			if len(k.Data) >= 12 {
				c = "value"
				if b, err := hex.DecodeString(k.Data[10:12]); err == nil && b[0]&0x10 != 0 {
					c = "props"
				}
			}
		}
		vcls = append(vcls, []interface{}{int64(k.Db), k.Key, c})
	}
	ev["vcls"] = vcls
	if final {
		ev["final"] = true
	}
	// followers / mode as configured right now (what UpdateDBAckCount sees)
	m := a.slock.replicationManager
	m.glock.Lock()
	ev["nf"] = len(m.serverChannels)
	m.glock.Unlock()
	ev["mode"] = int(Config.AofAckMode)
	ev["leader"] = a.slock.state == STATE_LEADER
	a.tr.Emit(ev)
}

func (a *vAckWorld) hold() {
	if !a.held {
		atomic.AddUint32(&a.slock.aof.channelActiveCount, 1)
		a.held = true
	}
}

// the "other busy channel" finishes: exactly Aof.waitLockAofChannel (decrement, flush when zero)
func (a *vAckWorld) release() {
	if a.held {
		a.held = false
		a.slock.aof.waitLockAofChannel(nil)
	}
}

func (a *vAckWorld) flush(s *vAckStep) {
	switch s.Rec {
	case "ok":
		a.recBroken = false
	case "fail":
		a.recBroken = true
	default:
		if !s.Ok {
			a.recBroken = true // legacy step format: the record file fails for good
		}
	}
	switch s.Val {
	case "ok":
		a.valBroken = false
	case "fail":
		a.valBroken = true
	}
	aof := a.slock.aof
	aof.aofGlock.Lock()
	a.midWait, a.flushCtx = s.Mid, "step"
	if aof.aofFile != nil {
		_ = aof.aofFile.Flush()
	}
	a.midWait, a.flushCtx = false, "auto"
	aof.aofGlock.Unlock()
}

func (a *vAckWorld) issue(s *vAckStep) {
	id := s.Id
	if id == 0 {
		id = a.nextId
	}
	if id >= a.nextId {
		a.nextId = id + 1
	}
	r := &s.vReq
	if r.Op == "lock" && r.TFlag&int(protocol.TIMEOUT_FLAG_REQUIRE_ACKED) != 0 {
		a.mu.Lock()
		a.ackReq[id] = true
		a.mu.Unlock()
	}
	rev := a.reqEvent(id, r)
	// the value operation of the request, decoded (for the record only: which kind of operation a judged request carried)
	op, subs := vAckDecodeOp(r.Data)
	rev["dop"], rev["dsubs"] = op, subs
	a.tr.Emit(rev)
	a.curReq = id
	a.Issue(id, r)
	a.curReq = -1
	a.tr.Emit(map[string]interface{}{"e": "ret", "id": id, "t": a.sec(), "ms": a.ms()})
}

var vAckOpNames = map[int]string{0: "SET", 1: "UNSET", 2: "INCR", 3: "APPEND", 4: "SHIFT", 5: "EXECUTE", 6: "PIPELINE", 7: "PUSH", 8: "POP"}

// operation name of a value frame (hex) and, for a PIPELINE, of its sub-frames (nested pipelines flattened)
func vAckDecodeOp(h string) (string, []string) {
	subs := []string{}
	b, err := hex.DecodeString(h)
	if err != nil || len(b) < 6 {
		return "", subs
	}
	name := func(c byte) string {
		if n, ok := vAckOpNames[int(c&0x3f)]; ok {
			return n
		}
		return fmt.Sprintf("OP%d", int(c&0x3f))
	}
	var walk func(f []byte)
	walk = func(f []byte) {
		off := 6
		if f[5]&0x10 != 0 && len(f) >= 8 {
			off = 8 + int(f[6]) + int(f[7])<<8
		}
		if off > len(f) {
			return
		}
		pl := f[off:]
		for i := 0; i+4 <= len(pl); {
			n := int(pl[i]) | int(pl[i+1])<<8 | int(pl[i+2])<<16 | int(pl[i+3])<<24
			if n < 2 || i+4+n > len(pl) {
				break
			}
			sf := pl[i : i+4+n]
			if sf[4]&0x3f == 6 {
				walk(sf)
			} else {
				subs = append(subs, name(sf[4]))
			}
			i += 4 + n
		}
	}
	if b[4]&0x3f == 6 {
		walk(b)
	}
	return name(b[4]), subs
}

func (a *vAckWorld) tick(n int, snapEach bool) {
	for i := 0; i < n; i++ {
		a.waitQuiescent()
		a.Tick("te")
		a.waitQuiescent()
		a.tr.Emit(map[string]interface{}{"e": "tock", "t": a.now})
		if snapEach && i+1 < n {
			a.snap(false)
		}
	}
}

func (a *vAckWorld) runStep(s *vAckStep) {
	atomic.StoreInt32(&a.parkArm, 0)
	switch s.Op {
	case "lock", "unlock":
		a.issue(s)
	case "tick":
		n := s.N
		if n <= 0 {
			n = 1
		}
		a.tick(n, true)
	case "resume":
		a.tr.Emit(map[string]interface{}{"e": "resume", "t": a.now, "was_parked": atomic.LoadInt32(&a.parked) == 1})
		a.resume()
	case "flush":
		if s.Park && atomic.LoadInt32(&a.parked) == 0 {
			atomic.StoreInt32(&a.parkArm, 1)
		}
		a.flush(s)
	case "fack":
		a.mu.Lock()
		aofId, have := a.aofIds[s.Target]
		a.mu.Unlock()
		_, up := a.links[s.F]
		dup := a.acked[[2]int64{int64(s.F), s.Target}]
		if !have || !up || dup {
			a.tr.Emit(map[string]interface{}{"e": "fack", "f": s.F, "rid": s.Target, "res": s.Res, "skipped": true, "t": a.now})
			return
		}
		a.acked[[2]int64{int64(s.F), s.Target}] = true
		if s.Park && atomic.LoadInt32(&a.parked) == 0 {
			atomic.StoreInt32(&a.parkArm, 1)
		}
		a.tr.Emit(map[string]interface{}{"e": "fack", "f": s.F, "rid": s.Target, "res": s.Res, "skipped": false, "t": a.now,
			"aofid": hex.EncodeToString(aofId[:])})
		lr := &protocol.LockResultCommand{}
		lr.Magic, lr.Version, lr.CommandType = protocol.MAGIC, protocol.VERSION, protocol.COMMAND_LOCK
		lr.RequestId = aofId
		lr.Result = uint8(s.Res)
		lr.DbId = uint8(s.Db)
		lr.LockKey = vKey(s.Key)
		lr.LockId = vKey(s.Lid)
		// the frame travels through the codec like on the wire
		buf := make([]byte, 64)
		if err := lr.Encode(buf); err != nil {
			panic(err)
		}
		lr2 := &protocol.LockResultCommand{}
		if err := lr2.Decode(buf); err != nil {
			panic(err)
		}
		if err := a.slock.aof.loadLockAck(lr2); err != nil {
			panic(err)
		}
	case "cut":
		ch, up := a.links[s.F]
		a.tr.Emit(map[string]interface{}{"e": "cut", "f": s.F, "skipped": !up, "t": a.now})
		if up {
			m := a.slock.replicationManager
			ch.closed = true
			_ = m.removeServerChannel(ch)
			m.serverCount = 0
			delete(a.links, s.F)
		}
	case "demote":
		if a.demoted {
			a.tr.Emit(map[string]interface{}{"e": "demote", "skipped": true, "t": a.now})
			return
		}
		a.resume()
		a.tr.Emit(map[string]interface{}{"e": "demote", "skipped": false, "t": a.now})
		a.demoted = true
		a.flushCtx = "demote"
		atomic.StoreInt32(&a.inDemote, 1)
		defer atomic.StoreInt32(&a.inDemote, 0)
		done := make(chan error, 1)
		// the order of ArbiterManager.QuitLeader: SLock.updateState first (it switches the role under the shard
		// mutexes and then waits for the aof channels to flush - the busy "other channel" finishes now), then
		// ReplicationManager.SwitchToFollower("").  (Calling SwitchToFollower on a LEADER directly, as the admin
		// "slaveof" command and ArbiterManager's election-lost path do, self-deadlocks on ReplicationManager.glock:
		// updateState -> WaitServerSynced locks the mutex SwitchToFollower already holds.)
		go func() {
			a.slock.updateState(STATE_FOLLOWER)
			done <- a.slock.replicationManager.SwitchToFollower("")
		}()
		deadline := time.Now().Add(30 * time.Second)
		for a.slock.state == STATE_LEADER {
			if time.Now().After(deadline) {
				panic("verif: SwitchToFollower did not change the state")
			}
			time.Sleep(100 * time.Microsecond)
		}
		time.Sleep(2 * time.Millisecond)
		a.release()
		select {
		case <-done:
		case <-time.After(60 * time.Second):
			panic("verif: SwitchToFollower did not return within 60s")
		}
		a.flushCtx = "auto"
		a.tr.Emit(map[string]interface{}{"e": "status", "status": int(a.slock.state), "t": a.now})
	case "drain":
		// the busy channel finishes (last flush), every ack wait times out, every hold is released
		a.resume()
		a.tr.Emit(map[string]interface{}{"e": "drainbegin", "t": a.now})
		if !a.demoted {
			a.flushCtx = "drain"
			a.release()
			a.waitQuiescent()
			a.hold()
		}
		n := s.N
		if n <= 0 {
			n = 12
		}
		a.tick(n, true)
		a.snap(false)
		for round := 0; round < 8; round++ {
			a.waitQuiescent()
			snap := a.Snapshot()
			keys := snap["keys"].([]vKeySnap)
			any := false
			for _, k := range keys {
				for _, h := range k.Holders {
					any = true
					u := &vAckStep{vReq: vReq{Op: "unlock", Conn: 99, Db: k.Db, Key: k.Key, Lid: h.Lid, Rcount: 0}}
					id := a.nextId
					a.nextId++
					ev := a.reqEvent(id, &u.vReq)
					ev["drain"] = true
					a.tr.Emit(ev)
					a.curReq = id
					a.Issue(id, &u.vReq)
					a.curReq = -1
					a.tr.Emit(map[string]interface{}{"e": "ret", "id": id, "t": a.sec(), "ms": a.ms()})
					a.waitQuiescent()
				}
			}
			if !any || a.demoted {
				break
			}
		}
		if !a.demoted {
			a.release()
			a.waitQuiescent()
			a.hold()
		}
		a.flushCtx = "auto"
		a.tick(18, false)
		a.snap(true)
		return
	default:
		panic("unknown op " + s.Op)
	}
	a.snap(false)
}

func TestVerifAck(t *testing.T) {
	in, out := vEnvInOut(t)
	if in == "" {
		return
	}
	var scs []vAckScenario
	vReadJSONLines(in, func(line []byte) {
		var s vAckScenario
		vMustUnmarshal(line, &s)
		scs = append(scs, s)
	})
	tr := vOpenTrace(out)
	defer tr.Close()
	for i, sc := range scs {
		cfg := sc.Cfg
		cfg.Concurrent = 1
		w := vNewWorld(t, cfg, tr, 1000)
		a := &vAckWorld{vWorld: w, aofIds: map[int64][16]byte{}, ackReq: map[int64]bool{}, known: map[int64]bool{},
			links: map[int]*ReplicationServer{}, nextId: 1, parkCh: make(chan struct{}), acked: map[[2]int64]bool{},
			origRec: map[*AofFile]*os.File{}, origVal: map[*AofFile]*os.File{}, fullRec: map[*AofFile]*os.File{}, fullVal: map[*AofFile]*os.File{},
			valExp: map[[16]byte]*vAckValExp{}, flushCtx: "auto"}
		w.gate = a.replyGate
		VerifPointFunc = a.hook
		Config.AofAckMode = uint(sc.Mode)
		m := w.slock.replicationManager
		for k := 1; k <= sc.Followers; k++ {
			ch := vAckNewFollower(m)
			_ = m.addServerChannel(ch)
			m.serverCount = 0 // no sender goroutines exist: WakeupServerChannel must not signal them
			a.links[k] = ch
		}
		_ = w.db(0)
		_ = m.GetOrNewAckDB(0)
		a.hold()
		tr.Emit(map[string]interface{}{"e": "begin", "name": sc.Name, "idx": i, "t": int64(1000), "mode": "ack",
			"followers": sc.Followers, "ackmode": sc.Mode})
		a.snap(false)
		for j := range sc.Steps {
			a.runStep(&sc.Steps[j])
		}
		tr.Emit(map[string]interface{}{"e": "end", "name": sc.Name, "idx": i, "t": w.now, "complete": sc.Complete})
		// tear down: no fake link may reach ReplicationManager.Close (it would dereference a nil protocol)
		a.waitQuiescent()
		if a.held {
			a.held = false
			atomic.AddUint32(&w.slock.aof.channelActiveCount, 0xffffffff)
		}
		m.glock.Lock()
		m.serverChannels = m.serverChannels[:0]
		m.serverCount = 0
		m.glock.Unlock()
		Config.AofAckMode = 0
		VerifPointFunc = nil
		w.Close(true)
		for _, f := range a.toClose {
			_ = f.Close()
		}
	}
	_ = fmt.Sprintf
}

// ---------------------------------------------------------------------------------------------
// Engine A, follower part: the same AofFile.Flush runs on followers.  A real node in the follower
// role (demoted through the real updateState / SwitchToFollower) gets the records of ack-required
// locks the way ReplicationClient.Process hands them on: Aof.AppendLock (what ProcessAofAppend
// does) and Aof.ReplayLock (what ProcessReplayLock does), in either order; the driver flushes the
// follower's log with the same per-file failures as on the leader.  The ack frame the node sends
// to its leader is captured on the connection of a ReplicationClient (the stream's net.Conn is
// the recorder); at that moment the follower's two log files are re-read.

type vAckFConn struct {
	a *vAckWorld
}

func (c *vAckFConn) Read(b []byte) (int, error)         { select {} }
func (c *vAckFConn) Close() error                       { return nil }
func (c *vAckFConn) LocalAddr() net.Addr                { return &net.TCPAddr{} }
func (c *vAckFConn) RemoteAddr() net.Addr               { return &net.TCPAddr{} }
func (c *vAckFConn) SetDeadline(t time.Time) error      { return nil }
func (c *vAckFConn) SetReadDeadline(t time.Time) error  { return nil }
func (c *vAckFConn) SetWriteDeadline(t time.Time) error { return nil }
func (c *vAckFConn) Write(b []byte) (int, error) {
	a := c.a
	for off := 0; off+64 <= len(b); off += 64 {
		lr := &protocol.LockResultCommand{}
		if err := lr.Decode(b[off : off+64]); err != nil {
			a.tr.Emit(map[string]interface{}{"e": "fsent", "id": int64(-1), "undecodable": true, "t": a.now})
			continue
		}
		aofId := lr.RequestId
		a.mu.Lock()
		id := int64(-1)
		for rid, x := range a.aofIds {
			if x == aofId {
				id = rid
			}
		}
		exp := a.valExp[aofId]
		a.mu.Unlock()
		ev := map[string]interface{}{"e": "fsent", "id": id, "aofid": hex.EncodeToString(aofId[:]), "res": int(lr.Result), "t": a.now,
			"entry": a.onDisk(aofId)}
		if exp != nil {
			ev["hasval"] = exp.has
			if exp.has {
				ev["valknown"] = exp.known
				ev["valondisk"] = exp.known && vAckValOnDisk(exp)
			}
		}
		a.tr.Emit(ev)
	}
	return len(b), nil
}

type vAckFScenario struct {
	Name  string     `json:"name"`
	Cfg   vWorldCfg  `json:"cfg"`
	Steps []vAckStep `json:"steps"`
}

func (a *vAckWorld) fRecord(s *vAckStep, recs map[int64]*AofLock) *AofLock {
	if l, ok := recs[s.Id]; ok {
		return l
	}
	aof := a.slock.aof
	l := NewAofLock()
	l.CommandType = protocol.COMMAND_LOCK
	l.AofIndex = aof.aofFileIndex
	l.AofOffset = aof.aofFileOffset + uint32(len(recs)) + 1
	l.CommandTime = uint64(a.now)
	l.DbId = uint8(s.Db)
	l.LockId = vKey(s.Lid)
	l.LockKey = vKey(s.Key)
	l.ExpriedTime = uint16(s.Expried)
	l.Count = uint16(s.Count)
	if s.TFlag&int(protocol.TIMEOUT_FLAG_REQUIRE_ACKED) != 0 {
		l.AofFlag |= AOF_FLAG_REQUIRE_ACKED
	}
	if s.Data != "" {
		b, err := hex.DecodeString(s.Data)
		if err != nil {
			panic(err)
		}
		l.AofFlag |= AOF_FLAG_CONTAINS_DATA
		l.data = b
	}
	if err := l.Encode(); err != nil {
		panic(err)
	}
	recs[s.Id] = l
	aofId := l.GetAofId()
	a.mu.Lock()
	a.aofIds[s.Id] = aofId
	a.mu.Unlock()
	a.tr.Emit(map[string]interface{}{"e": "frec", "id": s.Id, "aofid": hex.EncodeToString(aofId[:]), "ack": l.AofFlag&AOF_FLAG_REQUIRE_ACKED != 0,
		"hasval": l.AofFlag&AOF_FLAG_CONTAINS_DATA != 0, "key": s.Key, "lid": s.Lid, "t": a.now})
	return l
}

func TestVerifAckFollower(t *testing.T) {
	in, out := vEnvInOut(t)
	if in == "" {
		return
	}
	var scs []vAckFScenario
	vReadJSONLines(in, func(line []byte) {
		var s vAckFScenario
		vMustUnmarshal(line, &s)
		scs = append(scs, s)
	})
	tr := vOpenTrace(out)
	defer tr.Close()
	for i, sc := range scs {
		cfg := sc.Cfg
		cfg.Concurrent = 1
		w := vNewWorld(t, cfg, tr, 1000)
		a := &vAckWorld{vWorld: w, aofIds: map[int64][16]byte{}, ackReq: map[int64]bool{}, known: map[int64]bool{},
			links: map[int]*ReplicationServer{}, nextId: 1, parkCh: make(chan struct{}), acked: map[[2]int64]bool{},
			origRec: map[*AofFile]*os.File{}, origVal: map[*AofFile]*os.File{}, fullRec: map[*AofFile]*os.File{}, fullVal: map[*AofFile]*os.File{},
			valExp: map[[16]byte]*vAckValExp{}, flushCtx: "auto"}
		m := w.slock.replicationManager
		_ = w.db(0)
		// the node becomes a follower the way ArbiterManager.QuitLeader does it
		done := make(chan error, 1)
		go func() {
			w.slock.updateState(STATE_FOLLOWER)
			done <- m.SwitchToFollower("")
		}()
		select {
		case <-done:
		case <-time.After(30 * time.Second):
			panic("verif: the node did not become a follower within 30s")
		}
		cl := NewReplicationClient(m)
		cl.stream = client.NewStream(&vAckFConn{a})
		cl.closed = false
		m.clientChannel = cl
		VerifPointFunc = a.hook
		a.hold()
		tr.Emit(map[string]interface{}{"e": "begin", "name": sc.Name, "idx": i, "t": int64(1000), "mode": "ackf", "followers": 0, "ackmode": 0,
			"state": int(w.slock.state)})
		recs := map[int64]*AofLock{}
		for j := range sc.Steps {
			s := &sc.Steps[j]
			switch s.Op {
			case "append":
				l := a.fRecord(s, recs)
				a.tr.Emit(map[string]interface{}{"e": "fappend", "id": s.Id, "t": a.now})
				_ = w.slock.aof.AppendLock(l)
			case "replay":
				l := a.fRecord(s, recs)
				a.tr.Emit(map[string]interface{}{"e": "freplay", "id": s.Id, "t": a.now})
				if err := w.slock.aof.ReplayLock(l); err != nil {
					panic(err)
				}
			case "flush":
				a.flush(s)
			case "tick":
				n := s.N
				if n <= 0 {
					n = 1
				}
				for k := 0; k < n; k++ {
					a.waitQuiescent()
					a.Tick("te")
				}
			default:
				panic("unknown follower op " + s.Op)
			}
			a.waitQuiescent()
			a.tr.Emit(map[string]interface{}{"e": "fquiet", "t": a.now})
		}
		a.flushCtx = "drain"
		a.release()
		a.waitQuiescent()
		tr.Emit(map[string]interface{}{"e": "end", "name": sc.Name, "idx": i, "t": w.now, "complete": false})
		m.glock.Lock()
		m.clientChannel = nil
		m.glock.Unlock()
		VerifPointFunc = nil
		w.Close(true)
		for _, f := range a.toClose {
			_ = f.Close()
		}
	}
}

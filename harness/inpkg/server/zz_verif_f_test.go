//go:build verif

package server

// Engine F: append-only-file persistence, crash images and compaction (properties C07 C08 C16).
//
// One scenario = one history driven sequentially on a real leader SLock whose data directory is a
// scratch directory and whose clock is virtual and starts `back` seconds in the past (time.Now()
// inside Aof loading cannot be virtualised; starting in the recent past makes the outage real without
// sleeping).  The driver
//   - runs lock / unlock / tick steps (engine-S step interpreter) and drains the persistence queue
//     (Aof.WaitFlushAofChannel) and any running compaction after each of them,
//   - takes directory images: at quiescent stop points ("stop"), inside AofFile.Flush (hook
//     aof.flush.enter / aof.flush.mid -> flush log used to derive torn-write images), after every
//     file-system mutation of a compaction (hook aof.fs),
//   - recovers every image with a fresh SLock + initLeader() on a COPY of the image,
//   - decodes the files of an image with its own 64-byte record decoder (not slock's reader),
//   - writes everything it saw as an ndjson trace.  No verdict is formed here: the trace is validated
//     by TLC against spec/mon/MonAof.tla (property clauses) and spec/AofLog.tla (Recover refinement).

import (
	"bufio"
	"bytes"
	"encoding/binary"
	"encoding/hex"
	"encoding/json"
	"fmt"
	"io"
	"os"
	"os/exec"
	"path/filepath"
	"sort"
	"strings"
	"sync"
	"sync/atomic"
	"testing"
	"time"
)

type vfScenario struct {
	Name   string    `json:"name"`
	Kind   string    `json:"kind"`
	Cfg    vWorldCfg `json:"cfg"`
	Back   int64     `json:"back"`
	Steps  []vfStep  `json:"steps"`
	ImgCpt bool      `json:"imgcpt"` // take + recover an image after every file-system step of every compaction
	// Preflush: at aof.flush.enter of the primary instance (records waiting in the write buffer, nothing of this flush on
	// disk yet) the directory is copied: a crash image at a syscall boundary.  The last few are recovered at the final stop,
	// each followed by a second epoch (value-carrying writes) and a third start.
	Preflush int `json:"preflush"`
	// Leftover: every image of a compaction in which rewrite.aof.tmp exists (partial output at a flush of the tmp file,
	// complete output at "tmp-written") is also STARTED WITH its start-up compaction (which finds the leftover tmp files),
	// stopped, and started once more: that third start is compared with the reference directory.
	Leftover bool `json:"leftover"`
}

type vfStep struct {
	vReq
	Cuts   string   `json:"cuts"`   // stop: "" none | "tail" (last two records, header, value file) | "tail1"
	E2Mod  int      `json:"e2mod"`  // stop with cuts: run the second epoch on every cut whose ordinal % e2mod == e2off (0 = never)
	E2Off  int      `json:"e2off"`
	Epoch2 []vfStep `json:"epoch2"` // stop with cuts / restart: further workload on the recovered instance (no ticks)
	During []vfStep `json:"during"` // rewrite: requests issued from inside the compaction (after "tmp-written", one per file-system step)
	Cpt    string   `json:"cpt"`    // restart: "faithful" = the start-up compaction runs free (as LoadAndInit starts it); else held until the replay has drained
	Hard   bool     `json:"hard"`   // restart: do not Close() the old instance first (kill -9 after a drained queue)
	Reqs   []vfStep `json:"reqs"`   // burst: requests issued while the log writer has not yet copied the records of the earlier ones
	Rel    string   `json:"rel"`    // burst: order in which the channel goroutines are let run afterwards: "" as listed | "rev"
	Child  bool     `json:"child"`  // stop: every recovery of this stop point (stop image, whole-record prefixes) is tried in a child process first
}

// ---------------------------------------------------------------- file helpers

func vfCopyDir(src, dst string) {
	if err := os.MkdirAll(dst, 0755); err != nil {
		panic(err)
	}
	ents, err := os.ReadDir(src)
	if err != nil {
		panic(err)
	}
	for _, e := range ents {
		if e.IsDir() {
			continue
		}
		vfCopyFile(filepath.Join(src, e.Name()), filepath.Join(dst, e.Name()), -1)
	}
}

func vfCopyFile(src, dst string, limit int64) {
	in, err := os.Open(src)
	if err != nil {
		if os.IsNotExist(err) {
			return // removed concurrently by a compaction step: the image simply does not contain it
		}
		panic(err)
	}
	defer in.Close()
	out, err := os.Create(dst)
	if err != nil {
		panic(err)
	}
	defer out.Close()
	if limit >= 0 {
		_, err = io.CopyN(out, in, limit)
		if err == io.EOF {
			err = nil
		}
	} else {
		_, err = io.Copy(out, in)
	}
	if err != nil {
		panic(err)
	}
}

func vfFileSize(path string) int64 {
	fi, err := os.Stat(path)
	if err != nil {
		return -1
	}
	return fi.Size()
}

func vfListFiles(dir string) []string {
	ents, err := os.ReadDir(dir)
	if err != nil {
		panic(err)
	}
	names := []string{}
	for _, e := range ents {
		if !e.IsDir() {
			names = append(names, e.Name())
		}
	}
	sort.Strings(names)
	return names
}

// ---------------------------------------------------------------- independent decoder of the on-disk format

type vfRec struct {
	Ty   int    `json:"ty"`  // command type: 1 lock, 2 unlock
	Idx  int64  `json:"idx"` // aof file index
	Off  int64  `json:"off"` // aof offset (ordinal in file)
	Ct   int64  `json:"ct"`  // command time, relative to the scenario base
	Fl   int    `json:"fl"`
	Db   int    `json:"db"`
	Lid  int64  `json:"lid"`
	Key  int64  `json:"key"`
	St   int    `json:"st"`
	Af   int    `json:"af"`
	Et   int    `json:"et"`
	Ef   int    `json:"ef"`
	Cnt  int    `json:"cnt"`
	Rc   int    `json:"rc"`
	Len  int    `json:"len"`
	Data string `json:"data"` // hex of the value payload attached (GetData form), "-" = flagged but frame missing, "" = none
}

type vfFile struct {
	Name    string  `json:"name"`
	Size    int64   `json:"size"`
	Hdr     bool    `json:"hdr"`
	Recs    []vfRec `json:"recs"`
	Torn    int     `json:"torn"`    // bytes after the last whole record
	DSize   int64   `json:"dsize"`   // size of the value file (-1 absent)
	DFrames int     `json:"dframes"` // whole frames in the value file
	DTorn   int     `json:"dtorn"`   // bytes after the last whole frame
	DEnds   []int64 `json:"-"`       // end offset of every whole frame
}

func vfPayloadHex(frame []byte) string {
	// LockManagerData.GetData(): the frame as stored; we record the frame bytes (incl. 4-byte length) in hex.
	// The UNSET marker frame (2 0 0 0 1 0) is how the log says "the key has no value": GetData() of it is nil.
	if len(frame) >= 5 && frame[4]&0x3f == 1 {
		return ""
	}
	return hex.EncodeToString(frame)
}

func vfDecodeFile(dir, name string, base int64) vfFile {
	path := filepath.Join(dir, name)
	b, err := os.ReadFile(path)
	if err != nil {
		panic(err)
	}
	f := vfFile{Name: name, Size: int64(len(b)), Recs: []vfRec{}, DSize: -1}
	var d []byte
	if db, derr := os.ReadFile(path + ".dat"); derr == nil {
		d = db
		f.DSize = int64(len(db))
	}
	// value frames
	frames := [][]byte{}
	pos := 0
	for pos+4 <= len(d) {
		n := int(binary.LittleEndian.Uint32(d[pos : pos+4]))
		if n < 0 || pos+4+n > len(d) {
			break
		}
		frames = append(frames, d[pos:pos+4+n])
		pos += 4 + n
		f.DEnds = append(f.DEnds, int64(pos))
	}
	f.DFrames = len(frames)
	f.DTorn = len(d) - pos
	if len(b) < 12 || string(b[:8]) != "SLOCKAOF" {
		f.Hdr = false
		f.Torn = len(b)
		return f
	}
	f.Hdr = true
	hl := int(binary.LittleEndian.Uint16(b[10:12]))
	p := 12 + hl
	fi := 0
	for p+64 <= len(b) {
		r := b[p : p+64]
		rec := vfRec{Len: int(binary.LittleEndian.Uint16(r[0:2])), Ty: int(r[2]), Off: int64(binary.LittleEndian.Uint32(r[3:7])),
			Idx: int64(binary.LittleEndian.Uint32(r[7:11])), Fl: int(r[19]), Db: int(r[20]),
			St: int(binary.LittleEndian.Uint16(r[53:55])), Af: int(binary.LittleEndian.Uint16(r[55:57])),
			Et: int(binary.LittleEndian.Uint16(r[57:59])), Ef: int(binary.LittleEndian.Uint16(r[59:61])),
			Cnt: int(binary.LittleEndian.Uint16(r[61:63])), Rc: int(r[63])}
		rec.Ct = vfClamp(int64(binary.LittleEndian.Uint64(r[11:19])) - base)
		rec.Off, rec.Idx = vfClamp(rec.Off), vfClamp(rec.Idx)
		var lid, key [16]byte
		copy(lid[:], r[21:37])
		copy(key[:], r[37:53])
		rec.Lid, rec.Key = vfClamp(vKeyInt(lid)), vfClamp(vKeyInt(key))
		if rec.Af&0x2000 != 0 {
			if fi < len(frames) {
				rec.Data = vfPayloadHex(frames[fi])
				fi++
			} else {
				rec.Data = "-"
			}
		}
		f.Recs = append(f.Recs, rec)
		p += 64
	}
	f.Torn = len(b) - p
	return f
}

// TLC integers are 32-bit: garbage decoded from torn bytes is clamped (such files are never replayed by the spec)
func vfClamp(x int64) int64 {
	if x > 1000000000 {
		return 1000000000
	}
	if x < -1000000000 {
		return -1000000000
	}
	return x
}

func vfIsLogFile(name string) bool {
	if strings.HasSuffix(name, ".dat") {
		return false
	}
	return name == "rewrite.aof" || strings.HasPrefix(name, "append.aof.") || name == "rewrite.aof.tmp"
}

func vfAppendIndex(name string) int64 {
	if !strings.HasPrefix(name, "append.aof.") || strings.HasSuffix(name, ".dat") {
		return -1
	}
	var n int64
	if _, err := fmt.Sscanf(name[11:], "%d", &n); err != nil {
		return -1
	}
	return n
}

// vfDecodeDir: rewrite.aof first, then append files by index (the order slock loads them), then others.
func vfDecodeDir(dir string, base int64) []vfFile {
	names := vfListFiles(dir)
	var app []string
	out := []vfFile{}
	for _, n := range names {
		if n == "rewrite.aof" {
			out = append(out, vfDecodeFile(dir, n, base))
		} else if vfAppendIndex(n) >= 0 {
			app = append(app, n)
		}
	}
	sort.Slice(app, func(i, j int) bool { return vfAppendIndex(app[i]) < vfAppendIndex(app[j]) })
	for _, n := range app {
		out = append(out, vfDecodeFile(dir, n, base))
	}
	for _, n := range names {
		if n == "rewrite.aof.tmp" {
			out = append(out, vfDecodeFile(dir, n, base))
		}
	}
	return out
}

// ---------------------------------------------------------------- hold snapshot (projection used by the AOF monitors)

type vfHold struct {
	Lid   int64 `json:"lid"`
	Depth int   `json:"depth"`
	Cnt   int   `json:"cnt"`
	Rc    int   `json:"rc"`
	Exp   int64 `json:"exp"` // deadline relative to base; -1 = unlimited
	Start int64 `json:"start"`
	Ef    int   `json:"ef"`
	Ex    int   `json:"ex"`
	Tf    int   `json:"tf"`
	Aof   bool  `json:"aof"`
	AofT  int   `json:"aoft"`
}

type vfKey struct {
	Db    int      `json:"db"`
	Key   int64    `json:"key"`
	Data  string   `json:"data"`
	Holds []vfHold `json:"holds"`
	NWait int      `json:"nwait"`
}

func vfHoldSnap(w *vWorld, base int64) []vfKey {
	snap := w.Snapshot()
	keys := snap["keys"].([]vKeySnap)
	out := []vfKey{}
	for _, k := range keys {
		if len(k.Holders) == 0 {
			continue
		}
		vk := vfKey{Db: k.Db, Key: k.Key, Data: k.Data, Holds: []vfHold{}, NWait: len(k.Waiters)}
		if !k.HasData {
			vk.Data = ""
		}
		for _, h := range k.Holders {
			exp := h.Exp - base
			if h.Exp == 0x7fffffffffffffff {
				exp = -1
			}
			vk.Holds = append(vk.Holds, vfHold{Lid: h.Lid, Depth: h.Depth, Cnt: h.Cnt, Rc: h.Rc, Exp: exp, Start: h.Start - base,
				Ef: h.Ef, Ex: h.Ex, Tf: h.Tf, Aof: h.Aof, AofT: h.AofT})
		}
		out = append(out, vk)
	}
	return out
}

// ---------------------------------------------------------------- driver state

type vfFlushEv struct {
	Phase string // enter | mid
	File  string
	Size  int64
	DSize int64
}

type vfCptImg struct {
	Step string
	Dir  string
}

type vfDriver struct {
	t       *testing.T
	sc      *vfScenario
	tr      *vTrace
	base    int64
	root    string // scratch root of this scenario
	w       *vWorld
	nextId  int64
	nimg    int
	mu      sync.Mutex
	flushes []vfFlushEv
	// compaction observation (primary world only)
	cptMu      sync.Mutex
	cptStarted int
	cptDone    int
	cptRun     int
	cptImgs    []vfCptImg
	cptRemoved []string
	inCpt      bool
	during     []vfStep
	cptPending [][]vfCptImg // finished runs waiting to be recovered + emitted by the main goroutine
	cptRemSets [][]string
	held       bool     // the primary instance keeps Aof.isRewriting set: compactions are run by the driver (vfCompactNow)
	cptNeeded  bool     // held mode: a rotation asked for a compaction
	trigger    string   // what started the compaction being observed: admin | startup | startup-held | "" (= size threshold)
	cptTrigs   []string // per finished run
	preImgs    []string // directory images taken at aof.flush.enter (newest last)
	cptPartial []vfCptImg // images taken while the running compaction was writing rewrite.aof.tmp (they join its run at "tmp-written")
}

var vfCur *vfDriver // the driver whose primary world the hooks observe (one scenario at a time per process)

// vfWillCompactAtStart: LoadAndInit starts a compaction when append files exist; it performs file-system
// steps iff it has inputs (a rewrite file, or an append file older than the newest one).
func vfWillCompactAtStart(dir string) bool {
	nApp, hasRw := 0, false
	for _, n := range vfListFiles(dir) {
		if n == "rewrite.aof" {
			hasRw = true
		} else if vfAppendIndex(n) >= 0 {
			nApp++
		}
	}
	return nApp >= 1 && (hasRw || nApp >= 2)
}

func vfHook(name string, a interface{}, b interface{}) {
	d := vfCur
	if d == nil {
		return
	}
	var aof *Aof
	if d.w != nil {
		aof = d.w.slock.aof
	}
	switch name {
	case "aof.flush.enter", "aof.flush.mid":
		f := a.(*AofFile)
		if f.aof != aof {
			return
		}
		ph := "enter"
		if name == "aof.flush.mid" {
			ph = "mid"
		}
		d.mu.Lock()
		d.flushes = append(d.flushes, vfFlushEv{Phase: ph, File: filepath.Base(f.filename), Size: vfFileSize(f.filename), DSize: vfFileSize(f.filename + ".dat")})
		d.mu.Unlock()
		if ph == "enter" && d.sc.Leftover && d.sc.ImgCpt && f != aof.aofFile && filepath.Base(f.filename) == "rewrite.aof.tmp" && vfFileSize(f.filename) > 12 && f.windex > 0 && d.w != nil {
			// the compaction is writing its output: a crash here leaves a PARTIAL rewrite.aof.tmp(.dat) behind
			d.cptMu.Lock()
			n := len(d.cptPartial)
			d.cptMu.Unlock()
			if n < 2 {
				aof.aofGlock.Lock()
				_, dir := d.newImgDirLocked()
				vfCopyDir(d.w.dir, dir)
				aof.aofGlock.Unlock()
				d.cptMu.Lock()
				d.cptPartial = append(d.cptPartial, vfCptImg{Step: "tmp-partial", Dir: dir})
				d.cptMu.Unlock()
			}
		}
		if ph == "enter" && d.sc.Preflush > 0 && f.windex > 0 && f == aof.aofFile && d.w != nil {
			// the caller holds aofGlock: the files are exactly what a stop at this instant leaves behind
			_, dir := d.newImgDirLocked()
			vfCopyDir(d.w.dir, dir)
			d.mu.Lock()
			d.preImgs = append(d.preImgs, dir)
			if len(d.preImgs) > d.sc.Preflush {
				os.RemoveAll(d.preImgs[0])
				d.preImgs = d.preImgs[1:]
			}
			d.mu.Unlock()
		}
	case "aof.fs":
		if a.(*Aof) != aof {
			return
		}
		step := b.(string)
		d.onFsStep(step)
	}
}

// onFsStep runs in the goroutine that performed the file-system step.  rotate:* steps run under
// aofGlock (held by the caller of RewriteAofFile); the others run in the compaction goroutine, where
// we take aofGlock ourselves so that the image is consistent with the appends of other goroutines.
func (d *vfDriver) onFsStep(step string) {
	aof := d.w.slock.aof
	if strings.HasPrefix(step, "rotate:") {
		if step == "rotate:opened" && d.held {
			d.cptMu.Lock()
			if !d.inCpt {
				d.cptNeeded = true
			}
			d.cptMu.Unlock()
		} else if step == "rotate:opened" {
			d.cptMu.Lock()
			if !d.inCpt {
				aof.glock.Lock()
				busy := aof.isRewriting
				aof.glock.Unlock()
				if !busy {
					d.cptStarted++
				}
			}
			d.cptMu.Unlock()
		}
		if d.sc.ImgCpt {
			_, dir := d.newImgDirLocked()
			vfCopyDir(d.w.dir, dir)
			d.cptMu.Lock()
			d.cptImgs = append(d.cptImgs, vfCptImg{Step: step, Dir: dir})
			d.cptMu.Unlock()
		}
		return
	}
	if step == "tmp-written" {
		// a new run begins: steps still pending belong to a run that has returned meanwhile
		d.finishRun()
	}
	d.cptMu.Lock()
	d.inCpt = true
	if step == "tmp-written" && len(d.cptPartial) > 0 {
		d.cptImgs = append(d.cptImgs, d.cptPartial...)
		d.cptPartial = nil
	}
	d.cptMu.Unlock()
	if strings.HasPrefix(step, "removed:") {
		d.cptMu.Lock()
		d.cptRemoved = append(d.cptRemoved, strings.TrimPrefix(step, "removed:"))
		d.cptMu.Unlock()
	}
	if d.sc.ImgCpt {
		aof.aofGlock.Lock()
		_, dir := d.newImgDirLocked()
		vfCopyDir(d.w.dir, dir)
		aof.aofGlock.Unlock()
		d.cptMu.Lock()
		d.cptImgs = append(d.cptImgs, vfCptImg{Step: step, Dir: dir})
		d.cptMu.Unlock()
	}
	// requests issued while the compaction is in progress ("appends continuing concurrently")
	if len(d.during) > 0 && step != "renamed:rewrite.aof.dat" {
		st := d.during[0]
		d.during = d.during[1:]
		d.tr.Emit(map[string]interface{}{"e": "during", "step": step})
		d.runBasic(d.w, &st)
		vfDrain(aof)
	}
}

// finishRun: the compaction being observed has returned (free-running: Aof.isRewriting went back to false; held:
// vfCompactNow returned).  Its images are queued for recovery by the main goroutine.  Does not rely on the order
// of the file-system steps.
func (d *vfDriver) finishRun() {
	d.cptMu.Lock()
	if d.inCpt {
		removed := d.cptRemoved
		if removed == nil {
			removed = []string{}
		}
		d.cptPending = append(d.cptPending, d.cptImgs)
		d.cptRemSets = append(d.cptRemSets, removed)
		trig := d.trigger
		if trig == "" {
			trig = "threshold"
		}
		d.cptTrigs = append(d.cptTrigs, trig)
		d.cptImgs = nil
		d.cptRemoved = nil
		d.inCpt = false
		d.cptDone++
	}
	d.cptMu.Unlock()
}

func (d *vfDriver) newImgDir() (int, string) {
	d.nimg++
	p := filepath.Join(d.root, fmt.Sprintf("img%d", d.nimg))
	return d.nimg, p
}

func (d *vfDriver) newImgDirLocked() (int, string) {
	d.mu.Lock()
	defer d.mu.Unlock()
	return d.newImgDir()
}

// ---------------------------------------------------------------- worlds

// vfOpen starts a leader on dir.  Returns nil and the error text when the start fails.
//
// The start-up compaction (`go rewriteAofFiles()` at the end of Aof.LoadAndInit) is held back by
// pre-setting Aof.isRewriting: LoadAndInit's WaitFlushAofChannel can return before the replay of the
// log has been applied (see vfDrain), so a free-running start-up compaction filters records against a
// partially loaded engine (a finding of its own, explored by the "faithful" restart mode of stepRestart).
// startup = "none": no start-up compaction at all (plain recovery of an image);
// startup = "sync": the same Aof.rewriteAofFiles() is run synchronously after the replay has drained.
func vfOpen(t *testing.T, cfg vWorldCfg, dir string, tr *vTrace, now int64, startup string) (w *vWorld, errText string) {
	defer func() {
		if r := recover(); r != nil {
			w = nil
			errText = fmt.Sprintf("%v", r)
		}
	}()
	cfg.DataDir = dir
	VerifManualClock = true
	sc := vNewConfig(cfg)
	logger, _ := InitLogger(sc)
	slock := NewSLock(sc, logger)
	slock.aof.isRewriting = true
	vfSetHeld(slock.aof)
	w = &vWorld{t: t, cfg: cfg, slock: slock, now: now, conns: map[int]*vConn{}, tr: tr, curReq: -1,
		sweepQ: map[uint8]*vSweepQueues{}, dir: dir}
	if err := slock.initLeader(); err != nil {
		vfClose(w, false)
		return nil, fmt.Sprintf("initLeader: %v", err)
	}
	vfDrain(slock.aof)
	if startup == "sync" {
		vfCompactNow(slock.aof)
	}
	return w, ""
}

// vfCompactNow: the body of Aof.rewriteAofFiles without its isRewriting guard, run synchronously by the driver.
// Used for instances whose Aof.isRewriting is kept set for good (see vfOpen): the goroutine that LoadAndInit
// started - whenever it gets scheduled - and every goroutine started by a later rotation return at the guard,
// so no compaction ever runs concurrently with the one the driver runs here.
func vfCompactNow(aof *Aof) {
	aofFilenames, err := aof.findRewriteAofFiles()
	if err != nil || len(aofFilenames) == 0 {
		return
	}
	_, _, err = aof.loadRewriteAofFiles(aofFilenames)
	if err != nil {
		return
	}
	verifPoint("aof.fs", aof, "tmp-written")
	aof.clearRewriteAofFiles(aofFilenames)
}

// vfFreezeCompaction: wait for a running compaction of this instance, then keep Aof.isRewriting set for good (a goroutine that
// starts later returns at its guard) and register the instance as held (vfClose then skips WaitRewriteAofFiles).
func vfFreezeCompaction(aof *Aof) {
	for i := 0; i < 2000; i++ {
		aof.glock.Lock()
		if !aof.isRewriting {
			aof.isRewriting = true
			aof.glock.Unlock()
			vfSetHeld(aof)
			return
		}
		held := false
		vfHeldMu.Lock()
		held = vfHeld[aof]
		vfHeldMu.Unlock()
		aof.glock.Unlock()
		if held {
			return
		}
		time.Sleep(5 * time.Millisecond)
	}
}

// instances whose Aof.isRewriting is kept set for good (the driver runs their compactions itself)
var vfHeldMu sync.Mutex
var vfHeld = map[*Aof]bool{}

func vfSetHeld(aof *Aof) {
	vfHeldMu.Lock()
	vfHeld[aof] = true
	vfHeldMu.Unlock()
}

// vfClose stops an instance.  For a held instance the flag is NOT released (a compaction goroutine that gets
// scheduled late would otherwise run against the closed engine and empty the files): Aof.Close() is replaced by
// its own steps minus WaitRewriteAofFiles.
func vfClose(w *vWorld, remove bool) {
	defer func() { _ = recover() }()
	aof := w.slock.aof
	vfHeldMu.Lock()
	held := vfHeld[aof]
	delete(vfHeld, aof)
	vfHeldMu.Unlock()
	if !held {
		w.Close(remove)
		return
	}
	s := w.slock
	s.glock.Lock()
	s.state = STATE_CLOSE
	for _, db := range s.dbs {
		if db != nil {
			db.status = STATE_CLOSE
			db.Close()
		}
	}
	s.glock.Unlock()
	aof.glock.Lock()
	aof.closed = true
	aof.glock.Unlock()
	_ = aof.WaitFlushAofChannel()
	aof.aofGlock.Lock()
	if aof.aofFile != nil {
		_ = aof.aofFile.Close()
		aof.aofFile = nil
	}
	aof.aofGlock.Unlock()
	s.replicationManager.Close()
	s.admin.Close()
	if remove && w.dir != "" {
		os.RemoveAll(w.dir)
	}
}

// vfDrain waits until the persistence queue of every database is empty and no channel goroutine is
// active.  Aof.WaitFlushAofChannel alone is not enough: the channel goroutines of a database created a
// moment ago may not have started yet, and the waiter is released when the OTHER channels go idle.
func vfDrain(aof *Aof) {
	stable := 0
	for i := 0; i < 200000 && stable < 3; i++ {
		_ = aof.WaitFlushAofChannel()
		busy := atomic.LoadUint32(&aof.channelActiveCount) != 0
		aof.glock.Lock()
		chs := aof.channels
		aof.glock.Unlock()
		for _, ch := range chs {
			ch.queueGlock.Lock()
			if ch.queueCount > 0 {
				busy = true
			}
			ch.queueGlock.Unlock()
		}
		if busy {
			stable = 0
			time.Sleep(50 * time.Microsecond)
		} else {
			stable++
		}
	}
	// the channel goroutine that went idle last flushes the write buffers AFTER it has left the active count
	// (Aof.waitLockAofChannel): on a busy machine the three idle observations above can all fall between the two.
	// "Drained" includes that flush - wait for it (bounded; nothing is forced).
	for i := 0; i < 40000; i++ {
		aof.aofGlock.Lock()
		pending := aof.aofFile != nil && (aof.aofFile.windex > 0 || aof.aofFile.dwindex > 0)
		aof.aofGlock.Unlock()
		if !pending {
			break
		}
		time.Sleep(50 * time.Microsecond)
	}
}

func (d *vfDriver) quiesce(w *vWorld) {
	aof := w.slock.aof
	vfDrain(aof)
	if w != d.w {
		return
	}
	if d.held {
		for {
			d.cptMu.Lock()
			need := d.cptNeeded
			d.cptNeeded = false
			d.cptMu.Unlock()
			if !need {
				break
			}
			vfCompactNow(aof)
			d.finishRun()
			vfDrain(aof)
		}
		return
	}
	// wait for compactions started by rotations of the primary world
	deadline := time.Now().Add(10 * time.Second)
	for {
		d.cptMu.Lock()
		st, dn, in := d.cptStarted, d.cptDone, d.inCpt
		d.cptMu.Unlock()
		if in {
			// steps of a compaction were seen: it is over when the function has returned
			aof.glock.Lock()
			busy := aof.isRewriting
			aof.glock.Unlock()
			if !busy {
				d.finishRun()
				continue
			}
		}
		if dn >= st && !in {
			break
		}
		if time.Now().After(deadline) {
			// a compaction that performed no file-system step (error path): resynchronise
			aof.glock.Lock()
			busy := aof.isRewriting
			aof.glock.Unlock()
			if !busy {
				d.cptMu.Lock()
				d.cptDone = d.cptStarted
				d.cptMu.Unlock()
				d.tr.Emit(map[string]interface{}{"e": "note", "what": "compaction-without-steps"})
				break
			}
			deadline = time.Now().Add(10 * time.Second)
		}
		time.Sleep(200 * time.Microsecond)
	}
	_ = aof.WaitRewriteAofFiles()
	vfDrain(aof)
}

// runBasic: lock / unlock / tick on world w (engine-S step interpreter).
func (d *vfDriver) runBasic(w *vWorld, st *vfStep) {
	switch st.Op {
	case "lock", "unlock", "tick":
		w.runSeqStep(&d.nextId, &st.vReq, false)
	default:
		panic("vf: not a basic op: " + st.Op)
	}
}

func (d *vfDriver) emitLive(w *vWorld, role string) {
	d.tr.Emit(map[string]interface{}{"e": "hsnap", "role": role, "rt": w.now - d.base, "keys": vfHoldSnap(w, d.base)})
}

// recoverImage starts a fresh leader on a copy of imgDir, emits disk + rec events.  When keep is true
// the recovered world is returned open (second epoch), otherwise it is closed and its directory removed.
func (d *vfDriver) recoverImage(imgDir string, tag map[string]interface{}, withDisk bool, keep bool) *vWorld {
	id, work := d.newImgDirLocked()
	vfCopyDir(imgDir, work)
	if withDisk {
		ev := map[string]interface{}{"e": "disk", "img": id, "files": vfDecodeDir(work, d.base)}
		for k, v := range tag {
			ev[k] = v
		}
		d.tr.Emit(ev)
	}
	lo := time.Now().Unix()
	mode := "none"
	if keep {
		mode = "sync"
	}
	w2, errText := vfOpen(d.t, d.sc.Cfg, work, d.tr, lo, mode)
	hi := time.Now().Unix()
	ev := map[string]interface{}{"e": "rec", "img": id, "ok": w2 != nil, "err": errText, "rlo": lo - d.base, "rhi": hi - d.base}
	for k, v := range tag {
		ev[k] = v
	}
	if w2 != nil {
		// the clock of a recovered instance is the wall clock it was started on
		for _, db := range w2.slock.dbs {
			if db != nil {
				w2.now = db.currentTime
			}
		}
		vfDrain(w2.slock.aof)
		ev["keys"] = vfHoldSnap(w2, d.base)
		ev["rnow"] = w2.now - d.base
	} else {
		ev["keys"] = []vfKey{}
		ev["rnow"] = lo - d.base
	}
	d.tr.Emit(ev)
	if w2 == nil {
		os.RemoveAll(work)
		return nil
	}
	if keep {
		return w2
	}
	vfClose(w2, true)
	return nil
}

// recoverImageChild: like recoverImage(keep = false), but the start runs in a child process (a start that panics on
// one of the code's own goroutines or hangs is an outcome, not the death of the driver).
func (d *vfDriver) recoverImageChild(imgDir string, tag map[string]interface{}, withDisk bool) {
	id, work := d.newImgDirLocked()
	vfCopyDir(imgDir, work)
	if withDisk {
		ev := map[string]interface{}{"e": "disk", "img": id, "files": vfDecodeDir(work, d.base)}
		for k, v := range tag {
			ev[k] = v
		}
		d.tr.Emit(ev)
	}
	res := d.recoverChildren([]string{work})
	d.tr.Emit(vfRecEvent(id, res[0], tag))
	os.RemoveAll(work)
}

// probeChild: does a start on a copy of imgDir succeed (tried in a child process)?
func (d *vfDriver) probeChild(imgDir string) bool {
	_, work := d.newImgDirLocked()
	vfCopyDir(imgDir, work)
	res := d.recoverChildren([]string{work})
	os.RemoveAll(work)
	return res[0].Ok
}

// ---------------------------------------------------------------- recovery in a child process
//
// Starting the real code on a torn image can panic inside one of its own goroutines, or never finish
// (nothing in this process can recover from that).  Such images are recovered by a child process: the
// same test binary, TestVerifFChild, a list of directories, one JSON result line per directory.  When
// the child dies, the directory it was working on is reported as "crashed" and a new child continues
// with the rest.

type vfChildRes struct {
	I      int     `json:"i"`
	Closed bool    `json:"closed"`
	Ok     bool    `json:"ok"`
	Err    string  `json:"err"`
	Rlo    int64   `json:"rlo"`
	Rhi    int64   `json:"rhi"`
	Rnow   int64   `json:"rnow"`
	Keys   []vfKey `json:"keys"`
}

const vfChildStartLimit = 20 * time.Second

func TestVerifFChild(t *testing.T) {
	list := os.Getenv("VERIF_F_CHILD_LIST")
	out := os.Getenv("VERIF_F_CHILD_OUT")
	if list == "" || out == "" {
		t.Skip("not a child")
	}
	var cfg vWorldCfg
	vMustUnmarshal([]byte(os.Getenv("VERIF_F_CHILD_CFG")), &cfg)
	var base int64
	var first int
	fmt.Sscanf(os.Getenv("VERIF_F_CHILD_BASE"), "%d", &base)
	fmt.Sscanf(os.Getenv("VERIF_F_CHILD_FIRST"), "%d", &first)
	lb, err := os.ReadFile(list)
	if err != nil {
		panic(err)
	}
	dirs := strings.Split(strings.TrimSpace(string(lb)), "\n")
	of, err := os.OpenFile(out, os.O_CREATE|os.O_WRONLY|os.O_APPEND, 0644)
	if err != nil {
		panic(err)
	}
	emit := func(r vfChildRes) {
		b, _ := json.Marshal(r)
		of.Write(append(b, '\n'))
	}
	tr := vOpenTrace(out + ".trace")
	for i := first; i < len(dirs); i++ {
		done := make(chan struct{})
		go func(i int) {
			select {
			case <-done:
			case <-time.After(vfChildStartLimit):
				emit(vfChildRes{I: i, Closed: true, Ok: false, Err: "hung: the start did not finish within 20 s", Keys: []vfKey{}})
				os.Exit(3)
			}
		}(i)
		lo := time.Now().Unix()
		w, errText := vfOpen(t, cfg, dirs[i], tr, lo, "none")
		hi := time.Now().Unix()
		res := vfChildRes{I: i, Ok: w != nil, Err: errText, Rlo: lo - base, Rhi: hi - base, Rnow: lo - base, Keys: []vfKey{}}
		if w != nil {
			for _, db := range w.slock.dbs {
				if db != nil {
					w.now = db.currentTime
				}
			}
			vfDrain(w.slock.aof)
			res.Keys = vfHoldSnap(w, base)
			res.Rnow = w.now - base
		}
		emit(res)
		if w != nil {
			vfClose(w, false)
		}
		close(done)
		emit(vfChildRes{I: i, Closed: true})
	}
}

// recoverChildren recovers every directory of dirs in child processes; result i belongs to dirs[i].
func (d *vfDriver) recoverChildren(dirs []string) []vfChildRes {
	res := make([]vfChildRes, len(dirs))
	if len(dirs) == 0 {
		return res
	}
	stamp := time.Now().UnixNano()
	list := filepath.Join(d.root, fmt.Sprintf("childlist%d.txt", stamp))
	if err := os.WriteFile(list, []byte(strings.Join(dirs, "\n")+"\n"), 0644); err != nil {
		panic(err)
	}
	defer os.Remove(list)
	cfgb, _ := json.Marshal(d.sc.Cfg)
	first := 0
	retried := map[int]bool{} // a start that crashed or hung is tried once more (alone at the head of a new child) before it is reported
	for round := 0; first < len(dirs) && round < 2*len(dirs)+4; round++ {
		out := filepath.Join(d.root, fmt.Sprintf("childout%d_%d.ndjson", stamp, round))
		cmd := exec.Command(os.Args[0], "-test.run", "^TestVerifFChild$", "-test.count=1", "-test.timeout", "1200s")
		cmd.Env = append(os.Environ(), "VERIF_F_CHILD_LIST="+list, "VERIF_F_CHILD_OUT="+out, "VERIF_F_CHILD_CFG="+string(cfgb),
			fmt.Sprintf("VERIF_F_CHILD_BASE=%d", d.base), fmt.Sprintf("VERIF_F_CHILD_FIRST=%d", first), "VERIF_IN=", "VERIF_OUT=")
		cmd.Dir = d.root
		lo := time.Now().Unix()
		outb, err := cmd.CombinedOutput()
		next := first
		lastClosed := true
		hungRetry := false
		vReadJSONLinesIfExists(out, func(line []byte) {
			var r vfChildRes
			if json.Unmarshal(line, &r) != nil {
				return
			}
			if r.Closed && r.Err == "" {
				lastClosed = true
				return
			}
			if r.I >= 0 && r.I < len(res) {
				if !r.Ok && strings.HasPrefix(r.Err, "hung:") && !retried[r.I] {
					retried[r.I] = true
					next = r.I
					lastClosed = true
					hungRetry = true
					return
				}
				res[r.I] = r
				next = r.I + 1
				lastClosed = r.Closed
			}
		})
		os.Remove(out)
		os.Remove(out + ".trace")
		if hungRetry {
			first = next
			continue
		}
		if next >= len(dirs) && (err == nil || lastClosed) {
			break
		}
		if next < len(dirs) && (lastClosed || next == first) && err != nil && !retried[next] {
			retried[next] = true
		} else if next < len(dirs) && (lastClosed || next == first) {
			// the child died (twice) while starting on dirs[next]
			why := "child process died"
			if err != nil {
				why = err.Error()
			}
			for _, ln := range strings.Split(string(outb), "\n") {
				if strings.HasPrefix(ln, "panic:") || strings.HasPrefix(ln, "fatal error:") {
					why = ln
					break
				}
			}
			res[next] = vfChildRes{I: next, Ok: false, Err: "crashed: " + why, Rlo: lo - d.base, Rhi: lo - d.base, Rnow: lo - d.base, Keys: []vfKey{}}
			next++
		}
		// (otherwise the child died while closing an instance whose result is already in: go on after it)
		first = next
	}
	return res
}

func vReadJSONLinesIfExists(path string, fn func(line []byte)) {
	if _, err := os.Stat(path); err != nil {
		return
	}
	vReadJSONLines(path, fn)
}

// memTrace: a trace that is kept in memory (events of a section whose recoveries are filled in later)
func vfMemTrace() (*vTrace, *bytes.Buffer) {
	buf := &bytes.Buffer{}
	return &vTrace{w: bufio.NewWriterSize(buf, 1<<16)}, buf
}

func vfLine(ev map[string]interface{}) []byte {
	b, err := json.Marshal(ev)
	if err != nil {
		panic(err)
	}
	return append(b, '\n')
}

func (d *vfDriver) writeRaw(b []byte) {
	d.tr.mu.Lock()
	d.tr.w.Write(b)
	d.tr.mu.Unlock()
}

func vfRecEvent(id int, r vfChildRes, tag map[string]interface{}) map[string]interface{} {
	keys := r.Keys
	if keys == nil {
		keys = []vfKey{}
	}
	ev := map[string]interface{}{"e": "rec", "img": id, "ok": r.Ok, "err": r.Err, "rlo": r.Rlo, "rhi": r.Rhi, "rnow": r.Rnow, "keys": keys}
	for k, v := range tag {
		ev[k] = v
	}
	return ev
}

// ---------------------------------------------------------------- steps

func (d *vfDriver) stepStop(st *vfStep) {
	w := d.w
	d.quiesce(w)
	d.flushCompactions()
	d.emitLive(w, "pre")
	_, img := d.newImgDirLocked()
	w.slock.aof.aofGlock.Lock()
	vfCopyDir(w.dir, img)
	w.slock.aof.aofGlock.Unlock()
	d.tr.Emit(map[string]interface{}{"e": "stop", "rt": w.now - d.base, "cuts": st.Cuts})
	if st.Child {
		d.recoverImageChild(img, map[string]interface{}{"role": "stop"}, true)
	} else {
		d.recoverImage(img, map[string]interface{}{"role": "stop"}, true, false)
	}
	if st.Cuts != "" {
		d.cuts(img, st)
	}
	os.RemoveAll(img)
	if d.sc.Preflush > 0 && len(st.Epoch2) > 0 {
		d.preflushEpochs(st)
	}
}

// preflushEpochs: every saved aof.flush.enter image is a crash image (a stop while records wait in the write buffer).
// Start on it (child process first), run the second epoch on the recovered instance, stop, start again.
func (d *vfDriver) preflushEpochs(st *vfStep) {
	d.mu.Lock()
	imgs := d.preImgs
	d.preImgs = nil
	d.mu.Unlock()
	for i, dir := range imgs {
		tag := map[string]interface{}{"role": "preflush", "ord": i}
		if !d.probeChild(dir) {
			d.recoverImageChild(dir, tag, true)
			os.RemoveAll(dir)
			continue
		}
		w2 := d.recoverImage(dir, tag, true, true)
		if w2 != nil {
			stopDir := d.secondEpochBody(w2, st.Epoch2, "cut")
			d.recoverImageChild(stopDir, map[string]interface{}{"role": "stop2", "ctx": "cut", "after": "preflush"}, true)
			d.tr.Emit(map[string]interface{}{"e": "e2end", "ctx": "cut"})
			os.RemoveAll(stopDir)
		}
		os.RemoveAll(dir)
	}
}

// cuts: torn-write images of the newest append file of image img.
func (d *vfDriver) cuts(img string, st *vfStep) {
	files := vfDecodeDir(img, d.base)
	var newest *vfFile
	for i := range files {
		if vfAppendIndex(files[i].Name) >= 0 {
			newest = &files[i]
		}
	}
	if newest == nil || !newest.Hdr {
		return
	}
	nrec := len(newest.Recs)
	// value-frame end offset after the first n records
	dEndAfter := make([]int64, nrec+1)
	fi := 0
	for n := 0; n < nrec; n++ {
		if newest.Recs[n].Af&0x2000 != 0 && fi < len(newest.DEnds) {
			dEndAfter[n+1] = newest.DEnds[fi]
			fi++
		} else {
			dEndAfter[n+1] = dEndAfter[n]
		}
	}
	mk := func(x int64, y int64) string {
		_, dir := d.newImgDirLocked()
		os.MkdirAll(dir, 0755)
		for _, n := range vfListFiles(img) {
			switch n {
			case newest.Name:
				vfCopyFile(filepath.Join(img, n), filepath.Join(dir, n), x)
			case newest.Name + ".dat":
				vfCopyFile(filepath.Join(img, n), filepath.Join(dir, n), y)
			default:
				vfCopyFile(filepath.Join(img, n), filepath.Join(dir, n), -1)
			}
		}
		return dir
	}
	// admissible states: every whole-record prefix of the newest file, recovered by the same real code
	for n := 0; n <= nrec; n++ {
		dir := mk(12+64*int64(n), dEndAfter[n])
		doE2 := st.E2Mod > 0 && len(st.Epoch2) > 0 && n >= nrec-1
		ptag := map[string]interface{}{"role": "prefix", "n": n, "file": newest.Name}
		var w2 *vWorld
		if st.Child && !(doE2 && d.probeChild(dir)) {
			// a start that dies on this image (a panic on one of the code's own goroutines) must not take the driver with it
			d.recoverImageChild(dir, ptag, false)
		} else {
			w2 = d.recoverImage(dir, ptag, false, doE2)
		}
		if w2 != nil {
			stopDir := d.secondEpochBody(w2, st.Epoch2, "cut")
			if st.Child {
				d.recoverImageChild(stopDir, map[string]interface{}{"role": "stop2", "ctx": "cut"}, true)
			} else {
				d.recoverImage(stopDir, map[string]interface{}{"role": "stop2", "ctx": "cut"}, true, false)
			}
			d.tr.Emit(map[string]interface{}{"e": "e2end", "ctx": "cut"})
			os.RemoveAll(stopDir)
		}
		os.RemoveAll(dir)
	}
	type cut struct{ x, y int64 }
	cuts := []cut{}
	lastN := 2
	if st.Cuts == "tail1" {
		lastN = 1
	}
	lo := nrec - lastN
	if lo < 0 {
		lo = 0
	}
	// (a) the record file torn inside one of the last records: the values of that flush are not written
	for n := lo; n < nrec; n++ {
		for r := int64(1); r < 64; r++ {
			cuts = append(cuts, cut{12 + 64*int64(n) + r, dEndAfter[n]})
		}
	}
	// (b) the 12-byte header torn (only when the file holds no record yet this is a real crash state, but every
	// residue is explored: the file was created by one 12-byte write)
	if nrec <= 2 {
		for x := int64(0); x < 12; x++ {
			cuts = append(cuts, cut{x, 0})
		}
	}
	// (c) records written, value file torn: between the two writes of a flush and inside the second
	for n := lo; n < nrec; n++ {
		a, b := dEndAfter[n], dEndAfter[n+1]
		if b > a {
			// all records up to the end of the file written (worst case: one flush wrote them all)
			for _, y := range []int64{a, a + 1, a + 3, a + 4, a + 5, b - 1} {
				if y >= a && y < b {
					for _, x := range []int64{12 + 64*int64(n+1), 12 + 64*int64(nrec)} {
						cuts = append(cuts, cut{x, y})
					}
				}
			}
		}
	}
	seen := map[cut]bool{}
	uniq := []cut{}
	for _, c := range cuts {
		if !seen[c] {
			seen[c] = true
			uniq = append(uniq, c)
		}
	}
	// batch 1: every cut image is started once in a child process
	dirs := make([]string, len(uniq))
	for i, c := range uniq {
		dirs[i] = mk(c.x, c.y)
	}
	probes := make([]string, len(uniq))
	for i := range dirs {
		_, probes[i] = d.newImgDirLocked()
		vfCopyDir(dirs[i], probes[i])
	}
	res1 := d.recoverChildren(probes)
	// sequential pass: events of the section are assembled in memory; the restarts after a second epoch are
	// again done by child processes (batch 2) and filled in afterwards
	type pend struct {
		dir string
		id  int
		tag map[string]interface{}
	}
	var chunks [][]byte
	var pends []*pend // chunk index -> pending rec (nil = literal chunk)
	addLit := func(b []byte) { chunks = append(chunks, b); pends = append(pends, nil) }
	for i, c := range uniq {
		ncomp := (c.x - 12) / 64
		if c.x < 12 {
			ncomp = 0
		}
		tag := map[string]interface{}{"role": "cut", "x": c.x, "y": c.y, "ncomp": ncomp, "file": newest.Name}
		d.mu.Lock()
		d.nimg++
		id := d.nimg
		d.mu.Unlock()
		dev := map[string]interface{}{"e": "disk", "img": id, "files": vfDecodeDir(dirs[i], d.base)}
		for k, v := range tag {
			dev[k] = v
		}
		addLit(vfLine(dev))
		addLit(vfLine(vfRecEvent(id, res1[i], tag)))
		doE2 := st.E2Mod > 0 && i%st.E2Mod == st.E2Off%st.E2Mod && len(st.Epoch2) > 0 && res1[i].Ok
		if doE2 {
			mt, buf := vfMemTrace()
			lo := time.Now().Unix()
			w2, _ := vfOpen(d.t, d.sc.Cfg, dirs[i], mt, lo, "sync")
			if w2 != nil {
				for _, db := range w2.slock.dbs {
					if db != nil {
						w2.now = db.currentTime
					}
				}
				saved := d.tr
				d.tr = mt
				stopDir := d.secondEpochBody(w2, st.Epoch2, "cut")
				d.mu.Lock()
				d.nimg++
				id2 := d.nimg
				d.mu.Unlock()
				tag2 := map[string]interface{}{"role": "stop2", "ctx": "cut"}
				dev2 := map[string]interface{}{"e": "disk", "img": id2, "files": vfDecodeDir(stopDir, d.base)}
				for k, v := range tag2 {
					dev2[k] = v
				}
				d.tr.Emit(dev2)
				d.tr = saved
				mt.w.Flush()
				addLit(append([]byte{}, buf.Bytes()...))
				chunks = append(chunks, nil)
				pends = append(pends, &pend{dir: stopDir, id: id2, tag: tag2})
				addLit(vfLine(map[string]interface{}{"e": "e2end", "ctx": "cut"}))
			}
		}
	}
	var dirs2 []string
	for _, p := range pends {
		if p != nil {
			dirs2 = append(dirs2, p.dir)
		}
	}
	res2 := d.recoverChildren(dirs2)
	j := 0
	for ci, p := range pends {
		if p == nil {
			d.writeRaw(chunks[ci])
		} else {
			d.writeRaw(vfLine(vfRecEvent(p.id, res2[j], p.tag)))
			j++
		}
	}
	for _, dir := range dirs {
		os.RemoveAll(dir)
	}
	for _, dir := range probes {
		os.RemoveAll(dir)
	}
}

// secondEpochBody: further workload on a recovered instance (its clock is the wall clock: no ticks), drain,
// stop it.  Returns the directory it ran on (to be started again).
func (d *vfDriver) secondEpochBody(w2 *vWorld, steps []vfStep, ctx string) string {
	d.tr.Emit(map[string]interface{}{"e": "e2begin", "ctx": ctx, "rt": w2.now - d.base})
	w2.tr = d.tr
	for i := range steps {
		st := steps[i]
		if st.Op == "tick" {
			continue
		}
		d.runBasic(w2, &st)
		vfDrain(w2.slock.aof)
		// the monitor's bookkeeping of a hold starts at its first snapshot: a hold that JOINS a key (and inherits the
		// persistence delay of the oldest holder, finding A26) must be seen there before that holder leaves
		d.emitLive(w2, "live")
	}
	vfDrain(w2.slock.aof)
	d.emitLive(w2, "pre2")
	dir := w2.dir
	vfClose(w2, false)
	d.tr.Emit(map[string]interface{}{"e": "stop", "rt": w2.now - d.base, "cuts": "", "ctx": ctx})
	return dir
}

// flushCompactions: recover and emit the images of every finished compaction run (main goroutine).
func (d *vfDriver) flushCompactions() {
	for {
		d.cptMu.Lock()
		if len(d.cptPending) == 0 {
			d.cptMu.Unlock()
			return
		}
		imgs, removed, trig := d.cptPending[0], d.cptRemSets[0], d.cptTrigs[0]
		d.cptPending, d.cptRemSets, d.cptTrigs = d.cptPending[1:], d.cptRemSets[1:], d.cptTrigs[1:]
		d.cptRun++
		run := d.cptRun
		d.cptMu.Unlock()
		d.emitRun(run, imgs, removed, trig)
	}
}

// emitRun: for every crash image I_s of one compaction run, the reference directory R_s holds the
// inputs the compaction replaced (taken from the image at "tmp-written", where they are all still
// intact) plus every other log file of I_s (appends that continued meanwhile).  C16: recover(I_s) must
// equal recover(R_s).
func (d *vfDriver) emitRun(run int, imgs []vfCptImg, removed []string, trig string) {
	inputs := map[string]bool{}
	for _, r := range removed {
		inputs[r] = true
	}
	var pre string
	for _, im := range imgs {
		if im.Step == "tmp-written" || im.Step == "pre-start" {
			pre = im.Dir
		}
	}
	d.tr.Emit(map[string]interface{}{"e": "cptrun", "run": run, "inputs": removed, "nimg": len(imgs), "trigger": trig})
	last := -1
	for i, im := range imgs {
		if !strings.HasPrefix(im.Step, "rotate:") && im.Step != "pre-start" {
			last = i
		}
	}
	for ii, im := range imgs {
		final := ii == last
		if pre != "" && !strings.HasPrefix(im.Step, "rotate:") && im.Step != "pre-start" {
			_, ref := d.newImgDirLocked()
			os.MkdirAll(ref, 0755)
			for _, n := range vfListFiles(pre) {
				if inputs[n] {
					vfCopyFile(filepath.Join(pre, n), filepath.Join(ref, n), -1)
				}
			}
			for _, n := range vfListFiles(im.Dir) {
				if inputs[n] || strings.HasPrefix(n, "rewrite.aof") {
					continue
				}
				vfCopyFile(filepath.Join(im.Dir, n), filepath.Join(ref, n), -1)
			}
			d.recoverImage(ref, map[string]interface{}{"role": "cptref", "run": run, "step": im.Step, "trigger": trig}, true, false)
			os.RemoveAll(ref)
			d.recoverImage(im.Dir, map[string]interface{}{"role": "cptimg", "run": run, "step": im.Step, "trigger": trig, "final": final}, true, false)
			if d.sc.Leftover && (im.Step == "tmp-written" || im.Step == "tmp-partial") {
				// the restart on this crash image runs its start-up compaction on a directory that still holds the
				// interrupted one's rewrite.aof.tmp(.dat); the files it publishes are what the NEXT start recovers
				_, work := d.newImgDirLocked()
				vfCopyDir(im.Dir, work)
				mt, _ := vfMemTrace()
				w2, _ := vfOpen(d.t, d.sc.Cfg, work, mt, time.Now().Unix(), "sync")
				if w2 != nil {
					vfClose(w2, false)
					_, ref2 := d.newImgDirLocked()
					os.MkdirAll(ref2, 0755)
					for _, n := range vfListFiles(pre) {
						if inputs[n] {
							vfCopyFile(filepath.Join(pre, n), filepath.Join(ref2, n), -1)
						}
					}
					for _, n := range vfListFiles(im.Dir) {
						if inputs[n] || strings.HasPrefix(n, "rewrite.aof") {
							continue
						}
						vfCopyFile(filepath.Join(im.Dir, n), filepath.Join(ref2, n), -1)
					}
					step2 := "restart-compaction-after:" + im.Step
					d.recoverImage(ref2, map[string]interface{}{"role": "cptref", "run": run, "step": step2, "trigger": trig}, true, false)
					os.RemoveAll(ref2)
					d.recoverImageChild(work, map[string]interface{}{"role": "cptimg", "run": run, "step": step2, "trigger": trig, "final": false}, true)
				}
				os.RemoveAll(work)
			}
		}
	}
	for _, im := range imgs {
		os.RemoveAll(im.Dir)
	}
	d.tr.Emit(map[string]interface{}{"e": "cptend", "run": run})
}

func (d *vfDriver) stepRewrite(st *vfStep) {
	w := d.w
	d.quiesce(w)
	d.during = append([]vfStep{}, st.During...)
	aof := w.slock.aof
	d.cptMu.Lock()
	d.trigger = "admin"
	d.cptMu.Unlock()
	d.tr.Emit(map[string]interface{}{"e": "rewrite", "rt": w.now - d.base})
	// Admin.commandHandleRewriteAofCommand
	aof.aofGlock.Lock()
	err := aof.RewriteAofFile(true)
	aof.aofGlock.Unlock()
	if err != nil {
		d.tr.Emit(map[string]interface{}{"e": "note", "what": "rewrite-error", "err": err.Error()})
	}
	d.quiesce(w)
	d.during = nil
	d.cptMu.Lock()
	d.trigger = ""
	d.cptMu.Unlock()
	d.flushCompactions()
	d.emitLive(w, "live")
}

func (d *vfDriver) stepRestart(st *vfStep) {
	w := d.w
	d.quiesce(w)
	d.flushCompactions()
	d.emitLive(w, "pre")
	dir := w.dir
	d.tr.Emit(map[string]interface{}{"e": "stop", "rt": w.now - d.base, "cuts": "", "ctx": "restart"})
	d.w = nil
	// the old process is gone: no compaction of it may start any more.  `go rewriteAofFiles()` of its last rotation can still be
	// waiting to be scheduled (a busy machine): it would run concurrently with the start-up compaction of the new instance in the
	// same directory (both append to rewrite.aof.tmp - duplicated records), which a real restart cannot do.
	vfFreezeCompaction(w.slock.aof)
	if !st.Hard {
		vfClose(w, false)
	}
	// the same directory, a new process image
	files := vfDecodeDir(dir, d.base)
	d.mu.Lock()
	d.nimg++
	id := d.nimg
	d.mu.Unlock()
	d.tr.Emit(map[string]interface{}{"e": "disk", "img": id, "files": files, "role": "restart"})
	faithful := st.Cpt == "faithful"
	willCpt := vfWillCompactAtStart(dir)
	lo := time.Now().Unix()
	cfg := d.sc.Cfg
	cfg.DataDir = dir
	var pre string
	if d.sc.ImgCpt && willCpt {
		_, pre = d.newImgDirLocked()
		vfCopyDir(dir, pre)
	}
	VerifManualClock = true
	sc := vNewConfig(cfg)
	logger, _ := InitLogger(sc)
	slock := NewSLock(sc, logger)
	w2 := &vWorld{t: d.t, cfg: cfg, slock: slock, now: lo, conns: map[int]*vConn{}, tr: d.tr, curReq: -1,
		sweepQ: map[uint8]*vSweepQueues{}, dir: dir}
	d.cptMu.Lock()
	d.inCpt = false
	d.cptImgs, d.cptRemoved = nil, nil
	if pre != "" {
		// the directory before the start is where the inputs of the start-up compaction are intact
		d.cptImgs = append(d.cptImgs, vfCptImg{Step: "pre-start", Dir: pre})
	}
	d.held = false
	d.cptNeeded = false
	if faithful {
		d.trigger = "startup"
		if willCpt {
			d.cptStarted++ // LoadAndInit starts the compaction itself, free-running
		}
	} else {
		d.trigger = "startup-held"
		d.held = true
		slock.aof.isRewriting = true
		vfSetHeld(slock.aof)
	}
	d.cptMu.Unlock()
	d.w = w2 // the hooks observe the new instance from its first step
	err := slock.initLeader()
	hi := time.Now().Unix()
	ev := map[string]interface{}{"e": "rec", "img": id, "ok": err == nil, "err": "", "rlo": lo - d.base, "rhi": hi - d.base, "role": "restart"}
	if err != nil {
		ev["err"] = err.Error()
		ev["keys"] = []vfKey{}
		ev["rnow"] = lo - d.base
		d.tr.Emit(ev)
		d.w = nil
		vfClose(w2, false)
		return
	}
	for _, db := range w2.slock.dbs {
		if db != nil {
			w2.now = db.currentTime
		}
	}
	vfDrain(w2.slock.aof)
	ev["keys"] = vfHoldSnap(w2, d.base)
	ev["rnow"] = w2.now - d.base
	d.tr.Emit(ev)
	if !faithful {
		// held mode: Aof.isRewriting stays set; the driver runs every compaction of this instance itself
		d.held = true
		if willCpt {
			vfCompactNow(slock.aof)
			d.finishRun()
		}
	}
	d.quiesce(w2)
	d.flushCompactions()
	d.cptMu.Lock()
	d.trigger = ""
	d.cptMu.Unlock()
	// second generation: no ticks (the wall clock cannot be advanced)
	cptMode := "held"
	if faithful {
		cptMode = "faithful"
	}
	d.tr.Emit(map[string]interface{}{"e": "e2begin", "ctx": "restart", "rt": w2.now - d.base, "cpt": cptMode})
	for i := range st.Epoch2 {
		s2 := st.Epoch2[i]
		switch s2.Op {
		case "tick":
			continue
		case "stop":
			d.stepStop(&s2)
		case "rewrite":
			d.stepRewrite(&s2)
		default:
			d.runBasic(w2, &s2)
			d.quiesce(w2)
			d.flushCompactions()
			d.emitLive(w2, "live")
		}
	}
	d.tr.Emit(map[string]interface{}{"e": "e2end", "ctx": "restart"})
}

func (d *vfDriver) run() {
	sc := d.sc
	realNow := time.Now().Unix()
	back := sc.Back
	if back <= 0 {
		back = 200
	}
	d.base = realNow - back
	root, err := os.MkdirTemp("", "vfscn")
	if err != nil {
		panic(err)
	}
	d.root = root
	defer os.RemoveAll(root)
	dir := filepath.Join(root, "data")
	os.MkdirAll(dir, 0755)
	d.tr.Emit(map[string]interface{}{"e": "begin", "name": sc.Name, "kind": sc.Kind, "base": 0, "back": back,
		"aoftime": vfAofTime(sc.Cfg), "parcent1000": int(vfParcent(sc.Cfg) * 1000), "bufsize": sc.Cfg.BufSize, "rewritesize": sc.Cfg.RewriteSz})
	vfCur = d
	VerifPointFunc = vfHook
	w, errText := vfOpen(d.t, sc.Cfg, dir, d.tr, d.base, "none")
	if w != nil {
		// the first instance starts on an empty directory: nothing was held back, its compactions run free and are awaited
		w.slock.aof.isRewriting = false
		vfHeldMu.Lock()
		delete(vfHeld, w.slock.aof)
		vfHeldMu.Unlock()
	}
	if w == nil {
		panic("vf: cannot start the first instance: " + errText)
	}
	d.w = w
	d.nextId = 1
	for i := range sc.Steps {
		st := &sc.Steps[i]
		if d.w == nil {
			break
		}
		switch st.Op {
		case "stop":
			d.stepStop(st)
		case "rewrite":
			d.stepRewrite(st)
		case "restart":
			d.stepRestart(st)
		case "burst":
			d.stepBurst(st)
		default:
			d.runBasic(d.w, st)
			d.quiesce(d.w)
			d.flushCompactions()
			d.emitLive(d.w, "live")
		}
	}
	if d.w != nil {
		d.quiesce(d.w)
		d.flushCompactions()
		w := d.w
		d.w = nil
		vfClose(w, false)
	}
	vfCur = nil
	d.tr.Emit(map[string]interface{}{"e": "end", "name": sc.Name})
}

func vfAofTime(c vWorldCfg) int {
	if c.AofTime > 0 {
		return int(c.AofTime)
	}
	return 1
}

func vfParcent(c vWorldCfg) float64 {
	if c.Parcent > 0 {
		return c.Parcent
	}
	return 0.3
}

func TestVerifF(t *testing.T) {
	in, out := vEnvInOut(t)
	if in == "" {
		return
	}
	tr := vOpenTrace(out)
	defer tr.Close()
	var scs []vfScenario
	vReadJSONLines(in, func(line []byte) {
		var s vfScenario
		vMustUnmarshal(line, &s)
		scs = append(scs, s)
	})
	for i := range scs {
		d := &vfDriver{t: t, sc: &scs[i], tr: tr}
		d.run()
	}
}

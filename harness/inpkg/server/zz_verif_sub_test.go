//go:build verif

package server

// Engine "Sub": the REAL subscribe / publish subsystem (server/subscribe.go: SubscribeManager, Subscriber,
// SubscribeChannel) inside a real leader SLock with the virtual lock clock of the common harness.
//
//   - subscriber connections are real BinaryServerProtocol objects served by the real Server.handle goroutine;
//     the transport is a harness net.Conn (vSubNetConn) that records every byte the server writes (parsed into
//     SUBSCRIBE results, PUBLISH frames, lock results), can hold the writer back (gate / permit = a slow reader)
//     and can be closed from the client side (Read -> EOF, Write -> error);
//   - lock histories (LockDB.Lock / UnLock on a harness connection, sweeps by w.Tick) produce the events: the
//     code pushes them from db.go into the per-shard SubscribeChannel goroutines;
//   - after every step the driver waits until channels and subscriber goroutines are quiescent and records an
//     in-package snapshot of every Subscriber (masks, buffer accounting, attached connection).
//
// ndjson scenarios in ($VERIF_IN), ndjson trace out ($VERIF_OUT); judged by spec/mon/MonSubscribe.tla.

import (
	"encoding/binary"
	"encoding/hex"
	"fmt"
	"io"
	"net"
	"os"
	"runtime"
	"sort"
	"strconv"
	"strings"
	"sync"
	"sync/atomic"
	"testing"
	"time"

	"github.com/snower/slock/protocol"
)

type vSubStep struct {
	Op     string `json:"op"`
	C      int    `json:"c"`     // subscriber connection
	Cid    int    `json:"cid"`   // SubscribeCommand.ClientId
	Ref    string `json:"ref"`   // label of an earlier "sub" step: send the SubscribeId its result carried
	Label  string `json:"label"` // name of this sub step
	Sid    int    `json:"sid"`   // raw SubscribeId when ref is empty (0 = new subscriber)
	Typ    int    `json:"typ"`   // 0 subscribe / update, 1 unsubscribe
	Mh     int64  `json:"mh"`    // mask, bytes 0..7 (little endian)
	Ml     int64  `json:"ml"`    // mask, bytes 8..15
	Sex    int    `json:"sex"`   // subscriber expiry (seconds after its connection is lost)
	Smax   int    `json:"smax"`  // max buffered size (bytes), 0 = unlimited
	NoWait bool   `json:"nowait"`
	// lock request
	Conn int    `json:"conn"`
	Via  int    `json:"via"` // > 0: send the lock command through this subscriber connection (real protocol object)
	Db   int    `json:"db"`
	Key  int64  `json:"key"`
	Klo  int64  `json:"klo"`
	Lid  int64  `json:"lid"`
	To   int    `json:"to"`
	Ex   int    `json:"ex"`
	Tf   int    `json:"tf"`
	Ef   int    `json:"ef"`
	Flag int    `json:"flag"`
	Cnt  int    `json:"cnt"`
	Rc   int    `json:"rc"`
	Data string `json:"data"`
	// misc
	N        int  `json:"n"`
	Open     bool `json:"open"`
	Ms       int  `json:"ms"`
	Status   int  `json:"status"`
	NoSettle bool `json:"nosettle"`
}

type vSubScenario struct {
	Name     string     `json:"name"`
	Shards   int        `json:"shards"`
	Steps    []vSubStep `json:"steps"`
	Complete bool       `json:"complete"`
	NoData   bool       `json:"nodata"`
	Lazy     bool       `json:"lazy"`
}

// ---------------------------------------------------------------- transport

type vSubNetConn struct {
	r       *vSubRun
	id      int
	mu      sync.Mutex
	cond    *sync.Cond
	in      [][]byte
	cliGone bool // the client closed its end
	srvGone bool // the server called Close()
	gated   bool
	permits int
	blocked int // writers waiting at the gate
	wbuf    []byte
	wcalls  int64
	wbytes  int64
	subres  map[int64]chan [2]int
	pongs   chan int64
}

var vSubRaw = os.Getenv("VERIF_SUB_RAW") != ""

type vSubAddr struct{ s string }

func (a vSubAddr) Network() string { return "vsub" }
func (a vSubAddr) String() string  { return a.s }

func (c *vSubNetConn) Read(b []byte) (int, error) {
	c.mu.Lock()
	defer c.mu.Unlock()
	for len(c.in) == 0 && !c.cliGone && !c.srvGone {
		c.cond.Wait()
	}
	if len(c.in) > 0 {
		n := copy(b, c.in[0])
		if n == len(c.in[0]) {
			c.in = c.in[1:]
		} else {
			c.in[0] = c.in[0][n:]
		}
		c.cond.Broadcast()
		return n, nil
	}
	if c.srvGone {
		return 0, io.ErrClosedPipe
	}
	return 0, io.EOF
}

func (c *vSubNetConn) Write(b []byte) (int, error) {
	c.mu.Lock()
	defer c.mu.Unlock()
	c.blocked++
	for c.gated && c.permits == 0 && !c.cliGone && !c.srvGone {
		c.cond.Wait()
	}
	c.blocked--
	if c.cliGone || c.srvGone {
		c.cond.Broadcast()
		return 0, io.ErrClosedPipe
	}
	if c.gated {
		c.permits--
	}
	c.wcalls++
	c.wbytes += int64(len(b))
	if vSubRaw {
		c.r.emit(map[string]interface{}{"e": "raw", "c": c.id, "hex": hex.EncodeToString(b)})
	}
	c.wbuf = append(c.wbuf, b...)
	if !c.r.lazy {
		c.parse()
	}
	c.cond.Broadcast()
	return len(b), nil
}

func (c *vSubNetConn) Close() error {
	c.mu.Lock()
	first := !c.srvGone
	c.parse()
	c.srvGone = true
	c.cond.Broadcast()
	c.mu.Unlock()
	if first {
		c.r.emit(map[string]interface{}{"e": "sclosed", "c": c.id})
	}
	return nil
}

func (c *vSubNetConn) LocalAddr() net.Addr                { return vSubAddr{"srv"} }
func (c *vSubNetConn) RemoteAddr() net.Addr               { return vSubAddr{"cli" + strconv.Itoa(c.id)} }
func (c *vSubNetConn) SetDeadline(t time.Time) error      { return nil }
func (c *vSubNetConn) SetReadDeadline(t time.Time) error  { return nil }
func (c *vSubNetConn) SetWriteDeadline(t time.Time) error { return nil }

func vSubU64(b []byte) int64 { return int64(binary.LittleEndian.Uint64(b)) }

// parse: called with c.mu held; turns complete frames of wbuf into trace events (in write order)
func (c *vSubNetConn) parse() {
	for len(c.wbuf) >= 64 {
		f := c.wbuf[:64]
		ct := f[2]
		need := 64
		hasData := false
		if (ct == protocol.COMMAND_PUBLISH || ct == protocol.COMMAND_LOCK || ct == protocol.COMMAND_UNLOCK) && f[20]&protocol.LOCK_FLAG_CONTAINS_DATA != 0 {
			hasData = true
			if len(c.wbuf) < 68 {
				return
			}
			need = 68 + int(binary.LittleEndian.Uint32(c.wbuf[64:68]))
			if len(c.wbuf) < need {
				return
			}
		}
		data := ""
		if hasData {
			data = hex.EncodeToString(c.wbuf[64:need])
		}
		switch ct {
		case protocol.COMMAND_SUBSCRIBE:
			var rid [16]byte
			copy(rid[:], f[3:19])
			id := vReqIdInt(rid)
			res := int(f[19])
			cid := int(binary.LittleEndian.Uint32(f[21:25]))
			sid := int(binary.LittleEndian.Uint32(f[25:29]))
			c.r.emit(map[string]interface{}{"e": "subres", "c": c.id, "rid": id, "res": res, "cid": cid, "sid": sid})
			if ch := c.subres[id]; ch != nil {
				ch <- [2]int{res, sid}
			}
		case protocol.COMMAND_PUBLISH:
			c.r.emit(map[string]interface{}{"e": "pub", "c": c.id, "pid": vSubU64(f[3:11]), "ver": int(binary.LittleEndian.Uint32(f[11:15])),
				"sid": int(binary.LittleEndian.Uint32(f[15:19])), "res": int(f[19]), "flag": int(f[20]), "db": int(f[21]),
				"lid": vSubU64(f[22:30]), "lidhi": vSubU64(f[30:38]), "key": vSubU64(f[38:46]), "klo": vSubU64(f[46:54]),
				"lc": int(binary.LittleEndian.Uint16(f[54:56])), "cnt": int(binary.LittleEndian.Uint16(f[56:58])), "lrc": int(f[58]), "rc": int(f[59]),
				"magic": int(f[0]), "version": int(f[1]), "dlen": need - 64, "data": data})
		case protocol.COMMAND_LOCK, protocol.COMMAND_UNLOCK:
			var rid [16]byte
			copy(rid[:], f[3:19])
			c.r.emit(map[string]interface{}{"e": "reply", "conn": c.id, "via": c.id, "rid": vReqIdInt(rid), "res": int(f[19]), "db": int(f[21]),
				"lid": vSubU64(f[22:30]), "key": vSubU64(f[38:46]), "klo": vSubU64(f[46:54]), "ct": int(ct),
				"lc": int(binary.LittleEndian.Uint16(f[54:56])), "cnt": int(binary.LittleEndian.Uint16(f[56:58])), "lrc": int(f[58]), "rc": int(f[59]), "data": data})
		case protocol.COMMAND_PING:
			var rid [16]byte
			copy(rid[:], f[3:19])
			select {
			case c.pongs <- vReqIdInt(rid):
			default:
			}
		default:
			c.r.emit(map[string]interface{}{"e": "frame", "c": c.id, "ct": int(ct), "res": int(f[19])})
		}
		c.wbuf = c.wbuf[need:]
	}
}

// ---------------------------------------------------------------- harness lock connection (full 16-byte keys in the events)

type vSubLConn struct {
	*DefaultServerProtocol
	r     *vSubRun
	id    int
	proxy *ProxyServerProtocol
	quiet bool
}

func (c *vSubLConn) GetProxy() *ProxyServerProtocol { return c.proxy }
func (c *vSubLConn) ProcessLockResultCommand(command *protocol.LockCommand, result uint8, lcount uint16, lrcount uint8, data []byte) error {
	return c.ProcessLockResultCommandLocked(command, result, lcount, lrcount, data)
}
func (c *vSubLConn) ProcessLockResultCommandLocked(command *protocol.LockCommand, result uint8, lcount uint16, lrcount uint8, data []byte) error {
	if c.quiet {
		return nil
	}
	d := ""
	if data != nil {
		d = hex.EncodeToString(data)
	}
	c.r.emit(map[string]interface{}{"e": "reply", "conn": c.id, "via": 0, "rid": vReqIdInt(command.RequestId), "res": int(result), "db": int(command.DbId),
		"lid": vSubU64(command.LockId[0:8]), "key": vSubU64(command.LockKey[0:8]), "klo": vSubU64(command.LockKey[8:16]), "ct": int(command.CommandType),
		"lc": int(lcount), "cnt": int(command.Count), "lrc": int(lrcount), "rc": int(command.Rcount), "data": d})
	return nil
}
func (c *vSubLConn) GetLockCommand() *protocol.LockCommand { return c.GetLockCommandLocked() }
func (c *vSubLConn) GetLockCommandLocked() *protocol.LockCommand {
	return &protocol.LockCommand{Command: protocol.Command{Magic: protocol.MAGIC, Version: protocol.VERSION}}
}
func (c *vSubLConn) FreeLockCommand(command *protocol.LockCommand) error       { return nil }
func (c *vSubLConn) FreeLockCommandLocked(command *protocol.LockCommand) error { return nil }

// ---------------------------------------------------------------- run

type vSubRun struct {
	w      *vWorld
	srv    *Server
	mgr    *SubscribeManager
	tr     *vTrace
	t0     time.Time
	conns  map[int]*vSubNetConn
	strm   map[*Stream]int
	lconns map[int]*vSubLConn
	labels map[string]int
	nextId int64
	since  int64
	stage  atomic.Value
	stepI  int32
	dead   int32
	held   *Subscriber
	lazy   bool // frames are parsed (and recorded) at the next poll of the driver instead of inside Write: a fast reader
	allSub []*Subscriber // every Subscriber object ever seen in the manager (to check that its goroutine ended)
}

func (r *vSubRun) ms() int64 { return time.Since(r.t0).Milliseconds() }

func (r *vSubRun) mark(what string) {
	r.stage.Store(what)
	atomic.StoreInt64(&r.since, time.Now().UnixNano())
}

func (r *vSubRun) emit(ev map[string]interface{}) {
	if atomic.LoadInt32(&r.dead) != 0 {
		return
	}
	ev["ms"] = r.ms()
	r.tr.Emit(ev)
}

func (r *vSubRun) pid() int64 { return int64(atomic.LoadUint64(&r.mgr.publishId)) }

func (r *vSubRun) connect(id int) *vSubNetConn {
	c := &vSubNetConn{r: r, id: id, subres: map[int64]chan [2]int{}, pongs: make(chan int64, 64)}
	c.cond = sync.NewCond(&c.mu)
	st := NewStream(c)
	r.conns[id] = c
	r.strm[st] = id
	_ = r.srv.addStream(st)
	r.emit(map[string]interface{}{"e": "sconn", "c": id})
	go r.srv.handle(st)
	// the first 64 bytes decide the protocol: a complete PING frame
	r.ping(c)
	return c
}

func (r *vSubRun) feed(c *vSubNetConn, b []byte) {
	c.mu.Lock()
	c.in = append(c.in, b)
	c.cond.Broadcast()
	c.mu.Unlock()
}

// ping: a PING frame behind the last command; its PONG proves the handler goroutine processed everything before it.
// Not possible while the gate is closed (the PONG could not be written) or after the connection ended.
func (r *vSubRun) ping(c *vSubNetConn) bool {
	c.mu.Lock()
	ok := !c.gated && !c.cliGone && !c.srvGone
	c.mu.Unlock()
	if !ok {
		return false
	}
	r.nextId++
	id := 1000000000 + r.nextId
	p := &protocol.PingCommand{Command: protocol.Command{Magic: protocol.MAGIC, Version: protocol.VERSION, CommandType: protocol.COMMAND_PING, RequestId: vReqId(id)}}
	b := make([]byte, 64)
	_ = p.Encode(b)
	r.feed(c, b)
	deadline := time.After(5 * time.Second)
	for {
		select {
		case got := <-c.pongs:
			if got == id {
				return true
			}
		case <-deadline:
			return false
		case <-time.After(2 * time.Millisecond):
			c.mu.Lock()
			c.parse()
			gone := c.cliGone || c.srvGone
			c.mu.Unlock()
			if gone {
				return false
			}
		}
	}
}

func vSubKey16(lo8 int64, hi8 int64) [16]byte {
	var b [16]byte
	binary.LittleEndian.PutUint64(b[0:8], uint64(lo8))
	binary.LittleEndian.PutUint64(b[8:16], uint64(hi8))
	return b
}

func (r *vSubRun) doSub(s *vSubStep) {
	c := r.conns[s.C]
	if c == nil {
		c = r.connect(s.C)
	}
	sid := s.Sid
	if s.Ref != "" {
		sid = r.labels[s.Ref]
	}
	r.nextId++
	id := r.nextId
	cmd := protocol.NewSubscribeCommand(uint32(s.Cid), uint32(sid), uint8(s.Typ), vSubKey16(s.Mh, s.Ml), uint32(s.Sex), uint32(s.Smax))
	cmd.RequestId = vReqId(id)
	b := make([]byte, 64)
	_ = cmd.Encode(b)
	ch := make(chan [2]int, 1)
	c.mu.Lock()
	c.subres[id] = ch
	gated, gone := c.gated, c.cliGone || c.srvGone
	c.mu.Unlock()
	r.emit(map[string]interface{}{"e": "sub", "c": s.C, "rid": id, "cid": s.Cid, "sid": sid, "typ": s.Typ, "mh": s.Mh, "ml": s.Ml, "sex": s.Sex, "smax": s.Smax,
		"label": s.Label, "gated": gated, "gone": gone})
	if gone {
		return
	}
	r.feed(c, b)
	if s.NoWait || gated {
		return
	}
	r.mark(fmt.Sprintf("SUBSCRIBE command on connection %d is not answered", s.C))
	deadline := time.After(5 * time.Second)
	for {
		select {
		case res := <-ch:
			if s.Label != "" && res[0] == 0 {
				r.labels[s.Label] = res[1]
			}
			return
		case <-deadline:
			r.emit(map[string]interface{}{"e": "subtimeout", "c": s.C, "rid": id})
			return
		case <-time.After(2 * time.Millisecond):
			c.mu.Lock()
			c.parse()
			gone := c.cliGone || c.srvGone
			c.mu.Unlock()
			if gone {
				// the server closed the connection instead of (or before) answering
				select {
				case res := <-ch:
					if s.Label != "" && res[0] == 0 {
						r.labels[s.Label] = res[1]
					}
				default:
					r.emit(map[string]interface{}{"e": "subunanswered", "c": s.C, "rid": id})
				}
				return
			}
		}
	}
}

func (r *vSubRun) lconn(id int) *vSubLConn {
	c := r.lconns[id]
	if c == nil {
		c = &vSubLConn{DefaultServerProtocol: NewDefaultServerProtocolNoGlobal(r.w.slock), r: r, id: id}
		c.proxy = &ProxyServerProtocol{[16]byte{}, c}
		r.lconns[id] = c
	}
	return c
}

func (r *vSubRun) doLock(s *vSubStep) {
	r.nextId++
	id := r.nextId
	cmd := &protocol.LockCommand{Command: protocol.Command{Magic: protocol.MAGIC, Version: protocol.VERSION}}
	ct := "L"
	cmd.CommandType = protocol.COMMAND_LOCK
	if s.Op == "unlock" {
		cmd.CommandType = protocol.COMMAND_UNLOCK
		ct = "U"
	}
	cmd.RequestId = vReqId(id)
	cmd.Flag = uint8(s.Flag)
	cmd.DbId = uint8(s.Db)
	cmd.LockId = vSubKey16(s.Lid, 0)
	cmd.LockKey = vSubKey16(s.Key, s.Klo)
	cmd.TimeoutFlag, cmd.Timeout = uint16(s.Tf), uint16(s.To)
	cmd.ExpriedFlag, cmd.Expried = uint16(s.Ef), uint16(s.Ex)
	cmd.Count, cmd.Rcount = uint16(s.Cnt), uint8(s.Rc)
	if s.Data != "" && s.Via == 0 {
		b, err := hex.DecodeString(s.Data)
		if err != nil {
			panic(err)
		}
		cmd.Data = protocol.NewLockCommandDataFromOriginBytes(b)
		cmd.Flag |= protocol.LOCK_FLAG_CONTAINS_DATA
	}
	r.emit(map[string]interface{}{"e": "req", "id": id, "conn": s.Conn, "via": s.Via, "cmd": ct, "db": s.Db, "key": s.Key, "klo": s.Klo, "lid": s.Lid, "flag": int(cmd.Flag),
		"tf": s.Tf, "ef": s.Ef, "to": s.To, "ex": s.Ex, "cnt": s.Cnt, "rc": s.Rc, "t": r.w.now, "pid0": r.pid(), "data": s.Data})
	if s.Via > 0 {
		c := r.conns[s.Via]
		if c == nil {
			c = r.connect(s.Via)
		}
		b := make([]byte, 64)
		_ = cmd.Encode(b)
		r.feed(c, b)
		r.mark(fmt.Sprintf("connection %d does not answer a PING behind a lock command", s.Via))
		r.ping(c)
	} else {
		db := r.w.db(uint8(s.Db))
		if cmd.CommandType == protocol.COMMAND_LOCK {
			_ = db.Lock(r.lconn(s.Conn), cmd, 0)
		} else {
			_ = db.UnLock(r.lconn(s.Conn), cmd, 0)
		}
	}
	r.emit(map[string]interface{}{"e": "ret", "id": id, "t": r.w.now, "pid": r.pid()})
}

// ---------------------------------------------------------------- quiescence + snapshot

type vSubInfo struct {
	Sid    int        `json:"sid"`
	Cid    int        `json:"cid"`
	Closed bool       `json:"closed"`
	Masks  [][2]int64 `json:"masks"`
	Conn   int        `json:"conn"` // connection it is attached to (-1 none)
	Ex     int        `json:"ex"`
	Max    int        `json:"max"`
	Bufsz  int        `json:"bufsz"`  // bytes of buffer blocks allocated
	Pend   int        `json:"pend"`   // bytes appended and not yet written
	Blocks int        `json:"blocks"`
	Lost   int64      `json:"lostms"` // ms since the connection was lost (-1 attached)
}

func (r *vSubRun) subscribers() []*Subscriber {
	r.mgr.glock.Lock()
	subs := make([]*Subscriber, 0, len(r.mgr.subscribers))
	for _, s := range r.mgr.subscribers {
		subs = append(subs, s)
	}
	r.mgr.glock.Unlock()
	sort.Slice(subs, func(i, j int) bool { return subs[i].subscriberId < subs[j].subscriberId })
	for _, s := range subs {
		known := false
		for _, x := range r.allSub {
			if x == s {
				known = true
			}
		}
		if !known {
			r.allSub = append(r.allSub, s)
		}
	}
	return subs
}

func (r *vSubRun) infoOf(s *Subscriber) (vSubInfo, bool) {
	s.glock.Lock()
	defer s.glock.Unlock()
	in := vSubInfo{Sid: int(s.subscriberId), Cid: int(s.clientId), Closed: s.closed, Masks: [][2]int64{}, Conn: -1, Ex: int(s.expriedTime), Max: int(s.maxSize),
		Bufsz: s.bufferSize, Lost: -1}
	for _, m := range s.lockKeyMasks {
		in.Masks = append(in.Masks, [2]int64{int64(m[0]), int64(m[1])})
	}
	var st *Stream
	if s.serverProtocol != nil {
		st = s.serverProtocol.GetStream()
		if st != nil {
			if id, ok := r.strm[st]; ok {
				in.Conn = id
			}
		}
	}
	for b := s.bufferHead; b != nil; b = b.next {
		in.Pend += b.windex - b.rindex
		in.Blocks++
	}
	// "busy": something is about to happen without any further input
	busy := false
	if !s.closed {
		if len(s.lockKeyMasks) == 0 {
			busy = true // unsubscribed its last mask: Close() is on its way
		}
		if s.serverProtocol == nil && s.expriedTime == 0 {
			busy = true // lost its connection without a grace period: Close() is on its way
		}
		if s.serverProtocol != nil && st != nil && in.Conn >= 0 {
			c := r.conns[in.Conn]
			c.mu.Lock()
			gone, blockedW := c.cliGone || c.srvGone, c.gated && c.blocked > 0 && c.permits == 0
			c.mu.Unlock()
			if gone {
				busy = true // the subscriber has not noticed yet
			} else if in.Pend > 0 && !blockedW && !r.anyBlockedWriter() {
				busy = true // the writer is at work (a writer held at the gate of ANOTHER connection may be this one's: it was re-attached)
			}
		}
	} else {
		busy = true // closed but still registered
	}
	return in, busy
}

func (r *vSubRun) parseAll() {
	if !r.lazy {
		return
	}
	for _, c := range r.conns {
		c.mu.Lock()
		c.parse()
		c.mu.Unlock()
	}
}

func (r *vSubRun) anyBlockedWriter() bool {
	for _, c := range r.conns {
		c.mu.Lock()
		b := c.gated && c.blocked > 0 && c.permits == 0 && !c.cliGone && !c.srvGone
		c.mu.Unlock()
		if b {
			return true
		}
	}
	return false
}

func (r *vSubRun) channelsBusy() (bool, int) {
	q := 0
	r.mgr.glock.Lock()
	chans := r.mgr.channels
	r.mgr.glock.Unlock()
	for _, ch := range chans {
		ch.queueGlock.Lock()
		q += ch.queueCount
		ch.queueGlock.Unlock()
	}
	return q > 0 || atomic.LoadUint32(&r.mgr.channelActiveCount) != 0, q
}

func (r *vSubRun) settle() {
	r.mark("the subscribe subsystem does not come to rest")
	stable, last := 0, ""
	start := time.Now()
	for stable < 6 {
		r.parseAll()
		busy, q := r.channelsBusy()
		sig := fmt.Sprintf("g%d q%d p%d", runtime.NumGoroutine(), q, r.pid())
		why := ""
		if busy {
			why = "channel"
		}
		for _, s := range r.subscribers() {
			in, b := r.infoOf(s)
			sig += fmt.Sprintf("|%d %v %d %d %d %d", in.Sid, in.Closed, len(in.Masks), in.Conn, in.Bufsz, in.Pend)
			if b {
				busy = true
				why += fmt.Sprintf(" sub%d", in.Sid)
			}
		}
		ids := make([]int, 0, len(r.conns))
		for id := range r.conns {
			ids = append(ids, id)
		}
		sort.Ints(ids)
		for _, id := range ids {
			c := r.conns[id]
			c.mu.Lock()
			sig += fmt.Sprintf("|c%d %d %d %d %v %v", id, c.wbytes, len(c.in), c.blocked, c.cliGone, c.srvGone)
			if len(c.in) > 0 && !c.srvGone {
				busy = true
				why += fmt.Sprintf(" in%d", id)
			}
			c.mu.Unlock()
		}
		if !busy && sig == last {
			stable++
		} else {
			stable = 0
		}
		last = sig
		if time.Since(start) > 4*time.Second {
			r.emit(map[string]interface{}{"e": "unsettled", "why": strings.TrimSpace(why)})
			return
		}
		runtime.Gosched()
		time.Sleep(500 * time.Microsecond)
	}
}

func (r *vSubRun) snapshot(final bool) {
	subs := []vSubInfo{}
	for _, s := range r.subscribers() {
		in, _ := r.infoOf(s)
		if in.Conn == -1 && !in.Closed {
			s.glock.Lock()
			if s.serverProtocolClosedTime != 0 {
				in.Lost = (time.Now().Unix() - s.serverProtocolClosedTime) * 1000
			}
			s.glock.Unlock()
		}
		subs = append(subs, in)
	}
	_, q := r.channelsBusy()
	cs := []map[string]interface{}{}
	ids := make([]int, 0, len(r.conns))
	for id := range r.conns {
		ids = append(ids, id)
	}
	sort.Ints(ids)
	for _, id := range ids {
		c := r.conns[id]
		c.mu.Lock()
		cs = append(cs, map[string]interface{}{"c": id, "gated": c.gated, "blocked": c.blocked, "cligone": c.cliGone, "srvgone": c.srvGone, "wbytes": c.wbytes})
		c.mu.Unlock()
	}
	r.mgr.glock.Lock()
	nfast := len(r.mgr.fastSubscribers)
	nchan := len(r.mgr.channels)
	r.mgr.glock.Unlock()
	r.emit(map[string]interface{}{"e": "ssnap", "subs": subs, "conns": cs, "nfast": nfast, "nchan": nchan, "chq": q, "pid": r.pid(), "final": final,
		"role": int(r.w.slock.state)})
}

// ---------------------------------------------------------------- steps

func (r *vSubRun) step(s *vSubStep) {
	switch s.Op {
	case "conn":
		if r.conns[s.C] == nil {
			r.connect(s.C)
		}
	case "sub":
		r.doSub(s)
	case "lock", "unlock":
		r.doLock(s)
	case "tick":
		n := s.N
		if n <= 0 {
			n = 1
		}
		for i := 0; i < n; i++ {
			r.emit(map[string]interface{}{"e": "tick", "t": r.w.now, "pid0": r.pid()})
			r.w.Tick("te")
			r.emit(map[string]interface{}{"e": "tock", "t": r.w.now, "pid": r.pid()})
		}
	case "gate":
		c := r.conns[s.C]
		if c == nil {
			return
		}
		c.mu.Lock()
		c.gated = !s.Open
		c.permits = 0
		c.cond.Broadcast()
		c.mu.Unlock()
		r.emit(map[string]interface{}{"e": "gate", "c": s.C, "open": s.Open})
	case "permit":
		// let n Write calls of the server through a closed gate (each may carry several frames)
		c := r.conns[s.C]
		if c == nil {
			return
		}
		n := s.N
		if n <= 0 {
			n = 1
		}
		r.emit(map[string]interface{}{"e": "permit", "c": s.C, "n": n})
		for i := 0; i < n; i++ {
			c.mu.Lock()
			if !c.gated || c.blocked == 0 {
				c.mu.Unlock()
				break
			}
			before := c.wcalls
			c.permits++
			c.cond.Broadcast()
			deadline := time.Now().Add(2 * time.Second)
			for c.wcalls == before && !c.cliGone && !c.srvGone && time.Now().Before(deadline) {
				c.mu.Unlock()
				time.Sleep(200 * time.Microsecond)
				c.mu.Lock()
			}
			c.mu.Unlock()
			r.settle()
		}
	case "cclose":
		c := r.conns[s.C]
		if c == nil {
			return
		}
		r.emit(map[string]interface{}{"e": "cclose", "c": s.C})
		c.mu.Lock()
		c.cliGone = true
		c.cond.Broadcast()
		c.mu.Unlock()
	case "sleep":
		time.Sleep(time.Duration(s.Ms) * time.Millisecond)
		r.emit(map[string]interface{}{"e": "slept", "n": s.Ms})
	case "status":
		r.mark("SLock.updateState does not return (WaitFlushSubscribeChannel)")
		r.w.slock.updateState(uint8(s.Status))
		r.emit(map[string]interface{}{"e": "status", "status": s.Status})
	case "hold":
		// the driver takes the subscriber's own mutex: whoever needs it (Push of a channel goroutine, Update, the
		// subscriber goroutine) waits - a pure delay, used to build a backlog in a channel or to order two contenders
		for _, sb := range r.subscribers() {
			if int(sb.subscriberId) == r.labels[s.Ref] && r.held == nil {
				sb.glock.Lock()
				r.held = sb
				r.emit(map[string]interface{}{"e": "hold", "sid": int(sb.subscriberId)})
			}
		}
		return
	case "release":
		if r.held != nil {
			sid := int(r.held.subscriberId)
			r.held.glock.Unlock()
			r.held = nil
			r.emit(map[string]interface{}{"e": "release", "sid": sid})
		}
	case "storm":
		// s.N goroutines issue s.Cnt zero-expiry locks each (ExpriedFlag push_subscribe, distinct keys with key & 15 != 0):
		// every request pushes one EXPRIED event.  Replies are not recorded; the publish-id range is.
		p0 := r.pid()
		var wg sync.WaitGroup
		for g := 0; g < s.N; g++ {
			wg.Add(1)
			go func(g int) {
				defer wg.Done()
				qc := &vSubLConn{DefaultServerProtocol: NewDefaultServerProtocolNoGlobal(r.w.slock), r: r, id: 900 + g, quiet: true}
				qc.proxy = &ProxyServerProtocol{[16]byte{}, qc}
				db := r.w.db(0)
				for i := 0; i < s.Cnt; i++ {
					cmd := &protocol.LockCommand{Command: protocol.Command{Magic: protocol.MAGIC, Version: protocol.VERSION, CommandType: protocol.COMMAND_LOCK}}
					k := int64(g*4096+i)*16 + int64(1+(i+g)%15)
					cmd.RequestId = vReqId(int64(2000000000) + k)
					cmd.LockKey = vSubKey16(k, 0)
					cmd.LockId = vSubKey16(k, 0)
					cmd.ExpriedFlag = 0x20
					_ = db.Lock(qc, cmd, 0)
				}
			}(g)
		}
		wg.Wait()
		r.emit(map[string]interface{}{"e": "storm", "pid0": p0, "pid": r.pid(), "n": s.N * s.Cnt})
	case "settle":
	default:
		panic("vSub: unknown op " + s.Op)
	}
	if !s.NoSettle && r.held == nil {
		r.settle()
		r.snapshot(false)
	}
}

// teardown in the order of SLock.PrepareClose: databases (their channels), aof, replication, subscribe manager, admin
func (r *vSubRun) teardown() {
	r.mark("closing the databases (SubscribeChannel goroutines) does not finish")
	s := r.w.slock
	var chans []*SubscribeChannel
	r.mgr.glock.Lock()
	chans = append(chans, r.mgr.channels...)
	r.mgr.glock.Unlock()
	s.glock.Lock()
	s.state = STATE_CLOSE
	for _, db := range s.dbs {
		if db != nil {
			db.status = STATE_CLOSE
			db.Close()
		}
	}
	s.glock.Unlock()
	for _, ch := range chans {
		<-ch.closedWaiter
	}
	r.emit(map[string]interface{}{"e": "chansclosed", "n": len(chans)})
	s.aof.Close()
	s.replicationManager.Close()
	r.mark("SubscribeManager.Close() does not return")
	subs := r.subscribers()
	r.mgr.Close()
	r.mark("a Subscriber goroutine does not end after SubscribeManager.Close()")
	for _, sb := range r.allSub {
		<-sb.closedWaiter
	}
	left := 0
	r.mgr.glock.Lock()
	left = len(r.mgr.subscribers)
	r.mgr.glock.Unlock()
	r.emit(map[string]interface{}{"e": "mgrclosed", "subs": len(subs), "left": left, "goroutines_ended": len(r.allSub)})
	s.admin.Close()
	for _, c := range r.conns {
		c.mu.Lock()
		c.cliGone = true
		c.cond.Broadcast()
		c.mu.Unlock()
	}
	if r.w.dir != "" {
		os.RemoveAll(r.w.dir)
	}
}

func TestVerifSub(t *testing.T) {
	in, out := vEnvInOut(t)
	if in == "" {
		return
	}
	var scs []vSubScenario
	vReadJSONLines(in, func(line []byte) {
		var s vSubScenario
		vMustUnmarshal(line, &s)
		scs = append(scs, s)
	})
	tr := vOpenTrace(out)
	defer tr.Close()
	if dbg := os.Getenv("VERIF_SUB_DEBUG"); dbg != "" {
		// development aid: dump every goroutine when the trace has not grown for 8 seconds
		go func() {
			last, still := -1, 0
			for {
				time.Sleep(time.Second)
				tr.mu.Lock()
				n := tr.n
				tr.mu.Unlock()
				if n == last {
					still++
				} else {
					still = 0
				}
				last = n
				if still == 8 {
					buf := make([]byte, 16<<20)
					buf = buf[:runtime.Stack(buf, true)]
					_ = os.WriteFile(dbg, buf, 0644)
				}
			}
		}()
	}
	base := 0
	if v := os.Getenv("VERIF_IDX0"); v != "" {
		base, _ = strconv.Atoi(v)
	}
	limit := 20 * time.Second
	if v := os.Getenv("VERIF_STEP_DEADLINE"); v != "" {
		if n, err := strconv.Atoi(v); err == nil && n > 0 {
			limit = time.Duration(n) * time.Second
		}
	}
	for i, sc := range scs {
		sc := sc
		r := &vSubRun{lazy: sc.Lazy, tr: tr, conns: map[int]*vSubNetConn{}, strm: map[*Stream]int{}, lconns: map[int]*vSubLConn{}, labels: map[string]int{}, t0: time.Now()}
		r.mark("building the server")
		done := make(chan struct{})
		go func() {
			defer close(done)
			defer func() {
				if x := recover(); x != nil {
					buf := make([]byte, 1<<16)
					n := runtime.Stack(buf, false)
					r.emit(map[string]interface{}{"e": "panic", "msg": fmt.Sprint(x), "site": vPanicSite(string(buf[:n]))})
					tr.Emit(map[string]interface{}{"e": "end", "name": sc.Name, "idx": base + i, "complete": false, "ms": r.ms()})
				}
			}()
			shards := sc.Shards
			if shards <= 0 {
				shards = 2
			}
			w := vNewWorld(t, vWorldCfg{Subscribe: true, Concurrent: uint(shards)}, tr, 1000)
			w.db(0)
			r.w, r.srv, r.mgr = w, NewServer(w.slock), w.slock.subscribeManager
			r.emit(map[string]interface{}{"e": "begin", "name": sc.Name, "idx": base + i, "t": int64(1000), "shards": shards, "nodata": sc.NoData})
			for j := range sc.Steps {
				atomic.StoreInt32(&r.stepI, int32(j))
				r.mark("step " + sc.Steps[j].Op + " did not finish")
				r.step(&sc.Steps[j])
			}
			r.settle()
			r.snapshot(true)
			r.teardown()
			r.emit(map[string]interface{}{"e": "end", "name": sc.Name, "idx": base + i, "complete": sc.Complete})
		}()
		hung := false
		for !hung {
			select {
			case <-done:
			case <-time.After(100 * time.Millisecond):
				if time.Since(time.Unix(0, atomic.LoadInt64(&r.since))) > limit {
					hung = true
				}
				continue
			}
			break
		}
		if hung {
			what, _ := r.stage.Load().(string)
			frame, state, blocked := vSubBlockedFrames()
			ev := map[string]interface{}{"e": "hang", "step": int(atomic.LoadInt32(&r.stepI)), "what": what, "frame": frame, "state": state, "blocked": blocked,
				"deadline_s": int(limit / time.Second), "ms": r.ms()}
			atomic.StoreInt32(&r.dead, 1)
			tr.Emit(ev)
			tr.Emit(map[string]interface{}{"e": "end", "name": sc.Name, "idx": base + i, "complete": false, "hung": true, "ms": r.ms()})
			tr.mu.Lock()
			tr.w.Flush()
			tr.mu.Unlock()
			fmt.Printf("VSUB-HANG-STOP %d %s\n", base+i, sc.Name)
			return
		}
	}
}

// vSubBlockedFrames: goroutines blocked inside subscribe.go (idle Run loops left out): first frame, its wait state,
// and up to eight "state @ frame" lines.
func vSubBlockedFrames() (string, string, []string) {
	buf := make([]byte, 16<<20)
	buf = buf[:runtime.Stack(buf, true)]
	out := []string{}
	first, fstate := "none", "none"
	for _, g := range strings.Split(string(buf), "\n\n") {
		if !strings.Contains(g, "server/subscribe.go") {
			continue
		}
		lines := strings.Split(g, "\n")
		state := ""
		if a, b := strings.Index(lines[0], "["), strings.Index(lines[0], "]"); a >= 0 && b > a {
			state = strings.Split(lines[0][a+1:b], ",")[0]
		}
		frame, loc := "", ""
		for k, l := range lines[1:] {
			const pfx = "github.com/snower/slock/server."
			if !strings.HasPrefix(l, pfx) {
				continue
			}
			fn := l[len(pfx):]
			if i := strings.LastIndex(fn, "("); i > 0 {
				fn = fn[:i]
			}
			if strings.HasPrefix(fn, "(*vSub") || strings.HasPrefix(fn, "vSub") || strings.HasPrefix(fn, "TestVerif") {
				continue
			}
			frame = fn
			if k+2 < len(lines) {
				loc = strings.TrimSpace(lines[k+2])
				if i := strings.LastIndex(loc, "/"); i >= 0 {
					loc = loc[i+1:]
				}
				if i := strings.Index(loc, " "); i >= 0 {
					loc = loc[:i]
				}
			}
			break
		}
		if frame == "" {
			continue
		}
		if (frame == "(*Subscriber).Run" && state == "select") || (frame == "(*SubscribeChannel).Run" && state == "chan receive") {
			continue
		}
		if first == "none" {
			first, fstate = frame, state
		}
		if len(out) < 8 {
			out = append(out, state+" @ "+frame+" "+loc)
		}
	}
	return first, fstate, out
}

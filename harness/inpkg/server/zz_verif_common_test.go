//go:build verif

package server

// In-package verification harness (injected with `go test -overlay`, never committed to /repo).
// Common part: world construction, harness connections (ServerProtocol implementations that
// observe every reply synchronously), virtual clock, canonical snapshot (the projection shared
// with the TLA+ specs), ndjson trace writer.

import (
	"bufio"
	"encoding/binary"
	"encoding/hex"
	"encoding/json"
	"fmt"
	"os"
	"sort"
	"sync"
	"testing"
	"time"

	"github.com/jessevdk/go-flags"
	"github.com/snower/slock/protocol"
)

// ---------------------------------------------------------------- ids

func vKey(k int64) [16]byte {
	var b [16]byte
	binary.LittleEndian.PutUint64(b[0:8], uint64(k))
	return b
}

func vKeyInt(b [16]byte) int64 {
	for i := 8; i < 16; i++ {
		if b[i] != 0 {
			return -1
		}
	}
	return int64(binary.LittleEndian.Uint64(b[0:8]))
}

func vReqId(id int64) [16]byte {
	var b [16]byte
	binary.LittleEndian.PutUint64(b[0:8], uint64(id))
	b[15] = 0xA5
	return b
}

func vReqIdInt(b [16]byte) int64 {
	if b[15] != 0xA5 {
		return -1
	}
	for i := 8; i < 15; i++ {
		if b[i] != 0 {
			return -1
		}
	}
	return int64(binary.LittleEndian.Uint64(b[0:8]))
}

// ---------------------------------------------------------------- trace

type vTrace struct {
	mu  sync.Mutex
	w   *bufio.Writer
	f   *os.File
	n   int
	err error
}

func vOpenTrace(path string) *vTrace {
	f, err := os.Create(path)
	if err != nil {
		panic(err)
	}
	return &vTrace{w: bufio.NewWriterSize(f, 1<<20), f: f}
}

func (t *vTrace) Emit(ev map[string]interface{}) {
	b, err := json.Marshal(ev)
	if err != nil {
		panic(err)
	}
	t.mu.Lock()
	t.w.Write(b)
	t.w.WriteByte('\n')
	t.n++
	// history boundaries reach the file at once: when the process dies (a panic of the code under test on one of its
	// own goroutines) the check still sees every finished history and knows which one was in flight
	if e, _ := ev["e"].(string); e == "begin" || e == "end" {
		t.w.Flush()
	}
	t.mu.Unlock()
}

func (t *vTrace) Close() {
	t.mu.Lock()
	t.w.Flush()
	t.f.Close()
	t.mu.Unlock()
}

// ---------------------------------------------------------------- world

type vWorldCfg struct {
	FastKeys   uint    `json:"fastkeys"`
	Concurrent uint    `json:"concurrent"`
	AofTime    uint    `json:"aoftime"`
	Parcent    float64 `json:"parcent"`
	BufSize    uint    `json:"bufsize"`
	RewriteSz  uint    `json:"rewritesize"`
	DataDir    string  `json:"-"`
	NoAof      bool    `json:"noaof"`
	RealClock  bool    `json:"realclock"`
	Subscribe  bool    `json:"subscribe"`
}

type vWorld struct {
	t      *testing.T
	cfg    vWorldCfg
	slock  *SLock
	now    int64
	conns  map[int]*vConn
	tr     *vTrace
	mu     sync.Mutex // protects event emission order bookkeeping
	curReq int64      // request currently being executed by the sequential driver (-1 none)
	gate   func(w *vWorld, ev map[string]interface{})
	sweepQ map[uint8]*vSweepQueues
	dir    string
	t0     time.Time // start of the history (real-time engine)
	dead   bool      // the real code panicked during this history
}

// ms since the start of the history (0 on the virtual clock)
func (w *vWorld) ms() int64 {
	if !w.cfg.RealClock {
		return 0
	}
	return time.Since(w.t0).Milliseconds()
}

// server second used to stamp events
func (w *vWorld) sec() int64 {
	if w.cfg.RealClock {
		return time.Now().Unix()
	}
	return w.now
}

type vSweepQueues struct {
	to [][]*LockQueue
	ex [][]*LockQueue
}

func vNewConfig(c vWorldCfg) *ServerConfig {
	serverConfig := &ServerConfig{}
	parse := flags.NewParser(serverConfig, flags.Default)
	if _, err := parse.ParseArgs([]string{}); err != nil {
		panic(err)
	}
	serverConfig.LogLevel = "ERROR"
	if c.FastKeys > 0 {
		serverConfig.DBFastKeyCount = c.FastKeys
	} else {
		serverConfig.DBFastKeyCount = 64
	}
	if c.Concurrent > 0 {
		serverConfig.DBConcurrent = c.Concurrent
	} else {
		serverConfig.DBConcurrent = 2
	}
	if c.AofTime > 0 {
		serverConfig.DBLockAofTime = c.AofTime
	}
	if c.Parcent > 0 {
		serverConfig.DBLockAofParcentTime = c.Parcent
	}
	if c.BufSize > 0 {
		serverConfig.AofFileBufferSize = c.BufSize
	}
	if c.RewriteSz > 0 {
		serverConfig.AofFileRewriteSize = c.RewriteSz
	}
	serverConfig.DataDir = c.DataDir
	serverConfig.SubscribeEnabled = c.Subscribe
	return serverConfig
}

var vLoggerOnce sync.Once

// vNewWorld builds a leader SLock on a scratch data dir with the wall-clock sweepers disabled.
func vNewWorld(t *testing.T, cfg vWorldCfg, tr *vTrace, startNow int64) *vWorld {
	VerifManualClock = !cfg.RealClock
	if cfg.DataDir == "" {
		d, err := os.MkdirTemp("", "vslock")
		if err != nil {
			panic(err)
		}
		cfg.DataDir = d
	}
	sc := vNewConfig(cfg)
	logger, _ := InitLogger(sc)
	slock := NewSLock(sc, logger)
	if err := slock.initLeader(); err != nil {
		panic(fmt.Sprintf("initLeader: %v", err))
	}
	w := &vWorld{t: t, cfg: cfg, slock: slock, now: startNow, conns: map[int]*vConn{}, tr: tr, curReq: -1,
		sweepQ: map[uint8]*vSweepQueues{}, dir: cfg.DataDir, t0: time.Now()}
	return w
}

func (w *vWorld) Close(removeDir bool) {
	s := w.slock
	s.glock.Lock()
	s.state = STATE_CLOSE
	for _, db := range s.dbs {
		if db != nil {
			// LockDB.Close() only acts when status is already STATE_CLOSE (sic); emulate PrepareClose
			// without its one-second sleep.
			db.status = STATE_CLOSE
			db.Close()
		}
	}
	s.glock.Unlock()
	s.aof.Close()
	s.replicationManager.Close()
	s.admin.Close()
	if removeDir && w.dir != "" {
		os.RemoveAll(w.dir)
	}
}

func (w *vWorld) db(dbId uint8) *LockDB {
	db := w.slock.dbs[dbId]
	if db == nil {
		db = w.slock.GetOrNewDB(dbId)
		if !w.cfg.RealClock {
			db.currentTime = w.now
			db.checkTimeoutTime = w.now + 1
			db.checkExpriedTime = w.now + 1
		}
	}
	return db
}

func (w *vWorld) sweepQueues(db *LockDB) *vSweepQueues {
	q := w.sweepQ[db.dbId]
	if q == nil {
		q = &vSweepQueues{}
		q.to = make([][]*LockQueue, db.managerMaxGlocks)
		q.ex = make([][]*LockQueue, db.managerMaxGlocks)
		for i := uint16(0); i < db.managerMaxGlocks; i++ {
			q.to[i] = make([]*LockQueue, 5)
			q.ex[i] = make([]*LockQueue, 5)
		}
		w.sweepQ[db.dbId] = q
	}
	return q
}

// Tick advances the virtual clock by one second and runs the sweeps the way checkTimeOut /
// checkExpried do (catch-up loop from checkXTime to now), sequentially.
func (w *vWorld) Tick(order string) {
	w.now++
	for _, db := range w.slock.dbs {
		if db == nil {
			continue
		}
		db.currentTime = w.now
	}
	for _, phase := range order {
		for _, db := range w.slock.dbs {
			if db == nil {
				continue
			}
			q := w.sweepQueues(db)
			switch phase {
			case 't':
				ct := db.checkTimeoutTime
				db.checkTimeoutTime = w.now + 1
				for ; ct <= w.now; ct++ {
					for i := uint16(0); i < db.managerMaxGlocks; i++ {
						db.checkTimeTimeOut(ct, w.now, i, q.to[i])
					}
				}
			case 'e':
				ce := db.checkExpriedTime
				db.checkExpriedTime = w.now + 1
				for ; ce <= w.now; ce++ {
					for i := uint16(0); i < db.managerMaxGlocks; i++ {
						db.checkTimeExpried(ce, w.now, i, q.ex[i])
					}
				}
			}
		}
	}
}

// ---------------------------------------------------------------- harness connection

type vConn struct {
	*DefaultServerProtocol
	w      *vWorld
	id     int
	proxy  *ProxyServerProtocol
	closed bool
	// command objects are recycled per connection exactly like BinaryServerProtocol's free stack does: a command the
	// engine hands back (FreeLockCommand) is the object the NEXT request of this connection is decoded into, so a
	// command freed while a Lock record still points at it shows up as a hold whose terms change under it
	poolMu sync.Mutex
	pool   []*protocol.LockCommand
}

func (w *vWorld) conn(id int) *vConn {
	c := w.conns[id]
	if c == nil {
		c = &vConn{DefaultServerProtocol: NewDefaultServerProtocolNoGlobal(w.slock), w: w, id: id}
		c.proxy = &ProxyServerProtocol{[16]byte{}, c}
		w.conns[id] = c
	}
	return c
}

// NewDefaultServerProtocolNoGlobal builds a DefaultServerProtocol without touching the package
// global defaultServerProtocol.
func NewDefaultServerProtocolNoGlobal(slock *SLock) *DefaultServerProtocol {
	proxy := &ProxyServerProtocol{[16]byte{}, nil}
	sp := &DefaultServerProtocol{slock, proxy}
	proxy.serverProtocol = sp
	return sp
}

func (c *vConn) GetProxy() *ProxyServerProtocol { return c.proxy }

func (c *vConn) ProcessLockResultCommand(command *protocol.LockCommand, result uint8, lcount uint16, lrcount uint8, data []byte) error {
	return c.ProcessLockResultCommandLocked(command, result, lcount, lrcount, data)
}

func (c *vConn) ProcessLockResultCommandLocked(command *protocol.LockCommand, result uint8, lcount uint16, lrcount uint8, data []byte) error {
	w := c.w
	ev := map[string]interface{}{
		"e": "reply", "conn": c.id, "rid": vReqIdInt(command.RequestId), "res": int(result),
		"lc": int(lcount), "lrc": int(lrcount), "lid": vKeyInt(command.LockId), "key": vKeyInt(command.LockKey),
		"db": int(command.DbId), "ct": int(command.CommandType), "t": w.sec(), "ms": w.ms(), "cur": w.curReq,
		"cnt": int(command.Count), "rc": int(command.Rcount), "ex": int(command.Expried), "to": int(command.Timeout),
	}
	if data != nil {
		ev["data"] = hex.EncodeToString(data)
	} else {
		ev["data"] = ""
	}
	if w.gate != nil {
		w.gate(w, ev)
	} else {
		w.tr.Emit(ev)
	}
	return nil
}

func (c *vConn) GetLockCommand() *protocol.LockCommand { return c.GetLockCommandLocked() }
func (c *vConn) GetLockCommandLocked() *protocol.LockCommand {
	c.poolMu.Lock()
	defer c.poolMu.Unlock()
	if n := len(c.pool); n > 0 {
		cmd := c.pool[n-1]
		c.pool = c.pool[:n-1]
		return cmd
	}
	return &protocol.LockCommand{Command: protocol.Command{Magic: protocol.MAGIC, Version: protocol.VERSION}}
}
func (c *vConn) FreeLockCommand(command *protocol.LockCommand) error { return c.FreeLockCommandLocked(command) }
func (c *vConn) FreeLockCommandLocked(command *protocol.LockCommand) error {
	if command == nil {
		return nil
	}
	c.poolMu.Lock()
	if len(c.pool) < 64 {
		c.pool = append(c.pool, command)
	}
	c.poolMu.Unlock()
	return nil
}

// ---------------------------------------------------------------- requests

type vReq struct {
	Op        string `json:"op"`
	Conn      int    `json:"conn"`
	Db        int    `json:"db"`
	Key       int64  `json:"key"`
	Lid       int64  `json:"lid"`
	Flag      int    `json:"flag"`
	TFlag     int    `json:"tf"`
	EFlag     int    `json:"ef"`
	Timeout   int    `json:"to"`
	Expried   int    `json:"ex"`
	Count     int    `json:"cnt"`
	Rcount    int    `json:"rc"`
	Data      string `json:"data"` // hex of a complete LockCommandData frame (with 4-byte length prefix), "" = none
	N         int    `json:"n"`    // tick count / drain ticks
	Order     string `json:"order"`
	Status    int    `json:"status"`
	Ok        bool   `json:"ok"`
	Target    int64  `json:"target"`
	NoDupWait bool   `json:"nodup"`
}

func (w *vWorld) buildCommand(id int64, r *vReq) *protocol.LockCommand {
	// the request is "decoded" into a command object of its connection's free stack (every field overwritten)
	cmd := w.conn(r.Conn).GetLockCommandLocked()
	*cmd = protocol.LockCommand{Command: protocol.Command{Magic: protocol.MAGIC, Version: protocol.VERSION}}
	if r.Op == "lock" {
		cmd.CommandType = protocol.COMMAND_LOCK
	} else {
		cmd.CommandType = protocol.COMMAND_UNLOCK
	}
	cmd.RequestId = vReqId(id)
	cmd.Flag = uint8(r.Flag)
	cmd.DbId = uint8(r.Db)
	cmd.LockId = vKey(r.Lid)
	cmd.LockKey = vKey(r.Key)
	cmd.TimeoutFlag = uint16(r.TFlag)
	cmd.Timeout = uint16(r.Timeout)
	cmd.ExpriedFlag = uint16(r.EFlag)
	cmd.Expried = uint16(r.Expried)
	cmd.Count = uint16(r.Count)
	cmd.Rcount = uint8(r.Rcount)
	if r.Data != "" {
		b, err := hex.DecodeString(r.Data)
		if err != nil {
			panic(err)
		}
		cmd.Data = protocol.NewLockCommandDataFromOriginBytes(b)
		cmd.Flag |= protocol.LOCK_FLAG_CONTAINS_DATA
	}
	return cmd
}

func (w *vWorld) reqEvent(id int64, r *vReq) map[string]interface{} {
	ct := "L"
	if r.Op != "lock" {
		ct = "U"
	}
	flag := r.Flag
	if r.Data != "" {
		flag |= protocol.LOCK_FLAG_CONTAINS_DATA
	}
	return map[string]interface{}{"e": "req", "id": id, "conn": r.Conn, "cmd": ct, "db": r.Db, "key": r.Key, "lid": r.Lid,
		"flag": flag, "tf": r.TFlag, "ef": r.EFlag, "to": r.Timeout, "ex": r.Expried, "cnt": r.Count, "rc": r.Rcount,
		"t": w.sec(), "ms": w.ms(), "data": r.Data}
}

// Issue runs one client request to completion on the calling goroutine.
func (w *vWorld) Issue(id int64, r *vReq) {
	c := w.conn(r.Conn)
	cmd := w.buildCommand(id, r)
	db := w.db(uint8(r.Db))
	if cmd.CommandType == protocol.COMMAND_LOCK {
		_ = db.Lock(c, cmd, 0)
	} else {
		_ = db.UnLock(c, cmd, 0)
	}
}

// ---------------------------------------------------------------- snapshot (projection)

type vHolder struct {
	Lid   int64 `json:"lid"`
	Depth int   `json:"depth"`
	Cnt   int   `json:"cnt"`
	Rc    int   `json:"rc"`
	Exp   int64 `json:"exp"`
	Start int64 `json:"start"`
	Aof   bool  `json:"aof"`
	Ack   int   `json:"ack"`
	Rid   int64 `json:"rid"`
	Tf    int   `json:"tf"`
	Ef    int   `json:"ef"`
	Ex    int   `json:"ex"`
	AofT  int   `json:"aoft"`
}

type vWaiter struct {
	Lid  int64 `json:"lid"`
	Cnt  int   `json:"cnt"`
	Rc   int   `json:"rc"`
	Tf   int   `json:"tf"`
	Rid  int64 `json:"rid"`
	Tot  int64 `json:"tot"`
	Prio int   `json:"prio"`
}

type vKeySnap struct {
	Db      int       `json:"db"`
	Key     int64     `json:"key"`
	Locked  int       `json:"locked"`
	Waited  bool      `json:"waited"`
	Ref     int64     `json:"ref"`
	Holders []vHolder `json:"holders"`
	Waiters []vWaiter `json:"waiters"`
	Data    string    `json:"data"`
	HasData bool      `json:"hasdata"`
}

func vHolderOf(l *Lock) vHolder {
	return vHolder{Lid: vKeyInt(l.command.LockId), Depth: int(l.locked), Cnt: int(l.command.Count), Rc: int(l.command.Rcount),
		Exp: l.expriedTime, Start: l.startTime, Aof: l.isAof, Ack: int(l.ackCount), Rid: vReqIdInt(l.command.RequestId),
		Tf: int(l.command.TimeoutFlag), Ef: int(l.command.ExpriedFlag), Ex: int(l.command.Expried), AofT: int(l.aofTime)}
}

func vSnapManager(db *LockDB, m *LockManager) vKeySnap {
	ks := vKeySnap{Db: int(db.dbId), Key: vKeyInt(m.lockKey), Locked: int(m.locked), Waited: m.waited, Ref: int64(m.refCount),
		Holders: []vHolder{}, Waiters: []vWaiter{}}
	if m.currentLock != nil && m.currentLock.locked > 0 {
		ks.Holders = append(ks.Holders, vHolderOf(m.currentLock))
	}
	if m.locks != nil {
		for _, node := range m.locks.IterNodes() {
			for _, l := range node {
				if l != nil && l.locked > 0 && l.command != nil {
					ks.Holders = append(ks.Holders, vHolderOf(l))
				}
			}
		}
	}
	if m.waitLocks != nil {
		for _, node := range m.waitLocks.IterNodes() {
			for _, l := range node {
				if l == nil || l.timeouted || l.ackCount != 0xff || l.command == nil {
					continue
				}
				prio := 0
				if l.command.TimeoutFlag&protocol.TIMEOUT_FLAG_RCOUNT_IS_PRIORITY != 0 {
					prio = int(l.command.Rcount)
				}
				ks.Waiters = append(ks.Waiters, vWaiter{Lid: vKeyInt(l.command.LockId), Cnt: int(l.command.Count), Rc: int(l.command.Rcount),
					Tf: int(l.command.TimeoutFlag), Rid: vReqIdInt(l.command.RequestId), Tot: l.timeoutTime, Prio: prio})
			}
		}
	}
	if m.currentData != nil {
		ks.HasData = true
		ks.Data = hex.EncodeToString(m.currentData.GetData())
	}
	return ks
}

// Snapshot walks every live key manager of every database.  Callers must be quiescent (no
// goroutine inside a shard-mutex section).
func (w *vWorld) Snapshot() map[string]interface{} {
	if w.cfg.RealClock {
		// sweeper goroutines are alive: take every shard mutex while walking the structures
		for _, db := range w.slock.dbs {
			if db != nil {
				for i := uint16(0); i < db.managerMaxGlocks; i++ {
					db.managerGlocks[i].Lock()
				}
			}
		}
		defer func() {
			for _, db := range w.slock.dbs {
				if db != nil {
					for i := uint16(0); i < db.managerMaxGlocks; i++ {
						db.managerGlocks[i].Unlock()
					}
				}
			}
		}()
	}
	keys := []vKeySnap{}
	states := map[string]interface{}{}
	nlive := 0
	tw, ew := 0, 0
	pooledDirty, pooledValue := 0, ""
	for _, db := range w.slock.dbs {
		if db == nil {
			continue
		}
		seen := map[*LockManager]bool{}
		add := func(m *LockManager) {
			if m == nil || seen[m] || m.refCount == 0xffffffff {
				return
			}
			seen[m] = true
			nlive++
			keys = append(keys, vSnapManager(db, m))
		}
		for i := range db.fastLocks {
			add(db.fastLocks[i].manager)
		}
		db.mGlock.RLock()
		for _, m := range db.locks {
			add(m)
		}
		db.mGlock.RUnlock()
		st := db.GetState()
		states[fmt.Sprintf("%d", db.dbId)] = map[string]interface{}{"locked": int64(st.LockedCount), "wait": int64(st.WaitCount),
			"keys": int64(st.KeyCount), "lock": int64(st.LockCount), "unlock": int64(st.UnLockCount), "timeouted": int64(st.TimeoutedCount),
			"expried": int64(st.ExpriedCount), "unlockerr": int64(st.UnlockErrorCount)}
		t1, e1 := vWheelCensus(db)
		tw += t1
		ew += e1
		// key records that are NOT live (free ring of recycled managers): they must carry nothing of the key they served
		for _, m := range db.freeLockManagers {
			if m == nil || seen[m] {
				continue
			}
			if m.currentData != nil || m.currentLock != nil || m.locked != 0 {
				pooledDirty++
				if pooledValue == "" && m.currentData != nil {
					pooledValue = hex.EncodeToString(m.currentData.GetData())
				}
			}
		}
	}
	sort.Slice(keys, func(i, j int) bool {
		if keys[i].Db != keys[j].Db {
			return keys[i].Db < keys[j].Db
		}
		return keys[i].Key < keys[j].Key
	})
	return map[string]interface{}{"e": "snap", "t": w.sec(), "keys": keys, "st": states, "nkeys": nlive, "tw": tw, "ew": ew, "pooled_dirty": pooledDirty, "pooled_value": pooledValue}
}

// vWheelCensus counts live (not tombstoned) entries on the timeout and expiry structures.
func vWheelCensus(db *LockDB) (int, int) {
	tw, ew := 0, 0
	countQ := func(q *LockQueue, isTimeout bool) int {
		n := 0
		if q == nil {
			return 0
		}
		for i := range q.IterNodes() {
			for _, l := range q.IterNodeQueues(int32(i)) {
				if l == nil {
					continue
				}
				if isTimeout && !l.timeouted {
					n++
				}
				if !isTimeout && !l.expried {
					n++
				}
			}
		}
		return n
	}
	for s := int64(0); s < TIMEOUT_QUEUE_LENGTH; s++ {
		for g := uint16(0); g < db.managerMaxGlocks; g++ {
			tw += countQ(db.timeoutLocks[s][g], true)
			ew += countQ(db.expriedLocks[s][g], false)
		}
	}
	for g := uint16(0); g < db.managerMaxGlocks; g++ {
		for _, lq := range db.longTimeoutLocks[g] {
			tw += countQ(&lq.locks, true)
		}
		for _, lq := range db.longExpriedLocks[g] {
			ew += countQ(&lq.locks, false)
		}
		for _, mq := range db.millisecondTimeoutLocks[g] {
			if mq != nil {
				tw += countQ(&mq.LockQueue, true)
			}
		}
		for _, mq := range db.millisecondExpriedLocks[g] {
			if mq != nil {
				ew += countQ(&mq.LockQueue, false)
			}
		}
	}
	return tw, ew
}

// ---------------------------------------------------------------- small helpers shared by the drivers

func vEnvInOut(t *testing.T) (string, string) {
	in, out := os.Getenv("VERIF_IN"), os.Getenv("VERIF_OUT")
	if in == "" || out == "" {
		t.Skip("VERIF_IN / VERIF_OUT not set")
		return "", ""
	}
	return in, out
}

func vReadJSONLines(path string, fn func(line []byte)) {
	f, err := os.Open(path)
	if err != nil {
		panic(err)
	}
	defer f.Close()
	sc := bufio.NewScanner(f)
	sc.Buffer(make([]byte, 1<<20), 1<<28)
	for sc.Scan() {
		line := sc.Bytes()
		if len(line) == 0 {
			continue
		}
		cp := make([]byte, len(line))
		copy(cp, line)
		fn(cp)
	}
}

func vMustUnmarshal(b []byte, v interface{}) {
	if err := json.Unmarshal(b, v); err != nil {
		panic(err)
	}
}

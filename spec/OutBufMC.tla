------------------------------ MODULE OutBufMC ------------------------------
(***************************************************************************)
(* Exhaustive check of the output path (spec/OutBuf.tla) at small          *)
(* constants: EVERY data size 0..MaxD in every position of batches of up   *)
(* to MaxFrames pipelined frames, non-lock replies in between, several     *)
(* batches on one connection, and a second goroutine (the engine answering *)
(* a waiter of this connection from another connection's unlock or from a  *)
(* sweeper) that replies at any moment - its load of `buffered` and its    *)
(* use of the loaded value are separate steps, as in the code; the first   *)
(* compare-and-swap of ProcessFlush and the one of Process() do not take   *)
(* the connection mutex, the replies and the second half of ProcessFlush   *)
(* do.                                                                     *)
(***************************************************************************)
EXTENDS OutBuf

CONSTANTS MaxD,         \* data sizes 0..MaxD (0 = bare)
          MaxFrames,    \* frames per batch 1..MaxFrames
          MaxBatches,
          MaxAsync      \* replies of the other goroutine

VARIABLES o,        \* output side (OutBuf)
          pc,       \* connection goroutine: "idle" (blocked in read) | "batch" | "flush2"
          todo,     \* frames of the batch not yet answered
          mybuf,    \* Process()'s local `buffered`
          nb, na,   \* batches begun, asynchronous replies issued
          size,     \* sizes of the replies issued since the connection was last at rest (sequence: id -> bytes)
          lock,     \* connection mutex: "free" | "async"
          alb       \* the value of `buffered` the other goroutine loaded
vars == <<o, pc, todo, mybuf, nb, na, size, lock, alb>>

Init == /\ o = Out0 /\ pc = "idle" /\ todo = 0 /\ mybuf = FALSE /\ nb = 0 /\ na = 0 /\ size = <<>> /\ lock = "free" /\ alb = 0

Replies == [k : {"lock"}, d : 0..MaxD] \cup {[k |-> "other", d |-> 0]}
SizeOf(r) == H + r.d

\* at rest everything is out: forget the history (the next batch starts from the same state whatever was sent before)
Rest(oo) == [oo EXCEPT !.wire = <<>>]

Read(n) == /\ pc = "idle" /\ nb < MaxBatches /\ size = <<>>        \* (the history of a connection at rest is dropped first: Forget)
           /\ o' = BeginBatch(o, n) /\ mybuf' = (n >= 2 /\ o.bst = 0)
           /\ pc' = "batch" /\ todo' = n /\ nb' = nb + 1
           /\ UNCHANGED <<na, size, lock, alb>>

MainReply(r) == /\ pc = "batch" /\ todo > 0 /\ lock = "free"
                /\ o' = RunReply(o, Len(size) + 1, r)
                /\ size' = Append(size, SizeOf(r))
                /\ todo' = todo - 1
                /\ UNCHANGED <<pc, mybuf, nb, na, lock, alb>>

\* a frame that earns no reply now (a lock that waits)
MainSilent == /\ pc = "batch" /\ todo > 0 /\ todo' = todo - 1 /\ UNCHANGED <<o, pc, mybuf, nb, na, size, lock, alb>>

AtRest(oo, sz) == AllOut(oo, [i \in 1..Len(sz) |-> sz[i]])

\* end of the batch: ProcessFlush's first compare-and-swap (no mutex)
Flush1 == /\ pc = "batch" /\ todo = 0
          /\ IF ~mybuf THEN pc' = "idle" /\ o' = o
             ELSE IF o.bst = 1 THEN pc' = "idle" /\ o' = [o EXCEPT !.bst = 0]
             ELSE pc' = "flush2" /\ o' = o
          /\ UNCHANGED <<todo, mybuf, nb, na, size, lock, alb>>

Flush2 == /\ pc = "flush2" /\ lock = "free"
          /\ o' = EndBatch(o)
          /\ pc' = "idle"
          /\ UNCHANGED <<todo, mybuf, nb, na, size, lock, alb>>

AsyncLoad == /\ lock = "free" /\ na < MaxAsync
             /\ lock' = "async" /\ alb' = o.bst
             /\ UNCHANGED <<o, pc, todo, mybuf, nb, na, size>>

AsyncReply(d) == /\ lock = "async"
                 /\ o' = LockReplyLoaded(o, Len(size) + 1, d, alb)
                 /\ size' = Append(size, H + d)
                 /\ na' = na + 1 /\ lock' = "free" /\ alb' = 0
                 /\ UNCHANGED <<pc, todo, mybuf, nb>>

\* at rest the history is dropped, after AllOut was checked on it (invariant Delivered)
Forget == /\ pc = "idle" /\ lock = "free" /\ size # <<>> /\ AtRest(o, size)
          /\ o' = Rest(o) /\ size' = <<>>
          /\ UNCHANGED <<pc, todo, mybuf, nb, na, lock, alb>>

Next == \/ \E n \in 1..MaxFrames : Read(n)
        \/ \E r \in Replies : MainReply(r)
        \/ MainSilent \/ Flush1 \/ Flush2 \/ AsyncLoad \/ Forget
        \/ \E d \in 0..MaxD : AsyncReply(d)

Spec == Init /\ [][Next]_vars

-----------------------------------------------------------------------------
SizeFn == [i \in 1..Len(size) |-> size[i]]

TypeOK == o.bst \in 0..2 /\ pc \in {"idle", "batch", "flush2"} /\ o.idx >= 0
\* no out-of-range index, no truncated copy: the connection goroutine does not panic
NoOverrun == Safe(o)
\* the invariant the bare branch relies on: whenever a reply can be appended a header still fits
HeaderRoom == (o.bst > 0 /\ ~o.crashed) => o.idx + H <= Cap
\* every reply reaches the wire once, whole, its pieces in order and not interleaved with another reply
Framing == PrefixOK(o, SizeFn) /\ Contiguous(o)
\* nothing stays behind in the buffer when the connection is at rest
Delivered == (pc = "idle" /\ lock = "free") => (o.bst = 0 /\ AtRest(o, size))
\* replies that go through the buffer keep their order (those written directly may overtake them)
BufferedInOrder ==
    LET f == Flat(o.wire) \o o.segs
        heads == SelectSeq(f, LAMBDA s : s.from = 0 /\ ~s.dir)
    IN \A i, j \in 1..Len(heads) : i < j => heads[i].id < heads[j].id
=============================================================================

------------------------------ MODULE OutBufGen ------------------------------
(***************************************************************************)
(* Pattern generator for the output path (spec/OutBuf.tla), run at the     *)
(* REAL constants (Cap = 4096, H = 64).  TLC enumerates every sequence     *)
(*                                                                         *)
(*     lead bare replies . 1..MaxData replies with a data frame . a tail   *)
(*                                                                         *)
(* of ONE pipelined batch in which the data sizes are chosen by POSITION:  *)
(* for the fill level b the buffer has when the reply is issued, the sizes *)
(* that put the end of the reply at each target relative to the boundary   *)
(* (last byte that leaves a header free, first that does not, every        *)
(* residue named by Residues inside the last H bytes, the last byte, the   *)
(* byte after, one header after), the smallest and a middle size, the      *)
(* largest size that is still buffered, and the sizes that bypass the      *)
(* buffer (BigSizes).  Each behaviour is printed as JSON with its class    *)
(* sequence (OutBuf!Label); the harness turns it into request frames       *)
(* (try-locks on keys that hold a value of the wanted size, locks on free  *)
(* keys, PING) and the real server has to produce exactly these replies.   *)
(*                                                                         *)
(* Mode = "patterns": every data step ranges over all targets.             *)
(* Mode = "sweep":    the data steps before the last are fillers (Fillers) *)
(*                    and only the last ranges over the targets - used with *)
(*                    Residues = every residue.                            *)
(***************************************************************************)
EXTENDS OutBuf

CONSTANTS DMin,        \* smallest data frame the harness can make a key hold
          MaxData,     \* 1..MaxData replies with data
          Leads,       \* set of numbers of bare replies in front
          Tails,       \* set of tail names: strings over b (bare lock reply) and o (other reply), "e" = empty; see TailTable
          Residues,    \* offsets r: target end positions Cap - H + r, 1 < r < H - 1
          BigSizes,    \* data sizes that bypass the buffer
          Fillers,     \* sweep mode: sizes of the data replies before the last
          Mode

VARIABLES b,        \* writer buffer index
          bst,      \* `buffered`
          hist,     \* replies so far: [k, d]
          phase,    \* "lead" | "data" | "tail" | "done"
          nd,       \* data replies so far
          labs      \* class of every reply, computed step by step from (b, bst)
gvars == <<b, bst, hist, phase, nd, labs>>

Bare == [k |-> "lock", d |-> 0]
Other == [k |-> "other", d |-> 0]
Data(d) == [k |-> "lock", d |-> d]

\* one reply on the stripped output state (only index and `buffered` matter for what follows)
After(r) == LET o1 == RunReply([Out0 EXCEPT !.idx = b, !.bst = bst], 1, r) IN o1

Targets == {Cap - H - 1, Cap - H, Cap - H + 1, Cap - 1, Cap, Cap + 1, Cap + H, Cap + H + 1} \cup {Cap - H + r : r \in Residues}
DataMaxSize == Cap - 2 * H - 1
SizesAt(bb) == {d \in {e - bb - H : e \in Targets} \cup {DMin, (Cap \div 4) - H, DataMaxSize} : d >= DMin /\ d <= DataMaxSize}

Init == b = 0 /\ bst = 1 /\ hist = <<>> /\ phase = "lead" /\ nd = 0 /\ labs = <<>>

Put(r) == LET o1 == After(r) IN b' = o1.idx /\ bst' = o1.bst /\ hist' = Append(hist, r) /\ labs' = Append(labs, Label(b, r, bst > 0))

RECURSIVE PutAll(_, _, _, _)
\* (index, buffered, labels) after a run of replies
PutAll(bb, ss, rs, ls) == IF rs = <<>> THEN <<bb, ss, ls>>
                          ELSE LET o1 == RunReply([Out0 EXCEPT !.idx = bb, !.bst = ss], 1, Head(rs))
                               IN PutAll(o1.idx, o1.bst, Tail(rs), Append(ls, Label(bb, Head(rs), ss > 0)))

Lead(n) == /\ phase = "lead"
           /\ LET rs == [i \in 1..n |-> Bare]
                  st == PutAll(b, bst, rs, labs)
              IN b' = st[1] /\ bst' = st[2] /\ hist' = rs /\ labs' = st[3]
           /\ phase' = "data" /\ nd' = nd

DataStep(d, last) ==
    /\ phase = "data" /\ nd < MaxData
    /\ Put(Data(d))
    /\ nd' = nd + 1
    /\ phase' = IF last THEN "tail" ELSE "data"

\* tails by name ("e" = none, "bbo" = bare, bare, other): a configuration file cannot hold sequences
TailTable == [e |-> <<>>, b |-> <<"b">>, o |-> <<"o">>, bb |-> <<"b", "b">>, bo |-> <<"b", "o">>, ob |-> <<"o", "b">>, oo |-> <<"o", "o">>, bbb |-> <<"b", "b", "b">>, bbo |-> <<"b", "b", "o">>, bob |-> <<"b", "o", "b">>, boo |-> <<"b", "o", "o">>, obb |-> <<"o", "b", "b">>, obo |-> <<"o", "b", "o">>, oob |-> <<"o", "o", "b">>, ooo |-> <<"o", "o", "o">>]
TailStep(tn) ==
    /\ phase = "tail"
    /\ LET t == TailTable[tn]
           rs == [i \in 1..Len(t) |-> IF t[i] = "b" THEN Bare ELSE Other]
           st == PutAll(b, bst, rs, labs)
       IN /\ Len(hist) + Len(rs) <= RCap \div H          \* one read of the server holds the whole batch
          /\ b' = st[1] /\ bst' = st[2] /\ hist' = hist \o rs /\ labs' = st[3]
    /\ phase' = "done" /\ nd' = nd

Next == \/ \E n \in Leads : Lead(n)
        \/ /\ Mode = "patterns"
           /\ \E d \in SizesAt(b) \cup BigSizes, last \in (IF nd + 1 >= MaxData THEN {TRUE} ELSE BOOLEAN) : DataStep(d, last)
        \/ /\ Mode = "sweep"
           /\ \/ nd + 1 < MaxData /\ \E d \in Fillers : DataStep(d, FALSE)
              \/ \E d \in SizesAt(b) : DataStep(d, TRUE)
        \/ \E t \in Tails : TailStep(t)

Spec == Init /\ [][Next]_gvars

-----------------------------------------------------------------------------
Whole == <<H * Len(hist)>>          \* all request frames in one write
TypeOK == b \in 0..Cap /\ bst \in 0..2 /\ phase \in {"lead", "data", "tail", "done"}
\* the as-coded model never overruns on a generated pattern, and delivers it completely
ModelSafe == phase = "done" => LET o == RunStep(hist, Whole)
                                   size == [i \in 1..Len(hist) |-> H + hist[i].d]
                               IN Safe(o) /\ AllOut(o, size) /\ PrefixOK(o, size) /\ Contiguous(o)
\* the incremental index the generator steers by is the index of the full model
IndexAgrees == (phase = "done" /\ Len(hist) >= 2) => StepLabels(hist, Whole) = labs
Export == (phase = "done" /\ Len(hist) >= 2) =>
            PrintT("BEHAVIOUR " \o ToJson([replies |-> hist, labels |-> StepLabels(hist, Whole), ends |-> StepEnds(hist, Whole), chunks |-> ChunkSizes(RunStep(hist, Whole))]))
=============================================================================

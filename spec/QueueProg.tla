------------------------------- MODULE QueueProg -------------------------------
(***************************************************************************)
(* Program enumerator for property C20.                                    *)
(*                                                                         *)
(* TLC explores, breadth first and exhaustively, ALL operation programs of *)
(* length <= Depth over the operation alphabet OpNames of one queue kind.  *)
(* `hist` is the program; S is the plain-deque value it produces           *)
(* (Deque!Effect), used only to decide which operations make sense next    *)
(* (remove / kill need a queued target, lwfree needs a drained queue).     *)
(* Every state is one distinct program, so "distinct states" = number of   *)
(* programs.  Programs of full length are printed ("BEHAVIOUR <json>");    *)
(* the check replays each of them on the REAL queues (every prefix is      *)
(* observed on the way) and validates the recorded traces with MonQueue.   *)
(* Elements are fresh ids 1,2,3,.. in push order, so any re-ordering,      *)
(* loss or duplication is visible.                                         *)
(***************************************************************************)
EXTENDS Integers, Sequences, FiniteSets, TLC, Json, Deque

CONSTANTS Kind,      \* "node" | "longwait" | "holder" | "wait" | "ring" | "pring"
          OpNames,   \* subset of the operation names of that kind
          Depth,     \* program length
          MaxPush,   \* bound on the number of push/pushleft operations in one program
          Prios,     \* priorities a pushed element may carry ({0} for the non-priority kinds)
          PrioMode   \* TRUE: the queue is built in priority mode

VARIABLES hist, S, nid
vars == <<hist, S, nid>>

Op(name, x, pr) == <<name, x, pr>>
Ev(o) == [op |-> o[1], x |-> o[2], pr |-> o[3], ret |-> 0]

LiveIds(q) == {q[i].id : i \in {j \in 1..Len(q) : q[j].live /\ q[j].id # 0}}

Enabled(S0, n) ==
       {Op("push", n + 1, p)     : p \in IF "push" \in OpNames /\ n < MaxPush THEN Prios ELSE {}}
  \cup {Op("pushleft", n + 1, 0) : z \in IF "pushleft" \in OpNames /\ n < MaxPush THEN {0} ELSE {}}
  \cup {Op(o, 0, 0) : o \in OpNames \cap {"pop", "popright", "reset", "rellac", "resize", "restruct", "free", "repush", "shrink"}}
  \cup {Op("lwfree", 0, 0) : z \in IF "lwfree" \in OpNames /\ S0.q = <<>> THEN {0} ELSE {}}
  \cup {Op("remove", x, 0) : x \in IF "remove" \in OpNames THEN IdSet(S0.q) ELSE {}}
  \cup {Op("kill", x, 0)   : x \in IF "kill" \in OpNames THEN LiveIds(S0.q) ELSE {}}
  \cup {Op("getlock", x, 0) : x \in IF "getlock" \in OpNames THEN 1..n ELSE {}}

Init == hist = <<>> /\ S = InitQ(PrioMode) /\ nid = 0

Next == /\ Len(hist) < Depth
        /\ \E o \in Enabled(S, nid) :
              /\ hist' = Append(hist, o)
              /\ S' = Effect(S, Ev(o))
              /\ nid' = IF o[1] \in {"push", "pushleft"} THEN nid + 1 ELSE nid

Spec == Init /\ [][Next]_vars

\* design sanity of the reference itself: ids unique, priority mode keeps q sorted
RefOK == /\ \A i, j \in 1..Len(S.q) : (i # j /\ S.q[i].id # 0) => S.q[i].id # S.q[j].id
         /\ S.mode = "prio" => \A i, j \in 1..Len(S.q) : i < j => S.q[i].pr >= S.q[j].pr

Export == Len(hist) = Depth => PrintT("BEHAVIOUR " \o ToJson(hist))
=============================================================================

--------------------------- MODULE LockEngineFine ---------------------------
(***************************************************************************)
(* The lock engine at the atomicity of the CODE: one action per shard-     *)
(* mutex critical section.  A client request is a critical section         *)
(* (LockSec / UnlockSec) followed - after the mutex has been released and  *)
(* the reply has been sent - by a wake pass that re-takes the mutex once   *)
(* per iteration (wakeUpWaitLocks).  The sweepers collect the due entries  *)
(* of a second in one section, release the mutex, and then run doTimeOut / *)
(* doExpried once per collected entry, each re-taking the mutex and        *)
(* re-checking the tombstone (and, since fix 7d931e9, the deadline).       *)
(* Between any two sections any other actor may run: this is exactly the   *)
(* set of schedules engine C can force through its gates (reply callback,  *)
(* hooks H2 sweep.*.collected, H5 wake.enter / wake.iter).                 *)
(*                                                                         *)
(* The section operators are the ones of LockEngine, instantiated with a   *)
(* wake-pass operator that only records "a wake pass is owed".             *)
(***************************************************************************)
EXTENDS LockEngine

CONSTANTS Clients,      \* client actors, each issues ONE request
          A14Fixed      \* TRUE: doExpried re-checks the deadline (fix 7d931e9)

VARIABLES pc,           \* actor -> "new" | "wake" | "done"    (clients);  "idle" | "fire" | "wake"  (sweepers)
          coll,         \* sweeper -> sequence of collected entry ids (oid)
          owes          \* actor -> BOOLEAN: a wake pass is owed after the current section

Sweepers == {"T", "E"}
Actors == Clients \cup Sweepers
fvars == <<ks, now, reqs, out, hist, turn, role, nrc, pc, coll, owes>>

K1 == CHOOSE k \in Keys : TRUE      \* the fine model has one key

Owe(S1, t, o) == [S |-> S1, out |-> o, wake |-> TRUE]
NeedsWake(res) == "wake" \in DOMAIN res /\ res.wake

-----------------------------------------------------------------------------
\* client request: the critical section

ClientSection(a, cmd, lid, cnt, rc, to, ex, fl) ==
    /\ pc[a] = "new"
    /\ NoDupWait => (cmd = "U" \/ \A i \in LiveIdx(ks[K1].W) : ks[K1].W[i].lid # lid)
    /\ LET id  == Len(reqs) + 1
           r   == ReqRec(id, cmd, K1, lid, cnt, rc, to, ex, fl)
           res == IF cmd = "L" THEN DoLockG(Owe, ks[K1], r, now) ELSE DoUnlockG(Owe, ks[K1], r, now)
       IN /\ ks' = [ks EXCEPT ![K1] = res.S]
          /\ out' = res.out
          /\ reqs' = Book(reqs, res.out, <<r>>)
          /\ owes' = [owes EXCEPT ![a] = NeedsWake(res)]
          /\ pc' = [pc EXCEPT ![a] = IF NeedsWake(res) THEN "wake" ELSE "done"]
          /\ hist' = Append(hist, [op |-> IF cmd = "L" THEN "lock" ELSE "unlock", key |-> K1, lid |-> lid, cnt |-> cnt, rc |-> rc,
                                   to |-> to, ex |-> ex, fl |-> fl, actor |-> a])
    /\ UNCHANGED <<now, turn, role, nrc, coll>>

\* one iteration of wakeUpWaitLocks: a critical section of its own
WakeIter(a) ==
    /\ pc[a] = "wake"
    /\ LET S == ks[K1] IN
       IF ~S.waited
       THEN /\ pc' = [pc EXCEPT ![a] = IF a \in Sweepers THEN "fire" ELSE "done"]
            /\ out' = <<>> /\ UNCHANGED <<ks, reqs>>
       ELSE LET W == Purge(S.W) IN
            IF W = <<>>
            THEN /\ ks' = [ks EXCEPT ![K1] = [S EXCEPT !.W = <<>>, !.waited = FALSE, !.pmode = FALSE]]
                 /\ pc' = [pc EXCEPT ![a] = IF a \in Sweepers THEN "fire" ELSE "done"]
                 /\ out' = <<>> /\ UNCHANGED reqs
            ELSE IF ~CanLock([S EXCEPT !.W = W], W[1].cnt)
            THEN /\ ks' = [ks EXCEPT ![K1] = [S EXCEPT !.W = W]]
                 /\ pc' = [pc EXCEPT ![a] = IF a \in Sweepers THEN "fire" ELSE "done"]
                 /\ out' = <<>> /\ UNCHANGED reqs
            ELSE LET w  == W[1]
                     S1 == [S EXCEPT !.W = [W EXCEPT ![1].dead = TRUE],
                                     !.H = IF w.ex > 0 THEN Append(@, NewHolder(w, now)) ELSE @]
                     o  == << [Reply(w.id, SUCCED, S1, w.lid) EXCEPT !.granted = TRUE] >>
                 IN /\ ks' = [ks EXCEPT ![K1] = S1]
                    /\ out' = o
                    /\ reqs' = Book(reqs, o, <<>>)
                    /\ UNCHANGED pc
    /\ hist' = Append(hist, [op |-> "step", key |-> K1, lid |-> 0, cnt |-> 0, rc |-> 0, to |-> 0, ex |-> 0, fl |-> "wake", actor |-> a])
    /\ UNCHANGED <<now, turn, role, nrc, coll, owes>>

-----------------------------------------------------------------------------
\* sweepers

SweepersIdle == \A s \in Sweepers : pc[s] = "idle"

TickFine ==
    /\ now < MaxNow
    /\ SweepersIdle
    /\ now' = now + 1
    /\ pc' = [pc EXCEPT !["T"] = "collect", !["E"] = "collect"]
    /\ out' = <<>>
    /\ hist' = Append(hist, [op |-> "tick", key |-> 0, lid |-> 0, cnt |-> 0, rc |-> 0, to |-> 0, ex |-> 0, fl |-> "", actor |-> "clock"])
    /\ UNCHANGED <<ks, reqs, turn, role, nrc, coll, owes>>

\* collection under the mutex: the ids (request ids: a Lock record is born with its request) of the due entries
Collect(s) ==
    /\ pc[s] = "collect"
    /\ LET S == ks[K1]
           ids == IF s = "T"
                  THEN [j \in 1..Cardinality(DueTimeouts(K1)) |->
                          S.W[CHOOSE i \in DueTimeouts(K1) : Cardinality({x \in DueTimeouts(K1) : x < i}) = j - 1].id]
                  ELSE [j \in 1..Cardinality(DueExpiries(K1)) |->
                          S.H[CHOOSE i \in DueExpiries(K1) : Cardinality({x \in DueExpiries(K1) : x < i}) = j - 1].oid]
       IN coll' = [coll EXCEPT ![s] = ids]
    /\ pc' = [pc EXCEPT ![s] = "fire"]
    /\ out' = <<>>
    /\ hist' = Append(hist, [op |-> "step", key |-> K1, lid |-> 0, cnt |-> 0, rc |-> 0, to |-> 0, ex |-> 0, fl |-> "collect", actor |-> s])
    /\ UNCHANGED <<ks, now, reqs, turn, role, nrc, owes>>

\* doTimeOut / doExpried for the next collected entry
Fire(s) ==
    /\ pc[s] = "fire"
    /\ IF coll[s] = <<>>
       THEN /\ pc' = [pc EXCEPT ![s] = "idle"]
            /\ out' = <<>> /\ UNCHANGED <<ks, reqs, coll, owes>>
       ELSE LET id == Head(coll[s])
                S  == ks[K1]
                rest == Tail(coll[s])
            IN IF s = "T"
               THEN LET I == {i \in LiveIdx(S.W) : S.W[i].id = id} IN
                    IF I = {}                                   \* tombstone: granted / cancelled meanwhile
                    THEN /\ coll' = [coll EXCEPT ![s] = rest] /\ out' = <<>> /\ UNCHANGED <<ks, reqs, pc, owes>>
                    ELSE LET res == FireTimeoutG(Owe, S, CHOOSE i \in I : TRUE, now) IN
                         /\ ks' = [ks EXCEPT ![K1] = res.S] /\ out' = res.out /\ reqs' = Book(reqs, res.out, <<>>)
                         /\ coll' = [coll EXCEPT ![s] = rest]
                         /\ pc' = [pc EXCEPT ![s] = IF NeedsWake(res) THEN "wake" ELSE "fire"]
                         /\ UNCHANGED owes
               ELSE LET I == {i \in 1..Len(S.H) : S.H[i].oid = id} IN
                    IF I = {}                                   \* tombstone: unlocked meanwhile
                    THEN /\ coll' = [coll EXCEPT ![s] = rest] /\ out' = <<>> /\ UNCHANGED <<ks, reqs, pc, owes>>
                    ELSE LET i == CHOOSE x \in I : TRUE IN
                         IF A14Fixed /\ S.H[i].dl > now         \* renewed meanwhile: back on the wheel
                         THEN /\ coll' = [coll EXCEPT ![s] = rest] /\ out' = <<>> /\ UNCHANGED <<ks, reqs, pc, owes>>
                         ELSE LET res == FireExpiryG(Owe, S, i, now) IN
                              /\ ks' = [ks EXCEPT ![K1] = res.S] /\ out' = res.out /\ reqs' = Book(reqs, res.out, <<>>)
                              /\ coll' = [coll EXCEPT ![s] = rest]
                              /\ pc' = [pc EXCEPT ![s] = IF NeedsWake(res) THEN "wake" ELSE "fire"]
                              /\ UNCHANGED owes
    /\ hist' = Append(hist, [op |-> "step", key |-> K1, lid |-> 0, cnt |-> 0, rc |-> 0, to |-> 0, ex |-> 0, fl |-> "fire", actor |-> s])
    /\ UNCHANGED <<now, turn, role, nrc>>

-----------------------------------------------------------------------------
FInit == /\ Init
         /\ pc = [a \in Actors |-> IF a \in Sweepers THEN "idle" ELSE "new"]
         /\ coll = [s \in Sweepers |-> <<>>]
         /\ owes = [a \in Actors |-> FALSE]

FNext ==
    \/ \E a \in Clients, lid \in Lids, cnt \in Counts, rc \in Rcounts, to \in Timeouts, ex \in Expireds, fl \in LockFlags \cup {""} :
          ClientSection(a, "L", lid, cnt, rc, to, ex, fl)
    \/ \E a \in Clients, lid \in Lids, rc \in Rcounts, fl \in UnlockFlags \cup {""} :
          ClientSection(a, "U", lid, 0, rc, 0, 0, fl)
    \/ \E a \in Actors : WakeIter(a)
    \/ TickFine
    \/ \E s \in Sweepers : Collect(s) \/ Fire(s)

FSpec == FInit /\ [][FNext]_fvars

fview == <<ks, now, [i \in DOMAIN reqs |-> reqs[i].st], pc, coll>>

-----------------------------------------------------------------------------
\* properties under every interleaving of sections

Quiescent == \A a \in Actors : pc[a] \in {"new", "done", "idle"}

\* C04: at every quiescent moment the head live waiter is not admissible
FNoLostWakeup == Quiescent => NoLostWakeup

\* C03: one terminal reply per request, whatever the interleaving of sweepers, wake passes and cancels
FOneTerminalReply == OneTerminalReply

\* C01: every new holder was admissible at its section (same aggregated form as GrantOK) and records are unique
FHolders == HoldersWellFormed

\* C06: a hold is never ended before its (current) deadline
FNoEarlyExpiry ==
    \A j \in 1..Len(out') :
        (out'[j].res = EXPRIED) =>
            \A i \in 1..Len(ks[K1].H) : ks[K1].H[i].rid = out'[j].rid => ks[K1].H[i].dl <= now

FActionProps == [][GrantOK /\ FNoEarlyExpiry]_fvars
=============================================================================

---------------------------- MODULE ProtoClasses ----------------------------
(***************************************************************************)
(* One client connection of slock as a state machine over INPUT CLASSES.   *)
(*                                                                         *)
(* Code anchors: server/server.go:210-254 (checkProtocol: sniffing of the  *)
(* first read), server/server.go:256-401 (handle), server/protocol.go      *)
(* 1042-1364 (BinaryServerProtocol.Process/ProcessParse), 1370-1516        *)
(* (ProcessCommad: INIT STATE ADMIN PING QUIT CALL WILL_* LEADER SUBSCRIBE)*)
(* 2197-2236 (TextServerProtocol.Process), 1987-2030 + admin.go:127-143    *)
(* (registered text commands), server/stream.go:261-308 (ReadBytesFrame:   *)
(* the value frame after a 64-byte command), protocol/textparse.go:215-338 *)
(* (RESP request parser), protocol/textcommand.go (argument conversion).   *)
(*                                                                         *)
(* The module is a GENERATOR plus an EXPECTATION, not a proof of C13: TLA+ *)
(* cannot quantify over byte values.  What it contributes                  *)
(*  - the input-class alphabet (command type x flag class x value-frame    *)
(*    length class x value-operation header class x key class; every       *)
(*    registered text command x positional-argument class x option tail;   *)
(*    RESP-level malformations; raw / mutated streams; fragmentation       *)
(*    classes), as one set of records `Universe`;                          *)
(*  - the abstract connection state (sniff / bin / text / admintext /      *)
(*    closed, pending-partial-unit) and its transition `Step`;             *)
(*  - for every (state, class) the EXPECTED RESPONSE CLASS (reply / error  *)
(*    reply / nothing, connection closed or kept);                         *)
(*  - TLC enumerates ALL paths prefix^(<=PrefixLen) . detail, prints each  *)
(*    as JSON (spec -> code); the same `Step` is re-run by the trace spec  *)
(*    spec/mon/MonProto.tla over the trace recorded from the real code     *)
(*    (code -> spec).                                                      *)
(* The property itself (no panic, process alive, other connections served) *)
(* is observed on the real code only.                                      *)
(***************************************************************************)
EXTENDS Integers, Sequences, FiniteSets, TLC, Json

CONSTANTS TailLen,       \* length of the option tail of value commands: 0..3
          LockPairs,     \* number of keyword/value pairs of LOCK/UNLOCK/PUSH: 1..2
          OpDepth,       \* 0: reduced value-operation sweeps  1: full sweeps A,B  2: + full stage / nested sweep C
          Variants,      \* number of seeded variants of every raw / mutated stream class
          FragLevel      \* 0: only "whole"  1: + fragmentation classes on the representative subset

-----------------------------------------------------------------------------
\* helpers

SeqsUpTo(S, n) == UNION {[1..k -> S] : k \in 0..n}
NumStr(n) == ToString(n)

\* every class is a record of this shape (all fields strings, args a sequence of strings), so that
\* TLC can keep them in one set and ToJson gives the concretiser (checks/protofuzz.py) one format
Cls(fam, k, x, y, z, u, v, w, n, args, frag) ==
    [fam |-> fam, k |-> k, x |-> x, y |-> y, z |-> z, u |-> u, v |-> v, w |-> w, n |-> n, args |-> args, frag |-> frag]

-----------------------------------------------------------------------------
\* BINARY protocol classes
\*   k command type, x header class, y flag class, z db class, u field class (timeout / expiry /
\*   count / rcount and their flag words), v value-operation class "stage.type.dflag.body",
\*   w key class ("K" the key prepared by the prefix, "fresh"), n value-frame length class

LockLike == {"lock", "unlock", "willlock", "willunlock"}

DLens == {"0", "1", "2", "5", "6", "7", "8", "63", "64", "65", "fit", "cap", "cap1", "max32", "short"}
    \* announced length of the value frame: fit = exactly the well-formed body; cap = 1 MiB (the limit);
    \* cap1 = limit + 1; max32 = 0xffffffff; short = announces 64 but only 10 bytes follow (the server waits)

OpTypes == {"set", "unset", "incr", "append", "shift", "execute", "pipeline", "push", "pop", "t9", "t63"}
OpFlags == {"none", "num", "arr", "kv", "prop", "fl", "all"}
OpBodies == {"typ", "zero", "ff", "rnd"}

Op(stage, type, dflag, body) == stage \o "." \o type \o "." \o dflag \o "." \o body

\* sweep A: every length class x every operation type, stage current
OpsA == {<<n, Op("0", t, "none", b)>> : n \in DLens, t \in OpTypes, b \in {"typ", "ff"}}
OpsA0 == {p \in OpsA : p[2] \in {Op("0", t, "none", "typ") : t \in OpTypes} \/ p[1] \in {"6", "8", "fit"}}
\* sweep B: every data flag x every body x every type
OpsB == {<<n, Op("0", t, f, b)>> : n \in {"8", "fit"}, t \in OpTypes, f \in OpFlags, b \in OpBodies}
OpsB0 == {<<"fit", Op("0", t, f, b)>> : t \in OpTypes, f \in OpFlags, b \in {"typ", "ff"}}
\* sweep C: stages unlock / timeout / expiry (commands run later, by unlock, by the sweepers), nesting
OpsC == {<<n, Op(s, t, f, b)>> : n \in {"fit", "65"}, s \in {"1", "2", "3"}, t \in {"set", "execute", "pipeline", "t63"},
                                 f \in {"none", "prop", "fl"}, b \in {"typ", "ff", "rnd"}}
OpsC0 == {<<"fit", Op(s, t, "none", "typ")>> : s \in {"1", "2", "3"}, t \in {"set", "execute", "pipeline"}}
Ops == IF OpDepth = 0 THEN OpsA0 \cup OpsB0 \cup OpsC0
       ELSE OpsA \cup OpsB \cup (IF OpDepth >= 2 THEN OpsC ELSE OpsC0)
DataKeys == IF OpDepth = 0 THEN {"K"} ELSE {"K", "fresh"}

BinLockClasses ==
    \* no value frame: flag classes x db classes x field classes x key class (a key in another db is a fresh key anyway)
    {c \in {Cls("bin", k, "ok", y, z, u, "-", w, "-", <<>>, "whole") :
                k \in LockLike, y \in {"plain", "aof", "show", "update", "all-nodata"}, z \in {"db1", "dbK", "db255", "dbrnd"},
                u \in {"zero", "typ", "max", "rnd", "ms", "ack"}, w \in {"K", "fresh"}} : c.w = "K" \/ c.z = "dbK"}
    \cup
    \* with a value frame on LOCK: the three sweeps (from-aof flag only on the fitted frames)
    {c \in {Cls("bin", "lock", "ok", y, "dbK", "typ", o[2], w, o[1], <<>>, "whole") :
                y \in {"data", "aofdata"}, o \in Ops, w \in DataKeys} : c.y = "data" \/ c.n = "fit"}
    \cup
    \* with a value frame on UNLOCK / WILL_*: sweep A at the small lengths + sweep B at "fit"
    {Cls("bin", k, "ok", "data", "dbK", "typ", o[2], "K", o[1], <<>>, "whole") :
        k \in {"unlock", "willlock", "willunlock"},
        o \in {p \in (IF OpDepth = 0 THEN OpsA0 \cup OpsC0 ELSE OpsA \cup OpsB \cup OpsC0) : p[1] \in {"0", "1", "2", "6", "8", "fit", "short"}}}

CallMethods == {"LIST_LOCK", "LIST_LOCKED", "LIST_WAIT", "SYNC", "UNKNOWN", "EMPTY", "MAX38"}
CallLens == {"0", "1", "fit", "cap", "cap1", "max32", "short"}
CallPayloads == {"empty", "garbage", "db0", "dbK", "db255", "db256", "dbmax", "keyK", "sync-empty", "sync-aofid", "sync-started"}
    \* sync-started: an empty SyncRequest followed by the 64-byte "started" frame of a follower (the server then streams its log)

BinOtherClasses ==
    \* the payload class matters where the payload is read (fitted / capped length); elsewhere two payloads suffice
    {c \in {Cls("bin", "call", "ok", m, "-", "-", p, "-", n, <<>>, "whole") : m \in CallMethods, n \in CallLens, p \in CallPayloads} :
        c.n \in {"fit", "cap"} \/ c.v \in {"empty", "garbage"}}
    \cup {Cls("bin", "init", "ok", "-", "-", u, "-", "-", "-", <<>>, "whole") : u \in {"rnd", "zero", "same"}}
    \cup {Cls("bin", "state", "ok", "-", z, "-", "-", "-", "-", <<>>, "whole") : z \in {"db1", "dbK", "db255", "dbrnd"}}
    \cup {Cls("bin", k, "ok", "-", "-", u, "-", "-", "-", <<>>, "whole") :
            k \in {"admin", "ping", "quit", "leader", "subscribe", "publish", "unk13", "unk255"}, u \in {"zero", "max", "rnd"}}
    \cup {Cls("bin", k, x, "plain", "db1", "typ", "-", "fresh", "-", <<>>, "whole") : k \in {"ping", "lock"}, x \in {"badmagic", "badver"}}

BinClasses == BinLockClasses \cup BinOtherClasses

-----------------------------------------------------------------------------
\* TEXT protocol classes:  k command name, x casing, args the argument-class tokens
\*   tokens: K prepared key, k fresh key, k16 / k32 / k40 key-length classes, v small value, vlong 2000 bytes,
\*   vbin bytes with CR LF inside, e empty string, numbers "1" "0" "-1" "3000" "big" (> 16 bit) "huge" (> 64 bit),
\*   x non-numeric, everything else literal (keywords)

ValueCmds == {"SET", "SETNX", "APPEND", "GETSET", "INCR", "INCRBY", "DECR", "DECRBY"}
SetExCmds == {"SETEX", "PSETEX"}
ExpireCmds == {"EXPIRE", "PEXPIRE", "PEXPIREAT", "PERSIST"}
ReadCmds == {"GET", "STRLEN", "TYPE", "DUMP", "EXISTS", "TTL", "PTTL", "DEL"}
LockCmds == {"LOCK", "UNLOCK", "PUSH"}
\* SHUTDOWN (stops the server by design) and SLAVEOF host port (demotes it by design) are not generated
AllTextCmds == ValueCmds \cup SetExCmds \cup ExpireCmds \cup ReadCmds \cup LockCmds \cup
               {"KEYS", "SCAN", "SELECT", "TIMEOUT", "PING", "ECHO", "QUIT", "INFO", "SHOW", "CONFIG", "CLIENT",
                "FLUSHDB", "FLUSHALL", "SLAVEOF", "REPLSET", "BGREWRITEAOF", "REWRITEAOF", "NOSUCHCMD", ""}

OptTok == {"EX", "PX", "TX", "PTX", "NX", "XX", "ACK", "NAOF", "1", "x", "big"}
Tails == SeqsUpTo(OptTok, TailLen)

ValueBases == {<<>>, <<"k">>, <<"K">>, <<"k", "v">>, <<"K", "v">>, <<"k", "1">>, <<"K", "1">>, <<"K", "x">>, <<"K", "vlong">>,
               <<"K", "vbin">>, <<"K", "e">>, <<"K", "huge">>, <<"k16", "v">>, <<"k32", "v">>, <<"k40", "v">>, <<"e", "v">>}
SetExBases == {<<>>, <<"k">>, <<"K", "1">>, <<"K", "x">>, <<"k", "1", "v">>, <<"K", "1", "v">>, <<"K", "x", "v">>, <<"K", "big", "v">>,
               <<"K", "-1", "v">>, <<"K", "3000", "v">>, <<"K", "huge", "v">>, <<"K", "0", "v">>}
TailBases(c) == IF c \in SetExCmds THEN {<<"k", "1", "v">>, <<"K", "1", "v">>} ELSE {<<"k", "v">>, <<"K", "1">>}

LockKw == {"LOCK_ID", "FLAG", "TIMEOUT", "EXPRIED", "COUNT", "RCOUNT", "WILL", "SET", "UNSET", "INCR", "APPEND", "SHIFT",
           "EXECUTE", "PUSH", "POP", "BOGUS"}
LockVal == {"1", "0", "-1", "big", "huge", "x", "e", "ackflag", "msflag", "K"}
LockPairSeqs == {<<kw, v>> : kw \in LockKw, v \in LockVal}
LockFirst == {<<"FLAG", "1">>, <<"FLAG", "2">>, <<"TIMEOUT", "ackflag">>, <<"EXPRIED", "0">>, <<"EXPRIED", "msflag">>, <<"WILL", "1">>, <<"COUNT", "big">>}
LockSecond == {<<kw, v>> : kw \in {"SET", "UNSET", "INCR", "APPEND", "SHIFT", "PUSH", "POP", "EXECUTE", "LOCK_ID"}, v \in {"1", "x", "K"}}
Nested == {<<"EXECUTE", s>> \o c : s \in {"x", "UNLOCK", "TIMEOUT", "EXPRIED"},
                                   c \in {<<"LOCK", "k">>, <<"UNLOCK", "K">>, <<"LOCK">>, <<"LOCK", "K", "SET", "v">>,
                                          <<"LOCK", "k", "EXECUTE", "x", "LOCK", "k">>, <<"PUSH", "K", "EXPRIED", "msflag">>,
                                          <<"LOCK", "K", "TIMEOUT", "msflag", "EXPRIED", "msflag">>}}
LockTails == {<<>>} \cup LockPairSeqs \cup {<<kw>> : kw \in LockKw} \cup Nested
             \cup (IF LockPairs >= 2 THEN {a \o b : a \in LockFirst, b \in LockSecond} ELSE {})

OtherArgs(c) ==
    CASE c \in ExpireCmds -> {<<>>, <<"K">>, <<"K", "1">>, <<"K", "x">>, <<"K", "-1">>, <<"K", "big">>, <<"K", "huge">>, <<"k", "1">>, <<"K", "0">>, <<"K", "3000">>}
      [] c \in ReadCmds -> {<<>>, <<"k">>, <<"K">>, <<"K", "x">>, <<"e">>, <<"k40">>}
      [] c = "KEYS" -> {<<>>, <<"*">>, <<"[">>, <<"(">>, <<"K">>}
      [] c = "SCAN" -> {<<>>, <<"0">>, <<"x">>, <<"-1">>, <<"big">>, <<"0", "MATCH">>, <<"0", "MATCH", "*">>, <<"0", "MATCH", "[">>,
                        <<"0", "COUNT">>, <<"0", "COUNT", "x">>, <<"0", "COUNT", "1">>, <<"0", "COUNT", "-1">>, <<"0", "MATCH", "*", "COUNT">>,
                        <<"0", "BOGUS">>, <<"0", "count", "1", "match">>}
      [] c = "SELECT" -> {<<>>, <<"0">>, <<"7">>, <<"255">>, <<"256">>, <<"-1">>, <<"x">>, <<"huge">>}
      [] c = "TIMEOUT" -> {<<>>, <<"SET">>, <<"SET", "1">>, <<"SET", "x">>, <<"SET", "-1">>, <<"SET", "big">>, <<"GET", "x">>, <<"x", "x">>}
      [] c = "PING" -> {<<>>, <<"v">>, <<"v", "v">>, <<"vlong">>}
      [] c = "ECHO" -> {<<>>, <<"v">>, <<"v", "v">>, <<"vlong">>, <<"vbin">>, <<"e">>}
      [] c = "QUIT" -> {<<>>, <<"x">>}
      [] c = "INFO" -> {<<>>, <<"x">>, <<"SERVER">>, <<"x", "x">>}
      [] c = "SHOW" -> {<<>>, <<"*">>, <<"K">>, <<"k">>, <<"K", "WAIT">>, <<"K", "x">>, <<"K", "WAIT", "x">>, <<"e">>}
      [] c = "CONFIG" -> {<<>>, <<"GET">>, <<"GET", "x">>, <<"GET", "DATABASES">>, <<"GET", "PORT">>, <<"SET">>, <<"SET", "x">>,
                          <<"SET", "DB_LOCK_AOF_TIME">>, <<"SET", "DB_LOCK_AOF_TIME", "1">>, <<"SET", "DB_LOCK_AOF_TIME", "x">>,
                          <<"SET", "DB_LOCK_AOF_TIME", "-1">>, <<"SET", "AOF_FILE_REWRITE_SIZE", "big">>, <<"SET", "AOF_FILE_REWRITE_SIZE", "x">>,
                          <<"SET", "LOG_LEVEL", "ERROR">>, <<"SET", "LOG_LEVEL", "x">>, <<"SET", "x", "1">>}
      [] c = "CLIENT" -> {<<>>, <<"LIST">>, <<"KILL">>, <<"KILL", "x">>, <<"x">>, <<"KILL", "x", "x">>}
      [] c = "FLUSHDB" -> {<<>>, <<"0">>, <<"7">>, <<"x">>, <<"255">>, <<"256">>, <<"-1">>}
      [] c = "SLAVEOF" -> {<<>>, <<"x">>, <<"e">>, <<"e", "e">>}
      [] c = "REPLSET" -> {<<>>, <<"CONFIG">>, <<"CONFIG", "x">>, <<"ADD", "x">>, <<"ADD", "x", "WEIGHT">>, <<"REMOVE">>, <<"SET", "x", "ARBITER", "x">>,
                           <<"GET">>, <<"MEMBERS">>, <<"QUIT-LEADER">>, <<"x">>}
      [] c \in {"FLUSHALL", "BGREWRITEAOF", "REWRITEAOF"} -> {<<>>, <<"x">>}
      [] c \in {"NOSUCHCMD", ""} -> {<<>>, <<"v">>, <<"v", "v", "v">>}
      [] OTHER -> {}

TextArgs(c) ==
    CASE c \in ValueCmds -> ValueBases \cup {b \o t : b \in TailBases(c), t \in Tails}
      [] c \in SetExCmds -> SetExBases \cup {b \o t : b \in TailBases(c), t \in Tails}
      [] c \in LockCmds -> {<<>>} \cup {<<key>> \o t : key \in {"k", "K"}, t \in LockTails} \cup {<<"k16">>, <<"k32">>, <<"k40">>, <<"e">>}
      [] OTHER -> OtherArgs(c)

TextClasses ==
    UNION {{Cls("text", c, "upper", "-", "-", "-", "-", "-", "-", a, "whole") : a \in TextArgs(c)} : c \in AllTextCmds}
    \cup UNION {{Cls("text", c, "lower", "-", "-", "-", "-", "-", "-", a, "whole") : a \in {b \in TextArgs(c) : Len(b) <= 3}} :
                    c \in {"SET", "LOCK", "PING", "SCAN"}}

\* RESP-level malformations (textparse.go stages 0-4)
RespKinds == {"nostar", "inline", "emptyline", "argc-neg", "argc0", "argc0-then-arg", "argc-nonnum", "argc-huge", "argc-long", "argc-more", "argc-less",
              "nodollar", "len-neg", "len-neg-argc0", "len-nonnum", "len-huge", "len-long", "len-short", "len-over", "lf-only", "cr-missing", "nul-bytes",
              "len-zero", "bigarg-64k", "bigarg-1m", "many-args"}
RespClasses == {Cls("resp", k, "-", "-", "-", "-", "-", "-", "-", <<>>, "whole") : k \in RespKinds}

\* raw / mutated streams, Variants seeded variants each
RawKinds == {"rnd64", "rnd1", "rnd63", "rnd65", "rnd200", "rnd4096", "magicrnd", "magicrnd-data", "zero64", "ff64", "ff4096", "textmut", "binmut", "textrnd", "eof"}
RawClasses == {Cls("raw", k, NumStr(i), "-", "-", "-", "-", "-", "-", <<>>, "whole") : k \in RawKinds, i \in 1..Variants}

\* fragmentation classes, applied to a representative subset (one of every shape)
Frags == {"bytes", "all2", "hdr", "len", "first", "rnd3"}
FragBase ==
    {c \in BinClasses : /\ c.k \in {"lock", "call", "ping", "willlock"}
                        /\ c.y \in {"data", "plain", "LIST_LOCK", "SYNC", "-"}
                        /\ c.z \in {"dbK", "-"} /\ c.u \in {"typ", "-", "zero"} /\ c.w \in {"fresh", "-"}
                        /\ c.v \in {"-", Op("0", "set", "none", "typ"), Op("0", "pipeline", "none", "typ"), Op("0", "execute", "none", "typ"), "db0", "sync-empty"}
                        /\ c.n \in {"-", "0", "1", "2", "6", "8", "64", "fit", "cap"}}
    \cup {c \in TextClasses : /\ c.k \in {"SET", "LOCK", "PING", "ECHO", "SCAN", "CONFIG"} /\ c.x = "upper"
                              /\ c.args \in {<<>>, <<"k", "v">>, <<"K", "vlong">>, <<"K", "vbin">>, <<"k", "v", "EX", "1">>, <<"k", "v", "EX">>,
                                             <<"k", "SET", "x">>, <<"K", "EXECUTE", "x", "LOCK", "k">>, <<"vlong">>, <<"0", "MATCH", "*">>, <<"GET", "PORT">>}}
    \cup {c \in RespClasses : c.k \in {"argc-more", "len-short", "bigarg-64k", "many-args"}}
FragClasses == IF FragLevel >= 1 THEN {[c EXCEPT !.frag = f] : c \in FragBase, f \in Frags} ELSE {}

\* environment classes: what OTHER clients do on connections of their own while the connection under test is served
\*   follower    a client issued CALL SYNC and is now streamed the log; it never acknowledges anything
\*   ackpending  follower + a text client whose LOCK K (lock id = K, require-acked) waits for that acknowledgement
\*   get strlen dump type keys scan show lockshow ttl listlocked
\*               another client reads key K (and the key space) through the text protocol / CALL LIST_LOCKED: values stored
\*               by THIS connection's earlier steps are rendered for somebody else
EnvReads == {"get", "strlen", "dump", "type", "keys", "scan", "show", "showwait", "lockshow", "ttl", "listlocked", "listlock", "listwait", "append", "incr", "pop"}
EnvClasses == {Cls("env", k, "-", "-", "-", "-", "-", "-", "-", <<>>, "whole") : k \in {"follower", "ackpending"} \cup EnvReads}

Universe == BinClasses \cup TextClasses \cup RespClasses \cup RawClasses \cup FragClasses \cup EnvClasses

-----------------------------------------------------------------------------
\* session-level (coarse) classes: members of Universe that change what later classes meet
\* (protocol mode, INIT done, selected db, key K held / carrying a value of some type, wills registered)
Coarse ==
    { Cls("bin", "init", "ok", "-", "-", "rnd", "-", "-", "-", <<>>, "whole"),
      Cls("bin", "ping", "ok", "-", "-", "zero", "-", "-", "-", <<>>, "whole"),
      Cls("bin", "admin", "ok", "-", "-", "zero", "-", "-", "-", <<>>, "whole"),
      Cls("bin", "subscribe", "ok", "-", "-", "max", "-", "-", "-", <<>>, "whole"),
      Cls("bin", "lock", "ok", "plain", "dbK", "typ", "-", "K", "-", <<>>, "whole"),
      Cls("bin", "lock", "ok", "data", "dbK", "typ", Op("0", "set", "none", "typ"), "K", "fit", <<>>, "whole"),
      Cls("bin", "lock", "ok", "data", "dbK", "typ", Op("0", "set", "arr", "typ"), "K", "fit", <<>>, "whole"),
      Cls("bin", "lock", "ok", "data", "dbK", "typ", Op("0", "set", "kv", "ff"), "K", "fit", <<>>, "whole"),
      Cls("bin", "lock", "ok", "data", "dbK", "typ", Op("0", "set", "prop", "ff"), "K", "fit", <<>>, "whole"),
      Cls("bin", "lock", "ok", "data", "dbK", "typ", Op("0", "set", "num", "typ"), "K", "fit", <<>>, "whole"),
      Cls("bin", "willlock", "ok", "data", "dbK", "typ", Op("0", "set", "none", "typ"), "K", "fit", <<>>, "whole"),
      Cls("bin", "willunlock", "ok", "plain", "dbK", "typ", "-", "K", "-", <<>>, "whole"),
      Cls("text", "PING", "upper", "-", "-", "-", "-", "-", "-", <<>>, "whole"),
      Cls("text", "SELECT", "upper", "-", "-", "-", "-", "-", "-", <<"255">>, "whole"),
      Cls("text", "SET", "upper", "-", "-", "-", "-", "-", "-", <<"K", "v">>, "whole"),
      Cls("text", "INCR", "upper", "-", "-", "-", "-", "-", "-", <<"K">>, "whole"),
      Cls("text", "PUSH", "upper", "-", "-", "-", "-", "-", "-", <<"K", "PUSH", "1">>, "whole"),
      Cls("text", "LOCK", "upper", "-", "-", "-", "-", "-", "-", <<"K", "WILL", "1">>, "whole"),
      Cls("text", "LOCK", "upper", "-", "-", "-", "-", "-", "-", <<"K", "EXPRIED", "big">>, "whole"),
      Cls("env", "follower", "-", "-", "-", "-", "-", "-", "-", <<>>, "whole"),
      Cls("env", "ackpending", "-", "-", "-", "-", "-", "-", "-", <<>>, "whole") }

-----------------------------------------------------------------------------
\* the abstract connection

Modes == {"sniff", "bin", "text", "admintext", "closed"}
Init0 == [mode |-> "sniff", pend |-> FALSE, db255 |-> FALSE]

AnyResp == {"ok", "err", "none"}
Exp(resp, closes) == [resp |-> resp, closes |-> closes]
Anything == Exp(AnyResp, BOOLEAN)

IsTextBytes(c) == c.fam \in {"text", "resp"}
WholeFirst(c) == c.frag \in {"whole", "hdr", "len"}      \* the first 64 bytes arrive in one read
SplitFirst(c) == c.frag \in {"first", "bytes"}            \* they certainly do not ("all2", "rnd3": depends on the cut)

MinArgs(k) ==
    CASE k \in {"SET", "SETNX", "APPEND", "GETSET", "EXPIRE", "PEXPIRE", "PEXPIREAT"} -> 2
      [] k \in SetExCmds -> 3
      [] k \in {"INCR", "INCRBY", "DECR", "DECRBY", "PERSIST"} \cup ReadCmds \cup {"SELECT", "FLUSHDB", "CONFIG", "CLIENT", "REPLSET"} -> 1
      [] k = "TIMEOUT" -> 2
      [] k \in LockCmds -> 1
      [] OTHER -> 0

\* expectation of a complete, well-delimited text command in a text-mode connection
TextExp(c) ==
    CASE c.k = "QUIT" -> Exp({"ok"}, {TRUE})
      [] c.k \in {"NOSUCHCMD", ""} -> Exp({"err"}, {FALSE})
      [] Len(c.args) < MinArgs(c.k) -> Exp({"err"}, {FALSE})
      [] c.k \in LockCmds /\ Len(c.args) % 2 = 0 -> Exp({"err"}, {FALSE})          \* keyword without value
      [] c.k = "ECHO" /\ Len(c.args) # 1 -> Exp({"err"}, {FALSE})
      [] c.k = "PING" -> IF Len(c.args) <= 1 THEN Exp({"ok"}, {FALSE}) ELSE Exp({"err"}, {FALSE})
      [] c.k = "REPLSET" -> Exp({"err"}, {FALSE})                                   \* not a replset server
      [] OTHER -> Exp({"ok", "err"}, {FALSE})                                       \* depends on arguments / data

RespExp(c) ==
    CASE c.k \in {"nostar", "inline", "emptyline", "argc-nonnum", "argc-huge", "argc-long", "nodollar", "len-nonnum", "len-huge", "len-long",
                  "lf-only", "nul-bytes"} -> Exp({"none"}, {TRUE})
      [] c.k \in {"argc-more", "len-short", "bigarg-64k", "bigarg-1m", "many-args"} -> Anything
      [] OTHER -> Anything

\* expectation of one complete binary unit (64-byte frame + announced trailing frame) in binary mode
BinExp(c) ==
    CASE c.x \in {"badmagic", "badver"} -> Exp({"err"}, {TRUE})
      [] c.k = "quit" -> Exp({"ok"}, {TRUE})
      [] c.k \in {"publish", "unk13", "unk255"} -> Exp({"err"}, {FALSE})
      [] c.k \in {"ping", "init", "state", "leader"} -> Exp({"ok"}, {FALSE})
      [] c.k = "admin" -> Exp({"ok"}, {FALSE})
      [] c.k = "subscribe" -> Exp({"ok", "err", "none"}, {FALSE, TRUE})
      [] c.k = "call" ->
            IF c.n \in {"cap1", "max32"} THEN Exp({"none"}, {TRUE})
            ELSE IF c.n = "short" THEN Exp({"none"}, {FALSE})
            ELSE IF c.y = "SYNC" THEN Anything
            ELSE IF c.y \in {"UNKNOWN", "EMPTY", "MAX38"} THEN Exp({"err"}, {FALSE})
            ELSE Exp({"ok", "err"}, {FALSE})
      [] c.k \in LockLike /\ c.n \in {"cap1", "max32"} -> Exp({"none"}, {TRUE})       \* over the 1 MiB limit: closed
      [] c.k \in LockLike /\ c.n = "short" -> Exp({"none"}, {FALSE})                   \* the server waits for the rest
      [] c.k \in LockLike /\ c.n \in {"0", "1"} -> Exp({"err", "none"}, {TRUE, FALSE}) \* no room for the 2-byte header: refuse
      [] c.k \in {"willlock", "willunlock"} -> Exp({"none"}, {FALSE})                  \* stored, answered by nothing
      [] c.k \in LockLike /\ c.z = "db255" -> Exp({"err"}, {FALSE})
      [] c.k \in LockLike -> Exp({"ok", "err", "none"}, {FALSE})                       \* granted / refused / queued
      [] OTHER -> Anything

\* Step: the state after feeding class c, and what the client should see
Step(s, c) ==
    IF s.mode = "closed" THEN [st |-> s, exp |-> Exp({"none"}, {TRUE})]
    ELSE IF c.fam = "env" THEN [st |-> s, exp |-> Exp({"none"}, {FALSE})]      \* nothing happens on this connection
    ELSE IF c.fam = "raw" /\ c.k = "eof" THEN [st |-> [s EXCEPT !.mode = "closed"], exp |-> Exp({"none"}, {TRUE})]
    ELSE IF s.pend THEN [st |-> s, exp |-> Anything]      \* bytes complete an earlier partial unit: anything goes
    ELSE IF c.fam = "raw" THEN
        \* unstructured bytes: anything may happen to this connection; the first read still decides the protocol
        [st |-> [s EXCEPT !.pend = TRUE,
                          !.mode = IF s.mode # "sniff" THEN s.mode ELSE IF c.k \in {"magicrnd", "magicrnd-data", "binmut"} THEN "bin" ELSE "text"],
         exp |-> Anything]
    ELSE IF s.mode = "sniff" THEN
        IF c.fam = "bin" THEN
            IF WholeFirst(c) /\ c.x = "ok"
            THEN LET e == BinExp(c) IN
                 [st |-> [s EXCEPT !.mode = IF e.closes = {TRUE} THEN "closed" ELSE IF c.k = "admin" THEN "admintext" ELSE "bin",
                                   !.pend = (c.n = "short") \/ (e.closes = BOOLEAN)],
                  exp |-> e]
            ELSE IF SplitFirst(c) \/ c.x # "ok"
            THEN \* a first read that is not a whole 0x56 0x01 frame is taken for text: "first byte must be *"
                 [st |-> [s EXCEPT !.mode = "closed"], exp |-> Exp({"none"}, {TRUE})]
            ELSE [st |-> [s EXCEPT !.mode = "bin", !.pend = TRUE], exp |-> Anything]
        ELSE LET e == IF c.fam = "text" THEN TextExp(c) ELSE RespExp(c) IN
             [st |-> [s EXCEPT !.mode = IF e.closes = {TRUE} THEN "closed" ELSE "text",
                               !.pend = (e.closes = BOOLEAN),
                               !.db255 = (c.fam = "text" /\ c.k = "SELECT" /\ c.args = <<"255">>)],
              exp |-> IF c.frag \in {"whole"} \/ c.fam = "resp" THEN e ELSE Exp(AnyResp, BOOLEAN)]
    ELSE IF s.mode = "bin" THEN
        IF c.fam = "bin"
        THEN LET e == BinExp(c) IN
             [st |-> [s EXCEPT !.mode = IF e.closes = {TRUE} THEN "closed" ELSE IF c.k = "admin" THEN "admintext" ELSE "bin",
                               !.pend = (c.n = "short") \/ (e.closes = BOOLEAN)],
              exp |-> e]
        ELSE \* text bytes in a binary connection: a frame with a bad magic (or part of one)
             [st |-> [s EXCEPT !.pend = TRUE], exp |-> Anything]
    ELSE \* text / admintext
        IF IsTextBytes(c)
        THEN LET e0 == IF c.fam = "text" THEN TextExp(c) ELSE RespExp(c)
                 e == IF s.db255 /\ c.fam = "text" /\ c.k \in ValueCmds \cup SetExCmds \cup ExpireCmds \cup LockCmds \cup ReadCmds
                      THEN Exp(e0.resp \cup {"err"}, e0.closes) ELSE e0 IN
             [st |-> [s EXCEPT !.mode = IF e.closes = {TRUE} THEN "closed" ELSE s.mode,
                               !.pend = (e.closes = BOOLEAN),
                               !.db255 = IF c.fam = "text" /\ c.k = "SELECT" /\ Len(c.args) >= 1 THEN c.args[1] = "255" ELSE s.db255],
              exp |-> IF c.frag = "whole" \/ c.fam = "resp" THEN e ELSE Exp(AnyResp, BOOLEAN)]
        ELSE \* a binary frame in a text connection: 0x56 is not '*'
             [st |-> [s EXCEPT !.mode = "closed"], exp |-> Exp({"none"}, {TRUE})]
=============================================================================

------------------------------ MODULE AckQuorum ------------------------------
(***************************************************************************)
(* Ack-required locks of slock (C11), implementation-shaped:               *)
(*                                                                         *)
(*   db.go        Lock (fresh ack grant, 2201-2221), wakeUpWaitLock (grant *)
(*                from the queue, 2608-2626), UnLock / Lock answering      *)
(*                LOCK_ACK_WAITING (2058, 2401), doTimeOut of a pending    *)
(*                hold (1714-1735), DoAckLock (2808-2911)                  *)
(*   aof.go       AofChannel (ONE goroutine per shard handles, in FIFO     *)
(*                order, the FILE items pushed by grants / unlocks, the    *)
(*                ACK_FILE items pushed by the leader's own flush and the  *)
(*                ACK_ACKED items pushed by follower acks), Aof.PushLock,  *)
(*                AofFile.WriteLock (ackRequests) / Flush (lockAcked)      *)
(*   replication.go  ReplicationManager.PushLock / UpdateDBAckCount,       *)
(*                ReplicationAckDB.ProcessLeaderPushLock / PushUnLock /    *)
(*                Aofed / Acked / SwitchToFollower, follower side          *)
(*                ackLocks{locked, aofed} -> HandleAcked                   *)
(*                                                                         *)
(* One key, exclusive requests (Count 0).  The state is ONE record `s` so  *)
(* that the code's critical sections are pure operators that compose       *)
(* (DoAck -> WakePass -> Grant -> channel push).                           *)
(*                                                                         *)
(* Finding A10 (fixed in /repo by 3033d68): the leader's own flush ack and *)
(* the follower acks counted down the SAME counter Lock.ackCount, which    *)
(* was initialised to the number of NODES that must have the record        *)
(* (all: n+1, majority: (n+1)/2+1).  A10Fixed = TRUE is the code as it is  *)
(* now: the high bit of ackCount marks the outstanding leader flush, the   *)
(* low bits count the follower acks still needed (laof / fneed below).     *)
(* A10Fixed = FALSE keeps the old shared counter as a documentation and    *)
(* regression model (spec/mc/AckQuorum_prefix.cfg, AckQuorum_a10.cfg).     *)
(*                                                                         *)
(* The leader's log is TWO files (aof.go AofFile): the 64-byte entries go  *)
(* to append.aof.N, the value frames of the entries that carry data        *)
(* (AOF_FLAG_CONTAINS_DATA: the request has a value operation or the key   *)
(* already has a value) go to append.aof.N.dat.  AofFile.Flush writes the  *)
(* entry buffer, then the value buffer; either write can fail alone; the   *)
(* "own log written" acknowledgements (Aof.lockAcked) are sent after BOTH  *)
(* (FlushRecords / FlushValues below; a record is "written" when its entry *)
(* and, if it carries data, its value frame are in the files).             *)
(* AckAfterRecords = TRUE is the deviating ordering "acknowledge right     *)
(* after the entry write" (seeded change C11d); its counterexamples        *)
(* (spec/mc/AckQuorum_c11d_*.cfg) are replayed on the real code as         *)
(* regression behaviours.                                                  *)
(***************************************************************************)
EXTENDS Integers, Sequences, FiniteSets, TLC, Json, SequencesExt, FiniteSetsExt

CONSTANTS
    NFs,           \* set of follower-link counts a behaviour may start with (subset of 0..2); chosen in Init
    Modes,         \* subset of {"all", "maj"}   (Config.AofAckMode 0/2 | 1, no arbiter); chosen in Init
    Classes,       \* fault classes a behaviour may draw ONE of: "neg" (negative follower results), "fail" (failing leader
                   \* flush), "cut" (link cuts), "dem" (demotion), "mix" (all of them); chosen in Init
    Lids,          \* LockIds (model values; symmetric)
    Fols,          \* follower identities (model values; symmetric); Cardinality(Fols) >= Max(NFs)
    Vals,          \* value operation codes an ack request may carry (see After below): 0 none, 1 / 2 SET a / SET b, 3 UNSET,
                   \* 4 MOD (INCR / APPEND / PUSH), 5 TRIM (SHIFT / POP), 6 PIPELINE[SET a], 7 PIPELINE[MOD], 8 PIPELINE of header-only sub-frames
    InitVals,      \* prior state of the key's value a behaviour may start with: 0 no value at all, 1 value object present but unset, 2.. a value
    UndoLostOnNone, \* FALSE: the code; TRUE: deviation "the undo record of a PIPELINE on a key without a value is dropped" (seeded change C11e)
    Timeouts,      \* Timeout field of lock requests (seconds); for an ack grant it bounds the ack wait
    MaxReq,        \* client requests per behaviour
    MaxNow,        \* clock bound
    MaxNeg,        \* bound on negative outcomes on the follower side
    MaxFail,       \* bound on the number of times one of the two log files starts to fail
    Heal,          \* FALSE: a file that failed once fails for the rest of the behaviour; TRUE: it may work again (disk full for a while)
    AckAfterRecords, \* FALSE: the code (acknowledge after both writes); TRUE: deviation "acknowledge after the entry write" (C11d)
    MaxCut,        \* bound on link cuts
    AllowDemote,   \* BOOLEAN
    A10Fixed,      \* TRUE: the code since 3033d68; FALSE: the shared counter before it (see above)
    FollowerSteps, \* 2: follower replay and follower flush are separate actions (either order, the second sends the ack);
                   \* 1: one action per follower and record (the leader cannot tell the difference)
    AckTimeouts,   \* Timeout alphabet of ack requests
    PlainVals      \* value alphabet of plain requests

VARIABLES s, hist
vars == <<s, hist>>

SUCCED == 0   LOCKED_ERROR == 5   UNLOCK_ERROR == 6   UNOWN_ERROR == 7   TIMEOUT == 8
STATE_ERROR == 10   ERROR == 11   ACK_WAITING == 12

NOACK == 255      \* Lock.ackCount of a hold that is not ack-pending

Followers == Fols
Sym == Permutations(Fols) \cup Permutations(Lids)

\* ReplicationManager.UpdateDBAckCount (no arbiter): number of NODES counted down by Lock.ackCount
Need(md, n) == IF md = "maj" THEN ((n + 1) \div 2) + 1 ELSE n + 1
\* the statement: leader's own log + this many followers
Required(md, n) == Need(md, n) - 1

IdxOfLid(H, lid) == LET I == {i \in 1..Len(H) : H[i].lid = lid} IN IF I = {} THEN 0 ELSE Min(I)
IdxOfRid(H, rid) == LET I == {i \in 1..Len(H) : H[i].rid = rid} IN IF I = {} THEN 0 ELSE Min(I)
RemoveIdx(Q, i) == SubSeq(Q, 1, i - 1) \o SubSeq(Q, i + 1, Len(Q))

-----------------------------------------------------------------------------
\* replies and ghost bookkeeping

Gh0 == [acks |-> {}, negs |-> {}, req |-> -1, nfpush |-> -1, doomed |-> FALSE, wfail |-> FALSE, vbefore |-> -1, cbefore |-> -1]

\* The value of the key, abstract: 0 = no value at all, 1 = a value object that is marked unset (what an UNSET, and a rollback
\* to "no value", leave behind), >= 2 = a value.  Obs is what a client can see of it.  After(v, op) = the register after a
\* value operation of class op (spec/ValueReg.tla has the byte-level semantics; here only "before / after" matters):
Obs(v) == IF v <= 1 THEN 0 ELSE v
After(v, op) ==
    CASE op = 0 -> v
      [] op = 1 -> 2
      [] op = 2 -> 3
      [] op = 3 -> IF v = 0 THEN 0 ELSE 1                           \* UNSET: nothing to unset on a key without a value object
      [] op \in {4, 7} -> IF v <= 1 THEN 4 ELSE IF v < 10 THEN v + 10 ELSE v   \* builds on what is there
      [] op = 5 -> IF v <= 1 THEN v ELSE 5                          \* only acts on a value
      [] op = 6 -> 2
      [] OTHER -> v                                                  \* 8: sub-frames that change nothing
IsPipe(op) == op \in {6, 7, 8}
\* the undo record a pending hold keeps: the value before its operation (0 is a legal undo record: "undo means unset");
\* -1 = none kept.  Deviation C11e: LockData.IsEmpty() forgets the record of a PIPELINE whose value-before is "no value".
UndoOf(v, op) == IF op = 0 THEN -1 ELSE IF UndoLostOnNone /\ IsPipe(op) /\ v = 0 THEN -1 ELSE v
\* ProcessRecoverLockData: back to the value before; "no value" comes back as an unset value object
Restore(v, undo) == IF undo < 0 THEN v ELSE IF undo = 0 THEN 1 ELSE undo

\* the record of request rid is in the leader's own log: its entry, and its value frame if it carries one
EntryIn(S, rid) == rid \in S.disk
ValueIn(S, rid) == ~S.reqs[rid].hv \/ rid \in S.vdisk
Written(S, rid) == EntryIn(S, rid) /\ ValueIn(S, rid)

Reply(S, rid, res) ==
    LET r == S.reqs[rid] IN
    [S EXCEPT !.out = Append(@, [rid |-> rid, res |-> res, ack |-> r.ack, cmd |-> r.cmd,
                                 ondisk |-> Written(S, rid), entry |-> EntryIn(S, rid), hv |-> r.hv, value |-> ValueIn(S, rid), acks |-> S.gh[rid].acks, req |-> S.gh[rid].req,
                                 nfpush |-> S.gh[rid].nfpush, doomed |-> S.gh[rid].doomed,
                                 lidpend |-> r.lidpend, ldr |-> r.ldr, dem |-> S.dem,
                                 waspend |-> (r.st = "pend"), val |-> S.val, vbefore |-> S.gh[rid].vbefore, cbefore |-> S.gh[rid].cbefore, dv |-> r.dv]),
              !.reqs[rid].st = "done", !.reqs[rid].nrep = @ + 1]

LiveWaiters(S) == SelectSeq(S.W, LAMBDA id : S.reqs[id].st = "wait")

-----------------------------------------------------------------------------
\* the lock engine (exclusive key)

\* a request becomes a holder: plain -> SUCCED at once; ack -> pending, FILE item pushed, no reply
Grant(S, rid) ==
    LET r == S.reqs[rid] IN
    IF r.ack
    THEN [S EXCEPT !.H = Append(@, [lid |-> r.lid, rid |-> rid, ackc |-> 0, laof |-> FALSE, fneed |-> 0,
                                    undo |-> UndoOf(S.val, r.dv), dv |-> r.dv, nv |-> After(S.val, r.dv)]),
                   !.val = After(@, r.dv),
                   !.reqs[rid].st = "pend",
                   \* LockManager.AofLockData(COMMAND_LOCK): the record carries the key's value when there is one
                   !.reqs[rid].hv = After(S.val, r.dv) # 0,
                   !.gh[rid].vbefore = S.val,
                   !.chan = Append(@, [t |-> "lock", rid |-> rid, ok |-> TRUE, f |-> 0])]
    ELSE LET S1 == [S EXCEPT !.H = Append(@, [lid |-> r.lid, rid |-> rid, ackc |-> NOACK, laof |-> FALSE, fneed |-> 0,
                                              undo |-> -1, dv |-> r.dv, nv |-> After(S.val, r.dv)]),
                             !.val = After(@, r.dv),
                             !.cval = After(S.val, r.dv),
                             !.gh[rid].vbefore = S.val, !.gh[rid].cbefore = S.cval]
         IN Reply(S1, rid, SUCCED)

\* wakeUpWaitLocks: exclusive key => at most one grant
WakePass(S) ==
    IF ~S.waited THEN S
    ELSE LET L == LiveWaiters(S) IN
         IF L = <<>> THEN [S EXCEPT !.W = <<>>, !.waited = FALSE]
         ELSE IF S.H # <<>> THEN [S EXCEPT !.W = L]
         ELSE \* grant the head; the loop then meets the next waiter (not admissible: the key is exclusive) or an
              \* empty queue (waited := false)
              Grant([S EXCEPT !.W = Tail(L), !.waited = (Tail(L) # <<>>)], Head(L))

\* DoAckLock(lock, succed)
DoAck(S, rid, ok) ==
    LET i == IdxOfRid(S.H, rid) IN
    IF i = 0 THEN S                                    \* hold already removed: RemoveLock set ackCount = 0xff -> refCount-- only
    ELSE IF S.H[i].ackc = NOACK THEN S
    ELSE IF ok
    THEN Reply([S EXCEPT !.H[i].ackc = NOACK, !.cval = IF S.H[i].dv > 0 THEN S.H[i].nv ELSE @], rid, SUCCED)
    ELSE LET h  == S.H[i]
             S1 == [S EXCEPT !.H = RemoveIdx(@, i),
                             !.val = Restore(@, h.undo),
                             \* lock.isAof is set: PushUnLockAof (only a leader pushes)
                             !.chan = IF S.role = "leader" THEN Append(@, [t |-> "unlock", rid |-> rid, ok |-> TRUE, f |-> 0]) ELSE @]
         IN WakePass(Reply(S1, rid, ERROR))

\* the ack bookkeeping of ProcessLeaderAofed / ProcessLeaderAcked on a registered request
CountDown(S, rid, fromLeaderFlush) ==
    LET i == IdxOfRid(S.H, rid) IN
    IF i = 0 THEN S ELSE
    IF ~A10Fixed
    THEN LET c == S.H[i].ackc - 1 IN
         IF c > 0 THEN [S EXCEPT !.H[i].ackc = c]
         ELSE DoAck([S EXCEPT !.H[i].ackc = 0, !.tbl = @ \ {rid}], rid, TRUE)
    ELSE LET la == S.H[i].laof \/ fromLeaderFlush
             fn == IF fromLeaderFlush THEN S.H[i].fneed ELSE (IF S.H[i].fneed > 0 THEN S.H[i].fneed - 1 ELSE 0)
         IN IF la /\ fn = 0
            THEN DoAck([S EXCEPT !.H[i].laof = la, !.H[i].fneed = fn, !.tbl = @ \ {rid}], rid, TRUE)
            ELSE [S EXCEPT !.H[i].laof = la, !.H[i].fneed = fn]

Registered(S, rid) == rid \in S.tbl

AckcOf(S, rid) == LET i == IdxOfRid(S.H, rid) IN IF i = 0 THEN NOACK ELSE S.H[i].ackc

\* one item of the shard's AofChannel
ChanItem(S, it) ==
    CASE it.t = "lock" ->
           \* Aof.PushLock: AofFile.WriteLock (buffer + ackRequests), then ReplicationManager.PushLock
           LET S1 == [S EXCEPT !.wbuf = Append(@, it.rid)]
               i  == IdxOfRid(S1.H, it.rid)
               S2 == IF S1.role = "leader" /\ i > 0 /\ S1.H[i].ackc # NOACK
                     THEN \* ProcessLeaderPushLock
                          [S1 EXCEPT !.tbl = @ \cup {it.rid},
                                     !.H[i].ackc = Need(S1.mode, Cardinality(S1.up)),
                                     !.H[i].fneed = Required(S1.mode, Cardinality(S1.up)),
                                     !.gh[it.rid].req = Required(S1.mode, Cardinality(S1.up)),
                                     !.gh[it.rid].nfpush = Cardinality(S1.up)]
                     ELSE S1
           \* ring buffer -> every connected follower
           IN [S2 EXCEPT !.nlf = @ \cup {<<f, it.rid>> : f \in S2.up}]
      [] it.t = "unlock" ->
           \* ProcessLeaderPushUnLock; the UNLOCK record makes followers forget the request (ProcessFollowerPushAckUnLock)
           LET S1 == IF S.role = "leader" /\ Registered(S, it.rid)
                     THEN DoAck([S EXCEPT !.tbl = @ \ {it.rid}], it.rid, FALSE) ELSE S
           IN [S1 EXCEPT !.nlf = {x \in @ : x[2] # it.rid},
                         !.fst = [x \in {y \in DOMAIN @ : y[2] # it.rid} |-> @[x]]]
      [] it.t = "aofack" ->
           \* HandleAofAcked: leader -> ProcessLeaderAofed, otherwise the follower path (nothing on the leader tables)
           IF S.role # "leader" \/ ~Registered(S, it.rid) THEN S
           ELSE IF ~it.ok \/ AckcOf(S, it.rid) = NOACK
                THEN DoAck([S EXCEPT !.tbl = @ \ {it.rid}], it.rid, FALSE)
                ELSE CountDown(S, it.rid, TRUE)
      [] it.t = "fack" ->
           \* HandleAcked -> ProcessLeaderAcked (no role test)
           IF ~Registered(S, it.rid) THEN S
           ELSE IF ~it.ok \/ AckcOf(S, it.rid) = NOACK
                THEN DoAck([S EXCEPT !.tbl = @ \ {it.rid}], it.rid, FALSE)
                ELSE CountDown([S EXCEPT !.gh[it.rid].acks = @ \cup {it.f}], it.rid, FALSE)

-----------------------------------------------------------------------------
\* actions

NewReq(S, cmd, lid, ack, dv, to) ==
    LET i == IdxOfLid(S.H, lid) IN
    [cmd |-> cmd, lid |-> lid, ack |-> ack, dv |-> dv, to |-> to, st |-> "open", nrep |-> 0, dl |-> S.now + to, hv |-> FALSE,
     lidpend |-> (i > 0 /\ S.H[i].ackc # NOACK), ldr |-> (S.role = "leader")]

LockReq(lid, ack, dv, to) ==
    /\ Len(s.reqs) < MaxReq
    /\ LET rid == Len(s.reqs) + 1
           S0  == [s EXCEPT !.reqs = Append(@, NewReq(s, "L", lid, ack, dv, to)), !.gh = Append(@, Gh0)]
           i   == IdxOfLid(S0.H, lid)
       IN /\ s' = IF S0.role # "leader" THEN Reply(S0, rid, STATE_ERROR)
                  ELSE IF i > 0
                       THEN IF S0.H[i].ackc # NOACK THEN Reply(S0, rid, ACK_WAITING) ELSE Reply(S0, rid, LOCKED_ERROR)
                  ELSE IF S0.H = <<>> /\ ~S0.waited THEN Grant(S0, rid)
                  ELSE IF to > 0 THEN [S0 EXCEPT !.W = Append(@, rid), !.waited = TRUE, !.reqs[rid].st = "wait"]
                  ELSE Reply(S0, rid, TIMEOUT)
          /\ hist' = Append(hist, [op |-> "lock", id |-> rid, lid |-> lid, ack |-> ack, dv |-> dv, to |-> to, f |-> 0, rid |-> 0, ok |-> TRUE])

UnlockReq(lid) ==
    /\ Len(s.reqs) < MaxReq
    /\ LET rid == Len(s.reqs) + 1
           S0  == [s EXCEPT !.reqs = Append(@, NewReq(s, "U", lid, FALSE, 0, 0)), !.gh = Append(@, Gh0)]
           i   == IdxOfLid(S0.H, lid)
       IN /\ s' = IF S0.role # "leader" THEN Reply(S0, rid, STATE_ERROR)
                  ELSE IF S0.H = <<>> THEN Reply(S0, rid, UNLOCK_ERROR)
                  ELSE IF i = 0 THEN Reply(S0, rid, UNOWN_ERROR)
                  ELSE IF S0.H[i].ackc # NOACK THEN Reply(S0, rid, ACK_WAITING)
                  ELSE LET h  == S0.H[i]
                           S1 == [S0 EXCEPT !.H = RemoveIdx(@, i),
                                            !.chan = IF S0.reqs[h.rid].ack THEN Append(@, [t |-> "unlock", rid |-> h.rid, ok |-> TRUE, f |-> 0]) ELSE @]
                       IN WakePass(Reply(S1, rid, SUCCED))
          /\ hist' = Append(hist, [op |-> "unlock", id |-> rid, lid |-> lid, ack |-> FALSE, dv |-> 0, to |-> 0, f |-> 0, rid |-> 0, ok |-> TRUE])

\* the channel goroutine handles its next item
\* (a FILE item needs Aof.aofGlock, which a flush in progress holds: the goroutine waits)
ChanStep ==
    /\ s.chan # <<>>
    /\ s.fl = "mid" => Head(s.chan).t \notin {"lock", "unlock"}
    /\ s' = ChanItem([s EXCEPT !.chan = Tail(@), !.midsteps = IF s.fl = "mid" THEN @ + 1 ELSE @], Head(s.chan))
    /\ UNCHANGED hist

AckLocksIn(S, B) == SelectSeq(B, LAMBDA rid : S.reqs[rid].ack)

\* AofFile.Flush by whichever goroutine found all channels idle (or a full buffer), under Aof.aofGlock: first the entry
\* buffer is written to the record file ...
SeqSet(q) == {q[j] : j \in 1..Len(q)}
WithVal(S, B) == SelectSeq(B, LAMBDA rid : S.reqs[rid].hv)
AckItems(rids, ok) == [j \in 1..Len(rids) |-> [t |-> "aofack", rid |-> rids[j], ok |-> ok, f |-> 0]]
MarkFailed(G, R) == [r \in DOMAIN G |-> IF r \in R THEN [G[r] EXCEPT !.doomed = TRUE, !.wfail = TRUE] ELSE G[r]]
FlushEv(op, ok, n) == [op |-> op, id |-> n, lid |-> 0, ack |-> FALSE, dv |-> 0, to |-> 0, f |-> 0, rid |-> 0, ok |-> ok]

FlushRecords(ok) ==
    /\ s.fl = "idle"
    /\ s.wbuf # <<>>
    /\ s.dem = 0
    /\ ok => (s.recok \/ Heal)
    /\ ~ok => (s.recok => (s.nfail < MaxFail /\ s.cls \in {"fail", "mix"}))
    /\ LET acks == AckLocksIn(s, s.wbuf) IN
       s' = IF ok
            THEN \* entries on disk; the value buffer is still to be written.  Deviation: the acknowledgements go out here
                 [s EXCEPT !.wbuf = <<>>, !.disk = @ \cup SeqSet(s.wbuf), !.recok = TRUE,
                           !.fl = "mid", !.flq = s.wbuf, !.midsteps = 0,
                           !.flacks = IF AckAfterRecords THEN <<>> ELSE acks,
                           !.chan = IF AckAfterRecords THEN @ \o AckItems(acks, TRUE) ELSE @]
            ELSE \* first error branch: both buffers dropped, every pending ack request of the buffer answered "not written"
                 [s EXCEPT !.wbuf = <<>>, !.recok = FALSE,
                           !.nfail = IF s.recok THEN @ + 1 ELSE @,
                           !.chan = @ \o AckItems(acks, FALSE),
                           !.gh = MarkFailed(@, SeqSet(acks))]
    /\ hist' = Append(hist, FlushEv("flushrec", ok, 0))

\* ... then the value buffer to the value file (no write when no record of this flush carries data); second error branch:
\* the entries are in the record file, the values are not; then the acknowledgements
FlushValues(ok) ==
    /\ s.fl = "mid"
    /\ LET vals == WithVal(s, s.flq) IN
       /\ (vals = <<>>) => ok
       /\ ok => (vals = <<>> \/ s.valok \/ Heal)
       /\ ~ok => (s.valok => (s.nfail < MaxFail /\ s.cls \in {"fail", "mix"}))
       /\ s' = IF ok
               THEN [s EXCEPT !.vdisk = @ \cup SeqSet(vals), !.valok = IF vals = <<>> THEN @ ELSE TRUE,
                              !.fl = "idle", !.flq = <<>>, !.flacks = <<>>,
                              !.chan = @ \o AckItems(s.flacks, TRUE)]
               ELSE [s EXCEPT !.valok = FALSE, !.nfail = IF s.valok THEN @ + 1 ELSE @,
                              !.fl = "idle", !.flq = <<>>, !.flacks = <<>>,
                              !.chan = @ \o AckItems(s.flacks, FALSE),
                              \* the write of the records that carry data failed (the others are completely in the log)
                              !.gh = MarkFailed(@, SeqSet(AckLocksIn(s, vals)))]
    /\ hist' = Append(hist, FlushEv("flushval", ok, s.midsteps))

\* follower side: the record arrives, is replayed (locked, result res) and appended + flushed (aofed) in either order;
\* the second of the two sends the ack frame (ReplicationClient.HandleAcked).  The follower's flush is the same
\* AofFile.Flush: entry write (eok), then value write (vok, only when the record carries a value and the entry write
\* worked); the aof result is positive after BOTH (deviation AckAfterRecords: after the entry write).  `logged` is the
\* ghost "the record is completely in this follower's own log".
FAck(f, rid, lres, aok, lg) == [f |-> f, rid |-> rid, ok |-> (lres /\ aok), logged |-> lg]
FEv(op, f, rid, ok, n) == [op |-> op, id |-> n, lid |-> s.reqs[rid].lid, ack |-> FALSE, dv |-> 0, to |-> 0, f |-> f, rid |-> rid, ok |-> ok]

FollowerLocked(f, rid, lres) ==
    /\ <<f, rid>> \in s.nlf \/ (<<f, rid>> \in DOMAIN s.fst /\ s.fst[<<f, rid>>].locked = "no")
    /\ ~lres => (s.nneg < MaxNeg /\ s.cls \in {"neg", "mix"})
    /\ LET cur == IF <<f, rid>> \in DOMAIN s.fst THEN s.fst[<<f, rid>>] ELSE [locked |-> "no", aofed |-> "no", logged |-> FALSE]
           nxt == [cur EXCEPT !.locked = IF lres THEN "ok" ELSE "err"]
       IN s' = IF nxt.aofed # "no"
               THEN [s EXCEPT !.nlf = @ \ {<<f, rid>>}, !.nneg = IF lres THEN @ ELSE @ + 1,
                              !.fst = [x \in DOMAIN @ \ {<<f, rid>>} |-> @[x]],
                              !.nfl = @ \cup {FAck(f, rid, lres, nxt.aofed = "ok", nxt.logged)}]
               ELSE [s EXCEPT !.nlf = @ \ {<<f, rid>>}, !.nneg = IF lres THEN @ ELSE @ + 1,
                              !.fst = [x \in DOMAIN @ \cup {<<f, rid>>} |-> IF x = <<f, rid>> THEN nxt ELSE @[x]]]
    /\ hist' = Append(hist, FEv("frepl", f, rid, lres, 0))

FollowerAofed(f, rid, eok, vok) ==
    /\ <<f, rid>> \in s.nlf \/ (<<f, rid>> \in DOMAIN s.fst /\ s.fst[<<f, rid>>].aofed = "no")
    /\ ~vok => (eok /\ s.reqs[rid].hv)          \* the value write is attempted only after a good entry write, for a record with a value
    /\ ~(eok /\ vok) => (s.nneg < MaxNeg /\ s.cls \in {"neg", "mix"})
    /\ LET aok == IF AckAfterRecords THEN eok ELSE eok /\ vok
           cur == IF <<f, rid>> \in DOMAIN s.fst THEN s.fst[<<f, rid>>] ELSE [locked |-> "no", aofed |-> "no", logged |-> FALSE]
           nxt == [cur EXCEPT !.aofed = IF aok THEN "ok" ELSE "err", !.logged = eok /\ vok]
       IN s' = IF nxt.locked # "no"
               THEN [s EXCEPT !.nlf = @ \ {<<f, rid>>}, !.nneg = IF eok /\ vok THEN @ ELSE @ + 1,
                              !.fst = [x \in DOMAIN @ \ {<<f, rid>>} |-> @[x]],
                              !.nfl = @ \cup {FAck(f, rid, nxt.locked = "ok", aok, nxt.logged)}]
               ELSE [s EXCEPT !.nlf = @ \ {<<f, rid>>}, !.nneg = IF eok /\ vok THEN @ ELSE @ + 1,
                              !.fst = [x \in DOMAIN @ \cup {<<f, rid>>} |-> IF x = <<f, rid>> THEN nxt ELSE @[x]]]
    \* id: 0 = both writes worked, 1 = the entry write failed, 2 = the value write failed
    /\ hist' = Append(hist, FEv("faof", f, rid, eok /\ vok, IF ~eok THEN 1 ELSE IF ~vok THEN 2 ELSE 0))

\* FollowerSteps = 1: replay + flush + ack frame + RecvProcess as one step (frames lost by a cut = never sent)
FollowerBoth(f, rid, ok) ==
    /\ <<f, rid>> \in s.nlf
    /\ ~ok => (s.nneg < MaxNeg /\ s.cls \in {"neg", "mix"})
    /\ s' = [s EXCEPT !.nlf = @ \ {<<f, rid>>}, !.nneg = IF ok THEN @ ELSE @ + 1,
                      !.chan = Append(@, [t |-> "fack", rid |-> rid, ok |-> ok, f |-> f]),
                      !.gh[rid].negs = IF ok THEN @ ELSE @ \cup {f},
                      !.gh[rid].doomed = @ \/ (~ok /\ s.mode = "all" /\ s.reqs[rid].st = "pend")]
    /\ hist' = Append(hist, [op |-> "fack", id |-> 0, lid |-> s.reqs[rid].lid, ack |-> FALSE, dv |-> 0, to |-> 0, f |-> f, rid |-> rid, ok |-> ok])

\* ReplicationServer.RecvProcess -> Aof.loadLockAck: the ack frame is queued on the shard's channel
DeliverAck(m) ==
    /\ m \in s.nfl
    /\ s' = [s EXCEPT !.nfl = @ \ {m},
                      !.chan = Append(@, [t |-> "fack", rid |-> m.rid, ok |-> m.ok, f |-> m.f]),
                      !.gh[m.rid].negs = IF m.ok THEN @ ELSE @ \cup {m.f},
                      \* a required acknowledgement failed: in mode "all" every follower's ack is required
                      !.gh[m.rid].doomed = @ \/ (~m.ok /\ s.mode = "all" /\ s.reqs[m.rid].st = "pend")]
    /\ hist' = Append(hist, [op |-> "fack", id |-> 0, lid |-> s.reqs[m.rid].lid, ack |-> FALSE, dv |-> 0, to |-> 0, f |-> m.f, rid |-> m.rid, ok |-> m.ok])

\* the connection of follower f is cut: frames in flight are lost, removeServerChannel -> UpdateDBAckCount
Cut(f) ==
    /\ f \in s.up
    /\ s.ncut < MaxCut /\ s.cls \in {"cut", "mix"}
    /\ s' = [s EXCEPT !.up = @ \ {f}, !.ncut = @ + 1,
                      !.nlf = {x \in @ : x[1] # f},
                      !.fst = [x \in {y \in DOMAIN @ : y[1] # f} |-> @[x]],
                      !.nfl = {m \in @ : m.f # f}]
    /\ hist' = Append(hist, [op |-> "cut", id |-> 0, lid |-> 0, ack |-> FALSE, dv |-> 0, to |-> 0, f |-> f, rid |-> 0, ok |-> TRUE])

\* timers ---------------------------------------------------------------------
Due(S) == {rid \in DOMAIN S.reqs : S.reqs[rid].st \in {"pend", "wait"} /\ S.now > S.reqs[rid].dl}

InChan(S, rid) == \E j \in 1..Len(S.chan) : S.chan[j].t = "lock" /\ S.chan[j].rid = rid

FireTimeout(rid) ==
    /\ rid \in Due(s)
    \* modelling bound: the channel goroutine is not a whole ack-wait behind, i.e. a pending hold does not time out
    \* before its FILE item was handled (otherwise ProcessLeaderPushLock registers a Lock whose hold is gone and the
    \* eventual DoAckLock answers a second time with LOCKED_ERROR - a C03 matter, outside this model)
    /\ ~InChan(s, rid)
    /\ s' = IF s.reqs[rid].st = "wait"
            THEN WakePass(Reply([s EXCEPT !.W = SelectSeq(@, LAMBDA x : x # rid)], rid, TIMEOUT))
            ELSE \* doTimeOut of an ack-pending hold: hold removed, value recovered, UNLOCK record pushed, wake pass
                 LET i  == IdxOfRid(s.H, rid)
                     h  == s.H[i]
                     S1 == [s EXCEPT !.H = RemoveIdx(@, i),
                                     !.val = Restore(@, h.undo),
                                     !.gh[rid].doomed = TRUE,
                                     !.chan = IF s.role = "leader" THEN Append(@, [t |-> "unlock", rid |-> rid, ok |-> TRUE, f |-> 0]) ELSE @]
                 IN WakePass(Reply(S1, rid, TIMEOUT))
    /\ UNCHANGED hist

Tick ==
    /\ s.now < MaxNow
    /\ Due(s) = {}
    /\ s' = [s EXCEPT !.now = @ + 1]
    /\ hist' = Append(hist, [op |-> "tick", id |-> 0, lid |-> 0, ack |-> FALSE, dv |-> 0, to |-> 0, f |-> 0, rid |-> 0, ok |-> TRUE])

\* demotion (ArbiterManager.QuitLeader): SLock.updateState switches the role under the shard mutexes ...
Demote1 ==
    /\ AllowDemote /\ s.dem = 0 /\ s.cls \in {"dem", "mix"}
    /\ s' = [s EXCEPT !.role = "follower", !.dem = 1]
    /\ hist' = Append(hist, [op |-> "demote", id |-> 0, lid |-> 0, ack |-> FALSE, dv |-> 0, to |-> 0, f |-> 0, rid |-> 0, ok |-> TRUE])
\* ... waits for the channels and flushes the file (the flush acks now take the follower path) ...
Demote2 ==
    /\ s.dem = 1 /\ s.chan = <<>>
    /\ LET acks == AckLocksIn(s, s.wbuf)
           vals == WithVal(s, s.wbuf)
           allok == s.recok /\ (vals = <<>> \/ s.valok)
       IN s' = [s EXCEPT !.dem = 2, !.wbuf = <<>>, !.chan = @ \o AckItems(acks, allok),
                         !.disk = IF s.recok THEN @ \cup SeqSet(s.wbuf) ELSE @,
                         !.vdisk = IF s.recok /\ s.valok THEN @ \cup SeqSet(vals) ELSE @]
    /\ UNCHANGED hist
\* ... then ReplicationAckDB.SwitchToFollower fails every registered request
RECURSIVE FailAll(_, _)
FailAll(S, R) == IF R = {} THEN S ELSE LET r == Min(R) IN FailAll(DoAck(S, r, FALSE), R \ {r})
Demote3 ==
    /\ s.dem = 2 /\ s.chan = <<>>
    /\ s' = [FailAll(s, s.tbl) EXCEPT !.tbl = {}, !.dem = 3]
    /\ UNCHANGED hist

Init ==
    /\ \E md \in Modes, n \in NFs, c \in Classes, U \in SUBSET Fols, v0 \in InitVals :
       /\ Cardinality(U) = n
       /\ s = [mode |-> md, nf |-> n, cls |-> c, H |-> <<>>, W |-> <<>>, waited |-> FALSE, val |-> v0, cval |-> v0, val0 |-> v0, reqs |-> <<>>, gh |-> <<>>, out |-> <<>>,
            chan |-> <<>>, wbuf |-> <<>>, disk |-> {}, vdisk |-> {}, recok |-> TRUE, valok |-> TRUE,
            fl |-> "idle", flq |-> <<>>, flacks |-> <<>>, midsteps |-> 0, tbl |-> {}, up |-> U, up0 |-> U,
            nlf |-> {}, fst |-> [x \in {} |-> 0], nfl |-> {}, role |-> "leader", dem |-> 0, now |-> 0,
            nneg |-> 0, nfail |-> 0, ncut |-> 0]
    /\ hist = <<>>

\* Partial-order reduction: while the channel goroutine has work, only it and client requests move (flushes, follower
\* events, cuts, timers and demotion steps commute with the handling of an item that is already queued, except for
\* the timeout-before-registration lag that FireTimeout excludes anyway).  The clock only moves while something can time out.
\* Between the two writes of a flush only the channel goroutine moves (client requests and environment events that
\* arrive in that window are ordered after the flush: modelling bound).
Busy == s.chan # <<>>
Next ==
    \/ /\ s.fl = "mid"
       /\ \/ ChanStep
          \/ \E ok \in BOOLEAN : FlushValues(ok)
    \/ /\ s.fl = "idle"
       /\ \/ \E lid \in Lids, dv \in Vals, to \in AckTimeouts : LockReq(lid, TRUE, dv, to)
          \/ \E lid \in Lids, dv \in PlainVals, to \in Timeouts : LockReq(lid, FALSE, dv, to)
          \/ \E lid \in Lids : UnlockReq(lid)
          \/ ChanStep
          \/ /\ ~Busy
             /\ \/ \E ok \in BOOLEAN : FlushRecords(ok)
                \/ /\ FollowerSteps = 2
                   /\ \/ \E f \in Followers, rid \in DOMAIN s.reqs, b \in BOOLEAN : FollowerLocked(f, rid, b)
                      \/ \E f \in Followers, rid \in DOMAIN s.reqs, eok \in BOOLEAN, vok \in BOOLEAN : FollowerAofed(f, rid, eok, vok)
                      \/ \E m \in s.nfl : DeliverAck(m)
                \/ /\ FollowerSteps = 1
                   /\ \E f \in Followers, rid \in 1..MaxReq, b \in BOOLEAN : FollowerBoth(f, rid, b)
                \/ \E f \in Followers : Cut(f)
                \/ \E rid \in 1..MaxReq : FireTimeout(rid)
                \/ /\ \E rid \in DOMAIN s.reqs : s.reqs[rid].st \in {"pend", "wait"}
                   /\ Tick
                \/ Demote1 \/ Demote2 \/ Demote3

Spec == Init /\ [][Next]_vars

view == s

-----------------------------------------------------------------------------
\* the property on the model

AckSucc == {j \in 1..Len(s.out) : s.out[j].ack /\ s.out[j].res = SUCCED}

\* C11 (1): SUCCED only after the record is in the leader's own log (entry AND value frame, see Written) and the
\* configured number of followers acked
AckSafety == \A j \in AckSucc : s.out[j].ondisk /\ Cardinality(s.out[j].acks) >= s.out[j].req

\* the same, setting aside exactly the configurations in which the shared counter of finding A10 can be completed by
\* follower acks alone (Need(n) <= n, i.e. majority mode with two or more followers)
A10Cfg(o) == ~A10Fixed /\ s.mode = "maj" /\ o.nfpush >= 2
AckSafetyExceptA10 ==
    \A j \in AckSucc : A10Cfg(s.out[j]) \/ (s.out[j].ondisk /\ Cardinality(s.out[j].acks) >= s.out[j].req)
\* ... and even there the quorum of NODES is met (leader counted as a node only when its record is on disk)
NodeQuorum ==
    \A j \in AckSucc : Cardinality(s.out[j].acks) + (IF s.out[j].ondisk THEN 1 ELSE 0) >= s.out[j].req + 1

\* C11 (2): while pending, every request naming that LockId is answered LOCK_ACK_WAITING
PendingAnswered == \A j \in 1..Len(s.out) : (s.out[j].lidpend /\ s.out[j].ldr) => s.out[j].res = ACK_WAITING

\* C11 (3): a failed write / required ack or a timeout is never followed by SUCCED; nor is a completed demotion
\* (between SLock.updateState and ReplicationAckDB.SwitchToFollower a late follower ack can still complete a
\* quorum - ProcessLeaderAcked has no role test - the record then IS on the leader's disk and on the quorum)
NoSuccessAfterFailure == \A j \in AckSucc : (~s.out[j].doomed \/ A10Cfg(s.out[j])) /\ s.out[j].dem < 3
\* ... the requester gets an error, the hold is gone, the value is the one before the grant, the queue is served
ErrorCleansUp ==
    \A rid \in DOMAIN s.reqs :
        (s.reqs[rid].ack /\ s.reqs[rid].st = "done" /\ \E j \in 1..Len(s.out) : s.out[j].rid = rid /\ s.out[j].res # SUCCED)
            => IdxOfRid(s.H, rid) = 0
\* C11 (1), the two halves of "written to the leader's own log" apart
EntryInLog == \A j \in AckSucc : s.out[j].entry
ValueInLog == \A j \in AckSucc : s.out[j].hv => s.out[j].value
\* C11 (3) for the leader's write: once the channel has handled the outcome of a failed write (entry write or value
\* write of a record that carries data) the requester has an error, never SUCCED, and the hold is gone
FailedWriteAnswered ==
    (s.chan = <<>> /\ s.fl = "idle" /\ s.dem \in {0, 3}) =>
        \A rid \in DOMAIN s.reqs : s.gh[rid].wfail =>
            /\ s.reqs[rid].st = "done"
            /\ IdxOfRid(s.H, rid) = 0
            /\ \A j \in 1..Len(s.out) : s.out[j].rid = rid => s.out[j].res # SUCCED
\* the follower half of the handshake: a positive acknowledgement frame only for a record that is replayed and
\* completely (entry and value frame) in that follower's own log
FollowerAckHonest == \A m \in s.nfl : m.ok => m.logged
ValueInv == (\A i \in 1..Len(s.H) : s.H[i].ackc = NOACK \/ s.H[i].dv = 0) => Obs(s.val) = Obs(s.cval)
\* C11 (3), the rollback in the property's terms: when a pending request is answered with an error (failed write, negative
\* ack, timeout, demotion) the key's value is, at that moment, the value before its grant - for EVERY prior state of the key,
\* "no value at all" (vbefore = 0) and "value object present but unset" (vbefore = 1) included - and whoever is served next
\* (a queued request granted by the wake pass) meets the committed value, not the one the failed request wrote
ErrorsOfPending == {j \in 1..Len(s.out) : s.out[j].ack /\ s.out[j].waspend /\ s.out[j].res # SUCCED}
RollbackInv == \A j \in ErrorsOfPending : Obs(s.out[j].val) = Obs(s.out[j].vbefore)
RollbackToNoValue == \A j \in ErrorsOfPending : s.out[j].vbefore \in {0, 1} => Obs(s.out[j].val) = 0
ServedWithCommitted == \A j \in 1..Len(s.out) : (~s.out[j].ack /\ s.out[j].cmd = "L" /\ s.out[j].res = SUCCED) => Obs(s.out[j].vbefore) = Obs(s.out[j].cbefore)
NoLostWakeup == (s.H = <<>>) => LiveWaiters(s) = <<>>
OneReply == \A rid \in DOMAIN s.reqs : s.reqs[rid].nrep <= 1
PendShape == \A i \in 1..Len(s.H) : (s.H[i].ackc # NOACK) <=> (s.reqs[s.H[i].rid].st = "pend")
TableShape == \A rid \in s.tbl : s.reqs[rid].ack
Exclusive == Len(s.H) <= 1

-----------------------------------------------------------------------------
\* behaviour export for the replay on the real code (simulation mode)
Quiet == s.chan = <<>> /\ s.nfl = {} /\ s.fl = "idle"
Export == ToJson([mode |-> s.mode, up0 |-> s.up0, val0 |-> s.val0, hist |-> hist])
ExportAt == (Len(s.reqs) = MaxReq /\ Quiet /\ Len(hist) >= 4) => PrintT("BEHAVIOUR " \o Export)

\* used with A10Fixed = FALSE to obtain the counterexample of finding A10 as a replay script
AckSafetyCx == AckSafety \/ (PrintT("CX " \o Export) /\ FALSE)
\* used with AckAfterRecords = TRUE (deviation C11d): the two ways the early acknowledgement shows
ValueInLogCx == ValueInLog \/ (PrintT("CX " \o Export) /\ FALSE)
\* used with UndoLostOnNone = TRUE (deviation C11e)
RollbackCx == RollbackInv \/ (PrintT("CX " \o Export) /\ FALSE)
ServedCx == ServedWithCommitted \/ (PrintT("CX " \o Export) /\ FALSE)
FollowerAckCx == FollowerAckHonest \/ (PrintT("CX " \o Export) /\ FALSE)
FailedWriteCx == NoSuccessAfterFailure \/ (PrintT("CX " \o Export) /\ FALSE)

=============================================================================

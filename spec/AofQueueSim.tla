---------------------------- MODULE AofQueueSim ----------------------------
(***************************************************************************)
(* Random-walk front end of AofQueue for `tlc -simulate`: bursts of value  *)
(* operations on few keys with the log writer held back, then Drain.       *)
(* Every printed `hist` is a behaviour of AofQueue!Spec; engine F replays  *)
(* it on the real code (consecutive operations = one burst step).          *)
(***************************************************************************)
EXTENDS AofQueue

Pick(S) == RandomElement(S)

SimOps ==
    \/ /\ turn = "set"    /\ Set(Pick(Keys), Pick(Syms))
    \/ /\ turn \in {"append", "append2", "append3"} /\ AppendOp(Pick(Keys), Pick(Syms))
    \/ /\ turn = "drain"  /\ Drain

SimStep == SimOps \/ UNCHANGED <<heap, cur, queue, file, wants, nops, hist>>     \* the drawn operation was not enabled: draw again
SimNext == SimStep /\ turn' = Pick(Turns)
SimSpec == Init /\ [][SimNext]_vars

SimExport == (nops = MaxOps /\ queue = <<>>) => PrintT("BEHAVIOUR " \o ToJson(hist))
=============================================================================

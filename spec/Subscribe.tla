------------------------------ MODULE Subscribe ------------------------------
(***************************************************************************)
(* The SUBSCRIBE / PUBLISH subsystem of slock (server/subscribe.go, the    *)
(* Push call sites of server/db.go, protocol.SubscribeCommand /            *)
(* SubscribeResultCommand, the COMMAND_PUBLISH frame).  Growth of the      *)
(* specification beyond the 20 listed properties: there is no property     *)
(* statement, so this header writes down what the subsystem promises as    *)
(* far as the code and the README show it.                                 *)
(*                                                                         *)
(* WHAT THE CODE PROMISES (README: two flag lines only - "0x0020           *)
(* push_subscribe push timeout subscription message on timeout" and "Push  *)
(* expired subscription information when expired")                         *)
(*  - Active only with Config.SubscribeEnabled (--subscribe_enabled); else *)
(*    a SUBSCRIBE command is answered RESULT_ERROR (protocol.go:1505).     *)
(*  - SUBSCRIBE command: ClientId, SubscribeId (0 = new), SubscribeType    *)
(*    (0 add a mask / update, 1 remove a mask), LockKeyMask (16 bytes),    *)
(*    Expried (seconds the subscriber outlives its connection), MaxSize    *)
(*    (bytes buffered, 0 = unlimited).  Result: RESULT_SUCCED + the        *)
(*    subscriber id; RESULT_ERROR when the id exists under another         *)
(*    ClientId.  An unknown id (also with type 1) creates a NEW subscriber.*)
(*  - Events: the lock engine pushes, under the shard mutex, into the      *)
(*    SubscribeChannel of the key's shard (db.go):                         *)
(*      TIMEOUT  a queued request times out (doTimeOut, 1746/1757), a lock *)
(*               is refused with Timeout = 0 (2319), unlock-to-wait with   *)
(*               Timeout = 0 (2791)      - if TimeoutFlag & 0x20           *)
(*      EXPRIED  a hold expires (doExpried, 1938), a lock is granted with  *)
(*               Expried = 0 directly (2268) or from the queue (2692)      *)
(*                                       - if ExpriedFlag & 0x20           *)
(*    only on the LEADER and only while at least one subscriber exists     *)
(*    (SubscribeChannel.Push 838-846); every event gets the next global    *)
(*    publish id.  One goroutine per channel takes events FIFO and offers  *)
(*    each to every registered subscriber (handle 954).                    *)
(*  - Matching (Subscriber.Push 593-598): key and mask are read as two     *)
(*    little-endian 64-bit halves; an event matches when SOME bit is       *)
(*    common to a mask and the key in either half (so an all-zero key      *)
(*    never matches, not even the all-ones mask of Client.Subscribe()).    *)
(*  - Delivery: the 64-byte PUBLISH frame (+ the lock's data frame) is     *)
(*    appended to the subscriber's buffer (4096-byte blocks); one writer   *)
(*    goroutine per subscriber writes block contents to the connection:    *)
(*    per channel in push order, each event at most once.  RequestId of    *)
(*    the frame = publish id (8) | arbiter version (4) | subscriber id (4).*)
(*  - Overflow (appendBufferData 685-714): a NEW block is refused when     *)
(*    MaxSize > 0 and allocated-bytes >= MaxSize; the subscriber is then   *)
(*    CLOSED (and its connection with it).  Blocks are reused only when    *)
(*    completely drained, so the rule counts allocated blocks, not the     *)
(*    backlog (constant BlockFrames; code 4096/64).                        *)
(*  - Unsubscribe (type 1) removes one mask; removing the last one closes  *)
(*    the subscriber AND THE CONNECTION it is attached to (Close 419-435). *)
(*  - Connection lost (Server.handle ends -> closedWaiter): Expried = 0:   *)
(*    subscriber closed; else it is kept detached, buffers on, and a       *)
(*    SUBSCRIBE with its id and ClientId from another connection           *)
(*    re-attaches it (buffer flushed there); closed when detached for more *)
(*    than Expried seconds (checked by a timer of min(120, Expried) s and  *)
(*    on every push while detached).                                       *)
(*  - Follower side (SubscribeClient 113-388, ChangeLeader 1264): a        *)
(*    follower with local subscribers subscribes to the leader with the    *)
(*    all-ones mask and re-publishes what it receives into its own         *)
(*    channels, chosen by publishId % shards (ClientPush 883).  Modelled   *)
(*    here only as an event source (action EnginePush); per-leader-channel *)
(*    order is NOT kept by that distribution (deviation, not bound).       *)
(*                                                                         *)
(* Implementation-shaped: one action per mutex section / channel operation *)
(* of the three kinds of goroutines                                        *)
(*   channel goroutine    SubscribeChannel.Run 921-952 (queueGlock, the    *)
(*                        queuePulled / queueWaiter wake protocol,         *)
(*                        channelActiveCount + flush waiter)               *)
(*   subscriber goroutine Subscriber.Run 460-501 (pulled / pullWaiter,     *)
(*                        timer, closedWaiter; processLock 503-552 with    *)
(*                        the write outside glock; processCheck 554-571;   *)
(*                        processServerProcotolClose 573-586)              *)
(*   handler goroutine    Server.handle -> handleSubscribeCommand          *)
(*                        1120-1170 (H1 lookup/create under manager glock, *)
(*                        H2 = Subscriber.Update 639-683, then the result) *)
(* plus Close() goroutines (419-458), the lock engine (EnginePush), the    *)
(* client / network (SendSub, Gate, Permit, CliClose), the clock and the   *)
(* shutdown (LockDB.Close -> CloseSubscribeChannel 1045, SubscribeManager  *)
(* .Close 1003).                                                           *)
(*                                                                         *)
(* NAMED DEVIATIONS (constant FALSE = what the code does; TRUE = repaired  *)
(* variant under which the stronger property holds):                       *)
(*   D1Fixed  a write error closes the WHOLE subscriber (processLock 519-  *)
(*            526), whatever connection it is attached to by then and      *)
(*            whatever its Expried: (a) a subscriber re-attached to a new  *)
(*            connection dies - and the NEW connection is closed - when    *)
(*            the write to the OLD one fails; (b) a connection lost while  *)
(*            a write is pending ignores the grace period.                 *)
(*   D2Fixed  processServerProcotolClose runs outside glock and detaches   *)
(*            whatever connection is attached NOW (489-495): an Update     *)
(*            that re-attaches between the wake-up and the call is undone. *)
(*   D3Fixed  Update on a subscriber that Close() has already removed is   *)
(*            answered RESULT_SUCCED (lookup and Update are two sections). *)
(*   D4Fixed  LOST WAKE-UP: Push signals the goroutine only while `pulled`  *)
(*            is TRUE, and the goroutine sets it at the top of its loop    *)
(*            (464-466) without looking at the buffer: a frame appended    *)
(*            between the end of a branch (481/488) and that point - or    *)
(*            before the goroutine has started at all - is not signalled   *)
(*            and stays in the buffer until the next push / update.        *)
(*            Observed on the real code (storm histories of the check).    *)
(*   D5Fixed  the timer branch of Run drains the wake token and runs only  *)
(*            processCheck (482-488): frames appended just before stay in  *)
(*            the buffer until the next push / update.                     *)
(*   D7       (no switch; invariant FlushedMeansEmpty) WaitFlushSubscribe- *)
(*            Channel returns as soon as no channel goroutine is active,   *)
(*            also when one has been signalled but has not started yet:    *)
(*            events can still be queued when the quit-leader flush ends.  *)
(*   D6       (no switch; invariant NoD6) the timer / closedWaiter         *)
(*            branches leave `pulled` TRUE; a Push / Update right after    *)
(*            them sends a token, the loop sets pulled again without       *)
(*            having received it, and the next Push / Update sends into    *)
(*            the full capacity-1 channel: it blocks inside glock.  If the *)
(*            goroutine then takes the timer / closedWaiter branch (which  *)
(*            lock glock first) both wait for each other for ever.         *)
(***************************************************************************)
EXTENDS Integers, Sequences, FiniteSets, TLC

CONSTANTS Conns,        \* connection ids, each one lifetime
          Cids,         \* client ids
          Shards,       \* publish channels (shards of one database)
          Keys,         \* lock keys: h + 16 * l, two 4-bit halves (the code: two 64-bit halves)
          Masks,        \* masks, same encoding
          MaxSubs,      \* subscriber objects ever created
          MaxCmds,      \* SUBSCRIBE commands sent
          MaxEvents,    \* events pushed
          MaxTicks,     \* clock steps
          TickLen,      \* seconds per clock step
          MaxTimers,    \* timer wake-ups of subscriber goroutines
          MaxGateOps,   \* gate / permit operations
          BlockFrames,  \* frames per buffer block (code: 64)
          MaxSizes,     \* MaxSize values, in frames (0 = unlimited)
          Expiries,     \* Expried values (seconds)
          Typs,         \* SubscribeType values clients send (0 add / update, 1 remove)
          WithShutdown, \* include LockDB.Close + SubscribeManager.Close
          Eager,        \* TRUE: client / engine steps only at rest (driver atomicity)
          D1Fixed, D2Fixed, D3Fixed, D4Fixed, D5Fixed

VARIABLES st, hist
vars == <<st, hist>>

Sids == 1..MaxSubs
Pids == 1..MaxEvents

\* bitwise AND on 0..15
Bit(x, i) == (x \div (2 ^ i)) % 2
And(a, b) == Bit(a, 0) * Bit(b, 0) + 2 * Bit(a, 1) * Bit(b, 1) + 4 * Bit(a, 2) * Bit(b, 2) + 8 * Bit(a, 3) * Bit(b, 3)
\* keys and masks are numbers h + 16 * l: two 4-bit halves standing for the two 64-bit halves of the code
Match(m, k) == And(m % 16, k % 16) # 0 \/ And(m \div 16, k \div 16) # 0

SeqToSet(s) == {s[i] : i \in 1..Len(s)}
RECURSIVE SetToSortedSeq(_)
SetToSortedSeq(S) == IF S = {} THEN <<>> ELSE LET x == CHOOSE y \in S : \A z \in S : y <= z IN <<x>> \o SetToSortedSeq(S \ {x})

-----------------------------------------------------------------------------
\* records

FreeSub == [st |-> "free", cid |-> 0, masks |-> {}, sp |-> 0, watch |-> 0, lostAt |-> -1, ex |-> 0, max |-> 0,
            buf |-> <<>>, nb |-> 0, hr |-> 0, tw |-> 0, closed |-> FALSE, pulled |-> FALSE, token |-> 0,
            pc |-> "none", wk |-> 0, wconn |-> 0, wsel |-> 0, nclose |-> 0, closer |-> "none", done |-> FALSE, blk |-> FALSE]

\* NewSubscriber (410-417): attached to the commanding connection, goroutine started
FreshSub(cid, c) == [FreeSub EXCEPT !.st = "live", !.cid = cid, !.sp = c, !.watch = c, !.pc = "top"]

FreeConn == [st |-> "open", cli |-> FALSE, srv |-> FALSE, wclosed |-> FALSE, gated |-> FALSE, permits |-> 0, recv |-> <<>>]
IdleH == [pc |-> "idle", ok |-> TRUE, sid |-> 0, typ |-> 0, m |-> 0, ex |-> 0, max |-> 0]
FreshChan == [q |-> <<>>, pulled |-> FALSE, token |-> 0, closed |-> FALSE, pc |-> "pull", cur |-> 0, todo |-> <<>>]

Init0 ==
    /\ st = [ subs  |-> [s \in Sids |-> FreeSub],
              chans |-> [sh \in Shards |-> FreshChan],
              conns |-> [c \in Conns |-> FreeConn],
              hs    |-> [c \in Conns |-> IdleH],
              mgr   |-> [reg |-> {}, nextSid |-> 1, nextPid |-> 1, active |-> Cardinality(Shards), closed |-> FALSE,
                         ncmd |-> 0, nticks |-> 0, ntimers |-> 0, ngate |-> 0, flushWake |-> FALSE],
              now   |-> 0,
              due   |-> {},       \* subscribers whose timer may fire (Eager: only after a clock tick)
              sd    |-> [pc |-> "none", todo |-> <<>>, cur |-> 0],
              \* ghost (what an observer of the wire can know)
              gh    |-> [ may   |-> [s \in Sids |-> {}],    \* masks possibly active: command received .. unsubscribe applied
                          acked |-> [s \in Sids |-> {}],    \* masks certainly active: subscribe applied .. unsubscribe received
                          owed  |-> [s \in Sids |-> {}],    \* events the subscriber must still get (or hold in its buffer)
                          ev    |-> [p \in Pids |-> [key |-> 0, sh |-> 0, may |-> {}]],
                          bad   |-> {} ] ]                  \* anomalies recorded by the actions themselves
    /\ hist = <<>>

-----------------------------------------------------------------------------
\* helpers on one subscriber

Dead(S, c) == c # 0 /\ (S.conns[c].cli \/ S.conns[c].srv)
Writable(S, c) == c # 0 /\ ~Dead(S, c) /\ (~S.conns[c].gated \/ S.conns[c].permits > 0)
UsePermit(S, c) == IF S.conns[c].gated THEN [S EXCEPT !.conns[c].permits = @ - 1] ELSE S

\* pullWaiter <- struct{}{} guarded by pulled (629-632, 648-651).  The channel has capacity 1: a send that finds the
\* token of an earlier send still there blocks INSIDE glock until the goroutine receives (deviation D6; the model
\* lets the behaviour go on as if the receive came first and records the fact in `blk`)
Signal(sub) == IF sub.pulled THEN [sub EXCEPT !.token = IF @ = 0 THEN 1 ELSE @, !.blk = @ \/ (sub.token # 0), !.pulled = FALSE] ELSE sub

NeedBlock(sub) == sub.nb = 0 \/ sub.tw >= BlockFrames
Full(sub) == NeedBlock(sub) /\ sub.max > 0 /\ sub.nb * BlockFrames >= sub.max
AppendFrame(sub, p) ==
    LET s1 == IF NeedBlock(sub) THEN [sub EXCEPT !.nb = @ + 1, !.tw = 0, !.hr = IF sub.nb = 0 THEN 0 ELSE @] ELSE sub
    IN [s1 EXCEPT !.buf = Append(@, p), !.tw = @ + 1]
HeadAvail(sub) == IF sub.nb = 0 THEN 0 ELSE IF sub.nb = 1 THEN sub.tw - sub.hr ELSE BlockFrames - sub.hr
\* 537-550
House(sub) == IF sub.nb = 1 /\ sub.hr = sub.tw THEN [sub EXCEPT !.hr = 0, !.tw = 0]
              ELSE IF sub.hr >= BlockFrames THEN [sub EXCEPT !.nb = @ - 1, !.hr = 0]
              ELSE sub

\* processServerProcotolClose (573-586)
Psc(sub, now) == IF sub.sp = 0 THEN sub
                 ELSE [sub EXCEPT !.sp = 0, !.lostAt = now, !.watch = 0, !.nclose = IF sub.ex = 0 THEN @ + 1 ELSE @]
\* processCheck (554-571)
PCheck(S, sub) ==
    LET s1 == IF sub.sp # 0 /\ S.conns[sub.sp].srv THEN Psc(sub, S.now) ELSE sub
    IN IF s1.closed THEN s1
       ELSE IF s1.lostAt # -1 /\ S.now - s1.lostAt > s1.ex THEN [s1 EXCEPT !.nclose = @ + 1] ELSE s1

Take(sub) == [sub EXCEPT !.token = IF @ = 1 THEN 0 ELSE @]      \* receive from pullWaiter (2 = closed channel: stays readable)

\* Subscriber.Push (588-637), one event offered by a channel goroutine
PushTo(sub, p, key) ==
    IF sub.closed \/ ~\E m \in sub.masks : Match(m, key) THEN sub
    ELSE IF Full(sub) THEN [sub EXCEPT !.nclose = @ + 1]
    ELSE Signal(AppendFrame(sub, p))

-----------------------------------------------------------------------------
\* channel goroutine (SubscribeChannel.Run)

ChPull(sh) ==
    LET C == st.chans[sh] IN
    /\ C.pc = "pull"
    /\ st' = IF C.q # <<>>
             THEN [st EXCEPT !.chans[sh].cur = Head(C.q), !.chans[sh].q = Tail(C.q), !.chans[sh].pc = "handle",
                             !.chans[sh].todo = SetToSortedSeq(st.mgr.reg)]       \* fastSubscribers as of now
             ELSE [st EXCEPT !.chans[sh].pulled = TRUE, !.chans[sh].pc = "idle"]
    /\ UNCHANGED hist

ChHandleOne(sh) ==
    LET C == st.chans[sh] IN
    /\ C.pc = "handle"
    /\ st' = IF C.todo = <<>> THEN [st EXCEPT !.chans[sh].pc = "pull", !.chans[sh].cur = 0]
             ELSE LET s == Head(C.todo)
                      was == st.subs[s]
                      now1 == PushTo(was, C.cur, st.gh.ev[C.cur].key)
                  IN [st EXCEPT !.subs[s] = now1, !.chans[sh].todo = Tail(C.todo),
                                \* refused as full: whatever it was owed is gone with it
                                !.gh.owed[s] = IF now1.nclose > was.nclose THEN {} ELSE @]
    /\ UNCHANGED hist

\* waitLockSubscribeChannel (1074-1086)
ChIdle(sh) ==
    /\ st.chans[sh].pc = "idle"
    /\ st' = [st EXCEPT !.chans[sh].pc = "chk", !.mgr.active = @ - 1,
                        !.mgr.flushWake = IF st.mgr.active = 1 THEN TRUE ELSE @]
    /\ UNCHANGED hist

ChChk(sh) ==
    /\ st.chans[sh].pc = "chk"
    /\ st' = IF st.chans[sh].closed THEN [st EXCEPT !.chans[sh].pc = "end", !.chans[sh].pulled = FALSE]
             ELSE [st EXCEPT !.chans[sh].pc = "wait"]
    /\ UNCHANGED hist

ChWake(sh) ==
    /\ st.chans[sh].pc = "wait" /\ st.chans[sh].token = 1
    /\ st' = [st EXCEPT !.chans[sh].token = 0, !.chans[sh].pc = "pull", !.mgr.active = @ + 1]
    /\ UNCHANGED hist

ChanStep == \E sh \in Shards : ChPull(sh) \/ ChHandleOne(sh) \/ ChIdle(sh) \/ ChChk(sh) \/ ChWake(sh)

-----------------------------------------------------------------------------
\* subscriber goroutine (Subscriber.Run)

RunTop(s) ==
    LET u == st.subs[s] IN
    /\ u.st = "live" /\ u.pc = "top"
    /\ st' = IF u.closed THEN [st EXCEPT !.subs[s].pc = "exit"]
             ELSE IF D4Fixed /\ HeadAvail(u) > 0 /\ u.sp # 0 /\ ~Dead(st, u.sp) THEN [st EXCEPT !.subs[s].pc = "pl"]     \* repaired: look at the buffer first
             ELSE [st EXCEPT !.subs[s].pulled = TRUE, !.subs[s].pc = "sel"]
    /\ UNCHANGED hist

RunSelTok(s) ==
    LET u == st.subs[s] IN
    /\ u.st = "live" /\ u.pc = "sel" /\ u.token \in {1, 2}
    /\ st' = IF u.sp = 0 THEN [st EXCEPT !.subs[s] = [PCheck(st, Take(u)) EXCEPT !.pc = "top"]]
             ELSE [st EXCEPT !.subs[s] = [Take(u) EXCEPT !.pc = "pl"]]
    /\ UNCHANGED hist

\* timer.C (482-488): drains the token when one is there, then only processCheck
RunSelTimer(s) ==
    LET u == st.subs[s] IN
    /\ u.st = "live" /\ u.pc = "sel" /\ s \in st.due /\ st.mgr.ntimers < MaxTimers
    /\ (~u.pulled => u.token \in {1, 2})          \* else it would block inside glock: invariant TimerNeverBlocks
    /\ LET had == ~u.pulled
           u1  == IF had THEN Take(u) ELSE u
           u2  == PCheck(st, u1)
       IN st' = [st EXCEPT !.subs[s] = [u2 EXCEPT !.pc = IF D5Fixed /\ had /\ u2.sp # 0 THEN "pl" ELSE "top"],
                           !.due = @ \ {s}, !.mgr.ntimers = @ + 1]
    /\ UNCHANGED hist

\* <-serverProtocolClosedWaiter (489-495), first half (under glock)
RunSelCw(s) ==
    LET u == st.subs[s] IN
    /\ u.st = "live" /\ u.pc = "sel" /\ u.watch # 0 /\ st.conns[u.watch].wclosed
    /\ (~u.pulled => u.token \in {1, 2})
    /\ st' = [st EXCEPT !.subs[s] = [(IF ~u.pulled THEN Take(u) ELSE u) EXCEPT !.pc = "psc", !.wsel = u.watch]]
    /\ UNCHANGED hist

\* second half, outside glock
RunPsc(s) ==
    LET u == st.subs[s] IN
    /\ u.st = "live" /\ u.pc = "psc"
    /\ st' = [st EXCEPT !.subs[s] = [(IF D2Fixed /\ u.sp # u.wsel THEN u ELSE Psc(u, st.now)) EXCEPT !.pc = "top"]]
    /\ UNCHANGED hist

\* processLock loop head (504-516), glock held
RunPl(s) ==
    LET u == st.subs[s] IN
    /\ u.st = "live" /\ u.pc = "pl"
    /\ st' = IF HeadAvail(u) > 0 /\ u.sp # 0
             THEN [st EXCEPT !.subs[s].pc = "wr", !.subs[s].wconn = u.sp, !.subs[s].wk = HeadAvail(u)]
             ELSE [st EXCEPT !.subs[s].pc = "top"]
    /\ UNCHANGED hist

\* stream.Write outside glock (517-535)
RunWrite(s) ==
    LET u == st.subs[s]
        c == u.wconn IN
    /\ u.st = "live" /\ u.pc = "wr"
    /\ \/ /\ Dead(st, c)
          /\ st' = IF ~D1Fixed
                   THEN [st EXCEPT !.subs[s].pc = "top", !.subs[s].nclose = @ + 1, !.gh.owed[s] = {},
                                   !.gh.bad = IF u.sp # c /\ u.sp # 0 THEN @ \cup {<<"reattached-killed-by-old-write-error", s>>}
                                              ELSE IF u.ex > 0 THEN @ \cup {<<"grace-period-ignored", s>>} ELSE @]
                   ELSE [st EXCEPT !.subs[s] = [(IF u.sp = c THEN Psc(u, st.now) ELSE u) EXCEPT !.pc = "top"]]
       \/ /\ Writable(st, c)
          /\ LET frames == [i \in 1..u.wk |-> [t |-> "pub", sid |-> s, pid |-> u.buf[i]]]
                 u1 == [u EXCEPT !.buf = SubSeq(@, u.wk + 1, Len(@)), !.hr = @ + u.wk]
                 more == HeadAvail(u1)
                 u2 == IF more > 0 THEN [u1 EXCEPT !.wk = more] ELSE [House(u1) EXCEPT !.pc = "pl", !.wk = 0]
                 S1 == UsePermit(st, c)
             IN st' = [S1 EXCEPT !.subs[s] = u2, !.conns[c].recv = @ \o frames]
    /\ UNCHANGED hist

RunExit(s) ==
    /\ st.subs[s].st = "live" /\ st.subs[s].pc = "exit"
    /\ st' = [st EXCEPT !.subs[s].pc = "end", !.subs[s].sp = 0, !.subs[s].done = TRUE]
    /\ UNCHANGED hist

\* Subscriber.Close (419-441), up to the wait for the goroutine
CloseBody(S, s) ==
    LET u == S.subs[s] IN
    IF u.closed THEN S
    ELSE LET S1 == IF u.sp # 0 THEN [S EXCEPT !.conns[u.sp].srv = TRUE] ELSE S
         IN [S1 EXCEPT !.subs[s] = [u EXCEPT !.closed = TRUE, !.sp = 0, !.closer = "wait",
                                            !.token = IF u.pulled THEN 2 ELSE @, !.pulled = FALSE],
                       !.mgr.reg = @ \ {s}, !.gh.owed[s] = {}, !.gh.acked[s] = {}]

CloseStart(s) ==
    /\ st.subs[s].st = "live" /\ st.subs[s].nclose > 0
    /\ st' = CloseBody([st EXCEPT !.subs[s].nclose = @ - 1], s)
    /\ UNCHANGED hist

\* 443-457: <-closedWaiter, buffers freed
CloseFinish(s) ==
    /\ st.subs[s].st = "live" /\ st.subs[s].closer = "wait" /\ st.subs[s].done
    /\ st' = [st EXCEPT !.subs[s].closer = "done", !.subs[s].buf = <<>>, !.subs[s].nb = 0, !.subs[s].hr = 0, !.subs[s].tw = 0]
    /\ UNCHANGED hist

SubStepNoTimer(s) == RunTop(s) \/ RunSelTok(s) \/ RunSelCw(s) \/ RunPsc(s) \/ RunPl(s) \/ RunWrite(s) \/ RunExit(s)
                     \/ CloseStart(s) \/ CloseFinish(s)

-----------------------------------------------------------------------------
\* handler goroutine of a connection

\* the client writes a SUBSCRIBE command; Server.handle reads it; handleSubscribeCommand first section (1121-1154)
SendSub(c, cid, sid, typ, m, ex, max) ==
    LET found == sid > 0 /\ sid \in st.mgr.reg
        new   == st.mgr.nextSid IN
    /\ st.conns[c].st = "open" /\ ~Dead(st, c) /\ st.hs[c].pc = "idle" /\ st.mgr.ncmd < MaxCmds
    /\ found \/ new <= MaxSubs
    /\ LET cmd == [IdleH EXCEPT !.typ = typ, !.m = m, !.ex = ex, !.max = max]
           \* matching happens when the channel goroutine offers the event, not when it is pushed: an event still in a
           \* channel may go to a subscription that is younger than the event
           InChan == UNION {SeqToSet(st.chans[sh].q) \cup (IF st.chans[sh].cur # 0 THEN {st.chans[sh].cur} ELSE {}) : sh \in Shards}
           tgt == IF found THEN sid ELSE new
           S0  == [st EXCEPT !.mgr.ncmd = @ + 1,
                             !.gh.ev = [p \in Pids |-> IF typ = 0 /\ p \in InChan /\ Match(m, st.gh.ev[p].key)
                                                       THEN [st.gh.ev[p] EXCEPT !.may = @ \cup {tgt}] ELSE st.gh.ev[p]]]
       IN st' = IF found /\ st.subs[sid].cid # cid
                THEN [S0 EXCEPT !.hs[c] = [cmd EXCEPT !.pc = "wres", !.ok = FALSE, !.sid = sid]]
                ELSE IF found
                THEN [S0 EXCEPT !.hs[c] = [cmd EXCEPT !.pc = "h2", !.sid = sid],
                                !.gh.may[sid] = IF typ = 0 THEN @ \cup {m} ELSE @,
                                !.gh.acked[sid] = IF typ = 1 THEN @ \ {m} ELSE @,
                                !.gh.owed[sid] = IF typ = 1 THEN {} ELSE @]
                ELSE [S0 EXCEPT !.subs[new] = FreshSub(cid, c), !.mgr.reg = @ \cup {new}, !.mgr.nextSid = new + 1,
                                !.hs[c] = [cmd EXCEPT !.pc = "h2", !.sid = new],
                                !.gh.may[new] = IF typ = 0 THEN {m} ELSE {}]
    /\ hist' = Append(hist, [a |-> "sub", c |-> c, cid |-> cid, sid |-> sid, typ |-> typ, m |-> m, ex |-> ex, max |-> max])

\* Subscriber.Update (639-683)
H2(c) ==
    LET h == st.hs[c]
        s == h.sid
        u == st.subs[s] IN
    /\ h.pc = "h2"
    /\ st' = IF D3Fixed /\ u.closed
             THEN [st EXCEPT !.hs[c].pc = "wres", !.hs[c].ok = FALSE]
             ELSE LET u1 == Signal([u EXCEPT !.sp = c, !.lostAt = -1, !.watch = c])
                      u2 == IF h.typ = 0 THEN [u1 EXCEPT !.masks = @ \cup {h.m}, !.ex = h.ex, !.max = h.max]
                            ELSE [u1 EXCEPT !.masks = @ \ {h.m}, !.nclose = IF u1.masks \ {h.m} = {} THEN @ + 1 ELSE @]
                  IN [st EXCEPT !.subs[s] = u2, !.hs[c].pc = "wres", !.hs[c].ok = TRUE,
                                !.gh.acked[s] = IF h.typ = 0 /\ ~u.closed THEN @ \cup {h.m} ELSE @,
                                \* (an add of the same mask that is still on its way keeps the mask possible)
                                !.gh.may[s] = IF h.typ = 1 /\ ~\E d \in Conns : d # c /\ st.hs[d].pc = "h2" /\ st.hs[d].sid = s /\ st.hs[d].typ = 0 /\ st.hs[d].m = h.m
                                              THEN @ \ {h.m} ELSE @,
                                !.gh.bad = IF u.closed THEN @ \cup {<<"acked-on-closed-subscriber", s>>} ELSE @]
    /\ UNCHANGED hist

\* BinaryServerProtocol.Write of the result (protocol.go 1514)
WRes(c) ==
    LET h == st.hs[c] IN
    /\ h.pc = "wres"
    /\ \/ /\ Dead(st, c)
          /\ st' = [st EXCEPT !.hs[c] = IdleH]
       \/ /\ Writable(st, c)
          /\ st' = [UsePermit(st, c) EXCEPT !.hs[c] = IdleH,
                       !.conns[c].recv = Append(@, [t |-> "res", ok |-> h.ok, sid |-> h.sid, typ |-> h.typ, m |-> h.m])]
    /\ UNCHANGED hist

\* Process() returns (EOF from the client, or the stream was closed under it): protocol + stream closed, closedWaiter closed
HandlerExit(c) ==
    /\ st.conns[c].st = "open" /\ st.hs[c].pc = "idle" /\ Dead(st, c)
    /\ st' = [st EXCEPT !.conns[c].st = "done", !.conns[c].srv = TRUE, !.conns[c].wclosed = TRUE]
    /\ UNCHANGED hist

HandlerStep == \E c \in Conns : H2(c) \/ WRes(c) \/ HandlerExit(c)

-----------------------------------------------------------------------------
\* shutdown: LockDB.Close (672-674) for every shard, then SubscribeManager.Close (1003-1023)

SdStart ==
    /\ WithShutdown /\ st.sd.pc = "none"
    /\ st' = [st EXCEPT !.sd.pc = "flush", !.mgr.closed = TRUE,
                        !.chans = [sh \in Shards |-> LET C == st.chans[sh] IN
                                      [C EXCEPT !.closed = TRUE, !.token = IF C.pulled THEN (IF C.token = 0 THEN 1 ELSE 9) ELSE @, !.pulled = FALSE]]]
    /\ hist' = Append(hist, [a |-> "shutdown"])

\* WaitFlushSubscribeChannel (1088-1118); channels that ended have removed themselves from the list
SdFlush ==
    /\ st.sd.pc = "flush"
    /\ \A sh \in Shards : st.chans[sh].pc = "end"      \* SLock.PrepareClose sleeps one second between the two (slock.go 247)
    /\ LET live == {sh \in Shards : st.chans[sh].pc # "end"}
           qn == Cardinality({sh \in live : st.chans[sh].q # <<>>}) IN
       st' = IF st.mgr.active = 0 /\ qn = 0
             THEN [st EXCEPT !.sd.pc = "subs", !.sd.todo = SetToSortedSeq(st.mgr.reg)]
             ELSE [st EXCEPT !.sd.pc = "fwait", !.mgr.flushWake = FALSE]
    /\ UNCHANGED hist

SdFwait ==
    /\ st.sd.pc = "fwait" /\ st.mgr.flushWake
    /\ st' = [st EXCEPT !.sd.pc = "subs", !.sd.todo = SetToSortedSeq(st.mgr.reg)]
    /\ UNCHANGED hist

SdCloseSub ==
    /\ st.sd.pc = "subs"
    /\ st' = IF st.sd.todo = <<>> THEN [st EXCEPT !.sd.pc = "done"]
             ELSE LET s == Head(st.sd.todo)
                      S1 == CloseBody(st, s)
                  IN [S1 EXCEPT !.sd.todo = Tail(st.sd.todo), !.sd.cur = s, !.sd.pc = IF S1.subs[s].closer = "wait" THEN "subwait" ELSE "subs"]
    /\ UNCHANGED hist

SdSubWait ==
    /\ st.sd.pc = "subwait" /\ st.subs[st.sd.cur].closer = "done"
    /\ st' = [st EXCEPT !.sd.pc = "subs"]
    /\ UNCHANGED hist

\* SLock.updateState on leaving the leader role (slock.go 296-300): WaitFlushSubscribeChannel with the channels open;
\* the engine pushes nothing any more (Push returns at once on a non-leader)
QuitLeader ==
    /\ WithShutdown /\ st.sd.pc = "none"
    /\ st' = [st EXCEPT !.sd.pc = "qflush"]
    /\ hist' = Append(hist, [a |-> "quitleader"])

QFlush ==
    /\ st.sd.pc = "qflush"
    /\ LET qn == Cardinality({sh \in Shards : st.chans[sh].pc # "end" /\ st.chans[sh].q # <<>>}) IN
       st' = IF st.mgr.active = 0 /\ qn = 0 THEN [st EXCEPT !.sd.pc = "qdone"]
             ELSE [st EXCEPT !.sd.pc = "qwait", !.mgr.flushWake = FALSE]
    /\ UNCHANGED hist

QWait ==
    /\ st.sd.pc = "qwait" /\ st.mgr.flushWake
    /\ st' = [st EXCEPT !.sd.pc = "qdone"]
    /\ UNCHANGED hist

SdStep == SdFlush \/ SdFwait \/ SdCloseSub \/ SdSubWait \/ QFlush \/ QWait

-----------------------------------------------------------------------------
\* rest: nothing happens without a new input (timers aside)

InternalEnabled ==
    \/ \E sh \in Shards : LET C == st.chans[sh] IN C.pc \in {"pull", "handle", "idle", "chk"} \/ (C.pc = "wait" /\ C.token = 1)
    \/ \E s \in Sids : LET u == st.subs[s] IN
          /\ u.st = "live"
          /\ \/ u.pc \in {"top", "psc", "pl", "exit"}
             \/ (u.pc = "sel" /\ (u.token \in {1, 2} \/ (u.watch # 0 /\ st.conns[u.watch].wclosed)))
             \/ (Eager /\ u.pc = "sel" /\ s \in st.due /\ st.mgr.ntimers < MaxTimers)
             \/ (u.pc = "wr" /\ (Dead(st, u.wconn) \/ Writable(st, u.wconn)))
             \/ u.nclose > 0
             \/ (u.closer = "wait" /\ u.done)
    \/ \E c \in Conns : \/ st.hs[c].pc = "h2"
                        \/ (st.hs[c].pc = "wres" /\ (Dead(st, c) \/ Writable(st, c)))
                        \/ (st.conns[c].st = "open" /\ st.hs[c].pc = "idle" /\ Dead(st, c))
    \/ st.sd.pc \in {"subs", "qflush"} \/ (st.sd.pc \in {"fwait", "qwait"} /\ st.mgr.flushWake)
    \/ (st.sd.pc = "flush" /\ \A sh \in Shards : st.chans[sh].pc = "end")
    \/ (st.sd.pc = "subwait" /\ st.subs[st.sd.cur].closer = "done")

AtRest == ~InternalEnabled
Env == ~Eager \/ AtRest

-----------------------------------------------------------------------------
\* environment: clients, network, lock engine, clock

ClientSub ==
    /\ Env /\ st.sd.pc = "none"
    /\ \E c \in Conns, cid \in Cids, typ \in Typs, m \in Masks, ex \in Expiries, max \in MaxSizes :
         \E sid \in {0} \cup {s \in Sids : s < st.mgr.nextSid} : SendSub(c, cid, sid, typ, m, ex, max)

Gate(c, closed) ==
    /\ Env /\ st.conns[c].st = "open" /\ ~Dead(st, c) /\ st.conns[c].gated # closed /\ st.mgr.ngate < MaxGateOps
    /\ st' = [st EXCEPT !.conns[c].gated = closed, !.conns[c].permits = 0, !.mgr.ngate = @ + 1]
    /\ hist' = Append(hist, [a |-> "gate", c |-> c, open |-> ~closed])

\* one Write call may pass a closed gate
Permit(c) ==
    /\ Env /\ st.conns[c].st = "open" /\ ~Dead(st, c) /\ st.conns[c].gated /\ st.conns[c].permits = 0 /\ st.mgr.ngate < MaxGateOps
    /\ (\E s \in Sids : st.subs[s].st = "live" /\ st.subs[s].pc = "wr" /\ st.subs[s].wconn = c) \/ st.hs[c].pc = "wres"
    /\ st' = [st EXCEPT !.conns[c].permits = 1, !.mgr.ngate = @ + 1]
    /\ hist' = Append(hist, [a |-> "permit", c |-> c])

CliClose(c) ==
    /\ Env /\ st.conns[c].st = "open" /\ ~st.conns[c].cli
    /\ st' = [st EXCEPT !.conns[c].cli = TRUE]
    /\ hist' = Append(hist, [a |-> "cclose", c |-> c])

\* SubscribeChannel.Push (837-881) under the shard mutex
EnginePush(sh, k) ==
    LET p == st.mgr.nextPid
        C == st.chans[sh] IN
    /\ Env /\ p <= MaxEvents /\ st.sd.pc = "none"
    /\ ~C.closed /\ st.mgr.reg # {}
    /\ st' = [st EXCEPT !.mgr.nextPid = p + 1,
                        !.chans[sh] = [C EXCEPT !.q = Append(@, p), !.token = IF C.pulled THEN (IF C.token = 0 THEN 1 ELSE 9) ELSE @, !.pulled = FALSE],
                        !.gh.ev[p] = [key |-> k, sh |-> sh, may |-> {s \in Sids : \E m \in st.gh.may[s] : Match(m, k)}],
                        !.gh.owed = [s \in Sids |-> IF (\E m \in st.gh.acked[s] : Match(m, k)) /\ ~st.subs[s].closed /\ st.subs[s].nclose = 0
                                                    THEN st.gh.owed[s] \cup {p} ELSE st.gh.owed[s]]]
    /\ hist' = Append(hist, [a |-> "ev", sh |-> sh, k |-> k, pid |-> p])

Tick ==
    /\ Env /\ st.mgr.nticks < MaxTicks
    \* the timer of a subscriber runs every min(120, Expried) seconds
    /\ st' = [st EXCEPT !.now = @ + TickLen, !.mgr.nticks = @ + 1,
                        !.due = {s \in Sids : st.subs[s].st = "live" /\ ~st.subs[s].closed /\ st.subs[s].ex > 0 /\ st.subs[s].ex <= TickLen}]
    /\ hist' = Append(hist, [a |-> "tick"])

\* outside Eager the timer of a subscriber may fire at any moment
TimerArm(s) ==
    /\ ~Eager /\ st.subs[s].st = "live" /\ s \notin st.due /\ st.mgr.ntimers < MaxTimers
    /\ st' = [st EXCEPT !.due = @ \cup {s}]
    /\ UNCHANGED hist

EnvStep ==
    \/ \E c \in Conns : Gate(c, TRUE) \/ Gate(c, FALSE) \/ Permit(c) \/ CliClose(c)
    \/ ClientSub
    \/ \E sh \in Shards, k \in Keys : EnginePush(sh, k)
    \/ Tick
    \/ (Env /\ (SdStart \/ QuitLeader))

Next == \/ ChanStep
        \/ \E s \in Sids : SubStepNoTimer(s) \/ RunSelTimer(s) \/ TimerArm(s)
        \/ HandlerStep
        \/ SdStep
        \/ EnvStep

Spec == Init0 /\ [][Next]_vars

\* liveness of the goroutines themselves (the environment owes nothing)
Fair == /\ WF_vars(ChanStep) /\ WF_vars(HandlerStep) /\ WF_vars(SdStep)
        /\ \A s \in Sids : WF_vars(SubStepNoTimer(s))
FairSpec == Spec /\ Fair

view == st

-----------------------------------------------------------------------------
\* properties

Delivered(c) == {<<f.sid, f.pid>> : f \in {g \in SeqToSet(st.conns[c].recv) : g.t = "pub"}}
AllDelivered == UNION {Delivered(c) : c \in Conns}
PubSeq(c, s) == SelectSeq(st.conns[c].recv, LAMBDA f : f.t = "pub" /\ f.sid = s)

TypeOK ==
    /\ \A s \in Sids : LET u == st.subs[s] IN
          /\ u.token \in {0, 1, 2} /\ u.nb >= 0 /\ u.hr >= 0 /\ u.tw >= 0 /\ u.tw <= BlockFrames /\ u.hr <= BlockFrames
          /\ Len(u.buf) = (IF u.nb = 0 THEN 0 ELSE IF u.nb = 1 THEN u.tw - u.hr ELSE (BlockFrames - u.hr) + (u.nb - 2) * BlockFrames + u.tw)
    /\ st.mgr.active >= 0

\* a guarded send on a capacity-1 channel never blocks (it would block inside a mutex)
NoBlockedSend == \A sh \in Shards : st.chans[sh].token # 9
\* D6: the same for the subscriber's wake channel - does NOT hold for the code as it is
NoD6 == \A s \in Sids : ~st.subs[s].blk

\* the timer / closedWaiter branches never wait for a token that is not coming
TimerNeverBlocks == \A s \in Sids : LET u == st.subs[s] IN
                       (u.st = "live" /\ u.pc = "sel" /\ ~u.pulled) => u.token \in {1, 2}

\* the goroutine never spins on a closed closedWaiter
NoSpin == \A s \in Sids : LET u == st.subs[s] IN
             ~(u.st = "live" /\ u.pc = "sel" /\ ~u.closed /\ u.sp = 0 /\ u.watch # 0 /\ st.conns[u.watch].wclosed)

\* each event at most once per subscriber, on whatever connections
AtMostOnce == \A c1, c2 \in Conns : \A i \in 1..Len(st.conns[c1].recv), j \in 1..Len(st.conns[c2].recv) :
                 LET f == st.conns[c1].recv[i]  g == st.conns[c2].recv[j] IN
                 (f.t = "pub" /\ g.t = "pub" /\ f.sid = g.sid /\ f.pid = g.pid) => (c1 = c2 /\ i = j)

\* only events that match a mask the subscriber can have had when the event was pushed
OnlyMatching == \A x \in AllDelivered : x[1] \in st.gh.ev[x[2]].may

\* per channel in push order (publish ids are drawn under the shard mutex): on every connection, and across a re-attach
InChannelOrder ==
    \A s \in Sids : \A c \in Conns :
       LET q == PubSeq(c, s) IN
       \A i, j \in 1..Len(q) : (i < j /\ st.gh.ev[q[i].pid].sh = st.gh.ev[q[j].pid].sh) => q[i].pid < q[j].pid

\* the overflow rule as the code has it: allocated blocks stay within MaxSize rounded up to a block
BufferBound == \A s \in Sids : LET u == st.subs[s] IN
                  (u.st = "live" /\ u.max > 0) => (u.nb - 1) * BlockFrames < u.max

\* nothing owed is missing once the system is at rest: delivered, or still buffered by a subscriber that cannot write now
Holds(s) == SeqToSet(st.subs[s].buf)
DeliveredTo(s) == {x[2] : x \in {y \in AllDelivered : y[1] = s}}
NothingLost == AtRest => \A s \in Sids : st.gh.owed[s] \subseteq DeliveredTo(s) \cup Holds(s)

\* ... and a subscriber at rest holds frames back only if it is detached or its connection does not take them
NoStuckFrames == AtRest => \A s \in Sids : LET u == st.subs[s] IN
                    (u.st = "live" /\ ~u.closed /\ u.buf # <<>>) => (u.sp = 0 \/ ~Writable(st, u.sp) \/ u.pc = "wr")

\* anomalies the actions record themselves (each belongs to one named deviation)
NoD1 == ~\E x \in st.gh.bad : x[1] \in {"reattached-killed-by-old-write-error", "grace-period-ignored"}
NoD3 == ~\E x \in st.gh.bad : x[1] = "acked-on-closed-subscriber"

\* D2: a subscriber whose re-attach was applied is attached (or closed) when the system rests, unless that connection died too
ReattachKept == AtRest => \A c \in Conns : \A i \in 1..Len(st.conns[c].recv) :
                   LET f == st.conns[c].recv[i] IN
                   (f.t = "res" /\ f.ok /\ f.typ = 0 /\ ~Dead(st, c) /\ st.subs[f.sid].st = "live" /\ ~st.subs[f.sid].closed
                      /\ ~\E d \in Conns : d # c /\ \E j \in 1..Len(st.conns[d].recv) : st.conns[d].recv[j].t = "res" /\ st.conns[d].recv[j].sid = f.sid
                                                                                         /\ st.conns[d].recv[j].ok /\ st.conns[d].st = "open")
                   => st.subs[f.sid].sp # 0

\* shutdown ends: no goroutine of the subsystem is left waiting for another
ShutdownEnds == /\ (st.sd.pc = "flush") ~> (st.sd.pc = "done")
                /\ (st.sd.pc = "qflush") ~> (st.sd.pc = "qdone")
\* when the quit-leader flush returns, nothing is left in a channel
FlushedMeansEmpty == st.sd.pc = "qdone" => \A sh \in Shards : st.chans[sh].q = <<>> /\ st.chans[sh].cur = 0
ClosersEnd == \A s \in Sids : (st.subs[s].closer = "wait") ~> (st.subs[s].closer = "done")
ChannelsEnd == \A sh \in Shards : (st.chans[sh].closed) ~> (st.chans[sh].pc = "end")
=============================================================================

---------------------------- MODULE ProtoSession ----------------------------
(***************************************************************************)
(* Generator over spec/ProtoClasses.tla (input-class alphabet, abstract    *)
(* connection state, Step, expected response class): TLC enumerates ALL    *)
(* paths  coarse^(<= PrefixLen) . detail  and prints each one as JSON; the *)
(* harness concretises every path into bytes and feeds it to the real      *)
(* Server.handle.  The invariants below are design checks of the generator *)
(* and of the expectation, evaluated by TLC on every generated path.       *)
(***************************************************************************)
EXTENDS ProtoClasses

CONSTANTS PrefixLen,    \* number of session-level (coarse) steps before the detailed class: 0..2
          Detail        \* "all": the last step ranges over the whole alphabet   "core": over a core subset (for PrefixLen = 2)

VARIABLES st, hist

-----------------------------------------------------------------------------
\* the generator: at most PrefixLen coarse steps, then one class of the whole universe

VARIABLE phase          \* "prefix": still choosing session-level steps   "done": the detailed class was fed
allvars == <<st, hist, phase>>

Init == st = Init0 /\ hist = <<>> /\ phase = "prefix"

\* a class is fed where its bytes mean something: binary frames to a sniffing / binary connection, text and
\* RESP classes to a sniffing / text connection (after a prefix in the other protocol only the representative
\* subset FragBase is crossed over: the first byte already closes the connection); raw streams everywhere
Compatible(s, c) ==
    \* fragmentation classes: in the first read and after a PING (IF, not \/: TLC would split a disjunction into sub-actions)
    /\ (IF c.frag = "whole" THEN TRUE ELSE IF Len(hist) = 0 THEN TRUE ELSE hist[Len(hist)].c.k \in {"ping", "PING"})
    \* behind an environment step only classes that touch the prepared key K are of interest
    /\ (IF Len(hist) > 0 /\ hist[Len(hist)].c.fam = "env"
        THEN \/ c.fam = "text" /\ \E i \in 1..Len(c.args) : c.args[i] = "K"
             \/ c.fam = "bin" /\ c.w = "K"
             \/ c.fam = "env"
        ELSE TRUE)
    /\ (\/ c.fam \in {"raw", "env"}
        \/ c.fam = "bin" /\ s.mode \in {"sniff", "bin"}
        \/ c.fam \in {"text", "resp"} /\ s.mode \in {"sniff", "text", "admintext"}
        \/ [c EXCEPT !.frag = "whole"] \in FragBase)

\* the core subset: session-level classes, the fragmentation representatives, all RESP malformations and raw streams,
\* every text command with at most one argument, every binary command in its typical / fitted form
Core == Coarse \cup FragBase \cup RespClasses \cup RawClasses \cup EnvClasses
        \cup {c \in TextClasses : Len(c.args) <= 1 /\ c.x = "upper"}
        \cup {c \in BinClasses : /\ c.x = "ok" /\ c.u \in {"typ", "-", "zero", "rnd"} /\ c.z \in {"dbK", "-"} /\ c.w \in {"K", "-"}
                                  /\ c.n \in {"-", "fit", "0", "1", "cap1"}
                                  /\ c.y \in {"-", "plain", "data", "LIST_LOCK", "SYNC", "UNKNOWN"}
                                  /\ (c.v = "-" \/ \E t \in OpTypes, sg \in {"0", "1", "2", "3"} : c.v = Op(sg, t, "none", "typ"))}
DetailUniverse == IF Detail = "all" THEN Universe ELSE Core

\* what the driver needs to know about a step besides the class: the protocol the connection speaks afterwards
\* (which sentinel to send), whether the server is left waiting for more bytes
Rec(s, c) == LET r == Step(s, c) IN [c |-> c, mode |-> r.st.mode, pend |-> r.st.pend]

FeedCoarse(c) ==
    /\ phase = "prefix" /\ Len(hist) < PrefixLen /\ st.mode # "closed" /\ Compatible(st, c)
    /\ st' = Step(st, c).st
    /\ hist' = Append(hist, Rec(st, c))
    /\ phase' = "prefix"

FeedDetail(c) ==
    /\ phase = "prefix" /\ st.mode # "closed" /\ Compatible(st, c)
    /\ st' = Step(st, c).st
    /\ hist' = Append(hist, Rec(st, c))
    /\ phase' = "done"

\* (the guard first: TLC enumerates the bound set before it looks at the body)
Next == phase = "prefix" /\ st.mode # "closed" /\ ((\E c \in Coarse : FeedCoarse(c)) \/ (\E c \in DetailUniverse : FeedDetail(c)))

Spec == Init /\ [][Next]_allvars

Enabled(s, h) == IF phase = "prefix" /\ s.mode # "closed" THEN {c \in DetailUniverse : Compatible(s, c)} ELSE {}

-----------------------------------------------------------------------------
\* design checks of the generator / expectation (TLC, exhaustive over all generated paths)

TypeOK == /\ st.mode \in Modes /\ st.pend \in BOOLEAN /\ st.db255 \in BOOLEAN
          /\ \A i \in 1..Len(hist) : hist[i].c \in Universe /\ hist[i].mode \in Modes

\* the universe is closed under the coarse classes (the concretiser needs one format)
CoarseInUniverse == Coarse \subseteq Universe

\* sniffing happens exactly once
SniffOnlyFirst == (\E i \in 1..Len(hist) : hist[i].c.fam # "env") => st.mode # "sniff"

\* a text sub-session inside a binary connection only arises from ADMIN
AdminTextOrigin == st.mode = "admintext" => \E i \in 1..Len(hist) : hist[i].c.fam = "bin" /\ hist[i].c.k = "admin"

\* every class has an expectation in every state, and it is never empty
ExpectTotal == \A c \in Enabled(st, hist) : LET e == Step(st, c).exp IN e.resp # {} /\ e.resp \subseteq AnyResp /\ e.closes # {} /\ e.closes \subseteq BOOLEAN

\* protocol-level malformations are never expected to be answered with success, and unknown commands get an error
BadBin(c) == c.fam = "bin" /\ (c.x # "ok" \/ c.k \in {"unk13", "unk255", "publish"} \/ c.n \in {"cap1", "max32"})
BadText(c) == c.fam = "text" /\ c.frag = "whole" /\ (c.k \in {"NOSUCHCMD", ""} \/ Len(c.args) < MinArgs(c.k))
MalformedNeverOk ==
    \A c \in Enabled(st, hist) :
        (~st.pend /\ ((st.mode = "bin" /\ BadBin(c)) \/ (st.mode \in {"text", "admintext"} /\ BadText(c))))
        => "ok" \notin Step(st, c).exp.resp

\* after a close nothing is fed (action property)
ClosedIsFinal == [][st.mode = "closed" => UNCHANGED allvars]_allvars

\* export: every maximal path is one behaviour for the harness
Export == phase = "done" => PrintT("BEHAVIOUR " \o ToJson(hist))

\* number of classes (printed once, for the evidence file)
Census == (Len(hist) = 0) => PrintT("CENSUS " \o ToJson([universe |-> Cardinality(Universe), bin |-> Cardinality(BinClasses), text |-> Cardinality(TextClasses),
                                   resp |-> Cardinality(RespClasses), raw |-> Cardinality(RawClasses), frag |-> Cardinality(FragClasses), coarse |-> Cardinality(Coarse),
                                   detail |-> Cardinality(DetailUniverse)]))
=============================================================================

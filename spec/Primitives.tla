------------------------------ MODULE Primitives ------------------------------
(***************************************************************************)
(* Textbook guarantees of the packaged client primitives (property C19),   *)
(* as pure operators - no variables, so that the module can be EXTENDed by *)
(*   - PrimitivesRef : the textbook state machine (the rules are inductive)*)
(*   - PrimEnc       : the ENCODING of every primitive onto the slock lock *)
(*                     engine (client/*.go Count / Rcount / flag values    *)
(*                     driving spec/LockEngine.tla) implies these rules    *)
(*   - mon/MonPrim   : the trace spec that judges histories recorded from  *)
(*                     the real client + server over TCP                   *)
(*                                                                         *)
(* The statement of C19, clause by clause:                                 *)
(*   Lock          is exclusive                                            *)
(*   RLock         is re-entrant for its holder only and needs as many     *)
(*                 unlocks as locks                                        *)
(*   Semaphore(n), MaxConcurrentFlow(n)  admit at most n at a time         *)
(*   RWLock        admits either one writer or any number of readers       *)
(*   PriorityLock  hands over to the highest waiting priority              *)
(*   Event.Wait    returns only once the event is set                      *)
(*                                                                         *)
(* A holder table HT is a function  holder id -> [rl, depth]  (rl is "x",  *)
(* "r" or "w"; depth counts the acquisitions not yet released).            *)
(***************************************************************************)
EXTENDS Integers, Sequences, FiniteSets, FiniteSetsExt

PrimKinds == {"lock", "rlock", "sem", "flow", "rw", "prio", "event_set", "event_clear"}
PrimLockKinds == {"lock", "rlock", "sem", "flow", "rw", "prio"}

PrimHolders(HT) == DOMAIN HT
PrimUnits(HT)   == FoldSet(LAMBDA hh, acc : acc + HT[hh].depth, 0, DOMAIN HT)

PrimEmpty == [hh \in {} |-> [rl |-> "x", depth |-> 0]]

\* add one unit for holder gg / take one unit away
PrimAdd(HT, gg, rl) ==
    IF gg \in DOMAIN HT THEN [HT EXCEPT ![gg].depth = @ + 1]
    ELSE [hh \in (DOMAIN HT) \cup {gg} |-> IF hh = gg THEN [rl |-> rl, depth |-> 1] ELSE HT[hh]]
PrimSub(HT, gg) ==
    IF gg \notin DOMAIN HT THEN HT
    ELSE IF HT[gg].depth > 1 THEN [HT EXCEPT ![gg].depth = @ - 1]
    ELSE [hh \in (DOMAIN HT) \ {gg} |-> HT[hh]]
PrimDrop(HT, gg) == [hh \in (DOMAIN HT) \ {gg} |-> HT[hh]]

(***************************************************************************)
(* The admission rule: may gg acquire (one more unit, in role rl) while    *)
(* the holders HT are outstanding?                                         *)
(***************************************************************************)
PrimAdmissible(kind, nn, gg, rl, HT) ==
    CASE kind = "lock"           -> PrimHolders(HT) = {}
      [] kind = "prio"           -> PrimHolders(HT) = {}
      [] kind = "rlock"          -> PrimHolders(HT) \subseteq {gg}          \* re-entrant for its holder ONLY
      [] kind \in {"sem", "flow"} -> PrimUnits(HT) < nn                      \* at most n at a time
      [] kind = "rw"             -> IF rl = "w" THEN PrimHolders(HT) = {}    \* one writer XOR readers
                                    ELSE \A hh \in PrimHolders(HT) : HT[hh].rl = "r"
      [] OTHER                   -> TRUE

\* the state predicate the admission rule maintains
PrimStateOK(kind, nn, HT) ==
    CASE kind \in {"lock", "prio"} -> Cardinality(PrimHolders(HT)) <= 1 /\ PrimUnits(HT) <= 1
      [] kind = "rlock"           -> Cardinality(PrimHolders(HT)) <= 1
      [] kind \in {"sem", "flow"}  -> PrimUnits(HT) <= nn
      [] kind = "rw"              -> \/ \A hh \in PrimHolders(HT) : HT[hh].rl = "r"
                                     \/ Cardinality(PrimHolders(HT)) = 1 /\ PrimUnits(HT) = 1
      [] OTHER                    -> TRUE

\* permissive halves of the statement: a request that the textbook primitive admits AT ONCE whatever its
\* fairness policy is, decided in the request's own critical section (no wake-up involved):
\*   "re-entrant for its holder", "any number of readers" (as long as no writer holds or waits)
\* (That a FREE primitive is eventually given to a waiter is a no-lost-wake-up statement - property C04, not C19.)
PrimMustAdmit(kind, gg, rl, HT, writerWaiting) ==
    \/ kind = "rlock" /\ PrimHolders(HT) = {gg}
    \/ kind = "rw" /\ rl = "r" /\ ~writerWaiting /\ PrimHolders(HT) # {} /\ \A hh \in PrimHolders(HT) : HT[hh].rl = "r"

\* PriorityLock: the WAITING request that receives the hand-over has the highest priority among the waiting ones.
\* (A newcomer that finds the lock free between the release and the hand-over is not a hand-over: agnostic.)
PrimHandOverOK(prio, waitingPrios) == \A qq \in waitingPrios : prio >= qq

(***************************************************************************)
(* The textbook objects ACROSS TIME, as far as the client API documents it *)
(* (client/*.go: every primitive is constructed with `timeout` - how long  *)
(* a blocking call waits - and `expried` - how long a granted hold lasts;  *)
(* a re-entrant Lock of an RLock renews it).  Whole seconds.               *)
(*                                                                         *)
(* A hold taken (or renewed) at second tt with expiry ex                   *)
(*   - is DEFINITELY outstanding while  PrimLive  (its holder may release  *)
(*     it: the release is not refused and gives the unit back),            *)
(*   - has DEFINITELY ended once  PrimGone  (its unit is free again),      *)
(*   - in between (the second in which the server's sweep ends it) nothing *)
(*     is claimed.                                                         *)
(* A release / Set / Clear has no expiry: what it established stays.       *)
(***************************************************************************)
PrimLive(tt, ex, now) == now - tt < ex
PrimGone(tt, ex, now) == now - tt > ex + 1

\* Event.  `last` is the last Set / Clear call that returned ("set", "clear", or "none"), made at second tt.
\* default-set   (kind "event_set"):   Clear TAKES a hold of `expried` seconds (the clear state lapses with it), Set drops it
\* default-clear (kind "event_clear"): Set TAKES the hold (the set state lapses with it), Clear drops it
PrimEvDefSet(kind, last, tt, ex, now) ==
    IF kind = "event_set" THEN last \in {"none", "set"} \/ (last = "clear" /\ PrimGone(tt, ex, now))
    ELSE last = "set" /\ PrimLive(tt, ex, now)
PrimEvDefClear(kind, last, tt, ex, now) ==
    IF kind = "event_set" THEN last = "clear" /\ PrimLive(tt, ex, now)
    ELSE last \in {"none", "clear"} \/ (last = "set" /\ PrimGone(tt, ex, now))

\* Nobody may stay blocked while the object is free for ALL of the blocked requests (whatever the fairness policy is,
\* one of them must have been admitted): WT is the set of blocked requests [g, rl], HT every hold that may still exist.
PrimSomeoneMustBeAdmitted(kind, nn, WT, HT) ==
    WT # {} /\ \A ww \in WT : PrimAdmissible(kind, nn, ww.g, ww.rl, HT)

=============================================================================

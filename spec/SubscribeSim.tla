---------------------------- MODULE SubscribeSim ----------------------------
(***************************************************************************)
(* Random-walk front end of Subscribe for `tlc -simulate`: the behaviour   *)
(* generator of engine "Sub".  Driver atomicity (Eager = TRUE): a client / *)
(* engine / clock step is taken only when the goroutines of the model are  *)
(* at rest, exactly as the conformance driver waits for the real ones.     *)
(* Every behaviour printed is a behaviour of Subscribe!Spec.  With every   *)
(* driver step the projection of the state it started from is kept, so the *)
(* checker can compare the real subsystem with the model after each step.  *)
(***************************************************************************)
EXTENDS Subscribe, Json

CONSTANTS Turns, HistLen

VARIABLES turn, projs

Pick(S) == RandomElement(S)

Proj(S) == [ subs |-> [s \in S.mgr.reg |-> [closed |-> S.subs[s].closed, masks |-> S.subs[s].masks, conn |-> S.subs[s].sp,
                                             pend |-> Len(S.subs[s].buf), nb |-> S.subs[s].nb, cid |-> S.subs[s].cid]],
             recv |-> [c \in Conns |-> S.conns[c].recv],
             srv  |-> [c \in Conns |-> S.conns[c].srv] ]

\* The handler goroutine finishes its command (Update, result) before the Close() goroutine that Update may have
\* started gets going - the order the real scheduler practically always produces (a `go` statement against straight-line
\* code).  The other order is a behaviour of Subscribe!Spec too and is covered by the exhaustive configs.
HandlerBusy == \E c \in Conns : st.hs[c].pc = "h2" \/ (st.hs[c].pc = "wres" /\ (Dead(st, c) \/ Writable(st, c)))
\* ... and a goroutine that is already there (woken by the token Update sent) runs before the new Close() goroutine
NonClose == \/ ChanStep \/ HandlerStep \/ SdStep
            \/ \E s \in Sids : RunTop(s) \/ RunSelTok(s) \/ RunSelCw(s) \/ RunPsc(s) \/ RunPl(s) \/ RunWrite(s) \/ RunExit(s)
                                 \/ CloseFinish(s) \/ RunSelTimer(s)
Internal == IF HandlerBusy THEN \E c \in Conns : H2(c) \/ WRes(c)
            ELSE IF ENABLED NonClose THEN NonClose
            ELSE \E s \in Sids : CloseStart(s)

Live(c) == st.conns[c].st = "open" /\ ~Dead(st, c)

\* (parameters are drawn through singleton quantifiers: a bound variable is evaluated once)
Driver ==
    \/ /\ turn = "sub"
       /\ \E c \in {Pick(Conns)}, cid \in {Pick(Cids)}, m \in {Pick(Masks)}, ex \in {Pick(Expiries)}, max \in {Pick(MaxSizes)} :
          \E sid \in {Pick({0} \cup {s \in Sids : s < st.mgr.nextSid})} :
             ~st.conns[c].gated /\ SendSub(c, cid, sid, 0, m, ex, max)
    \/ /\ turn = "unsub"
       /\ \E c \in {Pick(Conns)}, cid \in {Pick(Cids)}, m \in {Pick(Masks)} :
          \E sid \in {Pick({0} \cup {s \in Sids : s < st.mgr.nextSid})} :
             ~st.conns[c].gated /\ SendSub(c, cid, sid, 1, m, 0, 0)
    \/ /\ turn = "ev"
       /\ \E sh \in {Pick(Shards)}, k \in {Pick(Keys)} : EnginePush(sh, k)
    \/ /\ turn = "gate"
       /\ \E c \in {Pick(Conns)} : Gate(c, ~st.conns[c].gated)
    \/ /\ turn = "permit"
       /\ \E c \in Conns : Permit(c)
    \/ /\ turn = "cclose"
       /\ \E c \in {Pick(Conns)} : CliClose(c)
    \/ /\ turn = "tick"
       \* (a clock step costs the driver seconds of wall time: only when a detached subscriber can expire in it)
       /\ \E s \in Sids : st.subs[s].st = "live" /\ ~st.subs[s].closed /\ st.subs[s].sp = 0 /\ st.subs[s].ex > 0 /\ st.subs[s].ex <= TickLen
       /\ Tick
    \/ UNCHANGED <<st, hist>>

SimNext ==
    /\ IF InternalEnabled THEN Internal /\ UNCHANGED projs
       ELSE /\ Len(hist) < HistLen
            /\ Driver
            /\ projs' = IF hist' # hist THEN Append(projs, Proj(st)) ELSE projs
    /\ turn' = Pick(Turns)

SimSpec == Init0 /\ turn = "sub" /\ projs = <<>> /\ [][SimNext]_<<st, hist, turn, projs>>

SimExport ==
    (Len(hist) >= HistLen /\ AtRest) =>
        PrintT("BEHAVIOUR " \o ToJson([hist |-> hist, pre |-> projs, final |-> Proj(st)]))
=============================================================================

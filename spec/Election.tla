------------------------------- MODULE Election -------------------------------
(***************************************************************************)
(* Leader election of snower/slock (server/arbiter.go), implementation     *)
(* shaped: one action per atomic step of the in-process election bench     *)
(* (engine E), which in turn is one handler call / one reply hand-over of  *)
(* the real code.                                                          *)
(*                                                                         *)
(*   candidate side   ArbiterVoter.DoVote / DoProposal / DoCommit          *)
(*                    (arbiter.go:1113-1218), self member through          *)
(*                    DoSelfProposal / DoSelfCommit (764-807, 854-881)     *)
(*   acceptor side    commandHandle{Vote,Proposal,Commit}Command           *)
(*                    (2156-2317) - every reject branch reachable with all *)
(*                    members online and no leader                         *)
(*   log comparison   CompareAofId (2073-2100), scaled: 4-bit components   *)
(*   metadata         ArbiterStore.Save/Load (59-177), Load() seeds        *)
(*                    proposalId from commitId (1380-1399)                 *)
(*                                                                         *)
(* Five constants switch between a defective and a repaired behaviour.     *)
(* THE CODE TODAY IS: CmpFixed = TRUE, PidFixed = TRUE, HostFixed = TRUE   *)
(* (repaired by commits 9de8629, 11f419c, a3a0796), RejectVetoes = TRUE    *)
(* and PersistFixed = FALSE (finding A7, still open).  The FALSE values of *)
(* the others are kept as regression models of defects:                    *)
(*   CmpFixed      TRUE (code): CompareAofId takes the file INDEX as the   *)
(*                 major and the offset as the minor component; FALSE      *)
(*                 (before 9de8629, finding A21): offset major.            *)
(*   PersistFixed  FALSE (code): the accepted number, the committed number *)
(*                 and the committed host live in memory only; meta.pb     *)
(*                 holds commitId and is written by the winner's           *)
(*                 voteSucced, not by the acceptors (finding A7); TRUE     *)
(*                 (proposed): every change of the triple is persisted.    *)
(*   PidFixed      TRUE (code): DoProposal leaves proposalId to            *)
(*                 DoSelfProposal; a successful DoCommit records           *)
(*                 proposalIndex if that raises commitId.  FALSE (before   *)
(*                 11f419c, finding A22): a successful DoProposal stored   *)
(*                 proposalIndex into proposalId unconditionally - lowered *)
(*                 a higher number accepted meanwhile, raised it although  *)
(*                 the own DoSelfProposal had REFUSED (then the            *)
(*                 self-commit passed: two commits acknowledged) - and     *)
(*                 DoCommit copied proposalId into commitId.               *)
(*   HostFixed     TRUE (code): a failed DoCommit clears proposalHost only *)
(*                 when it records this candidate's own pending commit;    *)
(*                 FALSE (before a3a0796, finding A23): whoever set it.    *)
(*   RejectVetoes  TRUE (code): one ERR_REJECT ("my own log is newer than  *)
(*                 the position you propose"; also the candidate's own     *)
(*                 DoSelfProposal) aborts the candidacy at the end of the  *)
(*                 proposal round whatever the number of accepts           *)
(*                 (DoProposal 1185).  FALSE (a deviation that was never   *)
(*                 in the code; kept as the model of the defect class "the *)
(*                 refusal is only looked at without a majority"): with a  *)
(*                 majority of accepts the candidate goes on to the commit *)
(*                 round.  The refusal is the ONLY guard where the         *)
(*                 election majority need not contain the newest data      *)
(*                 member: arbiters (3 data + 2 arbiters: {stale follower, *)
(*                 arbiter, arbiter} is a majority of 5), a newest member  *)
(*                 of weight 0 (never proposed), a vote reply lost.        *)
(* Other as-coded details that matter: proposalIndex may be raised by an   *)
(* ERR_PROPOSALID reply while the proposal is still out; DoCommit sends    *)
(* proposalIndex; a successful DoCommit sets proposalHost to the vote host *)
(* whether or not the own member acknowledged.                             *)
(*                                                                         *)
(* Not modelled (outside the property's quantifier): announcements,        *)
(* offline events, membership changes, a leader being online (ERR_ROLE /   *)
(* ERR_STATUS), abstention.                                                *)
(***************************************************************************)
EXTENDS Integers, Sequences, FiniteSets, TLC, Json, SequencesExt

CONSTANTS N,             \* members are 1..N; host order = index order
          Cands,         \* members that run candidacies
          Cfgs,          \* set of [w, arb, aof, c0] : tuples of length N
          MaxRounds,     \* candidacies per candidate
          MaxRestarts,
          Lose,          \* BOOLEAN: messages may be lost
          CmpFixed, PersistFixed, PidFixed, HostFixed, RejectVetoes

Members == 1..N
Maj == (N \div 2) + 1
Z == [idx |-> 0, off |-> 0, ct |-> 0]

VARIABLES cfg,      \* the configuration of this behaviour (constant)
          acc,      \* acceptor state per member: [pid, cid, host, from]   (0 = ""; from = proposalFromHost)
          saved,    \* meta.pb per member: [pid, cid, host] (as coded only cid is meaningful)
          view,     \* view[m][x]: member.aofId that m holds for x
          cand,     \* candidate state
          shadow,   \* candidates whose running candidacy overlaps a candidacy that already won
          dual,     \* TRUE once two overlapping candidacies have both won
          badAccept,\* the last step accepted a proposal at a data member whose own log is newer
          regress,  \* TRUE once a step lowered a member's accepted or committed number
          nrst, hist

vars == <<cfg, acc, saved, view, cand, shadow, dual, badAccept, regress, nrst, hist>>
view_ == <<cfg, acc, saved, view, cand, shadow, dual, badAccept, regress, nrst>>

-----------------------------------------------------------------------------
\* log positions: CompareAofId scaled to 4-bit components (wrap threshold 7 <-> 0x7fffffff)

Major(a) == IF CmpFixed THEN a.idx ELSE a.off
Minor(a) == IF CmpFixed THEN a.off ELSE a.idx
CmpWith(a, b, ma, mi, mb, ni) ==
    IF a = b THEN 0
    ELSE LET x == ma * 16 + mi
             y == mb * 16 + ni
         IN IF x > y THEN (IF x - y >= 7 * 16 THEN -1 ELSE 1)
            ELSE IF x < y THEN (IF y - x >= 7 * 16 THEN 1 ELSE -1)
            ELSE IF a.ct > b.ct THEN 1 ELSE -1
Cmp(a, b)     == CmpWith(a, b, Major(a), Minor(a), Major(b), Minor(b))   \* as the code compares
CmpTrue(a, b) == CmpWith(a, b, a.idx, a.off, b.idx, b.off)               \* append order of the log

\* GetCurrentAofID of an arbiter: newest view over the members, folded in list order (2049-2059)
ArbAof(m) == FoldLeft(LAMBDA a, x : IF Cmp(view[m][x], a) > 0 THEN view[m][x] ELSE a, Z, [x \in 1..N |-> x])
CurAof(m) == IF cfg.arb[m] # 0 THEN ArbAof(m) ELSE cfg.aof[m]

-----------------------------------------------------------------------------
Phases == {"idle", "vote", "voted", "prop", "proped", "commit", "won", "saved", "failed"}
Running(c) == cand[c].ph \in {"vote", "prop", "commit"}
InProgress(c) == cand[c].ph \in {"vote", "voted", "prop", "proped", "commit"}

NoSlots == [m \in Members |-> "none"]
NoRsp == [m \in Members |-> [res |-> ""]]
\* rej: a refusal "my log is newer" reached the candidate in this proposal round (isReject);
\* newer: the data members that answered this proposal round (the own member included) and whose own log is
\*        newer than the proposed position in the append order of the log - bookkeeping for NewestWins only
Cand0 == [ph |-> "idle", round |-> 0, idx |-> 0, vhost |-> 0, vaof |-> Z, resp |-> <<>>, cnt |-> 0, rej |-> FALSE, newer |-> {},
          slots |-> NoSlots, rsp |-> NoRsp, req |-> [pid |-> 0, host |-> 0, aof |-> Z]]

Triple(a) == <<a.pid, a.cid, a.host>>
Log(e) == hist' = Append(hist, e)

Init == /\ cfg \in Cfgs
        /\ acc = [m \in Members |-> [pid |-> cfg.c0[m], cid |-> cfg.c0[m], host |-> 0, from |-> 0]]
        /\ saved = acc
        /\ view = [m \in Members |-> [x \in Members |-> Z]]
        /\ cand = [c \in Cands |-> Cand0]
        /\ shadow = {} /\ dual = FALSE /\ badAccept = FALSE /\ regress = FALSE /\ nrst = 0
        /\ hist = <<[op |-> "cfg", c |-> 0, m |-> 0, exp |-> cfg]>>

\* gates that the simulation front end overrides with random draws
LoseOK(c, m) == Lose
RestartOK(m) == TRUE

Persist(m, a) == IF PersistFixed THEN [saved EXCEPT ![m] = a] ELSE saved

-----------------------------------------------------------------------------
\* DoVote's choice among the responses, in arrival order (1123-1150)
Scan(R) ==
    FoldLeft(LAMBDA sel, i :
                 IF R[i].arb # 0 \/ R[i].w = 0 THEN sel
                 ELSE IF sel = 0 THEN i
                 ELSE IF R[sel].aof = R[i].aof
                      THEN LET s1 == IF R[sel].w < R[i].w THEN i ELSE sel
                           IN IF R[s1].w = R[i].w /\ R[s1].host < R[i].host THEN i ELSE s1
                 ELSE IF Cmp(R[i].aof, R[sel].aof) > 0 THEN i ELSE sel,
             0, [i \in 1..Len(R) |-> i])

\* end of a phase: runs in the same step as the resolution of its last slot
Finish(c, cd, ac) ==
    \* cd: candidate record with all slots done, ac: acceptor state function; result [cd, acc, won]
    CASE cd.ph = "vote" ->
           IF Len(cd.resp) < Maj THEN [cd |-> [cd EXCEPT !.ph = "failed"], acc |-> ac, won |-> FALSE]
           ELSE LET s == Scan(cd.resp)
                IN IF s = 0 THEN [cd |-> [cd EXCEPT !.ph = "failed"], acc |-> ac, won |-> FALSE]
                   ELSE [cd |-> [cd EXCEPT !.ph = "voted", !.vhost = cd.resp[s].host, !.vaof = cd.resp[s].aof], acc |-> ac, won |-> FALSE]
      [] cd.ph = "prop" ->
           \* DoProposal 1185-1191: the refusal is tested BEFORE the count (RejectVetoes = FALSE: only without a majority)
           IF (RejectVetoes /\ cd.rej) \/ cd.cnt < Maj THEN [cd |-> [cd EXCEPT !.ph = "failed"], acc |-> ac, won |-> FALSE]
           ELSE [cd |-> [cd EXCEPT !.ph = "proped"],
                 acc |-> IF PidFixed THEN ac ELSE [ac EXCEPT ![c].pid = cd.idx], won |-> FALSE]
      [] cd.ph = "commit" ->
           IF cd.cnt < Maj
           THEN [cd |-> [cd EXCEPT !.ph = "failed"],
                 acc |-> IF HostFixed /\ ac[c].from # c THEN ac ELSE [ac EXCEPT ![c].host = 0, ![c].from = 0], won |-> FALSE]
           ELSE [cd |-> [cd EXCEPT !.ph = "won"],
                 acc |-> [ac EXCEPT ![c].host = cd.vhost, ![c].from = c,
                                    ![c].cid = IF PidFixed THEN (IF @ < cd.idx THEN cd.idx ELSE @) ELSE ac[c].pid], won |-> TRUE]

AllDone(cd) == \A m \in Members : cd.slots[m] \in {"none", "done"}

\* apply the resolution of one slot; cd already has the slot marked done
Resolve(c, cd, op, m) ==
    LET f == IF AllDone(cd) THEN Finish(c, cd, acc) ELSE [cd |-> cd, acc |-> acc, won |-> FALSE]
        ended == IF ~AllDone(cd) THEN "" ELSE IF f.cd.ph = "failed" THEN "fail" ELSE "ok"
    IN /\ cand' = [cand EXCEPT ![c] = f.cd]
       /\ acc' = f.acc
       /\ saved' = IF PersistFixed THEN [saved EXCEPT ![c] = f.acc[c]] ELSE saved   \* repaired: every change of the triple is persisted
       /\ IF f.won
          THEN /\ dual' = (dual \/ c \in shadow)
               /\ shadow' = (shadow \cup {x \in Cands \ {c} : InProgress(x)}) \ {c}
          ELSE UNCHANGED <<dual, shadow>>
       /\ badAccept' = FALSE
       /\ Log([op |-> op, c |-> c, m |-> m, exp |-> [m |-> c, t |-> Triple(f.acc[c]), ended |-> ended]])

-----------------------------------------------------------------------------
\* the loop head of ArbiterVoter.StartVote (1034-1061) with everybody online and no leader
Guard(c) == ~(acc[c].host # 0 /\ acc[c].host # c)

SelfRsp(c) == [host |-> c, w |-> cfg.w[c], arb |-> cfg.arb[c], aof |-> CurAof(c)]

StartVote(c) ==
    /\ cand[c].ph \in {"idle", "failed"} /\ cand[c].round < MaxRounds /\ Guard(c)
    /\ cand' = [cand EXCEPT ![c] = [@ EXCEPT !.ph = "vote", !.round = @ + 1, !.vhost = 0, !.vaof = Z, !.resp = <<SelfRsp(c)>>,
                                             !.cnt = 0, !.rej = FALSE, !.newer = {}, !.rsp = NoRsp,
                                             !.slots = [m \in Members |-> IF m = c THEN "none" ELSE "req"]]]
    /\ view' = IF cfg.arb[c] # 0 THEN [view EXCEPT ![c][c] = ArbAof(c)] ELSE view
    /\ shadow' = shadow \ {c}
    /\ badAccept' = FALSE
    /\ Log([op |-> "vote", c |-> c, m |-> 0, exp |-> [m |-> c, t |-> Triple(acc[c])]])
    /\ UNCHANGED <<cfg, acc, saved, dual, nrst>>

\* DoSelfProposal (764-807)
SelfProposal(c, idx, aof) ==
    IF cfg.arb[c] = 0 /\ Cmp(cfg.aof[c], aof) > 0 THEN "REJECT"
    ELSE IF \E x \in Members : Cmp(view[c][x], aof) > 0 THEN "ERR_AOFID"
    ELSE IF acc[c].pid >= idx \/ acc[c].host # 0 THEN "ERR_PROPOSALID"
    ELSE IF acc[c].cid >= idx THEN "ERR_PROPOSALID"
    ELSE "ok"

StartProposal(c) ==
    /\ cand[c].ph = "voted"
    /\ LET mx  == IF acc[c].cid > acc[c].pid THEN acc[c].cid ELSE acc[c].pid
           idx == (IF cand[c].idx > mx THEN cand[c].idx ELSE mx) + 1
           r   == SelfProposal(c, idx, cand[c].vaof)
           a1  == IF r = "ok" THEN [acc[c] EXCEPT !.pid = idx] ELSE acc[c]
       IN /\ acc' = [acc EXCEPT ![c] = a1]
          /\ saved' = IF r = "ok" THEN Persist(c, a1) ELSE saved
          /\ cand' = [cand EXCEPT ![c] = [@ EXCEPT !.ph = "prop", !.idx = idx, !.cnt = IF r = "ok" THEN 1 ELSE 0, !.rej = (r = "REJECT"),
                                                   !.newer = IF cfg.arb[c] = 0 /\ CmpTrue(cfg.aof[c], cand[c].vaof) > 0 THEN {c} ELSE {},
                                                   !.rsp = NoRsp, !.req = [pid |-> idx, host |-> cand[c].vhost, aof |-> cand[c].vaof],
                                                   !.slots = [m \in Members |-> IF m = c THEN "none" ELSE "req"]]]
          /\ badAccept' = (r = "ok" /\ cfg.arb[c] = 0 /\ CmpTrue(cfg.aof[c], cand[c].vaof) > 0)
          /\ Log([op |-> "prop", c |-> c, m |-> 0, exp |-> [m |-> c, t |-> Triple(a1), selfok |-> (r = "ok"), pid |-> idx, host |-> cand[c].vhost]])
    /\ UNCHANGED <<cfg, view, shadow, dual, nrst>>

\* DoSelfCommit (854-881); DoCommit sends proposalIndex (1201)
StartCommit(c) ==
    /\ cand[c].ph = "proped"
    /\ LET idx == cand[c].idx
           ok  == acc[c].pid = idx /\ acc[c].cid < idx
           a1  == IF ok THEN [acc[c] EXCEPT !.host = cand[c].vhost, !.from = c, !.cid = idx] ELSE acc[c]
       IN /\ acc' = [acc EXCEPT ![c] = a1]
          /\ saved' = IF ok THEN Persist(c, a1) ELSE saved
          /\ cand' = [cand EXCEPT ![c] = [@ EXCEPT !.ph = "commit", !.cnt = IF ok THEN 1 ELSE 0, !.rsp = NoRsp,
                                                   !.req = [pid |-> idx, host |-> cand[c].vhost, aof |-> cand[c].vaof],
                                                   !.slots = [m \in Members |-> IF m = c THEN "none" ELSE "req"]]]
          /\ Log([op |-> "commit", c |-> c, m |-> 0, exp |-> [m |-> c, t |-> Triple(a1), selfok |-> ok, pid |-> idx, host |-> cand[c].vhost]])
    /\ badAccept' = FALSE
    /\ UNCHANGED <<cfg, view, shadow, dual, nrst>>

-----------------------------------------------------------------------------
\* acceptor handlers

\* commandHandleProposalCommand (2184-2262)
PropResult(m, rq) ==
    IF cfg.arb[m] = 0 /\ Cmp(cfg.aof[m], rq.aof) > 0 THEN [res |-> "ERR_REJECT", pid |-> 0]
    ELSE IF \E x \in Members : Cmp(view[m][x], rq.aof) > 0 THEN [res |-> "ERR_AOFID", pid |-> 0]
    ELSE IF acc[m].pid >= rq.pid \/ acc[m].host # 0 THEN [res |-> "ERR_PROPOSALID", pid |-> acc[m].pid]
    ELSE IF acc[m].cid >= rq.pid THEN [res |-> "ERR_PROPOSALID", pid |-> acc[m].cid]
    ELSE [res |-> "", pid |-> acc[m].pid]

\* commandHandleCommitCommand (2264-2317)
CommitResult(m, rq) ==
    IF acc[m].pid # rq.pid THEN [res |-> "ERR_PROPOSALID"]
    ELSE IF acc[m].cid >= rq.pid THEN [res |-> "ERR_COMMITID"]
    ELSE [res |-> ""]

DeliverReq(c, m) ==
    /\ Running(c) /\ cand[c].slots[m] = "req"
    /\ LET ph == cand[c].ph
           rq == cand[c].req
       IN CASE ph = "vote" ->
                 /\ cand' = [cand EXCEPT ![c].slots[m] = "rsp", ![c].rsp[m] = [res |-> "", host |-> m, w |-> cfg.w[m], arb |-> cfg.arb[m], aof |-> CurAof(m)]]
                 /\ view' = IF cfg.arb[m] # 0 THEN [view EXCEPT ![m][m] = ArbAof(m)] ELSE view
                 /\ badAccept' = FALSE
                 /\ Log([op |-> "dreq", c |-> c, m |-> m, exp |-> [m |-> m, t |-> Triple(acc[m]), res |-> ""]])
                 /\ UNCHANGED <<acc, saved>>
            [] ph = "prop" ->
                 LET r  == PropResult(m, rq)
                     a1 == IF r.res = "" THEN [acc[m] EXCEPT !.pid = rq.pid] ELSE acc[m]
                 IN /\ cand' = [cand EXCEPT ![c].slots[m] = "rsp", ![c].rsp[m] = r]
                    /\ acc' = [acc EXCEPT ![m] = a1]
                    /\ saved' = IF r.res = "" THEN Persist(m, a1) ELSE saved
                    /\ badAccept' = (r.res = "" /\ cfg.arb[m] = 0 /\ CmpTrue(cfg.aof[m], rq.aof) > 0)
                    /\ Log([op |-> "dreq", c |-> c, m |-> m, exp |-> [m |-> m, t |-> Triple(a1), res |-> r.res]])
                    /\ UNCHANGED view
            [] ph = "commit" ->
                 LET r  == CommitResult(m, rq)
                     a1 == IF r.res = "" THEN [acc[m] EXCEPT !.host = rq.host, !.from = c, !.cid = rq.pid] ELSE acc[m]
                 IN /\ cand' = [cand EXCEPT ![c].slots[m] = "rsp", ![c].rsp[m] = r]
                    /\ acc' = [acc EXCEPT ![m] = a1]
                    /\ saved' = IF r.res = "" THEN Persist(m, a1) ELSE saved
                    /\ badAccept' = FALSE
                    /\ Log([op |-> "dreq", c |-> c, m |-> m, exp |-> [m |-> m, t |-> Triple(a1), res |-> r.res]])
                    /\ UNCHANGED view
    /\ UNCHANGED <<cfg, shadow, dual, nrst>>

\* the reply reaches the candidate (ArbiterMember.DoVote/DoProposal/DoCommit after Request returned)
DeliverRsp(c, m) ==
    /\ Running(c) /\ cand[c].slots[m] = "rsp"
    /\ LET ph == cand[c].ph
           r  == cand[c].rsp[m]
           c0 == [cand[c] EXCEPT !.slots[m] = "done"]
           cn == IF ph = "prop" /\ cfg.arb[m] = 0 /\ CmpTrue(cfg.aof[m], cand[c].req.aof) > 0
                 THEN [c0 EXCEPT !.newer = @ \cup {m}] ELSE c0
           c1 == CASE ph = "vote"   -> [c0 EXCEPT !.resp = Append(@, [host |-> r.host, w |-> r.w, arb |-> r.arb, aof |-> r.aof])]
                   [] ph = "prop"   -> IF r.res = "" THEN [cn EXCEPT !.cnt = @ + 1]
                                       ELSE IF r.res = "ERR_REJECT" THEN [cn EXCEPT !.rej = TRUE]
                                       ELSE IF r.res = "ERR_PROPOSALID" /\ cn.idx < r.pid THEN [cn EXCEPT !.idx = r.pid]
                                       ELSE cn
                   [] ph = "commit" -> IF r.res = "" THEN [c0 EXCEPT !.cnt = @ + 1] ELSE c0
       IN /\ view' = IF ph = "vote" THEN [view EXCEPT ![c][m] = r.aof] ELSE view
          /\ Resolve(c, c1, "drsp", m)
    /\ UNCHANGED <<cfg, nrst>>

LoseReq(c, m) ==
    /\ LoseOK(c, m) /\ Running(c) /\ cand[c].slots[m] = "req"
    /\ Resolve(c, [cand[c] EXCEPT !.slots[m] = "done"], "lreq", m)
    /\ UNCHANGED <<cfg, view, nrst>>

LoseRsp(c, m) ==
    /\ LoseOK(c, m) /\ Running(c) /\ cand[c].slots[m] = "rsp"
    /\ Resolve(c, [cand[c] EXCEPT !.slots[m] = "done"], "lrsp", m)
    /\ UNCHANGED <<cfg, view, nrst>>

-----------------------------------------------------------------------------
\* the winner's voteSucced writes meta.pb (1777); as coded only commitId is stored
WinSave(c) ==
    /\ cand[c].ph = "won"
    /\ cand' = [cand EXCEPT ![c].ph = "saved"]
    /\ saved' = [saved EXCEPT ![c] = acc[c]]
    /\ badAccept' = FALSE
    /\ Log([op |-> "save", c |-> c, m |-> 0, exp |-> [m |-> c, saved |-> acc[c].cid]])
    /\ UNCHANGED <<cfg, acc, view, shadow, dual, nrst>>

\* ArbiterManager.Load(): commitId from meta.pb, proposalId := commitId, nothing else survives
Loaded(s) == IF PersistFixed THEN s ELSE [pid |-> s.cid, cid |-> s.cid, host |-> 0, from |-> 0]

Restart(m) ==
    /\ nrst < MaxRestarts /\ RestartOK(m)
    /\ m \in Cands => ~Running(m)
    /\ acc' = [acc EXCEPT ![m] = Loaded(saved[m])]
    /\ view' = [view EXCEPT ![m] = [x \in Members |-> Z]]
    /\ cand' = IF m \in Cands THEN [cand EXCEPT ![m] = [Cand0 EXCEPT !.round = cand[m].round]] ELSE cand
    /\ shadow' = shadow \ {m}
    /\ nrst' = nrst + 1
    /\ badAccept' = FALSE
    /\ Log([op |-> "restart", c |-> 0, m |-> m, exp |-> [m |-> m, t |-> Triple(Loaded(saved[m]))]])
    /\ UNCHANGED <<cfg, saved, dual>>

Step == \/ \E c \in Cands : StartVote(c) \/ StartProposal(c) \/ StartCommit(c) \/ WinSave(c)
        \/ \E c \in Cands, m \in Members : DeliverReq(c, m) \/ DeliverRsp(c, m) \/ LoseReq(c, m) \/ LoseRsp(c, m)
        \/ \E m \in Members : Restart(m)

Next == /\ Step
        /\ regress' = (regress \/ \E m \in Members : acc'[m].pid < acc[m].pid \/ acc'[m].cid < acc[m].cid)

Spec == Init /\ [][Next]_vars

-----------------------------------------------------------------------------
\* properties (C12)

TypeOK == /\ \A m \in Members : acc[m].pid \in Nat /\ acc[m].cid \in Nat /\ acc[m].host \in 0..N
          /\ \A c \in Cands : cand[c].ph \in Phases

\* accepted and committed numbers never decrease - an action property, so Restart is covered
Monotone == [][\A m \in Members : acc'[m].pid >= acc[m].pid /\ acc'[m].cid >= acc[m].cid]_vars

\* two candidacies that overlap in time never both gather commit majorities
OneWinner == ~dual

\* the proposed member is data-bearing, of non-zero weight, and holds the newest log position among
\* the (majority of) members that answered; ties by weight, then host.  Judged in the append order
\* of the log (CmpTrue); silent when the responders' positions are not totally ordered (wrap-around cycle).
Eligible(R) == {i \in 1..Len(R) : R[i].arb = 0 /\ R[i].w > 0}
Cyclic(R) == \E i, j, k \in Eligible(R) : CmpTrue(R[i].aof, R[j].aof) > 0 /\ CmpTrue(R[j].aof, R[k].aof) > 0 /\ CmpTrue(R[k].aof, R[i].aof) > 0
ChoiceGood(R, h) ==
    /\ Len(R) >= Maj
    /\ \E i \in Eligible(R) :
         /\ R[i].host = h
         /\ Cyclic(R) \/ \A j \in Eligible(R) :
               /\ CmpTrue(R[j].aof, R[i].aof) <= 0
               /\ R[j].aof = R[i].aof => (R[i].w > R[j].w \/ (R[i].w = R[j].w /\ R[i].host >= R[j].host))
ChoiceOK == \A c \in Cands : cand[c].ph \in {"voted", "prop", "proped", "commit", "won", "saved"} => ChoiceGood(cand[c].resp, cand[c].vhost)

\* members whose own log is newer refuse the proposal
NewerRefuses == ~badAccept

\* ... and the candidate honours the refusal: a candidacy that received a refusal "my log is newer" in its
\* proposal round does not win
RefusalHonoured == \A c \in Cands : cand[c].ph \in {"won", "saved"} => ~cand[c].rej

\* end to end: the winner's log position is not older than the log of any data member that answered the
\* proposal round of the winning candidacy (a member that was unreachable may legitimately be newer; the
\* vote round is ChoiceOK's)
NewestWins == \A c \in Cands : cand[c].ph \in {"won", "saved"} => cand[c].newer = {}

Quiescent == \A c \in Cands : ~Running(c) /\ cand[c].ph \notin {"voted", "proped", "won"} /\ (cand[c].ph \in {"idle", "failed"} => (cand[c].round >= MaxRounds \/ ~Guard(c)))

\* counterexample / behaviour export (always TRUE or FALSE exactly as the wrapped predicate)
Cex(name, ok) == ok \/ ~PrintT("CEX " \o name \o " " \o ToJson(hist))
CexOneWinner == Cex("onewinner", OneWinner)
CexChoice == Cex("choice", ChoiceOK)
CexNewer == Cex("newer", NewerRefuses)
CexRefusal == Cex("refusal", RefusalHonoured)
CexNewest == Cex("newest", NewestWins)
\* export form for runs on a DEVIATION of the model: always TRUE, prints the history of every state that refutes
\* the wrapped invariant (TLC goes on, so one run yields the counterexamples of every configuration)
Exp(name, ok) == ok \/ PrintT("CEX " \o name \o " " \o ToJson(hist))
ExpNewest == Exp("newest", NewestWins /\ RefusalHonoured)
NoRegress == ~regress
CexMonotone == Cex("monotone", NoRegress)

=============================================================================

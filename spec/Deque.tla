------------------------------- MODULE Deque -------------------------------
(***************************************************************************)
(* Reference semantics for property C20: every internal queue of slock is  *)
(* a plain double-ended queue (respectively a STABLE priority queue).      *)
(*                                                                         *)
(* This module has no variables: it defines the abstract value of a queue  *)
(* and, for every operation name the conformance driver can record, the    *)
(* abstract effect and the return value a plain deque gives.  It is used   *)
(*   - by spec/QueueProg.tla, which lets TLC enumerate ALL operation       *)
(*     programs up to a depth (they are replayed on the real queues), and  *)
(*   - by spec/mon/MonQueue.tla, the trace specification that judges the   *)
(*     traces recorded from the real queues, and                           *)
(*   - by spec/NodeQueue.tla (implementation-shaped model) as the          *)
(*     refinement target.                                                  *)
(*                                                                         *)
(* Abstract value: [q, mode].  q is a sequence of elements                 *)
(*     [id, pr, live]    id > 0 unique, pr = priority, live = not removed  *)
(* in SERVICE ORDER (q[1] is what Pop/Head return).  Two kinds of "hole":  *)
(*   id = 0      a slot niled in place (LongWaitLockQueue.Remove, the      *)
(*               millisecond sweepers' nodeQueues[j] = nil): it still      *)
(*               counts in Len, Pop/Head return nil for it, Restructuring  *)
(*               squeezes it out;                                          *)
(*   live=FALSE  an element flagged removed by its owner (lock.locked = 0, *)
(*               lock.timeouted): it stays an ordinary element until the   *)
(*               queue purges it (MonQueue allows a purge at any time).    *)
(* mode "fifo": Push appends.  mode "prio": Push inserts behind the last   *)
(* element of priority >= its own (stable).                                *)
(*                                                                         *)
(* Maintenance operations have the effect their callers rely on:           *)
(*   reset / rellac / lwfree   clear (callers drain first; clearing is     *)
(*                             what they rely on in every state)           *)
(*   resize / free / shrink    identity on contents                        *)
(*   restruct                  remove id-0 holes, order kept               *)
(*   repush                    switch to priority mode, stable re-ordering *)
(*   pushleft                  prepend, or refuse ("full", ret = -1)       *)
(*                             leaving the queue unchanged                 *)
(***************************************************************************)
EXTENDS Integers, Sequences, FiniteSets

Elem(id, pr) == [id |-> id, pr |-> pr, live |-> TRUE]
HoleElem     == [id |-> 0, pr |-> 0, live |-> FALSE]

Ids(q)   == [i \in 1..Len(q) |-> q[i].id]
IdSet(q) == {q[i].id : i \in 1..Len(q)} \ {0}

PosOf(q, x) ==
    LET I == {i \in 1..Len(q) : q[i].id = x}
    IN IF x = 0 \/ I = {} THEN 0 ELSE CHOOSE i \in I : \A j \in I : i <= j

InitQ(prio) == [q |-> <<>>, mode |-> IF prio THEN "prio" ELSE "fifo"]

InsertAt(q, k, e) == SubSeq(q, 1, k) \o <<e>> \o SubSeq(q, k + 1, Len(q))

\* stable priority insert (highest priority first, arrival order within one priority)
PrioInsert(q, e) ==
    LET Before == {i \in 1..Len(q) : q[i].pr >= e.pr}
        k == IF Before = {} THEN 0 ELSE CHOOSE i \in Before : \A j \in Before : j <= i
    IN InsertAt(q, k, e)

RECURSIVE SortDesc(_)
SortDesc(q) == IF q = <<>> THEN <<>> ELSE PrioInsert(SortDesc(SubSeq(q, 1, Len(q) - 1)), q[Len(q)])

NoHoles(q) == SelectSeq(q, LAMBDA z : z.id # 0)

\* e: [op, x, pr, ret]
Effect(S, e) ==
    LET q == S.q IN
    CASE e.op = "push"     -> [S EXCEPT !.q = IF S.mode = "prio" THEN PrioInsert(q, Elem(e.x, e.pr))
                                                                 ELSE Append(q, Elem(e.x, e.pr))]
      [] e.op = "pushleft" -> IF e.ret = 0 THEN [S EXCEPT !.q = <<Elem(e.x, e.pr)>> \o q] ELSE S
      [] e.op = "pop"      -> IF q = <<>> THEN S ELSE [S EXCEPT !.q = Tail(q)]
      [] e.op = "popright" -> IF q = <<>> THEN S ELSE [S EXCEPT !.q = SubSeq(q, 1, Len(q) - 1)]
      [] e.op \in {"reset", "rellac", "lwfree"} -> [q |-> <<>>, mode |-> "fifo"]
      [] e.op \in {"resize", "free", "shrink", "getlock"} -> S
      [] e.op = "restruct" -> [S EXCEPT !.q = NoHoles(q)]
      [] e.op = "remove"   -> LET i == PosOf(q, e.x) IN IF i = 0 THEN S ELSE [S EXCEPT !.q[i] = HoleElem]
      [] e.op = "kill"     -> LET i == PosOf(q, e.x) IN IF i = 0 THEN S ELSE [S EXCEPT !.q[i].live = FALSE]
      [] e.op = "repush"   -> [q |-> SortDesc(q), mode |-> "prio"]
      [] OTHER             -> S

\* the set of return values a plain deque may give (a singleton except for pushleft)
Returns(S, e) ==
    LET q == S.q IN
    CASE e.op = "pop"      -> {IF q = <<>> THEN 0 ELSE q[1].id}
      [] e.op = "popright" -> {IF q = <<>> THEN 0 ELSE q[Len(q)].id}
      [] e.op = "pushleft" -> {0, -1}
      [] e.op = "getlock"  -> LET i == PosOf(q, e.x) IN {IF i > 0 /\ q[i].live THEN e.x ELSE 0}
      [] OTHER             -> {0}

\* read-only observations
LenOf(S)  == Len(S.q)
HeadOf(S) == IF S.q = <<>> THEN 0 ELSE S.q[1].id
TailOf(S) == IF S.q = <<>> THEN 0 ELSE S.q[Len(S.q)].id
MaxPrioOf(S) == IF S.q = <<>> THEN 0 ELSE S.q[1].pr

\* A purge drops flagged (not live) elements only and keeps the order of the rest.
\* PurgeOK(q, it): the iteration `it` (sequence of ids) is q with some flagged elements dropped.
Restrict(q, it) == LET R == {it[i] : i \in 1..Len(it)} IN SelectSeq(q, LAMBDA z : z.id \in R)
PurgeOK(q, it) ==
    LET R == {it[i] : i \in 1..Len(it)} IN
    /\ Ids(SelectSeq(q, LAMBDA z : z.id \in R)) = it
    /\ \A i \in 1..Len(q) : q[i].live => q[i].id \in R
=============================================================================

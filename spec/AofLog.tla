-------------------------------- MODULE AofLog --------------------------------
(***************************************************************************)
(* The persistence subsystem of slock (server/aof.go, the AOF hooks of     *)
(* server/db.go and server/lock.go) as the code is built:                  *)
(*                                                                         *)
(*   LOGGING discipline  - which 64-byte records are written when:         *)
(*       at grant (delay 0), at a visit of the expiry wheel once the hold  *)
(*       is older than its delay (AddExpried: ages 0,2,5,9,14,... only),   *)
(*       at every re-lock / one-level unlock / unlock / expiry of a        *)
(*       persisted hold; remaining lifetime in the unit of the request;    *)
(*       the attached value with every LOCK record, with an UNLOCK record  *)
(*       only if not yet logged; one write per record, then its value      *)
(*       (AofFileBufferSize 64); rotation at a size threshold; compaction  *)
(*       = closed files filtered through LockDB.HasLock into a tmp file,   *)
(*       inputs removed, tmp renamed (records, then values).               *)
(*   REPLAY discipline   - AofReplay!Recover (shared with the trace spec   *)
(*       MonAof, where it is validated against real recoveries).           *)
(*                                                                         *)
(* TLC checks the first against the second:                                *)
(*   C07_Replay      at every state (the driver drains the queue after     *)
(*                   each step), for every restart second T,               *)
(*                   Recover(disk, T) = the persisted live holds           *)
(*   C07_Discipline  persist-immediately / older-than-delay holds are in   *)
(*                   the log, never-persist holds are not                  *)
(*   C08_Prefix      every crash image of the last write batch (j whole    *)
(*                   records; record j+1 torn at any field boundary; its    *)
(*                   value missing) starts and recovers a record prefix    *)
(*   C08 2nd epoch   = C07_Replay after the action CrashRestart            *)
(*   C16_Steps       at every step of a compaction the directory starts    *)
(*                   and Recover(disk) = Recover(replaced files + appends) *)
(*                                                                         *)
(* Deliberate deviations of the code are switches (TRUE = repaired):       *)
(*   A2Fixed   torn tail: FALSE = ReadLock accepts a short final read (the *)
(*             torn record is replayed padded with the previous record's   *)
(*             bytes) and append-mode reopen keeps the partial bytes       *)
(*             (repaired in the code by 7883626: TRUE is the default)      *)
(*   A2bFixed  FALSE = a whole record whose value frame was never written  *)
(*             stays in the file on reopen: values appended later shift    *)
(*             into its slot                                               *)
(*   A3Fixed   FALSE = inputs removed before rewrite.aof.tmp is renamed,   *)
(*             record file and value file renamed in two steps             *)
(*   A11Fixed  FALSE = persistence is attempted only at wheel visits       *)
(*   A26Fixed  FALSE = a later holder inherits the delay of the oldest     *)
(* Value-less deadline updates (LOCK with the update flag by a holder,      *)
(* UpdateReq) write a LOCK record with the update flag; the compaction     *)
(* filter keeps such a record only while it still describes the holder's   *)
(* terms (HasLock -> CheckLockedEqual, tolerance EqLater / EqEarlier units *)
(* around the deadline; the engine's own +1 s drift between the deadline   *)
(* and what the record replays to is why the later side needs 1).  With    *)
(* EqLater = 0 (a mutation, not the code) TLC must refute C16_Steps: the   *)
(* current update record is dropped, the compacted files recover the       *)
(* ORIGINAL deadline.                                                      *)
(* With a switch FALSE TLC must refute the invariant; the counterexample   *)
(* (variable hist, printed as JSON by the CEX wrappers) is replayed on the *)
(* real code.  Finding A27 (expired records skipped one by one) needs no   *)
(* switch: it is a property of the shared replay operator and shows as    *)
(* soon as the constants allow re-entrant holds (Rcounts # {0}).           *)
(***************************************************************************)
EXTENDS Integers, Sequences, FiniteSets, TLC, Json, SequencesExt, FiniteSetsExt

CONSTANTS
    Keys, Lids,            \* small ints
    Counts, Rcounts,       \* request Count / Rcount alphabets
    Exps,                  \* Expried values (in the unit of the request)
    Classes,               \* subset of {"imm", "dflt", "never"}
    Units,                 \* subset of {"s", "m"}  (m = minute flag, MinuteLen seconds long)
    Vals,                  \* value alphabet: subset of {0, 1, 2}; 0 = request carries no value
    Delay,                 \* db_lock_aof_time
    MinuteLen,
    RewriteAt,             \* records per append file (rotation + compaction threshold)
    MaxOps, MaxNow, MaxOutage,
    Crash,                 \* TRUE: one CrashRestart allowed (C08 second epoch)
    Admin,                 \* TRUE: the admin rewrite trigger is enabled
    A2Fixed, A2bFixed, A3Fixed, A11Fixed, A26Fixed,
    UpdExps,               \* Expried values of value-less deadline UPDATEs (update flag) by a holder; {} = no such requests
    Leftover,              \* TRUE: the process may die while rewrite.aof.tmp is being written / before anything is removed; the restart's
                           \* start-up compaction then STARTS on the leftover rewrite.aof.tmp(.dat)
    TmpDatKept,            \* FALSE as the code is (both leftover files are appended to: duplicated records, frames stay aligned).  TRUE (a
                           \* mutation): the leftover record file is removed, the leftover value file is kept and appended to
    ValueFirst,            \* FALSE as the code is: the record of a request enters the write path before its value.  TRUE (a mutation):
                           \* the value is written first - a stop between the two leaves a value of NO record in the value file
    EqLater, EqEarlier,    \* tolerance (in units of the record) of LockManager.CheckLockedEqual: 1 / 1 as the code is
    Turns                  \* {"any"} for exhaustive checking; class tokens to balance random walks (AofLogSim)

R == INSTANCE AofReplay

VARIABLES now, eng, files, rw, cpt, lastn, epoch, nops, hist, turn
vars == <<now, eng, files, rw, cpt, lastn, epoch, nops, hist, turn>>
view == <<now, eng, files, rw, cpt, lastn, epoch, nops>>

INF == R!INF
NEVER == 255
EF(u) == IF u = "m" THEN 64 ELSE 0
ULen(u) == IF u = "m" THEN MinuteLen ELSE 1
DelayOf(cls) == IF cls = "imm" THEN 0 ELSE IF cls = "never" THEN NEVER ELSE Delay
ValStr(v) == IF v = 0 THEN "" ELSE IF v = 1 THEN "v1" ELSE "v2"

NoKey == [H |-> <<>>, val |-> 0, vaof |-> FALSE]
DepthSum(H) == R!DepthSum(H)
IdxOfLid(H, lid) == R!IdxOfLid(H, lid)
RemoveIdx(Q, i) == R!RemoveIdx(Q, i)

-----------------------------------------------------------------------------
\* records (same field names as the decoded records of the real files); t = db.currentTime

\* Aof.GetAofLockExpriedTime: remaining lifetime at command time ct, in the unit of the hold
Remaining(h, ct) ==
    LET rem == h.exp - ct IN
    IF R!Bit(h.ef, 64)
    THEN IF rem >= MinuteLen /\ rem % MinuteLen = 0 THEN rem \div MinuteLen
         ELSE IF rem > 0 THEN (rem \div MinuteLen) + 1 ELSE 0
    ELSE IF rem > 0 THEN rem ELSE 0

CT(h, t) == IF h.exp > t THEN t ELSE h.exp

\* AofChannel.Push for a LOCK record of hold h on key k; the value travels with every LOCK record
LockRec(k, ks, h, updated, t) ==
    [ty |-> 1, ct |-> CT(h, t), fl |-> 0, db |-> 0, lid |-> h.lid, key |-> k,
     af |-> (IF updated THEN 8 ELSE 0) + (IF ks.val # 0 THEN 8192 ELSE 0),
     et |-> Remaining(h, CT(h, t)), ef |-> h.ef, cnt |-> h.cnt, rc |-> h.rc, data |-> ValStr(ks.val)]

\* ... for an UNLOCK record: the value only if it is not in the log yet (LockManager.AofLockData)
UnlockRec(k, ks, h, ucnt, urc, flag, t) ==
    LET withv == ks.val # 0 /\ ~ks.vaof IN
    [ty |-> 2, ct |-> CT(h, t), fl |-> 0, db |-> 0, lid |-> h.lid, key |-> k,
     af |-> flag + (IF withv THEN 8192 ELSE 0),
     et |-> Remaining(h, CT(h, t)), ef |-> h.ef, cnt |-> ucnt, rc |-> urc, data |-> IF withv THEN ValStr(ks.val) ELSE ""]

-----------------------------------------------------------------------------
\* the directory: append files (the last one is open), rewrite file, compaction state
\* file = [idx, recs, junk]   junk > 0: partial bytes of a torn record sit behind record number junk-1+1 ... see CrashRestart
\* rw   = [present, recs, dat]  dat = FALSE: rewrite.aof exists but rewrite.aof.dat does not (between the two renames)
\* cpt  = [st, inputs (indices of files), rwin (the old rewrite file is an input), tmp, ref (the replaced files), left]

NoRw == [present |-> FALSE, recs |-> <<>>, dat |-> TRUE]
\* a removed file stays in `files` (indices stay valid) as [idx, recs <<>>, junk 0, gone TRUE]
Gone(f) == "gone" \in DOMAIN f /\ f.gone
Idle == [st |-> "idle", inputs |-> {}, rwin |-> FALSE, tmp |-> <<>>, refrw |-> NoRw, reffiles |-> <<>>, left |-> <<>>,
         lo |-> <<>>,          \* records of a rewrite.aof.tmp left behind by a compaction that died (their frames sit in rewrite.aof.tmp.dat)
         fresh |-> FALSE]      \* the tmp file is written, nothing has been removed or renamed yet

\* Values are not addressed: the i-th value-carrying record of a file owns the i-th frame of its value file.  A file that
\* kept an ORPHAN frame (a value written ahead of a record that never reached the record file, see ValueFirst) hands every
\* value-carrying record appended later the frame of its predecessor.
RECURSIVE ShiftFrom(_, _, _)
ShiftFrom(recs, i, carry) ==
    IF i > Len(recs) THEN recs
    ELSE IF R!HasData(recs[i]) THEN ShiftFrom([recs EXCEPT ![i].data = carry], i + 1, recs[i].data)
    ELSE ShiftFrom(recs, i + 1, carry)
RecsOf(f) == IF "orph" \in DOMAIN f THEN ShiftFrom(f.recs, f.orph.at + 1, f.orph.val) ELSE f.recs
AllRecsL(F) == FoldLeft(LAMBDA acc, f : acc \o RecsOf(f), <<>>, F)

\* Aof.PushLock for a batch of records (one write per record); rotation when the file reaches the threshold; a
\* rotation starts a compaction unless one is running.  lastn = records of the batch that sit in the newest file.
RECURSIVE Append1(_, _, _, _)
Append1(F, C, n, rs) ==
    IF rs = <<>> THEN [files |-> F, cpt |-> C, lastn |-> n]
    ELSE LET F1 == [F EXCEPT ![Len(F)].recs = Append(@, Head(rs))]
             full == Len(F1[Len(F1)].recs) >= RewriteAt
             F2 == IF full THEN Append(F1, [idx |-> F1[Len(F1)].idx + 1, recs |-> <<>>, junk |-> 0]) ELSE F1
             C2 == IF full /\ C.st = "idle" THEN [C EXCEPT !.st = "pick"] ELSE C
         IN Append1(F2, C2, IF full THEN 0 ELSE n + 1, Tail(rs))

Write(rs) == LET r == Append1(files, cpt, 0, rs)
             IN /\ files' = r.files /\ cpt' = r.cpt /\ lastn' = r.lastn

-----------------------------------------------------------------------------
\* engine (sequential, Timeout 0, no waiters): LockDB.Lock / UnLock / expiry sweep with their AOF pushes

\* LockDB.AddExpried at second t: next wheel visit (after the sweep of second t, checkExpriedTime = t + 1)
NextVisit(h, t) == IF h.cc > 8 THEN h.exp
                   ELSE LET v == (t + 1) + h.cc IN IF h.exp < v THEN (IF h.exp < t + 1 THEN t + 1 ELSE h.exp) ELSE v

\* persistence attempt of AddExpried: one LOCK record per level
PersistIfDue(k, ks, h, t) ==
    IF ~h.isAof /\ h.aofT # NEVER /\ t - h.start >= h.aofT
    THEN [h |-> [h EXCEPT !.isAof = TRUE], recs |-> [i \in 1..h.depth |-> LockRec(k, ks, h, FALSE, t)], logged |-> TRUE]
    ELSE [h |-> h, recs |-> <<>>, logged |-> FALSE]

LockReq(k, lid, cnt, rc, ex, cls, u, v) ==
    LET ks == eng[k]
        H  == ks.H
        i  == IdxOfLid(H, lid)
        ks1 == IF v # 0 THEN [ks EXCEPT !.val = v, !.vaof = FALSE] ELSE ks
        dl == now + ex * ULen(u) + 1
    IN
    /\ nops < MaxOps
    /\ IF DepthSum(H) > 0 /\ i > 0 THEN
          \* re-entrant lock by the holder: depth + 1, the request replaces the holder's terms
          /\ H[i].depth <= rc /\ H[i].cls = cls
          /\ LET h2 == [H[i] EXCEPT !.depth = @ + 1, !.cnt = cnt, !.rc = rc, !.ef = EF(u), !.start = now, !.exp = dl]
                 rs == IF h2.isAof THEN <<LockRec(k, ks1, h2, TRUE, now)>> ELSE <<>>
                 ks2 == [ks1 EXCEPT !.H[i] = h2, !.vaof = IF rs # <<>> /\ ks1.val # 0 THEN TRUE ELSE @]
             IN /\ eng' = [eng EXCEPT ![k] = ks2]
                /\ Write(rs)
       ELSE
          /\ R!CanLock(H, cnt)
          /\ LET h0 == [lid |-> lid, depth |-> 1, cnt |-> cnt, rc |-> rc, ef |-> EF(u), exp |-> dl, start |-> now, cls |-> cls,
                        aofT |-> IF H = <<>> \/ A26Fixed THEN DelayOf(cls) ELSE H[1].aofT,
                        isAof |-> FALSE, cc |-> 1, nextv |-> 0]
                 h1 == [h0 EXCEPT !.nextv = NextVisit(h0, now)]
                 p  == PersistIfDue(k, ks1, h1, now)
                 ks2 == [ks1 EXCEPT !.H = Append(H, p.h), !.vaof = IF p.logged /\ ks1.val # 0 THEN TRUE ELSE @]
             IN /\ eng' = [eng EXCEPT ![k] = ks2]
                /\ Write(p.recs)
    /\ nops' = nops + 1
    /\ hist' = Append(hist, [op |-> "lock", key |-> k, lid |-> lid, cnt |-> cnt, rc |-> rc, ex |-> ex, cls |-> cls, unit |-> u, val |-> v])
    /\ UNCHANGED <<now, rw, epoch>>

UnlockReq(k, lid, rc) ==
    LET ks == eng[k]
        H  == ks.H
        i  == IdxOfLid(H, lid)
    IN
    /\ nops < MaxOps
    /\ i > 0
    /\ IF H[i].depth > 1 /\ rc > 0 THEN
          LET h2 == [H[i] EXCEPT !.depth = @ - 1]
              rs == IF h2.isAof THEN <<UnlockRec(k, ks, h2, 0, rc, 8, now)>> ELSE <<>>
              ks2 == [ks EXCEPT !.H[i] = h2, !.vaof = IF rs # <<>> /\ ks.val # 0 THEN TRUE ELSE @]
          IN /\ eng' = [eng EXCEPT ![k] = ks2] /\ Write(rs)
       ELSE
          LET rs == IF H[i].isAof THEN <<UnlockRec(k, ks, H[i], 0, rc, 0, now)>> ELSE <<>>
              H2 == RemoveIdx(H, i)
              ks2 == IF H2 = <<>> THEN NoKey ELSE [ks EXCEPT !.H = H2, !.vaof = IF rs # <<>> /\ ks.val # 0 THEN TRUE ELSE @]
          IN /\ eng' = [eng EXCEPT ![k] = ks2] /\ Write(rs)
    /\ nops' = nops + 1
    /\ hist' = Append(hist, [op |-> "unlock", key |-> k, lid |-> lid, rc |-> rc])
    /\ UNCHANGED <<now, rw, epoch>>

\* value-less deadline update by a holder (LockDB.Lock, update-flag branch -> LockManager.UpdateLockedLock): the
\* request re-states the holder's Count / Rcount and moves the deadline; a persisted hold logs it at once
UpdateReq(k, lid, ex) ==
    LET ks == eng[k]
        H  == ks.H
        i  == IdxOfLid(H, lid)
        u  == IF i > 0 /\ R!Bit(H[i].ef, 64) THEN "m" ELSE "s"       \* the update keeps the unit of the hold
        dl == now + ex * ULen(u) + 1
    IN
    /\ nops < MaxOps
    /\ DepthSum(H) > 0 /\ i > 0
    /\ LET h2 == [H[i] EXCEPT !.ef = EF(u), !.start = now, !.exp = dl]
           rs == IF h2.isAof THEN <<[LockRec(k, ks, h2, TRUE, now) EXCEPT !.fl = 2]>> ELSE <<>>
           ks2 == [ks EXCEPT !.H[i] = h2, !.vaof = IF rs # <<>> /\ ks.val # 0 THEN TRUE ELSE @]
       IN /\ eng' = [eng EXCEPT ![k] = ks2]
          /\ Write(rs)
    /\ nops' = nops + 1
    /\ hist' = Append(hist, [op |-> "update", key |-> k, lid |-> lid, cnt |-> H[i].cnt, rc |-> H[i].rc, ex |-> ex, cls |-> H[i].cls, unit |-> u])
    /\ UNCHANGED <<now, rw, epoch>>

\* the expiry sweep of second t visits every entry whose slot is due
RECURSIVE SweepKey(_, _, _, _, _)
SweepKey(k, ks, i, t, acc) ==           \* returns [ks, recs]
    IF i > Len(ks.H) THEN [ks |-> IF ks.H = <<>> THEN NoKey ELSE ks, recs |-> acc]
    ELSE LET h == ks.H[i]
             due == h.nextv <= t
         IN
         IF h.exp > t /\ (due \/ (A11Fixed /\ ~h.isAof)) THEN
               LET h1 == IF due THEN [h EXCEPT !.cc = @ + 1] ELSE h
                   h2 == IF due THEN [h1 EXCEPT !.nextv = NextVisit(h1, t)] ELSE h1
                   p  == PersistIfDue(k, ks, h2, t)
                   ks2 == [ks EXCEPT !.H[i] = p.h, !.vaof = IF p.logged /\ ks.val # 0 THEN TRUE ELSE @]
               IN SweepKey(k, ks2, i + 1, t, acc \o p.recs)
         ELSE IF h.exp <= t /\ due THEN
               \* doExpried
               LET rs == IF h.isAof THEN <<UnlockRec(k, ks, h, h.cnt, 0, 4, t)>> ELSE <<>>
                   ks2 == [ks EXCEPT !.H = RemoveIdx(@, i), !.vaof = IF rs # <<>> /\ ks.val # 0 THEN TRUE ELSE @]
               IN SweepKey(k, ks2, i, t, acc \o rs)
         ELSE SweepKey(k, ks, i + 1, t, acc)

KeySeq == SetToSeq(Keys)

Tick ==
    /\ now < MaxNow
    /\ now' = now + 1
    /\ LET res == [k \in Keys |-> SweepKey(k, eng[k], 1, now + 1, <<>>)]
       IN /\ eng' = [k \in Keys |-> res[k].ks]
          /\ Write(FoldLeft(LAMBDA acc, k : acc \o res[k].recs, <<>>, KeySeq))
    /\ hist' = Append(hist, [op |-> "tick"])
    /\ UNCHANGED <<rw, epoch, nops>>

-----------------------------------------------------------------------------
\* compaction (Aof.rewriteAofFiles): pick inputs, write rewrite.aof.tmp, remove inputs, rename

EngState == [k \in {kk \in Keys : eng[kk].H # <<>>} |-> eng[k]]

\* LockManager.CheckLockedEqual: does the record still describe the holder's terms?  The deadline the record replays to
\* at `now` against the holder's, with the tolerance of the code (one unit either way), and Count / Rcount
CheckEq(h, r) ==
    LET u == R!UnitOf(r.ef)
        expd == now + R!ReplayExpried(r, now) * u + 1
    IN /\ IF expd > h.exp THEN expd - h.exp <= EqLater * u ELSE h.exp - expd <= EqEarlier * u
       /\ r.cnt = h.cnt /\ r.rc = h.rc

\* LockDB.HasLock
HasLock(r) ==
    LET ks == eng[r.key] IN
    /\ DepthSum(ks.H) > 0
    /\ IF r.ty = 1 /\ R!ReplayExpried(r, now) = 0
       THEN (IF R!HasData(r) THEN ks.val # 0 /\ ValStr(ks.val) = r.data ELSE ks.val = 0)
       ELSE IF r.ty = 1 /\ R!Bit(r.fl, 2)
       THEN \* a record written by an update: kept while the key still has the value it carries, else while it is current
            LET i == IdxOfLid(ks.H, r.lid) IN
            /\ i > 0
            /\ IF R!HasData(r) /\ ks.val # 0 /\ ValStr(ks.val) = r.data THEN TRUE ELSE CheckEq(ks.H[i], r)
       ELSE IdxOfLid(ks.H, r.lid) > 0

Rewritten(r) == [r EXCEPT !.af = IF R!Bit(@, 1) THEN @ ELSE @ + 1]

AdminRewrite ==       \* Admin REWRITEAOF: rotate, start a compaction
    /\ Admin /\ cpt.st = "idle" /\ nops < MaxOps
    /\ files' = Append(files, [idx |-> files[Len(files)].idx + 1, recs |-> <<>>, junk |-> 0])
    /\ cpt' = [cpt EXCEPT !.st = "pick"]
    /\ lastn' = 0
    /\ nops' = nops + 1
    /\ hist' = Append(hist, [op |-> "rewrite"])
    /\ UNCHANGED <<now, eng, rw, epoch>>

CptWrite ==           \* findRewriteAofFiles + loadRewriteAofFiles: every closed file is an input
    /\ cpt.st = "pick"
    /\ LET ins == 1..(Len(files) - 1)
           all == (IF rw.present THEN rw.recs ELSE <<>>) \o AllRecsL(SubSeq(files, 1, Len(files) - 1))
           keep == SelectSeq(all, LAMBDA r : ~R!Skipped(r, now) /\ HasLock(r))
           new == [i \in 1..Len(keep) |-> Rewritten(keep[i])]
           \* the output file: opened in append mode, so a leftover rewrite.aof.tmp(.dat) is appended to (records duplicated, every
           \* record still followed by its own frame).  TmpDatKept: record file started afresh, value file not - the i-th
           \* value-carrying record owns the i-th frame of  leftover frames . new frames
           DataOf(rs) == LET I == SelectSeq([i \in 1..Len(rs) |-> i], LAMBDA i : R!HasData(rs[i])) IN [x \in 1..Len(I) |-> rs[I[x]].data]
           blobs == DataOf(cpt.lo) \o DataOf(new)
           out == IF TmpDatKept
                  THEN LET I == SelectSeq([i \in 1..Len(new) |-> i], LAMBDA i : R!HasData(new[i]))
                           Ord(i) == CHOOSE x \in 1..Len(I) : I[x] = i
                       IN [i \in 1..Len(new) |-> IF R!HasData(new[i]) THEN [new[i] EXCEPT !.data = blobs[Ord(i)]] ELSE new[i]]
                  ELSE cpt.lo \o new
       IN cpt' = [st |-> "written", inputs |-> ins, rwin |-> rw.present, tmp |-> out, lo |-> <<>>, fresh |-> TRUE,
                  refrw |-> rw, reffiles |-> SubSeq(files, 1, Len(files) - 1),
                  left |-> (IF rw.present THEN <<0>> ELSE <<>>) \o SelectSeq([i \in 1..(Len(files) - 1) |-> i], LAMBDA i : ~Gone(files[i]))]
    /\ hist' = Append(hist, [op |-> "cpt", step |-> "tmp-written"])
    /\ UNCHANGED <<now, eng, files, rw, lastn, epoch, nops>>


CptStep ==
    /\ cpt.st = "written"
    /\ IF ~A3Fixed THEN
          IF cpt.left # <<>> THEN
              \* os.Remove of the next input (record file and value file)
              LET x == Head(cpt.left) IN
              /\ IF x = 0 THEN rw' = NoRw /\ UNCHANGED files
                 ELSE files' = [files EXCEPT ![x] = [idx |-> @.idx, recs |-> <<>>, junk |-> 0, gone |-> TRUE]] /\ UNCHANGED rw
              /\ cpt' = [cpt EXCEPT !.left = Tail(@), !.fresh = FALSE]
              /\ hist' = Append(hist, [op |-> "cpt", step |-> "removed"])
          ELSE
              \* rename rewrite.aof.tmp -> rewrite.aof (the value file follows in a second step)
              /\ rw' = [present |-> TRUE, recs |-> cpt.tmp, dat |-> FALSE]
              /\ cpt' = [cpt EXCEPT !.st = "renamed", !.fresh = FALSE]
              /\ hist' = Append(hist, [op |-> "cpt", step |-> "renamed"])
              /\ UNCHANGED files
       ELSE
          \* repaired protocol: publish the new pair atomically, then remove the replaced append files
          /\ rw' = [present |-> TRUE, recs |-> cpt.tmp, dat |-> TRUE]
          /\ cpt' = [cpt EXCEPT !.st = "published", !.left = SelectSeq(@, LAMBDA x : x # 0), !.fresh = FALSE]
          /\ hist' = Append(hist, [op |-> "cpt", step |-> "published"])
          /\ UNCHANGED files
    /\ UNCHANGED <<now, eng, lastn, epoch, nops>>

CptFinish ==
    \/ /\ cpt.st = "renamed"
       /\ rw' = [rw EXCEPT !.dat = TRUE]
       /\ cpt' = Idle
       /\ hist' = Append(hist, [op |-> "cpt", step |-> "renamed-dat"])
       /\ UNCHANGED <<now, eng, files, lastn, epoch, nops>>
    \/ /\ cpt.st = "published"
       /\ IF cpt.left # <<>>
          THEN /\ files' = [files EXCEPT ![Head(cpt.left)] = [idx |-> @.idx, recs |-> <<>>, junk |-> 0, gone |-> TRUE]]
               /\ cpt' = [cpt EXCEPT !.left = Tail(@)]
          ELSE /\ cpt' = Idle /\ UNCHANGED files
       /\ hist' = Append(hist, [op |-> "cpt", step |-> "removed"])
       /\ UNCHANGED <<now, eng, rw, lastn, epoch, nops>>

\* the process dies while the compaction writes rewrite.aof.tmp (k of its records are on disk) or right after; the restart
\* replays the log (the tmp files are ignored) and starts its start-up compaction in the directory as it is
CptCrashRestart ==
    /\ Leftover /\ epoch = 1 /\ cpt.st = "written" /\ cpt.fresh
    /\ \E k \in 0..Len(cpt.tmp) :
         LET st == R!RecoverRecs((IF rw.present THEN rw.recs ELSE <<>>) \o AllRecsL(SelectSeq(files, LAMBDA f : ~Gone(f))), now)
             AsHold(g) == [lid |-> g.lid, depth |-> g.depth, cnt |-> g.cnt, rc |-> g.rc, ef |-> g.ef, exp |-> g.exp, start |-> now,
                           cls |-> "imm", aofT |-> 0, isAof |-> TRUE, cc |-> 1, nextv |-> now + 2]
             VNum(s) == IF s = "v1" THEN 1 ELSE IF s = "v2" THEN 2 ELSE 0
         IN /\ eng' = [kk \in Keys |-> IF <<0, kk>> \in DOMAIN st
                                       THEN [H |-> [i \in 1..Len(st[<<0, kk>>].H) |-> AsHold(st[<<0, kk>>].H[i])],
                                             val |-> VNum(st[<<0, kk>>].data), vaof |-> TRUE]
                                       ELSE NoKey]
            /\ cpt' = [Idle EXCEPT !.st = "pick", !.lo = SubSeq(cpt.tmp, 1, k)]
            /\ hist' = Append(hist, [op |-> "cptcrash", written |-> k])
    /\ epoch' = 2
    /\ lastn' = 0
    /\ UNCHANGED <<now, files, rw, nops>>

-----------------------------------------------------------------------------
\* what a start loads: rewrite.aof, then the append files by index

DiskRecsOf(F, RW) == (IF RW.present THEN RW.recs ELSE <<>>) \o AllRecsL(SelectSeq(F, LAMBDA f : ~Gone(f)))

\* the start fails when rewrite.aof has a value-carrying record but no value file ("data file error"),
\* or when a file holds partial bytes in the middle (second epoch after an unrepaired torn tail)
StartFails(F, RW) ==
    \/ RW.present /\ ~RW.dat /\ \E i \in 1..Len(RW.recs) : R!HasData(RW.recs[i])
    \/ \E i \in 1..Len(F) : ~Gone(F[i]) /\ F[i].junk > 0 /\ F[i].junk <= Len(F[i].recs)

RecoverDisk(F, RW, T) == R!RecoverRecs(DiskRecsOf(F, RW), T)

\* projection of the engine to the shape Recover produces, restricted to persisted holds
Proj(h) == [lid |-> h.lid, depth |-> h.depth, cnt |-> h.cnt, rc |-> h.rc, exp |-> h.exp, ef |-> h.ef]
Persisted(T) ==
    LET K == {k \in Keys : \E i \in 1..Len(eng[k].H) : eng[k].H[i].isAof}
    IN [k \in {<<0, kk>> : kk \in K} |->
          [H |-> LET Hs == SelectSeq(eng[k[2]].H, LAMBDA h : h.isAof) IN [i \in 1..Len(Hs) |-> Proj(Hs[i])],
           data |-> ValStr(eng[k[2]].val)]]

Outages == now..(now + MaxOutage)

\* C07: replaying the log at second T gives the persisted holds that are still live at T (holds whose deadline
\* is within one unit + 1 s of T may or may not be there), with the value of the key
ReplayOK(T) ==
    /\ ~StartFails(files, rw)
    /\ R!StateEqAt(RecoverDisk(files, rw, T), Persisted(T), T)

Quiescent == cpt.st = "idle"

C07_Replay == Quiescent => \A T \in Outages : ReplayOK(T)

C07_Discipline ==
    \A k \in Keys : \A i \in 1..Len(eng[k].H) :
        LET h == eng[k].H[i] IN
        /\ (h.cls = "imm" => h.isAof)
        /\ (h.cls = "dflt" /\ now - h.start > Delay => h.isAof)
        /\ (h.cls = "never" => ~h.isAof)

-----------------------------------------------------------------------------
\* C08: crash images of the last write batch.  The batch is the last `lastn` records of the newest file; image (j, c):
\* j of them are whole; c = 0: nothing more; c in 1..13: record j+1 is torn after its c-th field; c = 14: record j+1 is
\* whole but its value is not written yet.

FieldOrder == <<"len", "ty", "id", "ct", "fl", "db", "lid", "key", "st", "af", "et", "ef", "cnt", "rc">>

\* the record the code reconstructs from a torn record (A2): the first c fields are new, the rest are the bytes of
\* the record read before it (aof.go ReadLock: the buffer of the AofLock is reused, the short read is accepted)
Mixed(new, old, c) ==
    [ty  |-> IF c >= 2 THEN new.ty ELSE old.ty,     ct  |-> IF c >= 4 THEN new.ct ELSE old.ct,
     fl  |-> IF c >= 5 THEN new.fl ELSE old.fl,     db  |-> 0,
     lid |-> IF c >= 7 THEN new.lid ELSE old.lid,   key |-> IF c >= 8 THEN new.key ELSE old.key,
     af  |-> IF c >= 10 THEN new.af ELSE old.af,    et  |-> IF c >= 11 THEN new.et ELSE old.et,
     ef  |-> IF c >= 12 THEN new.ef ELSE old.ef,    cnt |-> IF c >= 13 THEN new.cnt ELSE old.cnt,
     rc  |-> old.rc,
     data |-> "-"]      \* its value was never written (records of a flush go first)

CrashImages ==
    LET n == Len(files[Len(files)].recs)
        base == n - lastn
        cur == files[Len(files)].recs
    IN {<<j, c>> \in (0..lastn) \X (0..15) : \/ c = 0
                                             \/ (c \in 1..14 /\ j < lastn)
                                             \* c = 15 (only with ValueFirst): the VALUE of record j+1 is on disk, the record is not
                                             \/ (c = 15 /\ ValueFirst /\ j < lastn /\ R!HasData(cur[base + j + 1]))}

\* the records a start sees in the newest file of image <<j, c>>, or "FAIL"
ImageRecs(j, c) ==
    LET cur == files[Len(files)].recs
        base == Len(cur) - lastn
        whole == SubSeq(cur, 1, base + j)
        before == DiskRecsOf(SubSeq(files, 1, Len(files) - 1), rw)
    IN IF c = 0 \/ c = 15 THEN before \o whole
       ELSE LET nr == cur[base + j + 1] IN
            IF c = 14 THEN before \o whole \o <<[nr EXCEPT !.data = IF R!HasData(nr) THEN "-" ELSE @]>>
            ELSE IF A2Fixed THEN before \o whole          \* a short final read ends the load
            ELSE LET prev == before \o whole IN
                 IF prev = <<>> THEN before \o whole       \* nothing was read before: the buffer is zero: Decode gives type 0, ignored
                 ELSE prev \o <<Mixed(nr, prev[Len(prev)], c)>>

PrefixStates(j, T) ==
    LET cur == files[Len(files)].recs
        base == Len(cur) - lastn
        before == DiskRecsOf(SubSeq(files, 1, Len(files) - 1), rw)
    IN {R!RecoverRecs(before \o SubSeq(cur, 1, m), T) : m \in 0..(base + j)}

C08_Prefix ==
    (Quiescent /\ epoch = 1 /\ lastn > 0) =>
        \A img \in CrashImages : \A T \in Outages :
            \* (image c = 14 holds j + 1 whole records)
            \E st \in PrefixStates(IF img[2] = 14 THEN img[1] + 1 ELSE img[1], T) :
                R!StateEqAt(R!RecoverRecs(ImageRecs(img[1], img[2]), T), st, T)

\* a crash inside the last batch, the start on the image, and from then on a second epoch on the recovered instance.
\* Append-mode reopen keeps partial bytes (A2): records written later sit behind them.
CrashRestart ==
    /\ Crash /\ epoch = 1 /\ Quiescent /\ lastn > 0
    /\ \E img \in CrashImages :
         LET j == img[1]  c == img[2]
             cur == files[Len(files)].recs
             base == Len(cur) - lastn
             st == R!RecoverRecs(ImageRecs(j, c), now)
             AsHold(g) == [lid |-> g.lid, depth |-> g.depth, cnt |-> g.cnt, rc |-> g.rc, ef |-> g.ef, exp |-> g.exp, start |-> now,
                           cls |-> "imm", aofT |-> 0, isAof |-> TRUE, cc |-> 1, nextv |-> now + 2]
             VNum(s) == IF s = "v1" THEN 1 ELSE IF s = "v2" THEN 2 ELSE 0
             torn == c \in 1..13
             \* c = 14: the record is whole, its value is not on disk.  Unrepaired, the record stays (later values shift into its slot)
             novalue == c = 14 /\ R!HasData(cur[base + j + 1])
             keepWhole == IF c = 14 /\ ~(novalue /\ A2bFixed) THEN base + j + 1 ELSE base + j
             kept == [i \in 1..keepWhole |-> IF i = base + j + 1 /\ novalue THEN [cur[i] EXCEPT !.data = "-"] ELSE cur[i]]
         IN /\ eng' = [k \in Keys |-> IF <<0, k>> \in DOMAIN st
                                      THEN [H |-> [i \in 1..Len(st[<<0, k>>].H) |-> AsHold(st[<<0, k>>].H[i])],
                                            val |-> VNum(st[<<0, k>>].data), vaof |-> TRUE]
                                      ELSE NoKey]
            /\ files' = [files EXCEPT ![Len(files)] =
                             IF c = 15
                             THEN \* append-mode reopen keeps the value file as it is: the orphan frame stays behind the frames of the kept records
                                  [idx |-> @.idx, recs |-> kept, junk |-> 0, orph |-> [at |-> keepWhole, val |-> cur[base + j + 1].data]]
                             ELSE [idx |-> @.idx, recs |-> kept, junk |-> IF torn /\ ~A2Fixed THEN keepWhole + 1 ELSE 0]]
            /\ hist' = Append(hist, [op |-> "crash", whole |-> j, cut |-> c])
    /\ epoch' = 2
    /\ lastn' = 0
    /\ UNCHANGED <<now, rw, cpt, nops>>

-----------------------------------------------------------------------------
\* C16: at every step of a compaction the directory starts, and recovers what the replaced files (as they were
\* when the compaction picked them) plus everything else in the directory recover

C16_Steps ==
    cpt.st \in {"written", "renamed", "published"} =>
        \A T \in Outages :
            LET others == SelectSeq([i \in 1..Len(files) |-> IF i \in cpt.inputs THEN [idx |-> files[i].idx, recs |-> <<>>, junk |-> 0, gone |-> TRUE] ELSE files[i]],
                                    LAMBDA f : ~Gone(f))
                ref == R!RecoverRecs(DiskRecsOf(cpt.reffiles, cpt.refrw) \o AllRecsL(others), T)
            IN /\ ~StartFails(files, rw)
               /\ R!StateEqAt(RecoverDisk(files, rw, T), ref, T)

-----------------------------------------------------------------------------
Init ==
    /\ now = 0
    /\ eng = [k \in Keys |-> NoKey]
    /\ files = <<[idx |-> 1, recs |-> <<>>, junk |-> 0]>>
    /\ rw = NoRw
    /\ cpt = Idle
    /\ lastn = 0
    /\ epoch = 1
    /\ nops = 0
    /\ hist = <<>>
    /\ turn = "any"

Ops ==
    \/ \E k \in Keys, lid \in Lids, cnt \in Counts, rc \in Rcounts, ex \in Exps, cls \in Classes, u \in Units, v \in Vals :
          LockReq(k, lid, cnt, rc, ex, cls, u, v)
    \/ \E k \in Keys, lid \in Lids, rc \in Rcounts : UnlockReq(k, lid, rc)
    \/ \E k \in Keys, lid \in Lids, ex \in UpdExps : UpdateReq(k, lid, ex)
    \/ Tick
    \/ AdminRewrite

\* the driver awaits a running compaction before the next step (its steps are the crash points)
Next ==
    /\ \/ (cpt.st = "idle" /\ Ops)
       \/ CptWrite \/ CptStep \/ CptFinish
       \/ CrashRestart
       \/ CptCrashRestart
    /\ turn' = turn

Spec == Init /\ [][Next]_vars

TypeOK == /\ now \in 0..MaxNow /\ epoch \in {1, 2} /\ lastn \in 0..100
          /\ cpt.st \in {"idle", "pick", "written", "renamed", "published"}

\* counterexample export: the violated invariant prints the driver steps of the behaviour as JSON
CEX(name, cond) == cond \/ ~PrintT("CEX " \o ToJson([inv |-> name, now |-> now, at |-> now, hist |-> hist]))
Inv_C07_Replay     == LET bad == IF Quiescent THEN {T \in Outages : ~ReplayOK(T)} ELSE {}
                      IN bad = {} \/ ~PrintT("CEX " \o ToJson([inv |-> "C07_Replay", now |-> now, at |-> Min(bad), hist |-> hist]))
Inv_C07_Discipline == CEX("C07_Discipline", C07_Discipline)
Inv_C08_Prefix     == CEX("C08_Prefix", C08_Prefix)
Inv_C16_Steps      == CEX("C16_Steps", C16_Steps)
=============================================================================

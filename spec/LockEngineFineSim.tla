-------------------------- MODULE LockEngineFineSim --------------------------
(* Random-walk front end of LockEngineFine for `tlc -simulate`: request parameters drawn with     *)
(* RandomElement, one successor per class.  Every printed `hist` is a behaviour of FSpec: the     *)
(* order of its steps (actor per step) is the SCHEDULE that engine C forces on the real code.     *)
EXTENDS LockEngineFine

FPick(S) == RandomElement(S)

FSimStep ==
    \/ \E a \in Clients :
          /\ pc[a] = "new"
          /\ \/ ClientSection(a, "L", FPick(Lids), FPick(Counts), FPick(Rcounts), FPick(Timeouts), FPick(Expireds),
                              IF FPick(1..10) <= 7 THEN "" ELSE FPick(LockFlags \cup {""}))
             \/ ClientSection(a, "U", FPick(Lids), 0, FPick(Rcounts), 0, 0, IF FPick(1..10) <= 6 THEN "" ELSE FPick(UnlockFlags \cup {""}))
    \/ \E a \in Actors : WakeIter(a)
    \/ TickFine
    \/ \E s \in Sweepers : Collect(s) \/ Fire(s)
    \/ UNCHANGED <<ks, now, reqs, out, hist, role, nrc, pc, coll, owes>>

FSimNext == FSimStep /\ turn' = turn
FSimSpec == FInit /\ [][FSimNext]_fvars

AllDone == (\A a \in Clients : pc[a] = "done") /\ SweepersIdle
FSimExport == AllDone => PrintT("BEHAVIOUR " \o ToJson(hist))
=============================================================================

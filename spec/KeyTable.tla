------------------------------- MODULE KeyTable -------------------------------
(***************************************************************************)
(* The lock-free key table of LockDB (server/db.go GetOrNewLockManager,    *)
(* GetLockManager, RemoveLockManager and the re-check in Lock / UnLock),   *)
(* one step per atomic access, for several processes whose keys all hash   *)
(* to ONE fast slot (DBFastKeyCount = 1), with the all-zero key among      *)
(* them.                                                                   *)
(*                                                                         *)
(*   slot   = [lock \in 0..2, count, manager]      (FastKeyValue)          *)
(*   map    : key -> manager                        (LockDB.locks, mGlock) *)
(*   refc[m]: reference count, TOMB = 0xffffffff = removed / free          *)
(*   mkey[m]: lockKey of the manager (zeroed on removal)                   *)
(*   fkv[m] : does the manager point at the slot (fastKeyValue # nil)      *)
(*   held[m]: holds taken inside the manager, hkey[m]: for which key       *)
(*                                                                         *)
(* A process runs requests "lock k" (take a hold) / "touch k" (a request   *)
(* that grants without a hold and lets the manager go) / "unlock k".       *)
(*                                                                         *)
(* Property (C01 at the level of the table): two managers never carry      *)
(* holds for the same key at once, and no hold lives in a removed manager. *)
(* TombCheck = FALSE is the code before fix cbf6e3a (finding A6);          *)
(* RefFirst = FALSE is the code before the fix of finding A15 (a manager   *)
(* was published while still marked removed).                              *)
(***************************************************************************)
EXTENDS Integers, FiniteSets, Sequences, TLC

CONSTANTS Procs, Keys, ZERO, Mgrs, MaxOps, TombCheck,
          Ops,          \* request kinds: subset of {"lock", "touch", "unlock", "longlock"} (longlock = a hold that goes to the
                        \* long-wait table at once: the manager is downgraded from the fast slot into the map)
          A16FastFixed, \* TRUE: part (a) of the possible repair: the fast path always consults the map
          A16Fixed,     \* TRUE: part (b) of a POSSIBLE repair of finding A16 (not in the code): the fast path always consults the map, the
                        \* slow path never allocates while the slot is being changed (lock = 1) and re-reads a published slot
          RefFirst      \* TRUE: the first reference is taken BEFORE the manager is published (fix for finding A15)
ASSUME ZERO \in Keys

TOMB == -1
None == "none"

VARIABLES slot, map, mglock, refc, mkey, fkv, held, hkey, free, mutex,
          pc, op, key, m, nops
vars == <<slot, map, mglock, refc, mkey, fkv, held, hkey, free, mutex, pc, op, key, m, nops>>

Init ==
    /\ slot = [lock |-> 0, count |-> 0, manager |-> None]
    /\ map = [k \in Keys |-> None]
    /\ mglock = None
    /\ refc = [x \in Mgrs |-> TOMB]
    /\ mkey = [x \in Mgrs |-> ZERO]
    /\ fkv = [x \in Mgrs |-> FALSE]
    /\ held = [x \in Mgrs |-> 0]
    /\ hkey = [x \in Mgrs |-> ZERO]
    /\ free = Mgrs
    /\ mutex = None
    /\ pc = [p \in Procs |-> "idle"]
    /\ op = [p \in Procs |-> "none"]
    /\ key = [p \in Procs |-> ZERO]
    /\ m = [p \in Procs |-> None]
    /\ nops = [p \in Procs |-> 0]

Goto(p, l) == pc' = [pc EXCEPT ![p] = l]
Live(x) == x # None /\ refc[x] # TOMB

\* ---------------------------------------------------------------- request start
Start(p) ==
    /\ pc[p] = "idle" /\ nops[p] < MaxOps
    /\ \E o \in Ops, k \in Keys :
          /\ op' = [op EXCEPT ![p] = o] /\ key' = [key EXCEPT ![p] = k]
          /\ Goto(p, IF o = "unlock" THEN "get" ELSE "gn_cas")
    /\ nops' = [nops EXCEPT ![p] = @ + 1]
    /\ m' = [m EXCEPT ![p] = None]
    /\ UNCHANGED <<slot, map, mglock, refc, mkey, fkv, held, hkey, free, mutex>>

\* ---------------------------------------------------------------- GetOrNewLockManager
GnCas(p) ==                       \* db.go:1395 CAS(fastValue.lock, 0, 1)
    /\ pc[p] = "gn_cas"
    /\ IF slot.lock = 0
       THEN /\ slot' = [slot EXCEPT !.lock = 1]
            /\ Goto(p, IF slot.count > 0 \/ A16FastFixed THEN "gn_fast_map" ELSE "gn_fast_alloc")
       ELSE /\ Goto(p, "gn_read") /\ UNCHANGED slot
    /\ UNCHANGED <<map, mglock, refc, mkey, fkv, held, hkey, free, mutex, op, key, m, nops>>

GnFastMap(p) ==                   \* db.go:1397-1403 (RLock held by nobody else writing)
    /\ pc[p] = "gn_fast_map" /\ mglock = None
    /\ IF Live(map[key[p]])
       THEN /\ m' = [m EXCEPT ![p] = map[key[p]]] /\ slot' = [slot EXCEPT !.lock = 0] /\ Goto(p, "mutex")
       ELSE /\ Goto(p, "gn_fast_alloc") /\ UNCHANGED <<m, slot>>
    /\ UNCHANGED <<map, mglock, refc, mkey, fkv, held, hkey, free, mutex, op, key, nops>>

GnFastAlloc(p) ==                 \* db.go:1406-1418: take a free manager, publish it in the slot (lock := 2)
    /\ pc[p] = "gn_fast_alloc" /\ free # {}
    /\ \E x \in free :
          /\ free' = free \ {x}
          /\ mkey' = [mkey EXCEPT ![x] = key[p]] /\ fkv' = [fkv EXCEPT ![x] = TRUE]
          /\ slot' = [lock |-> 2, count |-> slot.count + 1, manager |-> x]
          /\ m' = [m EXCEPT ![p] = x]
          /\ refc' = IF RefFirst THEN [refc EXCEPT ![x] = @ + 1] ELSE refc
    /\ Goto(p, "gn_ref")
    /\ UNCHANGED <<map, mglock, held, hkey, mutex, op, key, nops>>

GnRef(p) ==                       \* db.go:1419 / 1465 / 1482: AddUint32(&refCount, 1)  (TOMB -> 0) - AFTER publication
    /\ pc[p] = "gn_ref"
    /\ refc' = IF RefFirst THEN refc ELSE [refc EXCEPT ![m[p]] = @ + 1]
    /\ Goto(p, "mutex")
    /\ UNCHANGED <<slot, map, mglock, mkey, fkv, held, hkey, free, mutex, op, key, m, nops>>

GnRead(p) ==                      \* db.go:1424-1442: slot busy: read it
    /\ pc[p] = "gn_read"
    /\ slot.lock # 1              \* lock = 1: spin
    /\ IF slot.lock = 2 /\ slot.manager # None /\ mkey[slot.manager] = key[p] /\ Live(slot.manager)
       THEN /\ m' = [m EXCEPT ![p] = slot.manager] /\ Goto(p, "mutex")
       ELSE /\ Goto(p, "gn_slow_lock") /\ UNCHANGED m
    /\ UNCHANGED <<slot, map, mglock, refc, mkey, fkv, held, hkey, free, mutex, op, key, nops>>

GnSlowLock(p) ==                  \* db.go:1444 mGlock.Lock()
    /\ pc[p] = "gn_slow_lock" /\ mglock = None
    /\ mglock' = p /\ Goto(p, "gn_slow_look")
    /\ UNCHANGED <<slot, map, refc, mkey, fkv, held, hkey, free, mutex, op, key, m, nops>>

GnSlowLook(p) ==                  \* db.go:1451-1454: look the key up in the map (under mGlock)
    /\ pc[p] = "gn_slow_look"
    /\ IF Live(map[key[p]])
       THEN /\ m' = [m EXCEPT ![p] = map[key[p]]] /\ mglock' = None /\ Goto(p, "mutex")
       ELSE /\ Goto(p, "gn_slow_cas") /\ UNCHANGED <<m, mglock>>
    /\ UNCHANGED <<slot, map, refc, mkey, fkv, held, hkey, free, mutex, op, key, nops>>

GnSlowCas(p) ==                   \* db.go:1455: CAS(fastValue.lock, 0, 1) - still under mGlock
    /\ pc[p] = "gn_slow_cas"
    /\ IF slot.lock = 0
       THEN /\ slot' = [slot EXCEPT !.lock = 1] /\ mglock' = None /\ Goto(p, "gn_fast_alloc") /\ UNCHANGED m
       ELSE IF A16Fixed /\ slot.lock = 1
       THEN /\ mglock' = None /\ Goto(p, "gn_cas") /\ UNCHANGED <<m, slot>>
       ELSE IF A16Fixed /\ slot.lock = 2 /\ slot.manager # None /\ mkey[slot.manager] = key[p] /\ Live(slot.manager)
       THEN /\ m' = [m EXCEPT ![p] = slot.manager] /\ mglock' = None /\ Goto(p, "mutex") /\ UNCHANGED slot
       ELSE /\ Goto(p, "gn_slow_ins") /\ UNCHANGED <<m, slot, mglock>>
    /\ UNCHANGED <<map, refc, mkey, fkv, held, hkey, free, mutex, op, key, nops>>

GnSlowIns(p) ==                   \* db.go:1476-1485: a fresh manager goes into the map
    /\ pc[p] = "gn_slow_ins" /\ free # {}
    /\ \E x \in free :
          /\ free' = free \ {x}
          /\ map' = [map EXCEPT ![key[p]] = x]
          /\ mkey' = [mkey EXCEPT ![x] = key[p]] /\ fkv' = [fkv EXCEPT ![x] = TRUE]
          /\ m' = [m EXCEPT ![p] = x]
          /\ refc' = IF RefFirst THEN [refc EXCEPT ![x] = @ + 1] ELSE refc
    /\ Goto(p, "gn_slow_cnt")
    /\ UNCHANGED <<slot, mglock, held, hkey, mutex, op, key, nops>>

GnSlowCnt(p) ==                   \* fastValue.count++ ; mGlock.Unlock()
    /\ pc[p] = "gn_slow_cnt"
    /\ slot' = [slot EXCEPT !.count = @ + 1]
    /\ mglock' = None
    /\ Goto(p, "gn_ref")
    /\ UNCHANGED <<map, refc, mkey, fkv, held, hkey, free, mutex, op, key, m, nops>>

\* ---------------------------------------------------------------- GetLockManager (unlock path): lookups only
Get(p) ==
    /\ pc[p] = "get"
    /\ slot.lock # 1
    /\ LET fm == slot.manager IN
       IF slot.lock = 2 /\ fm # None /\ mkey[fm] = key[p] /\ Live(fm)
       THEN /\ m' = [m EXCEPT ![p] = fm] /\ Goto(p, "mutex")
       ELSE IF mglock = None /\ Live(map[key[p]])
       THEN /\ m' = [m EXCEPT ![p] = map[key[p]]] /\ Goto(p, "mutex")
       ELSE IF mglock = None
       THEN /\ Goto(p, "idle") /\ UNCHANGED m          \* no manager: UNLOCK_ERROR
       ELSE /\ UNCHANGED <<pc, m>>
    /\ UNCHANGED <<slot, map, mglock, refc, mkey, fkv, held, hkey, free, mutex, op, key, nops>>

\* ---------------------------------------------------------------- shard mutex, re-check, critical section
TakeMutex(p) ==
    /\ pc[p] = "mutex" /\ mutex = None
    /\ mutex' = p /\ Goto(p, "recheck")
    /\ UNCHANGED <<slot, map, mglock, refc, mkey, fkv, held, hkey, free, op, key, m, nops>>

Recheck(p) ==                     \* db.go:2006 / 2323
    /\ pc[p] = "recheck"
    /\ IF mkey[m[p]] # key[p] \/ (TombCheck /\ refc[m[p]] = TOMB)
       THEN /\ mutex' = None /\ Goto(p, IF op[p] = "unlock" THEN "get" ELSE "gn_cas")
       ELSE /\ Goto(p, "section") /\ UNCHANGED mutex
    /\ UNCHANGED <<slot, map, mglock, refc, mkey, fkv, held, hkey, free, op, key, m, nops>>

Section(p) ==
    /\ pc[p] = "section"
    /\ LET x == m[p] IN
       CASE op[p] = "lock" ->
              \* GetOrNewLock: refc + 1, the hold keeps the reference
              /\ refc' = [refc EXCEPT ![x] = @ + 1]
              /\ held' = [held EXCEPT ![x] = @ + 1]
              /\ hkey' = [hkey EXCEPT ![x] = IF held[x] = 0 THEN key[p] ELSE @]
              /\ mutex' = None /\ Goto(p, "idle")
         [] op[p] = "longlock" ->
              \* a hold whose timer goes to the long table: AddExpried calls downgradeLockManager (db.go:1613) in the section
              /\ refc' = [refc EXCEPT ![x] = @ + 1]
              /\ held' = [held EXCEPT ![x] = @ + 1]
              /\ hkey' = [hkey EXCEPT ![x] = IF held[x] = 0 THEN key[p] ELSE @]
              /\ IF fkv[x] /\ slot.lock = 2 /\ slot.manager = x THEN Goto(p, "downgrade") /\ UNCHANGED mutex ELSE mutex' = None /\ Goto(p, "idle")
         [] op[p] = "touch" ->
              \* grant without a hold: GetOrNewLock (+1), FreeLock (-1); RemoveLockManager when no reference is left
              /\ UNCHANGED <<refc, held, hkey>>
              /\ IF refc[x] = 0 THEN Goto(p, "remove") /\ UNCHANGED mutex ELSE mutex' = None /\ Goto(p, "idle")
         [] op[p] = "unlock" ->
              IF held[x] > 0 /\ hkey[x] = key[p]
              THEN /\ held' = [held EXCEPT ![x] = @ - 1]
                   /\ refc' = [refc EXCEPT ![x] = @ - 1]       \* RemoveLock + FreeLock
                   /\ UNCHANGED hkey
                   /\ IF refc[x] - 1 = 0 THEN Goto(p, "remove") /\ UNCHANGED mutex ELSE mutex' = None /\ Goto(p, "idle")
              ELSE /\ UNCHANGED <<refc, held, hkey>> /\ mutex' = None /\ Goto(p, "idle")
    /\ UNCHANGED <<slot, map, mglock, mkey, fkv, free, op, key, m, nops>>

\* downgradeLockManager: under mGlock the manager moves from the fast slot into the map, the slot is released
Downgrade(p) ==
    /\ pc[p] = "downgrade" /\ mglock = None
    /\ LET x == m[p] IN
          /\ map' = [map EXCEPT ![mkey[x]] = x]
          /\ slot' = [slot EXCEPT !.manager = None, !.lock = 0]
    /\ mutex' = None /\ Goto(p, "idle")
    /\ UNCHANGED <<mglock, refc, mkey, fkv, held, hkey, free, op, key, m, nops>>

\* RemoveLockManager (db.go:1529), still under the shard mutex
Remove(p) ==
    /\ pc[p] = "remove"
    /\ LET x == m[p] IN
       IF refc[x] # 0                                   \* CAS(refCount, 0, TOMB) failed: somebody took a reference
       THEN UNCHANGED <<slot, map, refc, mkey, fkv, free>>
       ELSE IF ~fkv[x]
       THEN /\ refc' = [refc EXCEPT ![x] = TOMB] /\ UNCHANGED <<slot, map, mkey, fkv, free>>
       ELSE IF slot.manager = x
       THEN IF slot.lock = 2
            THEN /\ refc' = [refc EXCEPT ![x] = TOMB]
                 /\ slot' = [lock |-> 0, count |-> slot.count - 1, manager |-> None]
                 /\ mkey' = [mkey EXCEPT ![x] = ZERO] /\ fkv' = [fkv EXCEPT ![x] = FALSE]
                 /\ free' = free \cup {x}
                 /\ UNCHANGED map
            ELSE /\ refc' = [refc EXCEPT ![x] = TOMB] /\ UNCHANGED <<slot, map, mkey, fkv, free>>      \* CAS(lock, 2, 1) failed: returns
       ELSE /\ mglock = None
            /\ IF map[mkey[x]] = x
               THEN /\ refc' = [refc EXCEPT ![x] = TOMB]
                    /\ map' = [map EXCEPT ![mkey[x]] = None]
                    /\ slot' = [slot EXCEPT !.count = @ - 1]
                    /\ mkey' = [mkey EXCEPT ![x] = ZERO] /\ fkv' = [fkv EXCEPT ![x] = FALSE]
                    /\ free' = free \cup {x}
               ELSE /\ refc' = [refc EXCEPT ![x] = TOMB] /\ UNCHANGED <<slot, map, mkey, fkv, free>>
    /\ mutex' = None
    /\ Goto(p, "idle")
    /\ UNCHANGED <<mglock, held, hkey, op, key, m, nops>>

Next == \E p \in Procs :
           \/ Start(p) \/ GnCas(p) \/ GnFastMap(p) \/ GnFastAlloc(p) \/ GnRef(p) \/ GnRead(p)
           \/ GnSlowLock(p) \/ GnSlowLook(p) \/ GnSlowCas(p) \/ GnSlowIns(p) \/ GnSlowCnt(p) \/ Get(p) \/ TakeMutex(p) \/ Recheck(p) \/ Section(p) \/ Remove(p) \/ Downgrade(p)

Spec == Init /\ [][Next]_vars

-----------------------------------------------------------------------------
\* C01 at the table level
NoHoldInDeadManager == \A x \in Mgrs : held[x] > 0 => refc[x] # TOMB
OneManagerPerHeldKey == \A x, y \in Mgrs : (x # y /\ held[x] > 0 /\ held[y] > 0) => hkey[x] # hkey[y]
RefsCoverHolds == \A x \in Mgrs : refc[x] # TOMB => refc[x] >= held[x]
MutexOK == \A p, q \in Procs : (p # q /\ pc[p] \in {"recheck", "section", "remove", "downgrade"}) => pc[q] \notin {"recheck", "section", "remove", "downgrade"}
=============================================================================

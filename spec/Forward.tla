------------------------------- MODULE Forward -------------------------------
(***************************************************************************)
(* Implementation-shaped model of the transparency (forwarding) layer of   *)
(* a node N that is not the leader (server/transparency.go, the dispatch   *)
(* loop of server/server.go:263-401) together with the leader L it         *)
(* forwards to.  Property C10, forwarding half.                            *)
(*                                                                         *)
(* What is modelled, one action per observable step of the code:           *)
(*  - client connections on N: binary (pipelined, one dedicated upstream   *)
(*    connection each: TransparencyBinaryServerProtocol.CheckClient ->     *)
(*    manager.OpenClient) and text (one request at a time, the handler     *)
(*    blocks on lockWaiter; upstream taken from the manager's pool for the *)
(*    life of the connection: AcquireClient); direct connections on L      *)
(*  - NodeProcess: the node takes the next request of a connection.  As a  *)
(*    leader it decides itself (AGAIN re-dispatch to the inner protocol);  *)
(*    as a non-leader it wraps the connection if needed, answers the       *)
(*    concurrent-check fast path from its REPLICA (CheckProbableLock),     *)
(*    refuses with STATE_ERROR when no leader is known / reachable, else    *)
(*    opens the upstream if there is none and writes the request to it     *)
(*    (latestRequestId := this request)                                    *)
(*  - LeaderRecv: the leader's engine decides a forwarded request; replies *)
(*    (of this request and of a waiter woken by it) are routed to the      *)
(*    connection each request came in on; a reply for a dead upstream      *)
(*    connection is dropped                                                *)
(*  - Relay: TransparencyBinaryClientProtocol.Process hands one leader     *)
(*    reply to the client connection (binary: always; text: only when the  *)
(*    request id is the one the handler waits for)                         *)
(*  - Break: the upstream connection dies with requests in flight:         *)
(*    rollbackLatestCommand fabricates RESULT_ERROR for the LATEST written *)
(*    request only (if still unanswered) and detaches the upstream; older  *)
(*    in-flight requests of a pipelining binary client are never answered  *)
(*    (deviation constant RollbackLatestOnly = TRUE names the code as it   *)
(*    is; FALSE answers all of them)                                       *)
(*  - LeaderGone / LeaderBack: N loses / regains a reachable leader        *)
(*    (every upstream breaks); Promote / Demote: N's own role changes      *)
(*    between two requests of a connection; Replicate: N's replica catches *)
(*    up with the leader's stream; TimeoutWaiter: a queued request times   *)
(*    out at the engine that queued it                                     *)
(*  - FirstTextLocal = TRUE names a second deviation found while reading   *)
(*    the code: the FIRST command of a text connection accepted by a       *)
(*    non-leader is parsed by Server.checkProtocol through                 *)
(*    TransparencyTextServerProtocol.ProcessParse, which delegates to the  *)
(*    INNER TextServerProtocol: when the whole command arrived in the      *)
(*    first read it is run by the plain handlers against N's own engine    *)
(*    (refused there with STATE_ERROR) instead of being forwarded          *)
(*                                                                         *)
(* The lock engine is abstracted to ONE exclusive key with a FIFO wait     *)
(* queue and re-entrant depth <= 2.  Request classes: lock0 (no wait),     *)
(* lockw (waits), lockr (no wait, Rcount > 0: the holder's re-lock is      *)
(* granted), lockc (concurrent-check flag, no wait), lockcw (concurrent-   *)
(* check flag WITH a wait time), unlock (one level).  Same engine for L    *)
(* and N.  The follower-local fast path (LockDB.CheckProbableLock) is      *)
(* taken for lockc ONLY - flag AND Timeout = 0 AND the replica shows the   *)
(* key held; FastPathOr = TRUE models the guard written with OR (every     *)
(* no-wait lock and every concurrent-check lock): TLC then refutes         *)
(* FastPathAgreesWithLeader with a holder's lockr answered TIMEOUT by the  *)
(* follower while the leader would grant it.                               *)
(***************************************************************************)
EXTENDS Integers, Sequences, FiniteSets, TLC, Json

CONSTANTS BinConns, TextConns,  \* client connections on node N
          DirConns,             \* client connections on the leader L
          Lids, Ops, MaxReq, MaxFaults,
          RollbackLatestOnly, FirstTextLocal, FastPathOr, AllowDemote, RecordHist

NConns == BinConns \cup TextConns
Conns  == NConns \cup DirConns

VARIABLES role,     \* N's own role: "follower" | "leader"
          known,    \* N knows a reachable leader address
          eng,      \* "L" / "N" -> [holder, wq]   (N's entry is its replica while it follows)
          req,      \* sequence of requests [conn, op, lid]; the index is the request id
          inb,      \* conn -> request ids sent by the client, not yet taken by the node
          wrapped,  \* NConns -> the connection runs inside a Transparency*ServerProtocol
          first,    \* NConns -> no command taken from this connection yet
          up,       \* NConns -> "none" | "up"   upstream connection to the leader
          gen,      \* NConns -> number of upstream connections opened so far
          upq,      \* NConns -> request ids written to the upstream, not yet read by the leader
          downq,    \* NConns -> leader replies [rid, res] not yet relayed
          latest,   \* NConns -> latestRequestId (0 = latestCommandType 0xff)
          twait,    \* TextConns -> request id the text handler blocks on (0 = none)
          rep,      \* Conns -> replies the client has received [rid, res, src]
          dec,      \* ghost: request id -> what the deciding engine decided ("none", "queued", result)
          via,      \* ghost: request id -> [c, g] upstream instance that carried it (g = 0: decided on the node it was sent to)
          orphan,   \* ghost: requests left without any reply by an upstream break
          fpbad,    \* ghost: the fast path answered TIMEOUT although the (in-sync) leader would have granted
          nf, hist

vars == <<role, known, eng, req, inb, wrapped, first, up, gen, upq, downq, latest, twait, rep, dec, via, orphan, fpbad, nf, hist>>

SUCCED == "SUCCED"   TIMEOUT == "TIMEOUT"   LOCKED == "LOCKED_ERROR"   UNLOCKERR == "UNLOCK_ERROR"
STATEERR == "STATE_ERROR"   ERROR == "ERROR"

NReq == Len(req)
Rids == 1..NReq
Answered(rid) == \E i \in 1..Len(rep[req[rid].conn]) : rep[req[rid].conn][i].rid = rid

H(op, c) == IF RecordHist THEN Append(hist, [op |-> op, c |-> c, rop |-> "", lid |-> 0]) ELSE hist

-----------------------------------------------------------------------------
\* the engine: one exclusive key, FIFO queue.  Decide returns the new engine and the replies it emits.
Decide(e, rid) ==
    LET r == req[rid]
        one(res) == [e |-> e, out |-> <<[rid |-> rid, res |-> res]>>, q |-> FALSE]
    IN
    IF r.op = "unlock"
    THEN IF e.holder = r.lid
         THEN IF e.depth > 1
              THEN [e |-> [e EXCEPT !.depth = @ - 1], out |-> <<[rid |-> rid, res |-> SUCCED]>>, q |-> FALSE]
              ELSE IF e.wq = <<>>
              THEN [e |-> [e EXCEPT !.holder = 0, !.depth = 0], out |-> <<[rid |-> rid, res |-> SUCCED]>>, q |-> FALSE]
              ELSE [e |-> [holder |-> req[Head(e.wq)].lid, depth |-> 1, wq |-> Tail(e.wq)],
                    out |-> <<[rid |-> rid, res |-> SUCCED], [rid |-> Head(e.wq), res |-> SUCCED]>>, q |-> FALSE]
         ELSE one(UNLOCKERR)
    ELSE IF e.holder = 0
         THEN [e |-> [e EXCEPT !.holder = r.lid, !.depth = 1], out |-> <<[rid |-> rid, res |-> SUCCED]>>, q |-> FALSE]
         ELSE IF r.op = "lockc" THEN one(TIMEOUT)                \* LockDB.Lock's own fast path: flag, no wait, key full - whoever holds
         ELSE IF e.holder = r.lid
              THEN IF r.op = "lockr" /\ e.depth < 2
                   THEN [e |-> [e EXCEPT !.depth = @ + 1], out |-> <<[rid |-> rid, res |-> SUCCED]>>, q |-> FALSE]
                   ELSE one(LOCKED)
              ELSE IF r.op \in {"lockw", "lockcw"}
                   THEN [e |-> [e EXCEPT !.wq = Append(@, rid)], out |-> <<>>, q |-> TRUE]
                   ELSE one(TIMEOUT)

\* the guard of LockDB.CheckProbableLock on the request alone (the replica test follows)
FastGuard(op) == IF FastPathOr THEN op \in {"lock0", "lockr", "lockc", "lockcw"} ELSE op = "lockc"

\* routing of engine replies: to the client connection itself (decided where it was sent) or into the downstream
\* queue of the upstream instance that carried the request; dropped when that instance is gone
Live(rid) == via[rid].g > 0 /\ up[via[rid].c] = "up" /\ gen[via[rid].c] = via[rid].g

RouteRep(out, src) ==
    [c \in Conns |-> rep[c] \o SelectSeq([i \in 1..Len(out) |-> [rid |-> out[i].rid, res |-> out[i].res, src |-> src]],
                                       LAMBDA x : via[x.rid].g = 0 /\ req[x.rid].conn = c)]
RouteDown(out) ==
    [c \in NConns |-> downq[c] \o SelectSeq(out, LAMBDA x : Live(x.rid) /\ via[x.rid].c = c)]

NewDec(out, rid, q) ==
    [x \in DOMAIN dec |->
        IF \E i \in 1..Len(out) : out[i].rid = x
        THEN out[CHOOSE i \in 1..Len(out) : out[i].rid = x].res
        ELSE IF x = rid /\ q THEN "queued" ELSE dec[x]]

-----------------------------------------------------------------------------
Init ==
    /\ role \in {"follower"} \cup (IF AllowDemote THEN {"leader"} ELSE {})
    /\ known = TRUE
    /\ eng = [n \in {"L", "N"} |-> [holder |-> 0, depth |-> 0, wq |-> <<>>]]
    /\ req = <<>>
    /\ inb = [c \in Conns |-> <<>>]
    /\ wrapped = [c \in NConns |-> role = "follower"]
    /\ first = [c \in NConns |-> TRUE]
    /\ up = [c \in NConns |-> "none"]
    /\ gen = [c \in NConns |-> 0]
    /\ upq = [c \in NConns |-> <<>>]
    /\ downq = [c \in NConns |-> <<>>]
    /\ latest = [c \in NConns |-> 0]
    /\ twait = [c \in TextConns |-> 0]
    /\ rep = [c \in Conns |-> <<>>]
    /\ dec = <<>>
    /\ via = <<>>
    /\ orphan = {}
    /\ fpbad = FALSE
    /\ nf = 0
    /\ hist = <<>>

\* a client sends a request (text clients and the direct clients are synchronous; binary clients pipeline)
ClientSend(c, op, lid) ==
    /\ NReq < MaxReq
    /\ c \notin BinConns => \A rid \in Rids : req[rid].conn = c => Answered(rid)
    /\ req' = Append(req, [conn |-> c, op |-> op, lid |-> lid])
    /\ inb' = [inb EXCEPT ![c] = Append(@, NReq + 1)]
    /\ dec' = Append(dec, "none")
    /\ via' = Append(via, [c |-> c, g |-> 0])
    /\ hist' = IF RecordHist THEN Append(hist, [op |-> "send", c |-> c, rop |-> op, lid |-> lid]) ELSE hist
    /\ UNCHANGED <<role, known, eng, wrapped, first, up, gen, upq, downq, latest, twait, rep, orphan, fpbad, nf>>

\* a request decided by the engine of the node it was sent to (L for direct connections, N while N leads)
DecideOwn(c, n) ==
    LET rid == Head(inb[c])
        d   == Decide(eng[n], rid)
    IN /\ eng' = [eng EXCEPT ![n] = d.e]
       /\ rep' = RouteRep(d.out, "own")
       /\ downq' = RouteDown(d.out)
       /\ dec' = NewDec(d.out, rid, d.q)
       /\ inb' = [inb EXCEPT ![c] = Tail(@)]

DirProcess(c) ==
    /\ c \in DirConns /\ inb[c] # <<>>
    /\ DecideOwn(c, "L")
    /\ UNCHANGED <<role, known, req, wrapped, first, up, gen, upq, latest, twait, via, orphan, fpbad, nf, hist>>

LocalReply(c, rid, res) == rep' = [rep EXCEPT ![c] = Append(@, [rid |-> rid, res |-> res, src |-> "local"])]

NodeProcess(c) ==
    /\ c \in NConns /\ inb[c] # <<>>
    /\ c \in TextConns => twait[c] = 0
    /\ LET rid == Head(inb[c]) IN
       IF role = "leader"
       THEN \* AGAIN: the inner protocol decides on N's own engine
            /\ DecideOwn(c, "N")
            /\ first' = [first EXCEPT ![c] = FALSE]
            /\ UNCHANGED <<role, known, req, wrapped, up, gen, upq, latest, twait, via, orphan, fpbad, nf, hist>>
       ELSE
         /\ wrapped' = [wrapped EXCEPT ![c] = TRUE]
         /\ first' = [first EXCEPT ![c] = FALSE]
         /\ inb' = [inb EXCEPT ![c] = Tail(@)]
         /\ \/ \* deviation: first command of a text connection run by the inner handlers -> refused by N's own engine
               /\ FirstTextLocal /\ c \in TextConns /\ first[c] /\ wrapped[c]
               /\ LocalReply(c, rid, STATEERR)
               /\ UNCHANGED <<up, gen, upq, latest, twait, via, downq, dec, eng, fpbad>>
            \/ \* concurrent-check fast path answered from the replica
               /\ FastGuard(req[rid].op) /\ eng["N"].holder # 0
               /\ LocalReply(c, rid, TIMEOUT)
               /\ fpbad' = (fpbad \/ (eng["N"].holder = eng["L"].holder /\ eng["N"].depth = eng["L"].depth 
                                      /\ Decide(eng["L"], rid).out # <<>> /\ Decide(eng["L"], rid).out[1].res = SUCCED))
               /\ UNCHANGED <<up, gen, upq, latest, twait, via, downq, dec, eng>>
            \/ \* no upstream and no reachable leader: refused
               /\ ~(FastGuard(req[rid].op) /\ eng["N"].holder # 0)
               /\ up[c] = "none" /\ ~known
               /\ LocalReply(c, rid, STATEERR)
               /\ UNCHANGED <<up, gen, upq, latest, twait, via, downq, dec, eng, fpbad>>
            \/ \* forwarded (the upstream is opened first when there is none)
               /\ ~(FastGuard(req[rid].op) /\ eng["N"].holder # 0)
               /\ up[c] = "up" \/ known
               /\ up' = [up EXCEPT ![c] = "up"]
               /\ gen' = [gen EXCEPT ![c] = IF up[c] = "up" THEN @ ELSE @ + 1]
               /\ upq' = [upq EXCEPT ![c] = Append(@, rid)]
               /\ latest' = [latest EXCEPT ![c] = rid]
               /\ via' = [via EXCEPT ![rid] = [c |-> c, g |-> gen'[c]]]
               /\ twait' = IF c \in TextConns THEN [twait EXCEPT ![c] = rid] ELSE twait
               /\ UNCHANGED <<rep, downq, dec, eng, fpbad>>
         /\ UNCHANGED <<role, known, req, orphan, nf, hist>>

\* the leader reads one forwarded request and decides it
LeaderRecv(c) ==
    /\ c \in NConns /\ upq[c] # <<>>
    /\ LET rid == Head(upq[c])
           d   == Decide(eng["L"], rid)
       IN /\ eng' = [eng EXCEPT !["L"] = d.e]
          /\ rep' = RouteRep(d.out, "own")
          /\ downq' = RouteDown(d.out)
          /\ dec' = NewDec(d.out, rid, d.q)
          /\ upq' = [upq EXCEPT ![c] = Tail(@)]
    /\ UNCHANGED <<role, known, req, inb, wrapped, first, up, gen, latest, twait, via, orphan, fpbad, nf, hist>>

\* one leader reply handed to the client connection
Relay(c) ==
    /\ c \in NConns /\ downq[c] # <<>>
    /\ LET r == Head(downq[c]) IN
       /\ downq' = [downq EXCEPT ![c] = Tail(@)]
       /\ latest' = [latest EXCEPT ![c] = IF @ = r.rid THEN 0 ELSE @]
       /\ IF c \in BinConns
          THEN /\ rep' = [rep EXCEPT ![c] = Append(@, [rid |-> r.rid, res |-> r.res, src |-> "relay"])]
               /\ twait' = twait
          ELSE IF twait[c] = r.rid
               THEN /\ rep' = [rep EXCEPT ![c] = Append(@, [rid |-> r.rid, res |-> r.res, src |-> "relay"])]
                    /\ twait' = [twait EXCEPT ![c] = 0]
               ELSE UNCHANGED <<rep, twait>>
    /\ UNCHANGED <<role, known, eng, req, inb, wrapped, first, up, gen, upq, dec, via, orphan, fpbad, nf, hist>>

\* effect of the death of the upstream connections in set B
InFlight(c) == {rid \in Rids : via[rid].c = c /\ via[rid].g = gen[c] /\ via[rid].g > 0 /\ ~Answered(rid)}
Rolled(c) == IF RollbackLatestOnly
             THEN (IF latest[c] # 0 /\ ~Answered(latest[c]) THEN {latest[c]} ELSE {})
             ELSE InFlight(c)
SeqOfSet(S) == LET RECURSIVE F(_) F(T) == IF T = {} THEN <<>> ELSE LET x == CHOOSE y \in T : \A z \in T : y <= z IN <<x>> \o F(T \ {x}) IN F(S)
BreakSet(B) ==
    /\ rep' = [c \in Conns |-> IF c \in B
                               THEN rep[c] \o [i \in 1..Cardinality(Rolled(c)) |-> [rid |-> SeqOfSet(Rolled(c))[i], res |-> ERROR, src |-> "local"]]
                               ELSE rep[c]]
    /\ orphan' = orphan \cup UNION {InFlight(c) \ Rolled(c) : c \in B}
    /\ up' = [c \in NConns |-> IF c \in B THEN "none" ELSE up[c]]
    /\ upq' = [c \in NConns |-> IF c \in B THEN <<>> ELSE upq[c]]
    /\ downq' = [c \in NConns |-> IF c \in B THEN <<>> ELSE downq[c]]
    /\ latest' = [c \in NConns |-> IF c \in B THEN 0 ELSE latest[c]]
    /\ twait' = [c \in TextConns |-> IF c \in B THEN 0 ELSE twait[c]]

Break(c) ==
    /\ c \in NConns /\ up[c] = "up" /\ nf < MaxFaults
    /\ BreakSet({c})
    /\ nf' = nf + 1
    /\ hist' = H("break", c)
    /\ UNCHANGED <<role, known, eng, req, inb, wrapped, first, gen, dec, via, fpbad>>

LeaderGone ==
    /\ known /\ nf < MaxFaults
    /\ known' = FALSE
    /\ BreakSet({c \in NConns : up[c] = "up"})
    /\ nf' = nf + 1
    /\ hist' = H("gone", "")
    /\ UNCHANGED <<role, eng, req, inb, wrapped, first, gen, dec, via, fpbad>>

LeaderBack ==
    /\ ~known
    /\ known' = TRUE
    /\ hist' = H("back", "")
    /\ UNCHANGED <<role, eng, req, inb, wrapped, first, up, gen, upq, downq, latest, twait, rep, dec, via, orphan, fpbad, nf>>

Promote ==
    /\ role = "follower" /\ nf < MaxFaults
    /\ role' = "leader"
    /\ nf' = nf + 1
    /\ hist' = H("promote", "")
    /\ UNCHANGED <<known, eng, req, inb, wrapped, first, up, gen, upq, downq, latest, twait, rep, dec, via, orphan, fpbad>>

Demote ==
    /\ AllowDemote /\ role = "leader" /\ nf < MaxFaults
    /\ role' = "follower"
    /\ nf' = nf + 1
    /\ hist' = H("demote", "")
    /\ UNCHANGED <<known, eng, req, inb, wrapped, first, up, gen, upq, downq, latest, twait, rep, dec, via, orphan, fpbad>>

\* N's replica catches up with the leader's stream
Replicate ==
    /\ role = "follower" /\ known
    /\ <<eng["N"].holder, eng["N"].depth>> # <<eng["L"].holder, eng["L"].depth>>
    /\ eng' = [eng EXCEPT !["N"].holder = eng["L"].holder, !["N"].depth = eng["L"].depth]
    /\ UNCHANGED <<role, known, req, inb, wrapped, first, up, gen, upq, downq, latest, twait, rep, dec, via, orphan, fpbad, nf, hist>>

\* a queued request times out at the engine that queued it
TimeoutWaiter(n, i) ==
    /\ i \in 1..Len(eng[n].wq)
    /\ LET rid == eng[n].wq[i]
           out == <<[rid |-> rid, res |-> TIMEOUT]>>
       IN /\ eng' = [eng EXCEPT ![n].wq = SubSeq(@, 1, i - 1) \o SubSeq(@, i + 1, Len(@))]
          /\ rep' = RouteRep(out, "own")
          /\ downq' = RouteDown(out)
          /\ dec' = NewDec(out, rid, FALSE)
    /\ UNCHANGED <<role, known, req, inb, wrapped, first, up, gen, upq, latest, twait, via, orphan, fpbad, nf, hist>>

Next ==
    \/ \E c \in Conns, op \in Ops, lid \in Lids : ClientSend(c, op, lid)
    \/ \E c \in DirConns : DirProcess(c)
    \/ \E c \in NConns : NodeProcess(c) \/ LeaderRecv(c) \/ Relay(c) \/ Break(c)
    \/ LeaderGone \/ LeaderBack \/ Promote \/ Demote \/ Replicate
    \/ \E n \in {"L", "N"} : \E i \in 1..2 : TimeoutWaiter(n, i)

Spec == Init /\ [][Next]_vars

-----------------------------------------------------------------------------
\* properties

AllReplies == UNION {{[c |-> c, i |-> i] : i \in 1..Len(rep[c])} : c \in Conns}
R(x) == rep[x.c][x.i]

\* every reply carries the id of a request of THIS connection, at most one reply per request
OneReplyRightConn ==
    \A x \in AllReplies : /\ R(x).rid \in Rids /\ req[R(x).rid].conn = x.c
                          /\ \A y \in AllReplies : R(y).rid = R(x).rid => y = x

\* a relayed reply is the deciding engine's reply; nothing the node makes up is a success
RelayedIsLeaderReply == \A x \in AllReplies : R(x).src \in {"relay", "own"} => dec[R(x).rid] = R(x).res
NoFabricatedSuccess  == \A x \in AllReplies : /\ R(x).res = SUCCED => dec[R(x).rid] = SUCCED
                                              /\ R(x).src = "local" => R(x).res \in {STATEERR, ERROR, TIMEOUT}
\* a request refused with STATE_ERROR (or by the fast path) never reached any engine
RefusedNotExecuted == \A x \in AllReplies : (R(x).src = "local" /\ R(x).res # ERROR) => dec[R(x).rid] = "none"

\* a request is forwarded only by a wrapped connection of a non-leader, and only requests of a connection travel on its upstream
Quiescent == \A c \in Conns : inb[c] = <<>> /\ (c \in NConns => upq[c] = <<>> /\ downq[c] = <<>>)
Waiting(rid) == dec[rid] = "queued" /\ (\E n \in {"L", "N"} : \E i \in 1..Len(eng[n].wq) : eng[n].wq[i] = rid) /\ (via[rid].g = 0 \/ Live(rid))
\* every request is answered, except those the named deviation leaves without a reply
AnsweredUnlessOrphan == Quiescent => \A rid \in Rids : Answered(rid) \/ Waiting(rid) \/ rid \in orphan
OrphansOnlyByDeviation == (~RollbackLatestOnly) => orphan = {}
\* orphans exist only on pipelining (binary) connections
OrphansAreBinary == \A rid \in orphan : req[rid].conn \in BinConns

\* the non-leader's own engine state is changed by no client request: only by the leader's stream (and its own timers)
NonLeaderEngineUntouched ==
    [][(role = "follower" /\ role' = "follower" /\ eng'["N"] # eng["N"]) =>
          \/ (eng'["N"].holder = eng["L"].holder /\ eng'["N"].depth = eng["L"].depth /\ eng'["N"].wq = eng["N"].wq)
          \/ (eng'["N"].holder = eng["N"].holder /\ eng'["N"].depth = eng["N"].depth /\ Len(eng'["N"].wq) < Len(eng["N"].wq))]_vars

\* the leader's engine is changed only by a request that reached it
TypeOK == /\ role \in {"follower", "leader"} /\ known \in BOOLEAN
          /\ \A c \in NConns : up[c] \in {"none", "up"} /\ latest[c] \in 0..MaxReq
          /\ \A c \in TextConns : twait[c] \in 0..MaxReq /\ Len(upq[c]) + Len(downq[c]) <= 1

\* the follower's fast path never refuses what the leader, in the same state, would grant (the two mirror paths agree);
\* refuted when the guard is written with OR (FastPathOr = TRUE)
FastPathAgreesWithLeader == ~fpbad

\* NOT an invariant of the code as it is (RollbackLatestOnly = TRUE): TLC refutes it in 6 steps (two pipelined requests, break)
NoOrphan == orphan = {}

\* behaviour export for the replay engine (simulation mode)
Export == (NReq = MaxReq /\ Quiescent) => PrintT("BEHAVIOUR " \o ToJson(hist))
=============================================================================

------------------------------- MODULE Forward -------------------------------
(***************************************************************************)
(* Implementation-shaped model of the transparency (forwarding) layer of   *)
(* a node N that is not the leader (server/transparency.go, the dispatch   *)
(* loop of server/server.go:263-401) together with the leader L it         *)
(* forwards to.  Property C10, forwarding half.                            *)
(*                                                                         *)
(* What is modelled, one action per observable step of the code:           *)
(*  - client connections on N: binary (pipelined, one dedicated upstream   *)
(*    connection each: TransparencyBinaryServerProtocol.CheckClient ->     *)
(*    manager.OpenClient) and text (one request at a time, the handler     *)
(*    blocks on lockWaiter; upstream taken from the manager's pool for the *)
(*    life of the connection: AcquireClient); direct connections on L      *)
(*  - NodeProcess: the node takes the next request of a connection.  As a  *)
(*    leader it decides itself (AGAIN re-dispatch to the inner protocol);  *)
(*    as a non-leader it wraps the connection if needed, answers the       *)
(*    concurrent-check fast path from its REPLICA (CheckProbableLock),     *)
(*    refuses with STATE_ERROR when no leader is known / reachable, else    *)
(*    opens the upstream if there is none and writes the request to it     *)
(*    (latestRequestId := this request)                                    *)
(*  - LeaderRecv: the leader's engine decides a forwarded request; replies *)
(*    (of this request and of a waiter woken by it) are routed to the      *)
(*    connection each request came in on; a reply for a dead upstream      *)
(*    connection is dropped                                                *)
(*  - Relay: TransparencyBinaryClientProtocol.Process hands one leader     *)
(*    reply to the client connection (binary: always; text: only when the  *)
(*    request id is the one the handler waits for)                         *)
(*  - Break: the upstream connection dies with requests in flight:         *)
(*    rollbackLatestCommand fabricates RESULT_ERROR for the LATEST written *)
(*    request only (if still unanswered) and detaches the upstream; older  *)
(*    in-flight requests of a pipelining binary client are never answered  *)
(*    (deviation constant RollbackLatestOnly = TRUE names the code as it   *)
(*    is; FALSE answers all of them)                                       *)
(*  - LeaderGone / LeaderBack: N loses / regains a reachable leader        *)
(*    (every upstream breaks); Promote / Demote: N's own role changes      *)
(*    between two requests of a connection; Replicate: N's replica catches *)
(*    up with the leader's stream; TimeoutWaiter: a queued request times   *)
(*    out at the engine that queued it                                     *)
(*  - FirstTextLocal = TRUE names a second deviation found while reading   *)
(*    the code: the FIRST command of a text connection accepted by a       *)
(*    non-leader is parsed by Server.checkProtocol through                 *)
(*    TransparencyTextServerProtocol.ProcessParse, which delegates to the  *)
(*    INNER TextServerProtocol: when the whole command arrived in the      *)
(*    first read it is run by the plain handlers against N's own engine    *)
(*    (refused there with STATE_ERROR) instead of being forwarded          *)
(*                                                                         *)
(*  - LeaderExpire: the hold of the key EXPIRES on a deciding engine        *)
(*    (LockDB.doExpried): the engine pushes an UNSOLICITED frame - result   *)
(*    EXPRIED, carrying the request id of the LATEST request granted into   *)
(*    that hold (lock.command is replaced by every re-lock / update) - down *)
(*    the connection that request came in on, i.e. down an upstream link    *)
(*    when the request was forwarded, and grants the head waiter.  So the   *)
(*    leader may send a SECOND frame with a request id it has already       *)
(*    answered.  The rule of the transparency layer: exactly ONE leader     *)
(*    frame is relayed as the answer of a request; the notice is relayed to *)
(*    a binary client as a notice with that very request id and is dropped  *)
(*    for a text client (processTextProcotol resets lockRequestId when it   *)
(*    hands a frame to lockWaiter, so the notice matches nothing).  The     *)
(*    text handler is modelled with lockRequestId (twait), the request the  *)
(*    handler blocks for (tblk) and the buffered channel lockWaiter (lw).   *)
(*    ResetAfterRelay = FALSE names the mutation "the reset lands on a      *)
(*    copy" (seed C10d): the notice still matches, is queued in lockWaiter  *)
(*    and handed to the client as the answer of its NEXT request - TLC      *)
(*    refutes ReplyOfThatVeryRequest.                                       *)
(*                                                                         *)
(*  - the text KEY COMMANDS (SET, GETSET, INCR, ..., GET, STRLEN, ...): every *)
(*    command of the text dispatch tables has a class, read off what it      *)
(*    does on a LEADER.  WriteOps change engine state there ("wset": a lock  *)
(*    with update-when-locked under the key's own LockId that replaces the   *)
(*    value; the lock requests and unlock are write class too), ReadOps      *)
(*    ("rget") only look.  A non-leader's text table answers a read-class    *)
(*    command from its replica and must refuse or forward a write-class one. *)
(*    MisfiledOps names the mutation "a write command is registered with the *)
(*    local read handler of the non-leader's table" (seed C10e: GETSET): TLC *)
(*    refutes AckedWriteReachedLeader - the client holds an answer for a     *)
(*    write no deciding engine ever saw.                                     *)
(*                                                                         *)
(* The lock engine is abstracted to ONE exclusive key with a FIFO wait     *)
(* queue and re-entrant depth <= 2.  Request classes: lock0 (no wait),     *)
(* lockw (waits), lockr (no wait, Rcount > 0: the holder's re-lock is      *)
(* granted), lockc (concurrent-check flag, no wait), lockcw (concurrent-   *)
(* check flag WITH a wait time), unlock (one level).  Same engine for L    *)
(* and N.  The follower-local fast path (LockDB.CheckProbableLock) is      *)
(* taken for lockc ONLY - flag AND Timeout = 0 AND the replica shows the   *)
(* key held; FastPathOr = TRUE models the guard written with OR (every     *)
(* no-wait lock and every concurrent-check lock): TLC then refutes         *)
(* FastPathAgreesWithLeader with a holder's lockr answered TIMEOUT by the  *)
(* follower while the leader would grant it.                               *)
(***************************************************************************)
EXTENDS Integers, Sequences, FiniteSets, TLC, Json

CONSTANTS BinConns, TextConns,  \* client connections on node N
          DirConns,             \* client connections on the leader L
          Lids, Ops, MaxReq, MaxFaults, MaxExpire,
          RollbackLatestOnly, FirstTextLocal, FastPathOr, ResetAfterRelay, MisfiledOps, AllowDemote, RecordHist

NConns == BinConns \cup TextConns

\* classes of the request kinds: does the request change engine state on a leader?
WriteOps == {"lock0", "lockw", "lockr", "lockc", "lockcw", "unlock", "wset"}
ReadOps  == {"rget"}
ValueOps == {"wset", "rget"}
KeyLid   == 99          \* the LockId of a text key command is the key itself
VALUE    == "VALUE"     \* the answer of a read: the value (and nothing decided)
\* a text command that the non-leader's table hands to its LOCAL read handler
LocalRead(c, op) == c \in TextConns /\ (op \in ReadOps \/ op \in MisfiledOps)
Conns  == NConns \cup DirConns

VARIABLES role,     \* N's own role: "follower" | "leader"
          known,    \* N knows a reachable leader address
          eng,      \* "L" / "N" -> [holder, depth, hrid, wq]   (N's entry is its replica while it follows); hrid = request whose
                    \*              command the hold keeps (the latest one granted into it; 0 = a replicated hold)
          req,      \* sequence of requests [conn, op, lid]; the index is the request id
          inb,      \* conn -> request ids sent by the client, not yet taken by the node
          wrapped,  \* NConns -> the connection runs inside a Transparency*ServerProtocol
          first,    \* NConns -> no command taken from this connection yet
          up,       \* NConns -> "none" | "up"   upstream connection to the leader
          gen,      \* NConns -> number of upstream connections opened so far
          upq,      \* NConns -> request ids written to the upstream, not yet read by the leader
          downq,    \* NConns -> leader frames [rid, res, nt] not yet relayed (nt: an unsolicited notice)
          latest,   \* NConns -> latestRequestId (0 = latestCommandType 0xff)
          twait,    \* TextConns -> lockRequestId: the request id whose leader frame is handed to lockWaiter (0 = zeroed)
          tblk,     \* TextConns -> request the text handler blocks for on lockWaiter (0 = handler idle)
          lw,       \* TextConns -> frames buffered in the channel lockWaiter (empty in the code as it is)
          rep,      \* Conns -> what the client has received [rid, res, src, kind, of, ofn]: kind "reply" = taken as THE answer of
                    \*          request rid, "notice" = a further frame for rid; of / ofn = the request id / notice bit of the leader
                    \*          frame that was delivered
          dec,      \* ghost: request id -> what the deciding engine decided ("none", "queued", result)
          via,      \* ghost: request id -> [c, g] upstream instance that carried it (g = 0: decided on the node it was sent to)
          orphan,   \* ghost: requests left without any reply by an upstream break
          fpbad,    \* ghost: the fast path answered TIMEOUT although the (in-sync) leader would have granted
          expired,  \* ghost: requests whose hold expired on the deciding engine
          noted,    \* ghost: requests whose expiry notice was put on an intact route to the node / the client
          nlost,    \* ghost: notices that were in a downstream queue when the upstream connection broke
          nx,       \* number of expiries so far
          nf, hist

vars == <<role, known, eng, req, inb, wrapped, first, up, gen, upq, downq, latest, twait, tblk, lw, rep, dec, via, orphan, fpbad,
          expired, noted, nlost, nx, nf, hist>>

SUCCED == "SUCCED"   TIMEOUT == "TIMEOUT"   LOCKED == "LOCKED_ERROR"   UNLOCKERR == "UNLOCK_ERROR"
STATEERR == "STATE_ERROR"   ERROR == "ERROR"   EXPRIED == "EXPRIED"

NReq == Len(req)
Rids == 1..NReq
Answered(rid) == \E i \in 1..Len(rep[req[rid].conn]) : rep[req[rid].conn][i].rid = rid /\ rep[req[rid].conn][i].kind = "reply"

H(op, c) == IF RecordHist THEN Append(hist, [op |-> op, c |-> c, rop |-> "", lid |-> 0, n |-> 0]) ELSE hist

\* a frame of a deciding engine: the reply of request rid, or (nt) an unsolicited notice carrying the id of request rid
Fr(rid, res) == [rid |-> rid, res |-> res, nt |-> FALSE]
\* what a client records: frame f taken as THE answer of request rid / received as a further frame (notice) of request f.rid
RpReply(rid, f, src) == [rid |-> rid, res |-> f.res, src |-> src, kind |-> "reply", of |-> f.rid, ofn |-> f.nt]
RpNotice(f, src)     == [rid |-> f.rid, res |-> f.res, src |-> src, kind |-> "notice", of |-> f.rid, ofn |-> TRUE]
\* a binary / direct client matches a frame by the request id it carries
RpOf(f, src) == IF f.nt THEN RpNotice(f, src) ELSE RpReply(f.rid, f, src)

-----------------------------------------------------------------------------
\* the engine: one exclusive key, FIFO queue.  Decide returns the new engine and the replies it emits.
Decide(e, rid) ==
    LET r == req[rid]
        one(res) == [e |-> e, out |-> <<Fr(rid, res)>>, q |-> FALSE]
    IN
    IF r.op = "rget" THEN one(VALUE)                 \* a read looks and decides nothing
    ELSE IF r.op = "wset"
    THEN \* a write key command: lock-or-update under the key's own LockId, the value is replaced (val = the request that wrote it)
         IF e.holder = 0 THEN [e |-> [e EXCEPT !.holder = KeyLid, !.depth = 1, !.hrid = rid, !.val = rid], out |-> <<Fr(rid, SUCCED)>>, q |-> FALSE]
         ELSE IF e.holder = KeyLid THEN [e |-> [e EXCEPT !.hrid = rid, !.val = rid], out |-> <<Fr(rid, LOCKED)>>, q |-> FALSE]
         ELSE one(TIMEOUT)
    ELSE IF r.op = "unlock"
    THEN IF e.holder = r.lid
         THEN IF e.depth > 1
              THEN [e |-> [e EXCEPT !.depth = @ - 1], out |-> <<Fr(rid, SUCCED)>>, q |-> FALSE]
              ELSE IF e.wq = <<>>
              THEN [e |-> [e EXCEPT !.holder = 0, !.depth = 0, !.hrid = 0], out |-> <<Fr(rid, SUCCED)>>, q |-> FALSE]
              ELSE [e |-> [holder |-> req[Head(e.wq)].lid, depth |-> 1, hrid |-> Head(e.wq), wq |-> Tail(e.wq), val |-> e.val],
                    out |-> <<Fr(rid, SUCCED), Fr(Head(e.wq), SUCCED)>>, q |-> FALSE]
         ELSE one(UNLOCKERR)
    ELSE IF e.holder = 0
         THEN [e |-> [e EXCEPT !.holder = r.lid, !.depth = 1, !.hrid = rid], out |-> <<Fr(rid, SUCCED)>>, q |-> FALSE]
         ELSE IF r.op = "lockc" THEN one(TIMEOUT)                \* LockDB.Lock's own fast path: flag, no wait, key full - whoever holds
         ELSE IF e.holder = r.lid
              THEN IF r.op = "lockr" /\ e.depth < 2
                   THEN \* re-lock: UpdateLockedLock makes THIS request the hold's command (its id travels in the expiry notice)
                        [e |-> [e EXCEPT !.depth = @ + 1, !.hrid = rid], out |-> <<Fr(rid, SUCCED)>>, q |-> FALSE]
                   ELSE one(LOCKED)
              ELSE IF r.op \in {"lockw", "lockcw"}
                   THEN [e |-> [e EXCEPT !.wq = Append(@, rid)], out |-> <<>>, q |-> TRUE]
                   ELSE one(TIMEOUT)

\* the guard of LockDB.CheckProbableLock on the request alone (the replica test follows)
FastGuard(op) == IF FastPathOr THEN op \in {"lock0", "lockr", "lockc", "lockcw"} ELSE op = "lockc"

\* routing of engine frames: to the client connection itself (decided where it was sent) or into the downstream
\* queue of the upstream instance that carried the request; dropped when that instance is gone.  A notice for a request
\* decided on the node it was sent to reaches a binary / direct client; the plain TextServerProtocol drops it.
Live(rid) == via[rid].g > 0 /\ up[via[rid].c] = "up" /\ gen[via[rid].c] = via[rid].g

RouteRep(out, src) ==
    [c \in Conns |-> rep[c] \o SelectSeq([i \in 1..Len(out) |-> RpOf(out[i], src)],
                                       LAMBDA x : via[x.rid].g = 0 /\ req[x.rid].conn = c /\ ~(x.kind = "notice" /\ c \in TextConns))]
RouteDown(out) ==
    [c \in NConns |-> downq[c] \o SelectSeq(out, LAMBDA x : Live(x.rid) /\ via[x.rid].c = c)]

NewDec(out, rid, q) ==
    [x \in DOMAIN dec |->
        IF \E i \in 1..Len(out) : out[i].rid = x /\ ~out[i].nt
        THEN out[CHOOSE i \in 1..Len(out) : out[i].rid = x /\ ~out[i].nt].res
        ELSE IF x = rid /\ q THEN "queued" ELSE dec[x]]

-----------------------------------------------------------------------------
Init ==
    /\ role \in {"follower"} \cup (IF AllowDemote THEN {"leader"} ELSE {})
    /\ known = TRUE
    /\ eng = [n \in {"L", "N"} |-> [holder |-> 0, depth |-> 0, hrid |-> 0, wq |-> <<>>, val |-> 0]]
    /\ req = <<>>
    /\ inb = [c \in Conns |-> <<>>]
    /\ wrapped = [c \in NConns |-> role = "follower"]
    /\ first = [c \in NConns |-> TRUE]
    /\ up = [c \in NConns |-> "none"]
    /\ gen = [c \in NConns |-> 0]
    /\ upq = [c \in NConns |-> <<>>]
    /\ downq = [c \in NConns |-> <<>>]
    /\ latest = [c \in NConns |-> 0]
    /\ twait = [c \in TextConns |-> 0]
    /\ tblk = [c \in TextConns |-> 0]
    /\ lw = [c \in TextConns |-> <<>>]
    /\ rep = [c \in Conns |-> <<>>]
    /\ dec = <<>>
    /\ via = <<>>
    /\ orphan = {}
    /\ fpbad = FALSE
    /\ expired = {}
    /\ noted = {}
    /\ nlost = {}
    /\ nx = 0
    /\ nf = 0
    /\ hist = <<>>

\* a client sends a request (text clients and the direct clients are synchronous; binary clients pipeline)
ClientSend(c, op, lid) ==
    /\ NReq < MaxReq
    /\ c \notin BinConns => \A rid \in Rids : req[rid].conn = c => Answered(rid)
    /\ op \in ValueOps => lid = CHOOSE x \in Lids : \A y \in Lids : x <= y         \* (one send per value command: its LockId is the key)
    /\ req' = Append(req, [conn |-> c, op |-> op, lid |-> IF op \in ValueOps THEN KeyLid ELSE lid])
    /\ inb' = [inb EXCEPT ![c] = Append(@, NReq + 1)]
    /\ dec' = Append(dec, "none")
    /\ via' = Append(via, [c |-> c, g |-> 0])
    /\ hist' = IF RecordHist THEN Append(hist, [op |-> "send", c |-> c, rop |-> op, lid |-> lid, n |-> NReq + 1]) ELSE hist
    /\ UNCHANGED <<role, known, eng, wrapped, first, up, gen, upq, downq, latest, twait, tblk, lw, rep, orphan, fpbad, expired, noted, nlost, nx, nf>>

\* a request decided by the engine of the node it was sent to (L for direct connections, N while N leads)
DecideOwn(c, n) ==
    LET rid == Head(inb[c])
        d   == Decide(eng[n], rid)
    IN /\ eng' = [eng EXCEPT ![n] = d.e]
       /\ rep' = RouteRep(d.out, "own")
       /\ downq' = RouteDown(d.out)
       /\ dec' = NewDec(d.out, rid, d.q)
       /\ inb' = [inb EXCEPT ![c] = Tail(@)]

DirProcess(c) ==
    /\ c \in DirConns /\ inb[c] # <<>>
    /\ DecideOwn(c, "L")
    /\ UNCHANGED <<role, known, req, wrapped, first, up, gen, upq, latest, twait, tblk, lw, via, orphan, fpbad, expired, noted, nlost, nx, nf, hist>>

LocalReply(c, rid, res) == rep' = [rep EXCEPT ![c] = Append(@, RpReply(rid, Fr(rid, res), "local"))]

NodeProcess(c) ==
    /\ c \in NConns /\ inb[c] # <<>>
    /\ c \in TextConns => tblk[c] = 0
    /\ LET rid == Head(inb[c]) IN
       IF role = "leader"
       THEN \* AGAIN: the inner protocol decides on N's own engine
            /\ DecideOwn(c, "N")
            /\ first' = [first EXCEPT ![c] = FALSE]
            /\ UNCHANGED <<role, known, req, wrapped, up, gen, upq, latest, twait, tblk, lw, via, orphan, fpbad, expired, noted, nlost, nx, nf, hist>>
       ELSE
         /\ wrapped' = [wrapped EXCEPT ![c] = TRUE]
         /\ first' = [first EXCEPT ![c] = FALSE]
         /\ inb' = [inb EXCEPT ![c] = Tail(@)]
         /\ \/ \* deviation: first command of a text connection run by the inner handlers -> refused by N's own engine
               /\ FirstTextLocal /\ c \in TextConns /\ first[c] /\ wrapped[c] /\ req[rid].op \notin ReadOps
               /\ LocalReply(c, rid, STATEERR)
               /\ UNCHANGED <<up, gen, upq, latest, twait, tblk, lw, via, downq, dec, eng, fpbad>>
            \/ \* a text command the table hands to the local read handler: answered from the replica, nothing forwarded
               /\ LocalRead(c, req[rid].op) /\ (req[rid].op \in ReadOps \/ ~(FirstTextLocal /\ first[c] /\ wrapped[c]))
               /\ LocalReply(c, rid, VALUE)
               /\ UNCHANGED <<up, gen, upq, latest, twait, tblk, lw, via, downq, dec, eng, fpbad>>
            \/ \* concurrent-check fast path answered from the replica
               /\ ~LocalRead(c, req[rid].op)
               /\ FastGuard(req[rid].op) /\ eng["N"].holder # 0
               /\ LocalReply(c, rid, TIMEOUT)
               /\ fpbad' = (fpbad \/ (eng["N"].holder = eng["L"].holder /\ eng["N"].depth = eng["L"].depth 
                                      /\ Decide(eng["L"], rid).out # <<>> /\ Decide(eng["L"], rid).out[1].res = SUCCED))
               /\ UNCHANGED <<up, gen, upq, latest, twait, tblk, lw, via, downq, dec, eng>>
            \/ \* no upstream and no reachable leader: refused
               /\ ~LocalRead(c, req[rid].op)
               /\ ~(FastGuard(req[rid].op) /\ eng["N"].holder # 0)
               /\ up[c] = "none" /\ ~known
               /\ LocalReply(c, rid, STATEERR)
               /\ UNCHANGED <<up, gen, upq, latest, twait, tblk, lw, via, downq, dec, eng, fpbad>>
            \/ \* forwarded (the upstream is opened first when there is none)
               /\ ~LocalRead(c, req[rid].op)
               /\ ~(FastGuard(req[rid].op) /\ eng["N"].holder # 0)
               /\ up[c] = "up" \/ known
               /\ up' = [up EXCEPT ![c] = "up"]
               /\ gen' = [gen EXCEPT ![c] = IF up[c] = "up" THEN @ ELSE @ + 1]
               /\ upq' = [upq EXCEPT ![c] = Append(@, rid)]
               /\ latest' = [latest EXCEPT ![c] = rid]
               /\ via' = [via EXCEPT ![rid] = [c |-> c, g |-> gen'[c]]]
               /\ IF c \in TextConns
                  THEN \* the handler: lockRequestId := this request; write upstream; <-lockWaiter.  A frame that is already
                       \* buffered in lockWaiter (only possible without the reset) is taken at once as the answer
                       /\ twait' = [twait EXCEPT ![c] = rid]
                       /\ IF lw[c] = <<>>
                          THEN /\ tblk' = [tblk EXCEPT ![c] = rid]
                               /\ UNCHANGED <<lw, rep>>
                          ELSE /\ rep' = [rep EXCEPT ![c] = Append(@, RpReply(rid, Head(lw[c]), "relay"))]
                               /\ lw' = [lw EXCEPT ![c] = Tail(@)]
                               /\ tblk' = tblk
                  ELSE UNCHANGED <<twait, tblk, lw, rep>>
               /\ UNCHANGED <<downq, dec, eng, fpbad>>
         /\ UNCHANGED <<role, known, req, orphan, expired, noted, nlost, nx, nf, hist>>

\* the leader reads one forwarded request and decides it
LeaderRecv(c) ==
    /\ c \in NConns /\ upq[c] # <<>>
    /\ LET rid == Head(upq[c])
           d   == Decide(eng["L"], rid)
       IN /\ eng' = [eng EXCEPT !["L"] = d.e]
          /\ rep' = RouteRep(d.out, "own")
          /\ downq' = RouteDown(d.out)
          /\ dec' = NewDec(d.out, rid, d.q)
          /\ upq' = [upq EXCEPT ![c] = Tail(@)]
    /\ UNCHANGED <<role, known, req, inb, wrapped, first, up, gen, latest, twait, tblk, lw, via, orphan, fpbad, expired, noted, nlost, nx, nf, hist>>

\* one leader frame taken off the upstream link by TransparencyBinaryClientProtocol.Process
\*   binary client connection (processBinaryProcotol): every frame is written to the client as it is
\*   text client connection (processTextProcotol): a frame whose id equals lockRequestId goes to lockWaiter and lockRequestId
\*   is zeroed (ResetAfterRelay); any other frame - the expiry notice of an answered request - is dropped
Relay(c) ==
    /\ c \in NConns /\ downq[c] # <<>>
    /\ LET r == Head(downq[c]) IN
       /\ downq' = [downq EXCEPT ![c] = Tail(@)]
       /\ latest' = [latest EXCEPT ![c] = IF @ = r.rid THEN 0 ELSE @]
       /\ IF c \in BinConns
          THEN /\ rep' = [rep EXCEPT ![c] = Append(@, RpOf(r, "relay"))]
               /\ UNCHANGED <<twait, tblk, lw>>
          ELSE IF twait[c] = r.rid
               THEN /\ twait' = IF ResetAfterRelay THEN [twait EXCEPT ![c] = 0] ELSE twait
                    /\ IF tblk[c] # 0
                       THEN /\ rep' = [rep EXCEPT ![c] = Append(@, RpReply(tblk[c], r, "relay"))]
                            /\ tblk' = [tblk EXCEPT ![c] = 0]
                            /\ lw' = lw
                       ELSE /\ lw' = [lw EXCEPT ![c] = Append(@, r)]
                            /\ UNCHANGED <<rep, tblk>>
               ELSE UNCHANGED <<rep, twait, tblk, lw>>
    /\ UNCHANGED <<role, known, eng, req, inb, wrapped, first, up, gen, upq, dec, via, orphan, fpbad, expired, noted, nlost, nx, nf, hist>>

\* effect of the death of the upstream connections in set B
InFlight(c) == {rid \in Rids : via[rid].c = c /\ via[rid].g = gen[c] /\ via[rid].g > 0 /\ ~Answered(rid)}
Rolled(c) == IF RollbackLatestOnly
             THEN (IF latest[c] # 0 /\ ~Answered(latest[c]) THEN {latest[c]} ELSE {})
             ELSE InFlight(c)
SeqOfSet(S) == LET RECURSIVE F(_) F(T) == IF T = {} THEN <<>> ELSE LET x == CHOOSE y \in T : \A z \in T : y <= z IN <<x>> \o F(T \ {x}) IN F(S)
BreakSet(B) ==
    /\ rep' = [c \in Conns |-> IF c \in B
                               THEN rep[c] \o [i \in 1..Cardinality(Rolled(c)) |-> RpReply(SeqOfSet(Rolled(c))[i], Fr(SeqOfSet(Rolled(c))[i], ERROR), "local")]
                               ELSE rep[c]]
    /\ orphan' = orphan \cup UNION {InFlight(c) \ Rolled(c) : c \in B}
    /\ nlost' = nlost \cup UNION {{downq[c][i].rid : i \in {j \in 1..Len(downq[c]) : downq[c][j].nt}} : c \in B}
    /\ up' = [c \in NConns |-> IF c \in B THEN "none" ELSE up[c]]
    /\ upq' = [c \in NConns |-> IF c \in B THEN <<>> ELSE upq[c]]
    /\ downq' = [c \in NConns |-> IF c \in B THEN <<>> ELSE downq[c]]
    /\ latest' = [c \in NConns |-> IF c \in B THEN 0 ELSE latest[c]]
    /\ twait' = [c \in TextConns |-> IF c \in B THEN 0 ELSE twait[c]]
    /\ tblk' = [c \in TextConns |-> IF c \in B THEN 0 ELSE tblk[c]]
    /\ lw' = lw

Break(c) ==
    /\ c \in NConns /\ up[c] = "up" /\ nf < MaxFaults
    /\ BreakSet({c})
    /\ nf' = nf + 1
    /\ hist' = H("break", c)
    /\ UNCHANGED <<role, known, eng, req, inb, wrapped, first, gen, dec, via, fpbad, expired, noted, nx>>

LeaderGone ==
    /\ known /\ nf < MaxFaults
    /\ known' = FALSE
    /\ BreakSet({c \in NConns : up[c] = "up"})
    /\ nf' = nf + 1
    /\ hist' = H("gone", "")
    /\ UNCHANGED <<role, eng, req, inb, wrapped, first, gen, dec, via, fpbad, expired, noted, nx>>

LeaderBack ==
    /\ ~known
    /\ known' = TRUE
    /\ hist' = H("back", "")
    /\ UNCHANGED <<role, eng, req, inb, wrapped, first, up, gen, upq, downq, latest, twait, tblk, lw, rep, dec, via, orphan, fpbad, expired, noted, nlost, nx, nf>>

Promote ==
    /\ role = "follower" /\ nf < MaxFaults
    /\ role' = "leader"
    /\ nf' = nf + 1
    /\ hist' = H("promote", "")
    /\ UNCHANGED <<known, eng, req, inb, wrapped, first, up, gen, upq, downq, latest, twait, tblk, lw, rep, dec, via, orphan, fpbad, expired, noted, nlost, nx>>

Demote ==
    /\ AllowDemote /\ role = "leader" /\ nf < MaxFaults
    /\ role' = "follower"
    /\ nf' = nf + 1
    /\ hist' = H("demote", "")
    /\ UNCHANGED <<known, eng, req, inb, wrapped, first, up, gen, upq, downq, latest, twait, tblk, lw, rep, dec, via, orphan, fpbad, expired, noted, nlost, nx>>

\* N's replica catches up with the leader's stream (a replicated hold keeps no client command: hrid = 0)
Replicate ==
    /\ role = "follower" /\ known
    /\ <<eng["N"].holder, eng["N"].depth, eng["N"].val>> # <<eng["L"].holder, eng["L"].depth, eng["L"].val>>
    /\ eng' = [eng EXCEPT !["N"].holder = eng["L"].holder, !["N"].depth = eng["L"].depth, !["N"].hrid = 0, !["N"].val = eng["L"].val]
    /\ UNCHANGED <<role, known, req, inb, wrapped, first, up, gen, upq, downq, latest, twait, tblk, lw, rep, dec, via, orphan, fpbad, expired, noted, nlost, nx, nf, hist>>

\* a queued request times out at the engine that queued it
TimeoutWaiter(n, i) ==
    /\ i \in 1..Len(eng[n].wq)
    /\ LET rid == eng[n].wq[i]
           out == <<Fr(rid, TIMEOUT)>>
       IN /\ eng' = [eng EXCEPT ![n].wq = SubSeq(@, 1, i - 1) \o SubSeq(@, i + 1, Len(@))]
          /\ rep' = RouteRep(out, "own")
          /\ downq' = RouteDown(out)
          /\ dec' = NewDec(out, rid, FALSE)
    /\ UNCHANGED <<role, known, req, inb, wrapped, first, up, gen, upq, latest, twait, tblk, lw, via, orphan, fpbad, expired, noted, nlost, nx, nf, hist>>

\* the hold of the key expires on a DECIDING engine (LockDB.doExpried; a follower never ends a replicated hold on its own clock:
\* the refuse half of C10).  The engine pushes an unsolicited EXPRIED frame with the id of the request whose command the hold keeps
\* down the connection of that request and grants the head waiter.
LeaderExpire(n) ==
    /\ nx < MaxExpire
    /\ n = "N" => role = "leader"
    /\ eng[n].holder # 0
    /\ LET hr  == eng[n].hrid
           e   == eng[n]
           nte == IF hr # 0 THEN <<[rid |-> hr, res |-> EXPRIED, nt |-> TRUE]>> ELSE <<>>
           wk  == IF e.wq # <<>> THEN <<Fr(Head(e.wq), SUCCED)>> ELSE <<>>
           out == nte \o wk
       IN /\ eng' = [eng EXCEPT ![n] = IF e.wq = <<>> THEN [holder |-> 0, depth |-> 0, hrid |-> 0, wq |-> <<>>, val |-> 0]
                                        ELSE [holder |-> req[Head(e.wq)].lid, depth |-> 1, hrid |-> Head(e.wq), wq |-> Tail(e.wq), val |-> 0]]
          /\ rep' = RouteRep(out, "own")
          /\ downq' = RouteDown(out)
          /\ dec' = NewDec(out, 0, FALSE)
          /\ expired' = IF hr # 0 THEN expired \cup {hr} ELSE expired
          /\ noted' = IF hr # 0 /\ (Live(hr) \/ (via[hr].g = 0 /\ req[hr].conn \notin TextConns)) THEN noted \cup {hr} ELSE noted
          /\ hist' = IF RecordHist THEN Append(hist, [op |-> "expire", c |-> IF hr # 0 THEN req[hr].conn ELSE "", rop |-> n, lid |-> e.holder, n |-> hr]) ELSE hist
    /\ nx' = nx + 1
    /\ UNCHANGED <<role, known, req, inb, wrapped, first, up, gen, upq, latest, twait, tblk, lw, via, orphan, fpbad, nlost, nf>>

Next ==
    \/ \E c \in Conns, op \in Ops, lid \in Lids : ClientSend(c, op, lid)
    \/ \E c \in DirConns : DirProcess(c)
    \/ \E c \in NConns : NodeProcess(c) \/ LeaderRecv(c) \/ Relay(c) \/ Break(c)
    \/ LeaderGone \/ LeaderBack \/ Promote \/ Demote \/ Replicate
    \/ \E n \in {"L", "N"} : \E i \in 1..2 : TimeoutWaiter(n, i)
    \/ \E n \in {"L", "N"} : LeaderExpire(n)

Spec == Init /\ [][Next]_vars

-----------------------------------------------------------------------------
\* properties

AllReplies == UNION {{[c |-> c, i |-> i] : i \in 1..Len(rep[c])} : c \in Conns}
R(x) == rep[x.c][x.i]

\* everything a client receives carries the id of a request of THIS connection; at most one frame is taken as the answer
\* of a request and at most one further frame (the expiry notice) follows it
OneReplyRightConn ==
    \A x \in AllReplies : /\ R(x).rid \in Rids /\ req[R(x).rid].conn = x.c
                          /\ \A y \in AllReplies : (R(y).rid = R(x).rid /\ R(y).kind = R(x).kind) => y = x

\* a relayed reply is the deciding engine's reply; nothing the node makes up is a success
RelayedIsLeaderReply == \A x \in AllReplies : (R(x).src \in {"relay", "own"} /\ R(x).kind = "reply") => dec[R(x).rid] = R(x).res
NoFabricatedSuccess  == \A x \in AllReplies : /\ R(x).res = SUCCED => dec[R(x).rid] = SUCCED
                                              /\ R(x).src = "local" => (R(x).res \in {STATEERR, ERROR, TIMEOUT} \/ (R(x).res = VALUE /\ req[R(x).rid].op \in ReadOps))
\* an answer to a write-class request that is not a refusal (nor the follower's documented fast path) means that a deciding
\* engine decided that request: the write reached the leader (refuted when a write command sits with the local read handler)
AckedWriteReachedLeader ==
    \A x \in AllReplies : (req[R(x).rid].op \in WriteOps /\ R(x).kind = "reply" /\ ~(R(x).src = "local" /\ R(x).res \in {STATEERR, ERROR, TIMEOUT}))
                              => dec[R(x).rid] \notin {"none", "queued"}
\* a read-class request decides nothing: the engines are what they were (its decision, if any, is the bare VALUE)
ReadsDecideNothing == \A rid \in Rids : req[rid].op \in ReadOps => dec[rid] \in {"none", VALUE}
\* what is taken as THE answer of a request is the deciding engine's reply frame for THAT VERY request - never a frame of
\* another request, never an unsolicited notice (refuted when lockRequestId is not reset: ResetAfterRelay = FALSE)
ReplyOfThatVeryRequest == \A x \in AllReplies : (R(x).src \in {"relay", "own"} /\ R(x).kind = "reply") => (R(x).of = R(x).rid /\ ~R(x).ofn)
\* an expiry notice reaches a client only as a notice: with the id of a request of this client whose hold did expire, after
\* the SUCCED (or, for an update of the held key, LOCKED_ERROR) answer of that request, result EXPRIED, and never on a text connection
NoticeIsOfExpiredGrant ==
    \A x \in AllReplies : R(x).kind = "notice" =>
        /\ R(x).rid \in expired /\ R(x).res = EXPRIED /\ R(x).ofn /\ x.c \notin TextConns
        /\ \E j \in 1..(x.i - 1) : rep[x.c][j].rid = R(x).rid /\ rep[x.c][j].kind = "reply" /\ rep[x.c][j].res \in {SUCCED, LOCKED}
\* a notice that was put on an intact route is relayed to a binary client (not dropped, not re-tagged) and never shows up on a
\* text connection in any form
NoticesRelayedToBinary ==
    (\A c \in NConns : downq[c] = <<>>) =>
        \A rid \in noted \ nlost :
            IF req[rid].conn \in TextConns
            THEN \A i \in 1..Len(rep[req[rid].conn]) : ~(rep[req[rid].conn][i].of = rid /\ rep[req[rid].conn][i].ofn)
            ELSE \E i \in 1..Len(rep[req[rid].conn]) : rep[req[rid].conn][i].rid = rid /\ rep[req[rid].conn][i].kind = "notice"
\* lockWaiter never holds a frame while the handler is idle (the code as it is)
LockWaiterEmpty == ResetAfterRelay => \A c \in TextConns : lw[c] = <<>>
\* a request refused with STATE_ERROR (or by the fast path) never reached any engine
RefusedNotExecuted == \A x \in AllReplies : (R(x).src = "local" /\ R(x).res # ERROR) => dec[R(x).rid] = "none"

\* a request is forwarded only by a wrapped connection of a non-leader, and only requests of a connection travel on its upstream
Quiescent == \A c \in Conns : inb[c] = <<>> /\ (c \in NConns => upq[c] = <<>> /\ downq[c] = <<>>)
Waiting(rid) == dec[rid] = "queued" /\ (\E n \in {"L", "N"} : \E i \in 1..Len(eng[n].wq) : eng[n].wq[i] = rid) /\ (via[rid].g = 0 \/ Live(rid))
\* every request is answered, except those the named deviation leaves without a reply
AnsweredUnlessOrphan == Quiescent => \A rid \in Rids : Answered(rid) \/ Waiting(rid) \/ rid \in orphan
OrphansOnlyByDeviation == (~RollbackLatestOnly) => orphan = {}
\* orphans exist only on pipelining (binary) connections
OrphansAreBinary == \A rid \in orphan : req[rid].conn \in BinConns

\* the non-leader's own engine state is changed by no client request: only by the leader's stream (and its own timers)
NonLeaderEngineUntouched ==
    [][(role = "follower" /\ role' = "follower" /\ eng'["N"] # eng["N"]) =>
          \/ (eng'["N"].holder = eng["L"].holder /\ eng'["N"].depth = eng["L"].depth /\ eng'["N"].wq = eng["N"].wq)
          \/ (eng'["N"].holder = eng["N"].holder /\ eng'["N"].depth = eng["N"].depth /\ Len(eng'["N"].wq) < Len(eng["N"].wq))]_vars

\* the leader's engine is changed only by a request that reached it
TypeOK == /\ role \in {"follower", "leader"} /\ known \in BOOLEAN
          /\ \A c \in NConns : up[c] \in {"none", "up"} /\ latest[c] \in 0..MaxReq
          /\ \A c \in TextConns : twait[c] \in 0..MaxReq /\ tblk[c] \in 0..MaxReq /\ Len(upq[c]) <= 1 /\ Len(lw[c]) <= 4
          /\ nx \in 0..MaxExpire /\ expired \subseteq Rids /\ noted \subseteq expired /\ nlost \subseteq noted

\* the follower's fast path never refuses what the leader, in the same state, would grant (the two mirror paths agree);
\* refuted when the guard is written with OR (FastPathOr = TRUE)
FastPathAgreesWithLeader == ~fpbad

\* NOT an invariant of the code as it is (RollbackLatestOnly = TRUE): TLC refutes it in 6 steps (two pipelined requests, break)
NoOrphan == orphan = {}

\* behaviour export for the replay engine (simulation mode)
Export == (NReq = MaxReq /\ Quiescent) => PrintT("BEHAVIOUR " \o ToJson(hist))
=============================================================================

----------------------------- MODULE ForwardSim -----------------------------
(***************************************************************************)
(* Random-walk front end of Forward for `tlc -simulate`, used to generate   *)
(* EXPIRY behaviours (C10, forwarding half).  Forward!Next offers ninety    *)
(* client requests next to a handful of other steps, so a uniform walk      *)
(* sends everything first and lets holds expire when nobody sends any more. *)
(* Here the CLASS of the next step is drawn first (variable `turn`, every   *)
(* successor exists once per value of turn', so the simulator's uniform     *)
(* choice of a successor is a uniform choice of the next class): one        *)
(* request / processing steps (twice as often) / the expiry of the hold or  *)
(* a fault.  Holds are granted, expire while their connections stay open,   *)
(* and the connections send again.  No promotion here (expiry histories     *)
(* run on plain followers).  Every printed `hist` is a behaviour of         *)
(* Forward!Spec: SimNext => [Next]_vars.                                    *)
(***************************************************************************)
EXTENDS Forward

VARIABLE turn
Turns == {"send", "step", "step2", "expire"}

Steps == \/ \E c \in DirConns : DirProcess(c)
         \/ \E c \in NConns : NodeProcess(c) \/ LeaderRecv(c) \/ Relay(c)
         \/ Replicate
         \/ \E i \in 1..2 : TimeoutWaiter("L", i)

SimStep ==
    \/ /\ turn = "send"
       /\ \E c \in Conns, op \in Ops, lid \in Lids : ClientSend(c, op, lid)
    \/ /\ turn \in {"step", "step2"}
       /\ Steps
    \/ /\ turn = "expire"
       /\ \/ LeaderExpire("L")
          \/ \E c \in NConns : Break(c)
          \/ LeaderGone \/ LeaderBack
    \/ UNCHANGED vars          \* (nothing of the drawn class is enabled: draw again)

SimNext == SimStep /\ turn' \in Turns
SimInit == Init /\ turn = "send"
SimSpec == SimInit /\ [][SimNext]_<<vars, turn>>

\* an expiry whose notice has a route to N (the hold's command came in on a connection of N) and whose connection sends again
ExpiryThenSend ==
    \E i \in 1..Len(hist) : /\ hist[i].op = "expire" /\ hist[i].n > 0 /\ hist[i].c \in NConns /\ hist[i].lid # KeyLid
                            /\ \E j \in (i + 1)..Len(hist) : hist[j].op = "send" /\ hist[j].c = hist[i].c
SimExport == (NReq = MaxReq /\ Quiescent /\ ExpiryThenSend /\ turn = "send") => PrintT("BEHAVIOUR " \o ToJson(hist))
=============================================================================

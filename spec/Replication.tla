------------------------------ MODULE Replication ------------------------------
(***************************************************************************)
(* Leader -> follower replication of slock, written the way the code is    *)
(* built (server/replication.go, server/aof.go), one action per step that  *)
(* the code takes between two points where something else can happen.      *)
(*                                                                         *)
(* leader    log (ids = positions 1..n, each in an append file `file`),    *)
(*           the files on disk (`image`: positions still present; a        *)
(*           rotation starts a new file, compaction - rewriteAofFiles -    *)
(*           keeps only the records of older files whose hold is still     *)
(*           live), the ring buffer lo..Len(log) with capacity RingCap     *)
(*           (ReplicationBufferQueue at its maximum size: Push evicts the  *)
(*           tail whether or not a follower still needs it)                *)
(* link      in-flight messages leader->follower (TCP: FIFO, a cut loses   *)
(*           the undelivered suffix - a partly delivered record is         *)
(*           discarded by the reader, so cuts at byte granularity and at   *)
(*           message granularity are the same thing here)                  *)
(* follower  position `pos` (ReplicationClient.currentAofId), memory state *)
(*           `mem` (records replayed), files `disk` (records appended),    *)
(*           the queues of the replay and append pipelines                 *)
(*           (Process -> ProcessReplayLock / ProcessAofAppend; the third   *)
(*           pipeline re-publishes into the follower's own ring and has no *)
(*           effect on C09)                                                *)
(*                                                                         *)
(* Code anchors:  Handshake = handleInitSync / sendSyncCommand / InitSync   *)
(*   SendFile / FilesDone = sendFiles / sendFilesFinished / recvFiles       *)
(*   StreamPop = SendProcess + ReplicationBufferQueue.Pop ("out of buf")    *)
(*   Recv = recvFiles loop / Process loop;  Replay, AppendFile = pipelines  *)
(*   Connect requires the pipelines to be drained (Run waits for the three  *)
(*   waiters before it reconnects).                                         *)
(*                                                                         *)
(* Named deviations (constants; regression models of defects, see below):   *)
(*   ResumeChecksRing   FALSE: a resume position that is no longer in the   *)
(*                      ring is accepted and the cursor put at the head     *)
(*   SeqCheck           FALSE: Pop does not compare the cursor's seq, an    *)
(*                      overrun cursor continues at the ring tail           *)
(*   DrainBeforeReconnect FALSE: the follower reconnects with its position  *)
(*                      taken before the append pipeline has drained        *)
(*   NilCursorChecked   FALSE: a follower that shook hands while the ring   *)
(*                      was empty starts at whatever the ring tail is at    *)
(*                      its first Pop; if the ring overflowed in between,   *)
(*                      records are skipped silently (the code before       *)
(*                      96ae9f3, finding R4; now Pop answers "out of buf")  *)
(*   NoPosPreset        FALSE: the follower stores the handshake id of a    *)
(*                      full transfer as its position before any record     *)
(*                      arrived (the code before ea75a95, finding R3)       *)
(* All TRUE is the code as it is now.                                       *)
(***************************************************************************)
EXTENDS Integers, Sequences, FiniteSets, TLC, Json

CONSTANTS F, MaxLog, RingCap, MaxCuts, MaxRot, MaxRestart, Keys,
          ResumeChecksRing, SeqCheck, DrainBeforeReconnect, NilCursorChecked, NoPosPreset

VARIABLES log,        \* sequence of [key, op, file]
          file,       \* index of the leader's current append file
          image,      \* positions of the records present in the leader's files, increasing
          compacted,  \* files with index < compacted have been compacted
          lo,         \* first log position still in the ring (ring = lo..Len(log))
          fst,        \* follower state: "off" | "down" | "hs" | "files" | "live" | "closing"
          pos,        \* follower's resume position (0 = none)
          mem, disk,  \* follower: positions replayed into memory / appended to its files
          cold,       \* follower process was restarted: memory is rebuilt from its files on resume
          rq, aq,     \* follower: replay queue, append queue
          wire,       \* in-flight leader->follower messages
          cur,        \* leader: last position handed to the link for this follower (cursor)
          curOK,      \* leader: the ring slot the cursor stands on has not been recycled
          hc,         \* leader cursor before its first Pop: "head" = placed on the ring head by the handshake (the record
                      \* was copied and is sent unconditionally), "nil" = the ring was empty at the handshake (Pop will take
                      \* whatever the ring tail is then - no seq check applies to a cursor that never held an item), "no" = popped
          fimg,       \* leader: records of the file transfer still to send
          H,          \* handshake position of the last full transfer (history: start of the live part)
          nrecv,      \* records received on the current connection in the current phase (fault coordinates)
          cuts, rots, restarts,
          hist        \* environment actions, exported as fault scenarios
vars == <<log, file, image, compacted, lo, fst, pos, mem, disk, cold, rq, aq, wire, cur, curOK, hc, fimg, H, nrecv, cuts, rots, restarts, hist>>

N == Len(log)
Last(s) == IF Len(s) = 0 THEN 0 ELSE s[Len(s)]
SeqRange(s) == {s[i] : i \in 1..Len(s)}

\* state reached by applying the records at the given positions in order: the set of held keys
RECURSIVE Apply(_, _)
Apply(s, held) == IF Len(s) = 0 THEN held
                  ELSE LET r == log[Head(s)] IN
                       Apply(Tail(s), IF r.op = "L" THEN held \cup {r.key} ELSE held \ {r.key})
StateOf(s) == Apply(s, {})
AllPos == [i \in 1..N |-> i]
Held == StateOf(AllPos)

InRing(p) == p >= lo /\ p <= N /\ p >= 1

Init == /\ log = <<>> /\ file = 1 /\ image = <<>> /\ compacted = 1 /\ lo = 1
        /\ fst = [f \in F |-> "off"] /\ pos = [f \in F |-> 0]
        /\ mem = [f \in F |-> <<>>] /\ disk = [f \in F |-> <<>>] /\ cold = [f \in F |-> FALSE]
        /\ rq = [f \in F |-> <<>>] /\ aq = [f \in F |-> <<>>] /\ wire = [f \in F |-> <<>>]
        /\ cur = [f \in F |-> 0] /\ curOK = [f \in F |-> TRUE] /\ hc = [f \in F |-> "no"] /\ fimg = [f \in F |-> <<>>] /\ H = [f \in F |-> 0]
        /\ nrecv = [f \in F |-> 0]
        /\ cuts = 0 /\ rots = 0 /\ restarts = 0 /\ hist = <<>>

-----------------------------------------------------------------------------
\* leader

\* Aof.PushLock: assign the id, write the file, push into the ring (evicting the tail at capacity)
LAppend(k) ==
    /\ N < MaxLog
    /\ LET op == IF k \in Held THEN "U" ELSE "L"
           newlo == IF N + 1 - lo >= RingCap THEN lo + 1 ELSE lo IN
       /\ log' = Append(log, [key |-> k, op |-> op, file |-> file])
       /\ image' = Append(image, N + 1)
       /\ lo' = newlo
       \* a cursor standing on the evicted slot is overrun (its seq no longer matches)
       /\ curOK' = [f \in F |-> LET slot == IF hc[f] = "head" THEN cur[f] + 1 ELSE cur[f] IN
                                 curOK[f] /\ ~(slot >= 1 /\ slot < newlo /\ fst[f] \in {"files", "live"})]
    /\ hist' = Append(hist, [a |-> "append"])
    /\ UNCHANGED <<file, compacted, fst, pos, mem, disk, cold, rq, aq, wire, cur, hc, fimg, H, nrecv, cuts, rots, restarts>>

\* Aof.RewriteAofFile(true): new append file
Rotate ==
    /\ rots < MaxRot /\ N > 0
    /\ file' = file + 1 /\ rots' = rots + 1
    /\ hist' = Append(hist, [a |-> "rotate"])
    /\ UNCHANGED <<log, image, compacted, lo, fst, pos, mem, disk, cold, rq, aq, wire, cur, curOK, hc, fimg, H, nrecv, cuts, restarts>>

\* rewriteAofFiles: of the files older than the current one only records whose hold is live survive
\* (for each held key the record that granted the hold)
Compact ==
    /\ compacted < file
    /\ LET LiveRec(p) == /\ log[p].op = "L" /\ log[p].key \in Held
                         /\ \A q \in (p + 1)..N : log[q].key # log[p].key
           keep(p) == log[p].file >= file \/ LiveRec(p) IN
       image' = SelectSeq(image, keep)
    /\ compacted' = file
    /\ UNCHANGED <<log, file, lo, fst, pos, mem, disk, cold, rq, aq, wire, cur, curOK, hc, fimg, H, nrecv, cuts, rots, restarts, hist>>

-----------------------------------------------------------------------------
\* follower process and connection

Join(f) ==
    /\ fst[f] = "off"
    /\ fst' = [fst EXCEPT ![f] = "down"]
    /\ hist' = Append(hist, [a |-> "join", f |-> f])
    /\ UNCHANGED <<log, file, image, compacted, lo, pos, mem, disk, cold, rq, aq, wire, cur, curOK, hc, fimg, H, nrecv, cuts, rots, restarts>>

Drained(f) == rq[f] = <<>> /\ aq[f] = <<>>

\* connect + SYNC request + answer, one step (a cut inside the handshake is Cut right after it:
\* nothing has been delivered yet)
Handshake(f) ==
    /\ fst[f] = "down"
    /\ DrainBeforeReconnect => Drained(f)
    /\ LET p == pos[f]
           full == p = 0 \/ (~InRing(p) /\ ResumeChecksRing)
           h == IF N >= 1 THEN N ELSE 1          \* head of the ring (the record itself is re-sent live), or next id
       IN IF full
          THEN \* full transfer: Reset + FlushDB on the follower, files below h, then live from h
               /\ pos' = [pos EXCEPT ![f] = IF NoPosPreset \/ N = 0 THEN 0 ELSE h]
               /\ mem' = [mem EXCEPT ![f] = <<>>] /\ disk' = [disk EXCEPT ![f] = <<>>]
               /\ rq' = [rq EXCEPT ![f] = <<>>] /\ aq' = [aq EXCEPT ![f] = <<>>]
               /\ fimg' = [fimg EXCEPT ![f] = SelectSeq(image, LAMBDA q : q < h)]
               /\ H' = [H EXCEPT ![f] = h]
               /\ cur' = [cur EXCEPT ![f] = h - 1]
               /\ hc' = [hc EXCEPT ![f] = IF N >= 1 THEN "head" ELSE "nil"]
               /\ fst' = [fst EXCEPT ![f] = "files"]
               /\ cold' = [cold EXCEPT ![f] = FALSE]
          ELSE \* resume: the cursor stands on p (already written); a restarted follower loads its files first
               /\ cur' = [cur EXCEPT ![f] = IF InRing(p) THEN p ELSE N]
               /\ mem' = [mem EXCEPT ![f] = IF cold[f] THEN disk[f] ELSE @]
               /\ cold' = [cold EXCEPT ![f] = FALSE]
               /\ fst' = [fst EXCEPT ![f] = "live"]
               /\ hc' = [hc EXCEPT ![f] = "no"]
               /\ UNCHANGED <<pos, disk, rq, aq, fimg, H>>
    /\ curOK' = [curOK EXCEPT ![f] = TRUE]
    /\ wire' = [wire EXCEPT ![f] = <<>>]
    /\ nrecv' = [nrecv EXCEPT ![f] = 0]
    /\ hist' = Append(hist, [a |-> "hs", f |-> f, full |-> (pos[f] = 0 \/ (~InRing(pos[f]) /\ ResumeChecksRing)), refused |-> (pos[f] # 0 /\ ~InRing(pos[f]))])
    /\ UNCHANGED <<log, file, image, compacted, lo, cuts, rots, restarts>>

SendFile(f) ==
    /\ fst[f] = "files" /\ fimg[f] # <<>> /\ Head(fimg[f]) # 0 /\ cur[f] = H[f] - 1
    /\ wire' = [wire EXCEPT ![f] = Append(@, [t |-> "file", n |-> Head(fimg[f])])]
    /\ fimg' = [fimg EXCEPT ![f] = Tail(@)]
    /\ UNCHANGED <<log, file, image, compacted, lo, fst, pos, mem, disk, cold, rq, aq, cur, curOK, hc, H, nrecv, cuts, rots, restarts, hist>>

\* the marker; the leader's side is in the live phase from here on (cursor at H-1: H itself is sent first)
FilesDone(f) ==
    /\ fst[f] = "files" /\ fimg[f] = <<>>
    /\ ~\E i \in 1..Len(wire[f]) : wire[f][i].t = "fdone"
    /\ cur[f] = H[f] - 1
    /\ wire' = [wire EXCEPT ![f] = Append(@, [t |-> "fdone", n |-> 0])]
    /\ fimg' = [fimg EXCEPT ![f] = <<0>>]      \* sentinel: marker sent
    /\ UNCHANGED <<log, file, image, compacted, lo, fst, pos, mem, disk, cold, rq, aq, cur, curOK, hc, H, nrecv, cuts, rots, restarts, hist>>

LeaderLive(f) == fst[f] = "live" \/ (fst[f] = "files" /\ fimg[f] = <<0>>)

\* SendProcess: Pop the next record from the ring.
\*   hc = "head": the record at the handshake position was copied when the cursor was placed (Head): it is sent
\*                whatever happened to the ring; the cursor then stands on that slot.
\*   hc = "nil":  the ring was empty at the handshake; the cursor holds no item but remembers the ring's seq, so Pop
\*                starts at the ring tail only if that is still the first record pushed since ("out of buf" if not);
\*                NilCursorChecked = FALSE is the old code, which took whatever the tail was.
\*   otherwise the slot the cursor stands on must still carry the cursor's seq ("out of buf" if not).
StreamPop(f) ==
    /\ LeaderLive(f) /\ cur[f] < N
    /\ ~\E i \in 1..Len(wire[f]) : wire[f][i].t = "eof"
    /\ IF hc[f] = "head"
       THEN /\ wire' = [wire EXCEPT ![f] = Append(@, [t |-> "live", n |-> cur[f] + 1])]
            /\ cur' = [cur EXCEPT ![f] = cur[f] + 1]
            /\ hc' = [hc EXCEPT ![f] = "no"]
            /\ UNCHANGED curOK
       ELSE IF hc[f] = "nil"
       THEN IF lo <= cur[f] + 1 \/ ~NilCursorChecked
            THEN /\ LET nxt == IF lo > cur[f] + 1 THEN lo ELSE cur[f] + 1 IN
                    /\ wire' = [wire EXCEPT ![f] = Append(@, [t |-> "live", n |-> nxt])]
                    /\ cur' = [cur EXCEPT ![f] = nxt]
                 /\ hc' = [hc EXCEPT ![f] = "no"]
                 /\ curOK' = [curOK EXCEPT ![f] = TRUE]
            ELSE \* the ring tail is no longer the first record pushed after the handshake: "out of buf"
                 /\ wire' = [wire EXCEPT ![f] = Append(@, [t |-> "eof", n |-> 0])]
                 /\ UNCHANGED <<cur, curOK, hc>>
       ELSE IF curOK[f]
       THEN /\ wire' = [wire EXCEPT ![f] = Append(@, [t |-> "live", n |-> cur[f] + 1])]
            /\ cur' = [cur EXCEPT ![f] = cur[f] + 1]
            /\ UNCHANGED <<curOK, hc>>
       ELSE IF ~SeqCheck
       THEN \* deviation: an overrun cursor follows the recycled slot's links - it continues somewhere ahead
            /\ LET nxt == IF lo > cur[f] + 1 THEN lo ELSE cur[f] + 1 IN
               /\ wire' = [wire EXCEPT ![f] = Append(@, [t |-> "live", n |-> nxt])]
               /\ cur' = [cur EXCEPT ![f] = nxt]
            /\ curOK' = [curOK EXCEPT ![f] = TRUE]
            /\ UNCHANGED hc
       ELSE \* "out of buf": the leader closes the connection; what is in flight is still delivered
            /\ wire' = [wire EXCEPT ![f] = Append(@, [t |-> "eof", n |-> 0])]
            /\ UNCHANGED <<cur, curOK, hc>>
    /\ UNCHANGED <<log, file, image, compacted, lo, fst, pos, mem, disk, cold, rq, aq, fimg, H, nrecv, cuts, rots, restarts, hist>>


Recv(f) ==
    /\ fst[f] \in {"files", "live"} /\ wire[f] # <<>>
    /\ LET msg == Head(wire[f]) IN
       /\ wire' = [wire EXCEPT ![f] = Tail(@)]
       /\ CASE msg.t = "file" ->
                 \* recvFiles: load into memory, append to the file, remember the position
                 /\ mem' = [mem EXCEPT ![f] = Append(@, msg.n)]
                 /\ disk' = [disk EXCEPT ![f] = Append(@, msg.n)]
                 /\ pos' = [pos EXCEPT ![f] = msg.n]
                 /\ nrecv' = [nrecv EXCEPT ![f] = @ + 1]
                 /\ UNCHANGED <<rq, aq, fst>>
            [] msg.t = "fdone" ->
                 /\ fst' = [fst EXCEPT ![f] = "live"]
                 /\ nrecv' = [nrecv EXCEPT ![f] = 0]
                 /\ UNCHANGED <<mem, disk, pos, rq, aq>>
            [] msg.t = "live" ->
                 /\ rq' = [rq EXCEPT ![f] = Append(@, msg.n)]
                 /\ aq' = [aq EXCEPT ![f] = Append(@, msg.n)]
                 /\ nrecv' = [nrecv EXCEPT ![f] = @ + 1]
                 /\ UNCHANGED <<mem, disk, pos, fst>>
            [] msg.t = "eof" ->
                 /\ fst' = [fst EXCEPT ![f] = "down"]
                 /\ UNCHANGED <<mem, disk, pos, rq, aq, nrecv>>
    /\ UNCHANGED <<log, file, image, compacted, lo, cold, cur, curOK, hc, fimg, H, cuts, rots, restarts, hist>>

Replay(f) ==
    /\ rq[f] # <<>>
    /\ mem' = [mem EXCEPT ![f] = Append(@, Head(rq[f]))]
    /\ rq' = [rq EXCEPT ![f] = Tail(@)]
    /\ UNCHANGED <<log, file, image, compacted, lo, fst, pos, disk, cold, aq, wire, cur, curOK, hc, fimg, H, nrecv, cuts, rots, restarts, hist>>

AppendFile(f) ==
    /\ aq[f] # <<>>
    /\ disk' = [disk EXCEPT ![f] = Append(@, Head(aq[f]))]
    /\ pos' = [pos EXCEPT ![f] = Head(aq[f])]
    /\ aq' = [aq EXCEPT ![f] = Tail(@)]
    /\ UNCHANGED <<log, file, image, compacted, lo, fst, mem, cold, rq, wire, cur, curOK, hc, fimg, H, nrecv, cuts, rots, restarts, hist>>

\* the link is cut anywhere: everything still in flight is lost
Cut(f) ==
    /\ fst[f] \in {"files", "live"} /\ cuts < MaxCuts
    /\ wire' = [wire EXCEPT ![f] = <<>>]
    /\ fst' = [fst EXCEPT ![f] = "down"]
    /\ cuts' = cuts + 1
    /\ hist' = Append(hist, [a |-> "cut", f |-> f, ph |-> fst[f], k |-> nrecv[f]])
    /\ UNCHANGED <<log, file, image, compacted, lo, pos, mem, disk, cold, rq, aq, cur, curOK, hc, fimg, H, nrecv, rots, restarts>>

\* the follower process is killed while idle and started again on its (now stale) directory
Restart(f) ==
    /\ fst[f] = "live" /\ Drained(f) /\ wire[f] = <<>> /\ restarts < MaxRestart
    /\ mem' = [mem EXCEPT ![f] = <<>>]
    /\ cold' = [cold EXCEPT ![f] = TRUE]
    /\ pos' = [pos EXCEPT ![f] = Last(disk[f])]
    /\ fst' = [fst EXCEPT ![f] = "down"]
    /\ restarts' = restarts + 1
    /\ hist' = Append(hist, [a |-> "restart", f |-> f])
    /\ UNCHANGED <<log, file, image, compacted, lo, disk, rq, aq, wire, cur, curOK, hc, fimg, H, nrecv, cuts, rots>>

Next == \/ \E k \in Keys : LAppend(k)
        \/ Rotate \/ Compact
        \/ \E f \in F : \/ Join(f) \/ Handshake(f) \/ SendFile(f) \/ FilesDone(f) \/ StreamPop(f)
                        \/ Recv(f) \/ Replay(f) \/ AppendFile(f) \/ Cut(f) \/ Restart(f)

Spec == Init /\ [][Next]_vars

-----------------------------------------------------------------------------
\* properties (C09)

Increasing(s) == \A i \in 1..(Len(s) - 1) : s[i] < s[i + 1]

\* the live part (from the handshake position on) of what a follower appended / replayed is a contiguous run
\* of the leader's log: nothing skipped, duplicated or reordered
Contiguous(s, h) == /\ Increasing(s)
                    /\ \A n \in 1..N : (n >= h /\ n <= Last(s) /\ h >= 1) => n \in SeqRange(s)

AppendedExact == \A f \in F : fst[f] # "off" /\ H[f] >= 1 => Contiguous(disk[f], H[f])
AppliedExact  == \A f \in F : fst[f] # "off" /\ H[f] >= 1 /\ ~cold[f] => Contiguous(mem[f], H[f])

\* the records of a file transfer are genuine records of the leader below the handshake position
ImageSound == \A f \in F : \A i \in 1..Len(disk[f]) : disk[f][i] >= 1 /\ disk[f][i] <= N

Quiescent(f) == /\ fst[f] = "live" /\ wire[f] = <<>> /\ Drained(f) /\ cur[f] = N /\ ~cold[f]

\* convergence: a caught-up follower holds the leader's state, in memory and on disk
Convergence == \A f \in F : Quiescent(f) => /\ StateOf(mem[f]) = Held
                                             /\ StateOf(disk[f]) = Held
                                             /\ Last(disk[f]) = N

\* a position that is no longer in the ring is never resumed from (action property)
ResumeOnlyFromRing ==
    [][\A f \in F : (fst[f] = "down" /\ fst'[f] = "live") => InRing(pos[f])]_vars

TypeOK == /\ lo >= 1 /\ lo <= N + 1
          /\ \A f \in F : fst[f] \in {"off", "down", "hs", "files", "live"}
          /\ \A f \in F : pos[f] >= 0 /\ pos[f] <= N

\* state constraint of the exhaustive configs
Bounded == \A f \in F : Len(wire[f]) <= 3 /\ Len(rq[f]) <= 2 /\ Len(aq[f]) <= 2

\* behaviour export for the process-cluster engine: the environment actions (appends, rotations, joins, handshakes,
\* cuts with their coordinates, restarts) of a run that ended with every follower caught up
Export == (N = MaxLog /\ \A f \in F : Quiescent(f)) => PrintT("BEHAVIOUR " \o ToJson(hist))

view == <<log, file, image, compacted, lo, fst, pos, mem, disk, cold, rq, aq, wire, cur, curOK, hc, fimg, H, nrecv, cuts, rots, restarts>>

=============================================================================

---------------------------- MODULE RedisCmdsMC ----------------------------
(***************************************************************************)
(* Design model and behaviour generator for the Redis-style commands.      *)
(*                                                                         *)
(* kv is the plain key-value store of RedisCmds!Exec.  Beside it runs reg: *)
(* per key the ValueReg register driven by the value operation each text   *)
(* command is converted to by protocol/textcommand.go                      *)
(*   SET / GETSET / SETNX(on an absent key) -> SET frame with the key as   *)
(*       property 1;  INCR.. -> INCR frame (8 bytes);  APPEND -> APPEND    *)
(*       frame;  DEL -> the key record goes;  EXPIRE / PERSIST / reads ->  *)
(*       no value operation;  TICK -> keys with a time-to-live go          *)
(* TLC checks Consequently == the register read back as GET reads it       *)
(* (number flag -> integer, otherwise the payload bytes) IS the store -     *)
(* the "consequently" of the property statement - over every command       *)
(* sequence up to MaxCmds, and exports every sequence for replay through   *)
(* the real TextServerProtocol handlers.                                   *)
(***************************************************************************)
EXTENDS RedisCmds, ValueReg, Json

CONSTANTS Keys, MaxCmds, CmdSet, Export

VARIABLES kv, reg, hist, now
vars == <<kv, reg, hist, now>>
view == <<kv, reg, Len(hist), now>>

A == 97  B == 98
Vals == {<<A>>, <<B, A>>}

\* 8-byte little-endian two's complement of a small integer
RECURSIVE LEn(_, _)
LEn(n, k) == IF k = 0 THEN <<>> ELSE <<n % 256>> \o LEn(n \div 256, k - 1)
ToLE8(n) == IF n >= 0 THEN LEn(n, 8) ELSE [i \in 1..8 |-> 255 - LEn(0 - n - 1, 8)[i]]
FromLE8(b) == IF b[8] >= 128 THEN 0 - (1 + (255 - b[1]) + 256 * (255 - b[2]) + 65536 * (255 - b[3]))
              ELSE b[1] + 256 * b[2] + 65536 * b[3]

KeyBytes(k) == IF k = "k1" THEN <<107, 49>> ELSE <<107, 50>>
PropHd(k) == LE16(3 + Len(KeyBytes(k))) \o <<1>> \o LE16(Len(KeyBytes(k))) \o KeyBytes(k)
SetLike == {"SET", "GETSET", "SETNX", "SET_EX", "SET_PX", "SETEX", "PSETEX", "SET_NX", "SET_XX", "SET_NX_TX", "SET_NX_PTX"}
OpOf(c) == CASE c.c \in SetLike -> [t |-> T_SET, st |-> 0, fl |-> FL_PROPS, hd |-> PropHd(c.k), pl |-> c.v]
             [] c.c = "APPEND" -> [t |-> T_APPEND, st |-> 0, fl |-> FL_PROPS, hd |-> PropHd(c.k), pl |-> c.v]
             [] c.c \in {"INCR", "DECR", "INCRBY", "DECRBY"} -> [t |-> T_INCR, st |-> 0, fl |-> FL_NUMBER + FL_PROPS, hd |-> PropHd(c.k), pl |-> ToLE8(Delta(c))]

RegStep(r, c) ==
    CASE c.c \in {"SET", "GETSET", "APPEND", "INCR", "DECR", "INCRBY", "DECRBY", "SET_EX", "SET_PX", "SETEX", "PSETEX"} -> Apply(r, OpOf(c), TRUE)
      [] c.c \in {"SETNX", "SET_NX", "SET_NX_TX", "SET_NX_PTX"} -> IF r = None THEN Apply(r, OpOf(c), TRUE) ELSE r
      [] c.c = "SET_XX" -> IF r # None THEN Apply(r, OpOf(c), TRUE) ELSE r
      [] c.c = "DEL" -> None
      [] OTHER -> r

\* what GET renders from a register (textcommand.go:857-892)
RegView(r) == IF r = None THEN [p |-> FALSE]
              ELSE IF Bit(r.fl, FL_NUMBER) THEN [p |-> TRUE, k |-> "n", s |-> <<>>, n |-> FromLE8(Num8(r.pl))]
              ELSE [p |-> TRUE, k |-> "s", s |-> r.pl, n |-> 0]
KvView(v) == IF ~v.p THEN [p |-> FALSE] ELSE [p |-> TRUE, k |-> v.k, s |-> v.s, n |-> v.n]

Cmd(c, k, v, d) == [c |-> c, k |-> k, v |-> v, d |-> d]
\* option values around every unit boundary of the converter (protocol/textcommand.go): seconds and milliseconds
SecVals == {1, 60, 65535, 65536, 100000}
MsVals  == {1, 999, 1000, 2999, 3000, 3001, 5000, 59999, 60000, 65535, 65536, 70000, 65535000, 65535001, 65580500, 120000000}
Cmds ==
    LET rw == {Cmd("SET", k, v, 0) : k \in Keys, v \in Vals} \cup {Cmd("GET", k, <<>>, 0) : k \in Keys} \cup {Cmd("DEL", k, <<>>, 0) : k \in Keys}
        nx == {Cmd("SETNX", k, v, 0) : k \in Keys, v \in {<<B, A>>}} \cup {Cmd("GETSET", k, v, 0) : k \in Keys, v \in {<<A>>}}
        ar == {Cmd("INCR", k, <<>>, 0) : k \in Keys} \cup {Cmd("DECR", k, <<>>, 0) : k \in Keys}
              \cup {Cmd("INCRBY", k, <<>>, 7) : k \in Keys} \cup {Cmd("DECRBY", k, <<>>, 300) : k \in Keys}
        ap == {Cmd("APPEND", k, v, 0) : k \in Keys, v \in {<<B, A>>}}
        rd == {Cmd("EXISTS", k, <<>>, 0) : k \in Keys} \cup {Cmd("STRLEN", k, <<>>, 0) : k \in Keys}
        ex == {Cmd("EXPIRE", k, <<>>, 3) : k \in Keys} \cup {Cmd("PERSIST", k, <<>>, 0) : k \in Keys} \cup {Cmd("PERSIST3", k, <<>>, 0) : k \in Keys}
              \cup {Cmd("TICK", "k1", <<>>, 8)}
        \* time-to-live alphabet, one key
        K == "k1"
        mk == {Cmd("SET", K, <<A>>, 0), Cmd("SET_NX", K, <<B>>, 0), Cmd("SET_XX", K, <<B, A>>, 0)}
              \cup {Cmd(c, K, <<A>>, d) : c \in {"SET_EX", "SETEX"}, d \in SecVals}
              \cup {Cmd(c, K, <<A>>, d) : c \in {"SET_PX", "PSETEX"}, d \in MsVals}
        up == {Cmd(c, K, <<>>, d) : c \in {"EXPIRE", "EXPIREAT"}, d \in SecVals}
              \cup {Cmd("PEXPIRE", K, <<>>, d) : d \in MsVals}
              \* absolute times are converted against the wall clock: a value just above a unit boundary may be read as
              \* one just below it, so those two are replaced by values a second and a half clear of the boundary
              \cup {Cmd("PEXPIREAT", K, <<>>, d) : d \in (MsVals \ {3001, 65535001}) \cup {4500, 65536500}}
              \cup {Cmd("PERSIST", K, <<>>, 0), Cmd("APPEND", K, <<B>>, 0), Cmd("GETSET", K, <<B>>, 0)}
        ob == {Cmd("GET", K, <<>>, 0), Cmd("EXISTS", K, <<>>, 0), Cmd("STRLEN", K, <<>>, 0), Cmd("DEL", K, <<>>, 0)}
              \cup {Cmd("TICK", K, <<>>, d) : d \in {2, 10, 75}}
    IN CASE CmdSet = "rw" -> rw \cup ap \cup ar
         [] CmdSet = "all" -> rw \cup nx \cup ar \cup ap \cup rd \cup ex
         [] CmdSet = "ttl" -> mk \cup up \cup ob

\* the time-to-live alphabet is about conversions: its update commands are issued on a key that exists and was not
\* made by a NX command (those two situations are the recorded findings V5 / V6, reached by the "all" alphabet)
TtlGuard(c) == CmdSet = "ttl" /\ c.c \in {"EXPIRE", "EXPIREAT", "PEXPIRE", "PEXPIREAT", "PERSIST", "APPEND", "GETSET", "SET", "SET_XX", "SET_EX", "SET_PX", "SETEX", "PSETEX"}
                  => (c.c \in {"SET", "SET_XX", "SET_EX", "SET_PX", "SETEX", "PSETEX"} /\ ~kv[c.k].p) \/ (kv[c.k].p /\ ~kv[c.k].nx)

Init == /\ kv = [k \in Keys |-> Absent]
        /\ reg = [k \in Keys |-> None]
        /\ hist = <<>>
        /\ now = 0

Do(c) == LET r == Exec(kv, c, now) IN
         /\ ~r.open                                    \* commands without a single plain-store answer are not generated
         /\ TtlGuard(c)
         /\ kv' = r.kv
         /\ reg' = IF c.c = "TICK" THEN [k \in Keys |-> IF kv[k].p /\ ~r.kv[k].p THEN None ELSE reg[k]]
                   ELSE [reg EXCEPT ![c.k] = RegStep(@, c)]
         /\ now' = IF c.c = "TICK" THEN now + c.d * 1000 ELSE now
         /\ hist' = Append(hist, c)

Next == Len(hist) < MaxCmds /\ \E c \in Cmds : (hist = <<>> => c.k = "k1") /\ Do(c)
Spec == Init /\ [][Next]_vars

Consequently == \A k \in Keys : RegView(reg[k]) = KvView(kv[k])
TypeOK == \A k \in Keys : kv[k].p => (kv[k].k \in {"s", "n"} /\ kv[k].ttl.on \in BOOLEAN /\ (kv[k].ttl.on => kv[k].ttl.lo <= kv[k].ttl.hi))
\* a few laws of a plain store, as action properties
Laws == [][ \A c \in Cmds : (hist' = Append(hist, c)) =>
              /\ (c.c = "SET" => Exec(kv', Cmd("GET", c.k, <<>>, 0), now').replies = {RBulk(c.v)})
              /\ (c.c = "DEL" => Exec(kv', Cmd("EXISTS", c.k, <<>>, 0), now').replies = {RInt(0)})
              /\ (c.c \in {"GET", "EXISTS", "STRLEN"} => kv' = kv) ]_vars

\* time-to-live laws of the store: an asked term is never shortened and never leaves its unit by more than one
\* granule; PERSIST / plain SET remove it; APPEND keeps it
TtlLaws == [][ \A c \in Cmds : (hist' = Append(hist, c) /\ kv'[c.k].p) =>
                 /\ (c.c \in {"SET_EX", "SETEX", "EXPIRE"} => kv'[c.k].ttl.lo = now + c.d * 1000 /\ kv'[c.k].ttl.hi - kv'[c.k].ttl.lo \in {1000, 60000})
                 /\ (c.c \in {"SET_PX", "PSETEX", "PEXPIRE"} => kv'[c.k].ttl.lo = now + c.d /\ kv'[c.k].ttl.hi - kv'[c.k].ttl.lo \in {1000, 60000})
                 /\ (c.c \in {"SET", "GETSET", "PERSIST"} => ~kv'[c.k].ttl.on)
                 /\ (c.c = "APPEND" /\ kv[c.k].p => kv'[c.k].ttl = kv[c.k].ttl) ]_vars
\* a key is never readable after its deadline has surely passed
NoStaleKey == \A k \in Keys : kv[k].p => ~SureGone(kv[k].ttl, now)

ExportInv == (Export /\ Len(hist) = MaxCmds) => PrintT("BEHAVIOUR " \o ToJson(hist))
=============================================================================

------------------------------ MODULE LockEngine ------------------------------
(***************************************************************************)
(* The slock lock engine (server/db.go Lock / UnLock / wakeUpWaitLocks /   *)
(* doTimeOut / doExpried / cancelWaitLock, server/lock.go LockManager) at  *)
(* SEQUENTIAL atomicity: one action = one client call or one timer firing, *)
(* including the wake pass the code runs after it.  This is exactly what   *)
(* engine S (one goroutine, virtual clock) observes.                       *)
(*                                                                         *)
(* The spec is written to be bound, not admired: every action is a pure    *)
(* operator over the per-key state, shaped like the code's critical        *)
(* section, including implementation artefacts that influence behaviour:   *)
(*   - the `waited` flag, which makes newcomers queue behind waiters,      *)
(*   - tombstoned ("dead") wait-queue entries that are only purged from    *)
(*     the head (GetWaitLock) - MaxPriority() looks at a dead head,        *)
(*   - the FIFO -> priority-ring migration rule of AddWaitLock,            *)
(*   - the command replacement on re-lock / update (Count, Rcount and the  *)
(*     RequestId of the EXPRIED notice change with it),                    *)
(*   - unlock-first copying the holder's terms into the unlock command,    *)
(*   - cancel-wait picking the LAST matching live waiter.                  *)
(* Deliberate deviations of the code are named: see A1Fixed.               *)
(*                                                                         *)
(* Uses: (1) TLC checks the design invariants (C01 C02 C03 C04 C17) for    *)
(* every interleaving of requests and timer firings within the constants;  *)
(* (2) `hist` carries the driver steps of a behaviour, exported as JSON    *)
(* and replayed on the real code by engine S.                              *)
(***************************************************************************)
EXTENDS Integers, Sequences, FiniteSets, TLC, Json, SequencesExt, FiniteSetsExt

CONSTANTS
    Keys, Lids,           \* model values / small ints
    Counts, Rcounts,      \* request Count / Rcount alphabets
    Timeouts, Expireds,   \* seconds
    MaxReq,               \* number of client requests in a behaviour
    MaxNow,               \* clock bound
    MaxDepth,             \* re-entrant ceiling (0xff in the code; scaled)
    LockFlags,            \* subset of {"show","update","showupdate","conc","prio"}
    UnlockFlags,          \* subset of {"first","cancel"}
    A1Fixed,              \* TRUE: wake pass after a non-holding waiter leaves (fix 9ca40d3); FALSE: the original code
    A13Fixed,             \* TRUE: wake pass after a re-lock / update changed the holder's Count (second fix); FALSE: original
    NoDupWait,            \* TRUE: a LockId that already has a live queued request on a key issues no second one
                          \*       (FALSE exhibits finding A12: both are granted, two holder records with one LockId)
    Roles,                \* {"leader"} or {"leader", "follower"}: node roles the behaviour may pass through (C10)
    MaxRoleChanges,       \* bound on role changes
    AofDelay,             \* a hold older than this many seconds at a clock tick is persisted / replicated ("aof")
    WaitLeader,           \* a non-leader keeps a persisted hold this long past its deadline (300 s in the code; scaled)
    ReArm,                \* ... re-checking every ReArm seconds (30 s in the code; scaled)
    Turns,                \* {"any"} for exhaustive checking; a set of class tokens to balance random walks
    Lag                   \* TRUE: client requests may arrive while a due timer has not fired yet (sweeper lag)

VARIABLES ks, now, reqs, out, hist, turn, role, nrc
vars == <<ks, now, reqs, out, hist, turn, role, nrc>>
view == <<ks, now, [i \in DOMAIN reqs |-> reqs[i].st], role, nrc>>

SUCCED == 0   LOCKED_ERROR == 5   UNLOCK_ERROR == 6   UNOWN_ERROR == 7   TIMEOUT == 8   EXPRIED == 9

-----------------------------------------------------------------------------
\* per-key state

EmptyKey == [H |-> <<>>, W |-> <<>>, waited |-> FALSE, pmode |-> FALSE]

DepthSum(H) == FoldLeft(LAMBDA acc, h : acc + h.depth, 0, H)
Locked(S) == DepthSum(S.H)

IdxOfLid(H, lid) == LET I == {i \in 1..Len(H) : H[i].lid = lid} IN IF I = {} THEN 0 ELSE Min(I)
RemoveIdx(Q, i) == SubSeq(Q, 1, i - 1) \o SubSeq(Q, i + 1, Len(Q))

Live(w) == ~w.dead
LiveIdx(W) == {i \in 1..Len(W) : Live(W[i])}

\* GetWaitLock: purge dead entries from the head, return the queue and the first live entry
Purge(W) == IF LiveIdx(W) = {} THEN <<>> ELSE SubSeq(W, Min(LiveIdx(W)), Len(W))

\* LockManagerWaitQueue.MaxPriority(): priority of the entry at the head - dead or alive
MaxPriority(W) == IF W = <<>> THEN 0 ELSE W[1].prio

\* doLock (db.go:2517): admission of a request with Count c against the current holders
CanLock(S, c) ==
    IF Locked(S) = 0 THEN TRUE
    ELSE IF c = 0 THEN FALSE
    ELSE Locked(S) <= Head(S.H).cnt /\ Locked(S) <= c

\* C01 as stated (for the invariants)
AdmissibleStmt(H, c) == DepthSum(H) = 0 \/ (DepthSum(H) <= c /\ DepthSum(H) <= Head(H).cnt)

Reply(rid, res, S, lid) ==
    LET i == IdxOfLid(S.H, lid)
    IN [rid |-> rid, res |-> res, lc |-> Locked(S), lrc |-> IF i = 0 THEN 0 ELSE S.H[i].depth, lid |-> lid, granted |-> FALSE]

NewHolder(r, t) == [lid |-> r.lid, depth |-> 1, cnt |-> r.cnt, rc |-> r.rc, pflag |-> r.pflag,
                    dl |-> IF r.unl THEN MaxNow + 100 ELSE t + r.ex + 1, rid |-> r.id, start |-> t,   \* (MaxNow + 100 = Unlimited)
                    aof |-> FALSE, next |-> IF r.unl THEN MaxNow + 100 ELSE t + r.ex + 1,
                    oid |-> r.id]      \* identity of the Lock record (born with the request that created it)

\* stable insertion used by the priority ring: descending priority, FIFO within a priority
PrioInsert(W, w) ==
    LET before == {i \in 1..Len(W) : W[i].prio >= w.prio}
        n == IF before = {} THEN 0 ELSE Max(before)
    IN SubSeq(W, 1, n) \o <<w>> \o SubSeq(W, n + 1, Len(W))

PrioSort(W) == FoldLeft(LAMBDA acc, w : PrioInsert(acc, w), <<>>, W)

\* AddWaitLock (lock.go:774): migrate the FIFO to the priority ring when a request with a
\* priority different from the head's arrives while waiters are queued
Enqueue(S, w) ==
    LET migrate == ~S.pmode /\ S.waited /\ S.W # <<>> /\ w.prio # MaxPriority(S.W)
        W1 == IF migrate THEN PrioSort(S.W) ELSE S.W
        pm == S.pmode \/ migrate
    IN [S EXCEPT !.W = IF pm THEN PrioInsert(W1, w) ELSE Append(W1, w), !.pmode = pm, !.waited = TRUE]

\* wakeUpWaitLocks (db.go:2563): grant queued requests in queue order until the head is not admissible
RECURSIVE WakeLoop(_, _, _)
WakeLoop(S, t, acc) ==
    LET W == Purge(S.W) IN
    IF W = <<>>
    THEN [S |-> [S EXCEPT !.W = <<>>, !.waited = FALSE, !.pmode = FALSE], out |-> acc]   \* queue object is kept but empty; mode kept by the code until Reset
    ELSE LET w == W[1] IN
         IF ~CanLock([S EXCEPT !.W = W], w.cnt)
         THEN [S |-> [S EXCEPT !.W = W], out |-> acc]
         ELSE LET S1 == [S EXCEPT !.W = [W EXCEPT ![1].dead = TRUE],
                                  !.H = IF w.ex > 0 THEN Append(@, NewHolder(w, t)) ELSE @]
              IN WakeLoop(S1, t, Append(acc, [Reply(w.id, SUCCED, S1, w.lid) EXCEPT !.granted = TRUE]))

WakePass(S, t, acc) == IF S.waited THEN WakeLoop(S, t, acc) ELSE [S |-> S, out |-> acc]

-----------------------------------------------------------------------------
\* LockDB.Lock

\* Named deviation (a definition, so that configs which do not mention it keep working; a cfg may override it with
\* `UnlEqualSkipsCounts <- DevOn`): TRUE describes the refactoring class of seed C01e - the "is this update a no-op?"
\* short-cut forgets the Count / Rcount / priority-flag comparison on the branch "unlimited update of a hold that is
\* already unlimited", so such an update is answered like an applied one and dropped.  TLC refutes UpdateSetsTerms.
DevOn == TRUE
UnlEqualSkipsCounts == FALSE

TermsEqual(h, r) == r.cnt = h.cnt /\ r.rc = h.rc /\ r.pflag = h.pflag       \* lock.go checkLockedCountEqual

Unlimited == MaxNow + 100                                                 \* 0x7fffffffffffffff in the code

CheckLockedEqual(h, r, t) ==     \* lock.go:682 (second granularity)
    IF r.unl
    THEN IF r.keep                                \* Expried = 0xffff: "keep the deadline", only the terms are compared
         THEN TermsEqual(h, r)
         ELSE h.dl = Unlimited /\ (UnlEqualSkipsCounts \/ TermsEqual(h, r))
    ELSE
    LET d == t + r.ex + 1
        diff == IF d > h.dl THEN d - h.dl ELSE h.dl - d
    IN diff <= 1 /\ TermsEqual(h, r)

\* UpdateLockedLock (lock.go:723): the hold's command is replaced (Count, Rcount, priority flag, RequestId of the
\* EXPRIED notice); the period restarts unless the request carries the unlimited flag with Expried = 0xffff
Retermed(h, r, t) ==
    [h EXCEPT !.cnt = r.cnt, !.rc = r.rc, !.rid = r.id,
              !.dl = IF r.keep THEN @ ELSE IF r.unl THEN Unlimited ELSE t + r.ex + 1,
              !.start = IF r.keep THEN @ ELSE t,
              !.next = IF r.keep THEN @ ELSE IF r.unl THEN Unlimited ELSE t + r.ex + 1]

DoLockG(WK(_, _, _), S, r, t) ==
    LET locked == Locked(S) IN
    IF r.conc /\ r.to = 0 /\ locked > r.cnt
    THEN [S |-> S, out |-> <<Reply(r.id, TIMEOUT, S, 0)>>]                       \* concurrent-check fast path (lrc 0)
    ELSE
    LET lidEff == IF locked > 0 /\ r.show THEN Head(S.H).lid ELSE r.lid
        me == IF locked > 0 THEN IdxOfLid(S.H, lidEff) ELSE 0
    IN
    IF locked > 0 /\ r.show /\ ~r.update
    THEN [S |-> S, out |-> <<Reply(r.id, UNOWN_ERROR, S, lidEff)>>]
    ELSE IF me # 0
    THEN LET h == S.H[me] IN
         IF r.update
         THEN IF CheckLockedEqual(h, r, t)
              THEN [S |-> S, out |-> <<Reply(r.id, LOCKED_ERROR, S, lidEff)>>]
              ELSE LET S1 == [S EXCEPT !.H[me] = [Retermed(h, r, t) EXCEPT !.pflag = r.pflag]]
                   IN IF A13Fixed THEN WK(S1, t, <<Reply(r.id, LOCKED_ERROR, S1, lidEff)>>)
                      ELSE [S |-> S1, out |-> <<Reply(r.id, LOCKED_ERROR, S1, lidEff)>>]
         ELSE IF h.depth < MaxDepth /\ h.depth <= r.rc /\ ~r.pflag
         THEN IF r.ex = 0
              THEN [S |-> S, out |-> <<Reply(r.id, SUCCED, S, lidEff)>>]
              ELSE LET S1 == [S EXCEPT !.H[me] = [Retermed(h, r, t) EXCEPT !.depth = @ + 1]]
                   IN IF A13Fixed THEN WK(S1, t, <<Reply(r.id, SUCCED, S1, lidEff)>>)
                      ELSE [S |-> S1, out |-> <<Reply(r.id, SUCCED, S1, lidEff)>>]
         ELSE [S |-> S, out |-> <<Reply(r.id, LOCKED_ERROR, S, lidEff)>>]
    ELSE
    LET waited == IF locked > 0 THEN S.waited ELSE FALSE
        rr == [r EXCEPT !.lid = lidEff]
        \* doCheckLockWaitPriority: a priority request may jump the queue when its priority exceeds the head's
        \* (waited = TRUE implies the queue object exists; MaxPriority of an emptied queue is 0)
        jumpOK == r.pflag /\ r.prio > MaxPriority(S.W)
    IN
    IF (~waited \/ jumpOK) /\ CanLock(S, r.cnt)
    THEN LET S1 == IF r.ex > 0 THEN [S EXCEPT !.H = Append(@, NewHolder(rr, t))] ELSE S
             rep == [Reply(r.id, SUCCED, S1, lidEff) EXCEPT !.granted = (r.ex > 0)]
         IN IF S.waited THEN WK(S1, t, <<rep>>) ELSE [S |-> S1, out |-> <<rep>>]
    ELSE IF r.to > 0
    THEN [S |-> Enqueue(S, [id |-> r.id, lid |-> lidEff, cnt |-> r.cnt, rc |-> r.rc, pflag |-> r.pflag, prio |-> r.prio, ex |-> r.ex, unl |-> r.unl,
                             tot |-> t + r.to + 1, dead |-> FALSE]), out |-> <<>>]
    ELSE [S |-> S, out |-> <<Reply(r.id, TIMEOUT, S, lidEff)>>]

-----------------------------------------------------------------------------
\* LockDB.UnLock

CancelWaitG(WK(_, _, _), S, r, t) ==
    LET M == {i \in LiveIdx(S.W) : S.W[i].lid = r.lid} IN
    IF M = {}
    THEN [S |-> S, out |-> <<Reply(r.id, UNLOCK_ERROR, S, r.lid)>>]
    ELSE LET i  == Max(M)                                        \* the scan keeps the LAST match (db.go:2677)
             S1 == [S EXCEPT !.W[i].dead = TRUE]
             S2 == IF LiveIdx(S1.W) = {} THEN [S1 EXCEPT !.W = <<>>, !.waited = FALSE] ELSE [S1 EXCEPT !.W = Purge(@)]
             o  == << [Reply(r.id, LOCKED_ERROR, S2, r.lid) EXCEPT !.lrc = 0], [Reply(S.W[i].id, UNLOCK_ERROR, S2, r.lid) EXCEPT !.lrc = 0] >>
         IN IF A1Fixed THEN WK(S2, t, o) ELSE [S |-> S2, out |-> o]

DoUnlockG(WK(_, _, _), S, r, t) ==
    LET locked == Locked(S) IN
    IF locked = 0
    THEN IF r.cancel /\ (S.W # <<>> \/ S.waited) THEN CancelWaitG(WK, S, r, t)
         ELSE [S |-> S, out |-> <<Reply(r.id, UNLOCK_ERROR, S, r.lid)>>]
    ELSE
    LET own == IdxOfLid(S.H, r.lid) IN
    IF own = 0 /\ ~r.first
    THEN IF r.cancel THEN CancelWaitG(WK, S, r, t)
         ELSE [S |-> S, out |-> <<Reply(r.id, UNOWN_ERROR, S, r.lid)>>]
    ELSE
    LET i == IF own # 0 THEN own ELSE 1
        h == S.H[i]
        \* unlock-first copies the holder's Rcount / flags into the command before the depth rule
        rcEff == IF own # 0 THEN r.rc ELSE h.rc
        pfEff == IF own # 0 THEN r.pflag ELSE h.pflag
        one == h.depth > 1 /\ rcEff > 0 /\ ~pfEff
        S1 == IF one THEN [S EXCEPT !.H[i].depth = @ - 1] ELSE [S EXCEPT !.H = RemoveIdx(@, i)]
        rep == Reply(r.id, SUCCED, S1, h.lid)
    IN WK(S1, t, <<rep>>)

-----------------------------------------------------------------------------
\* timers (doTimeOut / doExpried), each firing is one critical section + its wake pass

FireTimeoutG(WK(_, _, _), S, i, t) ==
    LET w  == S.W[i]
        S1 == [S EXCEPT !.W[i].dead = TRUE]
        S2 == IF LiveIdx(S1.W) = {} THEN [S1 EXCEPT !.W = <<>>, !.waited = FALSE] ELSE [S1 EXCEPT !.W = Purge(@)]
        o  == << [Reply(w.id, TIMEOUT, S2, w.lid) EXCEPT !.lrc = 0] >>
    IN IF A1Fixed THEN WK(S2, t, o) ELSE [S |-> S2, out |-> o]

FireExpiryG(WK(_, _, _), S, i, t) ==
    LET h  == S.H[i]
        S1 == [S EXCEPT !.H = RemoveIdx(@, i)]
        o  == << [Reply(h.rid, EXPRIED, S1, h.lid) EXCEPT !.lrc = 0] >>
    IN WK(S1, t, o)

-----------------------------------------------------------------------------
\* sequential atomicity: the wake pass runs inside the action
DoLock(S, r, t) == DoLockG(WakePass, S, r, t)
DoUnlock(S, r, t) == DoUnlockG(WakePass, S, r, t)
FireTimeoutOp(S, i, t) == FireTimeoutG(WakePass, S, i, t)
FireExpiryOp(S, i, t) == FireExpiryG(WakePass, S, i, t)

-----------------------------------------------------------------------------
\* the transition system

DueTimeouts(k) == {i \in LiveIdx(ks[k].W) : ks[k].W[i].tot <= now}
DueExpiries(k) == {i \in 1..Len(ks[k].H) : ks[k].H[i].next <= now}
NothingDue == \A k \in Keys : DueTimeouts(k) = {} /\ DueExpiries(k) = {}

\* flag words of a request.  The expiry flag "unlimited" (0x4000) is carried by the words "unl" (plain lock),
\* "updunl" (update), "showupdunl" (show + update) and "updkeep" (update, Expried = 0xffff: keep the deadline).
UnlFlags == {"unl", "updunl", "showupdunl", "updkeep"}
ReqRec(id, cmd, k, lid, cnt, rc, to, ex, fl) ==
    [id |-> id, cmd |-> cmd, key |-> k, lid |-> lid, cnt |-> cnt,
     rc |-> rc, prio |-> IF fl = "prio" THEN rc ELSE 0, pflag |-> fl = "prio",
     to |-> to, ex |-> IF fl = "updkeep" THEN 65535 ELSE ex, unl |-> fl \in UnlFlags, keep |-> fl = "updkeep",
     show |-> fl \in {"show", "showupdate", "showupdunl"}, update |-> fl \in {"update", "showupdate", "updunl", "showupdunl", "updkeep"},
     conc |-> fl = "conc",
     first |-> fl = "first", cancel |-> fl = "cancel", fl |-> fl, st |-> "open", nterm |-> 0, nexp |-> 0, t |-> now]

Apply(k, res, r) ==
    /\ ks' = [ks EXCEPT ![k] = res.S]
    /\ out' = res.out

\* bookkeeping of replies on the request table (C03 history)
Terminal(o) == o.res # EXPRIED
Book(R, O, newReq) ==
    LET R1 == IF newReq = <<>> THEN R ELSE Append(R, newReq[1])
    IN [i \in DOMAIN R1 |->
          LET mine == SelectSeq(O, LAMBDA o : o.rid = i)
              nt == Len(SelectSeq(mine, Terminal))
              ne == Len(mine) - nt
          IN [R1[i] EXCEPT !.nterm = @ + nt, !.nexp = @ + ne,
                           !.st = IF nt > 0 THEN "done" ELSE IF @ = "open" /\ newReq # <<>> /\ i = Len(R1) THEN "queued" ELSE @]]

TurnIs(c) == turn = "any" \/ turn \in c

STATE_ERROR == 10

\* db.go:2011 / 2328 - a node that is not the leader refuses (after the concurrent-check fast path, and an
\* unlock of a key without a manager is UNLOCK_ERROR before the role is looked at)
NonLeaderLock(S, r) ==
    IF r.conc /\ r.to = 0 /\ Locked(S) > r.cnt
    THEN [S |-> S, out |-> <<Reply(r.id, TIMEOUT, S, 0)>>]
    ELSE [S |-> S, out |-> << [Reply(r.id, STATE_ERROR, S, r.lid) EXCEPT !.lrc = 0] >>]
NonLeaderUnlock(S, r) ==
    IF S.H = <<>> /\ S.W = <<>> /\ ~S.waited
    THEN [S |-> S, out |-> <<Reply(r.id, UNLOCK_ERROR, S, r.lid)>>]
    ELSE [S |-> S, out |-> << [Reply(r.id, STATE_ERROR, S, r.lid) EXCEPT !.lrc = 0] >>]

LockReq(k, lid, cnt, rc, to, ex, fl) ==
    /\ Len(reqs) < MaxReq
    /\ TurnIs({"lock", "lock2", "lock3", "relock", "relock2", "relock3", "newcomer", "newcomer2"}) \/ now = MaxNow
    /\ Lag \/ NothingDue
    /\ NoDupWait => \A i \in LiveIdx(ks[k].W) : ks[k].W[i].lid # lid
    /\ LET id == Len(reqs) + 1
           r  == ReqRec(id, "L", k, lid, cnt, rc, to, ex, fl)
           res == IF role = "leader" THEN DoLock(ks[k], r, now) ELSE NonLeaderLock(ks[k], r)
       IN /\ Apply(k, res, r)
          /\ reqs' = Book(reqs, res.out, <<r>>)
          /\ hist' = Append(hist, [op |-> "lock", key |-> k, lid |-> lid, cnt |-> cnt, rc |-> rc, to |-> to, ex |-> ex, fl |-> fl])
    /\ UNCHANGED <<now, role, nrc>>

UnlockReq(k, lid, rc, fl) ==
    /\ Len(reqs) < MaxReq
    /\ TurnIs({"unlock", "unlock2", "hunlock"}) \/ now = MaxNow
    /\ Lag \/ NothingDue
    /\ LET id == Len(reqs) + 1
           r  == ReqRec(id, "U", k, lid, 0, rc, 0, 0, fl)
           res == IF role = "leader" THEN DoUnlock(ks[k], r, now) ELSE NonLeaderUnlock(ks[k], r)
       IN /\ Apply(k, res, r)
          /\ reqs' = Book(reqs, res.out, <<r>>)
          /\ hist' = Append(hist, [op |-> "unlock", key |-> k, lid |-> lid, cnt |-> 0, rc |-> rc, to |-> 0, ex |-> 0, fl |-> fl])
    /\ UNCHANGED <<now, role, nrc>>

FireTimeout(k, i) ==
    /\ i \in DueTimeouts(k)
    /\ LET res == FireTimeoutOp(ks[k], i, now) IN
          /\ ks' = [ks EXCEPT ![k] = res.S] /\ out' = res.out /\ reqs' = Book(reqs, res.out, <<>>)
    /\ UNCHANGED <<now, hist, role, nrc>>

\* doExpried (db.go:1858): a non-leader re-arms a persisted hold until WaitLeader seconds past its deadline
FireExpiry(k, i) ==
    /\ i \in DueExpiries(k)
    /\ LET h == ks[k].H[i] IN
       IF role # "leader" /\ h.aof /\ now - h.dl < WaitLeader
       THEN /\ ks' = [ks EXCEPT ![k].H[i].next = now + ReArm]
            /\ out' = <<>> /\ UNCHANGED reqs
       ELSE LET res == FireExpiryOp(ks[k], i, now) IN
            /\ ks' = [ks EXCEPT ![k] = res.S] /\ out' = res.out /\ reqs' = Book(reqs, res.out, <<>>)
    /\ UNCHANGED <<now, hist, role, nrc>>

Tick ==
    /\ now < MaxNow
    /\ TurnIs({"tick", "tick2"}) \/ Len(reqs) = MaxReq
    /\ NothingDue
    /\ now' = now + 1
    /\ out' = <<>>
    /\ hist' = Append(hist, [op |-> "tick", key |-> 0, lid |-> 0, cnt |-> 0, rc |-> 0, to |-> 0, ex |-> 0, fl |-> ""])
    \* holds older than the persistence delay are pushed to the log at their wheel visit (leader only)
    /\ ks' = [k \in Keys |-> [ks[k] EXCEPT !.H = [j \in 1..Len(ks[k].H) |->
                 [ks[k].H[j] EXCEPT !.aof = @ \/ (role = "leader" /\ now + 1 - ks[k].H[j].start >= AofDelay)]]]]
    /\ UNCHANGED <<reqs, role, nrc>>

RoleChange(r) ==
    /\ r \in Roles \ {role}
    /\ nrc < MaxRoleChanges
    /\ role' = r /\ nrc' = nrc + 1
    /\ out' = <<>>
    /\ hist' = Append(hist, [op |-> "role", key |-> 0, lid |-> 0, cnt |-> 0, rc |-> 0, to |-> 0, ex |-> 0, fl |-> r])
    /\ UNCHANGED <<ks, now, reqs>>

Init == /\ ks = [k \in Keys |-> EmptyKey] /\ now = 0 /\ reqs = <<>> /\ out = <<>> /\ hist = <<>> /\ turn \in Turns /\ role = "leader" /\ nrc = 0

Step ==
    \/ \E k \in Keys, lid \in Lids, cnt \in Counts, rc \in Rcounts, to \in Timeouts, ex \in Expireds, fl \in LockFlags \cup {""} :
          LockReq(k, lid, cnt, rc, to, ex, fl)
    \/ \E k \in Keys, lid \in Lids, rc \in Rcounts, fl \in UnlockFlags \cup {""} : UnlockReq(k, lid, rc, fl)
    \/ \E k \in Keys : \E i \in DueTimeouts(k) : FireTimeout(k, i)
    \/ \E k \in Keys : \E i \in DueExpiries(k) : FireExpiry(k, i)
    \/ Tick
    \/ \E r \in Roles : RoleChange(r)

Next == Step /\ turn' \in Turns

Spec == Init /\ [][Next]_vars

-----------------------------------------------------------------------------
\* design invariants (the listed properties on the model)

TypeOK == /\ now \in 0..MaxNow
          /\ \A k \in Keys : ks[k].waited \in BOOLEAN

\* C01 - every reply that grants a NEW holder saw at most Count holds outstanding, both Counts
GrantsOf(O) == {j \in 1..Len(O) : O[j].res = SUCCED /\ "granted" \in DOMAIN O[j] /\ O[j].granted}
\* (checked as an action property below, where the pre-state is available)

\* C01/C17 structural: one holder record per LockId, depth within bounds
HoldersWellFormed ==
    \A k \in Keys : LET H == ks[k].H IN
        /\ \A i, j \in 1..Len(H) : i # j => H[i].lid # H[j].lid
        /\ \A i \in 1..Len(H) : H[i].depth \in 1..MaxDepth

\* C01 as a state invariant: the holds never exceed what the oldest holder's Count allows by more than the newest grant
CapacityInv ==
    \A k \in Keys : LET H == ks[k].H IN
        H # <<>> => DepthSum(H) <= Head(H).cnt + 1 \/ \E i \in 1..Len(H) : H[i].depth > 1

\* C03 - at most one terminal reply per request, and an EXPRIED notice only for a request that set a hold's terms
OneTerminalReply == \A i \in DOMAIN reqs : reqs[i].nterm <= 1 /\ reqs[i].nexp <= 1 /\ (reqs[i].nexp = 1 => reqs[i].nterm = 1)
QueuedMeansLive ==
    \A i \in DOMAIN reqs : reqs[i].st = "queued" <=>
        (reqs[i].cmd = "L" /\ \E j \in LiveIdx(ks[reqs[i].key].W) : ks[reqs[i].key].W[j].id = i)

\* C04 - no lost wake-up: at every state of the sequential system (= every quiescent moment) the first live
\* waiter of a key is not admissible
NoLostWakeup ==
    \A k \in Keys : LET W == Purge(ks[k].W) IN
        W # <<>> => ~AdmissibleStmt(ks[k].H, W[1].cnt)

\* waited flag is set whenever a live waiter exists (otherwise newcomers would overtake the queue)
WaitedFlagInv == \A k \in Keys : LiveIdx(ks[k].W) # {} => ks[k].waited

\* C04 order: the wait queue is ordered by (priority desc, arrival asc) once it is in priority mode, FIFO otherwise
QueueOrderInv ==
    \A k \in Keys : LET W == ks[k].W IN
        \A i, j \in LiveIdx(W) : i < j =>
            IF ks[k].pmode THEN W[i].prio >= W[j].prio /\ (W[i].prio = W[j].prio => W[i].id < W[j].id)
            ELSE W[i].id < W[j].id /\ W[i].prio = W[j].prio

\* C17 - reply counters are exact
RepliesExact ==
    \A j \in 1..Len(out) : out[j].lc >= 0 /\ out[j].lrc >= 0

\* action properties ---------------------------------------------------------

\* C01: a grant of a new holder happens only when the statement's admission rule held in the pre-state of that grant.
\* (within one action several waiters may be granted; the rule is evaluated by the operators on the intermediate
\* states, so here the aggregated form is checked: after the action the key never holds more than the Count of its
\* oldest pre-existing holder + 1, nor more than the granted request's Count + 1)
GrantOK ==
    \A k \in Keys :
        LET H == ks[k].H  H2 == ks'[k].H IN
        \A i \in 1..Len(H2) :
            (\A j \in 1..Len(H) : H[j].lid # H2[i].lid) =>      \* H2[i] is a new holder
                /\ DepthSum(SubSeq(H2, 1, i - 1)) <= H2[i].cnt
                /\ (i > 1 => DepthSum(SubSeq(H2, 1, i - 1)) <= H2[1].cnt)

\* C02: a refused unlock changes nothing
RefusedUnlockChangesNothing ==
    \A j \in 1..Len(out') :
        (out'[j].rid = Len(reqs') /\ reqs'[Len(reqs')].cmd = "U" /\ out'[j].res \in {UNLOCK_ERROR, UNOWN_ERROR} /\ Len(reqs') > Len(reqs))
            => ks' = ks

\* C01 / C04 ("the Count of the key's oldest outstanding holder" is the Count of the request that last set the hold's
\* terms): an update request answered LOCKED_ERROR leaves the hold named in its reply with exactly the request's Count,
\* Rcount and priority flag - whether the code applied it or judged it a no-op.  This is what MonLock.LockUpdate assumes;
\* the deviation UnlEqualSkipsCounts (seed class C01e) refutes it.
UpdateSetsTerms ==
    \A j \in 1..Len(out') :
        (Len(reqs') > Len(reqs) /\ out'[j].rid = Len(reqs') /\ reqs'[Len(reqs')].cmd = "L" /\ reqs'[Len(reqs')].update
            /\ out'[j].res = LOCKED_ERROR)
            => LET r == reqs'[Len(reqs')]
                   H == ks'[r.key].H
                   i == IdxOfLid(H, out'[j].lid)
               IN i # 0 /\ H[i].cnt = r.cnt /\ H[i].rc = r.rc /\ H[i].pflag = r.pflag

\* C05: a request that was answered TIMEOUT is never granted afterwards (covered by OneTerminalReply); a queued
\* request is not answered TIMEOUT before its deadline
NoEarlyTimeout ==
    \A j \in 1..Len(out') :
        (out'[j].res = TIMEOUT /\ out'[j].rid <= Len(reqs) /\ reqs[out'[j].rid].st = "queued")
            => now - reqs[out'[j].rid].t >= reqs[out'[j].rid].to

\* C10: a client request reaching a non-leader changes nothing and is refused
NonLeaderDecidesNothing ==
    (role # "leader" /\ Len(reqs') > Len(reqs)) =>
        /\ ks' = ks
        /\ \A j \in 1..Len(out') : out'[j].res \in {STATE_ERROR, UNLOCK_ERROR, TIMEOUT}
\* C10: a non-leader does not end a persisted hold before WaitLeader seconds past its deadline
NoEarlyFollowerExpiry ==
    \A k \in Keys : \A i \in 1..Len(ks[k].H) :
        (role # "leader" /\ role' = role /\ ks[k].H[i].aof /\ now - ks[k].H[i].dl < WaitLeader /\ now' = now
           /\ Len(reqs') = Len(reqs))
            => \E j \in 1..Len(ks'[k].H) : ks'[k].H[j].lid = ks[k].H[i].lid

ActionProps == [][GrantOK /\ RefusedUnlockChangesNothing /\ UpdateSetsTerms /\ NoEarlyTimeout /\ NonLeaderDecidesNothing /\ NoEarlyFollowerExpiry]_vars

-----------------------------------------------------------------------------
\* behaviour export for engine S (simulation mode): print the driver steps once the request budget is used up

ExportAt == (Len(reqs) = MaxReq /\ NothingDue) => PrintT("BEHAVIOUR " \o ToJson(hist))

=============================================================================

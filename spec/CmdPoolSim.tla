---------------------------- MODULE CmdPoolSim ----------------------------
(***************************************************************************)
(* Random-walk front end of CmdPool for `tlc -simulate`: behaviours that   *)
(* fill private stacks to the guard (many holds released by one            *)
(* connection, holds of other connections released here, refusals at a    *)
(* full stack, closes and reconnects in between) are exported as JSON and  *)
(* replayed on the real protocol objects (one model object = 64/Cap real   *)
(* requests).                                                              *)
(***************************************************************************)
EXTENDS CmdPool

CONSTANTS Turns, HistLen
VARIABLE turn

Pick(S) == RandomElement(S)
OpenC == {c \in Conns : open[c]}

SimStep ==
    \/ /\ turn = "connect" /\ \E c \in Conns : ~open[c]
       /\ Connect(Pick({c \in Conns : ~open[c]}))
    \/ /\ turn = "lock" /\ OpenC # {} /\ Cardinality(holds) < MaxHolds
       /\ LockKeep(Pick(OpenC))
    \/ /\ turn = "refused" /\ OpenC # {}
       /\ Refused(Pick(OpenC))
    \/ /\ turn = "unlock" /\ OpenC # {} /\ holds # {}
       /\ Unlock(Pick(OpenC), Pick(holds))
    \/ /\ turn = "unlockmine" /\ \E h \in holds : open[h.conn]
       /\ LET h == Pick({x \in holds : open[x.conn]}) IN Unlock(h.conn, h)
    \/ /\ turn = "drain" /\ OpenC # {} /\ holds # {}          \* one connection releases whatever is outstanding
       /\ LET c == Pick(OpenC) IN Unlock(IF \E h \in holds : h.conn # c THEN c ELSE c, Pick(holds))
    \/ /\ turn = "expire" /\ holds # {}
       /\ Expire(Pick(holds))
    \/ /\ turn = "close" /\ OpenC # {}
       /\ Close(Pick(OpenC))
    \/ UNCHANGED vars

SimNext == Len(hist) < HistLen /\ SimStep /\ turn' = Pick(Turns)
SimSpec == Init /\ turn = "connect" /\ [][SimNext]_<<vars, turn>>

SimExport == Len(hist) >= HistLen => PrintT("BEHAVIOUR " \o ToJson([hist |-> hist, priv |-> [c \in Conns |-> Len(priv[c])], ovf |-> ovf]))
=============================================================================

------------------------------ MODULE RedisCmds ------------------------------
(***************************************************************************)
(* C15, second part: the Redis-style text commands answer like a plain     *)
(* key-value store.                                                        *)
(*                                                                         *)
(* PURE module: Exec(kv, cmd) is the plain key-value store the statement   *)
(* refers to - a map from keys to a string or a number, optionally with a  *)
(* time-to-live - and the reply each command renders:                      *)
(*   SET GET DEL SETNX GETSET INCR INCRBY DECR DECRBY APPEND EXISTS STRLEN *)
(*   EXPIRE PERSIST, plus TICK (time passes beyond every time-to-live).    *)
(* Each command is what protocol/textcommand.go converts to a LOCK/UNLOCK  *)
(* with a value operation (SET = update-or-lock with SET data, key as      *)
(* LockId; DEL = unlock-first; SETNX = lock with a fresh LockId; GET =     *)
(* peek; INCR = update-or-lock with INCR data; ...), so this is the        *)
(* ValueReg register seen through the text protocol.                       *)
(*                                                                         *)
(* Strings are sequences of bytes (as in ValueReg), numbers small integers *)
(* (64-bit wrap is covered by the binary part).  Where a plain             *)
(* store has no single answer the reply is left open (Open = TRUE):        *)
(* INCR on a string, APPEND on a number (slock stores numbers as 8 binary  *)
(* bytes, documented), GET of a number may be rendered ":n" or "$..n".     *)
(***************************************************************************)
EXTENDS Integers, Sequences, FiniteSets, TLC

Absent == [p |-> FALSE]
Str(s, ttl, nx) == [p |-> TRUE, k |-> "s", s |-> s, n |-> 0, ttl |-> ttl, nx |-> nx]
Num(n, ttl, nx) == [p |-> TRUE, k |-> "n", s |-> <<>>, n |-> n, ttl |-> ttl, nx |-> nx]
\* nx: the key was created by SETNX (bookkeeping used ONLY to label an observed deviation)

\* replies: t = kind, s = bytes of a bulk string, n = integer
ROk      == [t |-> "ok", s |-> <<>>, n |-> 0]
RInt(n)  == [t |-> "int", s |-> <<>>, n |-> n]
RBulk(s) == [t |-> "bulk", s |-> s, n |-> 0]
RNil     == [t |-> "nil", s |-> <<>>, n |-> 0]

\* decimal rendering of an integer as ASCII bytes
RECURSIVE DigitsNat(_)
DigitsNat(n) == IF n < 10 THEN <<48 + n>> ELSE DigitsNat(n \div 10) \o <<48 + (n % 10)>>
Digits(n) == IF n < 0 THEN <<45>> \o DigitsNat(0 - n) ELSE DigitsNat(n)

ReadReply(v) == IF ~v.p THEN {RNil}
                ELSE IF v.k = "s" THEN {RBulk(v.s)}
                ELSE {RInt(v.n), RBulk(Digits(v.n))}

Delta(c) == CASE c.c = "INCR" -> 1 [] c.c = "DECR" -> -1 [] c.c = "INCRBY" -> c.d [] c.c = "DECRBY" -> 0 - c.d [] OTHER -> 0

\* result: [kv, replies (set of acceptable replies), open (no judgement)]
Exec(kv, c) ==
    LET v == kv[c.k]
        R(kv2, rs) == [kv |-> kv2, replies |-> rs, open |-> FALSE]
        Put(x) == [kv EXCEPT ![c.k] = x]
    IN
    CASE c.c = "SET"    -> R(Put(Str(c.v, FALSE, FALSE)), {ROk})
      [] c.c = "GET"    -> R(kv, ReadReply(v))
      [] c.c = "DEL"    -> R(Put(Absent), {RInt(IF v.p THEN 1 ELSE 0)})
      [] c.c = "SETNX"  -> IF v.p THEN R(kv, {RInt(0)}) ELSE R(Put(Str(c.v, FALSE, TRUE)), {RInt(1)})
      [] c.c = "GETSET" -> R(Put(Str(c.v, FALSE, FALSE)), ReadReply(v))
      [] c.c \in {"INCR", "DECR", "INCRBY", "DECRBY"} ->
             IF v.p /\ v.k = "s" THEN [kv |-> kv, replies |-> {}, open |-> TRUE]
             ELSE LET n == (IF v.p THEN v.n ELSE 0) + Delta(c)
                  IN R(Put(Num(n, IF v.p THEN v.ttl ELSE FALSE, IF v.p THEN v.nx ELSE FALSE)), {RInt(n)})
      [] c.c = "APPEND" ->
             IF v.p /\ v.k = "n" THEN [kv |-> kv, replies |-> {}, open |-> TRUE]
             ELSE LET s == (IF v.p THEN v.s ELSE <<>>) \o c.v
                  IN R(Put(Str(s, IF v.p THEN v.ttl ELSE FALSE, IF v.p THEN v.nx ELSE FALSE)), {RInt(Len(s))})
      [] c.c = "EXISTS" -> R(kv, {RInt(IF v.p THEN 1 ELSE 0)})
      [] c.c = "STRLEN" -> R(kv, {RInt(IF ~v.p THEN 0 ELSE IF v.k = "s" THEN Len(v.s) ELSE Len(Digits(v.n)))})
      [] c.c = "EXPIRE" -> IF v.p THEN R(Put([v EXCEPT !.ttl = TRUE]), {RInt(1)}) ELSE R(kv, {RInt(0)})
      [] c.c \in {"PERSIST", "PERSIST3"} ->
             \* present without a time-to-live: Redis answers 0 ("nothing removed"); a store that answers 1 ("key is
             \* persistent now") is as plain - left open between the two
             IF v.p /\ v.ttl THEN R(Put([v EXCEPT !.ttl = FALSE]), {RInt(1)})
             ELSE IF v.p THEN R(kv, {RInt(0), RInt(1)})
             ELSE R(kv, {RInt(0)})
      [] c.c = "TICK"   -> R([k \in DOMAIN kv |-> IF kv[k].p /\ kv[k].ttl THEN Absent ELSE kv[k]], {})
      [] OTHER -> [kv |-> kv, replies |-> {}, open |-> TRUE]

\* label of an observed deviation (for stable finding signatures; never part of a verdict)
DeviationClass(kv, c, reply, panicked) ==
    LET v == kv[c.k] IN
    CASE panicked /\ c.c = "APPEND" /\ ~v.p -> "append-on-absent-key-panics-in-reply-writer"
      [] ~panicked /\ c.c = "PERSIST" /\ reply.t = "err" -> "persist-key-is-rejected-as-syntax-error"
      [] ~panicked /\ v.p /\ v.nx /\ c.c \in {"SET", "GETSET", "APPEND", "INCR", "DECR", "INCRBY", "DECRBY", "EXPIRE", "PERSIST", "PERSIST3"}
             -> "write-on-key-created-by-setnx-refused"
      [] ~panicked /\ c.c = "EXPIRE" /\ ~v.p /\ reply = RInt(1) -> "expire-on-absent-key-answers-1"
      [] ~panicked /\ c.c \in {"PERSIST", "PERSIST3"} /\ ~v.p /\ reply = RInt(1) -> "expire-on-absent-key-answers-1"
      [] OTHER -> "other"

=============================================================================

------------------------------ MODULE RedisCmds ------------------------------
(***************************************************************************)
(* C15, second part: the Redis-style text commands answer like a plain     *)
(* key-value store.                                                        *)
(*                                                                         *)
(* PURE module: Exec(kv, cmd) is the plain key-value store the statement   *)
(* refers to - a map from keys to a string or a number, optionally with a  *)
(* time-to-live - and the reply each command renders:                      *)
(*   SET GET DEL SETNX GETSET INCR INCRBY DECR DECRBY APPEND EXISTS STRLEN *)
(*   EXPIRE PEXPIRE EXPIREAT PEXPIREAT PERSIST SETEX PSETEX, SET with the  *)
(*   options EX / PX / NX / XX (and NX with the wait options TX / PTX),    *)
(*   plus TICK (the clock advances by whole seconds).                      *)
(*                                                                         *)
(* Time-to-live.  A key carries None or a DEADLINE, kept as an interval    *)
(* [lo, hi] of model milliseconds: a seconds option (EX, SETEX, EXPIRE,    *)
(* EXPIREAT) asks for n s, a millisecond option (PX, PSETEX, PEXPIRE,      *)
(* PEXPIREAT) for n ms; the server may round UP to its own granularity     *)
(* (milliseconds up to 3000 ms, whole seconds up to 65535 s, whole minutes *)
(* above - README "Expried Parameter FLAG": 2-byte value + unit flag) but  *)
(* never down below n and never into another unit:                         *)
(*     lo = now + n,  hi = lo + granularity(n).                            *)
(* PERSIST and a plain SET / GETSET remove the time-to-live (Redis; the    *)
(* converter sends them with the unlimited flag), INCR.. / APPEND keep it. *)
(* A key whose deadline lies in [lo - 1 s, hi + 3 s] of the clock (sweeper *)
(* latitude, property C06) or whose term is served by the millisecond      *)
(* wheel (not driven by the virtual clock) is neither alive nor gone for   *)
(* sure: a TICK into that zone is an open case.                            *)
(* Each command is what protocol/textcommand.go converts to a LOCK/UNLOCK  *)
(* with a value operation (SET = update-or-lock with SET data, key as      *)
(* LockId; DEL = unlock-first; SETNX = lock with a fresh LockId; GET =     *)
(* peek; INCR = update-or-lock with INCR data; ...), so this is the        *)
(* ValueReg register seen through the text protocol.                       *)
(*                                                                         *)
(* Strings are sequences of bytes (as in ValueReg), numbers small integers *)
(* (64-bit wrap is covered by the binary part).  Where a plain             *)
(* store has no single answer the reply is left open (Open = TRUE):        *)
(* INCR on a string, APPEND on a number (slock stores numbers as 8 binary  *)
(* bytes, documented), GET of a number may be rendered ":n" or "$..n".     *)
(***************************************************************************)
EXTENDS Integers, Sequences, FiniteSets, TLC

Absent == [p |-> FALSE]

\* time-to-live: on, deadline interval [lo, hi] (model ms), ms = served by the millisecond wheel,
\* src = option class that set it (label only)
NoTtl == [on |-> FALSE, lo |-> 0, hi |-> 0, ms |-> FALSE, src |-> "none"]
SecTtl(now, n, at) ==
    [on |-> TRUE, lo |-> now + n * 1000 - (IF at THEN 1000 ELSE 0), hi |-> now + n * 1000 + (IF n > 65535 THEN 60000 ELSE 1000), ms |-> FALSE,
     src |-> IF n > 65535 THEN "seconds-option-above-65535-minutes" ELSE "seconds-option-up-to-65535"]
MsTtl(now, n, at) ==
    [on |-> TRUE, lo |-> now + n - (IF at THEN 1000 ELSE 0), hi |-> now + n + (IF n > 65535000 THEN 60000 ELSE 1000), ms |-> n <= 3000,
     src |-> IF n > 65535000 THEN "ms-option-above-65535000-minutes"
             ELSE IF n > 3000 THEN "ms-option-above-3000-stored-as-seconds"      \* the range of finding A38
             ELSE "ms-option-up-to-3000"]
\* the time-to-live a command asks for (c.d = n)
AskedTtl(c, now) ==
    CASE c.c \in {"SET_EX", "SETEX", "EXPIRE"} -> SecTtl(now, c.d, FALSE)
      [] c.c = "EXPIREAT" -> SecTtl(now, c.d, TRUE)
      [] c.c \in {"SET_PX", "PSETEX", "PEXPIRE"} -> MsTtl(now, c.d, FALSE)
      [] c.c = "PEXPIREAT" -> MsTtl(now, c.d, TRUE)
      [] OTHER -> NoTtl
SWEEP == 3000
SureGone(t, now)  == t.on /\ ~t.ms /\ now >= t.hi + SWEEP
SureAlive(t, now) == ~t.on \/ now <= t.lo - 1000
\* the wait a command asks for (SET .. NX TX n / PTX n): interval of milliseconds
AskedWait(c) == CASE c.c = "SET_NX_TX"  -> [lo |-> c.d * 1000, hi |-> c.d * 1000 + (IF c.d > 65535 THEN 60000 ELSE 1000), ms |-> FALSE]
                  [] c.c = "SET_NX_PTX" -> [lo |-> c.d, hi |-> c.d + (IF c.d > 65535000 THEN 60000 ELSE 1000), ms |-> c.d <= 3000]
                  [] OTHER -> [lo |-> 0, hi |-> 0, ms |-> FALSE]

Str(s, ttl, nx) == [p |-> TRUE, k |-> "s", s |-> s, n |-> 0, ttl |-> ttl, nx |-> nx]
Num(n, ttl, nx) == [p |-> TRUE, k |-> "n", s |-> <<>>, n |-> n, ttl |-> ttl, nx |-> nx]
\* nx: the key was created by SETNX (bookkeeping used ONLY to label an observed deviation)

\* replies: t = kind, s = bytes of a bulk string, n = integer
ROk      == [t |-> "ok", s |-> <<>>, n |-> 0]
RInt(n)  == [t |-> "int", s |-> <<>>, n |-> n]
RBulk(s) == [t |-> "bulk", s |-> s, n |-> 0]
RNil     == [t |-> "nil", s |-> <<>>, n |-> 0]

\* decimal rendering of an integer as ASCII bytes
RECURSIVE DigitsNat(_)
DigitsNat(n) == IF n < 10 THEN <<48 + n>> ELSE DigitsNat(n \div 10) \o <<48 + (n % 10)>>
Digits(n) == IF n < 0 THEN <<45>> \o DigitsNat(0 - n) ELSE DigitsNat(n)

ReadReply(v) == IF ~v.p THEN {RNil}
                ELSE IF v.k = "s" THEN {RBulk(v.s)}
                ELSE {RInt(v.n), RBulk(Digits(v.n))}

Delta(c) == CASE c.c = "INCR" -> 1 [] c.c = "DECR" -> -1 [] c.c = "INCRBY" -> c.d [] c.c = "DECRBY" -> 0 - c.d [] OTHER -> 0

\* result: [kv, replies (set of acceptable replies), open (no judgement)].  now: model clock in ms.
Exec(kv, c, now) ==
    LET v == kv[c.k]
        R(kv2, rs) == [kv |-> kv2, replies |-> rs, open |-> FALSE]
        Put(x) == [kv EXCEPT ![c.k] = x]
        keep == IF v.p THEN v.ttl ELSE NoTtl
        knx == IF v.p THEN v.nx ELSE FALSE
    IN
    \* a key whose term is on the millisecond wheel: that wheel runs on the wall clock in a goroutine of its own
    \* (db.go checkMillisecondExpried), which a sequential driver on a virtual clock cannot order against the next
    \* command - what follows on that key is an open case
    IF c.c # "TICK" /\ v.p /\ v.ttl.on /\ v.ttl.ms THEN [kv |-> kv, replies |-> {}, open |-> TRUE]
    ELSE
    CASE c.c = "SET"    -> R(Put(Str(c.v, NoTtl, FALSE)), {ROk})
      [] c.c \in {"SET_EX", "SET_PX", "SETEX", "PSETEX"} -> R(Put(Str(c.v, AskedTtl(c, now), FALSE)), {ROk})
      [] c.c \in {"SET_NX", "SET_NX_TX", "SET_NX_PTX"} -> IF v.p THEN R(kv, {RNil}) ELSE R(Put(Str(c.v, NoTtl, TRUE)), {ROk})
      [] c.c = "SET_XX" -> IF v.p THEN R(Put(Str(c.v, NoTtl, v.nx)), {ROk}) ELSE R(kv, {RNil})
      [] c.c = "GET"    -> R(kv, ReadReply(v))
      [] c.c = "DEL"    -> R(Put(Absent), {RInt(IF v.p THEN 1 ELSE 0)})
      [] c.c = "SETNX"  -> IF v.p THEN R(kv, {RInt(0)}) ELSE R(Put(Str(c.v, NoTtl, TRUE)), {RInt(1)})
      [] c.c = "GETSET" -> R(Put(Str(c.v, NoTtl, FALSE)), ReadReply(v))
      [] c.c \in {"INCR", "DECR", "INCRBY", "DECRBY"} ->
             IF v.p /\ v.k = "s" THEN [kv |-> kv, replies |-> {}, open |-> TRUE]
             ELSE LET n == (IF v.p THEN v.n ELSE 0) + Delta(c)
                  IN R(Put(Num(n, keep, knx)), {RInt(n)})
      [] c.c = "APPEND" ->
             IF v.p /\ v.k = "n" THEN [kv |-> kv, replies |-> {}, open |-> TRUE]
             ELSE LET s == (IF v.p THEN v.s ELSE <<>>) \o c.v
                  IN R(Put(Str(s, keep, knx)), {RInt(Len(s))})
      [] c.c = "EXISTS" -> R(kv, {RInt(IF v.p THEN 1 ELSE 0)})
      [] c.c = "STRLEN" -> R(kv, {RInt(IF ~v.p THEN 0 ELSE IF v.k = "s" THEN Len(v.s) ELSE Len(Digits(v.n)))})
      [] c.c \in {"EXPIRE", "PEXPIRE", "EXPIREAT", "PEXPIREAT"} ->
             IF v.p THEN R(Put([v EXCEPT !.ttl = AskedTtl(c, now)]), {RInt(1)}) ELSE R(kv, {RInt(0)})
      [] c.c \in {"PERSIST", "PERSIST3"} ->
             \* present without a time-to-live: Redis answers 0 ("nothing removed"); a store that answers 1 ("key is
             \* persistent now") is as plain - left open between the two
             IF v.p /\ v.ttl.on THEN R(Put([v EXCEPT !.ttl = NoTtl]), {RInt(1)})
             ELSE IF v.p THEN R(kv, {RInt(0), RInt(1)})
             ELSE R(kv, {RInt(0)})
      [] c.c = "TICK"   ->
             \* the clock moves to now + c.d s: keys surely past their deadline are gone, keys surely before it stay;
             \* anything in between (or on the millisecond wheel) is open
             LET t1 == now + c.d * 1000
                 live == {k \in DOMAIN kv : kv[k].p}
             IN IF \E k \in live : ~SureGone(kv[k].ttl, t1) /\ ~SureAlive(kv[k].ttl, t1)
                THEN [kv |-> kv, replies |-> {}, open |-> TRUE]
                ELSE R([k \in DOMAIN kv |-> IF kv[k].p /\ SureGone(kv[k].ttl, t1) THEN Absent ELSE kv[k]], {})
      [] OTHER -> [kv |-> kv, replies |-> {}, open |-> TRUE]

WriteCmds == {"SET", "SET_EX", "SET_PX", "SETEX", "PSETEX", "SET_NX", "SET_XX", "SET_NX_TX", "SET_NX_PTX", "GETSET", "SETNX", "INCR", "DECR", "INCRBY", "DECRBY",
              "APPEND", "EXPIRE", "PEXPIRE", "EXPIREAT", "PEXPIREAT", "PERSIST", "PERSIST3"}

\* Does an observed deadline fit the time-to-live of the store?  unlimited: the hold never expires; left: ms from
\* the clock to the recorded deadline (the engine records deadline = start + term + 1 s, hence the extra second)
TtlFits(t, now, unlimited, left) ==
    IF ~t.on THEN unlimited
    ELSE ~unlimited /\ now + left >= t.lo /\ now + left <= t.hi + 1000

\* label of an observed deviation (for stable finding signatures; never part of a verdict)
DeviationClass(kv, c, reply, panicked) ==
    LET v == kv[c.k] IN
    CASE panicked /\ c.c = "APPEND" /\ ~v.p -> "append-on-absent-key-panics-in-reply-writer"
      [] ~panicked /\ c.c = "PERSIST" /\ reply.t = "err" -> "persist-key-is-rejected-as-syntax-error"
      [] ~panicked /\ c.c = "EXPIREAT" /\ reply.t = "err" -> "expireat-is-an-unknown-command"
      [] ~panicked /\ v.p /\ v.nx /\ c.c \in (WriteCmds \ {"SETNX", "SET_NX", "SET_NX_TX", "SET_NX_PTX"})
             -> "write-on-key-created-by-setnx-refused"
      [] ~panicked /\ c.c \in {"EXPIRE", "PEXPIRE", "EXPIREAT", "PEXPIREAT"} /\ ~v.p /\ reply = RInt(1) -> "expire-on-absent-key-answers-1"
      [] ~panicked /\ c.c \in {"PERSIST", "PERSIST3"} /\ ~v.p /\ reply = RInt(1) -> "expire-on-absent-key-answers-1"
      [] OTHER -> "other"

=============================================================================

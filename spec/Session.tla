------------------------------ MODULE Session ------------------------------
(***************************************************************************)
(* Connection lifetimes of slock (property C18): wills, the clients table, *)
(* reply routing through ProxyServerProtocol, and what Close() does.       *)
(*                                                                         *)
(* Implementation-shaped.  Anchors (server/protocol.go, server/server.go,  *)
(* server/slock.go at the pinned commit):                                  *)
(*   Connect      NewBinary/TextServerProtocol (703-714, 1972-1985):       *)
(*                session registered, proxys[0] -> the protocol object     *)
(*   Init         BinaryServerProtocol.Init + ProcessCommad COMMAND_INIT   *)
(*                (739-753, 1406-1420): clients[id] := this connection     *)
(*   RegisterWill ProcessCommad COMMAND_WILL_* (1476-1498) / text          *)
(*                commandHandlerLock/Unlock (2678-2688, 2723-2733)         *)
(*   Hangup       the peer (or the server, or a protocol error) ends the   *)
(*                byte stream; Server.handle falls out of Process()        *)
(*   CloseMark    Close() first section (755-771 / 2044-2060): closed:=T,  *)
(*                every proxy of the connection re-pointed to the default  *)
(*                protocol, session removed, will queue detached           *)
(*   WillExec     Close() loop (773-779): ProcessCommad(will) with the     *)
(*                CLOSED protocol object as the requester                  *)
(*   CloseFinish  Close() tail (784-808): clients entry removed if it is   *)
(*                still this connection, inited := FALSE                   *)
(*   Deliver      ProcessLockResultCommand (1541-1554) for replies sent    *)
(*                through the protocol object (immediate replies), and     *)
(*                ProxyServerProtocol.ProcessLockResultCommandLocked       *)
(*                (163-181) for replies sent through lock.protocol         *)
(*                (grants from the queue, timeouts, expiries)              *)
(*                                                                         *)
(* The lock engine is abstracted to exclusive keys with a FIFO queue, time *)
(* to nondeterministic Timeout / Expire actions (the conformance driver    *)
(* realises them with the virtual clock).  Private-key wills (k = 0) touch *)
(* no shared key: they are always granted and reply at once.               *)
(*                                                                         *)
(* Named deviations of the code (constant FALSE = what the code does):     *)
(*   F1Fixed  a CLOSED, inited binary connection that is still the clients *)
(*            entry of its id looks ITSELF up when a reply is sent through *)
(*            it (will executed inside Close(), before the entry is        *)
(*            removed): unbounded recursion -> the process dies.           *)
(*            (Found by this check, repaired in /repo by fb81e61: the code *)
(*            now behaves as F1Fixed = TRUE.)                              *)
(*   F2Fixed  text wills are queued with CommandType WILL_LOCK/WILL_UNLOCK *)
(*            (binary resets it to LOCK/UNLOCK); Close() feeds them to     *)
(*            ProcessCommad, which registers them AGAIN: never executed.   *)
(*   F4Fixed  a connection that never announced an id has the all-zero     *)
(*            proxy clientId; its late replies were looked up under that   *)
(*            id, so a client that announced the all-zero id got them.     *)
(*            Repair in /repo (9dea0f2): INIT with the all-zero id is      *)
(*            still accepted, but ProxyServerProtocol skips the clients    *)
(*            lookup when its clientId is all-zero: late replies of a      *)
(*            never-announced connection - and of one that announced the   *)
(*            zero id - are dropped, never re-routed.                      *)
(* All three were found by this check and are repaired in /repo (fb81e61,  *)
(* 4d4abfd, 9dea0f2): the code now behaves as F1Fixed = F2Fixed = F4Fixed  *)
(* = TRUE; the FALSE settings remain as regression counterexamples.        *)
(***************************************************************************)
EXTENDS Integers, Sequences, FiniteSets, TLC, Json

CONSTANTS Conns,      \* connection ids (each used for one lifetime)
          Kinds,      \* subset of {"bin", "text"}
          Cids,       \* client ids that can be announced; contains ZeroCid
          ZeroCid,    \* the all-zero 16 bytes (the initial proxy clientId)
          Keys,       \* shared keys (exclusive)
          MaxReqs,    \* requests + wills in one behaviour
          MaxWills,   \* wills per connection
          MaxInits,   \* INIT commands per connection
          MaxTraffic, \* bursts of third-party traffic in one behaviour
          WillKeys,   \* keys a will may use: subset of Keys \cup {0}; 0 = a private key
          F1Fixed, F2Fixed, F4Fixed,
          Eager       \* TRUE: a disconnect in progress runs to completion before anything else
                      \*       happens, except where the close is gated (driver atomicity);
                      \* FALSE: every interleaving (design check)

VARIABLES st, hist
vars == <<st, hist>>

DFLT    == 0     \* ptr value: the default protocol
NoConn == 0
NoCid  == -1
DROP   == -1
CRASH  == -2

Range(s) == {s[i] : i \in 1..Len(s)}

ConnRec0 == [st |-> "free", kind |-> "bin", cid |-> ZeroCid, inited |-> FALSE, ann |-> NoCid, ninit |-> 0,
             hung |-> FALSE, gated |-> FALSE, busy |-> 0, wills |-> <<>>, pend |-> <<>>]

S0 == [cs |-> [c \in Conns |-> ConnRec0],
       ptr |-> [c \in Conns |-> DFLT],          \* where proxys[0] of the connection points (DFLT, or a connection)
       clients |-> [i \in Cids |-> NoConn],
       sessions |-> {},
       ks |-> [k \in Keys |-> [h |-> 0, wq |-> <<>>]],   \* h: request id of the holder's LOCK (0 = free)
       reqs |-> <<>>,                         \* request id -> [c, cmd, k, will, wait, lid, s]
       ndisp |-> <<>>,                        \* history: request id -> number of terminal dispositions (written or discarded)
       nwr |-> <<>>,                          \* history: request id -> number of replies written to a connection
       bad |-> FALSE,                         \* history: some reply was written to a connection that must not get it
       exec |-> [c \in Conns |-> <<>>],       \* history: wills executed, in execution order
       ntraffic |-> 0,                        \* bursts of unrelated traffic so far
       crashed |-> FALSE]

-----------------------------------------------------------------------------
\* reply routing

\* the protocol object x is asked to send a reply (ProcessLockResultCommand[Locked])
RouteTo(S, x) ==
    LET X == S.cs[x] IN
    IF X.st = "open" THEN x
    ELSE IF X.kind = "text" THEN DROP            \* pushed into lockWaiter, nobody reads it any more
    ELSE IF ~X.inited THEN DROP                   \* "Protocol Closed"
    ELSE LET y == S.clients[X.cid] IN
         IF y = NoConn THEN DROP
         ELSE IF y = x THEN (IF F1Fixed THEN DROP ELSE CRASH)
         ELSE LET Y == S.cs[y] IN
              IF Y.st = "open" THEN y
              ELSE IF Y.kind = "text" \/ ~Y.inited THEN DROP
              ELSE \* y is closed and still the entry of the id it announced: it finds itself
                   (IF F1Fixed THEN DROP ELSE CRASH)

\* viaProxy = FALSE: reply sent through the requester's protocol object (immediate replies);
\* viaProxy = TRUE:  reply sent through lock.protocol = proxys[0] of the requester
Deliver(S, rid, res, viaProxy) ==
    LET o  == S.reqs[rid].c
        O  == S.cs[o]
        \* 9dea0f2: a proxy whose clientId is all-zero is never looked up
        look == IF viaProxy /\ S.ptr[o] = DFLT /\ (~F4Fixed \/ O.cid # ZeroCid) THEN S.clients[O.cid] ELSE NoConn
        tgt == IF ~viaProxy THEN o
               ELSE IF S.ptr[o] # DFLT THEN S.ptr[o]
               ELSE look
        \* AddProxy succeeds only on a connection that is not closed: the proxy is re-pointed for good
        S1  == IF viaProxy /\ S.ptr[o] = DFLT /\ look # NoConn /\ S.cs[look].st = "open"
               THEN [S EXCEPT !.ptr[o] = look] ELSE S
        fin == IF tgt = NoConn THEN DROP ELSE RouteTo(S1, tgt)
        term == IF res = "EXPRIED" THEN 0 ELSE 1      \* an EXPRIED notice is not a terminal reply
    IN
    IF fin = CRASH THEN [S1 EXCEPT !.crashed = TRUE]
    ELSE IF fin = DROP THEN [S1 EXCEPT !.ndisp[rid] = @ + term]
    ELSE \* a text connection takes a proxied reply only for the request it is blocked in
         IF S1.cs[fin].kind = "text" /\ viaProxy /\ S1.cs[fin].busy # rid
         THEN [S1 EXCEPT !.ndisp[rid] = @ + term]
         ELSE LET ok == \/ fin = o
                        \/ /\ O.ann # NoCid
                           /\ S1.cs[fin].ann = O.ann
                           /\ O.st # "open"
              IN [S1 EXCEPT !.ndisp[rid] = @ + term, !.nwr[rid] = @ + 1, !.bad = @ \/ ~ok,
                            !.cs[fin].busy = IF @ = rid THEN 0 ELSE @]

-----------------------------------------------------------------------------
\* the abstract lock engine (exclusive keys, FIFO queue); k = 0 is a private key

Wake(S, k) ==
    IF S.ks[k].h = 0 /\ S.ks[k].wq # <<>>
    THEN LET w == Head(S.ks[k].wq) IN
         Deliver([S EXCEPT !.ks[k].h = w, !.ks[k].wq = Tail(@), !.reqs[w].s = "done"], w, "OK", TRUE)
    ELSE S

ExecLock(S, rid) ==
    LET r == S.reqs[rid]  k == r.k IN
    IF k = 0 THEN Deliver([S EXCEPT !.reqs[rid].s = "done"], rid, "OK", FALSE)
    ELSE IF S.ks[k].h = 0 THEN Deliver([S EXCEPT !.ks[k].h = rid, !.reqs[rid].s = "done"], rid, "OK", FALSE)
    ELSE IF ~r.wait THEN Deliver([S EXCEPT !.reqs[rid].s = "done"], rid, "TIMEOUT", FALSE)
    ELSE LET S1 == [S EXCEPT !.ks[k].wq = Append(@, rid), !.reqs[rid].s = "queued"] IN
         IF S.cs[r.c].kind = "text" /\ S.cs[r.c].st = "open" THEN [S1 EXCEPT !.cs[r.c].busy = rid] ELSE S1

ExecUnlock(S, rid) ==
    LET r == S.reqs[rid]  k == r.k IN
    IF k = 0 THEN Deliver([S EXCEPT !.reqs[rid].s = "done"], rid, "OK", FALSE)
    ELSE IF S.ks[k].h # 0 /\ S.ks[k].h = r.lid
         THEN Wake(Deliver([S EXCEPT !.ks[k].h = 0, !.reqs[rid].s = "done"], rid, "OK", FALSE), k)
         ELSE Deliver([S EXCEPT !.reqs[rid].s = "done"], rid, "UNLOCK_ERROR", FALSE)

-----------------------------------------------------------------------------
\* actions

\* hist: one record per step; gr = the requests that became holders in this step (the driver needs the
\* grant times to realise Expire steps with the virtual clock)
H(op, c, k, rid, a, b) == [op |-> op, c |-> c, k |-> k, rid |-> rid, a |-> a, b |-> b,
                           gr |-> {st'.ks[kk].h : kk \in {x \in Keys : st'.ks[x].h # st.ks[x].h /\ st'.ks[x].h # 0}}]

Log(op, c, k, rid, a, b) == hist' = Append(hist, H(op, c, k, rid, a, b))

CanSend(c) == st.cs[c].st = "open" /\ ~st.cs[c].hung /\ st.cs[c].busy = 0

Connect(c, kind) ==
    /\ st.cs[c].st = "free"
    /\ \A d \in Conns : d < c => st.cs[d].st # "free"        \* ids are used in order (symmetry)
    /\ st' = [st EXCEPT !.cs[c] = [ConnRec0 EXCEPT !.st = "open", !.kind = kind], !.ptr[c] = c, !.sessions = @ \cup {c}]
    /\ Log("connect", c, 0, 0, kind, 0)

Init(c, id) ==
    /\ CanSend(c) /\ st.cs[c].kind = "bin" /\ st.cs[c].ninit < MaxInits
    /\ LET C  == st.cs[c]
           cl == IF C.inited /\ st.clients[C.cid] = c THEN [st.clients EXCEPT ![C.cid] = NoConn] ELSE st.clients
       IN st' = [st EXCEPT !.clients = [cl EXCEPT ![id] = c],
                           !.cs[c].cid = id, !.cs[c].inited = TRUE, !.cs[c].ann = id, !.cs[c].ninit = @ + 1]
    /\ Log("init", c, 0, 0, "", id)

\* Will kinds: "L" lock (granted, or queued behind somebody's hold when it may wait), "U" unlock of a hold,
\* "E" a will that can only END IN AN ERROR reply (unlock of a lock that is not held -> UNLOCK_ERROR, a DbId
\* that names a database that was never created or 0xff -> UNKNOWN_DB; ProcessCommad returns the error of the
\* reply it could not deliver).  The result class of a will does not influence the rest of the list: WillExec
\* has no branch on it, and WillsOnce demands every later will all the same.
RegisterWill(c, cmd, k, wait) ==
    /\ CanSend(c) /\ Len(st.cs[c].wills) < MaxWills /\ Len(st.reqs) < MaxReqs
    /\ k \in WillKeys
    /\ cmd = "U" /\ k # 0 => st.ks[k].h # 0 /\ st.reqs[st.ks[k].h].c = c      \* a will-unlock releases an own hold
    /\ cmd = "U" => ~wait
    /\ cmd = "E" => k = 0 /\ ~wait
    /\ LET rid == Len(st.reqs) + 1
           lid == IF cmd = "U" /\ k # 0 THEN st.ks[k].h ELSE rid
       IN /\ st' = [st EXCEPT !.reqs = Append(@, [c |-> c, cmd |-> cmd, k |-> k, will |-> TRUE, wait |-> wait, lid |-> lid, s |-> "reg"]),
                              !.ndisp = Append(@, 0), !.nwr = Append(@, 0),
                              !.cs[c].wills = Append(@, rid)]
          /\ Log("will", c, k, rid, cmd \o (IF wait THEN "w" ELSE ""), lid)

ReqLock(c, k, wait) ==
    /\ CanSend(c) /\ Len(st.reqs) < MaxReqs
    /\ LET rid == Len(st.reqs) + 1
           S1  == [st EXCEPT !.reqs = Append(@, [c |-> c, cmd |-> "L", k |-> k, will |-> FALSE, wait |-> wait, lid |-> rid, s |-> "new"]),
                             !.ndisp = Append(@, 0), !.nwr = Append(@, 0)]
       IN /\ st' = ExecLock(S1, rid)
          /\ Log("lock", c, k, rid, "L", IF wait THEN 1 ELSE 0)

ReqUnlock(c, k) ==
    /\ CanSend(c) /\ Len(st.reqs) < MaxReqs /\ st.ks[k].h # 0
    /\ LET rid == Len(st.reqs) + 1
           S1  == [st EXCEPT !.reqs = Append(@, [c |-> c, cmd |-> "U", k |-> k, will |-> FALSE, wait |-> FALSE, lid |-> st.ks[k].h, s |-> "new"]),
                             !.ndisp = Append(@, 0), !.nwr = Append(@, 0)]
       IN /\ st' = ExecUnlock(S1, rid)
          /\ Log("unlock", c, k, rid, "U", st.ks[k].h)

\* Third-party traffic: a connection does completed lock+unlock pairs on keys nobody else uses.  In the code this
\* cycles the recycled LockCommand objects (per-connection free stacks, global pool: InitLockCommand /
\* UnInitLockCommand / GetLockCommand / FreeLockCommand); for the property it is a no-op: whatever ended
\* connections left behind (holds, queued requests, i.e. st.ks) is untouched (LeftBehindStable).
Traffic(c) ==
    /\ CanSend(c) /\ st.ntraffic < MaxTraffic
    /\ st' = [st EXCEPT !.ntraffic = @ + 1]
    /\ Log("traffic", c, 0, 0, st.cs[c].kind, 0)

Timeout(k, i) ==
    /\ i \in 1..Len(st.ks[k].wq)
    /\ LET w  == st.ks[k].wq[i]
           q  == st.ks[k].wq
           S1 == [st EXCEPT !.ks[k].wq = SubSeq(q, 1, i - 1) \o SubSeq(q, i + 1, Len(q)), !.reqs[w].s = "done"]
       IN /\ st' = Deliver(S1, w, "TIMEOUT", TRUE)
          /\ Log("timeout", st.reqs[w].c, k, w, "", 0)

Expire(k) ==
    /\ st.ks[k].h # 0
    /\ LET h  == st.ks[k].h
           S1 == Deliver([st EXCEPT !.ks[k].h = 0], h, "EXPRIED", TRUE)
       IN /\ st' = (IF S1.crashed THEN S1 ELSE Wake(S1, k))
          /\ Log("expire", st.reqs[h].c, k, h, "", 0)

RunsWills(C) == C.kind = "bin" \/ F2Fixed

\* Close() first section
Marked(S, c) ==
    LET C == S.cs[c] IN
    [S EXCEPT !.cs[c].st = "closing",
              !.cs[c].pend = IF RunsWills(C) THEN C.wills ELSE <<>>,
              !.ptr = [o \in Conns |-> IF S.ptr[o] = c THEN DFLT ELSE S.ptr[o]],
              !.sessions = @ \ {c},
              !.reqs = [i \in 1..Len(S.reqs) |-> IF ~RunsWills(C) /\ i \in Range(C.wills)
                                                   THEN [S.reqs[i] EXCEPT !.s = "lost"] ELSE S.reqs[i]]]

\* The byte stream ends (peer, server or protocol error).  A handler that is reading notices at once
\* (nothing the connection could still do happens in between, so hang-up + first section of Close()
\* is one step); a text handler blocked in a queued LOCK notices when that request has ended.
Hangup(c, g) ==
    /\ st.cs[c].st = "open" /\ ~st.cs[c].hung
    /\ g => Eager /\ st.cs[c].wills # <<>> /\ st.cs[c].kind = "bin" /\ st.cs[c].busy = 0
    /\ st' = IF st.cs[c].busy = 0
             THEN Marked([st EXCEPT !.cs[c].hung = TRUE, !.cs[c].gated = g], c)
             ELSE [st EXCEPT !.cs[c].hung = TRUE]
    /\ Log("hangup", c, 0, 0, IF g THEN "gated" ELSE "", st.cs[c].busy)

CloseMark(c) ==
    /\ st.cs[c].st = "open" /\ st.cs[c].hung /\ st.cs[c].busy = 0
    /\ st' = Marked(st, c)
    /\ Log("mark", c, 0, 0, "", 0)

WillExec(c) ==
    /\ st.cs[c].st = "closing" /\ st.cs[c].pend # <<>>
    /\ LET w  == Head(st.cs[c].pend)
           S1 == [st EXCEPT !.cs[c].pend = Tail(@), !.exec[c] = Append(@, w)]
       IN /\ st' = (CASE st.reqs[w].cmd = "L" -> ExecLock(S1, w)
                      [] st.reqs[w].cmd = "U" -> ExecUnlock(S1, w)
                      [] OTHER -> Deliver([S1 EXCEPT !.reqs[w].s = "done"], w, "ERROR", FALSE))
          /\ Log("willexec", c, st.reqs[w].k, w, st.reqs[w].cmd, 0)

CloseFinish(c) ==
    /\ st.cs[c].st = "closing" /\ st.cs[c].pend = <<>>
    /\ LET C == st.cs[c] IN
       st' = [st EXCEPT !.cs[c].st = "done", !.cs[c].inited = FALSE,
                        !.clients = IF C.inited /\ st.clients[C.cid] = c THEN [@ EXCEPT ![C.cid] = NoConn] ELSE @]
    /\ Log("finish", c, 0, 0, "", 0)

-----------------------------------------------------------------------------
U1(c) == st.cs[c].st = "open" /\ st.cs[c].hung /\ st.cs[c].busy = 0
U2(c) == st.cs[c].st = "closing" /\ st.cs[c].pend # <<>> /\ ~st.cs[c].gated
U3(c) == st.cs[c].st = "closing" /\ st.cs[c].pend = <<>>
Urgent == \E c \in Conns : U1(c) \/ U2(c) \/ U3(c)

CloseSteps == \E c \in Conns : CloseMark(c) \/ WillExec(c) \/ CloseFinish(c)

UrgentSteps == \E c \in Conns : (U1(c) /\ CloseMark(c)) \/ (U2(c) /\ WillExec(c)) \/ (U3(c) /\ CloseFinish(c))

ClientSteps ==
    \/ \E c \in Conns, kind \in Kinds : Connect(c, kind)
    \/ \E c \in Conns, id \in Cids : Init(c, id)
    \/ \E c \in Conns, cmd \in {"L", "U", "E"}, k \in WillKeys, w \in BOOLEAN : RegisterWill(c, cmd, k, w)
    \/ \E c \in Conns, k \in Keys, w \in BOOLEAN : ReqLock(c, k, w)
    \/ \E c \in Conns, k \in Keys : ReqUnlock(c, k)
    \/ \E c \in Conns, g \in BOOLEAN : Hangup(c, g)
    \/ \E c \in Conns : Traffic(c)

TimerSteps ==
    \/ \E k \in Keys, i \in 1..MaxReqs : Timeout(k, i)
    \/ \E k \in Keys : Expire(k)

Next == /\ ~st.crashed
        /\ IF Eager /\ Urgent THEN UrgentSteps
           ELSE ClientSteps \/ TimerSteps \/ CloseSteps

Init0 == st = S0 /\ hist = <<>>

Spec == Init0 /\ [][Next]_vars

view == st

-----------------------------------------------------------------------------
\* properties

TypeOK ==
    /\ \A c \in Conns : st.cs[c].st \in {"free", "open", "closing", "done"} /\ st.ptr[c] \in Conns \cup {DFLT}
    /\ \A i \in Cids : st.clients[i] \in Conns \cup {NoConn}
    /\ st.sessions \subseteq Conns

\* C18 first sentence: each will exactly once, in registration order, never before the disconnect
WillsOnce ==
    \A c \in Conns : LET C == st.cs[c] IN
        /\ C.st \in {"free", "open"} => st.exec[c] = <<>>
        /\ C.st = "closing" /\ RunsWills(C) => st.exec[c] \o C.pend = C.wills
        /\ C.st = "done" /\ RunsWills(C) => st.exec[c] = C.wills

\* ... for every kind of connection (refuted by the code's text path: deviation F2)
AllWillsRun == \A c \in Conns : st.cs[c].st = "done" => st.exec[c] = st.cs[c].wills

\* the server survives every disconnect (refuted by deviation F1)
NoCrash == ~st.crashed

\* replies reach the requester, or a connection that announced the same id after the requester ended - never another one
NoMisroute == ~st.bad

\* nothing of an ended connection stays registered
NoLeak ==
    \A c \in Conns :
        /\ st.cs[c].st \in {"closing", "done"} => c \notin st.sessions /\ \A o \in Conns : st.ptr[o] # c
        /\ st.cs[c].st = "done" => \A i \in Cids : st.clients[i] # c

\* a queued request is in exactly one queue (so a Timeout / Wake can still end it); nothing else is
QueuedLive == st.crashed \/
    /\ \A rid \in 1..Len(st.reqs) :
          (st.reqs[rid].s = "queued") <=> (\E k \in Keys : rid \in Range(st.ks[k].wq))
    /\ \A k \in Keys : Cardinality(Range(st.ks[k].wq)) = Len(st.ks[k].wq)
    /\ \A k \in Keys : st.ks[k].h # 0 => st.reqs[st.ks[k].h].cmd = "L" /\ st.reqs[st.ks[k].h].s = "done"
    /\ \A k \in Keys : st.ks[k].wq # <<>> => st.ks[k].h # 0            \* no lost wake-up across a disconnect

\* every ended request has exactly one terminal disposition (written to a connection, or discarded)
OneDisposition ==
    st.crashed \/ \A rid \in 1..Len(st.reqs) :
        st.ndisp[rid] = (IF st.reqs[rid].s = "done" THEN 1 ELSE 0)

\* when every connection has ended and the keys are free again, the tables are empty
DrainedClean ==
    ((\A c \in Conns : st.cs[c].st \in {"free", "done"}) /\ (\A k \in Keys : st.ks[k].h = 0))
        => /\ st.sessions = {}
           /\ \A i \in Cids : st.clients[i] = NoConn
           /\ \A o \in Conns : st.cs[o].st = "done" => st.ptr[o] = DFLT
           /\ \A rid \in 1..Len(st.reqs) : st.reqs[rid].s \in {"done", "lost"}

\* holds survive the disconnect itself: only a request, a will, a timeout or an expiry changes a key
HoldsSurvive ==
    [][(\E c \in Conns : st.cs[c].st # st'.cs[c].st /\ st'.exec = st.exec) => st'.ks = st.ks]_vars

\* left-behind state (and every other key state) changes only by a request, a will, a timeout or an expiry
\* that names THAT key - never by a disconnect, an INIT, a reconnect or unrelated traffic
LeftBehindStable ==
    [][\A k \in Keys : st'.ks[k] # st.ks[k] =>
           LET h == hist'[Len(hist')] IN Len(hist') = Len(hist) + 1 /\ h.op \in {"lock", "unlock", "willexec", "timeout", "expire"} /\ h.k = k]_vars

\* queued requests still end (under fair timers): liveness, checked on the small config only
Fairness == WF_vars(TimerSteps) /\ WF_vars(CloseSteps)
FairSpec == Spec /\ Fairness
QueuedEnd == \A rid \in 1..MaxReqs : (rid <= Len(st.reqs) /\ st.reqs[rid].s = "queued") ~> (st.crashed \/ (rid <= Len(st.reqs) /\ st.reqs[rid].s = "done"))

-----------------------------------------------------------------------------
\* counterexample export (a TLC counterexample is never a verdict: it becomes a replay script)
CexCrash    == st.crashed => ~PrintT("CEX F1 " \o ToJson(hist))
CexTextWill == ~AllWillsRun => ~PrintT("CEX F2 " \o ToJson(hist))
CexMisroute == ~NoMisroute => ~PrintT("CEX F4 " \o ToJson(hist))
=============================================================================

----------------------------- MODULE MonElection -----------------------------
(***************************************************************************)
(* Property monitor for C12 (election safety), a trace specification over  *)
(* the OBSERVABLE events of the election bench (engine E): phase starts,   *)
(* delivered / lost requests and replies with the reply the real handler   *)
(* produced, phase results of the real ArbiterVoter, saves and restarts,   *)
(* and after every step the acceptor triple (proposalId, commitId,         *)
(* proposalHost) of every member.                                          *)
(*                                                                         *)
(* The monitor holds no copy of the acceptor rules.  It judges exactly     *)
(* what the statement of C12 says:                                         *)
(*  (a) a member's accepted and committed numbers never decrease           *)
(*  (b) two candidacies that overlap in time never both succeed, and a     *)
(*      candidacy only succeeds with a majority of commit acknowledgements *)
(*  (c) the proposed member answered the vote, is data-bearing, has        *)
(*      non-zero weight and holds the newest log position among the        *)
(*      majority that answered (ties: weight, then host)                   *)
(*  (d) a data-bearing member whose own log is newer refuses the proposal  *)
(*  (e) ... and the refusal counts: a candidacy that received a refusal    *)
(*      "my log is newer" in its proposal round (the reply ERR_REJECT      *)
(*      reached the candidate, or the candidate's own data-bearing member  *)
(*      refused for that reason) does not succeed; end to end: the         *)
(*      proposed position of a successful candidacy is not older than the  *)
(*      own log of any data-bearing member whose reply reached the         *)
(*      candidate in the proposal round, nor (positions totally ordered)   *)
(*      than the position an eligible member reported in the vote round.   *)
(*      A member that was unreachable during the whole candidacy (request  *)
(*      or reply lost in both rounds) may legitimately be newer: silent.   *)
(* "Newest" is the append order of the log: (file index, offset within the *)
(* file) with the index wrapping around at 2^32 (aof.go:1735, 1925-1937),  *)
(* then the command time.  Where the positions of the responders are not   *)
(* totally ordered (wrap-around cycle) clause (c) is silent.               *)
(*                                                                         *)
(* The same module judges the observations of engine P (real 3-process     *)
(* cluster, kill -9 of the leader): never two leaders among the survivors, *)
(* and a quorum-acknowledged lock is still held on the new leader.         *)
(*                                                                         *)
(* Log positions arrive as 16-bit limbs because TLC integers are 32 bit.   *)
(* Lines "VIOL {json}" report violated clauses, "DIVERGE {json}" report a  *)
(* step whose recorded outcome differs from the outcome the Election spec  *)
(* predicted for it (refinement information, never a verdict).             *)
(***************************************************************************)
EXTENDS Integers, Sequences, FiniteSets, TLC, Json, SequencesExt, FiniteSetsExt

CONSTANTS TraceFile, Props

Trace == ndJsonDeserialize(TraceFile)

VARIABLES l, m
vars == <<l, m>>

EmptyFn == [x \in {} |-> 0]
SetFn(f, k, v) == [x \in (DOMAIN f) \cup {k} |-> IF x = k THEN v ELSE f[x]]
Has(e, k) == k \in DOMAIN e

-----------------------------------------------------------------------------
\* log positions on limbs: [ih, il, oh, ol, c = <<c3, c2, c1, c0>>]

LexLt(x, y) == \E i \in 1..Len(x) : x[i] < y[i] /\ \A j \in 1..(i - 1) : x[j] = y[j]

\* sw = FALSE: file index is the major component (append order); sw = TRUE: offset major (what
\* CompareAofId of the pinned tree computes) - used only to name the cause of a violation
Mj(a, sw) == IF sw THEN <<a.oh, a.ol>> ELSE <<a.ih, a.il>>
Mn(a, sw) == IF sw THEN <<a.ih, a.il>> ELSE <<a.oh, a.ol>>
V(a, sw) == Mj(a, sw) \o Mn(a, sw)

\* given V(a) > V(b): is the distance at least 0x7fffffff00000000, i.e. did the major component wrap
Wrapped(a, b, sw) ==
    LET ah == Mj(a, sw)[1]  al == Mj(a, sw)[2]  bh == Mj(b, sw)[1]  bl == Mj(b, sw)[2]
        borrow == IF al < bl THEN 1 ELSE 0
        dl == al - bl + borrow * 65536
        dh == ah - bh - borrow
    IN \/ dh >= 32768
       \/ dh = 32767 /\ dl = 65535 /\ ~LexLt(Mn(a, sw), Mn(b, sw))

SamePos(a, b) == V(a, FALSE) = V(b, FALSE) /\ a.c = b.c

CmpPos(a, b, sw) ==
    IF SamePos(a, b) THEN 0
    ELSE IF LexLt(V(b, sw), V(a, sw)) THEN (IF Wrapped(a, b, sw) THEN -1 ELSE 1)
    ELSE IF LexLt(V(a, sw), V(b, sw)) THEN (IF Wrapped(b, a, sw) THEN 1 ELSE -1)
    ELSE IF LexLt(b.c, a.c) THEN 1 ELSE -1

Newer(a, b) == CmpPos(a, b, FALSE) > 0

Eligible(R) == {i \in 1..Len(R) : R[i].arb = 0 /\ R[i].w > 0}
Cyclic(R, sw) == \E i, j, k \in Eligible(R) : CmpPos(R[i].aof, R[j].aof, sw) > 0 /\ CmpPos(R[j].aof, R[k].aof, sw) > 0 /\ CmpPos(R[k].aof, R[i].aof, sw) > 0
Best(R, i, sw) == \A j \in Eligible(R) :
                     /\ CmpPos(R[j].aof, R[i].aof, sw) <= 0
                     /\ SamePos(R[j].aof, R[i].aof) => (R[i].w > R[j].w \/ (R[i].w = R[j].w /\ R[i].host >= R[j].host))

\* Only to NAME the cause of a wrong choice (never for the verdict): the member a scan of the
\* responses in arrival order selects when positions are compared with order sw
ScanHost(R, sw) ==
    LET s == FoldLeft(LAMBDA sel, i :
                 IF R[i].arb # 0 \/ R[i].w = 0 THEN sel
                 ELSE IF sel = 0 THEN i
                 ELSE IF SamePos(R[sel].aof, R[i].aof)
                      THEN LET s1 == IF R[sel].w < R[i].w THEN i ELSE sel
                           IN IF R[s1].w = R[i].w /\ R[s1].host < R[i].host THEN i ELSE s1
                 ELSE IF CmpPos(R[i].aof, R[sel].aof, sw) > 0 THEN i ELSE sel,
             0, [i \in 1..Len(R) |-> i])
    IN IF s = 0 THEN 0 ELSE R[s].host

-----------------------------------------------------------------------------
Active(p) == p \in Props

Report(mm, code, detail) ==
    IF Active("C12")
    THEN IF PrintT("VIOL " \o ToJson([prop |-> "C12", code |-> code, line |-> l, trace |-> mm.tr, name |-> mm.name, detail |-> detail]))
         THEN [mm EXCEPT !.nv = @ + 1] ELSE mm
    ELSE mm

Check(mm, cond, code, detail) == IF cond THEN mm ELSE Report(mm, code, detail)

Diverge(mm, detail) ==
    IF PrintT("DIVERGE " \o ToJson([line |-> l, trace |-> mm.tr, name |-> mm.name, detail |-> detail]))
    THEN [mm EXCEPT !.nd = @ + 1] ELSE mm

M0 == [ n |-> 0, members |-> <<>>, acc |-> <<>>,
        cur |-> EmptyFn,     \* candidate -> current candidacy
        pend |-> EmptyFn,    \* <<c, member>> -> reply produced by the member, not yet delivered
        wins |-> <<>>,       \* successful candidacies
        cacks |-> EmptyFn,   \* <<member, c, round>> -> line of the member's commit acknowledgement
        rst |-> EmptyFn,     \* member -> set of lines at which it restarted
        cfail |-> EmptyFn,   \* member -> set of lines at which its own commit phase failed
        packed |-> {},       \* engine P: keys whose quorum-acknowledged lock was reported SUCCED
        ppos |-> EmptyFn,    \* engine P: node -> last observed own log position
        agn |-> 0,           \* choices not judged because the positions were cyclic
        nref |-> 0,          \* proposal rounds in which a refusal "my log is newer" reached the candidate
        nveto |-> 0,         \* ... of which a majority of members had accepted: the refusal was the only guard
        nwin |-> 0,          \* successful candidacies judged by clause (e)
        nheard |-> 0,        \* ... in which every member the winner had to beat was heard in one of the rounds
        nv |-> 0, nd |-> 0, tr |-> 0, name |-> "" ]

Maj(mm) == (mm.n \div 2) + 1
RstOf(mm, x) == IF x \in DOMAIN mm.rst THEN mm.rst[x] ELSE {}
CfailOf(mm, x) == IF x \in DOMAIN mm.cfail THEN mm.cfail[x] ELSE {}

-----------------------------------------------------------------------------
\* (a) numbers never decrease - judged on every event that carries the triples

Via(e, i) ==
    IF e.e = "restart" /\ e.m = i THEN "restart"
    ELSE IF e.e \in {"drsp", "lose"} /\ e.c = i /\ Has(e, "ended") /\ e.ended = "ok" /\ e.phase = "prop" THEN "own-proposal-end"
    ELSE IF e.e \in {"drsp", "lose"} /\ e.c = i /\ Has(e, "ended") /\ e.ended = "ok" /\ e.phase = "commit" THEN "own-commit-end"
    ELSE e.e

CheckAcc(mm, e) ==
    IF ~Has(e, "acc") \/ Len(mm.acc) # Len(e.acc) THEN mm
    ELSE LET Bad == {i \in 1..Len(e.acc) : e.acc[i][1] < mm.acc[i][1] \/ e.acc[i][2] < mm.acc[i][2]}
             m1 == IF Bad = {} THEN mm
                   ELSE LET i == CHOOSE x \in Bad : \A y \in Bad : x <= y
                        IN Report(mm, "numbers-regress",
                                  [m |-> i, via |-> Via(e, i), from |-> <<mm.acc[i][1], mm.acc[i][2]>>, to |-> <<e.acc[i][1], e.acc[i][2]>>])
         IN [m1 EXCEPT !.acc = e.acc]

\* refinement information: the outcome the Election spec predicted for this step
CheckExp(mm, e) ==
    IF ~Has(e, "exp") THEN mm
    ELSE LET x == e.exp
             bad == \/ Has(x, "t") /\ Has(e, "acc") /\ x.m >= 1 /\ x.m <= Len(e.acc) /\ e.acc[x.m] # x.t
                    \/ Has(x, "res") /\ Has(e, "res") /\ x.res # e.res
                    \/ Has(x, "ended") /\ Has(e, "ended") /\ x.ended # e.ended
                    \/ Has(x, "selfok") /\ Has(e, "selfok") /\ x.selfok # e.selfok
                    \/ Has(x, "pid") /\ Has(e, "pid") /\ x.pid # e.pid
                    \/ Has(x, "host") /\ Has(e, "host") /\ x.host # e.host
                    \/ Has(x, "saved") /\ Has(e, "saved") /\ x.saved # e.saved
         IN IF bad THEN Diverge(mm, [ev |-> e.e, exp |-> x, got |-> [acc |-> IF Has(e, "acc") THEN e.acc ELSE <<>>,
                                                                        res |-> IF Has(e, "res") THEN e.res ELSE "-",
                                                                        ended |-> IF Has(e, "ended") THEN e.ended ELSE "-"]])
            ELSE mm

-----------------------------------------------------------------------------
StepBegin(mm, e) == [M0 EXCEPT !.nv = mm.nv, !.nd = mm.nd, !.agn = mm.agn, !.nref = mm.nref, !.nveto = mm.nveto, !.nwin = mm.nwin, !.nheard = mm.nheard, !.tr = e.idx, !.name = e.name, !.n = e.n,
                               !.members = e.members, !.acc = e.acc]

Cur0(e) == [round |-> e.round, s |-> l, R |-> <<>>, host |-> 0, aof |-> [x \in {} |-> 0], pid |-> 0, acks |-> {}, live |-> TRUE, selfprop |-> TRUE,
           refused |-> {},   \* [m, own]: members whose refusal "my log is newer" reached the candidate in the proposal round
           pnewer |-> {},    \* [m, own]: data-bearing members that answered the proposal round and whose own log is newer than the proposed position
           paccs |-> {}]     \* members whose acceptance of the proposal reached the candidate (the own member included)

StepStart(mm, e) ==
    LET c == e.c IN
    CASE e.phase = "vote" ->
           LET c0 == Cur0(e)
               c1 == IF e.selfok THEN [c0 EXCEPT !.R = <<e.rsp>>] ELSE c0
           IN [mm EXCEPT !.cur = SetFn(@, c, c1)]
      [] e.phase = "prop" ->
           IF c \notin DOMAIN mm.cur THEN mm
           ELSE LET R == mm.cur[c].R
                    I == {i \in Eligible(R) : R[i].host = e.host}
                    m1 == Check(mm, Len(R) >= Maj(mm), "proposal-without-vote-majority", [c |-> c, answered |-> Len(R), members |-> mm.n])
                    m2 == Check(m1, I # {}, "proposed-host-ineligible",
                                [c |-> c, host |-> e.host, responders |-> [i \in 1..Len(R) |-> [host |-> R[i].host, w |-> R[i].w, arb |-> R[i].arb]]])
                    m3 == IF I = {} THEN m2
                          ELSE IF Cyclic(R, FALSE) THEN [m2 EXCEPT !.agn = @ + 1]
                          ELSE LET i == CHOOSE x \in I : TRUE
                               IN Check(m2, Best(R, i, FALSE), "proposed-host-not-newest",
                                        [c |-> c, host |-> e.host,
                                         cause |-> IF ScanHost(R, TRUE) = e.host /\ ScanHost(R, FALSE) # e.host THEN "offset-before-index" ELSE "other",
                                         responders |-> [j \in 1..Len(R) |-> [host |-> R[j].host, w |-> R[j].w, arb |-> R[j].arb, aof |-> R[j].aof]]])
                    \* (d) for the candidate's own member
                    m4 == IF Has(e, "own") /\ e.selfok /\ Newer(e.own, e.aof)
                          THEN Report(m3, "newer-log-member-accepted-proposal",
                                      [m |-> c, c |-> c, cause |-> IF CmpPos(e.own, e.aof, TRUE) <= 0 THEN "offset-before-index" ELSE "other", own |-> e.own, proposed |-> e.aof])
                          ELSE m3
                    \* (e) the candidate's own member answers its own proposal: the newer-log test comes first in DoSelfProposal
                    selfnew == Has(e, "own") /\ Newer(e.own, e.aof)
                IN [m4 EXCEPT !.cur[c].host = e.host, !.cur[c].aof = e.aof, !.cur[c].pid = e.pid, !.cur[c].selfprop = e.selfok,
                              !.cur[c].refused = IF selfnew /\ ~e.selfok THEN {[m |-> c, own |-> e.own]} ELSE {},
                              !.cur[c].pnewer = IF selfnew THEN {[m |-> c, own |-> e.own]} ELSE {},
                              !.cur[c].paccs = IF e.selfok THEN {c} ELSE {}]
      [] e.phase = "commit" ->
           IF c \notin DOMAIN mm.cur THEN mm
           ELSE IF e.selfok
                THEN [mm EXCEPT !.cur[c].acks = @ \cup {c}, !.cur[c].pid = e.pid, !.cacks = SetFn(@, <<c, c, mm.cur[c].round>>, l)]
                ELSE [mm EXCEPT !.cur[c].pid = e.pid]
      [] OTHER -> mm

StepDreq(mm, e) ==
    LET k == <<e.c, e.m>>
        m1 == IF e.phase = "prop" /\ e.res = "" /\ Has(e, "own") /\ Has(e, "req") /\ Newer(e.own, e.req.aof)
              THEN Report(mm, "newer-log-member-accepted-proposal",
                          [m |-> e.m, c |-> e.c, cause |-> IF CmpPos(e.own, e.req.aof, TRUE) <= 0 THEN "offset-before-index" ELSE "other", own |-> e.own, proposed |-> e.req.aof])
              ELSE mm
        m2 == IF e.phase = "commit" /\ e.res = "" /\ e.c \in DOMAIN mm.cur
              THEN [m1 EXCEPT !.cacks = SetFn(@, <<e.m, e.c, mm.cur[e.c].round>>, l)] ELSE m1
    IN [m2 EXCEPT !.pend = SetFn(@, k, e)]

StepDrsp(mm, e) ==
    LET k == <<e.c, e.m>> IN
    IF k \notin DOMAIN mm.pend \/ e.c \notin DOMAIN mm.cur THEN mm
    ELSE LET r == mm.pend[k] IN
         CASE e.phase = "vote" /\ r.res = "" /\ Has(r, "rsp") -> [mm EXCEPT !.cur[e.c].R = Append(@, r.rsp)]
           [] e.phase = "commit" /\ r.res = "" -> [mm EXCEPT !.cur[e.c].acks = @ \cup {e.m}]
           [] e.phase = "prop" /\ r.phase = "prop" ->
                LET own == IF Has(r, "own") THEN r.own ELSE [x \in {} |-> 0]
                    isnew == Has(r, "own") /\ Has(r, "req") /\ Newer(r.own, r.req.aof)
                IN [mm EXCEPT !.cur[e.c].refused = IF r.res = "ERR_REJECT" THEN @ \cup {[m |-> e.m, own |-> own]} ELSE @,
                              !.cur[e.c].pnewer = IF isnew THEN @ \cup {[m |-> e.m, own |-> own]} ELSE @,
                              !.cur[e.c].paccs = IF r.res = "" THEN @ \cup {e.m} ELSE @]
           [] OTHER -> mm

\* (b) a candidacy succeeded
AckLine(mm, x, w) == IF <<x, w.c, w.round>> \in DOMAIN mm.cacks THEN mm.cacks[<<x, w.c, w.round>>] ELSE 0

StepPend(mm, e) ==
    IF e.c \notin DOMAIN mm.cur THEN mm
    ELSE LET cu == mm.cur[e.c] IN
         IF e.phase = "commit" /\ e.ok
         THEN LET w == [c |-> e.c, round |-> cu.round, s |-> cu.s, e |-> l, host |-> e.host, pid |-> e.pid, acks |-> cu.acks, selfprop |-> cu.selfprop]
                  m1 == Check(mm, Cardinality(cu.acks) >= Maj(mm), "win-without-commit-majority",
                              [c |-> e.c, acks |-> SetToSeq(cu.acks), members |-> mm.n])
                  Ov == {i \in 1..Len(mm.wins) : w.s < mm.wins[i].e /\ ~(mm.wins[i].c = w.c /\ mm.wins[i].round = w.round)}
                  m2 == IF Ov = {} THEN m1
                        ELSE LET i == CHOOSE x \in Ov : \A y \in Ov : x <= y
                                 x == mm.wins[i]
                                 Common == x.acks \cap w.acks
                                 \* what happened to a common acknowledger between its two acknowledgements
                                 \* (the candidacy that succeeded first need not be the one acknowledged first)
                                 Lo(q) == Min({AckLine(mm, q, x), AckLine(mm, q, w)})
                                 Hi(q) == Max({AckLine(mm, q, x), AckLine(mm, q, w)})
                                 Forgot(q) == \E r \in RstOf(mm, q) : Lo(q) < r /\ r < Hi(q)
                                 Cleared(q) == \E r \in CfailOf(mm, q) : Lo(q) < r /\ r < Hi(q)
                                 \* the member is the candidate of one of the two candidacies, refused its own proposal there
                                 \* (it had acknowledged the other commit) and acknowledged its own commit all the same
                                 Overwrote(q) == \/ q = w.c /\ ~w.selfprop /\ AckLine(mm, q, x) < AckLine(mm, q, w)
                                                 \/ q = x.c /\ ~x.selfprop /\ AckLine(mm, q, w) < AckLine(mm, q, x)
                                 via == IF Common = {} THEN "no-common-acker"
                                        ELSE IF \A q \in Common : Forgot(q) THEN "acceptor-restart"
                                        ELSE IF \A q \in Common : Forgot(q) \/ Cleared(q) THEN "failed-own-commit"
                                        ELSE IF \A q \in Common : Forgot(q) \/ Cleared(q) \/ Overwrote(q) THEN "refused-own-proposal-committed"
                                        ELSE "double-ack"
                             IN Report(m1, "two-overlapping-winners",
                                       [via |-> via, first |-> [c |-> x.c, host |-> x.host, pid |-> x.pid, acks |-> SetToSeq(x.acks)],
                                        second |-> [c |-> w.c, host |-> w.host, pid |-> w.pid, acks |-> SetToSeq(w.acks)],
                                        common |-> SetToSeq(Common)])
                  \* (e) the refusal counts
                  m3 == Check(m2, cu.refused = {}, "candidacy-won-despite-newer-log-refusal",
                              [c |-> e.c, round |-> cu.round, host |-> e.host, pid |-> e.pid, proposed |-> cu.aof,
                               refused_by |-> SetToSeq(cu.refused), accepted_by |-> SetToSeq(cu.paccs), commit_acks |-> SetToSeq(cu.acks), members |-> mm.n])
                  R == cu.R
                  VNewer == IF DOMAIN cu.aof = {} \/ Cyclic(R, FALSE) THEN {}
                            ELSE {[m |-> R[i].host, own |-> R[i].aof] : i \in {j \in Eligible(R) : Newer(R[j].aof, cu.aof)}}
                  m4 == Check(m3, cu.pnewer = {} /\ VNewer = {}, "winner-log-older-than-answering-member",
                              [c |-> e.c, round |-> cu.round, host |-> e.host, pid |-> e.pid, proposed |-> cu.aof,
                               newer_in_proposal_round |-> SetToSeq(cu.pnewer), newer_in_vote_round |-> SetToSeq(VNewer)])
                  \* coverage: was every other data-bearing member heard in the vote round or in the proposal round
                  Heard == {R[i].host : i \in 1..Len(R)} \cup cu.paccs \cup {x.m : x \in cu.refused} \cup {x.m : x \in cu.pnewer}
                  Data == {i \in 1..Len(mm.members) : mm.members[i].arb = 0}
                  m5 == [m4 EXCEPT !.nwin = @ + 1, !.nheard = @ + (IF Data \subseteq Heard THEN 1 ELSE 0)]
              IN [m5 EXCEPT !.wins = Append(@, w), !.cur[e.c].live = FALSE]
         ELSE IF e.phase = "prop"
         THEN LET m1 == IF cu.refused = {} THEN mm
                        ELSE [mm EXCEPT !.nref = @ + 1, !.nveto = @ + (IF Cardinality(cu.paccs) >= Maj(mm) THEN 1 ELSE 0)]
              IN IF e.ok THEN m1 ELSE [m1 EXCEPT !.cur[e.c].live = FALSE]
         ELSE IF e.ok THEN mm
         ELSE IF e.phase = "commit" THEN [mm EXCEPT !.cur[e.c].live = FALSE, !.cfail = SetFn(@, e.c, CfailOf(mm, e.c) \cup {l})]
         ELSE [mm EXCEPT !.cur[e.c].live = FALSE]

StepRestart(mm, e) ==
    [mm EXCEPT !.rst = SetFn(@, e.m, RstOf(mm, e.m) \cup {l})]

StepDiverge(mm, e) == Diverge(mm, [ev |-> "step-not-enabled", op |-> e.op, c |-> e.c, m |-> e.m, why |-> e.why])

-----------------------------------------------------------------------------
\* engine P (real 3-process cluster, kill -9 of the leader):
\*  (P1) the survivors never report two leaders at one observation
\*  (P2) a lock that was acknowledged by a quorum is still held on the leader that emerges
StepPBegin(mm, e) == [M0 EXCEPT !.nv = mm.nv, !.nd = mm.nd, !.agn = mm.agn, !.nref = mm.nref, !.nveto = mm.nveto, !.nwin = mm.nwin, !.nheard = mm.nheard, !.tr = e.idx, !.name = e.name, !.n = e.n]

StepPObs(mm, e) == Check(mm, Len(e.leaders) <= 1, "two-leaders-after-leader-crash", [leaders |-> e.leaders, t |-> e.t])

StepPProbe(mm, e) ==
    IF e.key \in mm.packed /\ e.res = 0
    THEN LET \* only to name the cause: the elected node's log is older than a survivor's, but newer in the offset-major order
             behind == \E o \in DOMAIN mm.ppos : /\ o # e.node /\ e.node \in DOMAIN mm.ppos
                                                    /\ Newer(mm.ppos[o], mm.ppos[e.node]) /\ CmpPos(mm.ppos[e.node], mm.ppos[o], TRUE) >= 0
         IN Report(mm, "acked-lock-lost-after-leader-crash",
                   [key |-> e.key, leader |-> e.node, cause |-> IF behind THEN "offset-before-index" ELSE "other", positions |-> mm.ppos])
    ELSE mm

Step(mm, e) ==
    LET m0 == IF e.e = "begin" THEN StepBegin(mm, e)
              ELSE IF e.e = "pbegin" THEN StepPBegin(mm, e)
              ELSE CheckExp(CheckAcc(mm, e), e) IN
    CASE e.e = "start"   -> StepStart(m0, e)
      [] e.e = "packed"  -> [m0 EXCEPT !.packed = @ \cup {e.key}]
      [] e.e = "ppos"    -> [m0 EXCEPT !.ppos = SetFn(@, e.node, e.aof)]
      [] e.e = "pobs"    -> StepPObs(m0, e)
      [] e.e = "pprobe"  -> StepPProbe(m0, e)
      [] e.e = "dreq"    -> StepDreq(m0, e)
      [] e.e = "drsp"    -> StepDrsp(m0, e)
      [] e.e = "pend"    -> StepPend(m0, e)
      [] e.e = "restart" -> StepRestart(m0, e)
      [] e.e = "diverge" -> StepDiverge(m0, e)
      [] OTHER           -> m0

Init == l = 1 /\ m = M0

Next == /\ l <= Len(Trace)
        /\ m' = Step(m, Trace[l])
        /\ l' = l + 1
        /\ (l = Len(Trace) => PrintT("MONSTAT " \o ToJson([viol |-> m'.nv, diverge |-> m'.nd, agnostic |-> m'.agn, refusal_rounds |-> m'.nref,
                                                                  refusal_with_accept_majority |-> m'.nveto, wins_judged |-> m'.nwin, wins_all_data_heard |-> m'.nheard])))

Spec == Init /\ [][Next]_vars

NoViolation == m.nv = 0

TraceConsumed == TLCGet("stats").diameter - 1 = Len(Trace)
=============================================================================

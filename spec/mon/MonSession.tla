----------------------------- MODULE MonSession -----------------------------
(***************************************************************************)
(* Property monitor for C18 (disconnect semantics), a trace specification  *)
(* over what engine W observes of the REAL server:                         *)
(*   wconn / winit / wreq        what the clients sent                     *)
(*   wframe / wtext              every reply frame read on every pipe      *)
(*   wclose / wclosed / wclosehung / wcrash   the disconnect itself        *)
(*   snap                        lock table + clients / sessions / streams *)
(*                               tables at quiescent points                *)
(* It contains no model of the connection code.  It knows only             *)
(*   - who sent which request and which id each connection announced,      *)
(*   - the meaning of LOCK / UNLOCK on a key that ONE connection uses alone *)
(*     (free key -> hold of depth 1, same LockId and depth <= Rcount ->    *)
(*     depth + 1, unlock with Rcount > 0 -> depth - 1, else released),     *)
(*     which is what C01/C02 state; on shared keys it is agnostic.         *)
(* Clauses (statement of C18):                                             *)
(*   W1 wills: each exactly once, in registration order, never before the  *)
(*      disconnect   (effect on private keys between the snapshot taken    *)
(*      right before the disconnect and the first one after it; reply      *)
(*      frames of wills seen on a same-id successor)                       *)
(*   W2 queued requests still end, nothing leaks (waiters past their       *)
(*      deadline; after the drain: no key, no waiter, no timer entry, no   *)
(*      clients / sessions entry of an ended connection); the disconnect   *)
(*      itself ends; the server survives it                                *)
(*   W3 holds stay valid until unlocked or expired; more precisely, what a  *)
(*      connection leaves behind (holds, queued requests) changes only by  *)
(*      an unlock / expiry / grant / timeout of THAT request, whatever     *)
(*      traffic other connections produce afterwards: same key, LockId,    *)
(*      depth, deadline, RequestId and terms in every later snapshot; an   *)
(*      unlock by its LockId from another connection is accepted, once; no *)
(*      lock is granted over it before its deadline; it is gone after its  *)
(*      deadline; no command object is shared by two live lock records or  *)
(*      sits in a free pool (the server recycles them per connection)      *)
(*   W4 replies go to the requester, or after its end to a connection that *)
(*      announced the same id - never to another one; with such a          *)
(*      successor in place they are delivered, not lost                    *)
(* Violations are printed as  "VIOL {json}"  and counted (see MonLock).    *)
(***************************************************************************)
EXTENDS Integers, Sequences, FiniteSets, TLC, Json, SequencesExt, FiniteSetsExt

CONSTANTS TraceFile, Props

Trace == ndJsonDeserialize(TraceFile)

VARIABLES l, m
vars == <<l, m>>

EXPRIED == 9
EmptyFn == [x \in {} |-> 0]
SetFn(f, k, v) == [x \in (DOMAIN f) \cup {k} |-> IF x = k THEN v ELSE f[x]]
Has(e, f) == f \in DOMAIN e

Report(mm, code, detail) ==
    IF "C18" \in Props
    THEN IF PrintT("VIOL " \o ToJson([prop |-> "C18", code |-> code, line |-> l, trace |-> mm.tr, name |-> mm.name,
                                      t |-> mm.t, detail |-> detail]))
         THEN [mm EXCEPT !.nv = @ + 1] ELSE mm
    ELSE mm

Check(mm, cond, code, detail) == IF cond THEN mm ELSE Report(mm, code, detail)

\* Reply correlation on the real protocol objects - a clause family shared by C03 ("exactly one terminal reply per
\* request, to the right client") and C18: reported once for each of the two properties that is active.
\*   R1 a reply answers THE command it is read for: binary - RequestId, command type, key and LockId of the request;
\*      text - the i-th reply answers the i-th command, carries its LockId, and is not a notice (EXPRIED)
\*   R2 at most one terminal reply per request; every request of a connection that stays open is answered
\*   R3 asynchronous notices go to the connection that issued the request they end, and only for a request that
\*      was granted; a text connection never reads an unsolicited or stale reply
\*   R4 the connection keeps answering: a wait for a reply / for Close() that never ends (watchdog of the driver)
ReportP(mm, p, code, detail) ==
    IF PrintT("VIOL " \o ToJson([prop |-> p, code |-> code, line |-> l, trace |-> mm.tr, name |-> mm.name, t |-> mm.t, detail |-> detail]))
    THEN [mm EXCEPT !.nv = @ + 1] ELSE mm
Corr(mm, code, detail) == FoldLeft(LAMBDA acc, p : ReportP(acc, p, code, detail), mm, SetToSeq(Props \cap {"C03", "C18"}))
CorrCheck(mm, cond, code, detail) == IF cond THEN mm ELSE Corr(mm, code, detail)

M0 == [ conns |-> EmptyFn, reqs |-> EmptyFn, users |-> EmptyFn, textq |-> EmptyFn,
        holds |-> {}, maybe |-> {}, last |-> [keys |-> <<>>, t |-> 0], drained |-> FALSE, crashed |-> FALSE,
        lastc |-> 0,      \* the connection whose Close() was started or resumed last
        \* what a connection left behind when it ended (from the snapshot right before its disconnect):
        \* holds and queued requests of its own plain LOCK requests, with every field the lock table shows
        lefth |-> {}, leftw |-> {},
        touched |-> {},   \* <<key, lid>> of left-behind state that some later request named (unlock, re-lock, ...)
        unl |-> EmptyFn,  \* <<key, lid>> of a left-behind hold -> accepted unlocks seen
        nv |-> 0, t |-> 0, tr |-> 0, name |-> "" ]

-----------------------------------------------------------------------------
\* the meaning of LOCK / UNLOCK on a key used by one connection only (exclusive key, Count = 0)

Free == [lid |-> 0, depth |-> 0]

ApplyReq(S, r) ==
    IF r.cmd = "L"
    THEN IF S.depth = 0 THEN [lid |-> r.lid, depth |-> 1]
         ELSE IF S.lid = r.lid /\ S.depth <= r.rc THEN [S EXCEPT !.depth = @ + 1]
         ELSE S
    ELSE IF S.depth > 0 /\ S.lid = r.lid
         THEN (IF S.depth > 1 /\ r.rc > 0 THEN [S EXCEPT !.depth = @ - 1] ELSE Free)
         ELSE S

Fold(rs, S) == FoldLeft(LAMBDA acc, r : ApplyReq(acc, r), S, rs)

KeyRecs(snap, k) == SelectSeq(snap.keys, LAMBDA ks : ks.db = 0 /\ ks.key = k)

\* [lid, depth] of the key in a snapshot; depth = -1 when the key is not in the simple shape
HolderOf(snap, k) ==
    LET R == KeyRecs(snap, k) IN
    IF Len(R) = 0 THEN Free
    ELSE IF Len(R) > 1 \/ Len(R[1].waiters) > 0 \/ Len(R[1].holders) > 1 THEN [lid |-> 0, depth |-> -1]
    ELSE IF Len(R[1].holders) = 0 THEN Free
    ELSE [lid |-> R[1].holders[1].lid, depth |-> R[1].holders[1].depth]

ExpOf(snap, k) ==
    LET R == KeyRecs(snap, k) IN
    IF Len(R) = 1 /\ Len(R[1].holders) = 1 THEN R[1].holders[1].exp ELSE 2000000000

-----------------------------------------------------------------------------
StepBegin(mm, e) == [M0 EXCEPT !.nv = mm.nv, !.tr = e.idx, !.name = e.name, !.t = e.t]

StepConn(mm, e) ==
    [mm EXCEPT !.t = e.t,
               !.conns = SetFn(@, e.c, [kind |-> e.kind, cid |-> -1, initl |-> 0, st |-> "open", closel |-> 0, closet |-> 0,
                                        wills |-> <<>>, pre |-> [keys |-> <<>>, t |-> 0], judged |-> FALSE, hung |-> FALSE]),
               !.textq = SetFn(@, e.c, <<>>)]

StepInit(mm, e) ==
    IF e.res = 0 THEN [mm EXCEPT !.t = e.t, !.conns[e.c].cid = e.cid, !.conns[e.c].initl = l] ELSE [mm EXCEPT !.t = e.t]

StepReq(mm, e) ==
    \* db: 0 is the database every key of these histories lives in; a request with another DbId (a database that
    \* was never created, or 0xff) can only end in UNKNOWN_DB and touches no key: it counts as a user of none
    LET db == IF Has(e, "db") THEN e.db ELSE 0
        r  == [id |-> e.id, c |-> e.c, kind |-> e.kind, cmd |-> e.cmd, will |-> e.will, key |-> e.key, lid |-> e.lid,
               to |-> e.to, ex |-> e.ex, rc |-> e.rc, cnt |-> e.cnt, t |-> e.t, nterm |-> 0, db |-> db, granted |-> FALSE,
               \* an unlock by the LockId of an intact left-behind hold, before its deadline, has to be accepted
               must0 |-> /\ e.cmd = "U" /\ ~e.will /\ db = 0 /\ ~mm.drained
                         /\ \E x \in mm.lefth : /\ x.key = e.key /\ x.lid = e.lid /\ mm.conns[x.c].st = "closed"
                                                /\ <<x.key, x.lid>> \notin mm.touched \cup mm.maybe /\ e.t + 1 < x.exp]
        u  == IF e.key \in DOMAIN mm.users THEN mm.users[e.key] ELSE {}
        m1 == [mm EXCEPT !.t = e.t, !.reqs = SetFn(@, e.id, r), !.users = SetFn(@, e.key, IF db = 0 THEN u \cup {e.c} ELSE u),
                         !.conns[e.c].wills = IF e.will THEN Append(@, e.id) ELSE @,
                         !.textq[e.c] = IF e.kind = "text" THEN Append(@, e.id) ELSE @,
                         \* an unlock that was sent (or willed) may release the hold without us seeing the reply
                         !.maybe = IF e.cmd = "U" /\ db = 0 THEN @ \cup {<<e.key, e.lid>>} ELSE @,
                         !.touched = IF db = 0 /\ \E x \in mm.lefth \cup mm.leftw : x.key = e.key /\ x.lid = e.lid
                                     THEN @ \cup {<<e.key, e.lid>>} ELSE @]
    IN m1

\* a reply for request id was read on connection c
Account(mm, id, c, res, ct, e) ==
    LET r  == mm.reqs[id]
        o  == r.c
        O  == mm.conns[o]
        C  == mm.conns[c]
        legit == \/ c = o
                 \/ /\ O.cid # -1 /\ C.cid = O.cid /\ O.st # "open"
        m1 == Check(mm, legit, "reply-misrouted",
                    [origin |-> o, origin_kind |-> O.kind, origin_cid |-> O.cid, origin_state |-> O.st, to |-> c, to_cid |-> C.cid,
                     rid |-> id, res |-> res, will |-> r.will,
                     via |-> IF O.cid = -1 /\ C.cid = 0 THEN "all-zero-client-id" ELSE "other"])
        m2 == Check(m1, ~(r.will /\ O.st = "open"), "will-executed-before-disconnect",
                    [c |-> o, kind |-> O.kind, rid |-> id, evidence |-> "reply frame for a will while its connection is open"])
        m3 == Check(m2, ~(r.will /\ res # EXPRIED /\ r.nterm >= 1), "will-executed-twice",
                    [c |-> o, kind |-> O.kind, rid |-> id, evidence |-> "second terminal reply for a will"])
        \* a will that cannot queue (UNLOCK, or LOCK with Timeout 0) is answered while it is executed, i.e. before any
        \* will registered after it is executed: a later will answered first means they ran out of order
        Later == {w \in Range(O.wills) : /\ mm.reqs[w].nterm >= 1
                                         /\ \E i, j \in 1..Len(O.wills) : O.wills[i] = id /\ O.wills[j] = w /\ i < j}
        m4 == Check(m3, ~(r.will /\ (r.cmd = "U" \/ r.to = 0) /\ res # EXPRIED /\ r.nterm = 0 /\ Later # {}), "wills-executed-out-of-order",
                    [c |-> o, kind |-> O.kind, rid |-> id, overtaken_by |-> SetToSeq(Later), evidence |-> "order of the will replies on the successor"])
        hold == [key |-> r.key, lid |-> r.lid, c |-> o, t |-> e.t, ex |-> r.ex, rid |-> id]
        c1 == CorrCheck(m4, legit, "reply-delivered-to-wrong-connection",
                        [origin |-> o, to |-> c, rid |-> id, res |-> res, origin_kind |-> O.kind, origin_state |-> O.st])
        c2 == CorrCheck(c1, ~(res # EXPRIED /\ r.nterm >= 1), "request-answered-twice", [c |-> o, kind |-> O.kind, rid |-> id, res |-> res, will |-> r.will])
        c3 == CorrCheck(c2, ~(res = EXPRIED /\ c = o /\ O.st = "open" /\ (r.cmd = "U" \/ ~r.granted)), "notice-for-a-request-that-holds-nothing",
                        [c |-> o, kind |-> O.kind, rid |-> id, cmd |-> r.cmd])
        \* left-behind holds: unlock by the original LockId is accepted (once per depth); nothing is granted over them
        m5 == Check(c3, ~(r.must0 /\ res # 0 /\ r.nterm = 0), "left-behind-hold-not-unlockable",
                    [key |-> r.key, lid |-> r.lid, res |-> res, by |-> o])
        Mine == {x \in mm.lefth : x.key = r.key /\ x.lid = r.lid}
        kl == <<r.key, r.lid>>
        nunl == (IF kl \in DOMAIN mm.unl THEN mm.unl[kl] ELSE 0) + 1
        isunl == r.cmd = "U" /\ res = 0 /\ r.db = 0 /\ Mine # {}
        m6 == Check(m5, ~(isunl /\ \A x \in Mine : nunl > x.depth), "left-behind-hold-unlocked-twice",
                    [key |-> r.key, lid |-> r.lid, accepted |-> nunl])
        Over == {x \in mm.lefth : /\ x.key = r.key /\ x.lid # r.lid /\ mm.conns[x.c].st # "open" /\ ~mm.drained
                                  /\ <<x.key, x.lid>> \notin mm.touched \cup mm.maybe /\ e.t + 1 < x.exp}
        m7 == Check(m6, ~(r.cmd = "L" /\ res = 0 /\ r.db = 0 /\ r.cnt = 0 /\ Over # {}), "lock-granted-over-left-behind-hold",
                    [key |-> r.key, lid |-> r.lid, rid |-> id, over |-> SetToSeq(Over)])
    IN [m7 EXCEPT !.unl = IF isunl THEN SetFn(@, kl, nunl) ELSE @,
                  !.reqs[id].granted = @ \/ (r.cmd = "L" /\ res = 0),
                  !.reqs[id].nterm = IF res # EXPRIED THEN @ + 1 ELSE @,
                  !.holds = IF r.cmd = "L" /\ res = 0 /\ r.ex > 0 /\ r.db = 0 THEN @ \cup {hold} ELSE @,
                  !.maybe = IF res = EXPRIED THEN @ \cup {<<r.key, r.lid>>} ELSE @]

StepFrame(mm0, e) ==
    LET mm == [mm0 EXCEPT !.t = e.t]
        \* requests of text connections get their RequestId from the server: a frame with an unknown id is matched by
        \* command type, key and LockId (a plain request before a will when both fit)
        byKey == {id \in DOMAIN mm.reqs : /\ mm.reqs[id].kind = "text" /\ mm.reqs[id].key = e.key /\ mm.reqs[id].lid = e.lid
                                          /\ mm.reqs[id].cmd = (IF e.ct = 2 THEN "U" ELSE "L")}
        plain == {id \in byKey : ~mm.reqs[id].will}
        id == IF e.rid \in DOMAIN mm.reqs THEN e.rid
              ELSE IF plain # {} THEN Max(plain)
              ELSE IF byKey # {} THEN Max(byKey) ELSE -1
    IN IF id = -1
       THEN Corr(Report(mm, "reply-misrouted", [origin |-> -1, origin_kind |-> "unknown", to |-> e.c, rid |-> e.rid, res |-> e.res,
                                                 key |-> e.key, lid |-> e.lid, via |-> "unknown request id"]),
                 "reply-for-unknown-request", [to |-> e.c, rid |-> e.rid, res |-> e.res, key |-> e.key, lid |-> e.lid])
       ELSE LET r == mm.reqs[id]
                \* R1 (binary): the frame bearing a RequestId is the reply to that request - its command type, key, LockId
                same == e.rid # id \/ (e.key = r.key /\ e.lid = r.lid /\ ((e.ct = 2) <=> (r.cmd = "U")))
            IN Account(CorrCheck(mm, same, "reply-answers-another-request",
                                 [c |-> e.c, kind |-> "bin", rid |-> id, sent |-> [cmd |-> r.cmd, key |-> r.key, lid |-> r.lid],
                                  got |-> [ct |-> e.ct, key |-> e.key, lid |-> e.lid, res |-> e.res]]),
                       id, e.c, e.res, e.ct, e)

StepText(mm0, e) ==
    LET mm == [mm0 EXCEPT !.t = e.t]
        q  == mm.textq[e.c]
    IN IF q = <<>>
       THEN Corr(Report(mm, "reply-misrouted", [origin |-> -1, origin_kind |-> "unknown", to |-> e.c, rid |-> -1, res |-> e.res,
                                                 lid |-> e.lid, via |-> "unsolicited reply on a text connection"]),
                 "unsolicited-reply-on-text-connection", [c |-> e.c, res |-> e.res, lid |-> e.lid, shape |-> e.shape])
       ELSE IF Head(q) = 0 THEN [mm EXCEPT !.textq[e.c] = Tail(q)]
       ELSE LET id == Head(q)
                r  == mm.reqs[id]
                m1 == [mm EXCEPT !.textq[e.c] = Tail(q)]
            IN IF e.shape = "arr" /\ e.res >= 0
               THEN LET m2 == Check(m1, e.lid = r.lid \/ e.res # 0, "reply-misrouted",
                                    [origin |-> -1, origin_kind |-> "text", to |-> e.c, rid |-> id, res |-> e.res, lid |-> e.lid,
                                     via |-> "text reply carries the LockId of another request"])
                        \* R1 (text): the i-th reply answers the i-th command: its LockId, a terminal result (never the EXPRIED
                        \* notice of an older hold), and a lock result only for a command that is executed now (not a will)
                        m3 == CorrCheck(m2, e.lid = r.lid /\ e.res # EXPRIED /\ ~r.will, "reply-answers-another-request",
                                        [c |-> e.c, kind |-> "text", rid |-> id, seq |-> e.seq, sent |-> [cmd |-> r.cmd, key |-> r.key, lid |-> r.lid, will |-> r.will],
                                         got |-> [lid |-> e.lid, res |-> e.res]])
                    IN Account(m3, id, e.c, e.res, 0, e)
               ELSE m1          \* +OK of a will registration, or an -ERR line

\* what the connection leaves behind, read from the snapshot right before the disconnect: holders / waiters of its own
\* plain LOCK requests that nobody asked to unlock and that no will names
Own(mm, c, key, lid) ==
    /\ \E id \in DOMAIN mm.reqs : LET r == mm.reqs[id] IN r.c = c /\ r.cmd = "L" /\ ~r.will /\ r.db = 0 /\ r.key = key /\ r.lid = lid
    /\ ~\E id \in DOMAIN mm.reqs : LET r == mm.reqs[id] IN r.will /\ r.key = key /\ r.lid = lid
    /\ <<key, lid>> \notin mm.maybe
Db0Keys(snap) == {ks \in Range(snap.keys) : ks.db = 0}
LeftH(mm, c) == UNION {{[c |-> c, key |-> ks.key, lid |-> hd.lid, depth |-> hd.depth, exp |-> hd.exp, rid |-> hd.rid, ex |-> hd.ex, rc |-> hd.rc] :
                          hd \in {h \in Range(ks.holders) : Own(mm, c, ks.key, h.lid)}} : ks \in Db0Keys(mm.last)}
ExOf(mm, c, key, lid) == LET I == {id \in DOMAIN mm.reqs : mm.reqs[id].c = c /\ mm.reqs[id].cmd = "L" /\ ~mm.reqs[id].will /\ mm.reqs[id].db = 0
                                                             /\ mm.reqs[id].key = key /\ mm.reqs[id].lid = lid}
                          IN IF I = {} THEN 0 ELSE mm.reqs[Max(I)].ex
\* seen: when the lock table last showed it queued; ex: the expiry it asked for (if it is granted at g >= seen, the hold is
\* visible until g + ex >= seen + ex)
LeftW(mm, c) == UNION {{[c |-> c, key |-> ks.key, lid |-> w.lid, rid |-> w.rid, tot |-> w.tot, seen |-> mm.last.t, ex |-> ExOf(mm, c, ks.key, w.lid)] :
                          w \in {x \in Range(ks.waiters) : Own(mm, c, ks.key, x.lid)}} : ks \in Db0Keys(mm.last)}

\* the snapshot right before the disconnect is the baseline of the will-effect clause
\* (a will is executed at the disconnect, or later when the driver parked it: its timeout counts from there)
StepClose(mm, e) ==
    [mm EXCEPT !.t = e.t, !.conns[e.c].st = "closing", !.conns[e.c].closel = l, !.conns[e.c].closet = e.t,
               !.conns[e.c].pre = mm.last, !.lastc = e.c,
               !.lefth = @ \cup LeftH(mm, e.c), !.leftw = @ \cup LeftW(mm, e.c),
               !.reqs = [id \in DOMAIN mm.reqs |-> IF mm.reqs[id].will /\ mm.reqs[id].c = e.c THEN [mm.reqs[id] EXCEPT !.t = e.t] ELSE mm.reqs[id]]]

StepResume(mm, e) ==
    [mm EXCEPT !.t = e.t, !.lastc = e.c,
               !.reqs = [id \in DOMAIN mm.reqs |-> IF mm.reqs[id].will /\ mm.reqs[id].c = e.c /\ id >= e.id THEN [mm.reqs[id] EXCEPT !.t = e.t] ELSE mm.reqs[id]]]

StepClosed(mm, e) == [mm EXCEPT !.t = e.t, !.conns[e.c].st = "closed"]

StepHung(mm, e) ==
    LET C == mm.conns[e.c] IN
    Report([mm EXCEPT !.t = e.t, !.conns[e.c].hung = TRUE], "disconnect-never-finished",
           [c |-> e.c, kind |-> C.kind, wills |-> Len(C.wills), inited |-> C.cid # -1])

\* R4: the driver's watchdog gave up waiting for the code under test (the checker reports it only if the same history
\* hangs again when it is run alone in a fresh process)
StepHang2(mm, e) ==
    LET C == IF e.conn \in DOMAIN mm.conns THEN mm.conns[e.conn] ELSE [kind |-> "none", wills |-> <<>>]
    IN Corr([mm EXCEPT !.crashed = TRUE], IF Has(e, "kind") /\ e.kind = "close" THEN "close-never-returned" ELSE "connection-hung",
            [what |-> e.what, blocked_in |-> e.frame, state |-> e.state, blocked |-> e.blocked, step |-> e.step, conn |-> e.conn,
             kind |-> C.kind, deadline_s |-> e.deadline_s])

\* appended by the checker when the harness process died inside a scenario
StepCrash(mm, e) ==
    LET c == IF mm.lastc \in DOMAIN mm.conns /\ mm.conns[mm.lastc].st = "closing" THEN mm.lastc ELSE 0
        C == IF c = 0 THEN [kind |-> "none", cid |-> -1, wills |-> <<>>] ELSE mm.conns[c]
        Peers == {x \in DOMAIN mm.conns : x # c /\ C.cid # -1 /\ mm.conns[x].cid = C.cid /\ mm.conns[x].st = "open"}
    IN Report([mm EXCEPT !.crashed = TRUE], "server-crashed-on-disconnect",
              [fatal |-> e.fatal, in |-> e.frame, c |-> c, kind |-> C.kind, inited |-> C.cid # -1, wills |-> Len(C.wills),
               same_id_peer_open |-> Peers # {}])

-----------------------------------------------------------------------------
\* W4, second half: with a same-id successor in place the reply is delivered, not lost.
\* Judged when the driver is about to close the remaining connections (all deadlines have passed).
Successor(mm, o) ==
    LET O == mm.conns[o] IN
    \* (the all-zero id counts as "no id" for re-routing since 9dea0f2: agnostic there)
    {x \in DOMAIN mm.conns : /\ x # o /\ O.cid # -1 /\ O.cid # 0 /\ mm.conns[x].cid = O.cid /\ mm.conns[x].st = "open"
                             /\ mm.conns[x].initl > O.initl /\ mm.conns[x].initl < O.closel
                             /\ \A y \in DOMAIN mm.conns : mm.conns[y].cid = O.cid => mm.conns[y].initl <= mm.conns[x].initl}

StepCloseAll(mm0, e) ==
    LET mm == [mm0 EXCEPT !.t = e.t]
        Lost == {id \in DOMAIN mm.reqs :
                    LET r == mm.reqs[id]  O == mm.conns[r.c] IN
                    /\ O.kind = "bin" /\ O.st = "closed" /\ r.nterm = 0
                    /\ Successor(mm, r.c) # {}
                    /\ r.t + r.to + 3 < e.t}
        \* R2: every request of a connection that is still open is answered by now (all deadlines have passed)
        Silent == {id \in DOMAIN mm.reqs :
                      LET r == mm.reqs[id] IN
                      /\ r.kind = "bin" /\ ~r.will /\ mm.conns[r.c].st = "open" /\ r.nterm = 0 /\ r.t + r.to + 3 < e.t}
        Owing == {c \in DOMAIN mm.conns : mm.conns[c].kind = "text" /\ mm.conns[c].st = "open" /\ mm.textq[c] # <<>>}
        n1 == CorrCheck(mm, Silent = {}, "request-never-answered", [kind |-> "bin", rids |-> SetToSeq(Silent)])
        n2 == CorrCheck(n1, Owing = {}, "request-never-answered", [kind |-> "text", conns |-> SetToSeq(Owing),
                                                                   waiting |-> [i \in 1..Cardinality(Owing) |-> mm.textq[SetToSeq(Owing)[i]]]])
    IN IF mm.crashed THEN mm
       ELSE Check(n2, Lost = {}, "reply-lost-despite-reconnect",
                  [rids |-> SetToSeq(Lost), wills |-> SetToSeq({id \in Lost : mm.reqs[id].will}),
                   origins |-> SetToSeq({mm.reqs[id].c : id \in Lost})])

-----------------------------------------------------------------------------
\* snapshots

WillRecs(mm, c, k) == SelectSeq([i \in 1..Len(mm.conns[c].wills) |-> mm.reqs[mm.conns[c].wills[i]]], LAMBDA r : r.key = k /\ r.db = 0)

\* W1 on the keys only this connection uses
JudgeWills(mm, c, e) ==
    LET C  == mm.conns[c]
        \* per will, whatever the other wills of the list returned: every key is judged on its own
        K  == {k \in {mm.reqs[w].key : w \in {x \in Range(C.wills) : mm.reqs[x].db = 0}} : mm.users[k] = {c}}
        Bad(k) ==
            LET ws  == WillRecs(mm, c, k)
                B   == HolderOf(C.pre, k)
                X   == HolderOf(e, k)
                exp == Fold(ws, B)
                simple == /\ B.depth >= 0 /\ X.depth >= 0
                          /\ \A i \in 1..Len(ws) : ws[i].to = 0 /\ (ws[i].cmd = "L" => ws[i].ex > 0 /\ C.closet + ws[i].ex > e.t + 1)
                          /\ ExpOf(C.pre, k) > e.t + 1
            IN simple /\ X # exp
        Code(k) ==
            LET ws  == WillRecs(mm, c, k)
                B   == HolderOf(C.pre, k)
                X   == HolderOf(e, k)
                exp == Fold(ws, B)
            IN IF X = B THEN "will-never-executed"
               ELSE IF X = Fold(ws \o ws, B) THEN "will-executed-twice"
               ELSE IF X = Fold(Reverse(ws), B) THEN "wills-executed-out-of-order"
               ELSE "will-effect-wrong"
        BadK == {k \in K : Bad(k)}
        rep(acc, k) == Report(acc, Code(k), [c |-> c, kind |-> C.kind, inited |-> C.cid # -1, key |-> k,
                                              wills |-> [i \in 1..Len(WillRecs(mm, c, k)) |-> WillRecs(mm, c, k)[i].id],
                                              before |-> HolderOf(C.pre, k), expected |-> Fold(WillRecs(mm, c, k), HolderOf(C.pre, k)),
                                              found |-> HolderOf(e, k)])
    IN [FoldLeft(rep, mm, SetToSeq(BadK)) EXCEPT !.conns[c].judged = TRUE]

StepSnap(mm0, e) ==
    LET mm == [mm0 EXCEPT !.t = e.t, !.last = [keys |-> e.keys, t |-> e.t]]
        \* W2: a queued request does not outlive its timeout (ended connections included)
        LateW == {x \in UNION {{[key |-> ks.key, lid |-> w.lid, rid |-> w.rid, tot |-> w.tot] : w \in Range(ks.waiters)} : ks \in Range(e.keys)} :
                     x.tot + 3 < e.t}
        m1 == Check(mm, LateW = {}, "queued-request-outlived-its-timeout", [waiters |-> SetToSeq(LateW), now |-> e.t])
        \* W3: holds of ended connections stay until unlocked or expired
        Present(h) == \E ks \in Range(e.keys) : ks.key = h.key /\ \E hd \in Range(ks.holders) : hd.lid = h.lid
        LostH == {h \in mm.holds : /\ mm.conns[h.c].st # "open" /\ ~mm.drained
                                   /\ <<h.key, h.lid>> \notin mm.maybe
                                   /\ e.t + 1 < h.t + h.ex
                                   /\ ~Present(h)}
        m2 == Check(m1, LostH = {}, "hold-lost-on-disconnect", [holds |-> SetToSeq(LostH), now |-> e.t])
        \* W1: first snapshot after the end of a disconnect
        ToJudge == {c \in DOMAIN mm.conns : mm.conns[c].st = "closed" /\ ~mm.conns[c].judged /\ mm.conns[c].wills # <<>>}
        m3 == IF mm.drained \/ mm.crashed THEN m2 ELSE FoldLeft(LAMBDA acc, c : JudgeWills(acc, c, e), m2, SetToSeq(ToJudge))
        \* W1: never before the disconnect (effect of a will-lock whose LockId nothing else uses)
        Early == {w \in DOMAIN mm.reqs :
                    LET r == mm.reqs[w] IN
                    /\ r.will /\ r.cmd = "L" /\ r.db = 0 /\ mm.conns[r.c].st = "open"
                    /\ \A x \in DOMAIN mm.reqs : (x # w /\ mm.reqs[x].key = r.key /\ mm.reqs[x].lid = r.lid) => mm.reqs[x].will /\ mm.reqs[x].c = r.c
                    /\ \E ks \in Range(e.keys) : ks.key = r.key /\ \E hd \in Range(ks.holders) : hd.lid = r.lid}
        m4a == Check(m3, Early = {}, "will-executed-before-disconnect",
                    [rids |-> SetToSeq(Early), evidence |-> "hold of a will-lock present while its connection is open"])
        \* W3: left-behind state changes only by unlock / expiry / grant / timeout of THAT request
        Intact(x) == <<x.key, x.lid>> \notin mm.touched \cup mm.maybe /\ ~mm.drained /\ ~mm.crashed /\ mm.conns[x.c].st # "open"
        HoldersOf(key) == UNION {Range(ks.holders) : ks \in {y \in Db0Keys(e) : y.key = key}}
        WaitersOf(key) == UNION {Range(ks.waiters) : ks \in {y \in Db0Keys(e) : y.key = key}}
        Same(x, hd) == hd.lid = x.lid /\ hd.depth = x.depth /\ hd.exp = x.exp /\ hd.rid = x.rid /\ hd.ex = x.ex /\ hd.rc = x.rc
        ChangedH == {x \in mm.lefth : Intact(x) /\ e.t + 1 < x.exp /\ ~\E hd \in HoldersOf(x.key) : Same(x, hd)}
        OutlivedH == {x \in mm.lefth : Intact(x) /\ x.exp + 3 < e.t /\ \E hd \in HoldersOf(x.key) : hd.lid = x.lid /\ hd.exp = x.exp}
        Granted == {x \in mm.leftw : Intact(x) /\ \E hd \in HoldersOf(x.key) : hd.lid = x.lid}
        StillW == {x \in mm.leftw : \E w \in WaitersOf(x.key) : w.lid = x.lid /\ w.rid = x.rid /\ w.tot = x.tot}
        \* (between two snapshots it may have been granted and the hold may have expired again: only a disappearance that
        \* even the shortest such hold cannot explain counts)
        ChangedW == {x \in mm.leftw : /\ Intact(x) /\ e.t + 1 < x.tot /\ x \notin Granted /\ e.t + 1 < x.seen + x.ex
                                      /\ ~\E w \in WaitersOf(x.key) : w.lid = x.lid /\ w.rid = x.rid /\ w.tot = x.tot}
        Show(key) == [holders |-> SetToSeq({[lid |-> hd.lid, depth |-> hd.depth, exp |-> hd.exp, rid |-> hd.rid, ex |-> hd.ex] : hd \in HoldersOf(key)}),
                      waiters |-> SetToSeq({[lid |-> w.lid, rid |-> w.rid, tot |-> w.tot] : w \in WaitersOf(key)})]
        m4b == Check(m4a, ChangedH = {}, "left-behind-hold-changed",
                     [left |-> SetToSeq(ChangedH), now |-> e.t, found |-> [i \in 1..Cardinality(ChangedH) |-> Show(SetToSeq(ChangedH)[i].key)]])
        m4c == Check(m4b, OutlivedH = {}, "left-behind-hold-outlived-its-expiry", [left |-> SetToSeq(OutlivedH), now |-> e.t])
        m4d == Check(m4c, ChangedW = {}, "left-behind-request-changed",
                     [left |-> SetToSeq(ChangedW), now |-> e.t, found |-> [i \in 1..Cardinality(ChangedW) |-> Show(SetToSeq(ChangedW)[i].key)]])
        \* a left-behind request that was granted is a left-behind hold from now on (with the terms the table shows)
        NewH == UNION {{[c |-> x.c, key |-> x.key, lid |-> hd.lid, depth |-> hd.depth, exp |-> hd.exp, rid |-> hd.rid, ex |-> hd.ex, rc |-> hd.rc] :
                          hd \in {h \in HoldersOf(x.key) : h.lid = x.lid}} : x \in Granted}
        \* the recycled command objects: never shared by two live lock records, never in a free pool while referenced
        m4e == Check(m4d, ~(Has(e, "dupcmd") /\ ~mm.crashed /\ (e.dupcmd > 0 \/ e.pooled > 0)), "command-object-shared",
                     [shared_by_live_locks |-> IF Has(e, "dupcmd") THEN e.dupcmd ELSE 0, live_and_in_a_free_pool |-> IF Has(e, "pooled") THEN e.pooled ELSE 0, now |-> e.t])
        m4 == [m4e EXCEPT !.lefth = @ \cup NewH,
                          !.leftw = {IF x \in StillW THEN [x EXCEPT !.seen = e.t] ELSE x : x \in (@ \ Granted)}]
        \* W2: after the drain nothing is left
        AllEnded == \A c \in DOMAIN mm.conns : mm.conns[c].st = "closed"
        Ended(c) == c \in DOMAIN mm.conns /\ mm.conns[c].st = "closed"
        St == IF "0" \in DOMAIN e.st THEN e.st["0"] ELSE [wait |-> 0, locked |-> 0]
        clean == e.nkeys = 0 /\ Len(e.keys) = 0 /\ e.tw = 0 /\ e.ew = 0 /\ St.wait = 0 /\ St.locked = 0
        LeakCl == {x \in Range(e.clients) : Ended(x.c) \/ x.c = -1}
        LeakSe == {c \in Range(e.sessions) : Ended(c)}
        LeakSt == {c \in Range(e.streams) : Ended(c)}
        m5 == IF Has(e, "final") /\ e.final /\ AllEnded /\ ~mm.crashed
              THEN LET a == Check(m4, clean, "state-leaked-after-disconnects",
                                  [live_keys |-> e.nkeys, timeout_entries |-> e.tw, expiry_entries |-> e.ew, wait |-> St.wait, locked |-> St.locked])
                       b == Check(a, LeakCl = {}, "clients-entry-of-ended-connection", [entries |-> SetToSeq(LeakCl)])
                       c == Check(b, LeakSe = {}, "session-of-ended-connection", [conns |-> SetToSeq(LeakSe)])
                       \* Server.removeStream never unlinks the LAST stream of the list (bounded, documented): more than one is a leak
                   IN Check(c, Cardinality(LeakSt) <= 1, "streams-of-ended-connections", [conns |-> SetToSeq(LeakSt)])
              ELSE m4
    IN m5

StepEnd(mm, e) ==
    LET Open == {c \in DOMAIN mm.conns : mm.conns[c].st = "closing" /\ ~mm.conns[c].hung}
    IN IF Has(e, "complete") /\ e.complete /\ ~mm.crashed
       THEN Check(mm, Open = {}, "disconnect-never-finished", [c |-> SetToSeq(Open), kind |-> "?", wills |-> 0, inited |-> FALSE])
       ELSE mm

Step(mm, e) ==
    CASE e.e = "begin"      -> StepBegin(mm, e)
      [] e.e = "wconn"      -> StepConn(mm, e)
      [] e.e = "winit"      -> StepInit(mm, e)
      [] e.e = "wreq"       -> StepReq(mm, e)
      [] e.e = "wsel"       -> [mm EXCEPT !.t = e.t, !.textq[e.c] = Append(@, 0)]     \* SELECT <db>: answered by one +OK line
      [] e.e = "wframe"     -> StepFrame(mm, e)
      [] e.e = "wtext"      -> StepText(mm, e)
      [] e.e = "wclose"     -> StepClose(mm, e)
      [] e.e = "wresume"    -> StepResume(mm, e)
      [] e.e = "wclosed"    -> StepClosed(mm, e)
      [] e.e = "wclosehung" -> StepHung(mm, e)
      [] e.e = "wcrash"     -> StepCrash(mm, e)
      [] e.e = "hang"       -> StepHang2(mm, e)
      [] e.e = "wcloseall"  -> StepCloseAll(mm, e)
      [] e.e = "wdrain"     -> [mm EXCEPT !.drained = TRUE]
      [] e.e = "snap"       -> StepSnap(mm, e)
      [] e.e = "end"        -> StepEnd(mm, e)
      [] OTHER              -> mm

Init == l = 1 /\ m = M0

Next == /\ l <= Len(Trace)
        /\ m' = Step(m, Trace[l])
        /\ l' = l + 1

Spec == Init /\ [][Next]_vars

NoViolation == m.nv = 0

TraceConsumed == TLCGet("stats").diameter - 1 = Len(Trace)
=============================================================================

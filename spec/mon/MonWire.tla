------------------------------- MODULE MonWire -------------------------------
(***************************************************************************)
(* Trace specification for property C14 "wire codecs are lossless and      *)
(* independent of framing".                                                *)
(*                                                                         *)
(* TLC reads the ndjson trace recorded from the REAL codecs                *)
(* (harness/inpkg/protocol/zz_verif_wire_test.go and                       *)
(* harness/inpkg/server/zz_verif_wire_test.go); the deterministic          *)
(* next-state relation consumes one event per step and judges it against   *)
(* spec/Wire.tla (binary layouts, value frames, key normalisation, text    *)
(* form of LOCK/UNLOCK, result rendering) and spec/RespParser.tla (the     *)
(* reference reading of a RESP byte stream).  Every violated clause is     *)
(* printed as a line   "VIOL {json}"   and counted in m.nv.                *)
(*                                                                         *)
(* The monitor demands only what the property statement says:              *)
(*   enc     Encode(v) has exactly the documented bytes; the real Decode   *)
(*           of it returns v                                               *)
(*   dec     for a frame that is the encoding of some value: the real      *)
(*           Decode returns the documented fields and re-encoding          *)
(*           reproduces every defined byte (undefined bytes: agnostic;     *)
(*           frames outside the value domain: agnostic, counted)           *)
(*   vframe  value frames with properties have the documented bytes and    *)
(*           read back to the same parts;  items: array / kv payloads      *)
(*   build   BuildRequest / BuildResponse produce the RESP encoding        *)
(*   obs     after the first k bytes of the stream, however they were      *)
(*           split, the parser has reported exactly the complete commands  *)
(*           that the reference reading finds in those k bytes, and at the *)
(*           end of the stream the original argument lists                 *)
(*   norm    keys / ids are normalised as documented                       *)
(*   text    a text LOCK/UNLOCK converts to the documented binary command  *)
(*   render  every result code has a text rendering with the result fields *)
(*   srvbin, srvtext  (server side) see below                              *)
(*   seq     sequences of requests on one connection (server side), below  *)
(*                                                                         *)
(* A mismatch of an `obs` event is additionally CLASSIFIED: if the         *)
(* implementation-shaped parser of RespParser.tla with the named deviation *)
(* A9 (resp. A19) switched on reproduces exactly the observed state from   *)
(* the recorded cuts, the violation carries cause "A9" ("A19"); otherwise  *)
(* cause "other".  Independently, every observation of a short stream is   *)
(* compared with the implementation-shaped parser as the code is today     *)
(* (both deviations on); a difference is printed as "REFDIV {json}" - a    *)
(* refinement divergence, never a verdict.                                 *)
(***************************************************************************)
EXTENDS Wire, Json

CONSTANTS TraceFile, Props

Trace == ndJsonDeserialize(TraceFile)

VARIABLES l, m
vars == <<l, m>>

\* the reference reading does not depend on the deviation switches; the three instances differ in Feed only
PCode == INSTANCE RespParser WITH A9Fixed <- TRUE, A19Fixed <- TRUE      \* the code as it is (after the fixes of A9 / A19)
PA9   == INSTANCE RespParser WITH A9Fixed <- FALSE, A19Fixed <- TRUE
PA19  == INSTANCE RespParser WITH A9Fixed <- TRUE,  A19Fixed <- FALSE
PGood == INSTANCE RespParser WITH A9Fixed <- TRUE,  A19Fixed <- TRUE

-----------------------------------------------------------------------------
Active(p) == p \in Props

Report(mm, code, detail) ==
    IF Active("C14")
    THEN IF PrintT("VIOL " \o ToJson([prop |-> "C14", code |-> code, line |-> l, detail |-> detail]))
         THEN [mm EXCEPT !.nv = @ + 1] ELSE mm
    ELSE mm

Check(mm, cond, code, detail) == IF cond THEN mm ELSE Report(mm, code, detail)

Note(tag, detail) == PrintT(tag \o " " \o ToJson([line |-> l, detail |-> detail]))

M0 == [nv |-> 0, bytes |-> <<>>, mode |-> "req", id |-> 0 - 1, expect |-> <<>>, raw |-> FALSE, agnostic |-> 0, judged |-> 0, prev |-> <<>>, keys |-> <<>>]

Has(e, f) == f \in DOMAIN e
Str(e, f) == IF Has(e, f) THEN e[f] ELSE ""

\* first few elements of a set of positions, as a sequence (for readable details)
Few(S) == LET q == SetToSortSeq(S, LAMBDA x, y : x < y) IN SubSeq(q, 1, Min2(8, Len(q)))

FieldsAt(t, S) == {f.name : f \in {g \in FieldsOf(t) : \E i \in S : Covers(g, i - 1)}}

DiffFields(t, a, b) == {n \in FieldNames(t) : ~(n \in DOMAIN a /\ n \in DOMAIN b /\ a[n] = b[n])}

-----------------------------------------------------------------------------
\* binary frames

StepEnc(mm, e) ==
    LET t == e.t
        ok == e.panic = "" /\ e.err = ""
        m1 == Check(mm, ok, "encode-failed", [t |-> t, id |-> e.id, err |-> e.err, panic |-> e.panic])
    IN IF ~ok THEN m1
       ELSE LET want == Encode(t, e.v)
                \* the statement fixes the DEFINED bytes; what Encode leaves in the padding is not judged (only noted)
                bad == DiffAt(e.b, want, Defined(t))
                stale == DiffAt(e.b, want, (1..FRAME) \ Defined(t))
                m1b == IF stale = {} THEN m1 ELSE IF Note("PADNOTE", [t |-> t, id |-> e.id, offsets |-> Few(stale)]) THEN m1 ELSE m1
                m2 == Check(m1b, Len(e.b) = FRAME /\ bad = {}, "encode-bytes-differ",
                            [t |-> t, id |-> e.id, offsets |-> [i \in 1..Len(Few(bad)) |-> Few(bad)[i] - 1],
                             fields |-> SetToSeq(FieldsAt(t, bad))])
                df == DiffFields(t, e.d, e.v)
            IN Check(m2, df = {}, "decode-of-encoding-differs", [t |-> t, id |-> e.id, fields |-> SetToSeq(df)])

StepDec(mm, e) ==
    LET t == e.t IN
    IF ~InDomain(t, e.b) THEN [mm EXCEPT !.agnostic = @ + 1]
    ELSE
    LET ok == e.panic = "" /\ e.err = ""
        m1 == Check(mm, ok, "decode-failed", [t |-> t, id |-> e.id, err |-> e.err, panic |-> e.panic])
    IN IF ~ok THEN m1
       ELSE LET want == Decode(t, e.b)
                df == DiffFields(t, e.d, want)
                m2 == Check(m1, df = {}, "decode-fields-differ", [t |-> t, id |-> e.id, fields |-> SetToSeq(df)])
                lost == DiffAt(e.b2, e.b, Defined(t))
            IN Check(m2, Len(e.b2) = FRAME /\ lost = {}, "decode-encode-loses-defined-bytes",
                     [t |-> t, id |-> e.id, offsets |-> [i \in 1..Len(Few(lost)) |-> Few(lost)[i] - 1], fields |-> SetToSeq(FieldsAt(t, lost))])

-----------------------------------------------------------------------------
\* value frames

NormProps(ps) == [i \in 1..Len(ps) |-> [code |-> ps[i].code, value |-> ps[i].value]]

StepVFrame(mm, e) ==
    LET ok == e.panic = ""
        m1 == Check(mm, ok, "value-frame-codec-failed", [id |-> e.id, panic |-> e.panic])
    IN IF ~ok THEN m1
       ELSE LET props == NormProps(e.props)
                want == EncodeValueFrame(e.stage, e.ctype, e.flag, e.hasprops, props, e.data)
                flagW == IF e.hasprops /\ ~HasBit(e.flag, DATA_FLAG_PROPERTY) THEN e.flag + DATA_FLAG_PROPERTY ELSE e.flag
                m2 == Check(m1, e.fr = want, "value-frame-bytes-differ",
                            [id |-> e.id, len_got |-> Len(e.fr), len_want |-> Len(want),
                             first_diff |-> Few({i \in 1..Min2(Len(e.fr), Len(want)) : e.fr[i] # want[i]})])
                backOK == /\ e.d.stage = e.stage /\ e.d.ctype = e.ctype /\ e.d.flag = flagW
                          /\ NormProps(e.d.props) = props /\ e.d.data = e.data
                          /\ e.d.cstage = e.stage /\ e.d.cctype = e.ctype /\ e.d.cflag = flagW /\ e.d.cdata = e.data
            IN Check(m2, backOK, "value-frame-decode-differs",
                     [id |-> e.id, stage |-> e.d.stage, ctype |-> e.d.ctype, flag |-> e.d.flag, nprops |-> Len(e.d.props), datalen |-> Len(e.d.data)])

\* array / kv payloads: frame = len | stage 0, SET (0) | flag (array 2, kv 4) | items
StepItems(mm, e) ==
    LET flagB == IF e.kind = "array" THEN 2 ELSE 4
        body == <<0, flagB>> \o ItemsBytes(e.items)
        want == LE(Len(body), 4) \o body
        bodyDev == <<0, flagB>> \o KVBytesA20(e.items)
        single == e.kind = "array" \/ Len(e.items) = 2       \* a multi-entry map has no fixed wire order
        cause == IF e.kind = "kv" /\ e.fr = LE(Len(body), 4) \o bodyDev THEN "A20" ELSE "other"
        pre == IF e.kind = "array" THEN "value-frame-array" ELSE "value-frame-kv"
        m1 == Check(mm, e.fr = <<>> \/ ~single \/ e.fr = want, pre \o "-bytes-differ",
                    [id |-> e.id, kind |-> e.kind, cause |-> cause, len_got |-> Len(e.fr), len_want |-> Len(want),
                     first_diff |-> Few({i \in 1..Min2(Len(e.fr), Len(want)) : e.fr[i] # want[i]}),
                     item_lengths |-> [i \in 1..Len(e.items) |-> Len(e.items[i])]])
    IN IF e.panic # ""
       THEN Report(m1, pre \o "-codec-failed", [id |-> e.id, kind |-> e.kind, cause |-> cause, panic |-> e.panic,
                                                item_lengths |-> [i \in 1..Len(e.items) |-> Len(e.items[i])]])
       ELSE Check(m1, e.d = e.items, pre \o "-decode-differs",
                  [id |-> e.id, kind |-> e.kind, cause |-> cause, items_in |-> Len(e.items), items_out |-> Len(e.d),
                   item_lengths |-> [i \in 1..Len(e.items) |-> Len(e.items[i])]])

-----------------------------------------------------------------------------
\* text streams

PartBytes(p) ==
    CASE p.kind = "req" -> PGood!BuildReq(p.args)
      [] p.kind = "status" -> PGood!BuildResp(TRUE, p.msg, <<>>)
      [] p.kind = "error" -> PGood!BuildResp(FALSE, p.msg, <<>>)
      [] p.kind = "results" -> PGood!BuildResp(TRUE, <<>>, p.args)
      [] OTHER -> p.bytes

PartExpect(p) ==
    CASE p.kind = "req" -> PGood!ExpectReq(p.args)
      [] p.kind = "status" -> PGood!ExpectResp(TRUE, p.msg, <<>>)
      [] p.kind = "error" -> PGood!ExpectResp(FALSE, p.msg, <<>>)
      [] p.kind = "results" -> PGood!ExpectResp(TRUE, <<>>, p.args)
      [] OTHER -> [type |-> 0 - 1, args |-> <<>>]

StepBuild(mm, e) ==
    LET P == 1..Len(e.parts)
        badB == {i \in P : e.parts[i].bytes # PartBytes(e.parts[i])}
        raw == \E i \in P : e.parts[i].kind = "raw"
        m1 == Check(mm, badB = {}, "build-output-differs-from-resp-encoding",
                    [id |-> e.id, mode |-> e.mode, parts |-> Few(badB), kind |-> IF badB = {} THEN "" ELSE e.parts[Min(badB)].kind])
    IN [m1 EXCEPT !.bytes = e.bytes, !.mode = e.mode, !.id = e.id,
                  !.raw = raw, !.expect = IF raw THEN <<>> ELSE [i \in P |-> PartExpect(e.parts[i])]]

NormDone(d) == [i \in 1..Len(d) |-> [type |-> d[i].type, args |-> d[i].args]]

\* does the implementation-shaped parser (instance-specific Feed, passed as its final state) show the observation?
SameObs(ps, o) == ps.stage = o.stage /\ ps.err = o.err /\ ps.done = NormDone(o.done)
SameModel(p1, p2) == p1.stage = p2.stage /\ p1.err = p2.err /\ p1.done = p2.done /\ p1.args = p2.args
SameRaw(ps, o) == /\ SameObs(ps, o)
                  /\ ps.err \/ (/\ ps.args = o.raw.args /\ ps.argsCount = o.raw.argsCount
                                /\ (ps.stage = 4 => ps.cargIndex = o.raw.cargIndex /\ ps.cargLen = o.raw.cargLen))

StepObs(mm, e) ==
    LET b == mm.bytes
        k == e.at
        o == e.obs
        r == PGood!RefDone(b, k, mm.mode)
        got == NormDone(o.done)
        atEnd == k = Len(b)
        \* the clauses of the statement
        sameLists == ~o.err /\ got = r.done /\ ((o.stage = 0) = r.idle)
        roundTrip == ~atEnd \/ mm.raw \/ (got = mm.expect /\ o.stage = 0)
        good == r.bad \/ (sameLists /\ roundTrip)
        expl9 == SameObs(PA9!FeedPrefix(b, e.cuts, mm.mode), o)
        expl15 == SameObs(PA19!FeedPrefix(b, e.cuts, mm.mode), o)
        explBoth == SameObs(PCode!FeedPrefix(b, e.cuts, mm.mode), o)
        cause == IF expl9 THEN "A9" ELSE IF expl15 THEN "A19" ELSE IF explBoth THEN "A9+A19" ELSE "other"
        m1 == IF r.bad THEN [mm EXCEPT !.agnostic = @ + 1] ELSE [mm EXCEPT !.judged = @ + 1]
        m2 == IF good THEN m1
              ELSE Report(m1, IF sameLists THEN "text-build-parse-roundtrip-differs"
                              ELSE IF Len(e.cuts) = 1 THEN "text-parse-wrong" ELSE "text-parse-depends-on-chunking",
                          [id |-> mm.id, mode |-> mm.mode, cause |-> cause, at |-> k, len |-> Len(b), cuts |-> e.cuts, splits_showing_it |-> e.n,
                           stage |-> o.stage, err |-> o.err, ncommands_got |-> Len(got), ncommands_ref |-> Len(r.done),
                           got |-> IF Len(b) <= 80 THEN got ELSE <<>>, ref |-> IF Len(b) <= 80 THEN r.done ELSE <<>>,
                           bytes |-> IF Len(b) <= 80 THEN b ELSE <<>>])
        \* refinement: the implementation-shaped spec, as the code is today, predicts the raw parser state
        refOK == Len(b) > 300 \/ r.bad \/ SameRaw(PCode!FeedPrefix(b, e.cuts, mm.mode), o)
    IN IF refOK THEN m2
       ELSE IF Note("REFDIV", [id |-> mm.id, mode |-> mm.mode, at |-> k, cuts |-> e.cuts, stage |-> o.stage]) THEN m2 ELSE m2

-----------------------------------------------------------------------------
\* key normalisation, text command, rendering

StepNorm(mm, e) ==
    LET ok == e.panic = ""
        want == Norm(e.s, e.md5)
        m1 == Check(mm, ok, "key-normalisation-failed", [id |-> e.id, panic |-> e.panic])
    IN IF ~ok THEN m1
       ELSE Check(m1, e.key = want /\ e.lid = want, "key-normalisation-differs",
                  [id |-> e.id, len |-> Len(e.s), s |-> e.s, key_ok |-> e.key = want, id_ok |-> e.lid = want,
                   rule |-> IF Len(e.s) <= 16 THEN "pad" ELSE IF Len(e.s) = 32 /\ IsHex(e.s) THEN "hex" ELSE "md5"])

NumOf(v, n) == ValueOf(v[n])

StepText(mm, e) ==
    IF ~TextWellFormed(e.args) THEN [mm EXCEPT !.agnostic = @ + 1]
    ELSE
    LET ok == e.panic = "" /\ e.err = ""
        m1 == Check(mm, ok, "text-command-conversion-failed", [id |-> e.id, err |-> e.err, panic |-> e.panic])
    IN IF ~ok THEN m1
       ELSE LET w == TextToCommand(e.args, e.md5s)
                c == e.cmd
                bad == {n \in {"CommandType", "Flag", "Timeout", "TimeoutFlag", "Expried", "ExpriedFlag", "Count", "Rcount"} : NumOf(c, n) # w[n]}
                       \cup (IF c.LockKey # w.LockKey THEN {"LockKey"} ELSE {})
                       \cup (IF w.HasLockId /\ c.LockId # w.LockId THEN {"LockId"} ELSE {})
                       \cup (IF NumOf(c, "Magic") # MAGIC \/ NumOf(c, "Version") # VERSION THEN {"Magic/Version"} ELSE {})
            IN Check(m1, bad = {}, "text-command-differs-from-binary-equivalent", [id |-> e.id, fields |-> SetToSeq(bad), args |-> e.args])

ResultRec(v) == [Result |-> NumOf(v, "Result"), LockId |-> v.LockId, Lcount |-> NumOf(v, "Lcount"), Count |-> NumOf(v, "Count"),
                 Lrcount |-> NumOf(v, "Lrcount"), Rcount |-> NumOf(v, "Rcount")]

\* the rendering `out` (bytes) of the lock result r: one RESP array satisfying RenderingOK
RenderJudge(mm, code0, id, r, out, panic, err) ==
    LET ok == panic = "" /\ err = ""
        m1 == Check(mm, ok, "result-code-without-text-rendering", [id |-> id, result |-> r.Result, where |-> code0, panic |-> panic, err |-> err])
    IN IF ~ok THEN m1
       ELSE LET rd == PGood!RefDone(out, Len(out), "resp")
                fine == ~rd.bad /\ rd.idle /\ Len(rd.done) = 1 /\ rd.done[1].type = PGood!T_ARRAY /\ RenderingOK(rd.done[1].args, r)
            IN Check(m1, fine, "result-rendering-wrong",
                     [id |-> id, result |-> r.Result, where |-> code0, parsed |-> IF rd.bad \/ Len(rd.done) = 0 THEN <<>> ELSE rd.done[1].args])

StepRender(mm, e) == RenderJudge(mm, Str(e, "where"), e.id, ResultRec(e.r), e.out, e.panic, e.err)

-----------------------------------------------------------------------------
\* server side (harness/inpkg/server/zz_verif_wire_test.go)
\*
\* srvbin: a LOCK/UNLOCK frame (plus value frame) written to a real BinaryServerProtocol over a pipe in
\* the recorded chunks.  `cmd`: the command object the engine received (fields read in-package);
\* `rb`: the 64 reply bytes read from the pipe; `ref`: result, lcount, lrcount the engine reported for
\* the SAME request decoded by protocol.LockCommand.Decode and issued through a harness connection on
\* a twin database.  The hand-inlined decoder must read the documented fields, the hand-inlined
\* encoder must write the documented reply.
StepSrvBin(mm, e) ==
    LET ok == e.panic = "" /\ e.err = ""
        m1 == Check(mm, ok, "server-binary-path-failed", [id |-> e.id, step |-> e.step, err |-> e.err, panic |-> e.panic])
    IN IF ~ok THEN m1
       ELSE LET want == Decode("lock", e.b)
                \* protocol.LockCommand.Decode (twin path, before the engine saw the command)
                dfp == DiffFields("lock", e.tpre, want)
                m2 == Check(m1, dfp = {}, "decode-fields-differ", [t |-> "lock", id |-> e.id, step |-> e.step, fields |-> SetToSeq(dfp), where |-> "server twin"])
                \* the hand-inlined decoder: the object the engine received through the pipe, after the engine is done with
                \* it, against the twin's object after the engine is done with it (the engine rewrites both alike)
                dfc == DiffFields("lock", e.cmd, e.tcmd) \ {"Magic", "Version", "DbId"}
                dbOK == "DbId" \in DOMAIN e.cmd /\ e.cmd.DbId = want.DbId
                m3 == Check(m2, dfc = {} /\ dbOK, "server-inline-decode-differs",
                            [id |-> e.id, step |-> e.step, fields |-> SetToSeq(dfc \cup (IF dbOK THEN {} ELSE {"DbId"})),
                             command_type |-> ValueOf(want.CommandType)])
                \* the hand-inlined encoder: what the engine handed to the reply callback (twin), laid out as documented
                rc == e.ref.rcmd
                rv == [Magic |-> <<MAGIC>>, Version |-> <<VERSION>>, CommandType |-> rc.CommandType, RequestId |-> rc.RequestId,
                       Result |-> <<e.ref.result>>, Flag |-> <<IF e.ref.hasdata THEN 32 ELSE 0>>, DbId |-> want.DbId,
                       LockId |-> rc.LockId, LockKey |-> rc.LockKey, Lcount |-> NumeralOf(e.ref.lcount, 2), Count |-> rc.Count,
                       Lrcount |-> <<e.ref.lrcount>>, Rcount |-> rc.Rcount]
                wb == Encode("r_lock", rv)
                bad == DiffAt(e.rb, wb, Defined("r_lock"))
                m4 == Check(m3, Len(e.rb) = FRAME /\ bad = {}, "server-inline-result-encode-differs",
                            [id |-> e.id, step |-> e.step, offsets |-> [i \in 1..Len(Few(bad)) |-> Few(bad)[i] - 1], fields |-> SetToSeq(FieldsAt("r_lock", bad))])
            IN Check(m4, e.rdata = e.ref.data, "server-reply-value-frame-differs", [id |-> e.id, step |-> e.step, got |-> Len(e.rdata), want |-> Len(e.ref.data)])

\* srvtext: a text LOCK/UNLOCK sent to a real TextServerProtocol over a pipe in the recorded chunks
\* (database 0) and the equivalent binary command (TextToCommand, computed by the spec) sent to a real
\* BinaryServerProtocol (twin database).  Same effect: the engine holds the same command fields / the
\* same holders and waiters; same result fields: the text reply is the rendering of the binary reply.
\* cause: "A9" when the recorded chunking is one on which the named parser deviation A9 changes the parse.
StepSrvText(mm, e) ==
    IF ~TextWellFormed(e.args) THEN [mm EXCEPT !.agnostic = @ + 1]
    ELSE
    LET req == PGood!BuildReq(e.args)
        cuts == e.cuts \o <<Len(req)>>
        a9hit == ~SameModel(PA9!FeedPrefix(req, cuts, "req"), PGood!FeedPrefix(req, cuts, "req"))
        cause == IF a9hit THEN "A9" ELSE "other"
        ok == e.panic = "" /\ e.err = ""
        m1 == Check(mm, ok, "server-text-path-failed", [id |-> e.id, step |-> e.step, cause |-> cause, err |-> e.err, panic |-> e.panic, cuts |-> e.cuts, args |-> e.args])
    IN IF ~ok THEN m1
       ELSE LET w == TextToCommand(e.args, e.md5s)
                bv == Decode("lock", e.bin)            \* the binary twin the harness sent (built by the scenario generator)
                twinOK == /\ NumOf(bv, "CommandType") = w.CommandType /\ bv.LockKey = w.LockKey /\ (w.HasLockId => bv.LockId = w.LockId)
                          /\ NumOf(bv, "Flag") = w.Flag /\ NumOf(bv, "Timeout") = w.Timeout /\ NumOf(bv, "TimeoutFlag") = w.TimeoutFlag
                          /\ NumOf(bv, "Expried") = w.Expried /\ NumOf(bv, "ExpriedFlag") = w.ExpriedFlag
                          /\ NumOf(bv, "Count") = w.Count /\ NumOf(bv, "Rcount") = w.Rcount
            IN IF ~twinOK
               THEN IF Note("TWINBAD", [id |-> e.id, step |-> e.step]) THEN [m1 EXCEPT !.agnostic = @ + 1] ELSE m1     \* generator and spec disagree: not a verdict
               ELSE LET br == ResultRec(Decode("r_lock", e.brb))
                        rd == PGood!RefDone(e.trb, Len(e.trb), "resp")
                        fine == ~rd.bad /\ rd.idle /\ Len(rd.done) = 1 /\ rd.done[1].type = PGood!T_ARRAY /\ RenderingOK(rd.done[1].args, br)
                        m2 == Check(m1, fine, "text-result-differs-from-binary-result",
                                    [id |-> e.id, step |-> e.step, cause |-> cause, cuts |-> e.cuts, args |-> e.args, binary_result |-> br,
                                     text_reply |-> IF rd.bad \/ Len(rd.done) = 0 THEN <<>> ELSE rd.done[1].args])
                    IN Check(m2, e.tsnap = e.bsnap, "text-and-binary-effects-differ",
                             [id |-> e.id, step |-> e.step, cause |-> cause, cuts |-> e.cuts, args |-> e.args, text |-> e.tsnap, binary |-> e.bsnap])

-----------------------------------------------------------------------------
\* sequences of requests on ONE connection (harness/inpkg/server/zz_verif_wseq_test.go, spec/WireSeq.tla)
\*
\* seq: step `step` of a sequence replayed in lockstep on one real text connection (`trb`: its reply bytes), one real
\* binary connection (`brb`, `brdata`: reply frame and value frame) and the twin path with fresh objects (`ref`).
\* C14 quantifies over requests: the result of THIS request is the engine's answer to it, whatever the connection
\* rendered before.  Clauses (every one names behaviour of the real code):
\*   server-text-path-failed / server-binary-path-failed   the serving loop of the connection ended while serving
\*                                                         well-formed requests (`tdone` / `bdone`: how)
\*   rendered-reply-malformed        the text reply is not the layout of Wire!DataTail: the announced number of
\*                                   elements is not 12 / 14, differs from the elements written, the DATA pair is
\*                                   incomplete, bytes follow the reply
\*   text-result-differs-from-binary-result   a result field of the text reply (code, LOCK_ID, LCOUNT, COUNT, LRCOUNT,
\*                                   RCOUNT, carries-a-value, the value) differs from the binary reply to the
\*                                   equivalent command
\*   text-and-binary-effects-differ  holders / waiters / value of the key differ between the two databases
\*   binary-reply-malformed          the reply frame announces a value frame that does not arrive (or is cut)
\*   server-inline-*                 as for srvbin, against the twin with fresh objects (recycled LockCommand objects,
\*                                   the one reply buffer)
\*   server-binary-effects-differ-from-twin
\* `after`: the shape of the previous result on the same connections (what a recycled object could still hold).

AllDigits(s) == Len(s) > 0 /\ \A i \in 1..Len(s) : IsDigit(s[i])
IsIntLine(s) == AllDigits(s) \/ (Len(s) > 1 /\ s[1] = MINUS /\ AllDigits(Tail(s)))

\* position behind one complete reply element starting at p (0: none)
ElemEnd(b, p) ==
    IF p > Len(b) THEN 0
    ELSE CASE b[p] = COLON  -> LET h == PGood!RefLine(b, p + 1, Len(b)) IN IF h.st = "ok" /\ IsIntLine(h.text) THEN h.next ELSE 0
           [] b[p] = DOLLAR -> LET r == PGood!RefBulk(b, p, Len(b)) IN IF r.st = "ok" THEN r.next ELSE 0
           [] b[p] = STAR   -> LET r == PGood!RefArray(b, p, Len(b), PGood!T_ARRAY) IN IF r.st = "ok" THEN r.next ELSE 0
           [] OTHER -> 0

NilBulk == <<DOLLAR, MINUS, 49, CR, LF>>

\* the text reply to a LOCK / UNLOCK, read by the layout: header, twelve bulk strings, the rest
LockReplyRead(b) ==
    LET none == [hdr |-> FALSE, n |-> 0 - 1, twelve |-> FALSE, args |-> <<>>, rest |-> <<>>] IN
    IF Len(b) = 0 \/ b[1] # STAR THEN none
    ELSE LET h == PGood!RefLine(b, 2, Len(b)) IN
         IF h.st # "ok" \/ ~IsDecimal(h.text) THEN none
         ELSE LET r == PGood!RefBulks(b, h.next, Len(b), 12, <<>>) IN
              IF r.st # "ok" THEN [none EXCEPT !.hdr = TRUE, !.n = DecValue(h.text)]
              ELSE [hdr |-> TRUE, n |-> DecValue(h.text), twelve |-> TRUE, args |-> r.args, rest |-> SubSeq(b, r.next, Len(b))]

LockReplyWellFormed(rd) ==
    /\ rd.hdr /\ rd.twelve
    /\ \/ rd.n = 12 /\ rd.rest = <<>>
       \/ /\ rd.n = 14
          /\ LET k == Len(RBulk(K_DATA)) IN
             /\ Len(rd.rest) > k /\ SubSeq(rd.rest, 1, k) = RBulk(K_DATA)
             /\ ElemEnd(rd.rest, k + 1) = Len(rd.rest) + 1

\* a read in between may also answer with a status line
ReadReplyComplete(b) ==
    \/ b = NilBulk
    \/ ElemEnd(b, 1) = Len(b) + 1
    \/ (Len(b) > 0 /\ b[1] \in {PLUS, MINUS} /\ LET h == PGood!RefLine(b, 2, Len(b)) IN h.st = "ok" /\ h.next = Len(b) + 1)

ErrorLineOnly(b) == /\ Len(b) > 0 /\ b[1] = MINUS
                    /\ LET h == PGood!RefLine(b, 2, Len(b)) IN h.st = "ok" /\ h.next = Len(b) + 1

\* kind of value a frame carries ("none": no frame)
ValueKind(fr) ==
    IF Len(fr) < 6 THEN "none"
    ELSE LET fl == fr[6] IN
         IF HasBit(fl, VALUE_TYPE_NUMBER) THEN "number" ELSE IF HasBit(fl, VALUE_TYPE_ARRAY) THEN "array"
         ELSE IF HasBit(fl, VALUE_TYPE_KV) THEN "kv" ELSE "string"

\* mm.keys: per (db, key) of the running sequence, the latest step on it: its value operation, the kind of value the key had
\* before it (every result of a key with a value carries it), its result, and - once the value seen is not a payload of
\* its own type - the operation that made it so (`origin`: the value operation of the last step that still saw a
\* well-typed value, as "<operation>-on-<kind>").
KeyEntry(mm, e) == {i \in 1..Len(mm.keys) : mm.keys[i].db = e.l.db /\ mm.keys[i].key = e.l.key}
MadeBy(mm, e, ill) ==
    IF ~ill THEN ""
    ELSE LET R == KeyEntry(mm, e) IN
         IF R = {} THEN "unknown"
         ELSE LET r == mm.keys[Max(R)] IN
              IF r.origin # "" THEN r.origin
              ELSE IF r.res = 0 /\ r.dop # "none" THEN r.dop \o "-on-" \o r.kind ELSE "unknown"
IllTypedSeen(e) ==
    IF e.hasbin THEN Len(e.brb) = FRAME /\ HasBit(e.brb[21], 32) /\ Len(e.brdata) >= 6 /\ ~ValueWellTyped(e.brdata)
    ELSE Len(e.bval) >= 6 /\ ~ValueWellTyped(e.bval)
KeysAfter(mm, e) ==
    IF ~(e.hasbin /\ Len(e.brb) = FRAME) THEN mm.keys
    ELSE LET rec == [db |-> e.l.db, key |-> e.l.key, dop |-> e.l.dop, kind |-> ValueKind(e.brdata), res |-> e.brb[20],
                     origin |-> MadeBy(mm, e, IllTypedSeen(e))]
         IN SelectSeq(mm.keys, LAMBDA x : ~(x.db = e.l.db /\ x.key = e.l.key)) \o <<rec>>

SeqAfter(mm, e) == IF e.step = 0 \/ mm.prev = <<>> THEN [first |-> TRUE] ELSE mm.prev[1]

\* the binary half: decoder and encoder of the connection against the twin / the documented UNKNOWN_DB answer
SeqBin(mm, e) ==
    LET after == SeqAfter(mm, e)
        want == Decode("lock", e.bin)
        complete == Len(e.brb) = FRAME /\ ~e.bquiet /\ (HasBit(e.brb[21], 32) => Len(e.brdata) >= 6 /\ Len(e.brdata) = 4 + DecodeValueFrame(e.brdata).len)
        m1 == Check(mm, e.bdone = "", "server-binary-path-failed", [id |-> e.id, step |-> e.step, letter |-> e.l, after |-> after, how |-> e.bdone])
    IN IF e.bdone # "" THEN m1
       ELSE IF ~complete
       THEN Report(m1, "binary-reply-malformed", [id |-> e.id, step |-> e.step, letter |-> e.l, after |-> after, frame_bytes |-> Len(e.brb),
                                                  announces_value_frame |-> Len(e.brb) = FRAME /\ HasBit(e.brb[21], 32), value_frame_bytes |-> Len(e.brdata)])
       ELSE IF ~e.refnone
       THEN StepSrvBin(m1, [k |-> "srvbin", id |-> e.id, step |-> e.step, panic |-> "", err |-> "", b |-> e.bin, cmd |-> e.cmd, tpre |-> e.tpre, tcmd |-> e.tcmd,
                            rb |-> e.brb, rdata |-> e.brdata, ref |-> e.ref])
       ELSE \* the request names no usable database: UNKNOWN_DB, nothing counted, no value frame; ids and counts echoed
            LET dfc == DiffFields("lock", e.cmd, e.tpre) \ {"Magic", "Version"}
                m2 == Check(m1, DiffFields("lock", e.tpre, want) = {} /\ dfc = {}, "server-inline-decode-differs",
                            [id |-> e.id, step |-> e.step, fields |-> SetToSeq(dfc), command_type |-> ValueOf(want.CommandType), where |-> "unknown-db"])
                rv == [Magic |-> <<MAGIC>>, Version |-> <<VERSION>>, CommandType |-> want.CommandType, RequestId |-> want.RequestId,
                       Result |-> <<3>>, Flag |-> <<0>>, DbId |-> want.DbId, LockId |-> want.LockId, LockKey |-> want.LockKey,
                       Lcount |-> <<0, 0>>, Count |-> want.Count, Lrcount |-> <<0>>, Rcount |-> want.Rcount]
                bad == DiffAt(e.brb, Encode("r_lock", rv), Defined("r_lock"))
            IN Check(m2, bad = {} /\ e.brdata = <<>>, "server-inline-result-encode-differs",
                     [id |-> e.id, step |-> e.step, offsets |-> [i \in 1..Len(Few(bad)) |-> Few(bad)[i] - 1], fields |-> SetToSeq(FieldsAt("r_lock", bad)),
                      where |-> "unknown-db", after |-> after])

\* the text half against the binary reply
SeqText(mm, e) ==
    LET after == SeqAfter(mm, e)
        \* cause "value-ill-typed": the result to render carries a value that is not a payload of its own value type
        \* (seen on the binary connection's reply to the same request); otherwise "sequence"
        \* (a read in between has no binary request: `bval` is the key's value in the binary connection's database)
        illTyped == IllTypedSeen(e)
        m1 == Check(mm, e.tdone = "", "server-text-path-failed",
                    [id |-> e.id, step |-> e.step, cause |-> IF illTyped THEN "value-ill-typed" ELSE "sequence",
                     made_by |-> MadeBy(mm, e, illTyped), letter |-> e.l, after |-> after, how |-> e.tdone, args |-> e.args,
                     reply_so_far |-> IF Len(e.trb) <= 200 THEN e.trb ELSE <<>>])
        unknownDb == e.l.db \in {"bad", "nodb"}
    IN IF e.l.op = "get"
       THEN \* a read in between: one complete reply element (not a LOCK / UNLOCK: nothing else is demanded here)
            IF e.tdone # "" THEN m1
            ELSE Check(m1, ~e.tquiet /\ ReadReplyComplete(e.trb), "rendered-reply-malformed",
                       [id |-> e.id, step |-> e.step, letter |-> e.l, after |-> after, where |-> "read", reply |-> e.trb])
       ELSE IF unknownDb
       THEN IF e.tdone # "" THEN m1
            ELSE Check(m1, ~e.tquiet /\ ErrorLineOnly(e.trb), "rendered-reply-malformed",
                       [id |-> e.id, step |-> e.step, letter |-> e.l, after |-> after, where |-> "unknown-db", reply |-> e.trb])
       ELSE LET rd == LockReplyRead(e.trb)
                wf == ~e.tquiet /\ LockReplyWellFormed(rd)
                \* (an ill-typed value has no layout: the reply the dying loop left behind is then not judged as one)
                m2 == Check(m1, wf \/ (e.tdone # "" /\ illTyped), "rendered-reply-malformed",
                            [id |-> e.id, step |-> e.step, letter |-> e.l, after |-> after, where |-> "lock-result",
                             announced_elements |-> rd.n, twelve_elements_read |-> rd.twelve, bytes_behind_them |-> Len(rd.rest),
                             went_quiet |-> e.tquiet, reply |-> IF Len(e.trb) <= 260 THEN e.trb ELSE <<>>])
                binOK == e.hasbin /\ e.bdone = "" /\ ~e.bquiet /\ Len(e.brb) = FRAME
            IN IF ~binOK THEN m2
               ELSE LET br == ResultRec(Decode("r_lock", e.brb))
                        binHas == HasBit(e.brb[21], 32)
                        de == IF binHas /\ Len(e.brdata) >= 6 THEN DataElement(e.brdata) ELSE [fixed |-> FALSE, bytes |-> <<>>]
                        badF == IF ~rd.hdr THEN {"(not a result array)"}
                                ELSE (IF (rd.n = 14) # binHas THEN {"carries-a-value"} ELSE {})
                                     \cup (IF rd.twelve /\ ~RenderingOK(rd.args, br) THEN {"result-fields"} ELSE {})
                                     \cup (IF wf /\ rd.n = 14 /\ binHas /\ de.fixed /\ rd.rest # RBulk(K_DATA) \o de.bytes THEN {"value"} ELSE {})
                    IN Check(m2, badF = {}, "text-result-differs-from-binary-result",
                             [id |-> e.id, step |-> e.step, cause |-> "sequence", letter |-> e.l, after |-> after, fields |-> SetToSeq(badF), args |-> e.args,
                              binary_result |-> br, binary_carries_value |-> binHas, text_announces |-> rd.n,
                              text_reply |-> rd.args, text_tail |-> IF Len(rd.rest) <= 120 THEN rd.rest ELSE <<>>])

SeqShapeOf(e) ==
    IF e.hasbin /\ Len(e.brb) = FRAME
    THEN LET br == ResultRec(Decode("r_lock", e.brb)) IN
         [letter |-> e.l, result |-> br.Result, carries_value |-> HasBit(e.brb[21], 32), lcount |-> br.Lcount, lrcount |-> br.Lrcount]
    ELSE [letter |-> e.l, text_only |-> TRUE]

StepSeq(mm, e) ==
    LET m0 == IF e.step = 0 THEN [mm EXCEPT !.prev = <<>>, !.keys = <<>>] ELSE mm
        ok == e.panic = "" /\ e.err = ""
        m1 == Check(m0, ok, "server-sequence-path-failed", [id |-> e.id, step |-> e.step, letter |-> e.l, err |-> e.err, panic |-> e.panic])
    IN IF ~ok THEN m1
       ELSE
       LET \* is the binary request the harness sent the equivalent of the text request (spec: TextToCommand, TextValueFrame)?
           twinOK == ~(e.hastext /\ e.hasbin) \/
                     (/\ TextWellFormedV(e.args)
                      /\ LET w == TextToCommand(e.args, e.md5s)
                             vf == TextValueFrame(e.args)
                             bv == Decode("lock", e.bin)
                         IN /\ NumOf(bv, "CommandType") = w.CommandType /\ bv.LockKey = w.LockKey /\ (w.HasLockId => bv.LockId = w.LockId)
                            /\ NumOf(bv, "Flag") = (IF vf # <<>> /\ ~HasBit(w.Flag, 32) THEN w.Flag + 32 ELSE w.Flag)
                            /\ NumOf(bv, "Timeout") = w.Timeout /\ NumOf(bv, "TimeoutFlag") = w.TimeoutFlag
                            /\ NumOf(bv, "Expried") = w.Expried /\ NumOf(bv, "ExpriedFlag") = w.ExpriedFlag
                            /\ NumOf(bv, "Count") = w.Count /\ NumOf(bv, "Rcount") = w.Rcount
                            /\ e.data = vf)
       IN IF ~twinOK
          THEN IF Note("TWINBAD", [id |-> e.id, step |-> e.step]) THEN [m1 EXCEPT !.agnostic = @ + 1] ELSE m1
          ELSE
          LET m2 == IF e.hasbin THEN SeqBin(m1, e) ELSE m1
              m3 == IF e.hastext THEN SeqText(m2, e) ELSE m2
              m4 == IF e.snaps /\ e.hastext
                    THEN Check(m3, e.tsnap = e.bsnap, "text-and-binary-effects-differ",
                               [id |-> e.id, step |-> e.step, cause |-> "sequence", letter |-> e.l, after |-> SeqAfter(mm, e), args |-> e.args, text |-> e.tsnap, binary |-> e.bsnap])
                    ELSE m3
              m5 == IF e.snaps
                    THEN Check(m4, e.bsnap = e.wsnap, "server-binary-effects-differ-from-twin",
                               [id |-> e.id, step |-> e.step, letter |-> e.l, after |-> SeqAfter(mm, e), connection |-> e.bsnap, twin |-> e.wsnap])
                    ELSE m4
              \* refinement note (never a verdict): the abstract engine of WireSeq predicted another shape
              sh == SeqShapeOf(e)
              predOK == ~(e.hasbin /\ Len(e.brb) = FRAME) \/
                        (/\ e.pred.res = sh.result /\ (e.pred.data # "none") = sh.carries_value
                         /\ e.pred.lc = sh.lcount /\ e.pred.lrc = sh.lrcount)
              m6 == IF predOK THEN m5 ELSE IF Note("SEQDIV", [id |-> e.id, step |-> e.step, letter |-> e.l, pred |-> e.pred, got |-> sh]) THEN m5 ELSE m5
          IN [m6 EXCEPT !.prev = <<sh>>, !.keys = KeysAfter(m0, e)]

-----------------------------------------------------------------------------
Step(mm, e) ==
    CASE e.k = "enc"     -> StepEnc(mm, e)
      [] e.k = "dec"     -> StepDec(mm, e)
      [] e.k = "vframe"  -> StepVFrame(mm, e)
      [] e.k = "items"   -> StepItems(mm, e)
      [] e.k = "build"   -> StepBuild(mm, e)
      [] e.k = "obs"     -> StepObs(mm, e)
      [] e.k = "norm"    -> StepNorm(mm, e)
      [] e.k = "text"    -> StepText(mm, e)
      [] e.k = "render"  -> StepRender(mm, e)
      [] e.k = "srvbin"  -> StepSrvBin(mm, e)
      [] e.k = "srvtext" -> StepSrvText(mm, e)
      [] e.k = "seq"     -> StepSeq(mm, e)
      [] OTHER           -> mm

Init == l = 1 /\ m = M0

Next == /\ l <= Len(Trace)
        /\ m' = Step(m, Trace[l])
        /\ l' = l + 1
        /\ (l = Len(Trace) => PrintT("SUMMARY " \o ToJson([judged_obs |-> m'.judged, agnostic |-> m'.agnostic, nv |-> m'.nv])))

Spec == Init /\ [][Next]_vars

NoViolation == m.nv = 0

\* acceptance: the whole trace was consumed; the last state reports the judged / agnostic counts
TraceConsumed ==
    /\ TLCGet("stats").diameter - 1 = Len(Trace)
=============================================================================

------------------------------- MODULE MonNodeQueue -------------------------------
(***************************************************************************)
(* Conformance (refinement) trace specification: binds the implementation- *)
(* shaped model spec/NodeQueue.tla to the real node-array queues.          *)
(*                                                                         *)
(* For every history of kind "node" or "longwait" recorded with struct      *)
(* snapshots ("st" =                                                       *)
(* baseNodeSize, headNodeIndex, headQueueIndex, tailNodeIndex,             *)
(* tailQueueIndex, nodeIndex, nodeSize, queueSize, shrinkNodeSize,         *)
(* rellacTailNodeIndex, nodeQueueSizes...) the model executes the same     *)
(* operation (NodeQueue!Apply) and must land in the same struct state,     *)
(* return the same value and iterate the same elements.                    *)
(*                                                                         *)
(* A mismatch prints "DIVG {json}".  It is NEVER a verdict on a property   *)
(* (DESIGN 2.3): on the unchanged tree it means the model is wrong; on a   *)
(* changed tree it is logged in the evidence file.                         *)
(***************************************************************************)
EXTENDS Integers, Sequences, FiniteSets, TLC, Json

CONSTANTS TraceFile, Props

NQ == INSTANCE NodeQueue WITH BaseNodeSize <- 1, NodeSize <- 1, QueueSize <- 1, OpNames <- {}, MaxPush <- 0,
                              ExportCover <- FALSE, Q2Fixed <- TRUE, Q3Fixed <- TRUE, Q4Fixed <- TRUE, I <- 0, D <- 0, bad <- FALSE, hist <- <<>>, nid <- 0

Trace == ndJsonDeserialize(TraceFile)

VARIABLES l, m
vars == <<l, m>>

M0 == [J |-> NQ!NewQ(1, 1, 1), on |-> FALSE, kind |-> "", name |-> "", tr |-> 0, nd |-> 0, steps |-> 0]

\* the long-wait queue restructures with the db.go copies of Restructuring
ModelOp(mm, e) == <<IF mm.kind = "longwait" /\ e.op = "restruct" THEN "restructdb" ELSE e.op, e.x, 0>>

StOf(J) == <<J.base, J.hn, J.hi, J.tn, J.ti, J.ni, J.ns, J.qs, J.sh, J.rt>> \o J.sizes

Diverge(mm, e, what, exp, got) ==
    IF PrintT("DIVG " \o ToJson([name |-> mm.name, trace |-> mm.tr, line |-> l, step |-> e.i, op |-> e.op, what |-> what,
                                 model |-> exp, real |-> got]))
    THEN [mm EXCEPT !.nd = @ + 1, !.on = FALSE] ELSE mm

StepBegin(mm, e) ==
    IF e.kind \in {"node", "longwait"} /\ "p" \in DOMAIN e
    THEN [M0 EXCEPT !.J = NQ!NewQ(e.p[1], e.p[2], e.p[3]), !.on = TRUE, !.kind = e.kind, !.name = e.name, !.tr = e.idx, !.nd = mm.nd, !.steps = mm.steps]
    ELSE [M0 EXCEPT !.nd = mm.nd, !.steps = mm.steps]

StepOp(mm, e) ==
    IF ~mm.on \/ "st" \notin DOMAIN e THEN [mm EXCEPT !.on = FALSE]
    ELSE LET a  == NQ!Apply(mm.J, ModelOp(mm, e))
             J1 == a.I
             m1 == [mm EXCEPT !.J = J1, !.steps = @ + 1]
         IN IF J1.panicked THEN Diverge(m1, e, "model-panics", "panic", "no panic")
            ELSE IF a.ret # e.ret THEN Diverge(m1, e, "ret", a.ret, e.ret)
            ELSE IF StOf(J1) # e.st THEN Diverge(m1, e, "struct", StOf(J1), e.st)
            ELSE IF NQ!LenI(J1) # e.len THEN Diverge(m1, e, "len", NQ!LenI(J1), e.len)
            ELSE IF NQ!HeadI(J1) # e.head THEN Diverge(m1, e, "head", NQ!HeadI(J1), e.head)
            ELSE IF NQ!TailI(J1) # e.tail THEN Diverge(m1, e, "tail", NQ!TailI(J1), e.tail)
            ELSE IF "iter" \in DOMAIN e /\ NQ!IterI(J1) # e.iter THEN Diverge(m1, e, "iter", NQ!IterI(J1), e.iter)
            ELSE m1

StepPanic(mm, e) ==
    IF ~mm.on THEN mm
    ELSE LET a == NQ!Apply(mm.J, ModelOp(mm, e))
             m1 == [mm EXCEPT !.on = FALSE, !.steps = @ + 1]
         IN IF a.I.panicked \/ NQ!IterI(a.I) = <<NQ!PANICV>> \/ NQ!HeadI(a.I) = NQ!PANICV \/ NQ!TailI(a.I) = NQ!PANICV
            THEN m1 ELSE Diverge(m1, e, "real-panics", "no panic", e.msg)

Step(mm, e) ==
    CASE e.e = "begin" -> StepBegin(mm, e)
      [] e.e = "op"    -> StepOp(mm, e)
      [] e.e = "panic" -> StepPanic(mm, e)
      [] e.e = "skip"  -> mm
      [] OTHER         -> mm

Init == l = 1 /\ m = M0
Next == /\ l <= Len(Trace)
        /\ m' = Step(m, Trace[l])
        /\ l' = l + 1
Spec == Init /\ [][Next]_vars

\* statistics line for the driver
Stats == l = Len(Trace) + 1 => PrintT("CONF " \o ToJson([steps |-> m.steps, divergences |-> m.nd]))
TraceConsumed == TLCGet("stats").diameter - 1 = Len(Trace)
=============================================================================

------------------------------- MODULE MonRedis -------------------------------
(***************************************************************************)
(* C15 trace specification, second part: the Redis-style text commands     *)
(* answer like a plain key-value store.                                    *)
(*                                                                         *)
(* TLC reads the ndjson trace recorded by the in-package driver            *)
(* TestVerifRedis (one line per command: the command as issued to the REAL *)
(* TextServerProtocol handler and the RESP reply it wrote) and steps the   *)
(* plain store RedisCmds!Exec beside it.                                   *)
(*   K1 the reply is one of the replies of the plain store                 *)
(*                                  -> redis-reply-differs-from-kv-store   *)
(*   K2 the handler does not panic  -> redis-command-panic                 *)
(*   K3 exactly one reply per command -> redis-command-no-reply /          *)
(*                                       redis-extra-reply-bytes           *)
(* After the first deviation of a history its remaining commands are not   *)
(* judged (the store the code continues from is unknown).  Open cases are  *)
(* not judged either: commands for which RedisCmds!Exec is open, and a     *)
(* command that had to wait on the clock while some key carries a          *)
(* time-to-live.                                                           *)
(***************************************************************************)
EXTENDS RedisCmds, Json, SequencesExt

CONSTANTS TraceFile, Props

Trace == ndJsonDeserialize(TraceFile)

VARIABLES l, m
vars == <<l, m>>

MKeys == {"k1", "k2", "k3"}
M0 == [kv |-> [k \in MKeys |-> Absent], dead |-> FALSE, nv |-> 0, name |-> "", ncmd |-> 0, nopen |-> 0, ndead |-> 0]

Report(mm, code, e, detail) ==
    IF "C15" \in Props
    THEN IF PrintT("VIOL " \o ToJson([prop |-> "C15", code |-> code, line |-> l, name |-> mm.name, step |-> e.i, detail |-> detail]))
         THEN [mm EXCEPT !.nv = @ + 1, !.dead = TRUE] ELSE mm
    ELSE [mm EXCEPT !.dead = TRUE]

Observed(r) == CASE r.t = "status" /\ r.s = "OK" -> ROk
                 [] r.t = "int"  -> RInt(r.n)
                 [] r.t = "bulk" -> RBulk(r.sb)
                 [] r.t = "nil"  -> RNil
                 [] OTHER -> [t |-> "err", s |-> <<>>, n |-> 0]

StepCmd(mm, e) ==
    IF mm.dead THEN [mm EXCEPT !.ndead = @ + 1]
    ELSE
    LET c == [c |-> e.c, k |-> e.k, v |-> e.v, d |-> e.d]
        x == Exec(mm.kv, c)
        o == Observed(e.reply)
        anyTtl == \E k \in MKeys : mm.kv[k].p /\ mm.kv[k].ttl
    IN
    IF c.c = "TICK" THEN [mm EXCEPT !.kv = x.kv]
    ELSE IF e.panic # ""
    THEN Report(mm, "redis-command-panic", e, [cls |-> DeviationClass(mm.kv, c, o, TRUE), cmd |-> e.args, panic |-> e.panic])
    ELSE IF x.open THEN [mm EXCEPT !.dead = TRUE, !.nopen = @ + 1]
    ELSE IF e.hung THEN Report(mm, "redis-command-no-reply", e, [cls |-> "other", cmd |-> e.args])
    ELSE IF e.ticks > 0 /\ anyTtl THEN [mm EXCEPT !.dead = TRUE, !.nopen = @ + 1]
    ELSE IF o \notin x.replies
    THEN Report(mm, "redis-reply-differs-from-kv-store", e,
                [cls |-> DeviationClass(mm.kv, c, o, FALSE), cmd |-> e.args, reply |-> e.reply.raw, expected |-> SetToSeq(x.replies),
                 key_state |-> mm.kv[c.k], waited_s |-> e.ticks])
    ELSE IF e.reply.extra # 0 THEN Report(mm, "redis-extra-reply-bytes", e, [cls |-> "other", cmd |-> e.args, extra |-> e.reply.extra])
    ELSE [mm EXCEPT !.kv = x.kv, !.ncmd = @ + 1]

Step(mm, e) ==
    CASE e.e = "begin" -> [M0 EXCEPT !.nv = mm.nv, !.name = e.name, !.ncmd = mm.ncmd, !.nopen = mm.nopen, !.ndead = mm.ndead]
      [] e.e = "rcmd"  -> StepCmd(mm, e)
      [] e.e = "end"   -> IF l = Len(Trace) /\ PrintT("MONSTAT " \o ToJson([ops |-> mm.ncmd, agnostic |-> mm.nopen, replies |-> mm.ncmd, skipped_after_deviation |-> mm.ndead, viol |-> mm.nv]))
                          THEN mm ELSE mm
      [] OTHER -> mm

Init == l = 1 /\ m = M0
Next == /\ l <= Len(Trace)
        /\ m' = Step(m, Trace[l])
        /\ l' = l + 1
Spec == Init /\ [][Next]_vars
NoViolation == m.nv = 0
TraceConsumed == TLCGet("stats").diameter - 1 = Len(Trace)
=============================================================================

------------------------------- MODULE MonRedis -------------------------------
(***************************************************************************)
(* C15 trace specification, second part: the Redis-style text commands     *)
(* answer like a plain key-value store.                                    *)
(*                                                                         *)
(* TLC reads the ndjson trace recorded by the in-package driver            *)
(* TestVerifRedis (one line per command: the command as issued to the REAL *)
(* TextServerProtocol handler and the RESP reply it wrote) and steps the   *)
(* plain store RedisCmds!Exec beside it.                                   *)
(*   K1 the reply is one of the replies of the plain store                 *)
(*                                  -> redis-reply-differs-from-kv-store   *)
(*   K2 the handler does not panic  -> redis-command-panic                 *)
(*   K3 exactly one reply per command -> redis-command-no-reply /          *)
(*                                       redis-extra-reply-bytes           *)
(*   K4 after every write command the deadline of the hold that carries    *)
(*      the key (read in-package: Lock.expriedTime against the virtual     *)
(*      clock) fits the time-to-live of the plain store - the asked term,  *)
(*      rounded up by at most one granule of its unit, or none - and a     *)
(*      waiting SET .. NX TX/PTX is queued with the asked wait and answered *)
(*      after it              -> redis-ttl-differs-from-kv-store           *)
(*      (detail.cls names the option and range that set the term)          *)
(* After the first deviation of a history its remaining commands are not   *)
(* judged (the store the code continues from is unknown).  Open cases are  *)
(* not judged either: commands for which RedisCmds!Exec is open, and a     *)
(* command that had to wait on the clock while some key carries a          *)
(* time-to-live.                                                           *)
(***************************************************************************)
EXTENDS RedisCmds, Json, SequencesExt

CONSTANTS TraceFile, Props

Trace == ndJsonDeserialize(TraceFile)

VARIABLES l, m
vars == <<l, m>>

MKeys == {"k1", "k2", "k3"}
M0 == [kv |-> [k \in MKeys |-> Absent], now |-> 0, dead |-> FALSE, nv |-> 0, name |-> "", ncmd |-> 0, nopen |-> 0, ndead |-> 0, nttl |-> 0]

Report(mm, code, e, detail) ==
    IF "C15" \in Props
    THEN IF PrintT("VIOL " \o ToJson([prop |-> "C15", code |-> code, line |-> l, name |-> mm.name, step |-> e.i, detail |-> detail]))
         THEN [mm EXCEPT !.nv = @ + 1, !.dead = TRUE] ELSE mm
    ELSE [mm EXCEPT !.dead = TRUE]

Observed(r) == CASE r.t = "status" /\ r.s = "OK" -> ROk
                 [] r.t = "int"  -> RInt(r.n)
                 [] r.t = "bulk" -> RBulk(r.sb)
                 [] r.t = "nil"  -> RNil
                 [] OTHER -> [t |-> "err", s |-> <<>>, n |-> 0]

StepCmd(mm, e) ==
    IF mm.dead THEN [mm EXCEPT !.ndead = @ + 1]
    ELSE
    LET c == [c |-> e.c, k |-> e.k, v |-> e.v, d |-> e.d]
        x == Exec(mm.kv, c, mm.now)
        o == Observed(e.reply)
        anyTtl == \E k \in MKeys : mm.kv[k].p /\ mm.kv[k].ttl.on
        \* K4: time-to-live of the key after the command
        after == x.kv[c.k]
        judgeTtl == c.c \in WriteCmds /\ after.p
        ttlOk == e.ttl.held /\ TtlFits(after.ttl, mm.now, e.ttl.unlimited, e.ttl.left_ms)
        \* label: the update short-cut of the engine drops a new term whose deadline is "equal" to the current one
        \* (within 1 s in the second unit, 60 s in the minute unit) - told apart from a wrong conversion by the
        \* observed deadline still fitting the OLD time-to-live and the two asked deadlines lying that close
        oldT == IF mm.kv[c.k].p THEN mm.kv[c.k].ttl ELSE NoTtl
        Abs(z) == IF z < 0 THEN 0 - z ELSE z
        \* (minute unit: the engine compares the two deadlines after each was rounded up to a whole minute, so terms asked up to
        \*  60 s + 60 s apart can be "equal": PSETEX k 65629229 then EXPIRE k 65536 are 93 s apart and both within one minute step)
        tol == IF after.ttl.hi - after.ttl.lo >= 60000 \/ oldT.hi - oldT.lo >= 60000 THEN 120000 ELSE 2000
        keptOld == oldT.on /\ after.ttl.on /\ ~after.ttl.ms /\ e.ttl.held /\ TtlFits(oldT, mm.now, e.ttl.unlimited, e.ttl.left_ms)
                   /\ Abs(oldT.lo - after.ttl.lo) <= tol
        ttlCls == IF keptOld THEN "update-within-tolerance-of-current-deadline-dropped"
                  ELSE IF after.ttl.on THEN (IF mm.kv[c.k].p THEN after.ttl.src \o "-on-existing-key" ELSE after.ttl.src)
                  ELSE IF c.c \in {"PERSIST", "PERSIST3"} THEN "persist-leaves-a-deadline"
                  ELSE IF c.c \in {"SET", "GETSET", "SET_XX"} THEN "plain-set-leaves-a-deadline"
                  ELSE "command-without-option-sets-a-deadline"
        \* K4: a SET .. NX with a wait option on a key that exists waits, then answers nil
        w == AskedWait(c)
        waits == c.c \in {"SET_NX_TX", "SET_NX_PTX"} /\ mm.kv[c.k].p /\ ~anyTtl
        waitOk == /\ e.wait_term_ms >= w.lo /\ e.wait_term_ms <= w.hi
                  /\ (w.ms \/ (e.ticks * 1000 >= w.lo /\ e.ticks * 1000 <= w.hi + SWEEP))
        waitCls == IF c.c = "SET_NX_TX" THEN (IF c.d > 65535 THEN "wait-seconds-option-above-65535-minutes" ELSE "wait-seconds-option-up-to-65535")
                   ELSE IF c.d > 65535000 THEN "wait-ms-option-above-65535000-minutes"
                   ELSE IF c.d > 3000 THEN "wait-ms-option-above-3000-stored-as-seconds" ELSE "wait-ms-option-up-to-3000"
    IN
    IF c.c = "TICK" THEN (IF x.open THEN [mm EXCEPT !.dead = TRUE, !.nopen = @ + 1] ELSE [mm EXCEPT !.kv = x.kv, !.now = @ + c.d * 1000])
    ELSE IF e.panic # ""
    THEN Report(mm, "redis-command-panic", e, [cls |-> DeviationClass(mm.kv, c, o, TRUE), cmd |-> e.args, panic |-> e.panic])
    ELSE IF x.open THEN [mm EXCEPT !.dead = TRUE, !.nopen = @ + 1]
    ELSE IF waits /\ ~e.hung /\ ~waitOk
    THEN Report(mm, "redis-ttl-differs-from-kv-store", e,
                [cls |-> waitCls, cmd |-> e.args, asked_ms |-> <<w.lo, w.hi>>, queued_with_ms |-> e.wait_term_ms, answered_after_s |-> e.ticks])
    ELSE IF waits /\ e.hung
    THEN Report(mm, "redis-ttl-differs-from-kv-store", e,
                [cls |-> waitCls, cmd |-> e.args, asked_ms |-> <<w.lo, w.hi>>, queued_with_ms |-> e.wait_term_ms, answered_after_s |-> -1])
    ELSE IF e.hung THEN Report(mm, "redis-command-no-reply", e, [cls |-> "other", cmd |-> e.args])
    ELSE IF e.ticks > 0 /\ anyTtl THEN [mm EXCEPT !.dead = TRUE, !.nopen = @ + 1]
    ELSE IF o \notin x.replies
    THEN Report(mm, "redis-reply-differs-from-kv-store", e,
                [cls |-> DeviationClass(mm.kv, c, o, FALSE), cmd |-> e.args, reply |-> e.reply.raw, expected |-> SetToSeq(x.replies),
                 key_state |-> mm.kv[c.k], waited_s |-> e.ticks])
    ELSE IF e.reply.extra # 0 THEN Report(mm, "redis-extra-reply-bytes", e, [cls |-> "other", cmd |-> e.args, extra |-> e.reply.extra])
    \* a time-to-live in the millisecond unit runs on the server's wall clock: when the key is already gone at the observation
    \* the driver was simply slower than the term (a 1 ms term on a busy machine) - nothing can be said, the history ends here
    ELSE IF judgeTtl /\ after.ttl.on /\ after.ttl.ms /\ ~e.ttl.held THEN [mm EXCEPT !.dead = TRUE, !.nopen = @ + 1]
    ELSE IF judgeTtl /\ ~ttlOk
    THEN Report(mm, "redis-ttl-differs-from-kv-store", e,
                [cls |-> ttlCls, cmd |-> e.args, asked_deadline_ms_from_now |-> IF after.ttl.on THEN <<after.ttl.lo - mm.now, after.ttl.hi - mm.now>> ELSE <<>>,
                 observed |-> e.ttl])
    ELSE [mm EXCEPT !.kv = x.kv, !.now = @ + e.ticks * 1000, !.ncmd = @ + 1, !.nttl = @ + (IF judgeTtl THEN 1 ELSE 0)]

Step(mm, e) ==
    CASE e.e = "begin" -> [M0 EXCEPT !.nv = mm.nv, !.name = e.name, !.ncmd = mm.ncmd, !.nopen = mm.nopen, !.ndead = mm.ndead, !.nttl = mm.nttl]
      [] e.e = "rcmd"  -> StepCmd(mm, e)
      [] e.e = "end"   -> IF l = Len(Trace) /\ PrintT("MONSTAT " \o ToJson([ops |-> mm.ncmd, agnostic |-> mm.nopen, replies |-> mm.ncmd, skipped_after_deviation |-> mm.ndead, ttl_judged |-> mm.nttl, viol |-> mm.nv]))
                          THEN mm ELSE mm
      [] OTHER -> mm

Init == l = 1 /\ m = M0
Next == /\ l <= Len(Trace)
        /\ m' = Step(m, Trace[l])
        /\ l' = l + 1
Spec == Init /\ [][Next]_vars
NoViolation == m.nv = 0
TraceConsumed == TLCGet("stats").diameter - 1 = Len(Trace)
=============================================================================
